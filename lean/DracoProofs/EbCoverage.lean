import DracoProofs.EbEncCounts
import DracoProofs.EbCountsIso
/-
  TRAVERSAL COMPLETENESS of the connectivity encoder (`EbEnc.encodeConnectivity`): every non-degenerate face of the
  encoder's corner table is a face of `processed_connectivity_corners_`, hence
  `processed.size = num_faces − NumDegeneratedFaces` (the `↔` of `EncCounts.encodeConnectivity_faces` holds
  unconditionally), for every table made by `CornerTable.create`.

  The argument is combinatorial ("C-chain descent"), not topological.  For every corner `x` pushed on
  `processed_connectivity_corners_` during one call of `EncodeConnectivityFromCorner` the traversal guarantees
    (G) the face across the gate edge `Opposite(x)` is visited,
    (R) the right neighbour `Opposite(Next(x))` is invalid, visited or PENDING (on the corner stack / the current corner),
    (L) the left neighbour `Opposite(Previous(x))` is invalid, visited, pending — or the symbol was `C`: the tip vertex `v` of
        `x` was not visited, is not on a hole, and every face around `v` is processed later than `x`.
  When the call ends nothing is pending.  If some left neighbour were still unvisited, take the LAST such `x` (a `C`): the
  fan of `v` is closed (`v` is not on a hole); walking around `v` from the unvisited left neighbour to the visited right
  neighbour there is a visited face `X` whose neighbour in the fan is unvisited; `X` was processed after `x` with some
  corner `c'`; by (G), (R) for `c'` that neighbour must be the LEFT neighbour of `c'`, so `c'` is a later `C` with an
  unvisited left neighbour — contradiction.  The same walk shows that the two other neighbours of an initial face are
  visited.  So the visited faces are closed under adjacency after every call, and the face the outer loop looks at is
  connected to the start face of the call.
-/
namespace Draco.EbEnc.Coverage
open Draco
open Draco.Eb hiding nextC prevC iabs
open Draco.EbEnc.EncCounts AttViews

/-! ## the table -/

theorem vget_eq (a : Array Nat) (i : Nat) : vget a i = a[i]! := by
  rw [Array.getElem!_eq_getD]; rfl

theorem sRP_eq (opp : Array Nat) {c : Nat} (h : c ≠ inv) : sRP opp c = Eb.prevC opp[Eb.prevC c]! := by
  unfold sRP; rw [if_neg h]

theorem sLP_eq (opp : Array Nat) {c : Nat} (h : c ≠ inv) : sLP opp c = Eb.nextC opp[Eb.nextC c]! := by
  unfold sLP; rw [if_neg h]

/-- what is used of the encoder's corner table -/
structure TblOK (t : CT) : Prop where
  ctok : CTOK t
  base : BaseTbl t.numCorners t.opp

theorem tblOK_ofTable {faces : Faces} {table : CornerTable} (hc : CornerTable.create faces = some table) :
    TblOK (CT.ofTable table) := ⟨ctok_ofTable hc, baseTbl_ofTable hc⟩

/-- `vertex_hole_id_` marks the vertex at `Next(b)` of every boundary corner `b` of a non-degenerate face -/
def HolesOK (t : CT) (holeId : Array Nat) : Prop :=
  ∀ b, b < t.numCorners → isDegenA t.c2v (b / 3) = false → t.opp[b]! = inv →
    vget holeId (t.c2v[Eb.nextC b]!) ≠ inv

section tbl
variable {t : CT} (hT : TblOK t)
include hT

theorem TblOK.lt_inv {c : Nat} (hc : c < t.numCorners) : c < inv := by
  have := hT.base.le; omega

/-- `Vertex` is constant along `SwingRight` -/
theorem TblOK.c2v_sR {c : Nat} (hc : c < t.numCorners) (hne : sRP t.opp c ≠ inv) :
    t.c2v[sRP t.opp c]! = t.c2v[c]! := by
  have hb := hT.base
  have hci := hT.lt_inv hc
  have hp : Eb.prevC c < t.c2v.size := hT.ctok.prev_lt hc
  rw [sRP_eq _ (by omega)] at hne ⊢
  have ho : t.opp[Eb.prevC c]! ≠ inv := by
    intro e; rw [e, prevC_inv] at hne; exact hne rfl
  have ho' : vget t.opp (Eb.prevC c) ≠ inv := by rw [vget_eq]; exact ho
  obtain ⟨h1, _⟩ := hT.ctok.hedge _ hp ho'
  rw [nextC_prevC' c hci, vget_eq, vget_eq, vget_eq] at h1
  exact h1.symm

/-- the faces along a `SwingRight` walk from a corner of a non-degenerate face are not degenerate, the corners are valid
    and carry the vertex of the first one -/
theorem TblOK.walk {c : Nat} (hc : c < t.numCorners) (hnd : isDegenA t.c2v (c / 3) = false) :
    ∀ k, iter (sRP t.opp) k c ≠ inv →
      iter (sRP t.opp) k c < t.numCorners ∧ isDegenA t.c2v (iter (sRP t.opp) k c / 3) = false ∧
        t.c2v[iter (sRP t.opp) k c]! = t.c2v[c]! := by
  intro k
  induction k with
  | zero => intro _; exact ⟨hc, hnd, rfl⟩
  | succ k ih =>
    intro hne
    rw [iter_succ'] at hne ⊢
    have hk : iter (sRP t.opp) k c ≠ inv := by
      intro e; rw [e, sRP_inv] at hne; exact hne rfl
    obtain ⟨h1, _, h3⟩ := ih hk
    have hlt : sRP t.opp (iter (sRP t.opp) k c) < t.numCorners := by
      rcases hT.base.sR_lt h1 with e | e
      · exact absurd e hne
      · exact e
    refine ⟨hlt, ?_, by rw [hT.c2v_sR h1 hne, h3]⟩
    -- the face of `SwingRight(y)` is the face of `Opposite(Previous(y))`
    have hy := hT.lt_inv h1
    have hp : Eb.prevC (iter (sRP t.opp) k c) < t.c2v.size := hT.ctok.prev_lt h1
    rw [sRP_eq _ (by omega)] at hne ⊢
    have ho : t.opp[Eb.prevC (iter (sRP t.opp) k c)]! ≠ inv := by
      intro e; rw [e, prevC_inv] at hne; exact hne rfl
    have ho' : vget t.opp (Eb.prevC (iter (sRP t.opp) k c)) ≠ inv := by rw [vget_eq]; exact ho
    have h5 := hT.ctok.oppnd _ hp ho'
    have h6 := hT.ctok.opp_lt _ hp ho'
    rw [vget_eq] at h5 h6
    rw [prevC_div3 _ (by have := hT.ctok.fits; omega)]
    exact h5

/-- **a vertex that is not on a hole has a closed fan** -/
theorem TblOK.fan_closed {holeId : Array Nat} (hH : HolesOK t holeId) {c : Nat} (hc : c < t.numCorners)
    (hnd : isDegenA t.c2v (c / 3) = false) (hv : vget holeId (t.c2v[c]!) = inv) :
    ∀ k, iter (sRP t.opp) k c ≠ inv := by
  intro k
  induction k with
  | zero => exact (hT.base.ne_inv hc)
  | succ k ih =>
    intro e
    rw [iter_succ'] at e
    obtain ⟨h1, h2, h3⟩ := hT.walk hc hnd k ih
    have hy := hT.lt_inv h1
    have hp : Eb.prevC (iter (sRP t.opp) k c) < t.numCorners := hT.ctok.prev_lt h1
    have hb : t.opp[Eb.prevC (iter (sRP t.opp) k c)]! = inv := by
      apply Classical.byContradiction
      intro ho
      obtain ⟨holt, _⟩ := hT.base.invol _ hp ho
      rw [sRP_eq _ (by omega)] at e
      have := prevC_lt_inv _ (hT.lt_inv holt)
      omega
    have := hH _ hp (by rw [prevC_div3 _ hy]; exact h2) hb
    rw [nextC_prevC' _ hy, h3] at this
    exact this hv

end tbl

/-! ## the walk around a vertex -/

/-- the corner is invalid or its face is visited -/
def Vis (vf : Array Bool) (y : Nat) : Prop := y = inv ∨ vf.getD (y / 3) false = true

theorem Vis.mono {vf vf' : Array Bool} {y : Nat} (h : Vis vf y)
    (hm : ∀ f, vf.getD f false = true → vf'.getD f false = true) : Vis vf' y := by
  rcases h with h | h
  · exact Or.inl h
  · exact Or.inr (hm _ h)

theorem exists_transition (p : Nat → Prop) : ∀ (d a : Nat), p a → ¬ p (a + d) → ∃ k, a ≤ k ∧ k < a + d ∧ p k ∧ ¬ p (k + 1) := by
  intro d
  induction d with
  | zero => intro a h1 h2; exact absurd h1 h2
  | succ d ih =>
    intro a h1 h2
    by_cases h : p (a + 1)
    · obtain ⟨k, k1, k2, k3, k4⟩ := ih (a + 1) h (by rw [show a + 1 + d = a + (d + 1) by omega]; exact h2)
      exact ⟨k, by omega, by omega, k3, k4⟩
    · exact ⟨a, Nat.le_refl _, by omega, h1, h⟩

theorem same_face {a b : Nat} (_ha : a < inv) (hb : b < inv) (h : a / 3 = b / 3) :
    a = b ∨ a = Eb.nextC b ∨ a = Eb.prevC b := by
  have := face_corners b hb (a % 3) (Nat.mod_lt _ (by omega))
  have e : 3 * (b / 3) + a % 3 = a := by omega
  rw [e] at this
  exact this

/-- the corners of a non-degenerate face carry different vertices -/
theorem nondeg_prev {c2v : Array Nat} {y : Nat} (hy : y < inv) (hnd : isDegenA c2v (y / 3) = false) :
    c2v[Eb.prevC y]! ≠ c2v[y]! := by
  unfold isDegenA at hnd
  simp only [Bool.or_eq_false_iff, beq_eq_false_iff_ne, ne_eq] at hnd
  obtain ⟨⟨h01, h02⟩, h12⟩ := hnd
  rw [vget_eq, vget_eq] at h01 h02 h12
  rw [prevC_cf y hy]
  have e : y = 3 * (y / 3) + y % 3 := by omega
  have h3 : y % 3 = 0 ∨ y % 3 = 1 ∨ y % 3 = 2 := by omega
  rcases h3 with h | h | h
  · rw [if_pos h]
    have e1 : y + 2 = 3 * (y / 3) + 2 := by omega
    have e2 : y = 3 * (y / 3) := by omega
    rw [e1]; conv_rhs => rw [e2]
    exact fun e => h02 e.symm
  · rw [if_neg (by omega)]
    have e1 : y - 1 = 3 * (y / 3) := by omega
    have e2 : y = 3 * (y / 3) + 1 := by omega
    rw [e1]; conv_rhs => rw [e2]
    exact h01
  · rw [if_neg (by omega)]
    have e1 : y - 1 = 3 * (y / 3) + 1 := by omega
    have e2 : y = 3 * (y / 3) + 2 := by omega
    rw [e1]; conv_rhs => rw [e2]
    exact h12

section fan
variable {t : CT} (hT : TblOK t)
include hT

/-- **the transition on a closed fan**: around the vertex of `x0`, between an unvisited left neighbour and a visited (or
    absent, which is impossible) right neighbour, there is a visited face whose next face towards the left neighbour
    is not visited -/
theorem fan_transition (vf : Array Bool) {x0 : Nat} (hx0 : x0 < t.numCorners)
    (hnd : isDegenA t.c2v (x0 / 3) = false) (hcl : ∀ k, iter (sRP t.opp) k x0 ≠ inv)
    (h1 : t.opp[Eb.prevC x0]! ≠ inv ∧ vf.getD (t.opp[Eb.prevC x0]! / 3) false = false)
    (h2 : Vis vf t.opp[Eb.nextC x0]!) :
    ∃ y, y < t.numCorners ∧ y ≠ x0 ∧ t.c2v[y]! = t.c2v[x0]! ∧ vf.getD (y / 3) false = true ∧
      t.opp[Eb.nextC y]! ≠ inv ∧ vf.getD (t.opp[Eb.nextC y]! / 3) false = false := by
  have hb := hT.base
  have hfit := hb.le
  have hxi : x0 ≠ inv := hb.ne_inv hx0
  obtain ⟨P0, hO, _⟩ := CountsIso.orbit_exists hb hx0
  obtain ⟨J, rfl⟩ : ∃ J, P0 = J + 1 := ⟨P0 - 1, by have := hO.pos; omega⟩
  have hper : iter (sRP t.opp) (J + 1) x0 = x0 := by
    rcases hO.fin with e | e
    · exact absurd e (hcl _)
    · exact e
  -- the faces of the walk
  have hw := hT.walk hx0 hnd
  have face_sR : ∀ c, c < t.numCorners → sRP t.opp c ≠ inv → sRP t.opp c / 3 = t.opp[Eb.prevC c]! / 3 := by
    intro c hc hne
    rw [sRP_eq _ (hb.ne_inv hc)] at hne ⊢
    have ho : t.opp[Eb.prevC c]! ≠ inv := by
      intro e; rw [e, prevC_inv] at hne; exact hne rfl
    obtain ⟨holt, _⟩ := hb.invol _ (prevC_ltN hb.n3 hb.le hc) ho
    exact prevC_div3 _ (by omega)
  -- `SwingLeft` of a walk corner is the corner before
  have hsl : ∀ k, sLP t.opp (iter (sRP t.opp) (k + 1) x0) = iter (sRP t.opp) k x0 := by
    intro k
    have hk := (hw k (hcl k)).1
    exact (hb.sR_sL hk (iter_succ' (sRP t.opp) k x0).symm (hcl (k + 1))).2
  have face_sL : ∀ y, y < t.numCorners → sLP t.opp y ≠ inv →
      t.opp[Eb.nextC y]! ≠ inv ∧ t.opp[Eb.nextC y]! / 3 = sLP t.opp y / 3 := by
    intro y hy hne
    rw [sLP_eq _ (hb.ne_inv hy)] at hne ⊢
    have ho : t.opp[Eb.nextC y]! ≠ inv := by
      intro e; rw [e, nextC_inv] at hne; exact hne rfl
    obtain ⟨holt, _⟩ := hb.invol _ (nextC_ltN hb.n3 hy) ho
    exact ⟨ho, (nextC_div3 _ (by omega)).symm⟩
  let p : Nat → Prop := fun k => vf.getD (iter (sRP t.opp) k x0 / 3) false = false
  have hp1 : p 1 := by
    show vf.getD (sRP t.opp x0 / 3) false = false
    rw [face_sR x0 hx0 (hcl 1)]; exact h1.2
  have hpJ : ¬ p J := by
    show ¬ vf.getD (iter (sRP t.opp) J x0 / 3) false = false
    have e : sLP t.opp x0 = iter (sRP t.opp) J x0 := by
      have := hsl J
      rw [hper] at this; exact this
    obtain ⟨f1, f2⟩ := face_sL x0 hx0 (by rw [e]; exact hcl J)
    rcases h2 with h | h
    · exact absurd h f1
    · rw [← e, ← f2, h]; simp
  have hJ1 : 1 ≤ J := by
    rcases Nat.eq_zero_or_pos J with e | e
    · exfalso
      subst e
      apply hpJ
      have : iter (sRP t.opp) 1 x0 = x0 := hper
      show vf.getD (x0 / 3) false = false
      have h := hp1
      simp only [p, this] at h
      exact h
    · exact e
  obtain ⟨k, k1, k2, k3, k4⟩ := exists_transition p (J - 1) 1 hp1 (by rw [show 1 + (J - 1) = J by omega]; exact hpJ)
  refine ⟨iter (sRP t.opp) (k + 1) x0, (hw _ (hcl _)).1, ?_, (hw _ (hcl _)).2.2, ?_, ?_⟩
  · exact hO.nef (k + 1) (by omega) (by omega)
  · cases hv : vf.getD (iter (sRP t.opp) (k + 1) x0 / 3) false with
    | true => rfl
    | false => exact absurd hv k4
  · obtain ⟨f1, f2⟩ := face_sL _ (hw _ (hcl (k + 1))).1 (by rw [hsl k]; exact hcl k)
    refine ⟨f1, ?_⟩
    rw [f2, hsl k]
    exact k3

end fan

/-! ## the state when a call of `EncodeConnectivityFromCorner` ends -/

/-- the symbol at `P[i]` was `C`: its tip vertex is not on a hole and every visited face at that vertex was processed at
    `P[i]` or later -/
def CFlag (t : CT) (holeId : Array Nat) (vf : Array Bool) (P : Array Nat) (i : Nat) : Prop :=
  vget holeId (t.c2v[P[i]!]!) = inv ∧
  ∀ z, z < t.numCorners → t.c2v[z]! = t.c2v[P[i]!]! → vf.getD (z / 3) false = true →
    ∃ i', i ≤ i' ∧ i' < P.size ∧ P[i']! / 3 = z / 3

/-- what is known of the three neighbours of `P[i]` when nothing is pending -/
structure EndEnt (t : CT) (holeId : Array Nat) (vf : Array Bool) (P : Array Nat) (i : Nat) : Prop where
  g : Vis vf t.opp[P[i]!]!
  r : Vis vf t.opp[Eb.nextC P[i]!]!
  l : Vis vf t.opp[Eb.prevC P[i]!]! ∨ CFlag t holeId vf P i

/-- **the descent**: no left neighbour is left unvisited -/
theorem no_bad {t : CT} (hT : TblOK t) {holeId : Array Nat} (hH : HolesOK t holeId) {vf : Array Bool} {P : Array Nat}
    {p0 : Nat} (hnd : ∀ f, vf.getD f false = true → isDegenA t.c2v f = false)
    (hP : ∀ i, p0 ≤ i → i < P.size → P[i]! < t.numCorners ∧ vf.getD (P[i]! / 3) false = true)
    (hent : ∀ i, p0 ≤ i → i < P.size → EndEnt t holeId vf P i) :
    ∀ m i, P.size - i = m → p0 ≤ i → i < P.size → Vis vf t.opp[Eb.prevC P[i]!]! := by
  intro m
  induction m using Nat.strong_induction_on with
  | _ m ih =>
    intro i hm hi0 hi
    rcases (hent i hi0 hi).l with h | hcf
    · exact h
    apply Classical.byContradiction
    intro hbad
    have hb := hT.base
    have hl : t.opp[Eb.prevC P[i]!]! ≠ inv ∧ vf.getD (t.opp[Eb.prevC P[i]!]! / 3) false = false := by
      constructor
      · intro e; exact hbad (Or.inl e)
      · cases hv : vf.getD (t.opp[Eb.prevC P[i]!]! / 3) false with
        | false => rfl
        | true => exact absurd (Or.inr hv) hbad
    obtain ⟨hx, hxv⟩ := hP i hi0 hi
    have hxnd := hnd _ hxv
    have hcl := hT.fan_closed hH hx hxnd hcf.1
    obtain ⟨y, hy, hyx, hyv, hyvis, ho, hou⟩ := fan_transition hT vf hx hxnd hcl hl (hent i hi0 hi).r
    obtain ⟨i', hii, hi', hface⟩ := hcf.2 y hy hyv hyvis
    obtain ⟨hc', _⟩ := hP i' (by omega) hi'
    have hnotvis : ¬ Vis vf t.opp[Eb.nextC y]! := by
      intro h
      rcases h with h | h
      · exact ho h
      · rw [hou] at h; cases h
    rcases same_face (hT.lt_inv hc') (hT.lt_inv hy) hface with e | e | e
    · exact hnotvis (by have := (hent i' (by omega) hi').r; rw [e] at this; exact this)
    · exact hnotvis (by have := (hent i' (by omega) hi').g; rw [e] at this; exact this)
    · have hne : i' ≠ i := by
        intro e'
        rw [e'] at e
        have := nondeg_prev (c2v := t.c2v) (hT.lt_inv hy) (hnd _ hyvis)
        rw [← e, hyv] at this
        exact this rfl
      have := ih (P.size - i') (by omega) i' rfl (by omega) hi'
      rw [e, prevC_prevC' y (hT.lt_inv hy)] at this
      exact hnotvis this

/-! ## the visited faces are closed under adjacency after a call -/

/-- every neighbour of a visited face is visited -/
def Closed (t : CT) (vf : Array Bool) : Prop :=
  ∀ x, x < t.numCorners → vf.getD (x / 3) false = true → Vis vf t.opp[x]!

/-- a left neighbour through the fan of the tip vertex: if all OTHER visited faces have their neighbours visited -/
theorem nbr_via_fan {t : CT} (hT : TblOK t) {holeId : Array Nat} (hH : HolesOK t holeId) (vf : Array Bool) {x0 : Nat}
    (hx0 : x0 < t.numCorners) (hnd : ∀ f, vf.getD f false = true → isDegenA t.c2v f = false)
    (hv0 : vf.getD (x0 / 3) false = true) (hhole : vget holeId (t.c2v[x0]!) = inv)
    (h2 : Vis vf t.opp[Eb.nextC x0]!)
    (hgood : ∀ y, y < t.numCorners → y / 3 ≠ x0 / 3 → vf.getD (y / 3) false = true → Vis vf t.opp[Eb.nextC y]!) :
    Vis vf t.opp[Eb.prevC x0]! := by
  apply Classical.byContradiction
  intro hbad
  have hl : t.opp[Eb.prevC x0]! ≠ inv ∧ vf.getD (t.opp[Eb.prevC x0]! / 3) false = false := by
    constructor
    · intro e; exact hbad (Or.inl e)
    · cases hv : vf.getD (t.opp[Eb.prevC x0]! / 3) false with
      | false => rfl
      | true => exact absurd (Or.inr hv) hbad
  have hxnd := hnd _ hv0
  have hcl := hT.fan_closed hH hx0 hxnd hhole
  obtain ⟨y, hy, hyx, hyv, hyvis, ho, hou⟩ := fan_transition hT vf hx0 hxnd hcl hl h2
  have hface : y / 3 ≠ x0 / 3 := by
    intro e
    rcases same_face (hT.lt_inv hy) (hT.lt_inv hx0) e with e' | e' | e'
    · exact hyx e'
    · -- `y = Next(x0)`: then `x0 = Previous(y)` carries another vertex
      have := nondeg_prev (c2v := t.c2v) (hT.lt_inv hy) (hnd _ hyvis)
      rw [e', prevC_nextC' x0 (hT.lt_inv hx0), ← e', hyv] at this
      exact this rfl
    · have := nondeg_prev (c2v := t.c2v) (hT.lt_inv hx0) hxnd
      rw [← e', hyv] at this
      exact this rfl
  rcases hgood y hy hface hyvis with h | h
  · exact ho h
  · rw [hou] at h; cases h

/-- the faces visited when a call of `EncodeConnectivityFromCorner` ends: those visited before (closed under adjacency),
    possibly the initial face `F`, and the faces of `P[p0 …]` -/
theorem closed_after_call {t : CT} (hT : TblOK t) {holeId : Array Nat} (hH : HolesOK t holeId) {vfOld vf : Array Bool}
    {P : Array Nat} {p0 : Nat} (isInit : Nat → Prop)
    (hold : Closed t vfOld) (hmono : ∀ f, vfOld.getD f false = true → vf.getD f false = true)
    (hnd : ∀ f, vf.getD f false = true → isDegenA t.c2v f = false)
    (hcls : ∀ f, vf.getD f false = true →
      vfOld.getD f false = true ∨ isInit f ∨ ∃ i, p0 ≤ i ∧ i < P.size ∧ P[i]! / 3 = f)
    (hP : ∀ i, p0 ≤ i → i < P.size → P[i]! < t.numCorners ∧ vf.getD (P[i]! / 3) false = true)
    (hent : ∀ i, p0 ≤ i → i < P.size → EndEnt t holeId vf P i) :
    ∀ x, x < t.numCorners → vf.getD (x / 3) false = true → ¬ isInit (x / 3) → Vis vf t.opp[x]! := by
  intro x hx hv hni
  rcases hcls _ hv with h | h | ⟨i, hi0, hi, hf⟩
  · exact (hold x hx h).mono hmono
  · exact absurd h hni
  · obtain ⟨hc, _⟩ := hP i hi0 hi
    rcases same_face (hT.lt_inv hx) (hT.lt_inv hc) hf.symm with e | e | e
    · rw [e]; exact (hent i hi0 hi).g
    · rw [e]; exact (hent i hi0 hi).r
    · rw [e]; exact no_bad hT hH hnd hP hent _ i rfl hi0 hi

/-- … including the initial face: its vertices are not on holes and the face across the edge the traversal starts at is
    visited -/
theorem closed_after_call_init {t : CT} (hT : TblOK t) {holeId : Array Nat} (hH : HolesOK t holeId)
    {vfOld vf : Array Bool} {P : Array Nat} {p0 F : Nat}
    (hold : Closed t vfOld) (hmono : ∀ f, vfOld.getD f false = true → vf.getD f false = true)
    (hnd : ∀ f, vf.getD f false = true → isDegenA t.c2v f = false)
    (hcls : ∀ f, vf.getD f false = true →
      vfOld.getD f false = true ∨ f = F ∨ ∃ i, p0 ≤ i ∧ i < P.size ∧ P[i]! / 3 = f)
    (hP : ∀ i, p0 ≤ i → i < P.size → P[i]! < t.numCorners ∧ vf.getD (P[i]! / 3) false = true)
    (hent : ∀ i, p0 ≤ i → i < P.size → EndEnt t holeId vf P i)
    (hF : 3 * F + 2 < t.numCorners) (hFv : vf.getD F false = true)
    (hhole : ∀ k, k < 3 → vget holeId (t.c2v[3 * F + k]!) = inv)
    (hstart : Vis vf t.opp[3 * F + 1]!) :
    Closed t vf := by
  have hfit := hT.base.le
  have hexc := closed_after_call hT hH (fun f => f = F) hold hmono hnd hcls hP hent
  have hgood : ∀ x0, x0 < t.numCorners → x0 / 3 = F → ∀ y, y < t.numCorners → y / 3 ≠ x0 / 3 →
      vf.getD (y / 3) false = true → Vis vf t.opp[Eb.nextC y]! := by
    intro x0 _ hx0F y hy hne hv
    have hny : Eb.nextC y < t.numCorners := hT.ctok.next_lt hy
    have hd := nextC_div3 y (hT.lt_inv hy)
    exact hexc _ hny (by rw [hd]; exact hv) (by rw [hd, ← hx0F]; exact hne)
  have n0 : Eb.nextC (3 * F) = 3 * F + 1 := by rw [nextC_cf _ (by omega)]; split <;> omega
  have p0' : Eb.prevC (3 * F) = 3 * F + 2 := by rw [prevC_cf _ (by omega)]; split <;> omega
  have n1 : Eb.nextC (3 * F + 1) = 3 * F + 2 := by rw [nextC_cf _ (by omega)]; split <;> omega
  have p1 : Eb.prevC (3 * F + 1) = 3 * F := by rw [prevC_cf _ (by omega)]; split <;> omega
  -- the neighbour across `Previous(start corner)`, around the vertex of the start corner
  have hN2 : Vis vf t.opp[3 * F + 2]! := by
    have := nbr_via_fan hT hH vf (x0 := 3 * F) (by omega) hnd (by rw [show 3 * F / 3 = F by omega]; exact hFv)
      (by have := hhole 0 (by omega); simpa using this) (by rw [n0]; exact hstart)
      (hgood (3 * F) (by omega) (by omega))
    rw [p0'] at this; exact this
  -- the neighbour across the start corner, around the vertex of `Next(start corner)`
  have hN1 : Vis vf t.opp[3 * F]! := by
    have := nbr_via_fan hT hH vf (x0 := 3 * F + 1) (by omega) hnd (by rw [show (3 * F + 1) / 3 = F by omega]; exact hFv)
      (hhole 1 (by omega)) (by rw [n1]; exact hN2) (hgood (3 * F + 1) (by omega) (by omega))
    rw [p1] at this; exact this
  intro x hx hv
  by_cases hxF : x / 3 = F
  · have : x = 3 * F ∨ x = 3 * F + 1 ∨ x = 3 * F + 2 := by omega
    rcases this with e | e | e
    · rw [e]; exact hN1
    · rw [e]; exact hstart
    · rw [e]; exact hN2
  · exact hexc x hx hv hxF

/-! ## the invariant of one call -/

/-- a neighbour that still has to be visited is on the corner stack or is the current corner -/
def Pend (vf : Array Bool) (stack : Array Nat) (cur y : Nat) : Prop := Vis vf y ∨ y ∈ stack.toList ∨ y = cur

/-- the face a corner was reached from is visited -/
def GateOK (t : CT) (vf : Array Bool) (y : Nat) : Prop := y = inv ∨ Vis vf t.opp[y]!

structure Ent (t : CT) (holeId : Array Nat) (vf : Array Bool) (P stack : Array Nat) (cur i : Nat) : Prop where
  g : Vis vf t.opp[P[i]!]!
  r : Pend vf stack cur t.opp[Eb.nextC P[i]!]!
  l : Pend vf stack cur t.opp[Eb.prevC P[i]!]! ∨ CFlag t holeId vf P i

/-- the invariant of `EncodeConnectivityFromCorner`: `vfS` the faces visited when it started, `p0` the number of processed
    corners then, `y0` the corner it started at -/
structure CallInv (t : CT) (holeId : Array Nat) (vfS : Array Bool) (p0 y0 : Nat) (vf : Array Bool) (P stack : Array Nat)
    (cur : Nat) : Prop where
  ent : ∀ i, p0 ≤ i → i < P.size → Ent t holeId vf P stack cur i
  cls : ∀ f, vf.getD f false = true → vfS.getD f false = true ∨ ∃ i, p0 ≤ i ∧ i < P.size ∧ P[i]! / 3 = f
  mono : ∀ f, vfS.getD f false = true → vf.getD f false = true
  stG : ∀ y, y ∈ stack.toList → GateOK t vf y
  curG : GateOK t vf cur
  start : Pend vf stack cur y0
  p0le : p0 ≤ P.size

theorem CFlag.push {t : CT} {holeId : Array Nat} {vf : Array Bool} {P : Array Nat} {i c : Nat} (hi : i < P.size)
    (hlt : c / 3 < vf.size) (h : CFlag t holeId vf P i) :
    CFlag t holeId (vf.setIfInBounds (c / 3) true) (P.push c) i := by
  have e : (P.push c)[i]! = P[i]! := by rw [push_get!, if_neg (by omega)]
  refine ⟨by rw [e]; exact h.1, ?_⟩
  intro z hz hzv hvis
  rw [e] at hzv
  rw [bget_set' _ _ _ _ hlt] at hvis
  by_cases hzc : z / 3 = c / 3
  · exact ⟨P.size, by omega, by simp, by rw [push_get!, if_pos rfl, hzc]⟩
  · rw [if_neg hzc] at hvis
    obtain ⟨i', h1, h2, h3⟩ := h.2 z hz hzv hvis
    exact ⟨i', h1, by simp; omega, by rw [push_get!, if_neg (by omega)]; exact h3⟩

/-- **one traversal step**: the current corner `c` is pushed on `processed` and its face marked; `stack'`, `cur'` the
    corner stack and current corner afterwards -/
theorem CallInv.visit {t : CT} {holeId : Array Nat} {vfS : Array Bool} {p0 y0 : Nat} {vf : Array Bool}
    {P stack stack' : Array Nat} {c cur' : Nat}
    (h : CallInv t holeId vfS p0 y0 vf P stack c) (hc : c ≠ inv) (hlt : c / 3 < vf.size)
    (ha : ∀ y, y ∈ stack.toList → y ∈ stack'.toList ∨ Vis (vf.setIfInBounds (c / 3) true) y)
    (hr : Pend (vf.setIfInBounds (c / 3) true) stack' cur' t.opp[Eb.nextC c]!)
    (hl : Pend (vf.setIfInBounds (c / 3) true) stack' cur' t.opp[Eb.prevC c]! ∨
      CFlag t holeId (vf.setIfInBounds (c / 3) true) (P.push c) P.size)
    (hsg : ∀ y, y ∈ stack'.toList → y ∈ stack.toList ∨ GateOK t (vf.setIfInBounds (c / 3) true) y)
    (hcg : GateOK t (vf.setIfInBounds (c / 3) true) cur') :
    CallInv t holeId vfS p0 y0 (vf.setIfInBounds (c / 3) true) (P.push c) stack' cur' := by
  have hm : ∀ f, vf.getD f false = true → (vf.setIfInBounds (c / 3) true).getD f false = true :=
    fun f hf => bget_set_true_mono vf (c / 3) f hf
  have hcv : Vis (vf.setIfInBounds (c / 3) true) c := Or.inr (by rw [bget_set' _ _ _ _ hlt, if_pos rfl])
  have hpend : ∀ y, Pend vf stack c y → Pend (vf.setIfInBounds (c / 3) true) stack' cur' y := by
    intro y hy
    rcases hy with hy | hy | hy
    · exact Or.inl (hy.mono hm)
    · rcases ha y hy with h' | h'
      · exact Or.inr (Or.inl h')
      · exact Or.inl h'
    · rw [hy]; exact Or.inl hcv
  refine ⟨?_, ?_, ?_, ?_, hcg, hpend _ h.start, by have := h.p0le; simp; omega⟩
  · intro i hi0 hi
    rw [Array.size_push] at hi
    by_cases hlast : i = P.size
    · subst hlast
      have e : (P.push c)[P.size]! = c := by rw [push_get!, if_pos rfl]
      refine ⟨?_, ?_, ?_⟩
      · rw [e]
        rcases h.curG with h' | h'
        · exact absurd h' hc
        · exact h'.mono hm
      · rw [e]; exact hr
      · rw [e]; exact hl
    · have hi' : i < P.size := by omega
      have e : (P.push c)[i]! = P[i]! := by rw [push_get!, if_neg hlast]
      obtain ⟨g, r, l⟩ := h.ent i hi0 hi'
      refine ⟨by rw [e]; exact g.mono hm, by rw [e]; exact hpend _ r, ?_⟩
      rcases l with l | l
      · left; rw [e]; exact hpend _ l
      · right; exact l.push hi' hlt
  · intro f hf
    rw [bget_set' _ _ _ _ hlt] at hf
    by_cases e : f = c / 3
    · right
      exact ⟨P.size, h.p0le, by simp, by rw [push_get!, if_pos rfl, e]⟩
    · rw [if_neg e] at hf
      rcases h.cls f hf with h' | ⟨i, h1, h2, h3⟩
      · exact Or.inl h'
      · exact Or.inr ⟨i, h1, by simp; omega, by rw [push_get!, if_neg (by omega)]; exact h3⟩
  · intro f hf; exact hm f (h.mono f hf)
  · intro y hy
    rcases hsg y hy with h' | h'
    · rcases h.stG y h' with h'' | h''
      · exact Or.inl h''
      · exact Or.inr (h''.mono hm)
    · exact h'

/-! ### stack and counting lemmas -/

theorem mem_toList_iff_get {st : Array Nat} {y : Nat} : y ∈ st.toList ↔ ∃ i, i < st.size ∧ st[i]! = y := by
  rw [Array.mem_toList_iff, Array.mem_iff_getElem]
  constructor
  · rintro ⟨i, hi, e⟩; exact ⟨i, hi, by rw [← e]; simp [hi]⟩
  · rintro ⟨i, hi, e⟩; exact ⟨i, hi, by rw [← e]; simp [hi]⟩

theorem back!_eq (st : Array Nat) : st.back! = st[st.size - 1]! := by
  rw [Array.back!_eq_back?, Array.back?_eq_getElem?]
  simp [Array.getElem!_eq_getD, Array.getD_eq_getD_getElem?]

theorem mem_pop_or_back {st : Array Nat} {y : Nat} (hy : y ∈ st.toList) : y ∈ st.pop.toList ∨ y = st.back! := by
  obtain ⟨i, hi, e⟩ := mem_toList_iff_get.mp hy
  by_cases h : i = st.size - 1
  · right; rw [back!_eq, ← h, e]
  · left
    rw [mem_toList_iff_get]
    refine ⟨i, by simp; omega, ?_⟩
    rw [← e]
    simp only [Array.getElem!_eq_getD, Array.getD_eq_getD_getElem?, Array.getElem?_pop]
    rw [if_pos (by omega)]

theorem mem_pop {st : Array Nat} {y : Nat} (hy : y ∈ st.pop.toList) : y ∈ st.toList := by
  rw [Array.toList_pop] at hy
  exact List.mem_of_mem_dropLast hy

theorem mem_split_or_back {st : Array Nat} {a b y : Nat} (hy : y ∈ st.toList) :
    y ∈ ((st.set! (st.size - 1) a).push b).toList ∨ y = st.back! := by
  obtain ⟨i, hi, e⟩ := mem_toList_iff_get.mp hy
  by_cases h : i = st.size - 1
  · right; rw [back!_eq, ← h, e]
  · left
    rw [Array.toList_push, List.mem_append]
    left
    rw [mem_toList_iff_get]
    refine ⟨i, by simp; omega, ?_⟩
    rw [← e, Array.set!_eq_setIfInBounds]
    simp only [Array.getElem!_eq_getD, Array.getD_eq_getD_getElem?, Array.getElem?_setIfInBounds]
    rw [if_neg (fun h' => h h'.symm)]

theorem mem_split {st : Array Nat} {a b y : Nat} (hy : y ∈ ((st.set! (st.size - 1) a).push b).toList) :
    y ∈ st.toList ∨ y = a ∨ y = b := by
  rw [Array.toList_push, List.mem_append] at hy
  rcases hy with hy | hy
  · rw [Array.set!_eq_setIfInBounds, Array.toList_setIfInBounds] at hy
    rcases List.mem_or_eq_of_mem_set hy with h | h
    · exact Or.inl h
    · exact Or.inr (Or.inl h)
  · simp only [List.mem_singleton] at hy
    exact Or.inr (Or.inr hy)

/-- number of visited faces -/
def vcount (vf : Array Bool) (n : Nat) : Nat := (List.range n).countP (fun f => vf.getD f false)

theorem vcount_le (vf : Array Bool) (n : Nat) : vcount vf n ≤ n := by
  unfold vcount
  have := List.countP_le_length (p := fun f => vf.getD f false) (l := List.range n)
  simpa using this

theorem countP_set_aux (vf : Array Bool) (k : Nat) (hk : k < vf.size) (hf : vf.getD k false = false) :
    ∀ l : List Nat, l.Nodup → (l.countP (fun f => (vf.setIfInBounds k true).getD f false)) =
      l.countP (fun f => vf.getD f false) + if k ∈ l then 1 else 0 := by
  intro l
  induction l with
  | nil => intro _; simp
  | cons a l ih =>
    intro hnd
    rw [List.nodup_cons] at hnd
    rw [List.countP_cons, List.countP_cons, ih hnd.2, bget_set' _ _ _ _ hk]
    by_cases e : a = k
    · subst e
      have : ¬ a ∈ l := hnd.1
      simp [hf, this]
    · have e' : ¬ k = a := fun h => e h.symm
      simp only [if_neg e, List.mem_cons, e', false_or]
      omega

theorem vcount_set (vf : Array Bool) (n k : Nat) (hk : k < vf.size) (hkn : k < n) (hf : vf.getD k false = false) :
    vcount (vf.setIfInBounds k true) n = vcount vf n + 1 := by
  unfold vcount
  rw [countP_set_aux vf k hk hf _ List.nodup_range, if_pos (List.mem_range.mpr hkn)]

theorem all_of_vcount {vf : Array Bool} {n : Nat} (h : n ≤ vcount vf n) : ∀ f, f < n → vf.getD f false = true := by
  intro f hf
  have h1 : vcount vf n = (List.range n).length := by
    have := vcount_le vf n
    simp; omega
  unfold vcount at h1
  rw [List.countP_eq_length] at h1
  exact h1 f (List.mem_range.mpr hf)

/-! ### helper lemmas on the invariant -/

section helpers
variable {t : CT} (hT : TblOK t)
include hT

/-- the corner reached over `Opposite` from a corner of a visited face has a visited gate -/
theorem gate_of_opp {vf : Array Bool} {x : Nat} (hx : x < t.numCorners) (hne : t.opp[x]! ≠ inv)
    (hv : vf.getD (x / 3) false = true) : GateOK t vf t.opp[x]! := by
  obtain ⟨_, h2⟩ := hT.base.invol x hx hne
  right
  rw [h2]
  exact Or.inr hv

omit hT in
theorem CallInv.weaken {holeId : Array Nat} {vfS : Array Bool} {p0 y0 : Nat} {vf : Array Bool} {P stack stack' : Array Nat}
    {cur cur' : Nat} (h : CallInv t holeId vfS p0 y0 vf P stack cur)
    (hp : ∀ y, Pend vf stack cur y → Pend vf stack' cur' y)
    (hsg : ∀ y, y ∈ stack'.toList → GateOK t vf y) (hcg : GateOK t vf cur') :
    CallInv t holeId vfS p0 y0 vf P stack' cur' := by
  refine ⟨?_, h.cls, h.mono, hsg, hcg, hp _ h.start, h.p0le⟩
  intro i hi0 hi
  obtain ⟨g, r, l⟩ := h.ent i hi0 hi
  refine ⟨g, hp _ r, ?_⟩
  rcases l with l | l
  · exact Or.inl (hp _ l)
  · exact Or.inr l

end helpers

/-- in the traversal loop: the stack is not empty and its top is the current corner or already visited -/
def TopOK (vf : Array Bool) (stack : Array Nat) (cur : Nat) : Prop :=
  stack.isEmpty = false ∧ (cur = stack.back! ∨ Vis vf stack.back!)

/-! ## the traversal loop keeps the invariant -/

section loops
variable {t : CT} (hT : TblOK t) {holeId : Array Nat} {vfS : Array Bool} {p0 y0 : Nat}
include hT

/-- the traversal loop continues -/
def XIn (t : CT) (holeId : Array Nat) (vfS : Array Bool) (p0 y0 : Nat) (s : InSt) : Prop :=
  CallInv t holeId vfS p0 y0 s.1 s.2.2.2.2.2.1 s.2.2.2.2.2.2.2.2.2.2.1 s.2.2.2.2.2.2.2.2.2.2.2.1 ∧
  TopOK s.1 s.2.2.2.2.2.2.2.2.2.2.1 s.2.2.2.2.2.2.2.2.2.2.2.1 ∧
  s.2.2.2.2.2.2.2.2.2.2.2.2 ≤ vcount s.1 t.numFaces

/-- … with `n` faces visited by this loop -/
def XInN (t : CT) (holeId : Array Nat) (vfS : Array Bool) (p0 y0 n : Nat) (s : InSt) : Prop :=
  XIn t holeId vfS p0 y0 s ∧ s.2.2.2.2.2.2.2.2.2.2.2.2 = n

/-- the traversal loop is left: no current corner -/
def XQ (t : CT) (holeId : Array Nat) (vfS : Array Bool) (p0 y0 : Nat) (s : InSt) : Prop :=
  CallInv t holeId vfS p0 y0 s.1 s.2.2.2.2.2.1 s.2.2.2.2.2.2.2.2.2.2.1 inv

omit hT in
theorem top_visited {vf : Array Bool} {stack : Array Nat} {c : Nat} (htop : TopOK vf stack c) (hc : c ≠ inv)
    (hlt : c / 3 < vf.size) : Vis (vf.setIfInBounds (c / 3) true) stack.back! := by
  rcases htop.2 with e | e
  · rw [← e]; exact Or.inr (by rw [bget_set' _ _ _ _ hlt, if_pos rfl])
  · exact e.mono (fun f hf => bget_set_true_mono vf (c / 3) f hf)

theorem innerTail_cov {valence : Bool} {vh : Array Bool} {splits : Array TopoSplit} {f2s : Array Nat} {lsid : Int}
    {nss nv face lastCorner vertId : Nat} {onB : Bool} {val : ValEnc} {sy : Array Nat}
    {vf vv1 : Array Bool} {P stack : Array Nat} {c : Nat} {r : ForInStep InSt}
    (hC : CallInv t holeId vfS p0 y0 vf P stack c) (htop : TopOK vf stack c)
    (hc : c < t.c2v.size) (hlt : c / 3 < vf.size)
    (hcnt : nv ≤ vcount (vf.setIfInBounds (c / 3) true) t.numFaces)
    (hb : innerTail t holeId valence (vf.setIfInBounds (c / 3) true) vh (P.push c) splits f2s lsid nss stack nv face
      lastCorner vertId onB () vv1 val sy c = .ok r) :
    StepOK (XInN t holeId vfS p0 y0 nv) (XQ t holeId vfS p0 y0) r := by
  have hci : c ≠ inv := hT.base.ne_inv hc
  have hcinv : c < inv := hT.lt_inv hc
  have hn : Eb.nextC c < t.numCorners := hT.ctok.next_lt hc
  have hp : Eb.prevC c < t.numCorners := hT.ctok.prev_lt hc
  have hvn : (vf.setIfInBounds (c / 3) true).getD (Eb.nextC c / 3) false = true := by
    rw [nextC_div3 c hcinv, bget_set' _ _ _ _ hlt, if_pos rfl]
  have hvp : (vf.setIfInBounds (c / 3) true).getD (Eb.prevC c / 3) false = true := by
    rw [prevC_div3 c hcinv, bget_set' _ _ _ _ hlt, if_pos rfl]
  have htopv := top_visited htop hci hlt
  unfold innerTail at hb
  obtain ⟨rc, hR, hb⟩ := (bind_ok_iff _ _ _).mp hb
  obtain ⟨lc, hL, hb⟩ := (bind_ok_iff _ _ _).mp hb
  obtain ⟨rv, hb, hrv1, hrv2⟩ := visited_absorb hb
  obtain ⟨lv, hb, hlv1, hlv2⟩ := visited_absorb hb
  have erc : t.opp[Eb.nextC c]! = rc := by
    rw [← vget_eq]; exact (opposite_get (hT.base.ne_inv hn) hR).2
  have elc : t.opp[Eb.prevC c]! = lc := by
    rw [← vget_eq]; exact (opposite_get (hT.base.ne_inv hp) hL).2
  -- visited neighbours
  have visOf : ∀ (x : Nat) (b : Bool), ((x != inv) = true → rdB "visited_faces_" (vf.setIfInBounds (c / 3) true) (faceOf x) = .ok b) →
      (¬ (x != inv) = true → b = true) → b = true → Vis (vf.setIfInBounds (c / 3) true) x := by
    intro x b h1 h2 hbt
    by_cases hx : x = inv
    · exact Or.inl hx
    · have hne : (x != inv) = true := by simpa using hx
      have := (rdB_get (h1 hne)).2
      rw [faceOf_ne hx, hbt] at this
      exact Or.inr this
  have neOf : ∀ (x : Nat) (b : Bool), (¬ (x != inv) = true → b = true) → b = false → x ≠ inv := by
    intro x b h2 hbf hx
    have := h2 (by simp [hx])
    rw [hbf] at this; cases this
  have gateR : rc ≠ inv → GateOK t (vf.setIfInBounds (c / 3) true) rc := by
    intro hne; rw [← erc] at hne ⊢; exact gate_of_opp hT hn hne hvn
  have gateL : lc ≠ inv → GateOK t (vf.setIfInBounds (c / 3) true) lc := by
    intro hne; rw [← elc] at hne ⊢; exact gate_of_opp hT hp hne hvp
  -- the stack after `pop`
  have haPop : ∀ y, y ∈ stack.toList → y ∈ stack.pop.toList ∨ Vis (vf.setIfInBounds (c / 3) true) y := by
    intro y hy
    rcases mem_pop_or_back hy with h | h
    · exact Or.inl h
    · rw [h]; exact Or.inr htopv
  have haSplit : ∀ y, y ∈ stack.toList → y ∈ ((stack.set! (stack.size - 1) lc).push rc).toList ∨
      Vis (vf.setIfInBounds (c / 3) true) y := by
    intro y hy
    rcases mem_split_or_back (a := lc) (b := rc) hy with h | h
    · exact Or.inl h
    · rw [h]; exact Or.inr htopv
  rcases ite_ok hb with ⟨hrvt, hb⟩ | ⟨hrvf, hb⟩
  · have hvr := visOf rc rv hrv1 hrv2 hrvt
    over_splits hb =>
      rcases ite_ok hb with ⟨hlvt, hb⟩ | ⟨hlvf, hb⟩
      · -- E
        have hvl := visOf lc lv hlv1 hlv2 hlvt
        over_splits hb =>
          obtain ⟨val1, hb⟩ := ite_bind_absorb hb
          refine Or.inr ⟨_, pure_ok hb, ?_⟩
          exact hC.visit hci hlt haPop (by rw [erc]; exact Or.inl hvr) (Or.inl (by rw [elc]; exact Or.inl hvl))
            (fun y hy => Or.inl (mem_pop hy)) (Or.inl rfl)
      · -- R
        have hlf : lv = false := by simpa using hlvf
        have hlne := neOf lc lv hlv2 hlf
        obtain ⟨val1, hb⟩ := ite_bind_absorb hb
        refine Or.inl ⟨_, pure_ok hb, ⟨?_, ⟨htop.1, Or.inr htopv⟩, hcnt⟩, rfl⟩
        exact hC.visit hci hlt (fun y hy => Or.inl hy) (by rw [erc]; exact Or.inl hvr)
          (Or.inl (by rw [elc]; exact Or.inr (Or.inr rfl))) (fun y hy => Or.inl hy) (gateL hlne)
  · have hrf : rv = false := by simpa using hrvf
    have hrne := neOf rc rv hrv2 hrf
    rcases ite_ok hb with ⟨hlvt, hb⟩ | ⟨hlvf, hb⟩
    · -- L
      have hvl := visOf lc lv hlv1 hlv2 hlvt
      over_splits hb =>
        obtain ⟨val1, hb⟩ := ite_bind_absorb hb
        refine Or.inl ⟨_, pure_ok hb, ⟨?_, ⟨htop.1, Or.inr htopv⟩, hcnt⟩, rfl⟩
        exact hC.visit hci hlt (fun y hy => Or.inl hy) (by rw [erc]; exact Or.inr (Or.inr rfl))
          (Or.inl (by rw [elc]; exact Or.inl hvl)) (fun y hy => Or.inl hy) (gateR hrne)
    · -- S
      have hlf : lv = false := by simpa using hlvf
      have hlne := neOf lc lv hlv2 hlf
      obtain ⟨val1, hb⟩ := ite_bind_absorb hb
      have memL : lc ∈ ((stack.set! (stack.size - 1) lc).push rc).toList := by
        rw [Array.toList_push, List.mem_append]
        left
        rw [Array.set!_eq_setIfInBounds, mem_toList_iff_get]
        have hpos : 0 < stack.size := by
          rcases Nat.eq_zero_or_pos stack.size with e | e
          · have := htop.1; rw [Array.isEmpty_iff_size_eq_zero.mpr e] at this; cases this
          · exact e
        refine ⟨stack.size - 1, by simp; omega, ?_⟩
        simp only [Array.getElem!_eq_getD, Array.getD_eq_getD_getElem?, Array.getElem?_setIfInBounds]
        simp [hpos]
      have memR : rc ∈ ((stack.set! (stack.size - 1) lc).push rc).toList := by
        rw [Array.toList_push, List.mem_append]; right; simp
      have fin : ∀ (vv2 vh2 : Array Bool) {x : Eb.R (ForInStep InSt)}, x = .ok r →
          (∀ f2s', x = pure (ForInStep.done ((vf.setIfInBounds (c / 3) true), vv2, vh2, val1, sy.push topoS, P.push c,
            splits, f2s', lsid, nss + 1, (stack.set! (stack.size - 1) lc).push rc, c, nv)) →
            StepOK (XInN t holeId vfS p0 y0 nv) (XQ t holeId vfS p0 y0) r) := by
        intro vv2 vh2 x hx f2s' e
        rw [e] at hx
        refine Or.inr ⟨_, pure_ok hx, ?_⟩
        exact hC.visit hci hlt haSplit (by rw [erc]; exact Or.inr (Or.inl memR))
          (Or.inl (by rw [elc]; exact Or.inr (Or.inl memL)))
          (fun y hy => by
            rcases mem_split hy with h | h | h
            · exact Or.inl h
            · rw [h]; exact Or.inr (gateL hlne)
            · rw [h]; exact Or.inr (gateR hrne))
          (Or.inl rfl)
      rcases ite_ok hb with ⟨_, hb⟩ | ⟨_, hb⟩
      · obtain ⟨hole, _, hb⟩ := (bind_ok_iff _ _ _).mp hb
        obtain ⟨hv, _, hb⟩ := (bind_ok_iff _ _ _).mp hb
        rcases ite_ok hb with ⟨_, hb⟩ | ⟨_, hb⟩
        · obtain ⟨x, hx, hb⟩ := (bind_ok_iff _ _ _).mp hb
          obtain ⟨vv2, vh2⟩ := x
          obtain ⟨f2s', _, hb⟩ := (bind_ok_iff _ _ _).mp hb
          exact fin vv2 vh2 hb f2s' rfl
        · obtain ⟨f2s', _, hb⟩ := (bind_ok_iff _ _ _).mp hb
          exact fin vv1 vh hb f2s' rfl
      · obtain ⟨f2s', _, hb⟩ := (bind_ok_iff _ _ _).mp hb
        exact fin vv1 vh hb f2s' rfl

end loops

section loops2
variable {t : CT} (hT : TblOK t) {holeId : Array Nat} {vfS : Array Bool} {p0 y0 : Nat}
include hT

/-- when every face is visited nothing is pending -/
theorem CallInv.allvis {vf : Array Bool} {P stack : Array Nat} {cur : Nat}
    (h : CallInv t holeId vfS p0 y0 vf P stack cur) (hall : ∀ f, f < t.numFaces → vf.getD f false = true)
    (hst : ∀ y, y ∈ stack.toList → y = inv ∨ y < t.c2v.size) (hcur : cur = inv ∨ cur < t.c2v.size) :
    CallInv t holeId vfS p0 y0 vf P stack inv := by
  have h3 := hT.ctok.three
  have hv : ∀ y, y = inv ∨ y < t.c2v.size → Vis vf y := by
    intro y hy
    rcases hy with e | e
    · exact Or.inl e
    · exact Or.inr (hall _ (by omega))
  apply h.weaken
  · intro y hy
    rcases hy with hy | hy | hy
    · exact Or.inl hy
    · exact Or.inl (hv y (hst y hy))
    · exact Or.inl (hv y (by rw [hy]; exact hcur))
  · exact h.stG
  · exact Or.inl rfl

theorem innerBody_cov {valence : Bool} {I : Array Nat} (x : Nat) (s : InSt) (r : ForInStep InSt)
    (hI : IIn t I s) (hX : XIn t holeId vfS p0 y0 s)
    (hb : innerBody t holeId valence t.numFaces x s = .ok r) :
    StepOK (XInN t holeId vfS p0 y0 (s.2.2.2.2.2.2.2.2.2.2.2.2 + 1)) (XQ t holeId vfS p0 y0) r := by
  obtain ⟨vf, vv, vh, val, sy, P, sp, f2s, ls, nss, st, c, nv⟩ := s
  obtain ⟨hInv, hSt, hCur⟩ := hI
  obtain ⟨hC, hTop, hCnt⟩ := hX
  dsimp only at hInv hSt hCur hC hTop hCnt
  have hk := hT.ctok
  have h3 := hk.three
  have stValid : ∀ y, y ∈ st.toList → y = inv ∨ y < t.c2v.size := by
    intro y hy
    rcases hSt y hy with e | e
    · exact Or.inl e
    · exact Or.inr e.1
  have curValid : c = inv ∨ c < t.c2v.size := by
    rcases hCur with e | ⟨e, _⟩
    · exact Or.inl e
    · rcases e with e | e
      · exact Or.inl e
      · exact Or.inr e.1
  unfold innerBody at hb
  rcases ite_ok hb with ⟨hge, hb⟩ | ⟨_, hb⟩
  · -- the loop bound: every face is visited
    refine Or.inr ⟨_, pure_ok hb, ?_⟩
    have hall := all_of_vcount (vf := vf) (n := t.numFaces) (by have : nv ≥ t.numFaces := hge; omega)
    exact hC.allvis hT hall stValid curValid
  obtain ⟨vf', hvf, hb⟩ := (bind_ok_iff _ _ _).mp hb
  obtain ⟨vertId, hvert, hb⟩ := (bind_ok_iff _ _ _).mp hb
  obtain ⟨hid, hhid, hb⟩ := (bind_ok_iff _ _ _).mp hb
  obtain ⟨vis, hvis, hb⟩ := (bind_ok_iff _ _ _).mp hb
  obtain ⟨_, evis⟩ := rdB_get hvis
  -- common facts of the visit
  have common : ∀ vv' : Array Bool, Mono vv vv' → vv'.getD vertId false = true →
      c ≠ inv ∧ c < t.c2v.size ∧ vget t.c2v c = vertId ∧ vf' = vf.setIfInBounds (c / 3) true ∧ c / 3 < vf.size ∧
        nv + 1 ≤ vcount (vf.setIfInBounds (c / 3) true) t.numFaces := by
    intro vv' hm hv'
    obtain ⟨hne, hc, evert, evf, _, _, _⟩ := cur_visit hk hInv hCur hvf hm hvert hv'
    have hlt : c / 3 < vf.size := by
      have := (wrB_get hvf).1
      rw [faceOf_ne hne] at this; exact this
    have hun : vf.getD (c / 3) false = false := by
      rcases hCur with e | ⟨_, e⟩
      · exact absurd e hne
      · exact e
    refine ⟨hne, hc, evert, evf, hlt, ?_⟩
    rw [vcount_set vf _ _ hlt (by rw [← hInv.vfsz]; exact hlt) hun]
    omega
  rcases ite_ok hb with ⟨hnv, hb⟩ | ⟨hv, hb⟩
  · obtain ⟨vv', hvv', hb⟩ := (bind_ok_iff _ _ _).mp hb
    obtain ⟨hlt', evv⟩ := wrB_get hvv'
    have hm : Mono vv vv' := by rw [evv]; exact Mono.set _ _
    have hv' : vv'.getD vertId false = true := by rw [evv, bget_set' _ _ _ _ hlt', if_pos rfl]
    obtain ⟨hne, hc, evert, evf, hlt, hcnt⟩ := common vv' hm hv'
    subst evf
    rcases ite_ok hb with ⟨hnb, hb⟩ | ⟨_, hb⟩
    · -- C
      obtain ⟨val1, hb⟩ := ite_bind_absorb hb
      obtain ⟨o, ho, hb⟩ := (bind_ok_iff _ _ _).mp hb
      have hn : Eb.nextC c < t.numCorners := hk.next_lt hc
      have eo : t.opp[Eb.nextC c]! = o := by
        rw [← vget_eq]; exact (opposite_get (hT.base.ne_inv hn) ho).2
      have hvn : (vf.setIfInBounds (c / 3) true).getD (Eb.nextC c / 3) false = true := by
        rw [nextC_div3 c (hT.lt_inv hc), bget_set' _ _ _ _ hlt, if_pos rfl]
      refine Or.inl ⟨_, pure_ok hb, ⟨?_, ⟨hTop.1, Or.inr (top_visited hTop hne hlt)⟩, hcnt⟩, rfl⟩
      apply hC.visit hne hlt (fun y hy => Or.inl hy) (by rw [eo]; exact Or.inr (Or.inr rfl)) ?_
        (fun y hy => Or.inl hy) ?_
      · -- the `C` flag
        right
        have e : (P.push c)[P.size]! = c := by rw [push_get!, if_pos rfl]
        refine ⟨?_, ?_⟩
        · rw [e, ← vget_eq, evert]
          have : hid = inv := by simpa using hnb
          rw [← this]; exact (rd_get hhid).2
        · intro z hz hzv hzvis
          rw [e] at hzv
          refine ⟨P.size, Nat.le_refl _, by simp, ?_⟩
          rw [e]
          apply Classical.byContradiction
          intro hne'
          rw [bget_set' _ _ _ _ hlt, if_neg (fun h => hne' h.symm)] at hzvis
          have := hInv.verts (z / 3) hzvis (z % 3) (Nat.mod_lt _ (by omega))
          rw [show 3 * (z / 3) + z % 3 = z by omega, vget_eq, hzv, ← vget_eq, evert, evis] at this
          have hf : vis = false := by simpa using hnv
          rw [hf] at this; cases this
      · by_cases hoi : o = inv
        · exact Or.inl hoi
        · rw [← eo] at hoi ⊢; exact gate_of_opp hT hn hoi hvn
    · exact innerTail_cov hT hC hTop hc hlt hcnt hb
  · have hv' : vv.getD vertId false = true := by
      rw [evis]; simpa using hv
    obtain ⟨hne, hc, evert, evf, hlt, hcnt⟩ := common vv (Mono.refl _) hv'
    subst evf
    exact innerTail_cov hT hC hTop hc hlt hcnt hb

/-! ## the loop over the stack -/

/-- invariant of the stack loop (no current corner); `fin` = the loop has seen the empty stack -/
def XSt (t : CT) (holeId : Array Nat) (vfS : Array Bool) (p0 y0 : Nat) (s : StSt) : Prop :=
  CallInv t holeId vfS p0 y0 s.1 s.2.2.2.2.2.1 s.2.2.2.2.2.2.2.2.2.2.1 inv ∧ s.2.2.2.2.2.2.2.2.2.2.2 = false

def XStQ (t : CT) (holeId : Array Nat) (vfS : Array Bool) (p0 y0 : Nat) (s : StSt) : Prop :=
  CallInv t holeId vfS p0 y0 s.1 s.2.2.2.2.2.1 s.2.2.2.2.2.2.2.2.2.2.1 inv ∧ s.2.2.2.2.2.2.2.2.2.2.1.isEmpty = true

theorem stackBody_cov {valence : Bool} {I : Array Nat} (x : Nat) (s : StSt) (r : ForInStep StSt)
    (hI : ISt t I s) (hX : XSt t holeId vfS p0 y0 s)
    (hb : stackBody t holeId valence t.numFaces x s = .ok r) :
    StepOK (XSt t holeId vfS p0 y0) (XStQ t holeId vfS p0 y0) r := by
  obtain ⟨vf, vv, vh, val, sy, P, sp, f2s, ls, nss, st, fin⟩ := s
  obtain ⟨hInv, hSt⟩ := hI
  obtain ⟨hC, hfin⟩ := hX
  dsimp only at hInv hSt hC hfin
  subst hfin
  have hk := hT.ctok
  unfold stackBody at hb
  rcases ite_ok hb with ⟨hemp, hb⟩ | ⟨hne, hb⟩
  · exact Or.inr ⟨_, pure_ok hb, hC, hemp⟩
  have hne' : st.isEmpty = false := by simpa using hne
  -- removing a top that is invalid or visited
  have popOK : Vis vf st.back! → CallInv t holeId vfS p0 y0 vf P st.pop inv := by
    intro hv
    apply hC.weaken
    · intro y hy
      rcases hy with hy | hy | hy
      · exact Or.inl hy
      · rcases mem_pop_or_back hy with h | h
        · exact Or.inr (Or.inl h)
        · rw [h]; exact Or.inl hv
      · exact Or.inr (Or.inr hy)
    · intro y hy; exact hC.stG y (mem_pop hy)
    · exact Or.inl rfl
  rcases ite_ok hb with ⟨hinv, hb⟩ | ⟨hninv, hb⟩
  · exact Or.inl ⟨_, pure_ok hb, popOK (Or.inl (by simpa using hinv)), rfl⟩
  have hbi : st.back! ≠ inv := by simpa using hninv
  obtain ⟨b, hb1, hb⟩ := (bind_ok_iff _ _ _).mp hb
  rcases ite_ok hb with ⟨hvis, hb⟩ | ⟨hnvis, hb⟩
  · refine Or.inl ⟨_, pure_ok hb, popOK (Or.inr ?_), rfl⟩
    rw [(rdB_get hb1).2]; exact hvis
  obtain ⟨s2, hloop, hb⟩ := (bind_ok_iff _ _ _).mp hb
  have hbmem : st.back! ∈ st.toList := by
    rw [mem_toList_iff_get]
    have hpos : 0 < st.size := by
      rcases Nat.eq_zero_or_pos st.size with e | e
      · rw [Array.isEmpty_iff_size_eq_zero.mpr e] at hne'; cases hne'
      · exact e
    exact ⟨st.size - 1, by omega, (back!_eq st).symm⟩
  have hcur : CurOK t vf vv st.back! := by
    refine Or.inr ⟨hSt.back hne', ?_⟩
    rw [(rdB_get hb1).2]
    simpa using hnvis
  have hC0 : CallInv t holeId vfS p0 y0 vf P st st.back! := by
    apply hC.weaken
    · intro y hy
      rcases hy with hy | hy | hy
      · exact Or.inl hy
      · exact Or.inr (Or.inl hy)
      · rw [hy]; exact Or.inl (Or.inl rfl)
    · exact hC.stG
    · exact hC.stG _ hbmem
  -- the traversal loop
  have h2 := range_loop t.numFaces (innerBody t holeId valence t.numFaces)
    (fun j s => IIn t I s ∧ XInN t holeId vfS p0 y0 j s)
    (fun s => IInQ t I s ∧ XQ t holeId vfS p0 y0 s)
    (by
      intro j s r _ ⟨hI, hX, hn⟩ hr
      have h1 := innerBody_inv hk j s r hI hr
      have h2 := innerBody_cov hT j s r hI hX hr
      rcases h1 with ⟨s', e1, hs1⟩ | ⟨s', e1, hs1⟩
      · rcases h2 with ⟨s'', e2, hs2⟩ | ⟨s'', e2, _⟩
        · rw [e1] at e2; cases e2
          exact Or.inl ⟨s', e1, hs1, hs2.1, by rw [hs2.2, hn]⟩
        · rw [e1] at e2; cases e2
      · rcases h2 with ⟨s'', e2, _⟩ | ⟨s'', e2, hs2⟩
        · rw [e1] at e2; cases e2
        · rw [e1] at e2; cases e2
          exact Or.inr ⟨s', e1, hs1, hs2⟩)
    _ s2 ⟨⟨hInv, hSt, hcur⟩, ⟨hC0, ⟨hne', Or.inl rfl⟩, Nat.zero_le _⟩, rfl⟩ hloop
  have hQ : IInQ t I s2 ∧ XQ t holeId vfS p0 y0 s2 := by
    rcases h2 with ⟨hI2, hX2, hn2⟩ | h
    · -- the loop ran `num_faces` times: every face is visited
      refine ⟨⟨hI2.1, hI2.2.1⟩, ?_⟩
      have hall := all_of_vcount (vf := s2.1) (n := t.numFaces) (by have := hX2.2.2; omega)
      apply hX2.1.allvis hT hall
      · intro y hy
        rcases hI2.2.1 y hy with e | e
        · exact Or.inl e
        · exact Or.inr e.1
      · rcases hI2.2.2 with e | ⟨e, _⟩
        · exact Or.inl e
        · rcases e with e | e
          · exact Or.inl e
          · exact Or.inr e.1
    · exact h
  obtain ⟨vf2, vv2, vh2, val2, sy2, P2, sp2, f2s2, ls2, nss2, st2, c2, nv2⟩ := s2
  exact Or.inl ⟨_, pure_ok hb, hQ.2, rfl⟩

end loops2

/-! ## `FindHoles` -/

/-- entries of `vertex_hole_id_` that are set stay set -/
def MonoH (h h' : Array Nat) : Prop := ∀ i, vget h i ≠ inv → vget h' i ≠ inv

theorem MonoH.refl (h : Array Nat) : MonoH h h := fun _ e => e

theorem MonoH.trans {a b c : Array Nat} (h1 : MonoH a b) (h2 : MonoH b c) : MonoH a c := fun i e => h2 i (h1 i e)

theorem MonoH.wr {site : String} {a r : Array Nat} {i v : Nat} (hv : v ≠ inv) (h : wr site a i v = .ok r) :
    MonoH a r ∧ vget r i ≠ inv := by
  obtain ⟨_, _, hg⟩ := wr_ok h
  constructor
  · intro x hx
    rw [vget_eq, hg x]
    split
    · exact hv
    · rw [← vget_eq]; exact hx
  · rw [vget_eq, hg i, if_pos rfl]; exact hv

theorem findHoles_spec {t : CT} (hT : TblOK t) {holeId : Array Nat} {nh : Nat}
    (h : findHoles t = .ok (holeId, nh)) : HolesOK t holeId := by
  have hk := hT.ctok
  have h3 := hk.three
  have hfit := hk.fits
  unfold findHoles at h
  obtain ⟨s, hloop, h⟩ := (bind_ok_iff _ _ _).mp h
  have hres := pure_ok h
  have e1 : holeId = s.1 := congrArg Prod.fst hres
  have hI := range_loop t.numCorners _
    (fun k (s : Array Nat × Nat) => s.2 ≤ k ∧ ∀ b, b < k → isDegenA t.c2v (b / 3) = false → t.opp[b]! = inv →
      vget s.1 (t.c2v[Eb.nextC b]!) ≠ inv)
    (fun _ => False)
    (by
      intro k s r hk' ⟨hnum, hI⟩ hr
      left
      have hkc : k < t.c2v.size := hk'
      have hf : k / 3 < t.numFaces := by omega
      have hki : k ≠ inv := by omega
      -- what a step with `holeId'` has to provide
      have fin : ∀ (hid' : Array Nat) (n' : Nat), MonoH s.1 hid' → n' ≤ k + 1 →
          (isDegenA t.c2v (k / 3) = false → t.opp[k]! = inv → vget hid' (t.c2v[Eb.nextC k]!) ≠ inv) →
          n' ≤ k + 1 ∧ ∀ b, b < k + 1 → isDegenA t.c2v (b / 3) = false → t.opp[b]! = inv →
            vget hid' (t.c2v[Eb.nextC b]!) ≠ inv := by
        intro hid' n' hm hn hnew
        refine ⟨hn, fun b hb hnd ho => ?_⟩
        by_cases e : b = k
        · subst e; exact hnew hnd ho
        · exact hm _ (hI b (by omega) hnd ho)
      obtain ⟨d, hd, hr⟩ := (bind_ok_iff _ _ _).mp hr
      have ed := isDegenerated_ok hk hf hd
      rcases ite_ok hr with ⟨hdt, hr⟩ | ⟨hdf, hr⟩
      · refine ⟨_, pure_ok hr, fin s.1 s.2 (MonoH.refl _) (by omega) ?_⟩
        intro hnd _
        rw [ed, hnd] at hdt; cases hdt
      obtain ⟨o, ho, hr⟩ := (bind_ok_iff _ _ _).mp hr
      have eo : t.opp[k]! = o := by rw [← vget_eq]; exact (opposite_get hki ho).2
      rcases ite_ok hr with ⟨hoi, hr⟩ | ⟨hoi, hr⟩
      · obtain ⟨bv, hbv, hr⟩ := (bind_ok_iff _ _ _).mp hr
        have hn : Eb.nextC k < t.c2v.size := hk.next_lt hkc
        have ebv : t.c2v[Eb.nextC k]! = bv := by
          rw [← vget_eq]; exact (vertex_get (by omega) hbv).2
        obtain ⟨h0, hh0, hr⟩ := (bind_ok_iff _ _ _).mp hr
        have eh0 : vget s.1 bv = h0 := (rd_get hh0).2
        rcases ite_ok hr with ⟨hne, hr⟩ | ⟨_, hr⟩
        · refine ⟨_, pure_ok hr, fin s.1 s.2 (MonoH.refl _) (by omega) ?_⟩
          intro _ _
          rw [ebv, eh0]; simpa using hne
        obtain ⟨s2, hl2, hr⟩ := (bind_ok_iff _ _ _).mp hr
        have hbid : s.2 ≠ inv := by omega
        have hJ := range_loop (t.numCorners + 1) _
          (fun j (q : Array Nat × Nat × Nat × Bool) => MonoH s.1 q.1 ∧ (j = 0 → q.2.1 = bv) ∧ (1 ≤ j → vget q.1 bv ≠ inv))
          (fun (q : Array Nat × Nat × Nat × Bool) => MonoH s.1 q.1 ∧ vget q.1 bv ≠ inv)
          (by
            intro j q r2 _ ⟨hm, hj0, hj1⟩ hr2
            obtain ⟨hq, hhq, hr2⟩ := (bind_ok_iff _ _ _).mp hr2
            have ehq : vget q.1 q.2.1 = hq := (rd_get hhq).2
            rcases ite_ok hr2 with ⟨hqne, hr2⟩ | ⟨_, hr2⟩
            · right
              refine ⟨_, pure_ok hr2, hm, ?_⟩
              by_cases ej : j = 0
              · rw [← hj0 ej, ehq]; simpa using hqne
              · exact hj1 (by omega)
            · left
              obtain ⟨hid', hw, hr2⟩ := (bind_ok_iff _ _ _).mp hr2
              obtain ⟨c', _, hr2⟩ := (bind_ok_iff _ _ _).mp hr2
              obtain ⟨bv', _, hr2⟩ := (bind_ok_iff _ _ _).mp hr2
              obtain ⟨m1, m2⟩ := MonoH.wr hbid hw
              refine ⟨_, pure_ok hr2, hm.trans m1, fun e => by omega, fun _ => ?_⟩
              by_cases ej : j = 0
              · rw [← hj0 ej]; exact m2
              · exact m1 _ (hj1 (by omega)))
          (s.1, bv, k, false) s2 ⟨MonoH.refl _, fun _ => rfl, fun e => by omega⟩ hl2
        have hQ : MonoH s.1 s2.1 ∧ vget s2.1 bv ≠ inv := by
          rcases hJ with ⟨hm, _, h1⟩ | hQ
          · exact ⟨hm, h1 (by omega)⟩
          · exact hQ
        rcases ite_ok hr with ⟨_, hr⟩ | ⟨_, hr⟩
        · exact (throw_bind_ne hr).elim
        · refine ⟨_, pure_ok hr, fin s2.1 (s.2 + 1) hQ.1 (by omega) ?_⟩
          intro _ _
          rw [ebv]; exact hQ.2
      · refine ⟨_, pure_ok hr, fin s.1 s.2 (MonoH.refl _) (by omega) ?_⟩
        intro _ hopp
        rw [eo] at hopp
        exact absurd (by simpa using hopp) hoi)
    (Array.replicate t.vc.size inv, 0) s ⟨Nat.le_refl _, fun b hb => by omega⟩ hloop
  rcases hI with ⟨_, hI⟩ | hI
  · rw [e1]; exact hI
  · exact hI.elim

/-! ## `FindInitFaceConfiguration` -/

/-- whenever the visited faces are closed under adjacency, face `f` is visited with face `g` -/
def Link (t : CT) (g f : Nat) : Prop :=
  ∀ vf : Array Bool, Closed t vf → vf.getD g false = true → vf.getD f false = true

theorem Link.refl (t : CT) (f : Nat) : Link t f f := fun _ _ h => h

theorem Link.trans {t : CT} {a b c : Nat} (h1 : Link t a b) (h2 : Link t b c) : Link t a c :=
  fun vf hc h => h2 vf hc (h1 vf hc h)

/-- the face reached by `SwingRight` is linked to the face it is reached from -/
theorem link_sR {t : CT} (hT : TblOK t) {c : Nat} (hc : c < t.numCorners) (hne : sRP t.opp c ≠ inv) :
    sRP t.opp c < t.numCorners ∧ Link t (sRP t.opp c / 3) (c / 3) := by
  have hb := hT.base
  have hci := hT.lt_inv hc
  have hp := prevC_ltN hb.n3 hb.le hc
  rw [sRP_eq _ (hb.ne_inv hc)] at hne ⊢
  have ho : t.opp[Eb.prevC c]! ≠ inv := by
    intro e; rw [e, prevC_inv] at hne; exact hne rfl
  obtain ⟨holt, hoo⟩ := hb.invol _ hp ho
  refine ⟨prevC_ltN hb.n3 hb.le holt, ?_⟩
  intro vf hcl hv
  rw [prevC_div3 _ (hT.lt_inv holt)] at hv
  rcases hcl _ holt hv with h | h
  · rw [hoo] at h; exact absurd h (hb.ne_inv hp)
  · rw [hoo, prevC_div3 c hci] at h; exact h

/-- **the start configuration of a face**: interior — the start corner is the first corner of the face, the face has
    three neighbours and none of its vertices is on a hole; at a hole — the start corner is a boundary corner of a face
    linked to `f` -/
theorem findInit_spec' {t : CT} (hT : TblOK t) {holeId : Array Nat} {f sc : Nat} {b : Bool} (hf : f < t.numFaces)
    (h : findInitFaceConfiguration t holeId f = .ok (b, sc)) :
    (b = true → sc = 3 * f ∧ ∀ k, k < 3 → t.opp[3 * f + k]! ≠ inv ∧ vget holeId (t.c2v[3 * f + k]!) = inv) ∧
    (b = false → Link t (sc / 3) f) := by
  have hk := hT.ctok
  have hb := hT.base
  have h3 := hk.three
  have hfit := hk.fits
  unfold findInitFaceConfiguration at h
  obtain ⟨s, hloop, h⟩ := (bind_ok_iff _ _ _).mp h
  have hI := range_loop 3 _
    (fun k (s : Option (Bool × Nat) × Nat) => s.1 = none ∧ s.2 = (if k < 3 then 3 * f + k else 3 * f) ∧
      ∀ j, j < k → t.opp[3 * f + j]! ≠ inv ∧ vget holeId (t.c2v[3 * f + j]!) = inv)
    (fun (s : Option (Bool × Nat) × Nat) => ∃ sc, s.1 = some (false, sc) ∧ Link t (sc / 3) f)
    (by
      intro j s r hj ⟨hs1, hs2, hs3⟩ hr
      rw [if_pos hj] at hs2
      obtain ⟨o, ho, hr⟩ := (bind_ok_iff _ _ _).mp hr
      rw [hs2] at ho hr
      have hclt : 3 * f + j < t.c2v.size := by omega
      have hci : 3 * f + j ≠ inv := by omega
      have eo : t.opp[3 * f + j]! = o := by rw [← vget_eq]; exact (opposite_get hci ho).2
      have hface : (3 * f + j) / 3 = f := by omega
      rcases ite_ok hr with ⟨hoi, hr⟩ | ⟨hoi, hr⟩
      · right
        refine ⟨_, pure_ok hr, _, rfl, ?_⟩
        rw [hface]; exact Link.refl t f
      · obtain ⟨v, hv, hr⟩ := (bind_ok_iff _ _ _).mp hr
        have ev : t.c2v[3 * f + j]! = v := by rw [← vget_eq]; exact (vertex_get hci hv).2
        obtain ⟨hid, hhid, hr⟩ := (bind_ok_iff _ _ _).mp hr
        have ehid : vget holeId v = hid := (rd_get hhid).2
        rcases ite_ok hr with ⟨_, hr⟩ | ⟨hnh, hr⟩
        · right
          obtain ⟨s2, hl2, hr⟩ := (bind_ok_iff _ _ _).mp hr
          rcases ite_ok hr with ⟨_, hr⟩ | ⟨hfin, hr⟩
          · exact (throw_bind_ne hr).elim
          have hJ := range_loop (t.numCorners + 1) _
            (fun _ (s : Nat × Nat × Bool) => (s.1 < t.numCorners ∧ Link t (s.1 / 3) f) ∧
              (s.2.1 = inv ∨ (s.2.1 < t.numCorners ∧ Link t (s.2.1 / 3) f)))
            (fun (s : Nat × Nat × Bool) => s.1 < t.numCorners ∧ Link t (s.1 / 3) f)
            (by
              intro j2 s r _ ⟨hc, hright⟩ hr
              rcases ite_ok hr with ⟨hri, hr⟩ | ⟨hri, hr⟩
              · right
                exact ⟨_, pure_ok hr, hc⟩
              · left
                have hri' : s.2.1 ≠ inv := by simpa using hri
                obtain ⟨r', hr', hr⟩ := (bind_ok_iff _ _ _).mp hr
                have hrc : s.2.1 < t.numCorners ∧ Link t (s.2.1 / 3) f := by
                  rcases hright with e | e
                  · exact absurd e hri'
                  · exact e
                refine ⟨_, pure_ok hr, hrc, ?_⟩
                have e : r' = sRP t.opp s.2.1 := by
                  rw [swingRight_val hr', sRE_eq_sRP hb hrc.1]
                by_cases hr0 : r' = inv
                · exact Or.inl hr0
                · right
                  rw [e] at hr0 ⊢
                  obtain ⟨l1, l2⟩ := link_sR hT hrc.1 hr0
                  exact ⟨l1, l2.trans hrc.2⟩)
            (3 * f + j, 3 * f + j, false) s2
            ⟨⟨hclt, by rw [hface]; exact Link.refl t f⟩, Or.inr ⟨hclt, by rw [hface]; exact Link.refl t f⟩⟩ hl2
          have hQ : s2.1 < t.numCorners ∧ Link t (s2.1 / 3) f := by
            rcases hJ with ⟨h, _⟩ | h <;> exact h
          refine ⟨_, pure_ok hr, _, rfl, ?_⟩
          rw [prevC_div3 _ (hT.lt_inv hQ.1)]
          exact hQ.2
        · left
          refine ⟨_, pure_ok hr, rfl, ?_, ?_⟩
          · show Eb.nextC (3 * f + j) = _
            rw [nextC_cf _ (by omega)]
            split <;> split <;> omega
          · intro j' hj'
            by_cases e : j' = j
            · subst e
              refine ⟨by rw [eo]; simpa using hoi, ?_⟩
              rw [ev, ehid]
              simpa using hnh
            · exact hs3 j' (by omega))
    (none, 3 * f) s ⟨rfl, by simp, fun j hj => by omega⟩ hloop
  rcases hI with ⟨e1, e2, e3⟩ | ⟨sc', e1, hsc⟩
  · rw [e1] at h
    have := pure_ok h
    simp only [Nat.lt_irrefl, ↓reduceIte] at e2
    rw [e2] at this
    cases this
    exact ⟨fun _ => ⟨rfl, e3⟩, fun hb => (by cases hb)⟩
  · rw [e1] at h
    have := pure_ok h
    cases this
    exact ⟨fun hb => (by cases hb), fun _ => hsc⟩

/-! ## one call of `EncodeConnectivityFromCorner` -/

/-- what a finished call leaves: `vf` the visited faces and `p0` the number of processed corners when it started at the
    corner `y0`; `vf2`, `P2` afterwards -/
structure CallEnd (t : CT) (holeId : Array Nat) (vf : Array Bool) (p0 y0 : Nat) (vf2 : Array Bool) (P2 : Array Nat) :
    Prop where
  mono : ∀ f, vf.getD f false = true → vf2.getD f false = true
  cls : ∀ f, vf2.getD f false = true → vf.getD f false = true ∨ ∃ i, p0 ≤ i ∧ i < P2.size ∧ P2[i]! / 3 = f
  ent : ∀ i, p0 ≤ i → i < P2.size → EndEnt t holeId vf2 P2 i
  start : Vis vf2 y0

theorem CallInv.finish {t : CT} {holeId : Array Nat} {vfS : Array Bool} {p0 y0 : Nat} {vf : Array Bool} {P stack : Array Nat}
    (h : CallInv t holeId vfS p0 y0 vf P stack inv) (hemp : stack.isEmpty = true) :
    CallEnd t holeId vfS p0 y0 vf P := by
  have hnil : stack.toList = [] := by
    have := Array.isEmpty_iff_size_eq_zero.mp hemp
    exact List.eq_nil_of_length_eq_zero (by simpa using this)
  have hp : ∀ y, Pend vf stack inv y → Vis vf y := by
    intro y hy
    rcases hy with hy | hy | hy
    · exact hy
    · rw [hnil] at hy; cases hy
    · exact Or.inl hy
  refine ⟨h.mono, h.cls, ?_, hp _ h.start⟩
  intro i hi0 hi
  obtain ⟨g, r, l⟩ := h.ent i hi0 hi
  refine ⟨g, hp _ r, ?_⟩
  rcases l with l | l
  · exact Or.inl (hp _ l)
  · exact Or.inr l

theorem inv_entry {t : CT} (hk : CTOK t) {vf vv : Array Bool} {P I : Array Nat} (hInv : Inv t vf vv P I) (i : Nat)
    (hi : i < P.size) : P[i]! < t.numCorners ∧ vf.getD (P[i]! / 3) false = true := by
  have hmem : P[i]! ∈ P.toList := mem_toList_iff_get.mpr ⟨i, hi, rfl⟩
  have hc := hInv.cnt (P[i]! / 3)
  have hpos : 0 < (P.toList ++ I.toList).countP (fun c => c / 3 == P[i]! / 3) := by
    rw [List.countP_pos_iff]
    exact ⟨P[i]!, List.mem_append_left _ hmem, by simp⟩
  have hv : vf.getD (P[i]! / 3) false = true := by
    by_cases e : vf.getD (P[i]! / 3) false = true
    · exact e
    · rw [if_neg e] at hc; omega
  refine ⟨?_, hv⟩
  have hlt : P[i]! / 3 < vf.size := by
    apply Classical.byContradiction
    intro hge
    rw [Array.getD_eq_getD_getElem?, Array.getElem?_eq_none (by omega)] at hv
    cases hv
  have h3 := hk.three
  rw [hInv.vfsz] at hlt
  show P[i]! < t.c2v.size
  omega

section call
variable {t : CT} (hT : TblOK t) {holeId : Array Nat}
include hT

theorem outerTail_cov {valence : Bool} {val : ValEnc} {sy : Array Nat}
    {sf : RAnsBitEnc} {sfs : Array Bool} {P : Array Nat} {sp : Array TopoSplit} {f2s : Array Nat} {ls : Int} {nss : Nat}
    {vf vv vh : Array Bool} {I : Array Nat} {from_ : Nat} {r : ForInStep OSt}
    (hInv : Inv t vf vv P I) (hfrom : CornerOK t vv from_) (hgate : GateOK t vf from_)
    (hb : outerTail t holeId valence t.numFaces val sy sf sfs P sp f2s ls nss () vf vv vh I from_ = .ok r) :
    ∃ s', r = .yield s' ∧ IO t s' ∧ s'.2.2.2.2.2.2.2.2.1 = I ∧
      CallEnd t holeId vf P.size from_ s'.1 s'.2.2.2.2.2.2.2.1 := by
  have hk := hT.ctok
  unfold outerTail at hb
  rcases ite_ok hb with ⟨hfi, hb⟩ | ⟨_, hb⟩
  · refine ⟨_, pure_ok hb, hInv, rfl, fun f h => h, fun f h => Or.inl h, fun i h1 h2 => ?_, ?_⟩
    · have h2' : i < P.size := h2
      omega
    · exact Or.inl (by simpa using hfi)
  obtain ⟨s2, hloop, hb⟩ := (bind_ok_iff _ _ _).mp hb
  have hC0 : CallInv t holeId vf P.size from_ vf P #[from_] inv := by
    refine ⟨fun i h1 h2 => by omega, fun f h => Or.inl h, fun f h => h, ?_, Or.inl rfl, ?_, Nat.le_refl _⟩
    · intro y hy
      simp only [List.mem_singleton] at hy
      rw [hy]; exact hgate
    · exact Or.inr (Or.inl (by simp))
  have h2 := range_loop (4 * t.numFaces + 16) (stackBody t holeId valence t.numFaces)
    (fun _ s => ISt t I s ∧ XSt t holeId vf P.size from_ s)
    (fun s => ISt t I s ∧ XStQ t holeId vf P.size from_ s)
    (by
      intro j s r _ ⟨hI, hX⟩ hr
      have h1 := stackBody_inv hk j s r hI hr
      have h2 := stackBody_cov hT j s r hI hX hr
      rcases h1 with ⟨s', e1, hs1⟩ | ⟨s', e1, hs1⟩
      · rcases h2 with ⟨s'', e2, hs2⟩ | ⟨s'', e2, _⟩
        · rw [e1] at e2; cases e2
          exact Or.inl ⟨s', e1, hs1, hs2⟩
        · rw [e1] at e2; cases e2
      · rcases h2 with ⟨s'', e2, _⟩ | ⟨s'', e2, hs2⟩
        · rw [e1] at e2; cases e2
        · rw [e1] at e2; cases e2
          exact Or.inr ⟨s', e1, hs1, hs2⟩)
    _ s2 ⟨⟨hInv, StackOK.single hfrom⟩, hC0, rfl⟩ hloop
  obtain ⟨vf2, vv2, vh2, val2, sy2, P2, sp2, f2s2, ls2, nss2, st2, fin2⟩ := s2
  rcases ite_ok hb with ⟨_, hb⟩ | ⟨hfin, hb⟩
  · exact (throw_bind_ne hb).elim
  have hfin' : fin2 = true := by simpa using hfin
  rcases h2 with ⟨_, _, hf⟩ | ⟨hI2, hX2, hemp⟩
  · have : fin2 = false := hf
    rw [this] at hfin'; cases hfin'
  · exact ⟨_, pure_ok hb, hI2.1, rfl, hX2.finish hemp⟩

/-! ## the loop over the faces -/

/-- invariant of the loop over the corners: the visited faces are closed under adjacency -/
def OInv (t : CT) (s : OSt) : Prop := IO t s ∧ Closed t s.1

theorem outerBody_cov {valence : Bool} (hH : HolesOK t holeId)
    (cId : Nat) (s : OSt) (r : ForInStep OSt) (hcId : cId < t.numCorners) (hI : OInv t s)
    (hb : outerBody t holeId valence t.numFaces cId s = .ok r) :
    ∃ s', r = .yield s' ∧ OInv t s' ∧ (∀ f, s.1.getD f false = true → s'.1.getD f false = true) ∧
      (s'.1.getD (cId / 3) false = true ∨ isDegenA t.c2v (cId / 3) = true) := by
  obtain ⟨vf, vv, vh, val, sy, sf, sfs, P, ifc, sp, f2s, ls, nss⟩ := s
  obtain ⟨hIO, hClosed⟩ := hI
  have hInv : Inv t vf vv P ifc := hIO
  have hCl : Closed t vf := hClosed
  have hk := hT.ctok
  have h3 := hk.three
  have hfit := hk.fits
  have hf : cId / 3 < t.numFaces := by
    have : cId < t.c2v.size := hcId
    omega
  unfold outerBody at hb
  obtain ⟨b, hb1, hb⟩ := (bind_ok_iff _ _ _).mp hb
  rcases ite_ok hb with ⟨hvis, hb⟩ | ⟨hnv, hb⟩
  · refine ⟨_, pure_ok hb, ⟨hIO, hClosed⟩, fun f h => h, Or.inl ?_⟩
    show vf.getD (cId / 3) false = true
    rw [(rdB_get hb1).2]; exact hvis
  obtain ⟨d, hd, hb⟩ := (bind_ok_iff _ _ _).mp hb
  have ed := isDegenerated_ok hk hf hd
  rcases ite_ok hb with ⟨hdt, hb⟩ | ⟨hnd, hb⟩
  · exact ⟨_, pure_ok hb, ⟨hIO, hClosed⟩, fun f h => h, Or.inr (by rw [← ed]; exact hdt)⟩
  have hun : vf.getD (cId / 3) false = false := by
    rw [(rdB_get hb1).2]; simpa using hnv
  have hnd' : isDegenA t.c2v (cId / 3) = false := by
    rw [← ed]; simpa using hnd
  obtain ⟨x, hx, hb⟩ := (bind_ok_iff _ _ _).mp hb
  obtain ⟨interior, sc⟩ := x
  obtain ⟨hsp1, hsp2⟩ := findInit_spec hk hf hx
  obtain ⟨hsq1, hsq2⟩ := findInit_spec' hT hf hx
  simp only [] at hb
  rcases ite_ok hb with ⟨hint, hb⟩ | ⟨hnint, hb⟩
  · -- interior configuration
    obtain ⟨hsc, hnbr⟩ := hsq1 hint
    have hsclt : sc < t.c2v.size := by omega
    have hsci : sc < inv := by omega
    have en : Eb.nextC sc = 3 * (cId / 3) + 1 := by rw [nextC_cf sc hsci, hsc]; split <;> omega
    have ep : Eb.prevC sc = 3 * (cId / 3) + 2 := by rw [prevC_cf sc hsci, hsc]; split <;> omega
    obtain ⟨v0, hv0, hb⟩ := (bind_ok_iff _ _ _).mp hb
    obtain ⟨v1, hv1, hb⟩ := (bind_ok_iff _ _ _).mp hb
    obtain ⟨v2, hv2, hb⟩ := (bind_ok_iff _ _ _).mp hb
    obtain ⟨vv1, hvv1, hb⟩ := (bind_ok_iff _ _ _).mp hb
    obtain ⟨vv2, hvv2, hb⟩ := (bind_ok_iff _ _ _).mp hb
    obtain ⟨vv3, hvv3, hb⟩ := (bind_ok_iff _ _ _).mp hb
    obtain ⟨vf', hvf', hb⟩ := (bind_ok_iff _ _ _).mp hb
    obtain ⟨oppId, hopp, hb⟩ := (bind_ok_iff _ _ _).mp hb
    obtain ⟨b2, hb2, hb⟩ := (bind_ok_iff _ _ _).mp hb
    obtain ⟨_, e0⟩ := vertex_get (by omega) hv0
    obtain ⟨_, e1⟩ := vertex_get (by rw [en, inv_eq]; rw [inv_eq] at hfit; omega) hv1
    obtain ⟨_, e2⟩ := vertex_get (by rw [ep, inv_eq]; rw [inv_eq] at hfit; omega) hv2
    obtain ⟨l1, s1⟩ := wrB_get hvv1
    obtain ⟨l2, s2⟩ := wrB_get hvv2
    obtain ⟨l3, s3⟩ := wrB_get hvv3
    obtain ⟨lf, sf'⟩ := wrB_get hvf'
    have m1 : Mono vv vv1 := by rw [s1]; exact Mono.set _ _
    have m2 : Mono vv1 vv2 := by rw [s2]; exact Mono.set _ _
    have m3 : Mono vv2 vv3 := by rw [s3]; exact Mono.set _ _
    have g0 : vv3.getD (vget t.c2v sc) false = true := by
      apply m3.2; apply m2.2
      rw [s1, e0, bget_set' _ _ _ _ l1, if_pos rfl]
    have g1 : vv3.getD (vget t.c2v (Eb.nextC sc)) false = true := by
      apply m3.2
      rw [s2, e1, bget_set' _ _ _ _ l2, if_pos rfl]
    have g2 : vv3.getD (vget t.c2v (Eb.prevC sc)) false = true := by
      rw [s3, e2, bget_set' _ _ _ _ l3, if_pos rfl]
    have hdiv : Eb.nextC sc / 3 = cId / 3 := by rw [en]; omega
    have hInv' : Inv t vf' vv3 P (ifc.push (Eb.nextC sc)) := by
      rw [sf', ← hdiv]
      apply hInv.visit (Eb.nextC sc) (by rw [hdiv]; exact lf) (by rw [hdiv]; exact hun) (by rw [hdiv]; exact hnd')
        (m1.trans (m2.trans m3)) ?_ (countP_pushI P ifc (Eb.nextC sc))
      intro k hk3
      rw [hdiv]
      have : k = 0 ∨ k = 1 ∨ k = 2 := by omega
      rcases this with e | e | e
      · rw [e, Nat.add_zero, ← hsc]; exact g0
      · rw [e, ← en]; exact g1
      · rw [e, ← ep]; exact g2
    have hco : CornerOK t vv3 oppId := (opp_cornerOK hk hsclt (Or.inl rfl) hopp g0 g1 g2).1
    have hnlt : Eb.nextC sc < t.numCorners := by rw [en]; show _ < t.c2v.size; omega
    have eopp : t.opp[3 * (cId / 3) + 1]! = oppId := by
      rw [← en, ← vget_eq]; exact (opposite_get (hT.base.ne_inv hnlt) hopp).2
    have hoi : oppId ≠ inv := by rw [← eopp]; exact (hnbr 1 (by omega)).1
    have hFv' : vf'.getD (cId / 3) false = true := by rw [sf', bget_set' _ _ _ _ lf, if_pos rfl]
    have hm' : ∀ f, vf.getD f false = true → vf'.getD f false = true := by
      intro f hf'; rw [sf']; exact bget_set_true_mono vf _ f hf'
    -- after the call
    have fin : ∀ (from_ : Nat), (from_ = oppId ∨ (from_ = inv ∧ Vis vf' oppId)) →
        outerTail t holeId valence t.numFaces val sy (sf.encodeBit interior) (sfs.push interior) P sp f2s ls nss ()
          vf' vv3 vh (ifc.push (Eb.nextC sc)) from_ = .ok r →
        ∃ s', r = .yield s' ∧ OInv t s' ∧ (∀ f, vf.getD f false = true → s'.1.getD f false = true) ∧
          (s'.1.getD (cId / 3) false = true ∨ isDegenA t.c2v (cId / 3) = true) := by
      intro from_ hfrom hb
      have hcf : CornerOK t vv3 from_ := by
        rcases hfrom with e | ⟨e, _⟩
        · rw [e]; exact hco
        · exact Or.inl e
      have hgf : GateOK t vf' from_ := by
        rcases hfrom with e | ⟨e, _⟩
        · rw [e, ← eopp, ← en]
          apply gate_of_opp hT hnlt (by rw [en, eopp]; exact hoi)
          rw [hdiv]; exact hFv'
        · exact Or.inl e
      obtain ⟨s', hr, hIO', hifc, hend⟩ := outerTail_cov hT hInv' hcf hgf hb
      obtain ⟨vf2, vv2', vh2, val2, sy2, sf2, sfs2, P2, ifc2, sp2, f2s2, ls2, nss2⟩ := s'
      have hInv2 : Inv t vf2 vv2' P2 ifc2 := hIO'
      have hclosed2 : Closed t vf2 := by
        apply closed_after_call_init hT hH (vfOld := vf) (P := P2) (p0 := P.size) (F := cId / 3) hCl
          (fun f hf' => hend.mono f (hm' f hf')) hInv2.nd ?_ (fun i _ hi => inv_entry hk hInv2 i hi) hend.ent
          (by show _ < t.c2v.size; omega) (hend.mono _ hFv') (fun k hk' => (hnbr k hk').2) ?_
        · intro f hf'
          rcases hend.cls f hf' with h | h
          · rw [sf', bget_set' _ _ _ _ lf] at h
            by_cases e : f = cId / 3
            · exact Or.inr (Or.inl e)
            · rw [if_neg e] at h; exact Or.inl h
          · exact Or.inr (Or.inr h)
        · rw [eopp]
          rcases hfrom with e | ⟨_, e⟩
          · rw [← e]; exact hend.start
          · exact e.mono hend.mono
      exact ⟨_, hr, ⟨hIO', hclosed2⟩, fun f hf' => hend.mono f (hm' f hf'), Or.inl (hend.mono _ hFv')⟩
    rcases ite_ok hb with ⟨_, hb⟩ | ⟨hcond, hb⟩
    · exact fin oppId (Or.inl rfl) hb
    · refine fin inv (Or.inr ⟨rfl, Or.inr ?_⟩) hb
      have hfo : faceOf oppId = oppId / 3 := faceOf_ne hoi
      have hb2' := (rdB_get hb2).2
      rw [hfo] at hb2'
      rw [hb2']
      have : ¬ ((oppId / 3 != inv && !b2) = true) := by rw [← hfo]; exact hcond
      have hne3 : (oppId / 3 != inv) = true := by
        have hlt := hk.opp_lt _ hnlt (by rw [vget_eq, en, eopp]; exact hoi)
        rw [vget_eq, en, eopp] at hlt
        have : oppId / 3 ≠ inv := by rw [inv_eq]; rw [inv_eq] at hfit; omega
        simpa using this
      rw [hne3] at this
      simpa using this
  · -- a face at a hole
    have hst := hsp2 (by simpa using hnint)
    have hlink := hsq2 (by simpa using hnint)
    obtain ⟨hsclt, hso, hsnd⟩ := hst
    have hsci : sc < inv := by omega
    obtain ⟨x2, hx2, hb⟩ := (bind_ok_iff _ _ _).mp hb
    obtain ⟨vv', vh'⟩ := x2
    obtain ⟨hm, hg⟩ := encodeHole_spec hx2
    have hnl : Eb.nextC sc < inv := Eb.nextC_lt sc hsci
    obtain ⟨g1, g2⟩ := hg rfl hnl (by rw [prevC_nextC' sc hsci]; exact hso)
    rw [prevC_nextC' sc hsci] at g2
    have hco : CornerOK t vv' sc := by
      refine Or.inr ⟨hsclt, ?_, g1, g2⟩
      rcases hsnd with e | e
      · rw [e]; exact hnd'
      · exact e
    have hgate : GateOK t vf sc := by
      right; left
      rw [← vget_eq]
      exact (opposite_get (by omega) hso).2
    simp only [] at hb
    obtain ⟨s', hr, hIO', hifc, hend⟩ := outerTail_cov hT (hInv.mono hm) hco hgate hb
    obtain ⟨vf2, vv2', vh2, val2, sy2, sf2, sfs2, P2, ifc2, sp2, f2s2, ls2, nss2⟩ := s'
    have hInv2 : Inv t vf2 vv2' P2 ifc2 := hIO'
    have hclosed2 : Closed t vf2 := by
      intro x hx hv
      exact closed_after_call hT hH (fun _ => False) hCl hend.mono hInv2.nd
        (fun f hf' => by
          rcases hend.cls f hf' with h | h
          · exact Or.inl h
          · exact Or.inr (Or.inr h))
        (fun i _ hi => inv_entry hk hInv2 i hi) hend.ent x hx hv (fun h => h)
    refine ⟨_, hr, ⟨hIO', hclosed2⟩, hend.mono, Or.inl ?_⟩
    apply hlink vf2 hclosed2
    rcases hend.start with e | e
    · exact absurd e (by omega)
    · exact e

end call

/-! ## `EncodeConnectivity` reaches every non-degenerate face -/

theorem closed_init (t : CT) (n : Nat) : Closed t (Array.replicate n false) := by
  intro x _ hv
  have : (Array.replicate n false).getD (x / 3) false = false := by
    simp only [Array.getD_eq_getD_getElem?, Array.getElem?_replicate]
    by_cases h : x / 3 < n <;> simp [h]
  rw [this] at hv; cases hv

/-- **TRAVERSAL COMPLETENESS.**  After a successful `EncodeConnectivity` every non-degenerate face of the encoder's corner
    table is the face of a corner of `processed_connectivity_corners_`. -/
theorem encodeConnectivity_coverage (ch : ConnChoices) (valence : Bool) (posFaces : Faces)
    (acv : Array (Nat × Array Nat)) (conn : ConnEnc)
    (h : encodeConnectivity ch valence posFaces acv = .ok conn) :
    ∀ f, f < conn.ct.numFaces → isDegenerated conn.ct f = .ok false → f ∈ conn.processed.toList.map (· / 3) := by
  rw [encodeConnectivity_eq] at h
  split at h
  · rename_i table hcreate
    have hT := tblOK_ofTable hcreate
    have hk := hT.ctok
    simp only [] at h
    rcases ite_ok h with ⟨_, h⟩ | ⟨_, h⟩
    · exact (throw_bind_ne h).elim
    obtain ⟨x, hx, h⟩ := (bind_ok_iff _ _ _).mp h
    have hH : HolesOK (CT.ofTable table) x.1 := findHoles_spec hT (nh := x.2) hx
    obtain ⟨atts, _, h⟩ := (bind_ok_iff _ _ _).mp h
    obtain ⟨val, h⟩ := ite_bind_both h
    obtain ⟨s, hloop, h⟩ := (bind_ok_iff _ _ _).mp h
    have hI : (OInv (CT.ofTable table) s ∧ ∀ c, c < (CT.ofTable table).numCorners →
        s.1.getD (c / 3) false = true ∨ isDegenA (CT.ofTable table).c2v (c / 3) = true) ∨ False := by
      refine range_loop _ _
        (fun k s => OInv (CT.ofTable table) s ∧ ∀ c, c < k →
          s.1.getD (c / 3) false = true ∨ isDegenA (CT.ofTable table).c2v (c / 3) = true)
        (fun _ => False) ?_ _ s ?_ hloop
      · intro j s r hj ⟨hO, hcov⟩ hr
        left
        obtain ⟨s', e, hO', hmono, hnew⟩ := outerBody_cov hT hH j s r hj hO hr
        refine ⟨s', e, hO', ?_⟩
        intro c hc
        by_cases ec : c = j
        · rw [ec]; exact hnew
        · rcases hcov c (by omega) with h' | h'
          · exact Or.inl (hmono _ h')
          · exact Or.inr h'
      · exact ⟨⟨inv_init (CT.ofTable table) _ _ rfl, closed_init _ _⟩, fun c hc => by omega⟩
    have hFin := hI.resolve_right (fun h => h)
    obtain ⟨vf, vv, vh, val2, sy, sf, sfs, P, ifc, sp, f2s, ls, nss⟩ := s
    have hInv' : Inv (CT.ofTable table) vf vv P ifc := hFin.1.1
    have hcov := hFin.2
    dsimp only at hcov
    obtain ⟨sb, _, h⟩ := (bind_ok_iff _ _ _).mp h
    have hconn : conn.ct = CT.ofTable table ∧ conn.processed = P.reverse ++ ifc := by
      rcases ite_ok h with ⟨_, h⟩ | ⟨_, h⟩
      · obtain ⟨cb, _, h⟩ := (bind_ok_iff _ _ _).mp h
        have := pure_ok h
        rw [this]
        exact ⟨rfl, rfl⟩
      · have := pure_ok h
        rw [this]
        exact ⟨rfl, rfl⟩
    intro f hf hd
    rw [hconn.1] at hf hd
    have h3 := hk.three
    have hnd : isDegenA (CT.ofTable table).c2v f = false := (isDegenerated_ok hk hf (by exact hd)).symm
    have hv : vf.getD f false = true := by
      rcases hcov (3 * f) (by show _ < (CT.ofTable table).c2v.size; omega) with h' | h'
      · rw [show 3 * f / 3 = f by omega] at h'; exact h'
      · rw [show 3 * f / 3 = f by omega, hnd] at h'; cases h'
    have hc := hInv'.cnt f
    rw [if_pos hv] at hc
    have hpos : 0 < (P.toList ++ ifc.toList).countP (fun c => c / 3 == f) := by omega
    rw [List.countP_pos_iff] at hpos
    obtain ⟨c, hcm, hcf⟩ := hpos
    rw [hconn.2, List.mem_map]
    refine ⟨c, ?_, by simpa using hcf⟩
    rw [Array.toList_append, Array.toList_reverse, List.mem_append, List.mem_reverse]
    exact List.mem_append.mp hcm
  · simp only [throw, throwThe, MonadExceptOf.throw] at h
    cases h

/-- **the number of faces the encoder reports is the number of faces it encodes**: `processed_connectivity_corners_` has
    `num_faces − NumDegeneratedFaces` entries (`ComputeNumberOfEncodedFaces`), pairwise different non-degenerate faces -/
theorem encodeConnectivity_size (ch : ConnChoices) (valence : Bool) (posFaces : Faces)
    (acv : Array (Nat × Array Nat)) (conn : ConnEnc)
    (h : encodeConnectivity ch valence posFaces acv = .ok conn) :
    conn.processed.size = conn.ct.numFaces - conn.ct.numDegenerated :=
  (encodeConnectivity_faces ch valence posFaces acv conn h).2.2.2.2.mpr
    (encodeConnectivity_coverage ch valence posFaces acv conn h)

end Draco.EbEnc.Coverage
