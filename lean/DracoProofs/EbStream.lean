import DracoProofs.SeqGeometry
import DracoProofs.EbLayer
/-
  The outer layers of an Edgebreaker stream: header, metadata, and the composition of
  `decodeEdgebreaker` from its connectivity and attribute parts (`Runs` form).
-/
namespace Draco.EbEnc
open Draco Draco.SeqEnc DecM
open Draco.Eb hiding iabs nextC prevC

/-- `PointCloudEncoder::EncodeHeader` of `MeshEdgebreakerEncoder` (what `encodeEdgebreaker` writes first) -/
def ebHeader (hasMd : Bool) : Bytes :=
  [68, 82, 65, 67, 79, Generated.kDracoMeshBitstreamVersionMajor.toNat, Generated.kDracoMeshBitstreamVersionMinor.toNat,
   1, Generated.MESH_EDGEBREAKER_ENCODING.toNat] ++
  writeLE 2 (if hasMd then Generated.METADATA_FLAG_MASK.toNat else 0)

theorem runs_decodeHeader_eb (hasMd : Bool) (v : Nat) :
    Runs decodeHeader v (ebHeader hasMd) ⟨2, 2, 1, 1, if hasMd then 32768 else 0⟩ v := by
  unfold decodeHeader ebHeader
  refine Runs.bind' (bs := _) (b1 := [68, 82, 65, 67, 79]) (Runs.bytes _ 5 v rfl) rfl ?_
  refine Runs.bind0 (Runs.require (by decide) v) ?_
  refine Runs.bind1 (Runs.rdU8 _ v) ?_
  refine Runs.bind1 (Runs.rdU8 _ v) ?_
  refine Runs.bind1 (Runs.rdU8 _ v) ?_
  refine Runs.bind1 (Runs.rdU8 _ v) ?_
  refine Runs.bind' (Runs.rdU16 _ v (by cases hasMd <;> decide)) (List.append_nil _).symm ?_
  refine Runs.of_eq (Runs.pure _ v) rfl rfl ?_
  cases hasMd <;> rfl

/-- header + metadata + body: `decodeStreamWith` hands the body of a mesh stream with encoder method 1 to `eb` -/
theorem runs_decodeStreamWith_eb (eb kd : DecOpts → DecM Geometry) (opts : DecOpts) (md : Option GeometryMetadata)
    (mdBytes body : Bytes) (g' : Geometry) (hmd : ∀ m, md = some m → m.WF')
    (hmdb : encodeMetadataPart md = some mdBytes) (hbody : Runs (eb opts) 514 body g' 514) :
    Runs (decodeStreamWith eb kd opts) 0 (ebHeader md.isSome ++ (mdBytes ++ body)) ⟨g', md⟩ 514 := by
  unfold decodeStreamWith
  refine Runs.bind (runs_decodeHeader_eb md.isSome 0) ?_
  simp only []
  refine Runs.bind0 (Runs.require (by rfl) 0) ?_
  refine Runs.bind0 (Runs.require (by rfl) 0) ?_
  rw [if_neg (by show ¬ (false = true); exact Bool.false_ne_true),
    if_neg (by show ¬ (false = true); exact Bool.false_ne_true)]
  refine Runs.bind0 (Runs.setVersion _ 0) ?_
  refine runs_metadataStep _ md mdBytes _ _ (bsVersion 2 2) (bsVersion 2 2) _ (by decide) rfl hmd hmdb ?_
  rw [if_pos (by rfl)]
  refine Runs.bind' hbody (List.append_nil _).symm ?_
  exact Runs.pure _ 514

theorem runs_tags (ts : List String) (v : Nat) :
    Runs (forIn ts PUnit.unit (fun t _ => do DecM.tag t; pure (ForInStep.yield PUnit.unit))) v [] PUnit.unit v := by
  induction ts with
  | nil => exact Runs.pure _ v
  | cons t ts ih =>
    rw [List.forIn_cons]
    refine Runs.bind0 (Runs.bind0 (Runs.tag t v) (Runs.pure _ v)) ?_
    exact ih

/-- `decodeEdgebreaker` from its two parts -/
theorem runs_decodeEdgebreaker (opts : DecOpts) (cb ab : Bytes) (mesh : Mesh) (atts : List Attribute)
    (hconn : Runs decodeConnectivity 514 cb mesh 514)
    (hatts : Runs (decodeAttributes opts 514 mesh) 514 ab atts 514) :
    Runs (decodeEdgebreaker opts) 514 (cb ++ ab)
      { isMesh := true, numPoints := mesh.numPoints, faces := facesOf mesh, atts := atts } 514 := by
  unfold decodeEdgebreaker
  refine Runs.bind0 (Runs.version 514) ?_
  refine Runs.bind hconn ?_
  refine Runs.bind0 (runs_tags _ 514) ?_
  refine Runs.bind' hatts (List.append_nil _).symm ?_
  exact Runs.pure _ 514

/-- the complete decoder on an Edgebreaker stream, from the connectivity and attribute parts -/
theorem runs_decodeGeometry_eb (opts : DecOpts) (md : Option GeometryMetadata) (mdBytes cb ab : Bytes) (mesh : Mesh)
    (atts : List Attribute) (hmd : ∀ m, md = some m → m.WF') (hmdb : encodeMetadataPart md = some mdBytes)
    (hconn : Runs decodeConnectivity 514 cb mesh 514)
    (hatts : Runs (decodeAttributes opts 514 mesh) 514 ab atts 514) :
    Runs (decodeGeometry opts) 0 (ebHeader md.isSome ++ (mdBytes ++ (cb ++ ab)))
      ⟨{ isMesh := true, numPoints := mesh.numPoints, faces := facesOf mesh, atts := atts }, md⟩ 514 :=
  runs_decodeStreamWith_eb _ _ opts md mdBytes _ _ hmd hmdb (runs_decodeEdgebreaker opts cb ab mesh atts hconn hatts)

end Draco.EbEnc
