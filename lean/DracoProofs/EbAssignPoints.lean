import DracoProofs.EbAttViews
import DracoProofs.EbCounts
/-
  `MeshEdgebreakerDecoderImpl::AssignPointsToCorners` (`Eb.assignPoints`) on a corner table with fans: the decoder half
  of the gap documented in DracoProps/C09.lean ("how the fan is obtained from the corner table").

  Stage 1: `assignPoints_eq`: the function is a loop of `AP.apVertex` (start corner search `AP.apStart` /
           `AP.apSearchStep`, deduplication walk `AP.apWalk` / `AP.apWalkStep` / `AP.apSeamStep`) over the vertices (`rfl`).
  Stage 2: `assignPoints_consistent`: a successful run under `APHyp` gives every corner a point `< numPoints`, and POINTS
           REFINE VERTICES: corners with the same point have the same base vertex and the same vertex in every attribute
           corner table. `assignPoints_empty`: without attribute connectivity the result is `co.c2v`.
  Stage 3: `assignPoints_count`: `numPoints` is the sum of `Counts.decPoints (fanOfD co atts v)` over the vertices with a
           left-most corner, `fanOfD` the fan read off the tables (`fanCorners` = fuel-bounded `SwingRight` orbit of
           `LeftMostCorner(v)`, `closed = !is_vert_hole_[v]`, `onSeam = IsCornerOnSeam(LeftMostCorner(v))`);
           `fanOfD_shape`, `fanOfD_isolated`: the shape hypotheses of `C09.eb_point_count_fan` hold of `fanOfD`.

  Hypotheses `APHyp n co` (all invariants of the decoded corner table; `AP.tetra_hyp`: they hold of a tetrahedron):
    * `FanTbl (3 n) co.opp co.vc (co.c2v[·]!)`: `Opposite` is an involution, `SwingRight` keeps the base vertex, `vc[v]` is
      a corner of `v`;
    * cover: every corner is reached from the left-most corner of its vertex by `SwingRight` steps;
    * closed: a vertex NOT marked in `is_vert_hole_` has a closed fan. (The converse is not needed: on a marked vertex
      the decoder and `decPoints` with `closed = false` both walk from the left-most corner without looking back.)
  No consistency between `vertSeam` / `a.c2v` and the base table is assumed: the attribute half of "points refine
  vertices" follows from the walk itself.
-/
namespace Draco.EbEnc
open Draco
open Draco.Eb hiding iabs nextC prevC
open AttViews

namespace AP

/-! ## Stage 1: `assignPoints` as a loop over named bodies -/

/-- state of the deduplication walk: (tags, `point_to_corner_map`, `corner_to_point_map`, corner, previous corner,
    finished) -/
abbrev WSt := Nat × Array Nat × Array Nat × Nat × Nat × Bool
/-- state of the seam search: (`deduplication_first_corner`, `act_c`, seam found, finished) -/
abbrev SSt := Nat × Nat × Bool × Bool
/-- state of the loop over the vertices: (tags, `point_to_corner_map`, `corner_to_point_map`) -/
abbrev VSt := Nat × Array Nat × Array Nat

/-- `if (att.Vertex(c) != att.Vertex(prev_c)) { attribute_seam = true; break; }` -/
def apSeamStep (c prev : Nat) (a : AttConn) (s : Bool) : R (ForInStep Bool) := do
  let x ← rd "MeshAttributeCornerTable::Vertex" a.c2v c
  let y ← rd "MeshAttributeCornerTable::Vertex" a.c2v prev
  if (x != y) = true then pure (ForInStep.done true) else pure (ForInStep.yield s)

/-- one iteration of `while (c != kInvalidCornerIndex && c != deduplication_first_corner)` -/
def apWalkStep (opp : Array Nat) (atts : Array AttConn) (first : Nat) (_x : Nat) (s : WSt) : R (ForInStep WSt) :=
  if (s.2.2.2.1 == inv || s.2.2.2.1 == first) = true then
    pure (ForInStep.done (s.1, s.2.1, s.2.2.1, s.2.2.2.1, s.2.2.2.2.1, true))
  else do
    let seam ← forIn atts false (apSeamStep s.2.2.2.1 s.2.2.2.2.1)
    if seam = true then do
      let c2p ← wr "corner_to_point_map" s.2.2.1 s.2.2.2.1 s.2.1.size
      let c ← swingRight opp s.2.2.2.1
      pure (ForInStep.yield (s.1 ||| tg_points_new_on_seam, s.2.1.push s.2.2.2.1, c2p, c, s.2.2.2.1, s.2.2.2.2.2))
    else do
      let p ← rd "corner_to_point_map" s.2.2.1 s.2.2.2.2.1
      let c2p ← wr "corner_to_point_map" s.2.2.1 s.2.2.2.1 p
      let c ← swingRight opp s.2.2.2.1
      pure (ForInStep.yield (s.1, s.2.1, c2p, c, s.2.2.2.1, s.2.2.2.2.2))

/-- the new point of the start corner `first`, then the deduplication walk -/
def apWalk (nc : Nat) (opp : Array Nat) (atts : Array AttConn) (tags : Nat) (p2c c2p : Array Nat) (first : Nat) :
    R (ForInStep VSt) := do
  let c2p ← wr "corner_to_point_map" c2p first p2c.size
  let c ← swingRight opp first
  let s ← forIn [:nc + 1] ((tags, p2c.push first, c2p, c, first, false) : WSt) (apWalkStep opp atts first)
  if (!s.2.2.2.2.2) = true then do
    throw (Err.fuel "AssignPointsToCorners: corners of a vertex")
    pure (ForInStep.yield (s.1, s.2.1, s.2.2.1))
  else pure (ForInStep.yield (s.1, s.2.1, s.2.2.1))

/-- one iteration of `while (act_c != c)` of the search for a seam of the attribute `a` -/
def apSearchStep (opp : Array Nat) (a : AttConn) (c0 vertId : Nat) (_x : Nat) (s : SSt) : R (ForInStep SSt) :=
  if (s.2.1 == c0) = true then pure (ForInStep.done (s.1, s.2.1, s.2.2.1, true))
  else
    let jp : Unit → R (ForInStep SSt) := fun _ => do
      let w ← rd "MeshAttributeCornerTable::Vertex" a.c2v s.2.1
      if (w != vertId) = true then pure (ForInStep.done (s.2.1, s.2.1, true, true))
      else do
        let actC ← swingRight opp s.2.1
        pure (ForInStep.yield (s.1, actC, s.2.2.1, s.2.2.2))
    if (s.2.1 == inv) = true then do
      let r ← throw Err.fail
      jp r
    else jp ()

/-- the body of `for (i < attribute_data_.size())` choosing `deduplication_first_corner` -/
def apStart (nc : Nat) (c2v opp : Array Nat) (c0 : Nat) (a : AttConn) (s : Nat × Nat) : R (ForInStep (Nat × Nat)) := do
  let vb ← vertex c2v c0
  let b ← rdB "is_vertex_on_seam_" a.vertSeam vb
  if (!b) = true then pure (ForInStep.yield (s.1, s.2))
  else do
    let vertId ← rd "MeshAttributeCornerTable::Vertex" a.c2v c0
    let actC ← swingRight opp c0
    let r ← forIn [:nc + 1] ((s.2, actC, false, false) : SSt) (apSearchStep opp a c0 vertId)
    let jp : Unit → R (ForInStep (Nat × Nat)) := fun _ =>
      if r.2.2.1 = true then pure (ForInStep.done (s.1 ||| tg_points_dedup_seam_start, r.1))
      else pure (ForInStep.yield (s.1, r.1))
    if (!r.2.2.2) = true then do
      let u ← throw (Err.fuel "AssignPointsToCorners: seam search")
      jp u
    else jp ()

/-- the body of the loop over the vertices -/
def apVertex (nc : Nat) (co : ConnOut) (atts : Array AttConn) (v : Nat) (s : VSt) : R (ForInStep VSt) :=
  if (co.vc[v]! == inv) = true then pure (ForInStep.yield (s.1, s.2.1, s.2.2))
  else do
    let h ← rdB "is_vert_hole_" co.hole v
    if h = true then apWalk nc co.opp atts (s.1 ||| tg_points_boundary_vertex) s.2.1 s.2.2 co.vc[v]!
    else do
      let r ← forIn atts ((s.1, co.vc[v]!) : Nat × Nat) (apStart nc co.c2v co.opp co.vc[v]!)
      apWalk nc co.opp atts r.1 s.2.1 s.2.2 r.2

end AP
open AP

/-- **Stage 1**: `AssignPointsToCorners` is a loop of `apVertex` over the vertices -/
theorem assignPoints_eq (co : ConnOut) (n : Nat) (atts : Array AttConn) :
    assignPoints co n atts =
      (if atts.isEmpty = true then pure (co.c2v, co.numConnVerts, 0)
      else do
        let s ← forIn [:co.vc.size] ((0, #[], Array.replicate (3 * n) 0) : VSt) (apVertex (3 * n) co atts)
        pure (s.2.2, s.2.1.size, s.1)) := by
  rfl

namespace AP

/-! ## Stage 2: the deduplication walk -/

theorem rd_ok! {site : String} {a : Array Nat} {i v : Nat} (h : rd site a i = .ok v) : i < a.size ∧ a[i]! = v := by
  obtain ⟨hi, e⟩ := rd_ok h
  exact ⟨hi, by rw [← e]; simp [hi]⟩

/-- some attribute corner table has different vertices at the two corners -/
def seamB (atts : Array AttConn) (c prev : Nat) : Bool := atts.toList.any (fun a => a.c2v[c]! != a.c2v[prev]!)

theorem seamLoop_list (c prev : Nat) : ∀ (l : List AttConn) (s b : Bool), forIn l s (apSeamStep c prev) = .ok b →
    b = (s || l.any (fun a => a.c2v[c]! != a.c2v[prev]!)) := by
  intro l
  induction l with
  | nil =>
    intro s b h
    simp [pure, Except.pure] at h
    simp [h]
  | cons a l ih =>
    intro s b h
    rw [List.forIn_cons, bind_ok_iff] at h
    obtain ⟨r, h1, h2⟩ := h
    unfold apSeamStep at h1
    rw [bind_ok_iff] at h1
    obtain ⟨x, hx, h1⟩ := h1
    rw [bind_ok_iff] at h1
    obtain ⟨y, hy, h1⟩ := h1
    obtain ⟨_, ex⟩ := rd_ok! hx
    obtain ⟨_, ey⟩ := rd_ok! hy
    rw [List.any_cons, ex, ey]
    by_cases hxy : (x != y) = true
    · rw [if_pos hxy] at h1
      simp only [pure, Except.pure] at h1
      cases h1
      simp only [pure, Except.pure] at h2
      cases h2
      simp [hxy]
    · rw [if_neg hxy] at h1
      simp only [pure, Except.pure] at h1
      cases h1
      have := ih s b h2
      rw [this]
      simp [hxy]

/-- the loop over the attributes in the deduplication walk computes `seamB` -/
theorem seamLoop_ok (atts : Array AttConn) (c prev : Nat) (b : Bool)
    (h : forIn atts false (apSeamStep c prev) = .ok b) : b = seamB atts c prev := by
  rw [← Array.forIn_toList] at h
  have := seamLoop_list c prev atts.toList false b h
  rw [this]
  simp [seamB]

/-- number of new points the walk created at its corners `1 … i` -/
def wcnt (atts : Array AttConn) (X : Nat → Nat) : Nat → Nat
  | 0 => 0
  | i + 1 => wcnt atts X i + (if seamB atts (X (i + 1)) (X i) = true then 1 else 0)

theorem wcnt_mono (atts : Array AttConn) (X : Nat → Nat) (i d : Nat) : wcnt atts X i ≤ wcnt atts X (i + d) := by
  induction d with
  | zero => exact Nat.le_refl _
  | succ d ih =>
    show _ ≤ wcnt atts X (i + d) + _
    omega

/-- corners of the walk with the same point have the same vertex in every attribute corner table -/
theorem wcnt_eq (atts : Array AttConn) (X : Nat → Nat) (i d : Nat) (h : wcnt atts X i = wcnt atts X (i + d)) :
    ∀ a ∈ atts, a.c2v[X i]! = a.c2v[X (i + d)]! := by
  induction d with
  | zero => intro a _; rfl
  | succ d ih =>
    have h1 := wcnt_mono atts X i d
    have h2 : wcnt atts X (i + (d + 1)) = wcnt atts X (i + d) +
        (if seamB atts (X (i + d + 1)) (X (i + d)) = true then 1 else 0) := rfl
    by_cases hs : seamB atts (X (i + d + 1)) (X (i + d)) = true
    · rw [if_pos hs] at h2; omega
    · rw [if_neg hs] at h2
      intro a ha
      rw [ih (by omega) a ha]
      have hs' : seamB atts (X (i + d + 1)) (X (i + d)) = false := by simpa using hs
      unfold seamB at hs'
      rw [List.any_eq_false] at hs'
      have := hs' a (by simpa using ha)
      show _ = a.c2v[X (i + d + 1)]!
      have e : a.c2v[X (i + d + 1)]! = a.c2v[X (i + d)]! := by simpa using this
      exact e.symm

/-- the invariant of the deduplication walk from `f`, after `j` steps; `c2p00` the map before the walk, `p0` the number
    of points before the walk -/
structure WInv (N : Nat) (opp : Array Nat) (atts : Array AttConn) (f : Nat) (c2p00 : Array Nat) (p0 : Nat) (j : Nat)
    (p2c c2p : Array Nat) (c prev : Nat) : Prop where
  size : c2p.size = N
  act : c = iter (sRP opp) (j + 1) f
  prev : prev = iter (sRP opp) j f
  valid : ∀ i, i ≤ j → iter (sRP opp) i f < N
  nef : ∀ i, 1 ≤ i → i ≤ j → iter (sRP opp) i f ≠ f
  frame : ∀ x, (∀ i, i ≤ j → x ≠ iter (sRP opp) i f) → c2p[x]! = c2p00[x]!
  vals : ∀ i, i ≤ j → c2p[iter (sRP opp) i f]! = p0 + wcnt atts (fun i => iter (sRP opp) i f) i
  psz : p2c.size = p0 + 1 + wcnt atts (fun i => iter (sRP opp) i f) j

theorem WInv.step {N : Nat} {opp : Array Nat} (hb : BaseTbl N opp) {atts : Array AttConn} {f : Nat} {c2p00 : Array Nat}
    {p0 j : Nat} {p2c c2p : Array Nat} {c prev : Nat} (hI : WInv N opp atts f c2p00 p0 j p2c c2p c prev)
    (hc : c ≠ inv) (hcf : c ≠ f) (p2c' c2p' : Array Nat) (val : Nat)
    (hsz : c2p'.size = c2p.size) (hc2p : ∀ x, c2p'[x]! = if x = c then val else c2p[x]!)
    (hcase : (seamB atts c prev = true ∧ val = p2c.size ∧ p2c'.size = p2c.size + 1) ∨
      (seamB atts c prev = false ∧ val = c2p[prev]! ∧ p2c' = p2c)) :
    WInv N opp atts f c2p00 p0 (j + 1) p2c' c2p' (sRP opp c) c := by
  have hcX : c = iter (sRP opp) (j + 1) f := hI.act
  have hcN : c < N := by
    have := hb.sR_lt (hI.valid j (Nat.le_refl _))
    rw [← iter_succ' (sRP opp) j f, ← hcX] at this
    rcases this with e | e
    · exact absurd e hc
    · exact e
  have hvalid : ∀ i, i ≤ j + 1 → iter (sRP opp) i f < N := by
    intro i hi
    by_cases e : i = j + 1
    · rw [e, ← hcX]; exact hcN
    · exact hI.valid i (by omega)
  have hnef : ∀ i, 1 ≤ i → i ≤ j + 1 → iter (sRP opp) i f ≠ f := by
    intro i h1 hi
    by_cases e : i = j + 1
    · rw [e, ← hcX]; exact hcf
    · exact hI.nef i h1 (by omega)
  have hdist : ∀ i, i ≤ j → iter (sRP opp) i f ≠ c := by
    intro i hi
    rw [hcX]
    exact walk_inj hb hvalid hnef i (j + 1) (by omega) (Nat.le_refl _)
  have hold : ∀ i, i ≤ j → c2p'[iter (sRP opp) i f]! = c2p[iter (sRP opp) i f]! := by
    intro i hi
    rw [hc2p, if_neg (hdist i hi)]
  have hw : wcnt atts (fun i => iter (sRP opp) i f) (j + 1) = wcnt atts (fun i => iter (sRP opp) i f) j +
      (if seamB atts c prev = true then 1 else 0) := by
    show _ + (if seamB atts (iter (sRP opp) (j + 1) f) (iter (sRP opp) j f) = true then 1 else 0) = _
    rw [← hcX, ← hI.prev]
  have hpsz := hI.psz
  have hvj := hI.vals j (Nat.le_refl _)
  rw [← hI.prev] at hvj
  refine ⟨by rw [hsz]; exact hI.size, by rw [iter_succ', ← hcX], hcX, hvalid, hnef, ?_, ?_, ?_⟩
  · intro x hx
    rw [hc2p, if_neg (by rw [hcX]; exact hx (j + 1) (Nat.le_refl _))]
    exact hI.frame x (fun i hi => hx i (by omega))
  · intro i hi
    by_cases e : i = j + 1
    · subst e
      rw [← hcX, hc2p, if_pos rfl, hw]
      rcases hcase with ⟨e1, e2, _⟩ | ⟨e1, e2, _⟩
      · rw [e1, e2, hpsz]; simp; omega
      · rw [e1, e2, hvj]; simp
    · rw [hold i (by omega)]
      exact hI.vals i (by omega)
  · rw [hw]
    rcases hcase with ⟨e1, _, e3⟩ | ⟨e1, _, e3⟩
    · rw [e1, e3, hpsz]; simp; omega
    · rw [e1, e3, hpsz]; simp

theorem WInv.init {N : Nat} {opp : Array Nat} (atts : Array AttConn) {f : Nat} (hf : f < N) (c2p00 c2p0 : Array Nat)
    (p2c : Array Nat) (p0 : Nat) (hp : p2c.size = p0 + 1)
    (hsz : c2p0.size = N) (hc2p : ∀ x, c2p0[x]! = if x = f then p0 else c2p00[x]!) :
    WInv N opp atts f c2p00 p0 0 p2c c2p0 (sRP opp f) f := by
  refine ⟨hsz, rfl, rfl, ?_, ?_, ?_, ?_, ?_⟩
  · intro i hi
    have : i = 0 := by omega
    subst this; exact hf
  · intro i h1 h2; omega
  · intro x hx
    have hxf : x ≠ f := hx 0 (Nat.le_refl _)
    rw [hc2p, if_neg hxf]
  · intro i hi
    have : i = 0 := by omega
    subst this
    show c2p0[f]! = p0 + 0
    rw [hc2p, if_pos rfl, Nat.add_zero]
  · show p2c.size = p0 + 1 + 0
    omega

/-- one iteration of the deduplication walk -/
theorem apWalkStep_ok {N : Nat} {opp : Array Nat} (hb : BaseTbl N opp) (atts : Array AttConn) (f : Nat)
    (c2p00 : Array Nat) (p0 j x : Nat) (s : WSt) (r : ForInStep WSt)
    (hI : WInv N opp atts f c2p00 p0 j s.2.1 s.2.2.1 s.2.2.2.1 s.2.2.2.2.1) (hfin : s.2.2.2.2.2 = false)
    (hr : apWalkStep opp atts f x s = .ok r) :
    (∃ s', r = .yield s' ∧ WInv N opp atts f c2p00 p0 (j + 1) s'.2.1 s'.2.2.1 s'.2.2.2.1 s'.2.2.2.2.1 ∧
      s'.2.2.2.2.2 = false) ∨
    (∃ s', r = .done s' ∧ WInv N opp atts f c2p00 p0 j s'.2.1 s'.2.2.1 s'.2.2.2.1 s'.2.2.2.2.1 ∧
      s'.2.2.2.2.2 = true ∧ (iter (sRP opp) (j + 1) f = inv ∨ iter (sRP opp) (j + 1) f = f)) := by
  obtain ⟨tags, p2c, c2p, c, prev, fin⟩ := s
  simp only at hI hfin
  unfold apWalkStep at hr
  simp only at hr
  by_cases hd : (c == inv || c == f) = true
  · rw [if_pos hd] at hr
    simp only [pure, Except.pure] at hr
    cases hr
    right
    refine ⟨_, rfl, hI, rfl, ?_⟩
    rw [← hI.act]
    simpa using hd
  · rw [if_neg hd, bind_ok_iff] at hr
    obtain ⟨seam, hs, hr⟩ := hr
    have hne : c ≠ inv ∧ c ≠ f := by simpa using hd
    have hcN : c < N := by
      have := hb.sR_lt (hI.valid j (Nat.le_refl _))
      rw [← iter_succ' (sRP opp) j f, ← hI.act] at this
      rcases this with e | e
      · exact absurd e hne.1
      · exact e
    have hse := seamLoop_ok atts c prev seam hs
    subst hse
    left
    by_cases hsb : seamB atts c prev = true
    · rw [if_pos hsb, bind_ok_iff] at hr
      obtain ⟨c2p', hw, hr⟩ := hr
      rw [hb.swingRight_eq hcN] at hr
      simp only [bind, Except.bind, pure, Except.pure] at hr
      cases hr
      obtain ⟨_, w2, w3⟩ := wr_ok hw
      exact ⟨_, rfl, hI.step hb hne.1 hne.2 (p2c.push c) c2p' _ w2 w3 (Or.inl ⟨hsb, rfl, by simp⟩), hfin⟩
    · rw [if_neg hsb, bind_ok_iff] at hr
      obtain ⟨p, hp, hr⟩ := hr
      rw [bind_ok_iff] at hr
      obtain ⟨c2p', hw, hr⟩ := hr
      rw [hb.swingRight_eq hcN] at hr
      simp only [bind, Except.bind, pure, Except.pure] at hr
      cases hr
      obtain ⟨_, w2, w3⟩ := wr_ok hw
      obtain ⟨_, ep⟩ := rd_ok! hp
      exact ⟨_, rfl, hI.step hb hne.1 hne.2 p2c c2p' p w2 w3 (Or.inr ⟨by simpa using hsb, ep.symm, rfl⟩), hfin⟩

/-- the new point of the start corner `f` and the deduplication walk from it, on maps `p2c00`, `c2p00` -/
theorem apWalk_ok {N : Nat} {opp : Array Nat} (hb : BaseTbl N opp) (atts : Array AttConn) (nc tags : Nat)
    (p2c00 c2p00 : Array Nat) (hsz : c2p00.size = N) (f : Nat) (r : ForInStep VSt)
    (hr : apWalk nc opp atts tags p2c00 c2p00 f = .ok r) :
    f < N ∧ ∃ tags' p2c c2p c prev J, r = .yield (tags', p2c, c2p) ∧ J ≤ nc ∧
      WInv N opp atts f c2p00 p2c00.size J p2c c2p c prev ∧
      (iter (sRP opp) (J + 1) f = inv ∨ iter (sRP opp) (J + 1) f = f) := by
  unfold apWalk at hr
  rw [bind_ok_iff] at hr
  obtain ⟨c2p0, hw, hr⟩ := hr
  obtain ⟨w1, w2, w3⟩ := wr_ok hw
  have hf : f < N := by omega
  refine ⟨hf, ?_⟩
  rw [hb.swingRight_eq hf, ok_bind, bind_ok_iff] at hr
  obtain ⟨s, hl, hr⟩ := hr
  rw [Seams.range_forIn] at hl
  have key := forIn_range_done (apWalkStep opp atts f)
    (fun j s => WInv N opp atts f c2p00 p2c00.size j s.2.1 s.2.2.1 s.2.2.2.1 s.2.2.2.2.1 ∧ s.2.2.2.2.2 = false)
    (fun s => ∃ J, J ≤ nc ∧ WInv N opp atts f c2p00 p2c00.size J s.2.1 s.2.2.1 s.2.2.2.1 s.2.2.2.2.1 ∧
      s.2.2.2.2.2 = true ∧ (iter (sRP opp) (J + 1) f = inv ∨ iter (sRP opp) (J + 1) f = f)) (nc + 1) 0
    (by
      intro j s r _ hj ⟨hI, hfin⟩ hr
      rcases apWalkStep_ok hb atts f c2p00 p2c00.size j j s r hI hfin hr with ⟨s', e, h1, h2⟩ | ⟨s', e, h1, h2, h3⟩
      · exact Or.inl ⟨s', e, h1, h2⟩
      · exact Or.inr ⟨s', e, j, by omega, h1, h2, h3⟩)
    _ s ⟨WInv.init atts hf c2p00 c2p0 _ p2c00.size (by simp) (by omega) w3, rfl⟩ hl
  rcases key with ⟨_, e⟩ | ⟨J, hJ, hI, e, hend⟩
  · rw [e] at hr
    simp only [Bool.not_false, if_true] at hr
    cases hr
  · rw [e] at hr
    simp only [Bool.not_true, Bool.false_eq_true, if_false, pure, Except.pure] at hr
    cases hr
    exact ⟨_, _, _, _, _, J, rfl, hJ, hI, hend⟩

/-! ### the search for the start corner -/

/-- the corners `1 … j` to the right of `c0` are valid, differ from `c0` and have the attribute vertex of `c0` in `a` -/
def SPre (N : Nat) (opp : Array Nat) (a : AttConn) (c0 j : Nat) : Prop :=
  ∀ i, 1 ≤ i → i ≤ j → iter (sRP opp) i c0 < N ∧ iter (sRP opp) i c0 ≠ c0 ∧
    a.c2v[iter (sRP opp) i c0]! = a.c2v[c0]!

/-- the attribute `a` does not move `deduplication_first_corner`: `c0` is not on a seam of `a`, or the walk to the right
    from `c0` returns to `c0` without a change of the attribute vertex -/
def ANone (N : Nat) (opp c2v : Array Nat) (a : AttConn) (c0 : Nat) : Prop :=
  a.vertSeam[c2v[c0]!]! = false ∨
  (a.vertSeam[c2v[c0]!]! = true ∧ ∃ j, iter (sRP opp) (j + 1) c0 = c0 ∧ SPre N opp a c0 j)

/-- the attribute `a` moves `deduplication_first_corner` `m` steps to the right of `c0` -/
def ASome (N : Nat) (opp c2v : Array Nat) (a : AttConn) (c0 m : Nat) : Prop :=
  a.vertSeam[c2v[c0]!]! = true ∧ ∃ j, m = j + 1 ∧ iter (sRP opp) m c0 < N ∧ iter (sRP opp) m c0 ≠ c0 ∧
    a.c2v[iter (sRP opp) m c0]! ≠ a.c2v[c0]! ∧ SPre N opp a c0 j

theorem apSearchStep_ok {N : Nat} {opp : Array Nat} (hb : BaseTbl N opp) (a : AttConn) (c0 : Nat) (hc0 : c0 < N)
    (j x : Nat) (s : SSt) (r : ForInStep SSt) (hact : s.2.1 = iter (sRP opp) (j + 1) c0) (hfound : s.2.2.1 = false)
    (hfin : s.2.2.2 = false) (hpre : SPre N opp a c0 j) (hr : apSearchStep opp a c0 a.c2v[c0]! x s = .ok r) :
    (∃ s', r = .yield s' ∧ s'.1 = s.1 ∧ s'.2.1 = iter (sRP opp) (j + 2) c0 ∧ s'.2.2.1 = false ∧ s'.2.2.2 = false ∧
      SPre N opp a c0 (j + 1)) ∨
    (∃ s', r = .done s' ∧ SPre N opp a c0 j ∧
      ((s'.1 = s.1 ∧ s'.2.2.1 = false ∧ s'.2.2.2 = true ∧ iter (sRP opp) (j + 1) c0 = c0) ∨
       (s'.1 = iter (sRP opp) (j + 1) c0 ∧ s'.2.2.1 = true ∧ s'.2.2.2 = true ∧ iter (sRP opp) (j + 1) c0 < N ∧
         iter (sRP opp) (j + 1) c0 ≠ c0 ∧ a.c2v[iter (sRP opp) (j + 1) c0]! ≠ a.c2v[c0]!))) := by
  obtain ⟨first, act, found, fin⟩ := s
  simp only at hact hfound hfin
  unfold apSearchStep at hr
  simp only at hr
  by_cases h0 : (act == c0) = true
  · rw [if_pos h0] at hr
    simp only [pure, Except.pure] at hr
    cases hr
    right
    refine ⟨_, rfl, hpre, Or.inl ⟨rfl, hfound, rfl, ?_⟩⟩
    rw [← hact]; simpa using h0
  · rw [if_neg h0] at hr
    have hne0 : act ≠ c0 := by simpa using h0
    by_cases hi : (act == inv) = true
    · rw [if_pos hi] at hr
      cases hr
    · rw [if_neg hi, bind_ok_iff] at hr
      have hnei : act ≠ inv := by simpa using hi
      have hjN : iter (sRP opp) j c0 < N := by
        cases j with
        | zero => exact hc0
        | succ j => exact (hpre (j + 1) (by omega) (Nat.le_refl _)).1
      have hactN : act < N := by
        have := hb.sR_lt hjN
        rw [← iter_succ' (sRP opp) j c0, ← hact] at this
        rcases this with e | e
        · exact absurd e hnei
        · exact e
      obtain ⟨w, hw, hr⟩ := hr
      obtain ⟨_, ew⟩ := rd_ok! hw
      subst ew
      by_cases hd : (a.c2v[act]! != a.c2v[c0]!) = true
      · rw [if_pos hd] at hr
        simp only [pure, Except.pure] at hr
        cases hr
        right
        refine ⟨_, rfl, hpre, Or.inr ⟨hact, rfl, rfl, ?_, ?_, ?_⟩⟩
        · rw [← hact]; exact hactN
        · rw [← hact]; exact hne0
        · rw [← hact]; simpa using hd
      · rw [if_neg hd, hb.swingRight_eq hactN] at hr
        simp only [bind, Except.bind, pure, Except.pure] at hr
        cases hr
        left
        refine ⟨_, rfl, rfl, ?_, hfound, hfin, ?_⟩
        · show sRP opp act = _
          rw [hact]
          exact (iter_succ' (sRP opp) (j + 1) c0).symm
        · intro i h1 h2
          by_cases e : i = j + 1
          · subst e
            rw [← hact]
            exact ⟨hactN, hne0, by simpa using hd⟩
          · exact hpre i h1 (by omega)

/-- the body of the loop over the attributes that chooses the start corner -/
theorem apStart_ok {N : Nat} {opp : Array Nat} (hb : BaseTbl N opp) (nc : Nat) (c2v : Array Nat) (c0 : Nat)
    (hc0 : c0 < N) (a : AttConn) (s : Nat × Nat) (r : ForInStep (Nat × Nat))
    (hr : apStart nc c2v opp c0 a s = .ok r) :
    (ANone N opp c2v a c0 ∧ r = .yield (s.1, s.2)) ∨
    (∃ m tags', ASome N opp c2v a c0 m ∧ r = .done (tags', iter (sRP opp) m c0)) := by
  unfold apStart at hr
  rw [bind_ok_iff] at hr
  obtain ⟨vb, hvb, hr⟩ := hr
  unfold vertex at hvb
  rw [beq_inv_false (hb.ne_inv hc0)] at hvb
  simp only [Bool.false_eq_true, if_false] at hvb
  obtain ⟨_, evb⟩ := rd_ok! hvb
  subst evb
  rw [bind_ok_iff] at hr
  obtain ⟨b, hbb, hr⟩ := hr
  obtain ⟨_, rfl⟩ := Seams.rdB_ok hbb
  by_cases hflag : a.vertSeam[c2v[c0]!]! = true
  · rw [hflag] at hr
    simp only [Bool.not_true, Bool.false_eq_true, if_false] at hr
    rw [bind_ok_iff] at hr
    obtain ⟨vid, hvid, hr⟩ := hr
    obtain ⟨_, evid⟩ := rd_ok! hvid
    subst evid
    rw [hb.swingRight_eq hc0, ok_bind, bind_ok_iff] at hr
    obtain ⟨out, hl, hr⟩ := hr
    rw [Seams.range_forIn] at hl
    have key := forIn_range_done (apSearchStep opp a c0 a.c2v[c0]!)
      (fun j t => t.1 = s.2 ∧ t.2.1 = iter (sRP opp) (j + 1) c0 ∧ t.2.2.1 = false ∧ t.2.2.2 = false ∧ SPre N opp a c0 j)
      (fun t => ∃ j, SPre N opp a c0 j ∧
        ((t.1 = s.2 ∧ t.2.2.1 = false ∧ t.2.2.2 = true ∧ iter (sRP opp) (j + 1) c0 = c0) ∨
         (t.1 = iter (sRP opp) (j + 1) c0 ∧ t.2.2.1 = true ∧ t.2.2.2 = true ∧ iter (sRP opp) (j + 1) c0 < N ∧
           iter (sRP opp) (j + 1) c0 ≠ c0 ∧ a.c2v[iter (sRP opp) (j + 1) c0]! ≠ a.c2v[c0]!))) (nc + 1) 0
      (by
        intro j t r _ _ ⟨h1, h2, h3, h4, h5⟩ hr
        rcases apSearchStep_ok hb a c0 hc0 j j t r h2 h3 h4 h5 hr with ⟨s', e, g1, g2, g3, g4, g5⟩ | ⟨s', e, g1, g2⟩
        · exact Or.inl ⟨s', e, by rw [g1, h1], g2, g3, g4, g5⟩
        · refine Or.inr ⟨s', e, j, g1, ?_⟩
          rcases g2 with ⟨q1, q2⟩ | q
          · exact Or.inl ⟨by rw [q1, h1], q2⟩
          · exact Or.inr q)
      _ out ⟨rfl, rfl, rfl, rfl, fun i h1 h2 => by omega⟩ hl
    rcases key with ⟨_, _, _, e, _⟩ | ⟨j, hpre, ⟨e1, e2, e3, e4⟩ | ⟨e1, e2, e3, e4, e5, e6⟩⟩
    · rw [e] at hr
      simp only [Bool.not_false, if_true] at hr
      cases hr
    · rw [e2, e3] at hr
      simp only [Bool.not_true, Bool.false_eq_true, if_false, pure, Except.pure] at hr
      cases hr
      left
      exact ⟨Or.inr ⟨hflag, j, e4, hpre⟩, by rw [e1]⟩
    · rw [e2, e3] at hr
      simp only [Bool.not_true, Bool.false_eq_true, if_false, if_true, pure, Except.pure] at hr
      cases hr
      right
      exact ⟨j + 1, _, ⟨hflag, j, rfl, e4, e5, e6, hpre⟩, by rw [e1]⟩
  · have hf : a.vertSeam[c2v[c0]!]! = false := by simpa using hflag
    rw [hf] at hr
    simp only [Bool.not_false, if_true, pure, Except.pure] at hr
    cases hr
    left
    exact ⟨Or.inl hf, rfl⟩

/-- the choice of the start corner `m` steps to the right of `c0` by the attributes `l` -/
def StartSpec (N : Nat) (opp c2v : Array Nat) (c0 : Nat) (l : List AttConn) (m : Nat) : Prop :=
  (m = 0 ∧ ∀ a ∈ l, ANone N opp c2v a c0) ∨
  (∃ l1 a l2, l = l1 ++ a :: l2 ∧ (∀ a' ∈ l1, ANone N opp c2v a' c0) ∧ ASome N opp c2v a c0 m)

theorem startLoop_ok {N : Nat} {opp : Array Nat} (hb : BaseTbl N opp) (nc : Nat) (c2v : Array Nat) (c0 : Nat)
    (hc0 : c0 < N) : ∀ (l : List AttConn) (tags : Nat) (out : Nat × Nat),
    forIn l ((tags, c0) : Nat × Nat) (apStart nc c2v opp c0) = .ok out →
    ∃ m, out.2 = iter (sRP opp) m c0 ∧ StartSpec N opp c2v c0 l m := by
  intro l
  induction l with
  | nil =>
    intro tags out h
    simp [pure, Except.pure] at h
    subst h
    exact ⟨0, rfl, Or.inl ⟨rfl, fun a ha => by simp at ha⟩⟩
  | cons a l ih =>
    intro tags out h
    rw [List.forIn_cons, bind_ok_iff] at h
    obtain ⟨r, h1, h2⟩ := h
    rcases apStart_ok hb nc c2v c0 hc0 a _ r h1 with ⟨hn, rfl⟩ | ⟨m, tags', hs, rfl⟩
    · obtain ⟨m, e, hsp⟩ := ih tags out h2
      refine ⟨m, e, ?_⟩
      rcases hsp with ⟨m0, hall⟩ | ⟨l1, a', l2, e1, e2, e3⟩
      · left
        refine ⟨m0, ?_⟩
        intro a' ha'
        rcases List.mem_cons.mp ha' with rfl | h'
        · exact hn
        · exact hall a' h'
      · right
        refine ⟨a :: l1, a', l2, by rw [e1]; rfl, ?_, e3⟩
        intro a'' ha''
        rcases List.mem_cons.mp ha'' with rfl | h'
        · exact hn
        · exact e2 a'' h'
    · simp only [pure, Except.pure] at h2
      cases h2
      exact ⟨m, rfl, Or.inr ⟨[], a, l, rfl, fun a' ha' => by simp at ha', hs⟩⟩

/-! ### one vertex -/

/-- **one vertex**: the body of the loop over the vertices only yields; for a vertex with a left-most corner `c0` it chose
    a start corner `m` steps to the right of `c0` (`m = 0` for a vertex marked as hole vertex) and walked from there -/
theorem apVertex_ok {N : Nat} (co : ConnOut) (hb : BaseTbl N co.opp) (atts : Array AttConn) (nc v : Nat) (s : VSt)
    (hsz : s.2.2.size = N) (hc0 : co.vc[v]! ≠ inv → co.vc[v]! < N) (r : ForInStep VSt)
    (hr : apVertex nc co atts v s = .ok r) :
    (co.vc[v]! = inv ∧ r = .yield (s.1, s.2.1, s.2.2)) ∨
    (co.vc[v]! ≠ inv ∧ ∃ m tags' p2c c2p c prev J, r = .yield (tags', p2c, c2p) ∧ J ≤ nc ∧
      WInv N co.opp atts (iter (sRP co.opp) m co.vc[v]!) s.2.2 s.2.1.size J p2c c2p c prev ∧
      (iter (sRP co.opp) (J + 1) (iter (sRP co.opp) m co.vc[v]!) = inv ∨
        iter (sRP co.opp) (J + 1) (iter (sRP co.opp) m co.vc[v]!) = iter (sRP co.opp) m co.vc[v]!) ∧
      ((co.hole[v]! = true ∧ m = 0) ∨
       (co.hole[v]! = false ∧ StartSpec N co.opp co.c2v co.vc[v]! atts.toList m))) := by
  unfold apVertex at hr
  by_cases h0 : (co.vc[v]! == inv) = true
  · rw [if_pos h0] at hr
    simp only [pure, Except.pure] at hr
    cases hr
    left
    exact ⟨by simpa using h0, rfl⟩
  · rw [if_neg h0, bind_ok_iff] at hr
    have hne : co.vc[v]! ≠ inv := by simpa using h0
    have hc0N := hc0 hne
    obtain ⟨h, hh, hr⟩ := hr
    obtain ⟨_, rfl⟩ := Seams.rdB_ok hh
    right
    refine ⟨hne, ?_⟩
    by_cases hole : co.hole[v]! = true
    · rw [if_pos hole] at hr
      obtain ⟨_, tags', p2c, c2p, c, prev, J, e, hJ, hI, hend⟩ := apWalk_ok hb atts nc _ s.2.1 s.2.2 hsz co.vc[v]! r hr
      exact ⟨0, tags', p2c, c2p, c, prev, J, e, hJ, hI, hend, Or.inl ⟨hole, rfl⟩⟩
    · rw [if_neg hole, bind_ok_iff] at hr
      obtain ⟨out, hl, hr⟩ := hr
      rw [← Array.forIn_toList] at hl
      obtain ⟨m, e, hsp⟩ := startLoop_ok hb nc co.c2v co.vc[v]! hc0N atts.toList s.1 out hl
      rw [e] at hr
      obtain ⟨_, tags', p2c, c2p, c, prev, J, e, hJ, hI, hend⟩ := apWalk_ok hb atts nc _ s.2.1 s.2.2 hsz _ r hr
      exact ⟨m, tags', p2c, c2p, c, prev, J, e, hJ, hI, hend, Or.inr ⟨by simpa using hole, hsp⟩⟩

/-! ### orbits -/

theorem iter_sR_lt {N : Nat} {opp : Array Nat} (hb : BaseTbl N opp) {a : Nat} (ha : a < N) :
    ∀ k, iter (sRP opp) k a ≠ inv → iter (sRP opp) k a < N := by
  intro k
  induction k with
  | zero => intro _; exact ha
  | succ k ih =>
    intro hne
    rw [iter_succ'] at hne ⊢
    have hk : iter (sRP opp) k a ≠ inv := by
      intro e; rw [e, sRP_inv] at hne; exact hne rfl
    rcases hb.sR_lt (ih hk) with e | e
    · exact absurd e hne
    · exact e

/-- `SwingRight` steps are injective on valid corners -/
theorem iter_sR_inj {N : Nat} {opp : Array Nat} (hb : BaseTbl N opp) : ∀ (m a b : Nat), a < N → b < N →
    iter (sRP opp) m a = iter (sRP opp) m b → iter (sRP opp) m a ≠ inv → a = b := by
  intro m
  induction m with
  | zero => intro a b _ _ h _; exact h
  | succ m ih =>
    intro a b ha hb' h hne
    have h' : iter (sRP opp) m (sRP opp a) = iter (sRP opp) m (sRP opp b) := h
    have hne' : iter (sRP opp) m (sRP opp a) ≠ inv := hne
    have hna : sRP opp a ≠ inv := by
      intro e; rw [e, iter_fix (sRP_inv opp)] at hne'; exact hne' rfl
    have hnb : sRP opp b ≠ inv := by
      intro e; rw [h', e, iter_fix (sRP_inv opp)] at hne'; exact hne' rfl
    have h1 := hb.sR_sL ha rfl hna
    have h2 := hb.sR_sL hb' rfl hnb
    have := ih _ _ h1.1 h2.1 h' hne'
    rw [← h1.2, ← h2.2, this]

/-- a closed fan that is periodic from a corner `m` steps to the right of `c0` is periodic from `c0` -/
theorem orbit_shift {N : Nat} {opp : Array Nat} (hb : BaseTbl N opp) {c0 m J : Nat} (hc0 : c0 < N)
    (hcl : ∀ k, iter (sRP opp) k c0 ≠ inv)
    (hJ : iter (sRP opp) (J + 1) (iter (sRP opp) m c0) = iter (sRP opp) m c0)
    (hnef : ∀ i, 1 ≤ i → i ≤ J → iter (sRP opp) i (iter (sRP opp) m c0) ≠ iter (sRP opp) m c0) :
    iter (sRP opp) (J + 1) c0 = c0 ∧ ∀ i, 1 ≤ i → i ≤ J → iter (sRP opp) i c0 ≠ c0 := by
  constructor
  · rw [← iter_add, Nat.add_comm, iter_add] at hJ
    exact iter_sR_inj hb m _ _ (iter_sR_lt hb hc0 _ (hcl _)) hc0 hJ (by rw [hJ]; exact hcl m)
  · intro i h1 h2 e
    apply hnef i h1 h2
    rw [← iter_add, Nat.add_comm, iter_add, e]

/-- the corners the walk from the start corner met are the corners of the fan of `c0` -/
theorem vis_iff_inFan_start {N : Nat} {opp : Array Nat} (hb : BaseTbl N opp) {c0 m J : Nat} (hc0 : c0 < N)
    (hv : ∀ i, i ≤ J → iter (sRP opp) i (iter (sRP opp) m c0) < N)
    (hnef : ∀ i, 1 ≤ i → i ≤ J → iter (sRP opp) i (iter (sRP opp) m c0) ≠ iter (sRP opp) m c0)
    (hend : iter (sRP opp) (J + 1) (iter (sRP opp) m c0) = inv ∨
      iter (sRP opp) (J + 1) (iter (sRP opp) m c0) = iter (sRP opp) m c0)
    (hcl : m ≠ 0 → ∀ k, iter (sRP opp) k c0 ≠ inv) (x : Nat) :
    Vis opp (iter (sRP opp) m c0) J x ↔ InFan opp c0 x := by
  by_cases h0 : m = 0
  · subst h0
    exact vis_iff_inFan hv hb.le hend c0 0 rfl (fun h => absurd rfl h) x
  · have hn := hcl h0
    have hJ : iter (sRP opp) (J + 1) (iter (sRP opp) m c0) = iter (sRP opp) m c0 := by
      rcases hend with e | e
      · rw [← iter_add] at e
        exact absurd e (hn _)
      · exact e
    obtain ⟨hP, _⟩ := orbit_shift hb hc0 hn hJ hnef
    have hle : m ≤ (J + 1) * m := Nat.le_mul_of_pos_left m (Nat.succ_pos J)
    have hm' : iter (sRP opp) ((J + 1) * m - m) (iter (sRP opp) m c0) = c0 := by
      rw [← iter_add, show m + ((J + 1) * m - m) = 0 + (J + 1) * m by omega, walk_period hP 0 m]
      rfl
    exact vis_iff_inFan hv hb.le hend c0 _ hm' (fun _ => hn) x

theorem inFan_ne_inv {opp : Array Nat} {c0 x : Nat} (h : InFan opp c0 x) : c0 ≠ inv := by
  intro e
  obtain ⟨hne, k, hk⟩ := h
  rw [e, iter_fix (sRP_inv opp)] at hk
  exact hne hk.symm

end AP

/-- **hypotheses on the decoded corner table** (`N = 3 n` corners): `Opposite` is an involution, the base vertex is
    constant along `SwingRight`, the left-most corner of a vertex is a corner of that vertex (`FanTbl`); every corner is
    reached from the left-most corner of its vertex by `SwingRight` steps; and a vertex that is not marked in
    `is_vert_hole_` has a closed fan (no `SwingRight` walk from its left-most corner reaches the boundary) -/
structure APHyp (n : Nat) (co : ConnOut) : Prop where
  tbl : FanTbl (3 * n) co.opp co.vc (fun c => co.c2v[c]!)
  cover : ∀ c, c < 3 * n → co.c2v[c]! < co.vc.size ∧ InFan co.opp co.vc[co.c2v[c]!]! c
  closed : ∀ v, v < co.vc.size → co.vc[v]! ≠ inv → co.hole[v]! = false → ∀ k, iter (sRP co.opp) k co.vc[v]! ≠ inv

namespace AP

/-- the invariant of the loop over the vertices, before the vertex `k` -/
structure G2 (n : Nat) (co : ConnOut) (atts : Array AttConn) (k : Nat) (s : VSt) : Prop where
  size : s.2.2.size = 3 * n
  lt : ∀ v, v < k → v < co.vc.size → co.vc[v]! ≠ inv → ∀ x, InFan co.opp co.vc[v]! x → s.2.2[x]! < s.2.1.size
  sep : ∀ v v', v < k → v' < k → v < co.vc.size → v' < co.vc.size → co.vc[v]! ≠ inv → co.vc[v']! ≠ inv →
    ∀ x y, InFan co.opp co.vc[v]! x → InFan co.opp co.vc[v']! y → s.2.2[x]! = s.2.2[y]! →
      v = v' ∧ ∀ a ∈ atts, a.c2v[x]! = a.c2v[y]!

theorem G2.step {n : Nat} {co : ConnOut} (hH : APHyp n co) (atts : Array AttConn) (j : Nat) (hj : j < co.vc.size)
    (s : VSt) (hG : G2 n co atts j s) (r : ForInStep VSt) (hr : apVertex (3 * n) co atts j s = .ok r) :
    ∃ s', r = .yield s' ∧ G2 n co atts (j + 1) s' := by
  have ht := hH.tbl
  have hb := ht.toBaseTbl
  rcases apVertex_ok co hb atts (3 * n) j s hG.size (fun h => (ht.vcOK j hj h).1) r hr with
    ⟨hinv, rfl⟩ | ⟨hne, m, tags', p2c, c2p, c, prev, J, rfl, hJ, hI, hend, hmode⟩
  · refine ⟨_, rfl, hG.size, ?_, ?_⟩
    · intro v hv hvs hvne
      have : v ≠ j := fun e => by subst e; exact hvne hinv
      exact hG.lt v (by omega) hvs hvne
    · intro v v' hv hv' hvs hvs' hvne hvne'
      have : v ≠ j := fun e => by subst e; exact hvne hinv
      have : v' ≠ j := fun e => by subst e; exact hvne' hinv
      exact hG.sep v v' (by omega) (by omega) hvs hvs' hvne hvne'
  · have hc0N := (ht.vcOK j hj hne).1
    have hcl : m ≠ 0 → ∀ k, iter (sRP co.opp) k co.vc[j]! ≠ inv := by
      intro hm
      rcases hmode with ⟨_, e⟩ | ⟨hf, _⟩
      · exact absurd e hm
      · exact hH.closed j hj hne hf
    have hiff := vis_iff_inFan_start hb hc0N hI.valid hI.nef hend hcl
    have hother : ∀ v, v < co.vc.size → co.vc[v]! ≠ inv → v ≠ j → ∀ x, InFan co.opp co.vc[v]! x →
        c2p[x]! = s.2.2[x]! := by
      intro v hv hvne hvj x hx
      apply hI.frame
      intro i hi e
      have hx' : InFan co.opp co.vc[j]! x := (hiff x).mp ⟨i, hi, e⟩
      have b1 : co.c2v[x]! = v := (ht.inFan_bv v hv hvne x hx).2
      have b2 : co.c2v[x]! = j := (ht.inFan_bv j hj hne x hx').2
      exact hvj (b1.symm.trans b2)
    have hmine : ∀ x, InFan co.opp co.vc[j]! x → ∃ i, i ≤ J ∧ x = iter (sRP co.opp) i (iter (sRP co.opp) m co.vc[j]!) ∧
        c2p[x]! = s.2.1.size + wcnt atts (fun i => iter (sRP co.opp) i (iter (sRP co.opp) m co.vc[j]!)) i := by
      intro x hx
      obtain ⟨i, hi, e⟩ := (hiff x).mpr hx
      exact ⟨i, hi, e, by rw [e]; exact hI.vals i hi⟩
    have hpsz := hI.psz
    have hmono : ∀ i, i ≤ J → wcnt atts (fun i => iter (sRP co.opp) i (iter (sRP co.opp) m co.vc[j]!)) i ≤
        wcnt atts (fun i => iter (sRP co.opp) i (iter (sRP co.opp) m co.vc[j]!)) J := by
      intro i hi
      have := wcnt_mono atts (fun i => iter (sRP co.opp) i (iter (sRP co.opp) m co.vc[j]!)) i (J - i)
      rw [show i + (J - i) = J by omega] at this
      exact this
    refine ⟨_, rfl, hI.size, ?_, ?_⟩
    · intro v hv hvs hvne x hx
      show c2p[x]! < p2c.size
      by_cases e : v = j
      · rw [e] at hx
        obtain ⟨i, hi, _, e⟩ := hmine x hx
        have := hmono i hi
        rw [e, hpsz]; omega
      · rw [hother v hvs hvne e x hx]
        have := hG.lt v (by omega) hvs hvne x hx
        omega
    · intro v v' hv hv' hvs hvs' hvne hvne' x y hx hy heq
      have heq' : c2p[x]! = c2p[y]! := heq
      by_cases e1 : v = j
      · rw [e1] at hx
        by_cases e2 : v' = j
        · rw [e2] at hy
          refine ⟨e1.trans e2.symm, ?_⟩
          obtain ⟨i, hi, ex, vx⟩ := hmine x hx
          obtain ⟨i', hi', ey, vy⟩ := hmine y hy
          rw [vx, vy] at heq'
          have hw : wcnt atts (fun i => iter (sRP co.opp) i (iter (sRP co.opp) m co.vc[j]!)) i =
              wcnt atts (fun i => iter (sRP co.opp) i (iter (sRP co.opp) m co.vc[j]!)) i' := by omega
          rw [ex, ey]
          intro a ha
          rcases Nat.le_total i i' with h | h
          · have := wcnt_eq atts (fun i => iter (sRP co.opp) i (iter (sRP co.opp) m co.vc[j]!)) i (i' - i)
              (by rw [show i + (i' - i) = i' by omega]; exact hw) a ha
            rw [show i + (i' - i) = i' by omega] at this
            exact this
          · have := wcnt_eq atts (fun i => iter (sRP co.opp) i (iter (sRP co.opp) m co.vc[j]!)) i' (i - i')
              (by rw [show i' + (i - i') = i by omega]; exact hw.symm) a ha
            rw [show i' + (i - i') = i by omega] at this
            exact this.symm
        · exfalso
          obtain ⟨i, hi, _, vx⟩ := hmine x hx
          rw [vx, hother v' hvs' hvne' e2 y hy] at heq'
          have := hG.lt v' (by omega) hvs' hvne' y hy
          omega
      · by_cases e2 : v' = j
        · exfalso
          rw [e2] at hy
          obtain ⟨i, hi, _, vy⟩ := hmine y hy
          rw [vy, hother v hvs hvne e1 x hx] at heq'
          have := hG.lt v (by omega) hvs hvne x hx
          omega
        · rw [hother v hvs hvne e1 x hx, hother v' hvs' hvne' e2 y hy] at heq'
          exact hG.sep v v' (by omega) (by omega) hvs hvs' hvne hvne' x y hx hy heq'

end AP

/-- the trivial case: without attribute connectivity the vertex ids are the point ids -/
theorem assignPoints_empty (co : ConnOut) (n : Nat) (atts : Array AttConn) (h : atts.isEmpty = true) :
    assignPoints co n atts = .ok (co.c2v, co.numConnVerts, 0) := by
  rw [assignPoints_eq, if_pos h]
  rfl

/-- **Stage 2, consistency** of a successful run of `AssignPointsToCorners` on a table with fans: the corner to point map
    has an entry for every corner, every entry is a point (2a), and POINTS REFINE VERTICES (2b): two corners with the
    same point have the same base vertex and the same vertex in every attribute corner table -/
theorem assignPoints_consistent (co : ConnOut) (n : Nat) (atts : Array AttConn) (c2p : Array Nat) (np tags : Nat)
    (hH : APHyp n co) (hne : atts.isEmpty = false) (hrun : assignPoints co n atts = .ok (c2p, np, tags)) :
    c2p.size = 3 * n ∧ (∀ c, c < 3 * n → c2p[c]! < np) ∧
    (∀ c c', c < 3 * n → c' < 3 * n → c2p[c]! = c2p[c']! →
      co.c2v[c]! = co.c2v[c']! ∧ ∀ a ∈ atts, a.c2v[c]! = a.c2v[c']!) := by
  rw [assignPoints_eq, if_neg (by simp [hne]), bind_ok_iff] at hrun
  obtain ⟨s, hl, hrun⟩ := hrun
  simp only [pure, Except.pure] at hrun
  cases hrun
  rw [Seams.range_forIn] at hl
  have key := Seams.loop_inv_ok (apVertex (3 * n) co atts) (fun k s => G2 n co atts k s) co.vc.size 0
    (by
      intro j s r _ hj hG hr
      exact G2.step hH atts j (by omega) s hG r hr)
    _ s ⟨by simp, fun v hv => by omega, fun v v' hv => by omega⟩ hl
  refine ⟨key.size, ?_, ?_⟩
  · intro c hc
    obtain ⟨hv, hf⟩ := hH.cover c hc
    exact key.lt _ (by omega) hv (inFan_ne_inv hf) c hf
  · intro c c' hc hc' heq
    obtain ⟨hv, hf⟩ := hH.cover c hc
    obtain ⟨hv', hf'⟩ := hH.cover c' hc'
    exact key.sep _ _ (by omega) (by omega) hv hv' (inFan_ne_inv hf) (inFan_ne_inv hf') c c' hf hf' heq

/-! ## Stage 3: the number of points -/

/-- the corners of the fan that starts at `c0` in `SwingRight` order, from the corner `c` on: until the boundary or `c0`
    is reached (at most `fuel` corners) -/
def orbitAux (opp : Array Nat) (c0 : Nat) : Nat → Nat → List Nat
  | 0, _ => []
  | fuel + 1, c => if c = inv then [] else c :: (if sRP opp c = c0 then [] else orbitAux opp c0 fuel (sRP opp c))

/-- the corners of the fan of the left-most corner `c0` in `SwingRight` order -/
def fanCorners (opp : Array Nat) (c0 : Nat) : List Nat := orbitAux opp c0 (opp.size + 1) c0

/-- what `AssignPointsToCorners` looks at at the corner `c` -/
def fanCornerD (atts : Array AttConn) (c : Nat) : Counts.FanCorner := ⟨0, atts.toList.map fun a => a.c2v[c]!⟩

/-- **the fan of the vertex `v` in the decoder's tables**: the `SwingRight` orbit of `LeftMostCorner(v)`, closed iff `v` is
    not marked in `is_vert_hole_`, with the `IsCornerOnSeam(LeftMostCorner(v))` flags of the attributes -/
def fanOfD (co : ConnOut) (atts : Array AttConn) (v : Nat) : Counts.Fan :=
  { corners := (fanCorners co.opp co.vc[v]!).map (fanCornerD atts)
    closed := !co.hole[v]!
    onSeam := atts.toList.map fun a => a.vertSeam[co.c2v[co.vc[v]!]!]! }

namespace AP

/-! ### the corner list of a fan -/

theorem orbitAux_inv (opp : Array Nat) (c0 fuel : Nat) : orbitAux opp c0 fuel inv = [] := by
  cases fuel <;> simp [orbitAux]

/-- the `SwingRight` orbit of `c0` has `P` corners: then the boundary or `c0` is reached -/
structure Orbit (opp : Array Nat) (c0 P : Nat) : Prop where
  pos : 1 ≤ P
  ne : ∀ i, i < P → iter (sRP opp) i c0 ≠ inv
  nef : ∀ i, 1 ≤ i → i < P → iter (sRP opp) i c0 ≠ c0
  fin : iter (sRP opp) P c0 = inv ∨ iter (sRP opp) P c0 = c0

theorem orbitAux_eq {opp : Array Nat} {c0 P : Nat} (hO : Orbit opp c0 P) : ∀ (d fuel s : Nat), s + d = P → 1 ≤ d →
    d ≤ fuel → orbitAux opp c0 fuel (iter (sRP opp) s c0) = (List.range' s d).map (fun i => iter (sRP opp) i c0) := by
  intro d
  induction d with
  | zero => intro fuel s _ h; omega
  | succ d ih =>
    intro fuel s hs _ hf
    obtain ⟨fuel', rfl⟩ : ∃ f', fuel = f' + 1 := ⟨fuel - 1, by omega⟩
    have hc0 : c0 ≠ inv := hO.ne 0 (by have := hO.pos; omega)
    rw [List.range'_succ, List.map_cons]
    show (if iter (sRP opp) s c0 = inv then [] else iter (sRP opp) s c0 ::
      (if sRP opp (iter (sRP opp) s c0) = c0 then [] else orbitAux opp c0 fuel' (sRP opp (iter (sRP opp) s c0)))) = _
    rw [if_neg (hO.ne s (by omega)), ← iter_succ' (sRP opp) s c0]
    congr 1
    by_cases hd : d = 0
    · subst hd
      have hsP : s + 1 = P := by omega
      rw [hsP]
      rcases hO.fin with e | e
      · rw [e, if_neg (Ne.symm hc0), orbitAux_inv]; rfl
      · rw [if_pos e]; rfl
    · rw [if_neg (hO.nef (s + 1) (by omega) (by omega))]
      exact ih fuel' (s + 1) (by omega) (by omega) (by omega)

theorem fanCorners_eq {opp : Array Nat} {c0 P : Nat} (hO : Orbit opp c0 P) (hP : P ≤ opp.size + 1) :
    fanCorners opp c0 = (List.range' 0 P).map (fun i => iter (sRP opp) i c0) :=
  orbitAux_eq hO P (opp.size + 1) 0 (by omega) hO.pos hP

theorem fanCorners_inv (opp : Array Nat) : fanCorners opp inv = [] := by
  unfold fanCorners
  simp [orbitAux]

/-! ### the walk -/

theorem avDiff_map (f g : AttConn → Nat) : ∀ l : List AttConn,
    Counts.avDiff (l.map f) (l.map g) = l.any (fun a => f a != g a) := by
  intro l
  induction l with
  | nil => rfl
  | cons a l ih =>
    show (f a != g a || Counts.avDiff (l.map f) (l.map g)) = _
    rw [ih, List.any_cons]

theorem avDiff_fan (atts : Array AttConn) (c prev : Nat) :
    Counts.avDiff (fanCornerD atts c).av (fanCornerD atts prev).av = seamB atts c prev :=
  avDiff_map _ _ _

/-- `decWalk` over the corners `s + 1 … s + d` of a walk counts the new points -/
theorem decWalk_range (atts : Array AttConn) (X : Nat → Nat) : ∀ (d s : Nat),
    Counts.decWalk (fanCornerD atts (X s)) ((List.range' (s + 1) d).map (fun i => fanCornerD atts (X i))) +
      wcnt atts X s = wcnt atts X (s + d) := by
  intro d
  induction d with
  | zero => intro s; simp [Counts.decWalk]
  | succ d ih =>
    intro s
    rw [List.range'_succ, List.map_cons]
    show (if Counts.avDiff (fanCornerD atts (X (s + 1))).av (fanCornerD atts (X s)).av = true then 1 else 0) +
      Counts.decWalk (fanCornerD atts (X (s + 1))) _ + _ = _
    rw [avDiff_fan]
    have h1 := ih (s + 1)
    have h2 : wcnt atts X (s + 1) = wcnt atts X s + (if seamB atts (X (s + 1)) (X s) = true then 1 else 0) := rfl
    rw [show s + (d + 1) = s + 1 + d by omega]
    omega

/-! ### the start corner -/

theorem so_none (i vid : Nat) (g : Nat → Counts.FanCorner) : ∀ (d s : Nat),
    (∀ k, s ≤ k → k < s + d → (g k).av.getD i 0 = vid) →
    Counts.seamOffset i vid ((List.range' s d).map g) = none := by
  intro d
  induction d with
  | zero => intro s _; rfl
  | succ d ih =>
    intro s h
    rw [List.range'_succ, List.map_cons]
    simp only [Counts.seamOffset]
    rw [if_neg (by rw [h s (Nat.le_refl _) (by omega)]; simp), ih (s + 1) (fun k h1 h2 => h k (by omega) (by omega))]

theorem so_some (i vid : Nat) (g : Nat → Counts.FanCorner) : ∀ (d s n : Nat), n < d →
    (∀ k, s ≤ k → k < s + n → (g k).av.getD i 0 = vid) → (g (s + n)).av.getD i 0 ≠ vid →
    Counts.seamOffset i vid ((List.range' s d).map g) = some n := by
  intro d
  induction d with
  | zero => intro s n h; omega
  | succ d ih =>
    intro s n hn h hne
    rw [List.range'_succ, List.map_cons]
    simp only [Counts.seamOffset]
    cases n with
    | zero => rw [if_pos (by simpa using hne)]
    | succ n =>
      rw [if_neg (by rw [h s (Nat.le_refl _) (by omega)]; simp),
        ih (s + 1) n (by omega) (fun k h1 h2 => h k (by omega) (by omega))
          (by rw [show s + 1 + n = s + (n + 1) by omega]; exact hne)]

theorem getD_fan (atts : Array AttConn) (i : Nat) (a : AttConn) (l : List AttConn) (h : atts.toList.drop i = a :: l)
    (c : Nat) : (fanCornerD atts c).av.getD i 0 = a.c2v[c]! := by
  have h1 : atts.toList[i]? = some a := by
    have := List.getElem?_drop (xs := atts.toList) (i := i) (j := 0)
    rw [h] at this
    simpa using this.symm
  show (atts.toList.map _).getD i 0 = _
  rw [List.getD_eq_getElem?_getD, List.getElem?_map, h1]
  rfl

section dedup
variable {N : Nat} {opp c2v : Array Nat} {atts : Array AttConn} {c0 J : Nat}
  (hP : iter (sRP opp) (J + 1) c0 = c0) (hnef : ∀ i, 1 ≤ i → i ≤ J → iter (sRP opp) i c0 ≠ c0)
include hP hnef

theorem none_all (a : AttConn) (hn : ANone N opp c2v a c0) (hf : a.vertSeam[c2v[c0]!]! = true) :
    ∀ k, 1 ≤ k → k < 1 + J → a.c2v[iter (sRP opp) k c0]! = a.c2v[c0]! := by
  rcases hn with e | ⟨_, j, hj, hpre⟩
  · rw [e] at hf; cases hf
  · have hjJ : j = J := by
      by_cases h1 : j + 1 ≤ J
      · exact absurd hj (hnef (j + 1) (by omega) h1)
      · by_cases h2 : J + 1 ≤ j
        · exact absurd hP (hpre (J + 1) (by omega) h2).2.1
        · omega
    subst hjJ
    intro k h1 h2
    exact (hpre k h1 (by omega)).2.2

theorem dedup_skip (i : Nat) (a : AttConn) (l : List AttConn) (hdrop : atts.toList.drop i = a :: l)
    (hn : ANone N opp c2v a c0) (fl : List Bool) :
    Counts.dedupStart (fanCornerD atts c0) ((List.range' 1 J).map (fun i => fanCornerD atts (iter (sRP opp) i c0))) i
      (a.vertSeam[c2v[c0]!]! :: fl) =
    Counts.dedupStart (fanCornerD atts c0) ((List.range' 1 J).map (fun i => fanCornerD atts (iter (sRP opp) i c0)))
      (i + 1) fl := by
  rw [Counts.dedupStart]
  by_cases hf : a.vertSeam[c2v[c0]!]! = true
  · rw [hf]
    simp only [Bool.not_true, Bool.false_eq_true, if_false]
    rw [so_none i _ (fun i => fanCornerD atts (iter (sRP opp) i c0)) J 1
      (fun k h1 h2 => by
        rw [getD_fan atts i a l hdrop, getD_fan atts i a l hdrop]
        exact none_all hP hnef a hn hf k h1 h2)]
  · have : a.vertSeam[c2v[c0]!]! = false := by simpa using hf
    rw [this]
    simp

/-- the start corner the decoder chose is the one `dedupStart` computes -/
theorem dedup_spec (m : Nat) : ∀ (l : List AttConn) (i : Nat), atts.toList.drop i = l →
    StartSpec N opp c2v c0 l m →
    Counts.dedupStart (fanCornerD atts c0) ((List.range' 1 J).map (fun i => fanCornerD atts (iter (sRP opp) i c0))) i
      (l.map fun a => a.vertSeam[c2v[c0]!]!) = m ∧ m ≤ J := by
  intro l
  induction l with
  | nil =>
    intro i _ hs
    rcases hs with ⟨m0, _⟩ | ⟨l1, a, l2, e, _⟩
    · subst m0; exact ⟨rfl, Nat.zero_le _⟩
    · exact absurd e (by simp)
  | cons a l ih =>
    intro i hdrop hs
    have hdrop' : atts.toList.drop (i + 1) = l := by
      rw [← List.tail_drop, hdrop]; rfl
    rw [List.map_cons]
    rcases hs with ⟨m0, hall⟩ | ⟨l1, a', l2, e, hl1, hsome⟩
    · rw [dedup_skip hP hnef i a l hdrop (hall a (by simp))]
      exact ih (i + 1) hdrop' (Or.inl ⟨m0, fun a' ha' => hall a' (by simp [ha'])⟩)
    · cases l1 with
      | nil =>
        simp only [List.nil_append, List.cons.injEq] at e
        obtain ⟨rfl, rfl⟩ := e
        obtain ⟨hf, j, rfl, h1, h2, h3, hpre⟩ := hsome
        have hmJ : j + 1 ≤ J := by
          by_cases h4 : J + 1 ≤ j
          · exact absurd hP (hpre (J + 1) (by omega) h4).2.1
          · by_cases h5 : j = J
            · subst h5; exact absurd hP h2
            · omega
        refine ⟨?_, hmJ⟩
        rw [Counts.dedupStart, hf]
        simp only [Bool.not_true, Bool.false_eq_true, if_false]
        rw [so_some i _ (fun i => fanCornerD atts (iter (sRP opp) i c0)) J 1 j (by omega)
          (fun k h1 h2 => by
            rw [getD_fan atts i a l hdrop, getD_fan atts i a l hdrop]
            exact (hpre k h1 (by omega)).2.2)
          (by
            rw [getD_fan atts i a l hdrop, getD_fan atts i a l hdrop, show 1 + j = j + 1 by omega]
            exact h3)]
      | cons b l1 =>
        simp only [List.cons_append, List.cons.injEq] at e
        obtain ⟨rfl, rfl⟩ := e
        rw [dedup_skip hP hnef i a _ hdrop (hl1 a (by simp))]
        exact ih (i + 1) hdrop' (Or.inr ⟨l1, a', l2, rfl, fun a'' ha'' => hl1 a'' (by simp [ha'']), hsome⟩)

end dedup

/-! ### the fan of one vertex -/

theorem map_range'_shift {β : Type} (g : Nat → β) (t : Nat) : ∀ (d s : Nat),
    (List.range' (s + t) d).map g = (List.range' s d).map (fun i => g (i + t)) := by
  intro d
  induction d with
  | zero => intro s; rfl
  | succ d ih =>
    intro s
    rw [List.range'_succ, List.range'_succ, List.map_cons, List.map_cons, show s + t + 1 = s + 1 + t by omega, ih]

/-- the corner list of a closed fan, rotated to the corner `m`, is the corner list of the walk from that corner -/
theorem fan_rotate {β : Type} (opp : Array Nat) (F : Nat → β) {c0 m J : Nat} (hP : iter (sRP opp) (J + 1) c0 = c0)
    (hm : m ≤ J) :
    ((List.range' 0 (J + 1)).map (fun i => F (iter (sRP opp) i c0))).drop m ++
      ((List.range' 0 (J + 1)).map (fun i => F (iter (sRP opp) i c0))).take m =
    (List.range' 0 (J + 1)).map (fun i => F (iter (sRP opp) i (iter (sRP opp) m c0))) := by
  have e1 : List.range' 0 (J + 1) = List.range' 0 m ++ List.range' m (J + 1 - m) := by
    have := List.range'_append_1 (s := 0) (m := m) (n := J + 1 - m)
    rw [Nat.zero_add, show m + (J + 1 - m) = J + 1 by omega] at this
    exact this.symm
  have e2 : List.range' 0 (J + 1) = List.range' 0 (J + 1 - m) ++ List.range' (J + 1 - m) m := by
    have := List.range'_append_1 (s := 0) (m := J + 1 - m) (n := m)
    rw [Nat.zero_add, show J + 1 - m + m = J + 1 by omega] at this
    exact this.symm
  have hA : ((List.range' 0 m).map (fun i => F (iter (sRP opp) i c0))).length = m := by simp
  conv => lhs; rw [e1, List.map_append, List.drop_left' hA, List.take_left' hA]
  conv => rhs; rw [e2, List.map_append]
  congr 1
  · have := map_range'_shift (fun i => F (iter (sRP opp) i c0)) m (J + 1 - m) 0
    rw [Nat.zero_add] at this
    rw [this]
    apply List.map_congr_left
    intro i _
    show F (iter (sRP opp) (i + m) c0) = _
    rw [Nat.add_comm, iter_add]
  · have := map_range'_shift (fun i => F (iter (sRP opp) i (iter (sRP opp) m c0))) (J + 1 - m) m 0
    rw [Nat.zero_add] at this
    rw [this]
    apply List.map_congr_left
    intro i hi
    rw [List.mem_range'_1] at hi
    show _ = F (iter (sRP opp) (i + (J + 1 - m)) (iter (sRP opp) m c0))
    rw [← iter_add, show m + (i + (J + 1 - m)) = i + (J + 1) * 1 by omega, walk_period hP i 1]

theorem fan_corners {co : ConnOut} (atts : Array AttConn) (v : Nat) {J : Nat} (hO : Orbit co.opp co.vc[v]! (J + 1))
    (hJ : J + 1 ≤ co.opp.size + 1) :
    (fanOfD co atts v).corners =
      (List.range' 0 (J + 1)).map (fun i => fanCornerD atts (iter (sRP co.opp) i co.vc[v]!)) := by
  show (fanCorners co.opp co.vc[v]!).map (fanCornerD atts) = _
  rw [fanCorners_eq hO hJ, List.map_map]
  rfl

theorem iter0 {α : Type} (f : α → α) (a : α) : iter f 0 a = a := rfl

/-- the points `decPoints` counts on the walk from the corner `f` -/
theorem decWalk_walk (atts : Array AttConn) (opp : Array Nat) (f J : Nat) :
    Counts.decWalk (fanCornerD atts f) ((List.range' 1 J).map (fun i => fanCornerD atts (iter (sRP opp) i f))) =
      wcnt atts (fun i => iter (sRP opp) i f) J := by
  have := decWalk_range atts (fun i => iter (sRP opp) i f) J 0
  have h0 : wcnt atts (fun i => iter (sRP opp) i f) 0 = 0 := rfl
  simp only [Nat.zero_add] at this
  rw [h0, Nat.add_zero] at this
  exact this

/-- **one vertex**: `decPoints` of the fan of `v` is the number of points the decoder created for `v` -/
theorem vertex_count {n : Nat} {co : ConnOut} (hH : APHyp n co) (atts : Array AttConn) (v : Nat) (hv : v < co.vc.size)
    (hne : co.vc[v]! ≠ inv) {m J : Nat} (hJ : J ≤ 3 * n)
    (hval : ∀ i, i ≤ J → iter (sRP co.opp) i (iter (sRP co.opp) m co.vc[v]!) < 3 * n)
    (hnef : ∀ i, 1 ≤ i → i ≤ J → iter (sRP co.opp) i (iter (sRP co.opp) m co.vc[v]!) ≠ iter (sRP co.opp) m co.vc[v]!)
    (hend : iter (sRP co.opp) (J + 1) (iter (sRP co.opp) m co.vc[v]!) = inv ∨
        iter (sRP co.opp) (J + 1) (iter (sRP co.opp) m co.vc[v]!) = iter (sRP co.opp) m co.vc[v]!)
    (hmode : (co.hole[v]! = true ∧ m = 0) ∨
       (co.hole[v]! = false ∧ StartSpec (3 * n) co.opp co.c2v co.vc[v]! atts.toList m)) :
    Counts.decPoints (fanOfD co atts v) =
      1 + wcnt atts (fun i => iter (sRP co.opp) i (iter (sRP co.opp) m co.vc[v]!)) J := by
  have ht := hH.tbl
  have hb := ht.toBaseTbl
  have hc0N := (ht.vcOK v hv hne).1
  have hJ' : J + 1 ≤ co.opp.size + 1 := by rw [hb.oppsz]; omega
  rcases hmode with ⟨hole, rfl⟩ | ⟨hole, hsp⟩
  · have hO : Orbit co.opp co.vc[v]! (J + 1) :=
      ⟨by omega, fun i hi => hb.ne_inv (hval i (by omega)), fun i h1 h2 => hnef i h1 (by omega), hend⟩
    have hc := fan_corners atts v hO hJ'
    rw [List.range'_succ, List.map_cons] at hc
    have hcl : (fanOfD co atts v).closed = false := by
      show (!co.hole[v]!) = false
      rw [hole]; rfl
    simp only [iter0, Nat.zero_add] at hc
    unfold Counts.decPoints
    rw [hc, hcl]
    simp only [Bool.false_eq_true, if_false, iter0]
    rw [decWalk_walk]
  · have hcl := hH.closed v hv hne hole
    have hJ1 : iter (sRP co.opp) (J + 1) (iter (sRP co.opp) m co.vc[v]!) = iter (sRP co.opp) m co.vc[v]! := by
      rcases hend with e | e
      · rw [← iter_add] at e
        exact absurd e (hcl _)
      · exact e
    obtain ⟨hP, hnef0⟩ := orbit_shift hb hc0N hcl hJ1 hnef
    have hO : Orbit co.opp co.vc[v]! (J + 1) :=
      ⟨by omega, fun i _ => hcl i, fun i h1 h2 => hnef0 i h1 (by omega), Or.inr hP⟩
    obtain ⟨hd, hmJ⟩ := dedup_spec hP hnef0 m atts.toList 0 List.drop_zero hsp
    have hc := fan_corners atts v hO hJ'
    have hrot := fan_rotate co.opp (fanCornerD atts) hP hmJ
    rw [← hc] at hrot
    rw [List.range'_succ, List.map_cons] at hc
    simp only [iter0, Nat.zero_add] at hc
    have hclo : (fanOfD co atts v).closed = true := by
      show (!co.hole[v]!) = true
      rw [hole]; rfl
    have hon : (fanOfD co atts v).onSeam = atts.toList.map fun a => a.vertSeam[co.c2v[co.vc[v]!]!]! := rfl
    unfold Counts.decPoints
    rw [hc, hclo, hon]
    simp only [if_true]
    rw [hd, ← hc, hrot, List.range'_succ, List.map_cons]
    simp only [iter0, Nat.zero_add]
    rw [decWalk_walk]

/-- the invariant of the loop over the vertices for the number of points, before the vertex `k` -/
def G3 (n : Nat) (co : ConnOut) (atts : Array AttConn) (k : Nat) (s : VSt) : Prop :=
  s.2.2.size = 3 * n ∧
  s.2.1.size = (((List.range k).filter (fun v => co.vc[v]! != inv)).map
    (fun v => Counts.decPoints (fanOfD co atts v))).sum

theorem G3.step {n : Nat} {co : ConnOut} (hH : APHyp n co) (atts : Array AttConn) (j : Nat) (hj : j < co.vc.size)
    (s : VSt) (hG : G3 n co atts j s) (r : ForInStep VSt) (hr : apVertex (3 * n) co atts j s = .ok r) :
    ∃ s', r = .yield s' ∧ G3 n co atts (j + 1) s' := by
  have ht := hH.tbl
  have hb := ht.toBaseTbl
  rcases apVertex_ok co hb atts (3 * n) j s hG.1 (fun h => (ht.vcOK j hj h).1) r hr with
    ⟨hinv, rfl⟩ | ⟨hne, m, tags', p2c, c2p, c, prev, J, rfl, hJ, hI, hend, hmode⟩
  · refine ⟨_, rfl, hG.1, ?_⟩
    show s.2.1.size = _
    rw [Seams.range_filter_succ, if_neg (by simp [hinv]), List.append_nil]
    exact hG.2
  · refine ⟨_, rfl, hI.size, ?_⟩
    show p2c.size = _
    rw [Seams.range_filter_succ, if_pos (by simpa using hne), List.map_append, List.sum_append, ← hG.2, hI.psz,
      List.map_cons, List.map_nil, List.sum_cons, List.sum_nil, Nat.add_zero,
      vertex_count hH atts j hj hne hJ hI.valid hI.nef hend hmode]
    omega

end AP

/-- **Stage 3, the number of points** a successful run of `AssignPointsToCorners` creates on a table with fans is the sum
    of `Counts.decPoints` over the fans `fanOfD` of the vertices that have a left-most corner -/
theorem assignPoints_count (co : ConnOut) (n : Nat) (atts : Array AttConn) (c2p : Array Nat) (np tags : Nat)
    (hH : APHyp n co) (hne : atts.isEmpty = false) (hrun : assignPoints co n atts = .ok (c2p, np, tags)) :
    np = (((List.range co.vc.size).filter (fun v => co.vc[v]! != inv)).map
      (fun v => Counts.decPoints (fanOfD co atts v))).sum := by
  rw [assignPoints_eq, if_neg (by simp [hne]), bind_ok_iff] at hrun
  obtain ⟨s, hl, hrun⟩ := hrun
  simp only [pure, Except.pure] at hrun
  cases hrun
  rw [Seams.range_forIn] at hl
  have key := Seams.loop_inv_ok (apVertex (3 * n) co atts) (fun k s => G3 n co atts k s) co.vc.size 0
    (by
      intro j s r _ hj hG hr
      exact G3.step hH atts j (by omega) s hG r hr)
    _ s ⟨by simp, by simp⟩ hl
  rw [Nat.zero_add] at key
  exact key.2

/-- the fans `fanOfD` satisfy the shape hypotheses of `C09.eb_point_count_fan` / `eb_point_count_mesh`: a vertex with a
    left-most corner has a non-empty fan, and every corner carries one attribute vertex per seam flag -/
theorem fanOfD_shape (co : ConnOut) (atts : Array AttConn) (v : Nat) (hne : co.vc[v]! ≠ inv) :
    (fanOfD co atts v).corners ≠ [] ∧
    ∀ c ∈ (fanOfD co atts v).corners, c.av.length = (fanOfD co atts v).onSeam.length := by
  constructor
  · show (fanCorners co.opp co.vc[v]!).map (fanCornerD atts) ≠ []
    unfold fanCorners
    rw [orbitAux, if_neg hne]
    simp
  · intro c hc
    have hc' : c ∈ (fanCorners co.opp co.vc[v]!).map (fanCornerD atts) := hc
    rw [List.mem_map] at hc'
    obtain ⟨x, _, rfl⟩ := hc'
    show (atts.toList.map _).length = (atts.toList.map _).length
    rw [List.length_map, List.length_map]

/-- a vertex without a left-most corner contributes nothing -/
theorem fanOfD_isolated (co : ConnOut) (atts : Array AttConn) (v : Nat) (h : co.vc[v]! = inv) :
    Counts.decPoints (fanOfD co atts v) = 0 := by
  have : (fanOfD co atts v).corners = [] := by
    show (fanCorners co.opp co.vc[v]!).map (fanCornerD atts) = []
    rw [h, AP.fanCorners_inv]; rfl
  unfold Counts.decPoints
  rw [this]

/-! ## non-vacuity of the hypotheses -/

namespace AP

/-- a fan that returns to `c0` after `J + 1` valid corners is closed -/
theorem closed_of_period {opp : Array Nat} {c0 J : Nat} (hP : iter (sRP opp) (J + 1) c0 = c0)
    (hne : ∀ i, i ≤ J → iter (sRP opp) i c0 ≠ inv) : ∀ k, iter (sRP opp) k c0 ≠ inv := by
  intro k
  have := walk_period hP (k % (J + 1)) (k / (J + 1))
  rw [Nat.mod_add_div] at this
  rw [this]
  exact hne _ (by have := Nat.mod_lt k (show 0 < J + 1 by omega); omega)

/-- the corner table of a tetrahedron (faces (0,1,2), (0,3,1), (1,3,2), (2,3,0)) -/
def tetra : ConnOut :=
  { c2v := #[0, 1, 2, 0, 3, 1, 1, 3, 2, 2, 3, 0]
    opp := #[7, 10, 4, 8, 2, 9, 11, 0, 3, 5, 1, 6]
    vc := #[0, 1, 2, 4]
    hole := #[false, false, false, false]
    numConnVerts := 4
    tags := 0 }

/-- `APHyp` holds of the tetrahedron (four closed fans) -/
theorem tetra_hyp : APHyp 4 tetra := by
  refine ⟨⟨⟨by decide, by decide, by decide, by decide⟩, by decide, ?_⟩, ?_, ?_⟩
  · intro v hv
    have hv' : v < 4 := hv
    obtain rfl | rfl | rfl | rfl : v = 0 ∨ v = 1 ∨ v = 2 ∨ v = 3 := by omega
    all_goals decide
  · intro c hc
    have hc' : c < 12 := hc
    obtain rfl | rfl | rfl | rfl | rfl | rfl | rfl | rfl | rfl | rfl | rfl | rfl :
      c = 0 ∨ c = 1 ∨ c = 2 ∨ c = 3 ∨ c = 4 ∨ c = 5 ∨ c = 6 ∨ c = 7 ∨ c = 8 ∨ c = 9 ∨ c = 10 ∨ c = 11 := by omega
    · exact ⟨by decide, by decide, 0, by decide⟩
    · exact ⟨by decide, by decide, 0, by decide⟩
    · exact ⟨by decide, by decide, 0, by decide⟩
    · exact ⟨by decide, by decide, 1, by decide⟩
    · exact ⟨by decide, by decide, 0, by decide⟩
    · exact ⟨by decide, by decide, 2, by decide⟩
    · exact ⟨by decide, by decide, 1, by decide⟩
    · exact ⟨by decide, by decide, 1, by decide⟩
    · exact ⟨by decide, by decide, 2, by decide⟩
    · exact ⟨by decide, by decide, 1, by decide⟩
    · exact ⟨by decide, by decide, 2, by decide⟩
    · exact ⟨by decide, by decide, 2, by decide⟩
  · intro v hv hne _
    have hv' : v < 4 := hv
    obtain rfl | rfl | rfl | rfl : v = 0 ∨ v = 1 ∨ v = 2 ∨ v = 3 := by omega
    all_goals exact closed_of_period (J := 2) (by decide) (by decide)

end AP

end Draco.EbEnc
