import DracoProofs.EbConnGlueAtt
/-
  Closes the gap of DracoProofs/EbConnGlueAtt.lean (the tag mask of `decodeSeams`) and composes (A2) + (A3) + (A4).

  (1) `decodeSeams_spec_t`: `Seams.decodeSeams_spec` with the TAG MASK: on decoders delivering the bits `bit i d`, the
      result is `(seams, tagsFrom dopp m bit 0 (3 n))` — the mask is a pure fold over the corners (`cornerTagFrom`,
      `attTagsFrom`), a function of `dopp` and the bits only (tag-tracking versions `dAtt_loop_tags`, `dCorner_step_t`,
      `dFace_step_t` of the step lemmas of EbSeams.lean).  `decodeSeams_deterministic`: two decoder arrays delivering the
      same bits give the same `(seams, tg)`.  `seamsOf`: the seam corner lists as a closed expression.
  (2) `link_of_loop_att`: the connectivity link of a split-free run WITH attribute data:
      `∃ mesh, Runs decodeConnectivity 514 ([0] ++ conn.bytes) mesh 514 ∧ CTIso … ∧ mesh.atts.size = conn.atts.size ∧
       SeamLink mesh.numFaces mesh.atts (conn.atts.map (·.conn)) (phi conn.processed)`
      from the stage results, `hloop`, `CTIso`, `NoSelfOpp`, `CTOppInvol`, the two flag properties `hsym` / `hbnd` of the
      encoder's attribute tables, and the success of the pure post-processing `hpost` (`buildAttConn` on `seamsOf …`,
      `assignPoints`).
  NOT done: (3) `hsym` / `hbnd` for the tables `initFromAttribute` builds (needs an exact — not only monotone —
  description of the flags `inStep` / `outStep` of EbValuesRefine.lean set, and `Opposite` involutive).
-/
namespace Draco.EbEnc.ConnGlueAtt
open Draco Draco.SeqEnc DecM
open Draco.Eb hiding iabs nextC prevC
open Draco.EbEnc.ConnTri Draco.EbEnc.ConnGlue
open Draco.EbEnc.EncCounts Draco.EbEnc.Seams Draco.EbEnc.CountsIso

/-! ### the tag mask of `decodeSeams` as a pure function of the bits -/

def attTagsFrom (t m : Nat) (b : Nat → Bool) : Nat :=
  (List.range m).foldl (fun t i => t ||| (if b i then tg_seam_interior else tg_seam_none)) t

def cornerTagFrom (dopp : Array Nat) (m : Nat) (bit : Nat → Nat → Bool) (t k : Nat) : Nat :=
  if (dopp[k]! == inv) = true then t ||| tg_seam_boundary
  else if decide (dopp[k]! / 3 < k / 3) = true then t
  else attTagsFrom t m (fun i => bit i k)

def tagsFrom (dopp : Array Nat) (m : Nat) (bit : Nat → Nat → Bool) (t K : Nat) : Nat :=
  (List.range K).foldl (cornerTagFrom dopp m bit) t

theorem attTagsFrom_succ (t m : Nat) (b : Nat → Bool) :
    attTagsFrom t (m + 1) b = attTagsFrom t m b ||| (if b m then tg_seam_interior else tg_seam_none) := by
  simp [attTagsFrom, List.range_succ, List.foldl_append]

theorem tagsFrom_succ (dopp : Array Nat) (m : Nat) (bit : Nat → Nat → Bool) (t K : Nat) :
    tagsFrom dopp m bit t (K + 1) = cornerTagFrom dopp m bit (tagsFrom dopp m bit t K) K := by
  simp [tagsFrom, List.range_succ, List.foldl_append]

/-- the tags after the loop over the attribute data at a corner where a bit is read -/
theorem dAtt_loop_tags (c m : Nat) (s out : Seams.DSt) (bit : Nat → Bool)
    (hd : ∀ i, i < m → ∃ d, s.2.1[i]? = some d ∧ d.nextBit.1 = bit i)
    (h : forIn [:m] s (dAtt c) = .ok out) : out.2.2 = attTagsFrom s.2.2 m bit := by
  rw [range_forIn] at h
  have key := loop_inv_ok (dAtt c)
    (fun k st => st.2.2 = attTagsFrom s.2.2 k bit ∧ ∀ i, k ≤ i → st.2.1[i]? = s.2.1[i]?) m 0
    (by
      intro j st r _ hj ⟨ht, hdec⟩ hr
      obtain ⟨d, hd1, hd2⟩ := hd j (by omega)
      have hj3 : st.2.1[j]? = some d := by rw [hdec j (Nat.le_refl _)]; exact hd1
      unfold dAtt at hr
      rw [hj3] at hr
      dsimp only at hr
      rcases hnb : d.nextBit with ⟨b, d'⟩
      rw [hnb] at hr hd2
      dsimp only at hr hd2
      have hdec' : ∀ i, j + 1 ≤ i → (st.2.1.set! j d')[i]? = s.2.1[i]? := by
        intro i hi
        simp only [Array.set!_eq_setIfInBounds, Array.getElem?_setIfInBounds]
        rw [if_neg (by omega)]
        exact hdec i (by omega)
      by_cases hb : b = true
      · rw [if_pos hb] at hr
        simp only [pure, Except.pure, Except.ok.injEq] at hr
        subst hr
        refine ⟨_, rfl, ?_, hdec'⟩
        show st.2.2 ||| tg_seam_interior = _
        rw [attTagsFrom_succ, ← ht, ← hd2, hb]; rfl
      · rw [if_neg hb] at hr
        simp only [pure, Except.pure, Except.ok.injEq] at hr
        subst hr
        refine ⟨_, rfl, ?_, hdec'⟩
        show st.2.2 ||| tg_seam_none = _
        have hbf : b = false := by simpa using hb
        rw [attTagsFrom_succ, ← ht, ← hd2, hbf]; rfl)
    s out ⟨rfl, fun _ _ => rfl⟩ h
  simpa using key.1

theorem dCorner_step_t (dopp : Array Nat) (N m : Nat) (bit : Nat → Nat → Bool) (hN : dopp.size = N) (hinv : N ≤ inv)
    (k : Nat) (hk : k < N) (s : Seams.DSt) (hI : Seams.DInv dopp N m bit k s) :
    ∃ s', dCorner false dopp m (k / 3) k s = .ok (.yield s') ∧ Seams.DInv dopp N m bit (k + 1) s' ∧
      s'.2.2 = cornerTagFrom dopp m bit s.2.2 k := by
  obtain ⟨s', h1, h2⟩ := dCorner_step dopp N m bit hN hinv k hk s hI
  refine ⟨s', h1, h2, ?_⟩
  obtain ⟨hsz, hseam, hy⟩ := hI
  unfold dCorner at h1
  rw [opposite_rd_eq dopp k (by omega) (by omega)] at h1
  simp only [bind, Except.bind, Bool.not_false, Bool.true_and] at h1
  unfold cornerTagFrom
  by_cases c1 : (dopp[k]! == inv) = true
  · rw [if_pos c1] at h1 ⊢
    cases hl : forIn [:m] s.1 (dBnd k) with
    | error e => rw [hl] at h1; cases h1
    | ok s1 =>
      rw [hl] at h1
      simp only [pure, Except.pure, Except.ok.injEq, ForInStep.yield.injEq] at h1
      rw [← h1]
  · rw [if_neg c1] at h1 ⊢
    by_cases c2 : decide (dopp[k]! / 3 < k / 3) = true
    · rw [if_pos c2] at h1 ⊢
      simp only [pure, Except.pure, Except.ok.injEq, ForInStep.yield.injEq] at h1
      rw [← h1]
    · rw [if_neg c2] at h1 ⊢
      have hr : readsBit dopp k = true := by
        unfold readsBit
        have : (dopp[k]! != inv) = true := by simpa using c1
        simp only [this, Bool.true_and]
        simpa using c2
      cases hl : forIn [:m] s (dAtt k) with
      | error e => rw [hl] at h1; cases h1
      | ok out =>
        rw [hl] at h1
        simp only [pure, Except.pure, Except.ok.injEq, ForInStep.yield.injEq] at h1
        rw [← h1]
        refine dAtt_loop_tags k m s out (fun i => bit i k) (fun i hi => ?_) hl
        obtain ⟨d, hd1, hd2⟩ := hy i hi
        rw [range'_head k N hk, List.filter_cons, hr] at hd2
        simp only [if_true, List.map_cons] at hd2
        exact ⟨d, hd1, hd2.1⟩

theorem dFace_step_t (dopp : Array Nat) (N m : Nat) (bit : Nat → Nat → Bool) (hN : dopp.size = N) (hinv : N ≤ inv)
    (f : Nat) (hf : 3 * f + 3 ≤ N) (s : Seams.DSt) (hI : Seams.DInv dopp N m bit (3 * f) s) (t0 : Nat)
    (ht : s.2.2 = tagsFrom dopp m bit t0 (3 * f)) :
    ∃ s', dFace false dopp m f s = .ok (.yield s') ∧ Seams.DInv dopp N m bit (3 * (f + 1)) s' ∧
      s'.2.2 = tagsFrom dopp m bit t0 (3 * (f + 1)) := by
  unfold dFace
  rw [nextC_eq (3 * f) (by omega), prevC_eq (3 * f) (by omega)]
  have e1 : (3 * f) % 3 = 0 := by omega
  simp only [e1, if_true, show ¬ (0 = 2) by omega, if_false]
  obtain ⟨s1, a1, b1, t1⟩ := dCorner_step_t dopp N m bit hN hinv (3 * f) (by omega) s hI
  obtain ⟨s2, a2, b2, t2⟩ := dCorner_step_t dopp N m bit hN hinv (3 * f + 1) (by omega) s1 b1
  obtain ⟨s3, a3, b3, t3⟩ := dCorner_step_t dopp N m bit hN hinv (3 * f + 1 + 1) (by omega) s2 b2
  rw [show 3 * f / 3 = f by omega] at a1
  rw [show (3 * f + 1) / 3 = f by omega] at a2
  rw [show (3 * f + 1 + 1) / 3 = f by omega, show 3 * f + 1 + 1 = 3 * f + 2 by omega] at a3
  refine ⟨s3, ?_, by rw [show 3 * (f + 1) = 3 * f + 1 + 1 + 1 by omega]; exact b3, ?_⟩
  · simp only [List.forIn_cons, List.forIn_nil, a1, a2, a3, bind, Except.bind, pure, Except.pure]
  · rw [show 3 * (f + 1) = 3 * f + 1 + 1 + 1 by omega, tagsFrom_succ, tagsFrom_succ, tagsFrom_succ, ← ht, ← t1, ← t2]
    exact t3

/-- **`decodeSeams` with its tag mask**: on decoders delivering the bits `bit i d`, the result is the seam corner lists of
    `Seams.decodeSeams_spec` and the tag mask `tagsFrom … 0 (3 n)` — a function of the bits, not of the decoders -/
theorem decodeSeams_spec_t (dopp : Array Nat) (n m : Nat) (bit : Nat → Nat → Bool) (decs : Array RAnsBitDec)
    (hN : dopp.size = 3 * n) (hinv : 3 * n ≤ inv)
    (hy : ∀ i, i < m → ∃ d, decs[i]? = some d ∧
      Yields RAnsBitDec.nextBit d (((List.range (3 * n)).filter (readsBit dopp)).map (bit i))) :
    ∃ seams, decodeSeams false dopp n m decs = .ok (seams, tagsFrom dopp m bit 0 (3 * n)) ∧ seams.size = m ∧
      ∀ i, i < m → seams[i]!.toList = (List.range (3 * n)).filter (seamP dopp (bit i)) := by
  rw [decodeSeams_eq, range_forIn]
  obtain ⟨out, h1, ⟨h2, h3, _⟩, h4⟩ := loop_inv (dFace false dopp m)
    (fun f s => Seams.DInv dopp (3 * n) m bit (3 * f) s ∧ s.2.2 = tagsFrom dopp m bit 0 (3 * f)) n 0
    (fun j s _ hj hI => by
      obtain ⟨s', a, b, c⟩ := dFace_step_t dopp (3 * n) m bit hN hinv j (by omega) s hI.1 0 hI.2
      exact ⟨s', a, b, c⟩)
    (Array.replicate m #[], decs, 0)
    ⟨⟨by simp, fun i hi => by simp [hi], fun i hi => by
      obtain ⟨d, e1, e2⟩ := hy i hi
      refine ⟨d, e1, ?_⟩
      rw [List.range_eq_range'] at e2
      simpa using e2⟩, rfl⟩
  rw [h1]
  refine ⟨out.1, ?_, h2, fun i hi => ?_⟩
  · simp only [Nat.zero_add] at h4
    simp only [bind, Except.bind, pure, Except.pure, h4]
  · rw [h3 i hi]
    simp

/-- the seam corner lists are determined by their characterization -/
theorem seams_ext (m : Nat) (L : Nat → List Nat) (a b : Array (Array Nat)) (ha : a.size = m) (hb : b.size = m)
    (ha' : ∀ i, i < m → a[i]!.toList = L i) (hb' : ∀ i, i < m → b[i]!.toList = L i) : a = b := by
  apply Array.ext (by rw [ha, hb])
  intro i h1 h2
  have e1 := ha' i (by omega)
  have e2 := hb' i (by omega)
  have g1 : a[i]! = a[i] := by simp [h1]
  have g2 : b[i]! = b[i] := by simp [h2]
  rw [g1] at e1
  rw [g2] at e2
  apply Array.ext'
  rw [e1, e2]

/-- **(1) `decodeSeams_deterministic`**: two arrays of seam decoders that deliver the same bits give the same result
    (seam corner lists AND tag mask) -/
theorem decodeSeams_deterministic (dopp : Array Nat) (n m : Nat) (bit : Nat → Nat → Bool) (decs decs' : Array RAnsBitDec)
    (hN : dopp.size = 3 * n) (hinv : 3 * n ≤ inv)
    (hy : ∀ i, i < m → ∃ d, decs[i]? = some d ∧
      Yields RAnsBitDec.nextBit d (((List.range (3 * n)).filter (readsBit dopp)).map (bit i)))
    (hy' : ∀ i, i < m → ∃ d, decs'[i]? = some d ∧
      Yields RAnsBitDec.nextBit d (((List.range (3 * n)).filter (readsBit dopp)).map (bit i))) :
    decodeSeams false dopp n m decs = decodeSeams false dopp n m decs' := by
  obtain ⟨a, h1, h2, h3⟩ := decodeSeams_spec_t dopp n m bit decs hN hinv hy
  obtain ⟨b, k1, k2, k3⟩ := decodeSeams_spec_t dopp n m bit decs' hN hinv hy'
  rw [h1, k1, seams_ext m _ a b h2 k2 h3 k3]

/-- the seam corner lists the decoder builds, as a closed expression -/
def seamsOf (dopp : Array Nat) (n m : Nat) (bit : Nat → Nat → Bool) : Array (Array Nat) :=
  (Array.range m).map fun i => ((List.range (3 * n)).filter (seamP dopp (bit i))).toArray

theorem seamsOf_spec (dopp : Array Nat) (n m : Nat) (bit : Nat → Nat → Bool) :
    (seamsOf dopp n m bit).size = m ∧
      ∀ i, i < m → (seamsOf dopp n m bit)[i]!.toList = (List.range (3 * n)).filter (seamP dopp (bit i)) := by
  refine ⟨by simp [seamsOf], fun i hi => ?_⟩
  simp [seamsOf, hi]

/-- **(2) `link_of_loop_att`**: the connectivity link of a split-free run WITH attribute data, from the loop result, `CTIso`
    and the success of the pure post-processing (`buildAttConn` per attribute data, `assignPoints`) on the determined
    seam corner lists; `hsym` / `hbnd`: the two properties of the encoder's seam flags (see `initFromAttribute_flags`). -/
theorem link_of_loop_att (ch : ConnChoices) (pf : Faces) (acv : Array (Nat × Array Nat)) (tbl : CornerTable)
    (hc : CornerTable.create pf = some tbl)
    (hnd : ((CT.ofTable tbl).numFaces == (CT.ofTable tbl).numDegenerated) = false)
    (holeId : Array Nat) (nh : Nat) (hh : findHoles (CT.ofTable tbl) = .ok (holeId, nh))
    (atts : Array AttData) (hatts : attsStage (CT.ofTable tbl) acv = .ok atts) (s : OSt)
    (hmain : forIn [:(CT.ofTable tbl).numCorners] (initO (CT.ofTable tbl) nh)
      (outerBody (CT.ofTable tbl) holeId false (CT.ofTable tbl).numFaces) = .ok s)
    (se : Array RAnsBitEnc) (sb : Array (Array Bool))
    (hseam : encodeSeamBits (CT.ofTable tbl) (s.2.2.2.2.2.2.2.1.reverse ++ s.2.2.2.2.2.2.2.2.1)
      (atts.map fun a => a.conn.edgeSeam) = .ok (se, sb))
    (hns : s.2.2.2.2.2.2.2.2.2.2.2.2 = 0) (hsp : s.2.2.2.2.2.2.2.2.2.1 = #[]) (hna : atts.size < 256)
    (nv nf : Nat) (env : nv = (CT.ofTable tbl).numVertices - (CT.ofTable tbl).numIsolated)
    (enf : nf = (CT.ofTable tbl).numFaces - (CT.ofTable tbl).numDegenerated)
    (hs : ∀ x ∈ s.2.2.2.2.1.toList, IsTopo x) (hnf : nf ≤ 2 ^ 21) (hnv : nv ≤ 3 * 2 ^ 21) (hnv3 : nv ≤ nf * 3)
    (hedge : 3 * nf / 2 ≤ nv * (nv - 1) / 2) (hsz1 : s.2.2.2.2.1.size ≤ nf)
    (hsz2 : nf ≤ s.2.2.2.2.1.size + s.2.2.2.2.1.size / 3) (hsfb : s.2.2.2.2.2.2.1.size + 3 < 2 ^ 32)
    (hbl : ∀ b ∈ sb.toList, b.size + 3 < 2 ^ 32)
    (co : ConnOut)
    (hloop : ∀ tr, Delivers tr s.2.2.2.2.1.toList.reverse s.2.2.2.2.2.2.1.toList →
      connLoop ⟨nf, nv, s.2.2.2.2.1.size, [], atts.size == 0⟩ tr = .ok co)
    (hiso : CTIso (CT.ofTable tbl) (s.2.2.2.2.2.2.2.1.reverse ++ s.2.2.2.2.2.2.2.2.1) nf co.c2v co.opp)
    (hC : (CT.ofTable tbl).numCorners ≤ inv) (hinvol : CTOppInvol (CT.ofTable tbl)) (hnso : NoSelfOpp co.opp nf)
    (hsym : ∀ i, i < atts.size → ∀ c, c < (CT.ofTable tbl).numCorners → (CT.ofTable tbl).opp[c]! ≠ inv →
      (atts.map fun a => a.conn.edgeSeam)[i]![(CT.ofTable tbl).opp[c]!]! = (atts.map fun a => a.conn.edgeSeam)[i]![c]!)
    (hbnd : ∀ i, i < atts.size → ∀ d, d < 3 * nf →
      (CT.ofTable tbl).opp[phi (s.2.2.2.2.2.2.2.1.reverse ++ s.2.2.2.2.2.2.2.2.1) d]! = inv →
      (atts.map fun a => a.conn.edgeSeam)[i]![phi (s.2.2.2.2.2.2.2.1.reverse ++ s.2.2.2.2.2.2.2.2.1) d]! = true)
    (hpost : ∃ attsD faces np t2,
      (seamsOf co.opp nf atts.size (bitE (atts.map fun a => a.conn.edgeSeam)
        (s.2.2.2.2.2.2.2.1.reverse ++ s.2.2.2.2.2.2.2.2.1))).mapM (fun sc => buildAttConn co.c2v co.opp co.vc sc) = .ok attsD ∧
      assignPoints co nf attsD = .ok (faces, np, t2)) :
    ∀ conn, encodeConnectivity ch false pf acv = .ok conn →
      ∃ mesh, Runs decodeConnectivity 514 ([0] ++ conn.bytes) mesh 514 ∧
        CTIso conn.ct conn.processed mesh.numFaces mesh.c2v mesh.opp ∧ mesh.atts.size = conn.atts.size ∧
        SeamLink mesh.numFaces mesh.atts (conn.atts.map (·.conn)) (phi conn.processed) := by
  subst env enf
  obtain ⟨conn, e1, e2, e3, e4, e5, e6, e7⟩ := encode_bytes_splitfree_att ch pf acv tbl hc hnd holeId nh hh atts hatts s hmain
    se sb hseam hns hsp hna (by omega) (by omega) (by omega)
  intro conn' h'
  rw [e1] at h'
  cases h'
  obtain ⟨attsD, faces, np, t2, hbuild, hassign⟩ := hpost
  -- abbreviations
  generalize hp : s.2.2.2.2.2.2.2.1.reverse ++ s.2.2.2.2.2.2.2.2.1 = p at *
  generalize hes : (atts.map fun a => a.conn.edgeSeam) = es at *
  have hesz : es.size = atts.size := by rw [← hes]; simp
  obtain ⟨k1, k2⟩ := encodeSeamBits_spec hiso hC hnso es se sb hseam
  obtain ⟨q1, q2⟩ := seamsOf_spec co.opp ((CT.ofTable tbl).numFaces - (CT.ofTable tbl).numDegenerated) atts.size (bitE es p)
  have hbll : (sb.toList.map (·.toList)).length = atts.size := by simp [e7]
  have hseamsA2 : ∀ decs, SeamsDeliver decs (sb.toList.map (·.toList)) →
      decodeSeams false co.opp ((CT.ofTable tbl).numFaces - (CT.ofTable tbl).numDegenerated)
        (sb.toList.map (·.toList)).length decs =
        .ok (seamsOf co.opp ((CT.ofTable tbl).numFaces - (CT.ofTable tbl).numDegenerated) atts.size (bitE es p),
          tagsFrom co.opp atts.size (bitE es p) 0 (3 * ((CT.ofTable tbl).numFaces - (CT.ofTable tbl).numDegenerated))) := by
    rintro decs ⟨hd1, hd2⟩
    rw [hbll] at hd1 ⊢
    obtain ⟨a, a1, a2, a3⟩ := decodeSeams_spec_t co.opp _ atts.size (bitE es p) decs hiso.sizes.2 (by
        have := hiso.corners_le; omega) (fun i hi => by
      have hi' : i < decs.size := by omega
      refine ⟨decs[i], by simp [hi'], ?_⟩
      have := hd2 i hi'
      rw [← k2 i (by omega)]
      have hib : i < sb.size := by omega
      simpa [hib] using this)
    rw [a1, seams_ext atts.size _ a _ a2 q1 a3 q2]
  have hrun := runs_decodeConnectivity_of_loop_att ch _ _ s.2.2.2.2.1 s.2.2.2.2.2.2.1.toList (sb.toList.map (·.toList)) co hs
    hnf hnv hnv3 hedge hsz1 hsz2 (by simpa using hsfb) (by
      intro b hb
      obtain ⟨x, hx, rfl⟩ := List.mem_map.mp hb
      simpa using hbl x hx) (by rw [hbll]; exact hloop) _ _ hseamsA2 attsD hbuild faces np t2 hassign
  rw [hbll] at hrun
  obtain ⟨m1, m2⟩ := array_mapM_idx _ _ attsD hbuild
  rw [q1] at m1
  rw [← e2] at hrun
  refine ⟨_, hrun, ?_, ?_, ?_⟩
  · rw [e3, e4]; exact hiso
  · show attsD.size = conn.atts.size
    rw [e5, m1]
  · show SeamLink _ attsD (conn.atts.map (·.conn)) (phi conn.processed)
    rw [e4, e5]
    refine ⟨by simp [m1], fun i hi d hd => ?_⟩
    have hia : i < atts.size := by omega
    have his : i < (seamsOf co.opp ((CT.ofTable tbl).numFaces - (CT.ofTable tbl).numDegenerated) atts.size (bitE es p)).size := by
      rw [q1]; exact hia
    obtain ⟨st, hst, hse⟩ := buildAttConn_edgeSeam _ _ _ _ _ (m2 i his hi)
    have hchar := q2 i hia
    have g : (seamsOf co.opp ((CT.ofTable tbl).numFaces - (CT.ofTable tbl).numDegenerated) atts.size (bitE es p))[i]! =
        (seamsOf co.opp ((CT.ofTable tbl).numFaces - (CT.ofTable tbl).numDegenerated) atts.size (bitE es p))[i] := by
      simp [his]
    rw [g] at hchar
    obtain ⟨_, fl⟩ := markSeams_flags hiso hC hinvol es i (hsym i hia) (hbnd i hia) co.vc _ hchar st hst
    have ea : attsD[i]! = attsD[i] := by simp [hi]
    rw [ea, hse, fl d hd, ← hes]
    simp [hia]

end Draco.EbEnc.ConnGlueAtt
