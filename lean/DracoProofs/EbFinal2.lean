import DracoProofs.EbPlanSetting
import DracoProofs.EbCoverage
import DracoProofs.EbCtrlIds
import DracoProofs.EbRoundtripExample
/-
  `eb_roundtrip_conditional_partial'` (EbPlanSetting.lean) with further hypotheses discharged from the encoder run:

  (i)  `hcover_of_run`: every input face with three different position entries is decoded
       (`Coverage.encodeConnectivity_coverage`) ⇒ `eb_roundtrip_conditional_partial2`;
  (ii) `hids_of_run`, `decoderOK_static`: the attribute data ids of the plan, and the fields of `DecoderOK` that do not
       depend on the decoder's runs ⇒ `eb_roundtrip_conditional_partial3`.
-/
namespace Draco.EbEnc
open Draco Draco.SeqEnc DecM
open Draco.Eb hiding iabs nextC prevC

namespace Final2
open PosAgreeP Tuples FaceCorr PlanSettingP

/-! ### (i) coverage -/

/-- the first element of a list found through its indices -/
theorem find_range_list {α : Type} [Inhabited α] (p : α → Bool) : ∀ (l : List α) (k : Nat),
    (List.range l.length).find? (fun i => p l[i]!) = some k → l.find? p = some l[k]! := by
  intro l
  induction l with
  | nil => intro k h; simp at h
  | cons x xs ih =>
    intro k h
    rw [List.length_cons, List.range_succ_eq_map, List.find?_cons] at h
    by_cases hx : p x = true
    · have : p (x :: xs)[0]! = true := by simpa using hx
      rw [this] at h
      cases h
      simp [hx]
    · have hx' : p x = false := by simpa using hx
      have : p (x :: xs)[0]! = false := by simpa using hx'
      rw [this, List.find?_map] at h
      simp only [] at h
      have hfun : ((fun i => p (x :: xs)[i]!) ∘ Nat.succ) = fun i => p xs[i]! := by
        funext i; simp
      rw [hfun] at h
      cases hf : (List.range xs.length).find? (fun i => p xs[i]!) with
      | none => rw [hf] at h; cases h
      | some k' =>
        rw [hf] at h
        simp only [Option.map_some, Option.some.injEq] at h
        subst h
        rw [List.find?_cons, hx', ih k' hf]
        simp

/-- `GetNamedAttributeId(POSITION)` is the first attribute of type 0 (`Spec.checkCore`'s position attribute) -/
theorem named_find (g : Geometry) (pid : Nat) (h : namedAttributeId g.atts.toArray posType = some pid) :
    g.atts.find? (·.attType == 0) = some (g.atts.toArray[pid]!) := by
  unfold namedAttributeId at h
  have := find_range_list (fun (a : Attribute) => a.attType == 0) g.atts pid (by
    simpa [posType, Generated.geometryAttribute_POSITION] using h)
  simpa using this

/-- the encoder's table has no degenerate face where `Spec.checkCore` sees three different position entries -/
theorem nondeg_posFaces {g : Geometry} {single : Bool} {pf : Faces} {acv : Array (Nat × Array Nat)}
    (h : connInputs g single = .ok (pf, acv)) (f : Nat) (hf : f < g.faces.length)
    (hnd : nondegFace g g.faces[f] = true) : faceDegenerate pf f = false := by
  cases single with
  | false =>
    obtain ⟨pid, hpid, hloop⟩ := connInputs_mapped h
    obtain ⟨hsz, hpos⟩ := hpos_of_loop _ g.faces pf hloop
    exact nondeg_enc g _ (named_find g pid hpid) pf hsz hpos f hf hnd
  | true =>
    have := connInputs_single h
    subst this
    unfold faceDegenerate
    simp only [List.getElem?_toArray, List.getElem?_eq_getElem hf]
    rcases hxyz : g.faces[f] with ⟨x, y, z⟩
    rw [hxyz] at hnd
    simp only [nondegFace, Bool.and_eq_true, bne_iff_ne, ne_eq] at hnd
    have h1 : x ≠ y := fun e => hnd.1.1 (by rw [e])
    have h2 : y ≠ z := fun e => hnd.1.2 (by rw [e])
    have h3 : x ≠ z := fun e => hnd.2 (by rw [e])
    simp [h1, h2, h3]

/-- **`hcover`** of a successful encoder run (`hnf`: the decoder built as many faces as the encoder processed) -/
theorem hcover_of_run (ch : EbChoices) (g : Geometry) (md : Option GeometryMetadata) (o : EbOpts) (enc : Encoded)
    (henc : encodeEdgebreaker ch g md o = .ok enc) (mesh : Mesh) (hnf : mesh.numFaces = enc.conn.processed.size) :
    ∀ j (hj : j < g.faces.length), nondegFace g (g.faces[j]) = true →
      ∃ i, i < (facesOf mesh).length ∧ enc.conn.processed[i]! / 3 = j := by
  obtain ⟨mdBytes, coder, posFaces, acv, cs, couts, h1, h2, h3, h4, _⟩ :=
    (encodeEdgebreaker_stages ch g md o enc henc).stages
  have hsz := connInputs_size h3
  obtain ⟨table, vf, hcreate, hct, _⟩ := EncCounts.encodeConnectivity_visited ch.conn _ posFaces acv enc.conn h4
  have hk := EncCounts.ctok_ofTable hcreate
  have hcov := Coverage.encodeConnectivity_coverage ch.conn _ posFaces acv enc.conn h4
  have hnumF : enc.conn.ct.numFaces = posFaces.size := by
    rw [hct]
    show table.cornerToVertex.size / 3 = _
    rw [create_c2v_size hcreate]; omega
  intro j hj hnd
  have hjf : j < enc.conn.ct.numFaces := by rw [hnumF, hsz]; exact hj
  have hdeg : isDegenerated enc.conn.ct j = .ok false := by
    rw [hct] at hjf ⊢
    have e2 : isDegenA (CT.ofTable table).c2v j = faceDegenerate posFaces j :=
      CornerTable.createF_isDegenerated hcreate j (by omega)
    rw [EncCounts.isDegenerated_eq hk hjf, e2, nondeg_posFaces h3 j hj hnd]
  have hm := hcov j hjf hdeg
  obtain ⟨c, hc, hcj⟩ := List.mem_map.mp hm
  obtain ⟨i, hi, rfl⟩ := List.getElem_of_mem hc
  have hi' : i < enc.conn.processed.size := by simpa using hi
  refine ⟨i, by rw [facesOf_length, hnf]; exact hi', ?_⟩
  rw [getElem!_pos enc.conn.processed i hi']
  simpa using hcj

/-- **eb_roundtrip_conditional_partial2**: `eb_roundtrip_conditional_partial'` without `hcover` -/
theorem eb_roundtrip_conditional_partial2 (ch : EbChoices) (g : Geometry) (md : Option GeometryMetadata) (o : EbOpts)
    (enc : Encoded) (henc : encodeEdgebreaker ch g md o = .ok enc) (hmd : ∀ m, md = some m → m.WF')
    (mesh : Mesh) (sides : List (SeqOut × Array Nat)) (hsides : enc.couts.size = sides.length)
    (hconn : ∀ coder, traversalCoder o g.faces.length = some coder →
      Runs decodeConnectivity 514 ([coder] ++ enc.conn.bytes) mesh 514)
    (hnf : mesh.numFaces = enc.conn.processed.size)
    (plan : AttPlan) (hplan : plan = planOf o g.atts.toArray enc.conn enc.controllers enc.couts.toList sides)
    (hatt : ∀ a, a < g.atts.toArray.size → EbAttOK (g.atts.toArray[a]!) (o.base.att a))
    (hids : plan.Pairwise fun a b =>
      (0 ≤ b.dec.attDataId → a.dec.attDataId ≠ b.dec.attDataId) ∧ (b.dec.attDataId < 0 → 0 ≤ a.dec.attDataId))
    (hdec : ∀ d ∈ plan, DecoderOK mesh d)
    (hvals : ∀ (i k : Nat) (hi : i < plan.length) (hk : k < plan[i].items.length),
      ValuesOK mesh plan[i] (parentAt plan i k) plan[i].items[k])
    (huid : (g.atts.map (·.uniqueId)).Nodup)
    (hrows : RowsCorr g (itemOfRun o g.atts.toArray enc.couts.toList sides) mesh.faces (flattenFaces g.faces).toArray
      mesh.numFaces (phi enc.conn.processed))
    (extra : Bytes) :
    ∃ st st',
      decodeGeometry {} { rest := enc.bytes ++ extra } = (some ⟨planGeometry {} mesh plan, md⟩, st) ∧ st.rest = extra ∧
      decodeGeometry { skip := allTypes } { rest := enc.bytes ++ extra } =
        (some ⟨planGeometry { skip := allTypes } mesh plan, md⟩, st') ∧ st'.rest = extra ∧
      Spec.checkCore .edgebreaker (quantReq g o.base) g (planGeometry {} mesh plan)
        (planGeometry { skip := allTypes } mesh plan) = true :=
  eb_roundtrip_conditional_partial' ch g md o enc henc hmd mesh sides hsides hconn hnf plan hplan hatt hids hdec hvals
    huid hrows (hcover_of_run ch g md o enc henc mesh hnf) extra

/-! ### (ii) the attribute data ids of the plan and the static fields of `DecoderOK` -/

/-- without a single connectivity `connInputs` checks that there is exactly one POSITION attribute -/
theorem connInputs_hpos {g : Geometry} {pf : Faces} {acv : Array (Nat × Array Nat)}
    (h : connInputs g false = .ok (pf, acv)) :
    (g.atts.toArray.toList.filter fun a => a.attType == posType).length = 1 := by
  unfold connInputs at h
  simp only [Bool.false_eq_true, if_false] at h
  split at h
  · simp [throw, throwThe, MonadExceptOf.throw, bind, Except.bind] at h
  · rw [bind_ok_iff] at h
    obtain ⟨s, _, h⟩ := h
    simp only [Bool.not_false, if_true] at h
    split at h
    · simp [throw, throwThe, MonadExceptOf.throw, bind, Except.bind] at h
    · rename_i hne
      simpa using hne

theorem zipWith_map_left {α β γ δ : Type} (f : α → β → γ) (k : γ → δ) (k' : α → δ) (h : ∀ a b, k (f a b) = k' a) :
    ∀ (as : List α) (bs : List β), as.length = bs.length → (List.zipWith f as bs).map k = as.map k' := by
  intro as
  induction as with
  | nil => intro bs _; cases bs <;> rfl
  | cons a as ih =>
    intro bs hl
    cases bs with
    | nil => simp at hl
    | cons b bs => simp only [List.zipWith_cons_cons, List.map_cons, h, ih bs (by simpa using hl)]

theorem mem_zipWith' {α β γ : Type} (f : α → β → γ) : ∀ (as : List α) (bs : List β) (d : γ),
    d ∈ List.zipWith f as bs → ∃ a b, (a, b) ∈ as.zip bs ∧ d = f a b := by
  intro as
  induction as with
  | nil => intro bs d hd; cases bs <;> simp at hd
  | cons a as ih =>
    intro bs d hd
    cases bs with
    | nil => simp at hd
    | cons b bs =>
      simp only [List.zipWith_cons_cons, List.mem_cons] at hd
      rcases hd with rfl | hd
      · exact ⟨a, b, by simp, rfl⟩
      · obtain ⟨a', b', h1, h2⟩ := ih bs d hd
        exact ⟨a', b', by simp [h1], h2⟩

/-- **`hids`** of the plan of a successful encoder run -/
theorem hids_of_run (ch : EbChoices) (g : Geometry) (md : Option GeometryMetadata) (o : EbOpts) (enc : Encoded)
    (henc : encodeEdgebreaker ch g md o = .ok enc) (sides : List (SeqOut × Array Nat))
    (hsides : enc.couts.size = sides.length) :
    (planOf o g.atts.toArray enc.conn enc.controllers enc.couts.toList sides).Pairwise fun a b =>
      (0 ≤ b.dec.attDataId → a.dec.attDataId ≠ b.dec.attDataId) ∧ (b.dec.attDataId < 0 → 0 ≤ a.dec.attDataId) := by
  obtain ⟨mdBytes, coder, posFaces, acv, cs, couts, h1, h2, h3, h4, h5, h6, h7, h8, h9, h10, _⟩ :=
    (encodeEdgebreaker_stages ch g md o enc henc).stages
  have hchain := encodeControllers_chain ch o g enc.conn cs _ _ _ _ _ h8
  have hctrl := chain_ctrl hchain
  rw [h9, h10]
  rw [h10] at hsides
  simp only [] at hsides ⊢
  have hl : couts.length = sides.length := by simpa using hsides
  have hpos : useSingleConnectivity o = false →
      (g.atts.toArray.toList.filter fun a => a.attType == posType).length = 1 := by
    intro hs
    rw [hs] at h3
    exact connInputs_hpos h3
  have hpw := rearrangeEncoders_attDataId_pairwise h5 hpos h7
  have hmap : (planOf o g.atts.toArray enc.conn cs couts sides).map (fun d => d.dec.attDataId) =
      enc.order.toList.map fun e => (cs[e]!).attDataId := by
    unfold planOf
    rw [zipWith_map_left (decoderItemOf o g.atts.toArray enc.conn cs) (fun (d : DecoderItem) => d.dec.attDataId)
        (fun (c : CtrlOut) => (cs[c.ctrl]!).attDataId) (fun _ _ => rfl) couts sides hl,
      ← hctrl, List.map_map]
    rfl
  rw [← hmap, List.pairwise_map] at hpw
  exact hpw

/-- the two runs of the decoder's sequencer that give one decoder of the plan its sequence and its point map -/
def SideRuns (mesh : Mesh) (dec : AttDecoder) (side : SeqOut × Array Nat) : Prop :=
  sequenceOfDecoder mesh dec = .ok side.1 ∧
  pointToValueMap (viewOfDecoder mesh dec) mesh.faces mesh.numPoints side.1.v2d = .ok side.2

/-- **`hdec`** of the plan of a successful encoder run from the decoder's own runs.
    Named hypotheses that remain:
    * `hruns` — `sides` ARE the outputs of the decoder's sequencer and of `UpdatePointToAttributeIndexMapping` on `mesh`
      (the dynamic fields `seq`, `map` of `DecoderOK`);
    * `hmatts` — the decoder built one attribute connectivity per attribute data entry of the encoder (part of the
      connectivity link);
    * `hnad` — at most 128 attribute data entries (the id is written as one signed byte); `hnatt` — the number of
      attributes fits the varint count;
    * `hnonpos` — `AttDataNonPos`: `attribute_data_` has entries for non-POSITION attributes only (what `connInputs`
      builds; MISSING: that `encodeConnectivity` keeps `conn.atts[k].attIndex = acv[k].1`). -/
theorem hdec_of_run (ch : EbChoices) (g : Geometry) (md : Option GeometryMetadata) (o : EbOpts) (enc : Encoded)
    (henc : encodeEdgebreaker ch g md o = .ok enc) (mesh : Mesh) (sides : List (SeqOut × Array Nat))
    (hruns : ∀ c side, (c, side) ∈ enc.couts.toList.zip sides →
      SideRuns mesh (decOfController enc.conn (enc.controllers[c.ctrl]!)) side)
    (hmatts : mesh.atts.size = enc.conn.atts.size) (hnad : enc.conn.atts.size ≤ 128)
    (hnatt : g.atts.length < 2 ^ 32) (hnonpos : AttDataNonPos g.atts.toArray enc.conn) :
    ∀ d ∈ planOf o g.atts.toArray enc.conn enc.controllers enc.couts.toList sides, DecoderOK mesh d := by
  obtain ⟨mdBytes, coder, posFaces, acv, cs, couts, h1, h2, h3, h4, h5, h6, h7, h8, h9, h10, _⟩ :=
    (encodeEdgebreaker_stages ch g md o enc henc).stages
  have hchain := encodeControllers_chain ch o g enc.conn cs _ _ _ _ _ h8
  have hord := rearrangeEncoders_order h7
  have hshape := chain_shape (g := g) (hg1_of_generate h5) hchain
  rw [h9, h10] at hruns ⊢
  simp only [] at hruns ⊢
  intro d hd
  unfold planOf at hd
  obtain ⟨c, side, hz, rfl⟩ := mem_zipWith' _ _ _ d hd
  have hc : c ∈ couts := (List.of_mem_zip hz).1
  obtain ⟨e, p', hemem, hrun⟩ := chain_mem hchain c hc
  obtain ⟨_, _, _, _, _, _, _, hce⟩ := encodeController_spec ch o g enc.conn cs _ _ e p' c hrun
  have helt : e < cs.size := hord.2.1 e (by simpa using hemem)
  have hmem : cs[c.ctrl]! ∈ cs := by rw [hce]; exact getElem!_mem_of_lt cs e helt
  obtain ⟨r1, r2⟩ := hruns c side hz
  have hlen : c.items.toList.length = (cs[c.ctrl]!).attIds.size := by
    have := congrArg List.length (hshape c hc).attIds
    simpa using this.symm
  have hpos1 := generateControllers_attIds_pos h5 _ hmem
  have hlt := generateControllers_attIds_lt h5 _ hmem
  have hnd := generateControllers_attIds_nodup_each h5 _ hmem
  have hcount : (cs[c.ctrl]!).attIds.size ≤ g.atts.toArray.size := by
    have := nodup_lt_length_le g.atts.toArray.size (cs[c.ctrl]!).attIds.toList hnd
      (fun x hx => hlt x (by simpa using hx))
    simpa using this
  refine { idRange := ?_, idAtt := ?_, traversal := ?_, corner := ?_, seq := r1, map := r2, nonempty := ?_, count := ?_ }
  · show -128 ≤ (cs[c.ctrl]!).attDataId ∧ (cs[c.ctrl]!).attDataId < 128
    by_cases hn : (cs[c.ctrl]!).attDataId < 0
    · rw [generateControllers_attDataId_neg h5 _ hmem hn]; decide
    · have := (generateControllers_attDataId_lt h5 _ hmem (by omega)).1
      omega
  · intro hnn
    show (cs[c.ctrl]!).attDataId.toNat < mesh.atts.size
    rw [hmatts]
    exact (generateControllers_attDataId_lt h5 _ hmem hnn).1
  · exact generateControllers_traversalMethod_lt h5 _ hmem
  · intro hcd
    have hpv : perVertex enc.conn (cs[c.ctrl]!) = false := by
      have : (!(perVertex enc.conn (cs[c.ctrl]!))) = true := hcd
      simpa using this
    exact generateControllers_perVertex_false h5 hnonpos _ hmem hpv
  · show c.items.toList.map (itemOf o g.atts.toArray) ≠ []
    intro he
    have := congrArg List.length he
    simp only [List.length_map, List.length_nil] at this
    omega
  · show (c.items.toList.map (itemOf o g.atts.toArray)).length < 2 ^ 32
    rw [List.length_map, hlen]
    have : g.atts.toArray.size < 2 ^ 32 := by simpa using hnatt
    omega

/-- **eb_roundtrip_conditional_partial3**: `eb_roundtrip_conditional_partial2` without `hids`, and with `hdec` resolved into
    the decoder's own runs `hruns` and the named static hypotheses of `hdec_of_run` -/
theorem eb_roundtrip_conditional_partial3 (ch : EbChoices) (g : Geometry) (md : Option GeometryMetadata) (o : EbOpts)
    (enc : Encoded) (henc : encodeEdgebreaker ch g md o = .ok enc) (hmd : ∀ m, md = some m → m.WF')
    (mesh : Mesh) (sides : List (SeqOut × Array Nat)) (hsides : enc.couts.size = sides.length)
    (hconn : ∀ coder, traversalCoder o g.faces.length = some coder →
      Runs decodeConnectivity 514 ([coder] ++ enc.conn.bytes) mesh 514)
    (hnf : mesh.numFaces = enc.conn.processed.size)
    (hruns : ∀ c side, (c, side) ∈ enc.couts.toList.zip sides →
      SideRuns mesh (decOfController enc.conn (enc.controllers[c.ctrl]!)) side)
    (hmatts : mesh.atts.size = enc.conn.atts.size) (hnad : enc.conn.atts.size ≤ 128)
    (hnatt : g.atts.length < 2 ^ 32) (hnonpos : AttDataNonPos g.atts.toArray enc.conn)
    (plan : AttPlan) (hplan : plan = planOf o g.atts.toArray enc.conn enc.controllers enc.couts.toList sides)
    (hatt : ∀ a, a < g.atts.toArray.size → EbAttOK (g.atts.toArray[a]!) (o.base.att a))
    (hvals : ∀ (i k : Nat) (hi : i < plan.length) (hk : k < plan[i].items.length),
      ValuesOK mesh plan[i] (parentAt plan i k) plan[i].items[k])
    (huid : (g.atts.map (·.uniqueId)).Nodup)
    (hrows : RowsCorr g (itemOfRun o g.atts.toArray enc.couts.toList sides) mesh.faces (flattenFaces g.faces).toArray
      mesh.numFaces (phi enc.conn.processed))
    (extra : Bytes) :
    ∃ st st',
      decodeGeometry {} { rest := enc.bytes ++ extra } = (some ⟨planGeometry {} mesh plan, md⟩, st) ∧ st.rest = extra ∧
      decodeGeometry { skip := allTypes } { rest := enc.bytes ++ extra } =
        (some ⟨planGeometry { skip := allTypes } mesh plan, md⟩, st') ∧ st'.rest = extra ∧
      Spec.checkCore .edgebreaker (quantReq g o.base) g (planGeometry {} mesh plan)
        (planGeometry { skip := allTypes } mesh plan) = true := by
  subst hplan
  exact eb_roundtrip_conditional_partial2 ch g md o enc henc hmd mesh sides hsides hconn hnf _ rfl hatt
    (hids_of_run ch g md o enc henc sides hsides)
    (hdec_of_run ch g md o enc henc mesh sides hruns hmatts hnad hnatt hnonpos) hvals huid hrows extra

/-! ### (iii) the row correspondence from the `TupleSetup` of every attribute -/

/-- the values of an item: the raw rows (kind 0) or the portable values `portableOf` produced -/
theorem encodeItem_vals (ch : EbChoices) (o : EbOpts) (g : Geometry) (e : Nat) (mdata : MeshData) (pids : Array Nat)
    (parent : Option ParentAtt) (s : SeqEncSt) (pt : Array Int × Bytes) (it : EncItem)
    (h : encodeItem ch o g e mdata pids parent s pt = .ok it) :
    (s.kind = 0 → ∃ rows, rowsAt (g.atts.toArray[s.attId]!) pids = .ok rows ∧ it.valueBytes = rows.flatten) ∧
    (s.kind ≠ 0 → it.portable = pt.1) := by
  unfold encodeItem at h
  simp only [] at h
  split at h
  · rename_i hk
    rw [bind_ok_iff] at h
    obtain ⟨rows, hrows, h⟩ := h
    simp only [pure, Except.pure, Except.ok.injEq] at h
    subst h
    have hk0 : s.kind = 0 := by simpa using hk
    exact ⟨fun _ => ⟨rows, hrows, rfl⟩, fun hne => absurd hk0 hne⟩
  · rename_i hk
    rw [bind_ok_iff] at h
    obtain ⟨⟨sch, vb⟩, _, h⟩ := h
    simp only [pure, Except.pure, Except.ok.injEq] at h
    subst h
    have hk0 : s.kind ≠ 0 := by simpa using hk
    exact ⟨fun h0 => absurd h0 hk0, fun _ => rfl⟩

/-- the stage facts of every item of a controller (`rowsAt`, `portableOf`, `encodeItem`) -/
theorem item_stage_facts (ch : EbChoices) (o : EbOpts) (g : Geometry) (conn : ConnEnc) (cs : Array Controller) (anp : Bool)
    (posId : Option Nat) (e : Nat) (p : Option ParentAtt) (c : CtrlOut)
    (h : encodeController ch o g conn cs anp posId e p = .ok c) :
    ∀ it ∈ c.items.toList, ∃ rows pt s,
      rowsAt (g.atts.toArray[it.attId]!) c.seq.pointIds = .ok rows ∧
      portableOf o (g.atts.toArray[it.attId]!) s rows = .ok pt ∧ s.attId = it.attId ∧ s.kind = it.kind ∧
      (it.kind = 0 → it.valueBytes = rows.flatten) ∧ (it.kind ≠ 0 → it.portable = pt.1) := by
  obtain ⟨pts, items, _, _, hpts, hitems, hci, hctrl⟩ := encodeController_spec ch o g conn cs anp posId e p c h
  have hl := portablePass_length o g anp posId c.seq.pointIds _ p pts c.parent hpts
  obtain ⟨i1, i2⟩ := encodePass_spec ch o g e _ c.seq.pointIds c.parent _ pts items hl hitems
  intro it hit
  rw [hci] at hit
  simp only [] at hit
  obtain ⟨k, hk', rfl⟩ := List.getElem_of_mem hit
  have hks : k < (cs[e]!).encs.toList.length := by rw [← i1]; exact hk'
  have hkp : k < pts.length := by rw [hl]; exact hks
  have hitem := i2 k hks hkp hk'
  obtain ⟨hid, hkind⟩ := encodeItem_ids ch o g e _ _ _ _ _ _ hitem
  obtain ⟨rows, hrows, hpo⟩ := portablePass_spec o g anp posId c.seq.pointIds _ p pts c.parent hpts k hks hkp
  obtain ⟨v0, v1⟩ := encodeItem_vals ch o g e _ _ _ _ _ _ hitem
  refine ⟨rows, pts[k], (cs[e]!).encs.toList[k], by rw [hid]; exact hrows, by rw [hid]; exact hpo, hid.symm, hkind.symm,
    ?_, ?_⟩
  · intro h0
    obtain ⟨rows', hr', hv⟩ := v0 (by rw [← hkind]; exact h0)
    rw [hrows] at hr'
    cases hr'
    exact hv
  · intro hne
    exact v1 (by rw [← hkind]; exact hne)

/-- **`hrows`** from the structural facts (`TupleSetup`, EbTuples.lean) of every attribute of every controller.
    Named hypotheses that remain:
    * `hsetup` — for every controller output `c`, its decoder side, and every item of `c`: the `TupleSetup` of the
      item's attribute on the decoder's view / the encoder's view `c.view` with the sequences `side.1` / `c.seq` and the
      point map `side.2` (view isomorphism under `phi processed`, traversal runs, `PointsRefineVertices`,
      `ValuesRefineVertices`, validity: `tupleSetup_of_runs`);
    * `hbytes` — the value buffers of the input attributes consist of bytes. -/
theorem hrows_of_setups (ch : EbChoices) (g : Geometry) (md : Option GeometryMetadata) (o : EbOpts) (enc : Encoded)
    (henc : encodeEdgebreaker ch g md o = .ok enc) (mesh : Mesh) (sides : List (SeqOut × Array Nat))
    (hsides : enc.couts.size = sides.length)
    (hatt : ∀ a, a < g.atts.toArray.size → EbAttOK (g.atts.toArray[a]!) (o.base.att a))
    (hbytes : ∀ a ∈ g.atts, IsBytes a.values)
    (hsetup : ∀ c side it, (c, side) ∈ enc.couts.toList.zip sides → it ∈ c.items.toList →
      ∃ (dC : TView) (ψC : Nat → Nat) (np npD : Nat), dC.numFaces = mesh.numFaces ∧
        TupleSetup (g.atts.toArray[it.attId]!) np (flattenFaces g.faces).toArray mesh.faces npD dC c.view
          (phi enc.conn.processed) ψC side.1 c.seq side.2) :
    RowsCorr g (itemOfRun o g.atts.toArray enc.couts.toList sides) mesh.faces (flattenFaces g.faces).toArray
      mesh.numFaces (phi enc.conn.processed) := by
  intro j hj cr hcr
  obtain ⟨c, side, it, hz, hit, hid, _, hitem⟩ := itemOfRun_spec ch g md o enc henc sides hsides hatt j hj
  obtain ⟨dC, ψC, np, npD, hnF, hts⟩ := hsetup c side it hz hit
  obtain ⟨mdBytes, coder, posFaces, acv, cs, couts, h1, h2, h3, h4, h5, h6, h7, h8, h9, h10, _⟩ :=
    (encodeEdgebreaker_stages ch g md o enc henc).stages
  have hchain := encodeControllers_chain ch o g enc.conn cs _ _ _ _ _ h8
  have hord := rearrangeEncoders_order h7
  have hc : c ∈ couts := by
    have := (List.of_mem_zip hz).1
    rw [h10] at this
    simpa using this
  obtain ⟨e, p', hemem, hrun⟩ := chain_mem hchain c hc
  have helt : e < cs.size := hord.2.1 e (by simpa using hemem)
  obtain ⟨_, hkind, _, _⟩ := item_facts ch o g enc.conn cs _ _ e p' c h5 helt hrun it hit
  obtain ⟨rows, pt, s, hrows, hpo, hsid, hsk, hv0, hvp⟩ := item_stage_facts ch o g enc.conn cs _ _ e p' c hrun it hit
  have hget : g.atts.toArray[j]! = g.atts[j] := by simp [hj]
  have haj : g.atts.toArray[it.attId]! = g.atts[j] := by rw [hid, hget]
  rw [hitem]
  rw [haj] at hts hrows hpo hkind
  have hcr' : cr < 3 * dC.numFaces := by rw [hnF]; exact hcr
  have hok := hatt j (by simpa using hj)
  obtain ⟨c1, c2, c3⟩ := portableOf_cases hpo
  rcases encoderType_cases g.atts[j] (o.base.att it.attId) with h0 | ⟨hk1, hd1⟩ | ⟨hk2, hd9⟩ | ⟨hk3, hd9, _⟩
  · rw [← hkind] at h0
    exact row_of_item_kind0 hts hrows o _ it haj h0 (hv0 h0) _ cr hcr'
  · rw [← hkind] at hk1
    have hp := c1 (by rw [hsk]; exact hk1)
    rw [← hvp (by omega)] at hp
    exact row_of_item_kind1 hts hrows o _ it haj hk1 hp hd1 (hbytes _ (List.getElem_mem hj)) _ cr hcr'
  · rw [← hkind] at hk2
    obtain ⟨mins, range, q, hq, hport⟩ := c2 (by rw [hsk]; exact hk2)
    rw [← hvp (by omega)] at hport
    rw [hsid] at hq
    have hopt := hok.explicit
    rw [← hid] at hopt
    exact row_of_item_kind2 hts hrows o _ it haj hk2 mins range q hq hopt hport hd9 _ cr hcr'
  · rw [← hkind] at hk3
    obtain ⟨hnc3, ot, hot, hport⟩ := c3 (by rw [hsk]; exact hk3)
    rw [← hvp (by omega)] at hport
    rw [hsid] at hot
    have h256 : (o.base.att it.attId).quantBits.toNat < 256 := by
      unfold Octa.init at hot
      split at hot
      · cases hot
      · omega
    exact row_of_item_kind3 hts hrows o _ it haj hk3 ot hot h256 hport hd9 hnc3 _ cr hcr'

/-- **eb_roundtrip_conditional_partial4**: `eb_roundtrip_conditional_partial3` with the row correspondence resolved into
    the `TupleSetup` of every attribute (`hsetup`) and `hbytes` (`hrows_of_setups`) -/
theorem eb_roundtrip_conditional_partial4 (ch : EbChoices) (g : Geometry) (md : Option GeometryMetadata) (o : EbOpts)
    (enc : Encoded) (henc : encodeEdgebreaker ch g md o = .ok enc) (hmd : ∀ m, md = some m → m.WF')
    (mesh : Mesh) (sides : List (SeqOut × Array Nat)) (hsides : enc.couts.size = sides.length)
    (hconn : ∀ coder, traversalCoder o g.faces.length = some coder →
      Runs decodeConnectivity 514 ([coder] ++ enc.conn.bytes) mesh 514)
    (hnf : mesh.numFaces = enc.conn.processed.size)
    (hruns : ∀ c side, (c, side) ∈ enc.couts.toList.zip sides →
      SideRuns mesh (decOfController enc.conn (enc.controllers[c.ctrl]!)) side)
    (hmatts : mesh.atts.size = enc.conn.atts.size) (hnad : enc.conn.atts.size ≤ 128)
    (hnatt : g.atts.length < 2 ^ 32) (hnonpos : AttDataNonPos g.atts.toArray enc.conn)
    (plan : AttPlan) (hplan : plan = planOf o g.atts.toArray enc.conn enc.controllers enc.couts.toList sides)
    (hatt : ∀ a, a < g.atts.toArray.size → EbAttOK (g.atts.toArray[a]!) (o.base.att a))
    (hvals : ∀ (i k : Nat) (hi : i < plan.length) (hk : k < plan[i].items.length),
      ValuesOK mesh plan[i] (parentAt plan i k) plan[i].items[k])
    (huid : (g.atts.map (·.uniqueId)).Nodup)
    (hbytes : ∀ a ∈ g.atts, IsBytes a.values)
    (hsetup : ∀ c side it, (c, side) ∈ enc.couts.toList.zip sides → it ∈ c.items.toList →
      ∃ (dC : TView) (ψC : Nat → Nat) (np npD : Nat), dC.numFaces = mesh.numFaces ∧
        TupleSetup (g.atts.toArray[it.attId]!) np (flattenFaces g.faces).toArray mesh.faces npD dC c.view
          (phi enc.conn.processed) ψC side.1 c.seq side.2)
    (extra : Bytes) :
    ∃ st st',
      decodeGeometry {} { rest := enc.bytes ++ extra } = (some ⟨planGeometry {} mesh plan, md⟩, st) ∧ st.rest = extra ∧
      decodeGeometry { skip := allTypes } { rest := enc.bytes ++ extra } =
        (some ⟨planGeometry { skip := allTypes } mesh plan, md⟩, st') ∧ st'.rest = extra ∧
      Spec.checkCore .edgebreaker (quantReq g o.base) g (planGeometry {} mesh plan)
        (planGeometry { skip := allTypes } mesh plan) = true :=
  eb_roundtrip_conditional_partial3 ch g md o enc henc hmd mesh sides hsides hconn hnf hruns hmatts hnad hnatt hnonpos
    plan hplan hatt hvals huid (hrows_of_setups ch g md o enc henc mesh sides hsides hatt hbytes hsetup) extra

/-! ### the one-triangle example from `eb_roundtrip_conditional_partial3` (joint satisfiability of its hypotheses) -/

theorem mem_zipWith_of_mem_zip {α β γ : Type} (f : α → β → γ) : ∀ (as : List α) (bs : List β) (a : α) (b : β),
    (a, b) ∈ as.zip bs → f a b ∈ List.zipWith f as bs := by
  intro as
  induction as with
  | nil => intro bs a b h; simp at h
  | cons x as ih =>
    intro bs a b h
    cases bs with
    | nil => simp at h
    | cons y bs =>
      simp only [List.zip_cons_cons, List.mem_cons, Prod.mk.injEq] at h
      rcases h with ⟨rfl, rfl⟩ | h
      · simp
      · simp only [List.zipWith_cons_cons, List.mem_cons]
        exact Or.inr (ih bs a b h)

open ConnExample in
example (extra : Bytes) :
    ∃ st st',
      decodeGeometry {} { rest := exBytes ++ extra } = (some ⟨planGeometry {} exMesh exPlan, none⟩, st) ∧ st.rest = extra ∧
      decodeGeometry { skip := allTypes } { rest := exBytes ++ extra } =
        (some ⟨planGeometry { skip := allTypes } exMesh exPlan, none⟩, st') ∧ st'.rest = extra ∧
      Spec.checkCore .edgebreaker (quantReq exG exO.base) exG (planGeometry {} exMesh exPlan)
        (planGeometry { skip := allTypes } exMesh exPlan) = true := by
  have hruns : ∀ c side, (c, side) ∈ exEnc.couts.toList.zip exSides →
      SideRuns exMesh (decOfController exEnc.conn (exEnc.controllers[c.ctrl]!)) side := by
    intro c side hz
    have hm := mem_zipWith_of_mem_zip (decoderItemOf exO exG.atts.toArray exEnc.conn exEnc.controllers) _ _ c side hz
    have hp : List.zipWith (decoderItemOf exO exG.atts.toArray exEnc.conn exEnc.controllers) exEnc.couts.toList exSides =
        [ConnExample.exD] := exPlan_eq
    rw [hp, List.mem_singleton] at hm
    have e1 : decOfController exEnc.conn (exEnc.controllers[c.ctrl]!) = dec0 := congrArg DecoderItem.dec hm
    have e2 : side.1 = exSeqD := congrArg DecoderItem.seq hm
    have e3 : side.2 = exMapD := congrArg DecoderItem.map hm
    unfold SideRuns
    rw [e1, e2, e3]
    exact ⟨exSeqD_run, exMapD_run⟩
  have hrows : RowsCorr exG (itemOfRun exO exG.atts.toArray exEnc.couts.toList exSides) exMesh.faces
      (flattenFaces exG.faces).toArray exMesh.numFaces (phi exEnc.conn.processed) := by
    unfold RowsCorr
    decide +kernel
  have h := eb_roundtrip_conditional_partial3 exCh exG none exO exEnc exEncode (fun m h => by cases h) exMesh exSides
    exHsides exHconn exHnf hruns (by decide +kernel) (by decide +kernel) (by decide +kernel)
    (by intro k hk
        have h0 : exEnc.conn.atts.size = 0 := by decide +kernel
        omega) exPlan rfl exHatt exHvals exHuid hrows extra
  rw [exEnc_bytes] at h
  exact h

end Final2

end Draco.EbEnc
