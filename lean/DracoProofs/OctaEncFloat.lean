import DracoProofs.OctaAngle
import DracoProofs.QuantFloat
/-
  C07, float half of the ENCODER: `FloatVectorToQuantizedOctahedralCoords` (all `double`) under the
  standard rounding model `DoubleModel ops u` (DracoProofs.OctaFloat; binary64: `u = 2^-53`).

  * `float_round_close`   the rounded coordinates are within `1/2 + 8·c·u` of the exactly scaled
                          ones (they equal `⌊· + 1/2⌋` of the exact value unless that value is
                          within `8·c·u` of a rounding boundary, where they may differ by one grid
                          step), and the sign test of the third coordinate is exact;
  * `grid_distance_eps`   the integer vector built from such coordinates (repair branch included)
                          is within `(1/2 + ε, 1/2 + ε, 1 + 2ε)` of the scaled projection;
  * `floatVecRoundG_zero` an all-zero input is quantized like `(1, 0, 0)`.
-/
namespace Draco
namespace Octa

/-- `grid_distance` with a rounding slack `ε < 1/2` -/
theorem grid_distance_eps (t : OctaT) (i0 i1 : Int) (A B Z ε : ℚ) (zNeg : Bool) (hε0 : 0 ≤ ε)
    (hε : ε < 1/2)
    (hA : |A - i0| ≤ 1/2 + ε) (hB : |B - i1| ≤ 1/2 + ε) (hsum : |A| + |B| + |Z| = t.center)
    (hz : zNeg = true ↔ Z < 0) :
    let v := fixIntVec t i0 i1 zNeg
    |A - v.1| ≤ 1/2 + ε ∧ |B - v.2.1| ≤ 1/2 + ε ∧ |Z - v.2.2| ≤ 1 + 2 * ε := by
  intro v
  obtain ⟨h1, hc⟩ := fixIntVec_cases t i0 i1 zNeg
  obtain ⟨a1, a2⟩ := abs_le.mp hA
  obtain ⟨b1, b2⟩ := abs_le.mp hB
  have hi0 := iabs_cast i0
  have hi1 := iabs_cast i1
  have ra := abs_abs_sub_abs_le_abs_sub A (i0:ℚ)
  have rb := abs_abs_sub_abs_le_abs_sub B (i1:ℚ)
  obtain ⟨ra1, ra2⟩ := abs_le.mp (le_trans ra hA)
  obtain ⟨rb1, rb2⟩ := abs_le.mp (le_trans rb hB)
  refine ⟨by rw [show v.1 = i0 from h1]; exact hA, ?_⟩
  rcases hc with ⟨h2, hv2, hv3⟩ | ⟨h2, hv3, hv2⟩
  · refine ⟨by rw [show v.2.1 = i1 from hv2]; exact hB, ?_⟩
    rw [show v.2.2 = _ from hv3]
    cases zNeg with
    | true =>
      have hZ : Z < 0 := hz.mp rfl
      simp only [if_true]
      push_cast
      rw [hi0, hi1, abs_le]
      rw [abs_of_neg hZ] at hsum
      constructor <;> linarith
    | false =>
      have hZ : 0 ≤ Z := by
        by_contra h; exact Bool.false_ne_true (hz.mpr (not_le.mp h))
      simp only [Bool.false_eq_true, if_false]
      push_cast
      rw [hi0, hi1, abs_le]
      rw [abs_of_nonneg hZ] at hsum
      constructor <;> linarith
  · have hZ0 := abs_nonneg Z
    have hA0 := abs_nonneg A
    have hB0 := abs_nonneg B
    have hle : iabs i0 + iabs i1 < t.center + 2 := by
      have : ((iabs i0 + iabs i1 : Int) : ℚ) < ((t.center + 2 : Int) : ℚ) := by
        push_cast; rw [hi0, hi1]; linarith
      exact_mod_cast this
    have heq : iabs i0 + iabs i1 = t.center + 1 := by omega
    have heq' : |(i0:ℚ)| + |(i1:ℚ)| = (t.center : ℚ) + 1 := by
      rw [← hi0, ← hi1]; exact_mod_cast heq
    have hi2 : t.center - iabs i0 - iabs i1 = -1 := by omega
    rw [show v.2.2 = 0 from hv3, show v.2.1 = _ from hv2, hi2]
    refine ⟨?_, by push_cast; rw [sub_zero]; linarith⟩
    by_cases hp : i1 > 0
    · simp only [hp, if_true]
      have hpq : (0:ℚ) < i1 := by exact_mod_cast hp
      have hpq1 : (1:ℚ) ≤ i1 := by exact_mod_cast hp
      rw [abs_of_pos hpq] at heq' rb1 rb2
      have hBpos : 0 ≤ B := by linarith
      rw [abs_of_nonneg hBpos] at hsum rb1 rb2
      push_cast
      rw [abs_le]; constructor <;> linarith
    · simp only [hp, if_false]
      have hpq : (i1:ℚ) ≤ 0 := by exact_mod_cast (not_lt.mp hp)
      rw [abs_of_nonpos hpq] at heq' rb1 rb2
      have hnB := neg_abs_le B
      have hBle := le_abs_self B
      push_cast
      rw [abs_le]; constructor <;> linarith

open Quant in
/-- the value handed to `floor`: `((x·(1/Ã)(1+δ3))(1+δ4)·c(1+δ5) + 1/2)(1+δ6)` with
    `Ã = S·σ`, `|σ − 1| ≤ 2.02u` is within `8cu` of `x/S·c + 1/2` -/
theorem round_value_close {x S σ c u δ3 δ4 δ5 δ6 : ℚ} (hu0 : 0 ≤ u) (hu : u ≤ 1/1024)
    (hS : 0 < S) (hx : |x| ≤ S) (hc : 1 ≤ c) (hσ : |σ - 1| ≤ (202/100) * u)
    (h3 : |δ3| ≤ u) (h4 : |δ4| ≤ u) (h5 : |δ5| ≤ u) (h6 : |δ6| ≤ u) :
    |(x * (1 / (S * σ) * (1 + δ3)) * (1 + δ4) * c * (1 + δ5) + 1/2) * (1 + δ6)
        - (x / S * c + 1/2)| ≤ 8 * c * u := by
  have hσpos : 0 < σ := by have := (abs_le.mp hσ).1; linarith
  have hσinv : |1 / σ - 1| ≤ (203/100) * u := by
    have e : 1 / σ - 1 = -(σ - 1) / σ := by field_simp; ring
    rw [e, abs_div, abs_neg, abs_of_pos hσpos, div_le_iff₀ hσpos]
    have : (1 - (202/100) * u) ≤ σ := by have := (abs_le.mp hσ).1; linarith
    have hq : u * u ≤ u * (1/1024) := mul_le_mul_of_nonneg_left hu hu0
    nlinarith
  have s1 := step_c hu0 hu (by norm_num) hσinv h3
  have s2 := step_c hu0 hu (by norm_num) s1 h4
  have s3 := step_c hu0 hu (by norm_num) s2 h5
  set ρ : ℚ := 1 / σ * (1 + δ3) * (1 + δ4) * (1 + δ5) with hρ
  have hρb : |ρ - 1| ≤ (51/10) * u := by norm_num at s3 ⊢; linarith
  set A : ℚ := x / S * c with hA
  have hAb : |A| ≤ c := by
    rw [hA, abs_mul, abs_div, abs_of_pos hS, abs_of_pos (by linarith : (0:ℚ) < c)]
    have : |x| / S ≤ 1 := by rw [div_le_one hS]; exact hx
    nlinarith
  have eT : x * (1 / (S * σ) * (1 + δ3)) * (1 + δ4) * c * (1 + δ5) = A * ρ := by
    rw [hA, hρ]
    have : σ ≠ 0 := ne_of_gt hσpos
    have : S ≠ 0 := ne_of_gt hS
    field_simp
  rw [eT]
  have k1 : |A * (ρ - 1)| ≤ c * ((51/10) * u) := by
    rw [abs_mul]; exact mul_le_mul hAb hρb (abs_nonneg _) (by linarith)
  have hAρ : |A * ρ + 1/2| ≤ 2 * c := by
    have : A * ρ + 1/2 = A + A * (ρ - 1) + 1/2 := by ring
    obtain ⟨p1, p2⟩ := abs_le.mp k1
    obtain ⟨q1, q2⟩ := abs_le.mp hAb
    have hcu : c * ((51/10) * u) ≤ c * (1/100) := mul_le_mul_of_nonneg_left (by linarith) (by linarith)
    rw [this, abs_le]; constructor <;> linarith
  have k2 : |(A * ρ + 1/2) * δ6| ≤ 2 * c * u := by
    rw [abs_mul]; exact mul_le_mul hAρ h6 (abs_nonneg _) (by linarith)
  have e : (A * ρ + 1/2) * (1 + δ6) - (A + 1/2) = A * (ρ - 1) + (A * ρ + 1/2) * δ6 := by ring
  rw [e]
  obtain ⟨p1, p2⟩ := abs_le.mp k1
  obtain ⟨q1, q2⟩ := abs_le.mp k2
  rw [abs_le]; constructor <;> nlinarith

theorem floor_close {v a η : ℚ} (h : |v - (a + 1/2)| ≤ η) : |a - (⌊v⌋ : Int)| ≤ 1/2 + η := by
  obtain ⟨h1, h2⟩ := abs_le.mp h
  have f1 := Int.floor_le v
  have f2 := Int.lt_floor_add_one v
  rw [abs_le]; constructor <;> linarith

section enc
variable (ops : DoubleOps ℚ) {u : ℚ} (hm : DoubleModel ops u)
include hm

open Quant in
/-- **Encoder, any rounding oracle**: for a non-zero input the two rounded coordinates are
    within `1/2 + 8cu` of the exactly scaled coordinates `x/S·c`, `y/S·c` (`S = |x|+|y|+|z|`),
    and the sign test is exact. -/
theorem float_round_close (hu0 : 0 ≤ u) (hu : u ≤ 1/1024) (c : Int) (hc : 1 ≤ c) (x y z : ℚ)
    (hS : 0 < |x| + |y| + |z|) :
    let r := @floatVecRoundG ℚ ops c x y z
    |x / (|x| + |y| + |z|) * c - r.1| ≤ 1/2 + 8 * c * u ∧
    |y / (|x| + |y| + |z|) * c - r.2.1| ≤ 1/2 + 8 * c * u ∧
    (r.2.2 = true ↔ z / (|x| + |y| + |z|) * c < 0) := by
  intro r
  have hcq : (1:ℚ) ≤ c := by exact_mod_cast hc
  set S := |x| + |y| + |z| with hSdef
  obtain ⟨δ1, h1, e1⟩ := hm.add |x| |y|
  obtain ⟨δ2, h2, e2⟩ := hm.add (ops.add |x| |y|) |z|
  -- Ã = S σ
  have hxa := abs_nonneg x
  have hya := abs_nonneg y
  have hza := abs_nonneg z
  obtain ⟨σ, hσdef⟩ : ∃ σ : ℚ, σ = ops.add (ops.add |x| |y|) |z| / S := ⟨_, rfl⟩
  have hÃ : ops.add (ops.add |x| |y|) |z| = S * σ := by
    rw [hσdef]; field_simp
  have hσ : |σ - 1| ≤ (202/100) * u := by
    have one1 : |(1 + δ1) - 1| ≤ 1 * u := by simpa using h1
    have one2 : |(1 + δ2) - 1| ≤ 1 * u := by simpa using h2
    have p := step_c hu0 hu (by norm_num) one1 h2
    have p' : |(1 + δ1) * (1 + δ2) - 1| ≤ (202/100) * u := by norm_num at p ⊢; linarith
    have q' : |(1 + δ2) - 1| ≤ (202/100) * u := by
      refine le_trans one2 ?_; linarith
    obtain ⟨p1, p2⟩ := abs_le.mp p'
    obtain ⟨q1, q2⟩ := abs_le.mp q'
    have eÃ : ops.add (ops.add |x| |y|) |z| - S
        = (|x| + |y|) * ((1 + δ1) * (1 + δ2) - 1) + |z| * ((1 + δ2) - 1) := by
      rw [e2, e1, hSdef]; ring
    have e : σ - 1 = ((|x| + |y|) * ((1 + δ1) * (1 + δ2) - 1) + |z| * ((1 + δ2) - 1)) / S := by
      rw [← eÃ, hσdef]; field_simp
    rw [e, abs_div, abs_of_pos hS, div_le_iff₀ hS, abs_le]
    have hxy : 0 ≤ |x| + |y| := by linarith
    constructor <;> nlinarith
  have hσpos : 0 < σ := by have := (abs_le.mp hσ).1; linarith
  have hÃpos : (0:ℚ) < ops.add (ops.add |x| |y|) |z| := by rw [hÃ]; exact mul_pos hS hσpos
  have hÃne : ops.add (ops.add |x| |y|) |z| ≠ 0 := ne_of_gt hÃpos
  obtain ⟨δ3, h3, e3⟩ := hm.div 1 (ops.add (ops.add |x| |y|) |z|) hÃne
  have hr : r = @floatVecRoundG ℚ ops c x y z := rfl
  unfold floatVecRoundG at hr
  simp only [hm.abs, hm.zero, hm.one, hm.lt, hÃpos, decide_true, if_true] at hr
  have key : ∀ w : ℚ, |w| ≤ S →
      |w / S * c - (ops.floorToInt (ops.add (ops.mul (ops.mul w (ops.div 1 (ops.add (ops.add |x| |y|) |z|)))
          (ops.ofInt c)) ops.half) : Int)| ≤ 1/2 + 8 * c * u := by
    intro w hw
    obtain ⟨δ4, h4, e4⟩ := hm.mul w (ops.div 1 (ops.add (ops.add |x| |y|) |z|))
    obtain ⟨δ5, h5, e5⟩ := hm.mul (ops.mul w (ops.div 1 (ops.add (ops.add |x| |y|) |z|))) (ops.ofInt c)
    obtain ⟨δ6, h6, e6⟩ := hm.add (ops.mul (ops.mul w (ops.div 1 (ops.add (ops.add |x| |y|) |z|)))
      (ops.ofInt c)) ops.half
    rw [hm.floor, e6, e5, e4, e3, hm.ofInt, hm.half, hÃ]
    apply floor_close
    have := round_value_close (x := w) (S := S) (σ := σ) (c := (c:ℚ)) hu0 hu hS hw hcq hσ h3 h4 h5 h6
    convert this using 2
  have hxS : |x| ≤ S := by rw [hSdef]; linarith
  have hyS : |y| ≤ S := by rw [hSdef]; linarith
  rw [hr]
  refine ⟨key x hxS, key y hyS, ?_⟩
  simp only [hm.ofInt, Int.cast_zero, decide_eq_true_eq]
  obtain ⟨δ4, h4, e4⟩ := hm.mul z (ops.div 1 (ops.add (ops.add |x| |y|) |z|))
  rw [e4, e3, hÃ]
  have p3 := one_add_pos hu h3
  have p4 := one_add_pos hu h4
  have hpos : 0 < 1 / (S * σ) * (1 + δ3) * (1 + δ4) :=
    mul_pos (mul_pos (one_div_pos.mpr (mul_pos hS hσpos)) (by linarith)) (by linarith)
  have hcpos : (0:ℚ) < c := by linarith
  have e : z * (1 / (S * σ) * (1 + δ3)) * (1 + δ4) = z * (1 / (S * σ) * (1 + δ3) * (1 + δ4)) := by ring
  rw [e]
  constructor
  · intro h
    have hz : z < 0 := by
      by_contra hn
      have := mul_nonneg (not_lt.mp hn) hpos.le
      linarith
    exact mul_neg_of_neg_of_pos (div_neg_of_neg_of_pos hz hS) hcpos
  · intro h
    have hz : z < 0 := by
      by_contra hn
      have := mul_nonneg (div_nonneg (not_lt.mp hn) hS.le) hcpos.le
      linarith
    exact mul_neg_of_neg_of_pos hz hpos

/-- the `abs_sum > 0` guard (fix b048a3b): an all-zero vector is quantized like `(1, 0, 0)` -/
theorem floatVecRoundG_zero (hu0 : 0 ≤ u) (hu : u ≤ 1/1024) (c : Int) (hc : 1 ≤ c)
    (hcu : (c:ℚ) * u ≤ 1/16) :
    @floatVecRoundG ℚ ops c 0 0 0 = (c, 0, false) := by
  have hcq : (1:ℚ) ≤ c := by exact_mod_cast hc
  obtain ⟨δ1, h1, e1⟩ := hm.add |0| |0|
  obtain ⟨δ2, h2, e2⟩ := hm.add (ops.add |0| |0|) |0|
  have hz : ops.add (ops.add |(0:ℚ)| |0|) |0| = 0 := by rw [e2, e1]; simp
  unfold floatVecRoundG
  simp only [hm.abs, hm.zero, hm.one, hm.lt, hz, lt_irrefl, decide_false, Bool.false_eq_true,
    if_false, hm.ofInt, Int.cast_zero]
  obtain ⟨δ5, h5, e5⟩ := hm.mul 1 (c:ℚ)
  obtain ⟨δ6, h6, e6⟩ := hm.add (ops.mul 1 (c:ℚ)) ops.half
  obtain ⟨δ7, h7, e7⟩ := hm.mul 0 (c:ℚ)
  obtain ⟨δ8, h8, e8⟩ := hm.add (ops.mul 0 (c:ℚ)) ops.half
  have hq : u * u ≤ u * (1/1024) := mul_le_mul_of_nonneg_left hu hu0
  obtain ⟨a51, a52⟩ := abs_le.mp h5
  obtain ⟨a61, a62⟩ := abs_le.mp h6
  obtain ⟨a81, a82⟩ := abs_le.mp h8
  have f1 : ops.floorToInt (ops.add (ops.mul 1 (c:ℚ)) ops.half) = c := by
    rw [hm.floor, e6, e5, hm.half, Int.floor_eq_iff]
    have k5 : |(c:ℚ) * δ5| ≤ (c:ℚ) * u := by
      rw [abs_mul, abs_of_pos (by linarith : (0:ℚ) < c)]
      exact mul_le_mul_of_nonneg_left h5 (by linarith)
    obtain ⟨k51, k52⟩ := abs_le.mp k5
    have hb : |(1 * (c:ℚ) * (1 + δ5) + 1/2)| ≤ (c:ℚ) + 1 := by
      rw [abs_le]; constructor <;> nlinarith
    have k6 : |(1 * (c:ℚ) * (1 + δ5) + 1/2) * δ6| ≤ ((c:ℚ) + 1) * u := by
      rw [abs_mul]; exact mul_le_mul hb h6 (abs_nonneg _) (by linarith)
    obtain ⟨k61, k62⟩ := abs_le.mp k6
    constructor <;> nlinarith
  have f2 : ops.floorToInt (ops.add (ops.mul 0 (c:ℚ)) ops.half) = 0 := by
    rw [hm.floor, e8, e7, hm.half, Int.floor_eq_iff]
    constructor
    · simp only [zero_mul, Int.cast_zero, zero_add]
      have : (0:ℚ) ≤ 1/2 * (1 + δ8) := by nlinarith
      linarith
    · simp only [zero_mul, Int.cast_zero, zero_add]
      nlinarith
  rw [f1, f2]

end enc

end Octa
end Draco
