import DracoProofs.Dedup
import DracoProofs.Builders
import DracoProofs.BuildersSpec
import DracoModel.C14Verify
/-
  The array-based observation functions of DracoModel/C14Verify.lean are the model's
  `Geometry.pointTuple` / `describes`.
-/
namespace Draco
namespace C14

theorem tupleOf_table (g : Geometry) (p : Nat) : tupleOf (tupleTable g) p = g.pointTuple p := by
  unfold tupleOf tupleTable Geometry.pointTuple
  rw [List.map_map]
  apply List.map_congr_left
  intro a _
  simp only [Function.comp, Attribute.pointValue, idxOf_mapArray]
  simp only [Array.getD, List.getD, List.size_toArray]
  split
  · rename_i h
    rw [List.getElem?_eq_getElem h]; rfl
  · rename_i h
    rw [List.getElem?_eq_none (Nat.le_of_not_lt h)]; rfl

theorem pointTuplesA_eq (g : Geometry) : pointTuplesA g = (List.range g.numPoints).map g.pointTuple := by
  unfold pointTuplesA
  apply List.map_congr_left
  intro p _
  exact tupleOf_table g p

theorem trianglesOfA_eq (g : Geometry) (faces : List Face) : trianglesOfA g faces = faces.map (triangleOfB g) := by
  unfold trianglesOfA triangleOfB
  apply List.map_congr_left
  intro f _
  simp only [tupleOf_table]

theorem describesA_eq (g : Geometry) : describesA g = describes g := by
  unfold describesA describes
  split
  · rw [trianglesOfA_eq]
    unfold Geometry.triangles triangleOfB
    apply List.map_congr_left
    intro f _
    rfl
  · rw [pointTuplesA_eq, List.map_map]
    rfl

/-! ### Boolean reflection of the naive checkers -/

theorem nodupB_iff {α : Type} [BEq α] [LawfulBEq α] (l : List α) : nodupB l = true ↔ l.Nodup := by
  induction l with
  | nil => simp [nodupB]
  | cons x xs ih =>
    simp only [nodupB, Bool.and_eq_true, Bool.not_eq_true', List.nodup_cons, ih]
    constructor
    · rintro ⟨h1, h2⟩
      refine ⟨?_, h2⟩
      intro hm
      rw [List.contains_iff_mem.mpr hm] at h1
      cases h1
    · rintro ⟨h1, h2⟩
      refine ⟨?_, h2⟩
      cases hc : xs.contains x
      · rfl
      · exact absurd (List.contains_iff_mem.mp hc) h1

/-- `isPerm` of a list with itself needs only reflexivity of `==` -/
theorem isPerm_self {α : Type} [BEq α] (hr : ∀ a : α, (a == a) = true) (l : List α) : l.isPerm l = true := by
  induction l with
  | nil => rfl
  | cons a l ih =>
    simp only [List.isPerm, List.contains, List.elem, hr, Bool.true_and]
    have : (a :: l).erase a = l := by simp [List.erase, hr]
    rw [this]
    exact ih

theorem triRotB_refl (t : List (List Bytes)) : triRotB t t = true := by
  simp [triRotB]

theorem sameTriangles_refl (l : List (List (List Bytes))) : sameTriangles l l = true := by
  simp [sameTriangles, eqMultiset, eqMultisetSlow]

theorem sameSet_of_mem_iff {α : Type} [BEq α] [LawfulBEq α] {l1 l2 : List α} (h : ∀ x, x ∈ l1 ↔ x ∈ l2) :
    sameSet l1 l2 = true := by
  simp only [sameSet, Bool.and_eq_true, List.all_eq_true, List.contains_iff_mem]
  exact ⟨fun x hx => (h x).mp hx, fun x hx => (h x).mpr hx⟩

/-- all clauses of a flag list hold -/
def Flags.allTrue (f : Flags) : Prop := ∀ c ∈ f, c.2 = true

/-! ### attribute descriptors -/

/-- what `sameShape` compares -/
def desc (a : Attribute) : Nat × Nat × Nat × Bool × Nat :=
  (a.attType, a.dataType, a.numComponents, a.normalized, a.uniqueId)

theorem sameShape_of_desc {g g' : Geometry} (h : g'.atts.map desc = g.atts.map desc) : sameShape g g' = true := by
  have hl : g'.atts.length = g.atts.length := by simpa using congrArg List.length h
  unfold sameShape
  simp only [Bool.and_eq_true, beq_iff_eq, List.all_eq_true]
  refine ⟨hl, ?_⟩
  intro ⟨a', a⟩ hm
  obtain ⟨i, hi, he⟩ := List.getElem_of_mem hm
  simp only [List.getElem_zip, Prod.mk.injEq] at he
  simp only [List.length_zip] at hi
  have h1 : i < g'.atts.length := by omega
  have h2 : i < g.atts.length := by omega
  have hd : desc g'.atts[i] = desc g.atts[i] := by
    have := congrArg (fun l => l[i]?) h
    simpa [h1, h2] using this
  rw [← he.1, ← he.2]
  simp only [desc, Prod.mk.injEq] at hd
  simp [hd.1, hd.2.1, hd.2.2.1, hd.2.2.2.1, hd.2.2.2.2]

theorem dedupSupported_of_desc {a a' : Attribute} (h : desc a' = desc a) : a'.dedupSupported = a.dedupSupported := by
  simp only [desc, Prod.mk.injEq] at h
  simp [Attribute.dedupSupported, h.2.1, h.2.2.1]

theorem attDedupValues_desc (np : Nat) (a : Attribute) : desc (a.dedupValues np) = desc a := by
  rcases Attribute.dedupValues_cases np a with h | ⟨_, _, h⟩ <;> rw [h]
  rfl

theorem geomDedupValues_desc (g : Geometry) : g.dedupValues.atts.map desc = g.atts.map desc := by
  unfold Geometry.dedupValues
  split
  · rfl
  · simp only [List.map_map]
    apply List.map_congr_left
    intro a _
    exact attDedupValues_desc _ a

/-! ### the verifier accepts what the model of the deduplications returns -/

theorem sameDescription_of_eq {g g' : Geometry} (hm : g'.isMesh = g.isMesh) (hd : describes g' = describes g) :
    sameDescription g g' = true := by
  unfold sameDescription
  rw [describesA_eq, describesA_eq, hd, hm]
  simp only [beq_self_eq_true, Bool.true_and]
  split
  · exact sameTriangles_refl _
  · exact isPerm_self (fun a => by simp) _

theorem noDupValuesSupported_of {g' : Geometry} (h : ∀ a ∈ g'.atts, a.dedupSupported = true → a.entries.Nodup) :
    noDupValuesSupported g' = true := by
  unfold noDupValuesSupported
  rw [List.all_eq_true]
  intro a ha
  cases hs : a.dedupSupported
  · rfl
  · simpa using (nodupB_iff _).2 (h a ha hs)

theorem demandedDedupValues_model (g : Geometry) (hv : g.valid = true)
    (hnd : g.numPoints ≠ 0 → ∀ a ∈ g.dedupValues.atts, a.dedupSupported = true → a.entries.Nodup) :
    (demandedDedupValues g g.dedupValues).allTrue := by
  have hdesc : describes g.dedupValues = describes g := by
    unfold describes
    rw [g.dedupValues_isMesh]
    split
    · exact Geometry.dedupValues_triangles hv
    · exact Geometry.dedupValues_points hv
  intro c hc
  simp only [demandedDedupValues, List.mem_cons, List.not_mem_nil, or_false] at hc
  rcases hc with rfl | rfl | rfl
  · simp [Geometry.dedupValues_valid hv, sameShape_of_desc (geomDedupValues_desc g)]
  · exact sameDescription_of_eq g.dedupValues_isMesh hdesc
  · by_cases hn : g.numPoints = 0
    · simp [hn]
    · simp [noDupValuesSupported_of (hnd hn)]

theorem geomDedupPointIds_desc (g : Geometry) : g.dedupPointIds.atts.map desc = g.atts.map desc := by
  rcases g.dedupPointIds_cases with ⟨_, hc⟩ | ⟨_, hc⟩
  · rw [hc]
  · rw [hc]
    unfold Geometry.dedupPointsChanged
    simp only [List.map_map]
    exact map_zipIdx_fst g.atts _ desc (fun _ _ => rfl) 0

theorem dedupPointIds_numPoints_le (g : Geometry) : g.dedupPointIds.numPoints ≤ g.numPoints := by
  rcases g.dedupPointIds_cases with ⟨_, hc⟩ | ⟨_, hc⟩
  · rw [hc]; exact Nat.le_refl _
  · rw [hc]
    have := dedupAux_length_le [] g.pointKeys
    rw [Geometry.pointKeys_length] at this
    simpa [Geometry.dedupPointsChanged] using this

theorem dedupPointIds_points_mem (g : Geometry) (t : List (List Bytes)) :
    t ∈ g.dedupPointIds.points ↔ t ∈ g.points := by
  simp only [Geometry.points, List.mem_map, List.mem_range]
  constructor
  · rintro ⟨q, hq, rfl⟩
    obtain ⟨p, hp, rfl⟩ := g.pointIdMap_surj hq
    exact ⟨p, hp, by rw [g.dedupPointIds_pointTuple hp]⟩
  · rintro ⟨p, hp, rfl⟩
    exact ⟨g.pointIdMap p, g.pointIdMap_lt hp, by rw [g.dedupPointIds_pointTuple hp]⟩

theorem sameDescriptionUpTo_dedupPointIds (g : Geometry) (hv : g.valid = true) :
    sameDescriptionUpToDuplicatePoints g g.dedupPointIds = true := by
  unfold sameDescriptionUpToDuplicatePoints
  rw [describesA_eq, describesA_eq, g.dedupPointIds_isMesh]
  simp only [beq_self_eq_true, Bool.true_and]
  unfold describes
  rw [g.dedupPointIds_isMesh]
  split
  · rw [Geometry.dedupPointIds_triangles hv]
    exact sameTriangles_refl _
  · simp only [Bool.and_eq_true, decide_eq_true_eq]
    exact ⟨sameSet_of_mem_iff (dedupPointIds_points_mem g), dedupPointIds_numPoints_le g⟩

theorem noDupKeys_dedupPointIds (g : Geometry) : noDupKeys g.dedupPointIds = true :=
  (nodupB_iff _).2 g.dedupPointIds_nodup

theorem verifyDedupPointIds_model (g : Geometry) (hv : g.valid = true) :
    (verifyDedupPointIds g g.dedupPointIds).allTrue := by
  intro c hc
  simp only [verifyDedupPointIds, List.mem_cons, List.not_mem_nil, or_false] at hc
  rcases hc with rfl | rfl | rfl
  · simp [Geometry.dedupPointIds_valid hv, sameShape_of_desc (geomDedupPointIds_desc g)]
  · exact sameDescriptionUpTo_dedupPointIds g hv
  · exact noDupKeys_dedupPointIds g

/-- corresponding attributes of two lists with the same descriptors and the same entries -/
theorem att_transfer {l l' : List Attribute} (hd : l'.map desc = l.map desc)
    (he : l'.map Attribute.entries = l.map Attribute.entries) {a' : Attribute} (ha : a' ∈ l') :
    ∃ a ∈ l, desc a' = desc a ∧ a'.entries = a.entries := by
  obtain ⟨i, hi, rfl⟩ := List.getElem_of_mem ha
  have hl : l'.length = l.length := by simpa using congrArg List.length hd
  have hi2 : i < l.length := by omega
  refine ⟨l[i], List.getElem_mem hi2, ?_, ?_⟩
  · have := congrArg (fun x => x[i]?) hd
    simpa [hi, hi2] using this
  · have := congrArg (fun x => x[i]?) he
    simpa [hi, hi2] using this

theorem demandedDedupBoth_model (g : Geometry) (hv : g.valid = true)
    (hnd : g.numPoints ≠ 0 → ∀ a ∈ g.dedupValues.atts, a.dedupSupported = true → a.entries.Nodup) :
    (demandedDedupBoth g g.dedupValues.dedupPointIds).allTrue := by
  have hv1 := Geometry.dedupValues_valid hv
  have hdesc : g.dedupValues.dedupPointIds.atts.map desc = g.atts.map desc := by
    rw [geomDedupPointIds_desc, geomDedupValues_desc]
  have hent := g.dedupValues.dedupPointIds_entries
  have hdesc1 := geomDedupPointIds_desc g.dedupValues
  intro c hc
  simp only [demandedDedupBoth, List.mem_cons, List.not_mem_nil, or_false] at hc
  rcases hc with rfl | rfl | rfl | rfl | rfl
  · simp [Geometry.dedupPointIds_valid hv1, sameShape_of_desc hdesc]
  · -- describes
    have h1 := sameDescriptionUpTo_dedupPointIds g.dedupValues hv1
    unfold sameDescriptionUpToDuplicatePoints at h1 ⊢
    simp only [describesA_eq] at h1 ⊢
    have hd : describes g.dedupValues = describes g := by
      unfold describes
      rw [g.dedupValues_isMesh]
      split
      · exact Geometry.dedupValues_triangles hv
      · exact Geometry.dedupValues_points hv
    rw [hd, g.dedupValues_isMesh, g.dedupValues_numPoints] at h1
    exact h1
  · by_cases hn : g.numPoints = 0
    · simp [hn]
    · have : noDupValuesSupported g.dedupValues.dedupPointIds = true := by
        apply noDupValuesSupported_of
        intro a' ha' hs'
        obtain ⟨a, ha, hd, he⟩ := att_transfer hdesc1 hent ha'
        rw [he]
        exact hnd hn a ha (by rw [← dedupSupported_of_desc hd]; exact hs')
      simp [this]
  · exact noDupKeys_dedupPointIds _
  · by_cases hn : g.numPoints = 0
    · simp [hn]
    · cases hs : allSupported g.dedupValues.dedupPointIds
      · simp
      · have hall : ∀ a ∈ g.dedupValues.atts, a.entries.Nodup := by
          intro a ha
          obtain ⟨i, hi, rfl⟩ := List.getElem_of_mem ha
          have hl : g.dedupValues.dedupPointIds.atts.length = g.dedupValues.atts.length := by
            simpa using congrArg List.length hdesc1
          have hi' : i < g.dedupValues.dedupPointIds.atts.length := by omega
          have hd : desc g.dedupValues.dedupPointIds.atts[i] = desc g.dedupValues.atts[i] := by
            have := congrArg (fun x => x[i]?) hdesc1
            simpa [hi, hi'] using this
          apply hnd hn _ (List.getElem_mem hi)
          rw [← dedupSupported_of_desc hd]
          unfold allSupported at hs
          rw [List.all_eq_true] at hs
          exact hs _ (List.getElem_mem hi')
        have := Geometry.pointTuples_nodup (Geometry.dedupPointIds_valid hv1)
          (g.dedupValues.dedupPointIds_entries_nodup hall) g.dedupValues.dedupPointIds_nodup
        have h2 : noDupTuples g.dedupValues.dedupPointIds = true := by
          unfold noDupTuples
          rw [pointTuplesA_eq]
          exact (nodupB_iff _).2 this
        simp [h2]

/-! ### … and what the model of the builders returns -/

theorem demandedBuildMesh_model (s : MeshSpec) (hw : s.wellFormed = true)
    (hnd : s.soup.numPoints ≠ 0 → ∀ a ∈ s.soup.dedupValues.atts, a.dedupSupported = true → a.entries.Nodup) :
    (demandedBuildMesh s (buildMesh s)).allTrue := by
  have hv := s.soup_valid hw
  have h := demandedDedupBoth_model s.soup hv hnd
  obtain ⟨b1, b2, b3⟩ := buildMesh_triangles s hv
  have hnp : s.soup.numPoints = 3 * s.numFaces := rfl
  have hlen : (buildMesh s).atts.length = s.atts.length := by
    have : (buildMesh s).atts.map desc = s.soup.atts.map desc := by
      unfold buildMesh
      rw [geomDedupPointIds_desc, geomDedupValues_desc]
    have := congrArg List.length this
    simpa [MeshSpec.soup_atts] using this
  intro c hc
  simp only [demandedBuildMesh, List.mem_cons, List.not_mem_nil, or_false] at hc
  rcases hc with rfl | rfl | rfl | rfl | rfl
  · simp [b1, b2, hlen]
  · show sameTriangles (describesA (buildMesh s)) s.triangles = true
    rw [describesA_eq]
    unfold describes
    rw [b2, if_pos rfl, b3, s.soup_triangles hw]
    exact sameTriangles_refl _
  · have := h ("no-duplicate-values",
      (s.soup.numPoints == 0 || noDupValuesSupported s.soup.dedupValues.dedupPointIds)) (by simp [demandedDedupBoth])
    by_cases hn : s.numFaces = 0
    · simp [hn]
    · have hn' : ¬ (3 * s.numFaces = 0) := by omega
      simpa [hnp, hn, hn', buildMesh] using this
  · exact noDupKeys_dedupPointIds _
  · have := h ("no-identical-points",
      (s.soup.numPoints == 0 || !allSupported s.soup.dedupValues.dedupPointIds ||
        noDupTuples s.soup.dedupValues.dedupPointIds)) (by simp [demandedDedupBoth])
    by_cases hn : s.numFaces = 0
    · simp [hn]
    · have hn' : ¬ (3 * s.numFaces = 0) := by omega
      simpa [hnp, hn, hn', buildMesh] using this

theorem demandedBuildPointCloud_model (s : PointCloudSpec) (hw : s.wellFormed = true)
    (hnd : s.raw.numPoints ≠ 0 → ∀ a ∈ s.raw.dedupValues.atts, a.dedupSupported = true → a.entries.Nodup) :
    (demandedBuildPointCloud s (buildPointCloud s)).allTrue := by
  have hv := s.raw_valid hw
  obtain ⟨b1, b2, b3⟩ := buildPointCloud_points s hv
  have hnp : s.raw.numPoints = s.numPoints := rfl
  have hrl : s.raw.atts.length = s.atts.length := by simp [PointCloudSpec.raw_atts]
  cases hd : s.dedup with
  | false =>
    have he := b2 hd
    intro c hc
    simp only [demandedBuildPointCloud, hd, Bool.false_eq_true, if_false, List.mem_cons, List.not_mem_nil,
      or_false] at hc
    rcases hc with rfl | rfl
    · rw [he]
      have : s.raw.isMesh = false := rfl
      simp [hv, this, hrl]
    · show (describesA (buildPointCloud s)).isPerm s.points = true
      rw [he, describesA_eq]
      have : describes s.raw = s.points := by
        unfold describes
        rw [if_neg (by simp [PointCloudSpec.raw])]
        exact s.raw_points hw
      rw [this]
      exact isPerm_self (fun a => by simp) _
  | true =>
    have hb : buildPointCloud s = s.raw.dedupValues.dedupPointIds := by
      unfold buildPointCloud; simp [hd]
    have h := demandedDedupBoth_model s.raw hv hnd
    have hm : (buildPointCloud s).isMesh = false := by
      rw [hb, Geometry.dedupPointIds_isMesh, Geometry.dedupValues_isMesh]; rfl
    have hlen : (buildPointCloud s).atts.length = s.atts.length := by
      have : (buildPointCloud s).atts.map desc = s.raw.atts.map desc := by
        rw [hb, geomDedupPointIds_desc, geomDedupValues_desc]
      have := congrArg List.length this
      simpa [hrl] using this
    intro c hc
    simp only [demandedBuildPointCloud, hd, if_true, List.mem_cons, List.not_mem_nil, or_false] at hc
    rcases hc with rfl | rfl | rfl | rfl | rfl
    · simp [b1, hm, hlen]
    · show (sameSet (describesA (buildPointCloud s)) s.points && decide ((buildPointCloud s).numPoints ≤ s.numPoints)) = true
      rw [describesA_eq]
      have hdsc : describes (buildPointCloud s) = (buildPointCloud s).points := by
        unfold describes; rw [hm]; simp
      rw [hdsc]
      simp only [Bool.and_eq_true, decide_eq_true_eq]
      refine ⟨sameSet_of_mem_iff (fun t => by rw [b3 t, s.raw_points hw]), ?_⟩
      rw [hb]
      have := dedupPointIds_numPoints_le s.raw.dedupValues
      rw [Geometry.dedupValues_numPoints] at this
      exact this
    · have := h ("no-duplicate-values",
        (s.raw.numPoints == 0 || noDupValuesSupported s.raw.dedupValues.dedupPointIds)) (by simp [demandedDedupBoth])
      rw [hb]
      simpa [hnp] using this
    · rw [hb]; exact noDupKeys_dedupPointIds _
    · have := h ("no-identical-points",
        (s.raw.numPoints == 0 || !allSupported s.raw.dedupValues.dedupPointIds ||
          noDupTuples s.raw.dedupValues.dedupPointIds)) (by simp [demandedDedupBoth])
      rw [hb]
      simpa [hnp] using this

end C14
end Draco
