import DracoProofs.DedupCore
import DracoModel.C14Verify
/-
  The array-based observation functions of DracoModel/C14Verify.lean are the model's
  `Geometry.pointTuple` / `describes`.
-/
namespace Draco
namespace C14

theorem tupleOf_table (g : Geometry) (p : Nat) : tupleOf (tupleTable g) p = g.pointTuple p := by
  unfold tupleOf tupleTable Geometry.pointTuple
  rw [List.map_map]
  apply List.map_congr_left
  intro a _
  simp only [Function.comp, Attribute.pointValue, idxOf_mapArray]
  simp only [Array.getD, List.getD, List.size_toArray]
  split
  · rename_i h
    rw [List.getElem?_eq_getElem h]; rfl
  · rename_i h
    rw [List.getElem?_eq_none (Nat.le_of_not_lt h)]; rfl

theorem pointTuplesA_eq (g : Geometry) : pointTuplesA g = (List.range g.numPoints).map g.pointTuple := by
  unfold pointTuplesA
  apply List.map_congr_left
  intro p _
  exact tupleOf_table g p

theorem trianglesOfA_eq (g : Geometry) (faces : List Face) : trianglesOfA g faces = faces.map (triangleOfB g) := by
  unfold trianglesOfA triangleOfB
  apply List.map_congr_left
  intro f _
  simp only [tupleOf_table]

theorem describesA_eq (g : Geometry) : describesA g = describes g := by
  unfold describesA describes
  split
  · rw [trianglesOfA_eq]
    unfold Geometry.triangles triangleOfB
    apply List.map_congr_left
    intro f _
    rfl
  · rw [pointTuplesA_eq, List.map_map]
    rfl

end C14
end Draco
