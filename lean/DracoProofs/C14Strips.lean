import DracoProofs.StripsGeometry
import DracoProofs.C14Multiset
/-
  DracoProofs.C14Strips — the clauses the C14 check demands of a strip stream
  (`C14.verifyStrips`) hold of the model's stream (`Strips.generate?`), both output modes.
-/
namespace Draco
namespace C14

open Strips

/-- every point id read through a corner (valid or not: `Ctx.pt` falls back to face `(0,0,0)`) is a
    point of the mesh -/
def PtLt (cx : Ctx) (np : Nat) : Prop := ∀ c, cx.pt c < np

theorem ptLt_of_valid (opp : Array (Option Nat)) {g : Geometry} (hv : g.valid = true) (hne : g.faces ≠ []) :
    PtLt { faces := g.faces.toArray, opp := opp } g.numPoints := by
  have hpos : 0 < g.numPoints := by
    cases hf : g.faces with
    | nil => exact absurd hf hne
    | cons f _ =>
      have := (Geometry.valid_faces hv f (by rw [hf]; simp)).1
      omega
  have hface : ∀ i, (g.faces.toArray.getD i (0, 0, 0)).1 < g.numPoints ∧
      (g.faces.toArray.getD i (0, 0, 0)).2.1 < g.numPoints ∧ (g.faces.toArray.getD i (0, 0, 0)).2.2 < g.numPoints := by
    intro i
    by_cases hi : i < g.faces.length
    · have hmem : g.faces.toArray.getD i (0, 0, 0) ∈ g.faces := by
        simp [Array.getD_eq_getD_getElem?, hi]
      exact Geometry.valid_faces hv _ hmem
    · have : g.faces.toArray.getD i (0, 0, 0) = (0, 0, 0) := by
        simp [Array.getD_eq_getD_getElem?, hi]
      rw [this]
      exact ⟨hpos, hpos, hpos⟩
  intro c
  rcases pt_cases { faces := g.faces.toArray, opp := opp } c with ⟨_, e⟩ | ⟨_, e⟩ | ⟨_, e⟩ <;> rw [e]
  · exact (hface _).1
  · exact (hface _).2.1
  · exact (hface _).2.2

theorem stream_lt {cx : Ctx} {np : Nat} (h : PtLt cx np) (i : Nat) (C : List Nat) : ∀ x ∈ stream cx i C, x < np := by
  induction C generalizing i with
  | nil => simp [stream]
  | cons c C ih =>
    intro x hx
    simp only [stream, emit, List.mem_append] at hx
    rcases hx with hx | hx
    · split at hx
      · simp only [List.mem_cons, List.not_mem_nil, or_false] at hx
        rcases hx with e | e | e <;> rw [e] <;> exact h _
      · simp only [List.mem_cons, List.not_mem_nil, or_false] at hx
        rw [hx]; exact h _
    · exact ih (i + 1) x hx

/-- the stream holds point ids (and restart indices), and the last written index is a point id -/
def IdxInv (np : Nat) (restart : Bool) (st : Out) : Prop :=
  (∀ x ∈ st.out, x < np ∨ (restart = true ∧ x = restartIndex)) ∧ (0 < st.numStrips → st.lastPoint < np)

theorem loop_idx {cx : Ctx} (hinv : OppInv cx) {np : Nat} (hpt : PtLt cx np) (restart : Bool) (n : Nat) :
    IdxInv np restart (loopState cx restart n) := by
  induction n with
  | zero =>
    refine ⟨?_, ?_⟩
    · intro x hx
      simp [loopState] at hx
    · intro h
      simp [loopState] at h
  | succ n ih =>
    rw [loopState_succ]
    by_cases hv : (loopState cx restart n).visited.getD n true = true
    · rw [faceStep_visited _ _ _ _ hv]; exact ih
    · have hv' : (loopState cx restart n).visited.getD n true = false := by simpa using hv
      obtain ⟨c, C, _, _, _, _, h2, h3, _, h5⟩ := faceStep_unvisited hinv restart _ n hv'
      generalize loopState cx restart n = st at *
      have hs := stream_lt hpt 0 (c :: C)
      refine ⟨?_, ?_⟩
      · intro x hx
        rw [h3, List.mem_append, List.mem_reverse] at hx
        rcases hx with hx | hx
        · exact Or.inl (hs x hx)
        · unfold preOut at hx
          by_cases hn : st.numStrips > 0
          · have hl := ih.2 hn
            simp only [hn, if_true] at hx
            cases restart
            · simp only [Bool.false_eq_true, if_false] at hx
              split at hx
              · simp only [List.mem_cons] at hx
                rcases hx with e | e | e | e
                · rw [e]; exact Or.inl (hpt _)
                · rw [e]; exact Or.inl (hpt _)
                · rw [e]; exact Or.inl hl
                · exact ih.1 x e
              · simp only [List.mem_cons] at hx
                rcases hx with e | e | e
                · rw [e]; exact Or.inl (hpt _)
                · rw [e]; exact Or.inl hl
                · exact ih.1 x e
            · simp only [if_true, List.mem_cons] at hx
              rcases hx with e | e
              · exact Or.inr ⟨rfl, e⟩
              · exact ih.1 x e
          · simp only [hn, if_false] at hx
            exact ih.1 x hx
      · intro _
        rw [h5]
        have hne : stream cx 0 (c :: C) ≠ [] := by simp [stream, emit]
        obtain ⟨y, hy⟩ := List.getLast?_isSome.2 hne |> Option.isSome_iff_exists.1
        rw [hy]
        exact hs y (List.mem_of_getLast? hy)

theorem triangleOfB_eq (g : Geometry) : triangleOfB g = g.triangleOf := rfl

/-- **the oracle accepts the model's strips** (both modes): whatever `Strips.generate?` returns for
    a valid mesh satisfies every clause of `verifyStrips` -/
theorem verifyStrips_model (hs : CreateSymm) (restart : Bool) (g : Geometry) (hv : g.valid = true)
    (hn : g.numPoints ≤ restartIndex) : (verifyStrips restart g (generate? restart g)).allTrue := by
  cases h : generate? restart g with
  | none => intro c hc; simp [verifyStrips] at hc
  | some s =>
    obtain ⟨l, hperm, hrot⟩ := generate?_spec hs restart g s (faces_ne_restart hv hn) h
    obtain ⟨opp, hopp, hs'⟩ := generate?_eq h
    intro c hc
    simp only [verifyStrips, List.mem_cons, List.not_mem_nil, or_false] at hc
    rcases hc with rfl | rfl
    · -- indices
      show (s.all fun i => decide (i < g.numPoints) || (restart && i == restartIndex)) = true
      rw [List.all_eq_true]
      intro x hx
      by_cases hne : g.faces = []
      · rw [hs', generateWith_eq, hne] at hx
        simp [loopState] at hx
      · have hinv := positionOpp_inv hs hopp g.faces.toArray
        have hI := loop_idx hinv (ptLt_of_valid opp hv hne) restart g.faces.length
        rw [hs', generateWith_eq, List.mem_reverse] at hx
        rcases hI.1 x hx with h1 | ⟨h1, h2⟩
        · simp [h1]
        · simp [h1, h2]
    · -- describes
      show sameTriangles (trianglesOfA g (triangles restart s))
        (trianglesOfA g (if restart then g.faces else g.faces.filter (!isDegenerateTriangle ·))) = true
      rw [trianglesOfA_eq, trianglesOfA_eq, triangleOfB_eq]
      have he : (if restart then g.faces else g.faces.filter (!isDegenerateTriangle ·)) = expectedFaces restart g.faces := by
        unfold expectedFaces
        cases restart <;> rfl
      rw [he]
      exact sameTriangles_of (forall₂_triangleOf g hrot) (hperm.map _)

end C14
end Draco
