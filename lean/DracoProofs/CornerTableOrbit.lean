import DracoProofs.CornerTableVert
/-
  Orbits of the swing operators.  With a symmetric opposite table `SwingLeft` and `SwingRight`
  are mutually inverse partial injections on the corners `< n`; hence (pigeonhole) every walk
  returns to its start or reaches the boundary within `n` steps.  This is the reason why all
  `while` loops of `BreakNonManifoldEdges`, `ComputeVertexCorners` and the vertex-fan iterators
  terminate.
-/
namespace Draco

/-- pigeonhole: `n + 1` values below `n` contain a repetition -/
theorem pigeonhole : ∀ (n : Nat) (f : Nat → Nat), (∀ i, i ≤ n → f i < n) →
    ∃ i j, i < j ∧ j ≤ n ∧ f i = f j := by
  intro n
  induction n with
  | zero => intro f h; exact absurd (h 0 (Nat.le_refl 0)) (Nat.not_lt_zero _)
  | succ n ih =>
    intro f h
    by_cases hex : ∃ i, i ≤ n ∧ f i = f (n + 1)
    · obtain ⟨i, hi, he⟩ := hex
      exact ⟨i, n + 1, by omega, Nat.le_refl _, he⟩
    · have hne : ∀ i, i ≤ n → f i ≠ f (n + 1) := fun i hi he => hex ⟨i, hi, he⟩
      let g : Nat → Nat := fun i => if f i > f (n + 1) then f i - 1 else f i
      have hg : ∀ i, i ≤ n → g i < n := by
        intro i hi
        have h1 := h i (by omega)
        have h2 := h (n + 1) (Nat.le_refl _)
        have h3 := hne i hi
        simp only [g]
        split <;> omega
      obtain ⟨i, j, hij, hj, he⟩ := ih g hg
      refine ⟨i, j, hij, by omega, ?_⟩
      have h3 := hne i (by omega)
      have h4 := hne j hj
      simp only [g] at he
      split at he <;> split at he <;> omega

/-- `f`, `g` are mutually inverse partial injections with values below `n` -/
structure PInj (n : Nat) (f g : Nat → Option Nat) : Prop where
  fg : ∀ a b, f a = some b → g b = some a ∧ b < n
  gf : ∀ a b, g a = some b → f b = some a ∧ b < n

theorem PInj.symm {n : Nat} {f g : Nat → Option Nat} (h : PInj n f g) : PInj n g f := ⟨h.gf, h.fg⟩

/-- a partial map lifted to invalid-propagating form (`SwingRight(kInvalid) = kInvalid`) -/
def lift (f : Nat → Option Nat) : Option Nat → Option Nat := fun x => x.bind f

@[simp] theorem lift_none (f : Nat → Option Nat) : lift f none = none := rfl
@[simp] theorem lift_some (f : Nat → Option Nat) (a : Nat) : lift f (some a) = f a := rfl

theorem iter_lift_none (f : Nat → Option Nat) (k : Nat) : iter (lift f) k none = none := by
  induction k with
  | zero => rfl
  | succ k ih => simp only [iter, lift_none]; exact ih

theorem PInj.iter_inv {n : Nat} {f g : Nat → Option Nat} (h : PInj n f g) :
    ∀ (i a x : Nat), iter (lift f) i (some a) = some x → iter (lift g) i (some x) = some a := by
  intro i
  induction i with
  | zero => intro a x hx; simp only [iter] at hx ⊢; injection hx with hx; rw [hx]
  | succ i ih =>
    intro a x hx
    rw [iter_succ'] at hx
    cases hy : iter (lift f) i (some a) with
    | none => rw [hy] at hx; simp at hx
    | some y =>
      rw [hy, lift_some] at hx
      have := ih a y hy
      simp only [iter, lift_some]
      rw [(h.fg y x hx).1]
      exact this

theorem PInj.iter_lt {n : Nat} {f g : Nat → Option Nat} (h : PInj n f g) {a : Nat} (ha : a < n) :
    ∀ (i x : Nat), iter (lift f) i (some a) = some x → x < n := by
  intro i x hx
  cases i with
  | zero => simp only [iter] at hx; injection hx with hx; omega
  | succ i =>
    rw [iter_succ'] at hx
    cases hy : iter (lift f) i (some a) with
    | none => rw [hy] at hx; simp at hx
    | some y => rw [hy, lift_some] at hx; exact (h.fg y x hx).2

/-- a repetition in the orbit means the orbit is a cycle through its start -/
theorem PInj.cycle {n : Nat} {f g : Nat → Option Nat} (h : PInj n f g) {a x i j : Nat} (hij : i < j)
    (hi : iter (lift f) i (some a) = some x) (hj : iter (lift f) j (some a) = some x) :
    iter (lift f) (j - i) (some a) = some a := by
  have hsplit : iter (lift f) j (some a) = iter (lift f) i (iter (lift f) (j - i) (some a)) := by
    rw [← iter_add]; congr 1; omega
  rw [hsplit] at hj
  cases hy : iter (lift f) (j - i) (some a) with
  | none => rw [hy, iter_lift_none] at hj; cases hj
  | some y =>
    rw [hy] at hj
    have h1 := h.iter_inv i a x hi
    have h2 := h.iter_inv i y x hj
    rw [h1] at h2
    rw [h2]

/-- every orbit returns to its start or dies within `n` steps -/
theorem PInj.orbit {n : Nat} {f g : Nat → Option Nat} (h : PInj n f g) {a : Nat} (ha : a < n) :
    ∃ m, m < n ∧ (iter (lift f) (m + 1) (some a) = none ∨ iter (lift f) (m + 1) (some a) = some a) := by
  apply Classical.byContradiction
  intro hcon
  have hall : ∀ m, m < n → ∃ y, iter (lift f) (m + 1) (some a) = some y ∧ y ≠ a := by
    intro m hm
    cases hy : iter (lift f) (m + 1) (some a) with
    | none => exact absurd ⟨m, hm, Or.inl hy⟩ hcon
    | some y =>
      refine ⟨y, rfl, ?_⟩
      intro hya
      subst hya
      exact hcon ⟨m, hm, Or.inr hy⟩
  have hsome : ∀ i, i ≤ n → ∃ y, iter (lift f) i (some a) = some y := by
    intro i hi
    cases i with
    | zero => exact ⟨a, rfl⟩
    | succ i => obtain ⟨y, hy, _⟩ := hall i (by omega); exact ⟨y, hy⟩
  obtain ⟨i, j, hij, hj, he⟩ := pigeonhole n (fun i => (iter (lift f) i (some a)).getD 0) (by
    intro i hi
    obtain ⟨y, hy⟩ := hsome i hi
    simp only [hy, Option.getD_some]
    exact h.iter_lt ha i y hy)
  obtain ⟨yi, hyi⟩ := hsome i (by omega)
  obtain ⟨yj, hyj⟩ := hsome j hj
  simp only [hyi, hyj, Option.getD_some] at he
  subst he
  have hc := h.cycle hij hyi hyj
  obtain ⟨y, hy, hne⟩ := hall (j - i - 1) (by omega)
  have : j - i - 1 + 1 = j - i := by omega
  rw [this, hc] at hy
  injection hy with hy
  exact hne hy.symm

/-! ### the swing operators of a symmetric opposite table -/

theorem swing_pinj {ctv0 : Array Nat} {opp : Array (Option Nat)} {k : Nat}
    (hn : ctv0.size = 3 * k) (hopp : OppOK ctv0 ctv0.size opp) :
    PInj ctv0.size (swingRightA opp) (swingLeftA opp) where
  fg := fun a b h => by
    obtain ⟨h1, _, h3⟩ := swingRightA_facts hn hopp h
    exact ⟨h3, h1⟩
  gf := fun a b h => by
    obtain ⟨h1, _, h3⟩ := swingLeftA_facts hn hopp h
    exact ⟨h3, h1⟩

/-- `TermIn f start m cur`: the walk `cur, f cur, …` reaches the boundary or `start` after at most
    `m + 1` applications of `f` -/
def TermIn (f : Nat → Option Nat) (start : Nat) : Nat → Nat → Prop
  | 0, cur => f cur = none ∨ f cur = some start
  | m + 1, cur => f cur = none ∨ f cur = some start ∨ ∃ nx, f cur = some nx ∧ TermIn f start m nx

theorem TermIn.of_iter (f : Nat → Option Nat) (start : Nat) :
    ∀ (m cur : Nat), (iter (lift f) (m + 1) (some cur) = none ∨ iter (lift f) (m + 1) (some cur) = some start) →
      TermIn f start m cur := by
  intro m
  induction m with
  | zero => intro cur h; simpa [TermIn, iter] using h
  | succ m ih =>
    intro cur h
    unfold TermIn
    cases hf : f cur with
    | none => exact Or.inl rfl
    | some nx =>
      refine Or.inr (Or.inr ⟨nx, rfl, ih nx ?_⟩)
      have : iter (lift f) (m + 1 + 1) (some cur) = iter (lift f) (m + 1) (some nx) := by
        conv => lhs; unfold iter
        rw [lift_some, hf]
      rw [this] at h
      exact h

theorem TermIn.mono (f : Nat → Option Nat) (start : Nat) :
    ∀ (m m' cur : Nat), m ≤ m' → TermIn f start m cur → TermIn f start m' cur := by
  intro m
  induction m with
  | zero =>
    intro m' cur _ h
    cases m' with
    | zero => exact h
    | succ m' =>
      unfold TermIn at h ⊢
      rcases h with h | h
      · exact Or.inl h
      · exact Or.inr (Or.inl h)
  | succ m ih =>
    intro m' cur hm h
    cases m' with
    | zero => omega
    | succ m' =>
      unfold TermIn at h ⊢
      rcases h with h | h | ⟨nx, h1, h2⟩
      · exact Or.inl h
      · exact Or.inr (Or.inl h)
      · exact Or.inr (Or.inr ⟨nx, h1, ih m' nx (by omega) h2⟩)

/-- a walk that starts at `start` terminates within `n` applications -/
theorem PInj.termIn {n : Nat} {f g : Nat → Option Nat} (h : PInj n f g) {a : Nat} (ha : a < n) :
    TermIn f a (n - 1) a := by
  obtain ⟨m, hm, hor⟩ := h.orbit ha
  exact TermIn.mono f a m (n - 1) a (by omega) (TermIn.of_iter f a m a hor)

end Draco
