import DracoProofs.EbEncCounts
/-
  C09, encoder half, PART B: the number of points `MeshEdgebreakerEncoder::ComputeNumberOfEncodedPoints` reports
  (`EbEnc.computeNumberOfEncodedPoints`, DracoModel/EbEncoder.lean) against the abstract per-vertex model of
  DracoModel/EbCounts.lean (`Counts.Fan`, `Counts.encSeams`, `Counts.encPoints`), whose documented gap is "how the fan is
  obtained from the corner table".  (PART A, the faces, is DracoProofs/EbEncCounts.lean.)

  * `fanOfE t used v`: the fan of vertex `v` read off the encoder's corner table: the corners reached from
    `LeftMostCorner(v) = t.vc[v]` by `SwingRight` until the boundary or the left-most corner again (a pure, fuel-bounded
    list, `walkE`), each with its vertex in every attribute corner table in use; `closed` := `SwingLeft(first) ≠ invalid`
    (the encoder's `IsOnBoundary` test).
  * `computeNumberOfEncodedPoints_fan`: a successful run with more than one attribute returns
    `(num_vertices − isolated) + Σ_{v, t.vc[v] ≠ invalid} (encPoints (fanOfE t used v) − 1)`, under `ClosedOK`: the boundary
    test agrees with the walk (closed ⇔ the walk returns to the left-most corner).
  * `computeNumberOfEncodedPoints_tbl`: `ClosedOK` derived (for the vertices the loop terminated on) from invariants of
    the table: `AttViews.BaseTbl` (`Opposite` an involution), left-most corners are corners, a left-most corner with a
    left neighbour lies on a closed fan.
  * `computeNumberOfEncodedPoints_create` / `…_of_encode`: for the table `CornerTable.create` builds, the only hypothesis
    left is `hvcE` (`vertex_corners_[v]` is a corner of `v`).
  * `computeNumberOfEncodedPoints_single`: with at most one attribute the number of non-isolated vertices.

  `avDiff` on lists stops at the shorter list and the encoder's loop over the tables breaks at the first difference:
  both compute "some table differs" (`foundLoop`); the two lists here have the same length (`used.size`).
-/
namespace Draco.EbEnc.EncCounts
open Draco
open Draco.Eb hiding nextC prevC iabs

/-! ## PART B: `ComputeNumberOfEncodedPoints` -/

/-- `CornerTable::SwingRight` on the `opposite_corners_` array (the value of a successful `Eb.swingRight`) -/
def sRE (opp : Array Nat) (c : Nat) : Nat := Eb.prevC (if Eb.prevC c = inv then inv else opp[Eb.prevC c]!)

/-- `CornerTable::SwingLeft` on the `opposite_corners_` array (the value of a successful `Eb.swingLeft`) -/
def sLE (opp : Array Nat) (c : Nat) : Nat := Eb.nextC (if Eb.nextC c = inv then inv else opp[Eb.nextC c]!)

theorem opposite_val {opp : Array Nat} {c o : Nat} (h : opposite opp c = .ok o) :
    o = if c = inv then inv else opp[c]! := by
  unfold opposite at h
  by_cases hc : c = inv
  · rw [if_pos hc]
    have : (c == inv) = true := by simpa using hc
    rw [this] at h
    exact pure_ok h
  · rw [if_neg hc]
    rw [ne_inv_beq hc] at h
    obtain ⟨hi, e⟩ := Eb.rd_ok h
    rw [← e]; simp [hi]

theorem swingRight_val {opp : Array Nat} {c c' : Nat} (h : swingRight opp c = .ok c') : c' = sRE opp c := by
  unfold swingRight at h
  obtain ⟨o, ho, h⟩ := (bind_ok_iff _ _ _).mp h
  rw [pure_ok h, opposite_val ho]
  rfl

theorem swingLeft_val {opp : Array Nat} {c c' : Nat} (h : swingLeft opp c = .ok c') : c' = sLE opp c := by
  unfold swingLeft at h
  obtain ⟨o, ho, h⟩ := (bind_ok_iff _ _ _).mp h
  rw [pure_ok h, opposite_val ho]
  rfl

/-- the corners after `first` around its vertex: `c`, `SwingRight(c)`, … as long as they are valid and differ from
    `first` -/
def walkE (opp : Array Nat) (first : Nat) : Nat → Nat → List Nat
  | 0, _ => []
  | fuel + 1, c => if c = inv ∨ c = first then [] else c :: walkE opp first fuel (sRE opp c)

/-- the walk from `c` comes back to `first` (rather than ending at the boundary or running out of fuel) -/
def cyclicE (opp : Array Nat) (first : Nat) : Nat → Nat → Bool
  | 0, _ => false
  | fuel + 1, c => if c = inv then false else if c = first then true else cyclicE opp first fuel (sRE opp c)

/-- the corners the loop of `ComputeNumberOfEncodedPoints` still compares with their predecessor -/
def tailE (opp : Array Nat) (first : Nat) : Nat → Nat → List Nat
  | 0, _ => []
  | fuel + 1, c => if c = inv then [] else if c = first then [first] else c :: tailE opp first fuel (sRE opp c)

theorem tailE_eq (opp : Array Nat) (first : Nat) : ∀ (fuel c : Nat),
    tailE opp first fuel c = walkE opp first fuel c ++ (if cyclicE opp first fuel c = true then [first] else []) := by
  intro fuel
  induction fuel with
  | zero => intro c; simp [tailE, walkE, cyclicE]
  | succ fuel ih =>
    intro c
    unfold tailE walkE cyclicE
    by_cases h1 : c = inv
    · simp [h1]
    · by_cases h2 : c = first
      · simp [h2]
      · simp only [h1, h2, ↓reduceIte, or_self, List.cons_append]
        rw [ih]

/-- what the encoder looks at on a corner: its vertex in every attribute corner table in use -/
def fanCorner (used : Array AttConn) (c : Nat) : Counts.FanCorner := ⟨0, used.toList.map (fun a => a.c2v[c]!)⟩

/-- **the fan of vertex `v` as the encoder walks it**: the corners reached from `LeftMostCorner(v)` by `SwingRight`
    (until the boundary or the left-most corner again; at most `num_corners + 2`), `closed` = not `IsOnBoundary(v)` as
    `ComputeNumberOfEncodedPoints` tests it (`SwingLeft(first_corner) != kInvalidCornerIndex`) -/
def fanOfE (t : CT) (used : Array AttConn) (v : Nat) : Counts.Fan :=
  { corners := (t.vc[v]! :: walkE t.opp t.vc[v]! (t.numCorners + 2) (sRE t.opp t.vc[v]!)).map (fanCorner used)
    closed := decide (sLE t.opp t.vc[v]! ≠ inv)
    onSeam := [] }

/-- the loop over the attribute corner tables computes `avDiff` -/
theorem foundLoop (c last : Nat) : ∀ (l : List AttConn) (s b : Bool),
    forIn l s (fun a (s : Bool) => (do
      let x ← rd "MeshAttributeCornerTable::Vertex" a.c2v c
      let y ← rd "MeshAttributeCornerTable::Vertex" a.c2v last
      if (x != y) = true then pure (ForInStep.done true) else pure (ForInStep.yield s) : R (ForInStep Bool)))
      = .ok b →
    b = (Counts.avDiff (l.map (fun a => a.c2v[c]!)) (l.map (fun a => a.c2v[last]!)) || s) := by
  intro l
  induction l with
  | nil =>
    intro s b h
    simp [pure, Except.pure] at h
    rw [h]; rfl
  | cons a l ih =>
    intro s b h
    rw [List.forIn_cons] at h
    obtain ⟨r, h1, h2⟩ := (bind_ok_iff _ _ _).mp h
    obtain ⟨x, hx, h1⟩ := (bind_ok_iff _ _ _).mp h1
    obtain ⟨y, hy, h1⟩ := (bind_ok_iff _ _ _).mp h1
    obtain ⟨hxi, ex⟩ := Eb.rd_ok hx
    obtain ⟨hyi, ey⟩ := Eb.rd_ok hy
    have ex' : a.c2v[c]! = x := by rw [← ex]; simp [hxi]
    have ey' : a.c2v[last]! = y := by rw [← ey]; simp [hyi]
    simp only [List.map_cons, Counts.avDiff, ex', ey']
    rcases ite_ok h1 with ⟨hne, h1⟩ | ⟨hne, h1⟩
    · rw [pure_ok h1] at h2
      rw [pure_ok h2, hne]; rfl
    · rw [pure_ok h1] at h2
      have : (x != y) = false := by simpa using hne
      rw [this, Bool.false_or]
      exact ih s b h2


/-! ### `computeNumberOfEncodedPoints` over named loop bodies (elaborated bodies, `rfl`) -/

/-- state of the loop around one vertex: `last_corner_index`, `corner_index`, `num_attribute_seams`, termination flag -/
abbrev WSt := Nat × Nat × Nat × Bool

set_option linter.unusedVariables false in
/-- one step of the `while (corner_index != kInvalidCornerIndex)` loop -/
def seamStep (t : CT) (usedTables : Array AttConn) (first : Nat) : Nat → WSt → R (ForInStep WSt) :=
  fun x __s =>
  have last := __s.fst;
  have __s := __s.snd;
  have c := __s.fst;
  have __s := __s.snd;
  have seams := __s.fst;
  have fin := __s.snd;
  if (c == Eb.inv) = true then
    have fin := true;
    pure (ForInStep.done (last, c, seams, fin))
  else
    have found := false;
    do
    let __s ←
      forIn usedTables found fun a __s =>
          have found := __s;
          do
          let __do_lift ← Eb.rd "MeshAttributeCornerTable::Vertex" a.c2v c
          let __do_lift_1 ← Eb.rd "MeshAttributeCornerTable::Vertex" a.c2v last
          if (__do_lift != __do_lift_1) = true then
              have found := true;
              pure (ForInStep.done found)
            else pure (ForInStep.yield found)
    have found : Bool := __s
    have __do_jp : Unit → Nat → Eb.R (ForInStep (Nat × Nat × Nat × Bool)) := fun __r seams =>
      if (c == first) = true then
        have fin := true;
        pure (ForInStep.done (last, c, seams, fin))
      else
        have last := c;
        do
        let c ← Eb.swingRight t.opp c
        pure (ForInStep.yield (last, c, seams, fin))
    if found = true then
        have seams := seams + 1;
        __do_jp () seams
      else __do_jp () seams

set_option linter.unusedVariables false in
/-- one step of the loop over the vertices -/
def vertStep (t : CT) (usedTables : Array AttConn) : Nat → Nat → R (ForInStep Nat) :=
  fun vi __s =>
  have n := __s;
  have first := t.vc[vi]!;
  if (first == Eb.inv) = true then pure (ForInStep.yield n)
  else
    have last := first;
    do
    let c ← Eb.swingRight t.opp first
    have seams : Nat := 0
    have fin : Bool := false
    let __s ←
      forIn [:CT.numCorners t + 2] (last, c, seams, fin) (seamStep t usedTables first)
    have __s : Nat × Nat × Bool := __s.snd
    have __s : Nat × Bool := __s.snd
    have seams : Nat := __s.fst
    have fin : Bool := __s.snd
    have __do_jp : Unit → Eb.R (ForInStep Nat) := fun __r => do
      let __do_lift ← Eb.swingLeft t.opp first
      have onBoundary : Bool := __do_lift == Eb.inv
      if (!onBoundary && decide (seams > 0)) = true then
          have n := n + seams - 1;
          pure (ForInStep.yield n)
        else
          have n := n + seams;
          pure (ForInStep.yield n)
    if (!fin) = true then do
        let __r ← throw (Eb.Err.fuel "ComputeNumberOfEncodedPoints")
        __do_jp __r
      else __do_jp ()

theorem computeNumberOfEncodedPoints_eq (atts : Array Attribute) (conn : ConnEnc) (usedTables : Array AttConn) :
    computeNumberOfEncodedPoints atts conn usedTables =
      if atts.size > 1 then
        forIn [:conn.ct.numVertices] (conn.ct.numVertices - conn.ct.numIsolated) (vertStep conn.ct usedTables) >>=
          fun n => pure n
      else pure (conn.ct.numVertices - conn.ct.numIsolated) := by
  rfl

/-! ### the loop around one vertex -/

/-- a terminated run of the loop around a vertex counted `encWalk` over the corners it still had to compare -/
theorem seamLoop (t : CT) (used : Array AttConn) (first : Nat) : ∀ (l : List Nat) (last c seams : Nat) (out : WSt),
    forIn l ((last, c, seams, false) : WSt) (seamStep t used first) = .ok out → out.2.2.2 = true →
    out.2.2.1 = seams + Counts.encWalk (fanCorner used last) ((tailE t.opp first l.length c).map (fanCorner used)) := by
  intro l
  induction l with
  | nil =>
    intro last c seams out h hfin
    simp [pure, Except.pure] at h
    rw [← h] at hfin
    cases hfin
  | cons a l ih =>
    intro last c seams out h hfin
    rw [List.forIn_cons] at h
    obtain ⟨r, h1, h2⟩ := (bind_ok_iff _ _ _).mp h
    unfold seamStep at h1
    simp only [] at h1
    rcases ite_ok h1 with ⟨hci, h1⟩ | ⟨hci, h1⟩
    · -- the boundary
      have hc : c = inv := by simpa using hci
      rw [pure_ok h1] at h2
      rw [pure_ok h2]
      simp [tailE, hc, Counts.encWalk]
    have hc : c ≠ inv := by simpa using hci
    obtain ⟨found, hfound, h1⟩ := (bind_ok_iff _ _ _).mp h1
    rw [← Array.forIn_toList] at hfound
    have efound := foundLoop c last used.toList false found hfound
    rw [Bool.or_false] at efound
    have hstep : Counts.encWalk (fanCorner used last) (fanCorner used c :: []) = (if found = true then 1 else 0) := by
      simp only [Counts.encWalk, fanCorner, ← efound, Nat.add_zero]
    -- the number of seams after this corner
    have key : ∀ seams1 : Nat, seams1 = seams + (if found = true then 1 else 0) →
        (if (c == first) = true then (pure (ForInStep.done (last, c, seams1, true)) : R (ForInStep WSt))
          else swingRight t.opp c >>= fun c' => pure (ForInStep.yield (c, c', seams1, false))) = .ok r →
        out.2.2.1 = seams + Counts.encWalk (fanCorner used last)
          ((tailE t.opp first (l.length + 1) c).map (fanCorner used)) := by
      intro seams1 hs1 hr
      rcases ite_ok hr with ⟨hcf, hr⟩ | ⟨hcf, hr⟩
      · have hcf' : c = first := by simpa using hcf
        rw [pure_ok hr] at h2
        rw [pure_ok h2]
        have hfi : first ≠ inv := hcf' ▸ hc
        have : tailE t.opp first (l.length + 1) c = [c] := by
          simp [tailE, hfi, hcf']
        rw [this, List.map_cons, List.map_nil, hstep]
        exact hs1
      · have hcf' : c ≠ first := by simpa using hcf
        obtain ⟨c', hc', hr⟩ := (bind_ok_iff _ _ _).mp hr
        rw [pure_ok hr] at h2
        have := ih c c' seams1 out h2 hfin
        rw [this, hs1, swingRight_val hc']
        have e : tailE t.opp first (l.length + 1) c = c :: tailE t.opp first l.length (sRE t.opp c) := by
          simp [tailE, hc, hcf']
        rw [e, List.map_cons]
        simp only [Counts.encWalk, fanCorner, ← efound]
        omega
    rcases ite_ok h1 with ⟨hf, h1⟩ | ⟨hf, h1⟩
    · exact key (seams + 1) (by rw [if_pos hf]) h1
    · exact key seams (by rw [if_neg hf]; rfl) h1

/-- contribution of vertex `v` beyond the `1` counted by `num_vertices − NumIsolatedVertices` -/
def extraPoints (t : CT) (used : Array AttConn) (v : Nat) : Nat :=
  if t.vc[v]! = inv then 0 else Counts.encPoints (fanOfE t used v) - 1

/-- **the closedness test of the encoder is the closedness of the walk**: `SwingLeft(first) != invalid` exactly when
    the `SwingRight` walk from `first` comes back to `first` (within `num_corners + 2` steps) -/
def ClosedOK (t : CT) (v : Nat) : Prop :=
  decide (sLE t.opp t.vc[v]! ≠ inv) = cyclicE t.opp t.vc[v]! (t.numCorners + 2) (sRE t.opp t.vc[v]!)

theorem encSeams_fanOfE (t : CT) (used : Array AttConn) (v : Nat) (hcl : ClosedOK t v) :
    Counts.encSeams (fanOfE t used v) = Counts.encWalk (fanCorner used t.vc[v]!)
      ((tailE t.opp t.vc[v]! (t.numCorners + 2) (sRE t.opp t.vc[v]!)).map (fanCorner used)) := by
  unfold Counts.encSeams fanOfE
  simp only [List.map_cons]
  rw [tailE_eq, hcl]
  cases cyclicE t.opp t.vc[v]! (t.numCorners + 2) (sRE t.opp t.vc[v]!) <;> simp

theorem vertStep_spec (t : CT) (used : Array AttConn) (v n : Nat) (r : ForInStep Nat) (hcl : ClosedOK t v)
    (h : vertStep t used v n = .ok r) : r = .yield (n + extraPoints t used v) := by
  unfold vertStep at h
  unfold extraPoints
  rcases ite_ok h with ⟨hfi, h⟩ | ⟨hfi, h⟩
  · have : t.vc[v]! = inv := by simpa using hfi
    rw [if_pos this, pure_ok h]; rfl
  have hne : t.vc[v]! ≠ inv := by simpa using hfi
  rw [if_neg hne]
  obtain ⟨c, hc, h⟩ := (bind_ok_iff _ _ _).mp h
  obtain ⟨out, hloop, h⟩ := (bind_ok_iff _ _ _).mp h
  rcases ite_ok h with ⟨_, h⟩ | ⟨hfin, h⟩
  · exact (throw_bind_ne h).elim
  have hfin' : out.2.2.2 = true := by simpa using hfin
  rw [Seams.range_forIn] at hloop
  have hs := seamLoop t used t.vc[v]! _ _ _ _ out hloop hfin'
  rw [List.length_range', Nat.zero_add, swingRight_val hc, ← encSeams_fanOfE t used v hcl] at hs
  obtain ⟨sl, hsl, h⟩ := (bind_ok_iff _ _ _).mp h
  have hclosed : (fanOfE t used v).closed = !(sl == inv) := by
    rw [swingLeft_val hsl]
    show decide (sLE t.opp t.vc[v]! ≠ inv) = _
    by_cases e : sLE t.opp t.vc[v]! = inv <;> simp [e]
  unfold Counts.encPoints
  rw [hclosed, ← hs]
  rcases ite_ok h with ⟨hc1, h⟩ | ⟨hc1, h⟩
  · rw [pure_ok h, if_pos hc1]
    have : out.2.2.1 > 0 := by
      have := hc1
      simp only [Bool.and_eq_true, decide_eq_true_eq] at this
      exact this.2
    congr 1
    omega
  · rw [pure_ok h, if_neg hc1]
    congr 1
    omega

/-- **C09, points (encoder side).**  `ComputeNumberOfEncodedPoints` with more than one attribute returns the number of
    non-isolated vertices plus, for every vertex with a left-most corner, the number of points the abstract per-vertex
    model `Counts.encPoints` (DracoModel/EbCounts.lean) gives for the fan read off the corner table (`fanOfE`), minus the
    one already counted.  `hcl`: for those vertices the encoder's boundary test agrees with the walk (`ClosedOK`). -/
theorem computeNumberOfEncodedPoints_fan (atts : Array Attribute) (conn : ConnEnc) (used : Array AttConn) (n : Nat)
    (hatts : atts.size > 1)
    (hcl : ∀ v, v < conn.ct.numVertices → conn.ct.vc[v]! ≠ inv → ClosedOK conn.ct v)
    (h : computeNumberOfEncodedPoints atts conn used = .ok n) :
    n = (conn.ct.numVertices - conn.ct.numIsolated) +
      ((List.range conn.ct.numVertices).map (extraPoints conn.ct used)).sum := by
  rw [computeNumberOfEncodedPoints_eq, if_pos hatts] at h
  obtain ⟨m, hloop, h⟩ := (bind_ok_iff _ _ _).mp h
  rw [pure_ok h]
  have hI : (m = (conn.ct.numVertices - conn.ct.numIsolated) +
      ((List.range conn.ct.numVertices).map (extraPoints conn.ct used)).sum) ∨ False := by
    refine range_loop conn.ct.numVertices _
      (fun k m => m = (conn.ct.numVertices - conn.ct.numIsolated) +
        ((List.range k).map (extraPoints conn.ct used)).sum) (fun _ => False) ?_ _ m (by simp) hloop
    intro j s r hj hs hr
    left
    by_cases hv : conn.ct.vc[j]! = inv
    · -- an isolated vertex: nothing to walk
      unfold vertStep at hr
      have : (conn.ct.vc[j]! == inv) = true := by simpa using hv
      rw [if_pos this] at hr
      refine ⟨s, pure_ok hr, ?_⟩
      rw [List.range_succ, List.map_append, List.sum_append, hs]
      simp [extraPoints, hv]
    · have := vertStep_spec conn.ct used j s r (hcl j hj hv) hr
      refine ⟨_, this, ?_⟩
      rw [List.range_succ, List.map_append, List.sum_append, hs]
      simp
      omega
  rcases hI with h | h
  · exact h
  · exact h.elim

/-- with at most one attribute the number of non-isolated vertices is reported -/
theorem computeNumberOfEncodedPoints_single (atts : Array Attribute) (conn : ConnEnc) (used : Array AttConn) (n : Nat)
    (hatts : atts.size ≤ 1) (h : computeNumberOfEncodedPoints atts conn used = .ok n) :
    n = conn.ct.numVertices - conn.ct.numIsolated := by
  rw [computeNumberOfEncodedPoints_eq, if_neg (by omega)] at h
  exact pure_ok h

/-! ### the closedness test from invariants of the corner table -/

open AttViews in
theorem sRE_eq_sRP {N : Nat} {opp : Array Nat} (hb : BaseTbl N opp) {c : Nat} (hc : c < N) : sRE opp c = sRP opp c := by
  have hle := hb.le
  have hp := prevC_ltN hb.n3 hb.le hc
  unfold sRE sRP
  rw [if_neg (by omega), if_neg (by omega)]

open AttViews in
theorem sLE_eq_sLP {N : Nat} {opp : Array Nat} (hb : BaseTbl N opp) {c : Nat} (hc : c < N) : sLE opp c = sLP opp c := by
  have hle := hb.le
  have hp := nextC_ltN hb.n3 hc
  unfold sLE sLP
  rw [if_neg (by omega), if_neg (by omega)]

theorem sRE_inv (opp : Array Nat) : sRE opp inv = inv := by
  simp [sRE, AttViews.prevC_inv]

open AttViews in
/-- along the `SwingRight` walk from a valid corner the two forms of `SwingRight` agree, and the walk stays valid -/
theorem iter_sRE_eq {N : Nat} {opp : Array Nat} (hb : BaseTbl N opp) : ∀ (j : Nat) {c : Nat}, c < N →
    iter (sRE opp) j c = iter (sRP opp) j c ∧ (iter (sRP opp) j c < N ∨ iter (sRP opp) j c = inv) := by
  intro j
  induction j with
  | zero => intro c hc; exact ⟨rfl, Or.inl hc⟩
  | succ j ih =>
    intro c hc
    show iter (sRE opp) j (sRE opp c) = iter (sRP opp) j (sRP opp c) ∧ _
    rw [sRE_eq_sRP hb hc]
    rcases hb.sR_lt hc with e | e
    · rw [e, iter_fix (sRE_inv opp), iter_fix (sRP_inv opp)]
      exact ⟨rfl, Or.inr (by show iter (sRP opp) j (sRP opp c) = inv; rw [e, iter_fix (sRP_inv opp)])⟩
    · exact ih e

/-- a walk that comes back to `first` reaches it through valid corners -/
theorem cyc_true (opp : Array Nat) (first : Nat) : ∀ (fuel c : Nat), cyclicE opp first fuel c = true →
    ∃ j, iter (sRE opp) j c = first ∧ ∀ i, i ≤ j → iter (sRE opp) i c ≠ inv := by
  intro fuel
  induction fuel with
  | zero => intro c h; simp [cyclicE] at h
  | succ fuel ih =>
    intro c h
    unfold cyclicE at h
    by_cases h1 : c = inv
    · rw [if_pos h1] at h; cases h
    rw [if_neg h1] at h
    by_cases h2 : c = first
    · refine ⟨0, h2, fun i hi => ?_⟩
      have : i = 0 := by omega
      rw [this]; exact h1
    rw [if_neg h2] at h
    obtain ⟨j, e, hne⟩ := ih _ h
    refine ⟨j + 1, e, fun i hi => ?_⟩
    cases i with
    | zero => exact h1
    | succ i => exact hne i (by omega)

/-- a terminated run of the loop around a vertex came back to `first` or met the boundary -/
theorem seamLoop_end (t : CT) (used : Array AttConn) (first : Nat) : ∀ (l : List Nat) (last c seams : Nat) (out : WSt),
    forIn l ((last, c, seams, false) : WSt) (seamStep t used first) = .ok out → out.2.2.2 = true →
    cyclicE t.opp first l.length c = true ∨ ∃ j, iter (sRE t.opp) j c = inv := by
  intro l
  induction l with
  | nil =>
    intro last c seams out h hfin
    simp [pure, Except.pure] at h
    rw [← h] at hfin
    cases hfin
  | cons a l ih =>
    intro last c seams out h hfin
    rw [List.forIn_cons] at h
    obtain ⟨r, h1, h2⟩ := (bind_ok_iff _ _ _).mp h
    unfold seamStep at h1
    simp only [] at h1
    rcases ite_ok h1 with ⟨hci, h1⟩ | ⟨hci, h1⟩
    · exact Or.inr ⟨0, by show c = inv; simpa using hci⟩
    have hc : c ≠ inv := by simpa using hci
    obtain ⟨found, _, h1⟩ := (bind_ok_iff _ _ _).mp h1
    have key : ∀ seams1 : Nat,
        (if (c == first) = true then (pure (ForInStep.done (last, c, seams1, true)) : R (ForInStep WSt))
          else swingRight t.opp c >>= fun c' => pure (ForInStep.yield (c, c', seams1, false))) = .ok r →
        cyclicE t.opp first (l.length + 1) c = true ∨ ∃ j, iter (sRE t.opp) j c = inv := by
      intro seams1 hr
      rcases ite_ok hr with ⟨hcf, hr⟩ | ⟨hcf, hr⟩
      · left
        have hcf' : c = first := by simpa using hcf
        have hfi : first ≠ inv := hcf' ▸ hc
        simp [cyclicE, hfi, hcf']
      · have hcf' : c ≠ first := by simpa using hcf
        obtain ⟨c', hc', hr⟩ := (bind_ok_iff _ _ _).mp hr
        rw [pure_ok hr] at h2
        rcases ih c c' seams1 out h2 hfin with e | ⟨j, e⟩
        · left
          rw [swingRight_val hc'] at e
          simp [cyclicE, hc, hcf', e]
        · right
          rw [swingRight_val hc'] at e
          exact ⟨j + 1, e⟩
    rcases ite_ok h1 with ⟨_, h1⟩ | ⟨_, h1⟩
    · exact key _ h1
    · exact key _ h1

open AttViews in
/-- `ClosedOK` for a vertex around which the loop of `ComputeNumberOfEncodedPoints` terminated, from: `Opposite` is an
    involution (`BaseTbl`), the left-most corner is a corner, and a left-most corner with a left neighbour lies on a closed
    fan (`hlm`, the conclusion of `AttViews.lmost_of_cover`) -/
theorem closedOK_of_run {t : CT} (hb : BaseTbl t.numCorners t.opp) {v : Nat} (hlt : t.vc[v]! < t.numCorners)
    (hlm : sLP t.opp t.vc[v]! ≠ inv → ∀ j, iter (sRP t.opp) j t.vc[v]! ≠ inv)
    (hend : cyclicE t.opp t.vc[v]! (t.numCorners + 2) (sRE t.opp t.vc[v]!) = true ∨
      ∃ j, iter (sRE t.opp) j (sRE t.opp t.vc[v]!) = inv) :
    ClosedOK t v := by
  unfold ClosedOK
  have hle := hb.le
  have hfi : t.vc[v]! ≠ inv := by omega
  rw [sLE_eq_sLP hb hlt]
  cases hcyc : cyclicE t.opp t.vc[v]! (t.numCorners + 2) (sRE t.opp t.vc[v]!) with
  | true =>
    obtain ⟨j, e, hne⟩ := cyc_true _ _ _ _ hcyc
    -- the corner before `first` on the walk
    have e' : sRE t.opp (iter (sRE t.opp) j t.vc[v]!) = t.vc[v]! := by
      rw [← iter_succ' (sRE t.opp) j t.vc[v]!]; exact e
    have hbne : iter (sRE t.opp) j t.vc[v]! ≠ inv := by
      cases j with
      | zero => exact hfi
      | succ j => exact hne j (by omega)
    obtain ⟨e1, e2⟩ := iter_sRE_eq hb j hlt
    rw [e1] at e' hbne
    have hblt : iter (sRP t.opp) j t.vc[v]! < t.numCorners := by
      rcases e2 with h | h
      · exact h
      · exact absurd h hbne
    rw [sRE_eq_sRP hb hblt] at e'
    obtain ⟨_, hsl⟩ := hb.sR_sL hblt e' hfi
    rw [hsl]
    simpa using hbne
  | false =>
    rcases hend with h | ⟨j, e⟩
    · rw [hcyc] at h; cases h
    · have e' : iter (sRE t.opp) (j + 1) t.vc[v]! = inv := e
      rw [(iter_sRE_eq hb (j + 1) hlt).1] at e'
      have : sLP t.opp t.vc[v]! = inv := by
        apply Classical.byContradiction
        intro hne
        exact hlm hne (j + 1) e'
      rw [this]
      simp

theorem vertStep_end (t : CT) (used : Array AttConn) (v n : Nat) (r : ForInStep Nat) (hne : t.vc[v]! ≠ inv)
    (h : vertStep t used v n = .ok r) :
    cyclicE t.opp t.vc[v]! (t.numCorners + 2) (sRE t.opp t.vc[v]!) = true ∨
      ∃ j, iter (sRE t.opp) j (sRE t.opp t.vc[v]!) = inv := by
  unfold vertStep at h
  rcases ite_ok h with ⟨hfi, h⟩ | ⟨_, h⟩
  · exact absurd (by simpa using hfi) hne
  obtain ⟨c, hc, h⟩ := (bind_ok_iff _ _ _).mp h
  obtain ⟨out, hloop, h⟩ := (bind_ok_iff _ _ _).mp h
  rcases ite_ok h with ⟨_, h⟩ | ⟨hfin, h⟩
  · exact (throw_bind_ne h).elim
  have hfin' : out.2.2.2 = true := by simpa using hfin
  rw [Seams.range_forIn] at hloop
  have := seamLoop_end t used t.vc[v]! _ _ _ _ out hloop hfin'
  rw [List.length_range', swingRight_val hc] at this
  exact this

open AttViews in
/-- **C09, points (encoder side), from invariants of the corner table.**  As `computeNumberOfEncodedPoints_fan`, the
    hypothesis `ClosedOK` replaced by: `Opposite` is an involution on the `num_corners` corners (`BaseTbl`, which
    `AttViews.fanTbl_enc` gives for a table made by `CornerTable.create`), the left-most corner of a vertex is a corner
    (`hvc`), and a left-most corner that has a left neighbour lies on a closed fan (`hlm`; `AttViews.lmost_of_cover`
    derives it from the cover property of `create`). -/
theorem computeNumberOfEncodedPoints_tbl (atts : Array Attribute) (conn : ConnEnc) (used : Array AttConn) (n : Nat)
    (hatts : atts.size > 1)
    (hb : BaseTbl conn.ct.numCorners conn.ct.opp)
    (hvc : ∀ v, v < conn.ct.numVertices → conn.ct.vc[v]! ≠ inv → conn.ct.vc[v]! < conn.ct.numCorners)
    (hlm : ∀ v, v < conn.ct.numVertices → conn.ct.vc[v]! ≠ inv → sLP conn.ct.opp conn.ct.vc[v]! ≠ inv →
      ∀ j, iter (sRP conn.ct.opp) j conn.ct.vc[v]! ≠ inv)
    (h : computeNumberOfEncodedPoints atts conn used = .ok n) :
    n = (conn.ct.numVertices - conn.ct.numIsolated) +
      ((List.range conn.ct.numVertices).map (extraPoints conn.ct used)).sum := by
  rw [computeNumberOfEncodedPoints_eq, if_pos hatts] at h
  obtain ⟨m, hloop, h⟩ := (bind_ok_iff _ _ _).mp h
  rw [pure_ok h]
  have hI : (m = (conn.ct.numVertices - conn.ct.numIsolated) +
      ((List.range conn.ct.numVertices).map (extraPoints conn.ct used)).sum) ∨ False := by
    refine range_loop conn.ct.numVertices _
      (fun k m => m = (conn.ct.numVertices - conn.ct.numIsolated) +
        ((List.range k).map (extraPoints conn.ct used)).sum) (fun _ => False) ?_ _ m (by simp) hloop
    intro j s r hj hs hr
    left
    by_cases hv : conn.ct.vc[j]! = inv
    · unfold vertStep at hr
      have : (conn.ct.vc[j]! == inv) = true := by simpa using hv
      rw [if_pos this] at hr
      refine ⟨s, pure_ok hr, ?_⟩
      rw [List.range_succ, List.map_append, List.sum_append, hs]
      simp [extraPoints, hv]
    · have hcl := closedOK_of_run hb (hvc j hj hv) (hlm j hj hv) (vertStep_end conn.ct used j s r hv hr)
      have := vertStep_spec conn.ct used j s r hcl hr
      refine ⟨_, this, ?_⟩
      rw [List.range_succ, List.map_append, List.sum_append, hs]
      simp
      omega
  rcases hI with h | h
  · exact h
  · exact h.elim

/-! ### tables made by `CornerTable.create` -/

open AttViews in
/-- `BaseTbl` of the encoder's table -/
theorem baseTbl_ofTable {faces : Faces} {table : CornerTable} (hc : CornerTable.create faces = some table) :
    BaseTbl (CT.ofTable table).numCorners (CT.ofTable table).opp := by
  have hnf := ofTable_view_numFaces hc
  have hnc : (CT.ofTable table).numCorners = 3 * (CT.ofTable table).view.numFaces := by
    rw [hnf]; exact create_c2v_size hc
  have hosz : (CT.ofTable table).view.opp.size = 3 * (CT.ofTable table).view.numFaces := by
    rw [hnf]
    show (Array.map _ table.oppositeCorners).size = _
    rw [Array.size_map, create_opp_size hc]
  rw [hnc]
  exact baseTbl_of_view (CT.ofTable table).view rfl (by rw [hnf]; exact create_fits hc) hosz (oppInvol_ofTable hc)

open AttViews in
/-- `hlm` for a created table whose `vertex_corners_` entries are corners of their vertices -/
theorem lmost_ofTable {faces : Faces} {table : CornerTable} (hc : CornerTable.create faces = some table)
    (hvcE : ∀ v, v < (CT.ofTable table).vc.size → (CT.ofTable table).vc[v]! ≠ inv →
      (CT.ofTable table).vc[v]! < (CT.ofTable table).numCorners ∧
        (CT.ofTable table).c2v[(CT.ofTable table).vc[v]!]! = v)
    (v : Nat) (hv : v < (CT.ofTable table).vc.size) (hne : (CT.ofTable table).vc[v]! ≠ inv)
    (hl : sLP (CT.ofTable table).opp (CT.ofTable table).vc[v]! ≠ inv) :
    ∀ j, iter (sRP (CT.ofTable table).opp) j (CT.ofTable table).vc[v]! ≠ inv := by
  have ht := fanTbl_enc hc hvcE
  obtain ⟨hc0, hbv⟩ := hvcE v hv hne
  have hsz : (CT.ofTable table).numCorners = 3 * faces.size := create_c2v_size hc
  have hfit := create_fits hc
  apply lmost_of_cover ht _ hc0 ?_ hl
  intro y hy hyc
  -- `y` is a corner of the vertex `v` in a non-degenerate face
  have hyne : sRP (CT.ofTable table).opp y ≠ inv := by rw [hyc]; exact hne
  have hbvy : (CT.ofTable table).c2v[y]! = v := by
    have := ht.bvR y hy hyne
    rw [← this, hyc]; exact hbv
  have hnd : faceDegenerate faces (y / 3) = false := by
    cases hd : faceDegenerate faces (y / 3) with
    | false => rfl
    | true =>
      exfalso
      apply hyne
      have hyi : y ≠ inv := by omega
      have hp : Eb.prevC y < 3 * faces.size := by
        rw [← hsz]; exact prevC_ltN ht.toBaseTbl.n3 ht.toBaseTbl.le hy
      have hpd : Eb.prevC y / 3 = y / 3 := Eb.prevC_face y hyi
      have := (CornerTable.createF_degenerate_unlinked hc (Eb.prevC y) (by rw [hpd]; exact hd)).1
      unfold sRP
      rw [if_neg hyi, ofTable_opp_get hc _ hp, this]
      exact prevC_inv
  have := cover_enc_of_create hc y (by rw [← hsz]; exact hy) hnd (by rw [hbvy]; exact hv)
  rw [hbvy] at this
  exact this

open AttViews in
/-- **C09, points (encoder side), for the table `EncodeConnectivity` builds.**  The only hypothesis on the table left
    is `hvcE`: a recorded left-most corner is a corner of its vertex (also assumed by `att_views_iso`). -/
theorem computeNumberOfEncodedPoints_create {faces : Faces} {table : CornerTable}
    (hc : CornerTable.create faces = some table)
    (atts : Array Attribute) (conn : ConnEnc) (used : Array AttConn) (n : Nat) (hct : conn.ct = CT.ofTable table)
    (hatts : atts.size > 1)
    (hvcE : ∀ v, v < conn.ct.vc.size → conn.ct.vc[v]! ≠ inv →
      conn.ct.vc[v]! < conn.ct.numCorners ∧ conn.ct.c2v[conn.ct.vc[v]!]! = v)
    (h : computeNumberOfEncodedPoints atts conn used = .ok n) :
    n = (conn.ct.numVertices - conn.ct.numIsolated) +
      ((List.range conn.ct.numVertices).map (extraPoints conn.ct used)).sum := by
  apply computeNumberOfEncodedPoints_tbl atts conn used n hatts ?_ ?_ ?_ h
  · rw [hct]; exact baseTbl_ofTable hc
  · intro v hv hne
    exact (hvcE v hv hne).1
  · intro v hv hne hl
    rw [hct] at hvcE hne hl hv ⊢
    exact lmost_ofTable hc hvcE v hv hne hl

/-! ### after `EncodeConnectivity` -/

/-- **C09, points (encoder side), on the result of `EncodeConnectivity`.** -/
theorem computeNumberOfEncodedPoints_of_encode (ch : ConnChoices) (valence : Bool) (posFaces : Faces)
    (acv : Array (Nat × Array Nat)) (conn : ConnEnc)
    (henc : encodeConnectivity ch valence posFaces acv = .ok conn)
    (atts : Array Attribute) (used : Array AttConn) (n : Nat)
    (hvcE : ∀ v, v < conn.ct.vc.size → conn.ct.vc[v]! ≠ inv →
      conn.ct.vc[v]! < conn.ct.numCorners ∧ conn.ct.c2v[conn.ct.vc[v]!]! = v)
    (h : computeNumberOfEncodedPoints atts conn used = .ok n) :
    n = (conn.ct.numVertices - conn.ct.numIsolated) +
      (if atts.size > 1 then ((List.range conn.ct.numVertices).map (extraPoints conn.ct used)).sum else 0) := by
  obtain ⟨table, _, hcreate, hct, _⟩ := encodeConnectivity_visited ch valence posFaces acv conn henc
  by_cases hatts : atts.size > 1
  · rw [if_pos hatts]
    exact computeNumberOfEncodedPoints_create hcreate atts conn used n hct hatts hvcE h
  · rw [if_neg hatts, Nat.add_zero]
    exact computeNumberOfEncodedPoints_single atts conn used n (by omega) h

/-! ### non-vacuity -/

/-- a closed fan of three triangles around vertex 0 (corners 0, 6, 3 in `SwingRight` order), rim vertices 1, 2, 3, with
    one attribute corner table in which corner 0 has another vertex than corners 6 and 3 (two seams at vertex 0) -/
def exCT : CT :=
  { c2v := #[0, 1, 2, 0, 2, 3, 0, 3, 1]
    opp := #[inv, 5, 7, inv, 8, 1, inv, 2, 4]
    vc := #[0, 8, 2, 5]
    numDegenerated := 0
    numIsolated := 0 }

def exConn : ConnEnc := { (default : ConnEnc) with ct := exCT }

def exAtt : AttConn := { (default : AttConn) with c2v := #[0, 1, 2, 4, 2, 3, 4, 3, 1] }

def exAttr : Attribute := default

example : computeNumberOfEncodedPoints #[exAttr, exAttr] exConn #[exAtt] = .ok 5 := by decide +kernel

example : (Counts.encPoints (fanOfE exCT #[exAtt] 0), (fanOfE exCT #[exAtt] 0).closed,
    (fanOfE exCT #[exAtt] 0).corners.length) = (2, true, 3) := by decide +kernel

example : (exCT.numVertices - exCT.numIsolated) + ((List.range exCT.numVertices).map (extraPoints exCT #[exAtt])).sum = 5 := by
  decide +kernel

end Draco.EbEnc.EncCounts
