import DracoProofs.EbEncTraceI
import DracoProofs.EbDecSimStartI
import DracoProofs.EbConnSplitFreeI
import DracoProofs.EbCTIsoComplete
import DracoProofs.EbConnExample
/-
  THE CONNECTIVITY LINK FOR RUNS WITHOUT THE SYMBOL `S`, ARBITRARY START FACES, assembled:
  encoder trace (`EncTraceI.traceI_of_run`), pure decoder simulation with interior start faces (`DecSim.ctIso_StI'`), monadic
  glue (`DecSim.connLoop_StI`), stream-level glue (`ConnSplitFreeI.eb_connectivity_roundtrip_noS`).

  * `callStarts_length_of_run`: one call of `EncodeConnectivityFromCorner` per start-face flag;
    `startsOf_flags_of_run`: the flags of the trace are the recorded start faces.
  * `hinv_St_I`, `runStarts_c2v`, `vc_size_St_I_le`, `hv_of_run`: the symbol phase of the pure decoder creates at most
    `num_vertices − num_isolated` vertices (the side condition `hv` of `connLoop_StI`).
  * `decLoopIso_of_run`: `ConnSplitFreeI.DecLoopIso conn` with `co := coOfI …`.
  * `eb_connectivity_roundtrip_noS_closed`, `…_checker`.
  * `tetraLink`: the tetrahedron (closed mesh, interior start face), every hypothesis by kernel evaluation.
-/
namespace Draco.EbEnc.NoSLink
open Draco Draco.SeqEnc DecM
open Draco.Eb hiding nextC prevC iabs
open Draco.EbEnc.EncCounts Draco.EbEnc.Coverage Draco.EbEnc.DecSim Draco.EbEnc.ConnTri Draco.EbEnc.ConnGlue
open Draco.EbEnc.ConnSplitFree Draco.EbEnc.ConnSplitFreeI Draco.EbEnc.EncTraceI


/-- **one call per start-face flag** (no `S`): the calls start at `0` and after every `E` -/
theorem callStarts_length_of_run (ch : ConnChoices) (pf : Faces) (conn : ConnEnc)
    (h : encodeConnectivity ch false pf #[] = .ok conn)
    (hnoS : ∀ x, x ∈ conn.symbols.toList → x ≠ topoS) :
    (callStarts conn.symbols).length = conn.startFaces.size := by
  have hrun := h
  rw [encodeConnectivity_eq] at hrun
  split at hrun
  · rename_i table hcreate
    have hT := tblOK_ofTable hcreate
    have hcov := cover_ofTable hcreate
    simp only [] at hrun
    rcases ite_ok hrun with ⟨_, hrun⟩ | ⟨_, hrun⟩
    · exact (throw_bind_ne hrun).elim
    obtain ⟨x, hx, hrun⟩ := (bind_ok_iff _ _ _).mp hrun
    have hH : HolesOK (CT.ofTable table) x.1 := findHoles_spec hT (nh := x.2) hx
    obtain ⟨atts, _, hrun⟩ := (bind_ok_iff _ _ _).mp hrun
    obtain ⟨val, hrun⟩ := ite_bind_both hrun
    obtain ⟨s, hloop, hrun⟩ := (bind_ok_iff _ _ _).mp hrun
    have hI : (Coverage.OInv (CT.ofTable table) s ∧
        TrInv (CT.ofTable table) x.1 s.2.2.2.2.2.2.2.2.1 s.1 s.2.2.2.2.2.2.2.1 s.2.2.2.2.1 inv ∧
        InitOK (CT.ofTable table) x.1 s.1 s.2.2.2.2.2.2.2.2.1 ∧ OPos (CT.ofTable table) s) ∨ False := by
      refine range_loop _ _
        (fun _ s => Coverage.OInv (CT.ofTable table) s ∧
          TrInv (CT.ofTable table) x.1 s.2.2.2.2.2.2.2.2.1 s.1 s.2.2.2.2.2.2.2.1 s.2.2.2.2.1 inv ∧
          InitOK (CT.ofTable table) x.1 s.1 s.2.2.2.2.2.2.2.2.1 ∧ OPos (CT.ofTable table) s)
        (fun _ => False) ?_ _ s ?_ hloop
      · intro j s r hj ⟨hO, hTr, hC, hP⟩ hr
        left
        obtain ⟨s', e, hO', _, _⟩ := outerBody_cov hT hH j s r hj hO hr
        obtain ⟨s'', e', hTr'⟩ := outerBody_tr hT hH hcov j s r hj hO hTr hr
        obtain ⟨s3, e3, hC'⟩ := outerBody_init hT hH hcov j s r hj hO hC hr
        obtain ⟨s4, e4, hP'⟩ := outerBody_pos hT hH j s r hj hO hP hr
        rw [e] at e' e3 e4; cases e'; cases e3; cases e4
        exact ⟨s', e, hO', hTr', hC', hP'⟩
      · refine ⟨⟨inv_init (CT.ofTable table) _ _ rfl, closed_init _ _⟩, trInv_init _ _ _, initOK_init _ _ _, rfl, rfl, ?_⟩
        intro _
        exact ⟨rfl, Or.inl rfl, fun k hk => by simp at hk⟩
    obtain ⟨hO, hTr, hC, hP⟩ := hI.resolve_right (fun h => h)
    obtain ⟨vf, vv, vh, val2, sy, sf, sfs, P, ifc, sp, f2s, ls, nss⟩ := s
    dsimp only at hTr hC
    obtain ⟨_, p2, p3⟩ := hP
    dsimp only at p2 p3
    obtain ⟨sb, _, hrun⟩ := (bind_ok_iff _ _ _).mp hrun
    have hconn : conn.ct = CT.ofTable table ∧ conn.processed = P.reverse ++ ifc ∧ conn.symbols = sy ∧
        conn.startFaces = sfs := by
      rcases ite_ok hrun with ⟨_, hrun⟩ | ⟨_, hrun⟩
      · obtain ⟨cb, _, hrun⟩ := (bind_ok_iff _ _ _).mp hrun
        have := pure_ok hrun
        rw [this]
        exact ⟨rfl, rfl, rfl, rfl⟩
      · have := pure_ok hrun
        rw [this]
        exact ⟨rfl, rfl, rfl, rfl⟩
    obtain ⟨e1, e2, e3, e4⟩ := hconn
    have hInv : Inv (CT.ofTable table) vf vv P ifc := hO.1
    have hn : noS sy := by rw [← e3]; exact hnoS
    obtain ⟨q1, _, q3⟩ := p3 hn
    rw [e3, e4]
    exact q1
  · simp only [throw, throwThe, MonadExceptOf.throw] at hrun
    cases hrun


/-- the start-face flags of the trace of a run are the recorded start faces -/
theorem startsOf_flags_of_run (ch : ConnChoices) (pf : Faces) (conn : ConnEnc)
    (h : encodeConnectivity ch false pf #[] = .ok conn)
    (hnoS : ∀ x, x ∈ conn.symbols.toList → x ≠ topoS) :
    (startsOf conn.symbols conn.startFaces).map (·.1) = conn.startFaces.toList :=
  startsOf_flags _ _ (callStarts_length_of_run ch pf conn h hnoS)



/-! ## (ii) the vertex bound of the symbol phase under `TraceI` -/

/-- the corners of a face with the facts of the trace carry different encoder vertices -/
theorem nd_phi_of_face {t : CT} {P : Array Nat} {syms : List Nat} (hC : Ctx t P) {d : Nat} (hd : d / 3 < P.size)
    (hf : TraceAt t P syms (d / 3)) : t.c2v[phi P d]! ≠ t.c2v[Eb.prevC (phi P d)]! := by
  obtain ⟨_, _, ⟨n1, n2, n3⟩, _⟩ := hf
  have hc := hC.p_inv hd
  have e : d = 3 * (d / 3) + d % 3 := by omega
  have h3 : d % 3 = 0 ∨ d % 3 = 1 ∨ d % 3 = 2 := by omega
  rcases h3 with h | h | h
  · rw [e, h, Nat.add_zero, DecSim.phi_0]; exact n2
  · rw [e, h, DecSim.phi_1, Eb.prevC_nextC _ hc]; exact fun e => n1 e.symm
  · rw [e, h, DecSim.phi_2, EncCounts.prevC_prevC' _ hc]; exact fun e => n3 e.symm

/-- one symbol preserves the hole-flag invariant, from the facts of the trace about the faces `≤ j` -/
theorem hinv_step' {t : CT} {P : Array Nat} {syms : List Nat} (hC : Ctx t P) {maxV j : Nat} {s : DS}
    (hfl : ∀ i, i ≤ j → TraceAt t P syms i)
    (hI : Inv t P j s) (hH : DecSimHole.HInv maxV j s) (hj : j < P.size) :
    DecSimHole.HInv maxV (j + 1) (step syms[j]! j s) := by
  have hinv := hC.fits'
  obtain ⟨_, hg, _, hE, hR, hL, hCc, hsym⟩ := hfl j (Nat.le_refl _)
  have hgp : 0 < j → Later P (j - 1) t.opp[P[j - 1]!]! := fun h0 => (hfl (j - 1) (by omega)).2.1
  have hnd : 0 < j → t.c2v[Eb.nextC P[j - 1]!]! ≠ t.c2v[Eb.prevC P[j - 1]!]! :=
    fun h0 => (hfl (j - 1) (by omega)).2.2.1.2.2
  unfold step
  by_cases h7 : syms[j]! = 7
  · rw [if_pos h7]
    exact DecSimHole.hinv_stepE hC hI hH hj
  · rw [if_neg h7]
    by_cases h5 : syms[j]! = 5
    · rw [if_pos h5, stepR_eq]
      obtain ⟨h0, a, b⟩ := hR h5
      exact DecSimHole.hinv_stepQ hC hI hH hj h0 (hgp h0) _ _ _ (by omega)
        ⟨nx2 _ (by omega), pv2 _ (by omega), nx0 _ (by omega), nx1 _ (by omega)⟩ (hnd h0)
    · rw [if_neg h5]
      by_cases h3 : syms[j]! = 3
      · rw [if_pos h3, stepL_eq]
        obtain ⟨h0, a, b⟩ := hL h3
        exact DecSimHole.hinv_stepQ hC hI hH hj h0 (hgp h0) _ _ _ (by omega)
          ⟨nx1 _ (by omega), pv1 _ (by omega), nx2 _ (by omega), nx0 _ (by omega)⟩ (hnd h0)
      · rw [if_neg h3]
        have h0' : syms[j]! = 0 := by omega
        obtain ⟨h0, a, m, _, hm, hcl, hEar⟩ := hCc h0'
        obtain ⟨l, hF⟩ := hI.cfacts hC hj h0 (hgp h0) a m hm hcl hEar
        have i3 : 3 * j ≤ inv := by omega
        have hl := hF.ll
        have hnl : Eb.nextC l < 3 * j := EncCounts.nextC_lt3 hl i3
        have hnnl : Eb.nextC (Eb.nextC l) < 3 * j := EncCounts.nextC_lt3 hnl i3
        refine DecSimHole.hinv_stepC hC hI hH hj h0 hF ?_ ?_
        · intro e
          have := hI.v.fine _ _ (by omega) (by omega) e
          rw [DecSim.phi_1, DecSim.phi_2] at this
          exact hnd h0 this
        · intro e
          rw [← hF.vl] at e
          have := hI.v.fine _ _ hl hnnl e
          have hli : l < inv := by omega
          rw [EncCounts.nextC_nextC' _ hli, phi_prevC P l hli (hC.p_inv (by omega))] at this
          exact nd_phi_of_face hC (by omega) (hfl (l / 3) (by omega)) this

theorem hinv_St_I {t : CT} {P : Array Nat} {syms : List Nat} {starts : List (Bool × Nat)} (hT : TblOK t)
    (hTr : TraceI t P syms starts) (maxV : Nat) :
    ∀ j, j ≤ syms.length → DecSimHole.HInv maxV j (St syms P.size maxV j)
  | 0, _ => DecSimHole.HInv.init P.size maxV
  | j+1, h => by
    have hs := hTr.size
    exact hinv_step' (hTr.ctx hT) (fun i hi => hTr.face i (by omega)) (inv_St_I hT hTr maxV j (by omega))
      (hinv_St_I hT hTr maxV j (by omega)) (by omega)

/-- the start phase does not touch the vertices of the symbol corners -/
theorem runStarts_c2v (fl : List Bool) : ∀ (i : Nat) (s : DS) (d : Nat), d < 3 * i →
    (runStarts fl i s).c2v[d]! = s.c2v[d]! := by
  induction fl with
  | nil => intro i s d _; rfl
  | cons b r ih =>
    intro i s d hd
    cases b with
    | false => exact ih i (popS s) d hd
    | true =>
      show (runStarts r (i + 1) (stepI i s)).c2v[d]! = _
      rw [ih (i + 1) (stepI i s) d (by omega)]
      show (((s.c2v.set! (3 * i) _).set! (3 * i + 1) _).set! (3 * i + 2) _)[d]! = _
      rw [get_set_ne _ _ _ _ (by omega), get_set_ne _ _ _ _ (by omega), get_set_ne _ _ _ _ (by omega)]

/-- **(ii) `hv`**: the symbol phase of the pure decoder creates at most as many vertices as the encoder's table has in use -/
theorem vc_size_St_I_le {t : CT} {P : Array Nat} {syms : List Nat} {starts : List (Bool × Nat)} (hT : TblOK t)
    (hTr : TraceI t P syms starts) (maxV : Nat)
    (hcov : ∀ d, d < 3 * P.size → ∃ k, iter (AttViews.sRP t.opp) k t.vc[t.c2v[phi P d]!]! = phi P d)
    (hvlt : ∀ d, d < 3 * P.size → t.c2v[phi P d]! < t.numVertices) :
    (St syms P.size maxV syms.length).vc.size ≤ (CountsIso.usedVerts t.vc).length := by
  have hC := hTr.ctx hT
  have hs := hTr.size
  have hiso := ctIso_StI' hT hTr maxV hcov hvlt
  have hH := hinv_St_I hT hTr maxV syms.length (Nat.le_refl _)
  have hold : ∀ d, d < 3 * syms.length → (StI syms starts P.size maxV).c2v[d]! = (St syms P.size maxV syms.length).c2v[d]! :=
    fun d hd => runStarts_c2v _ _ _ d hd
  have hnd : ((List.range (St syms P.size maxV syms.length).vc.size).map
      (fun v => t.c2v[phi P (St syms P.size maxV syms.length).vc[v]!]!)).Nodup := by
    refine List.Nodup.map_on ?_ List.nodup_range
    intro v hv v' hv' e
    rw [List.mem_range] at hv hv'
    obtain ⟨a1, a2⟩ := hH.vcok v hv
    obtain ⟨b1, b2⟩ := hH.vcok v' hv'
    have := (hiso.vertex _ _ (by omega) (by omega)).mpr e
    rw [hold _ a1, hold _ b1, a2, b2] at this
    exact this
  have hsub : (List.range (St syms P.size maxV syms.length).vc.size).map
      (fun v => t.c2v[phi P (St syms P.size maxV syms.length).vc[v]!]!) ⊆ CountsIso.usedVerts t.vc := by
    intro w hw
    rw [List.mem_map] at hw
    obtain ⟨v, hv, rfl⟩ := hw
    rw [List.mem_range] at hv
    obtain ⟨a1, _⟩ := hH.vcok v hv
    have a1' : (St syms P.size maxV syms.length).vc[v]! < 3 * P.size := by omega
    rw [CountsIso.mem_usedVerts]
    refine ⟨hvlt _ a1', ?_⟩
    intro e
    obtain ⟨k, hk⟩ := hcov _ a1'
    rw [e, AttViews.iter_fix (AttViews.sRP_inv _)] at hk
    have := hC.phi_inv a1'
    omega
  have := hnd.length_le_of_subset hsub
  simpa using this

/-- **`hv` from the run** -/
theorem hv_of_run (ch : ConnChoices) (pf : Faces) (conn : ConnEnc)
    (h : encodeConnectivity ch false pf #[] = .ok conn)
    (hnoS : ∀ x, x ∈ conn.symbols.toList → x ≠ topoS) :
    (St conn.symbols.toList.reverse conn.processed.size (conn.ct.numVertices - conn.ct.numIsolated)
      conn.symbols.size).vc.size ≤ conn.ct.numVertices - conn.ct.numIsolated := by
  obtain ⟨hT, hTr⟩ := traceI_of_run ch pf conn h hnoS
  obtain ⟨hcov, hvlt⟩ := EncTrace.cover_of_run ch false pf #[] conn h
  have hlen : conn.symbols.toList.reverse.length = conn.symbols.size := by simp
  rw [CountsIso.usedVerts_count_of_run h, ← hlen]
  exact vc_size_St_I_le hT hTr _ hcov hvlt

/-- **the decoder loop, discharged** -/
theorem decLoopIso_of_run (ch : ConnChoices) (pf : Faces) (conn : ConnEnc)
    (h : encodeConnectivity ch false pf #[] = .ok conn)
    (hnoS : ∀ x, x ∈ conn.symbols.toList → x ≠ topoS) :
    DecLoopIso conn := by
  obtain ⟨hT, hTr⟩ := traceI_of_run ch pf conn h hnoS
  obtain ⟨hcov, hvlt⟩ := EncTrace.cover_of_run ch false pf #[] conn h
  have hv := hv_of_run ch pf conn h hnoS
  have hlen : conn.symbols.toList.reverse.length = conn.symbols.size := by simp
  have hfl := startsOf_flags_of_run ch pf conn h hnoS
  refine ⟨coOfI conn.symbols.toList.reverse (startsOf conn.symbols conn.startFaces) conn.processed.size
    (conn.ct.numVertices - conn.ct.numIsolated), ?_, ?_⟩
  · intro tr hD
    have := connLoop_StI hT hTr (conn.ct.numVertices - conn.ct.numIsolated) (by rw [hlen]; exact hv) tr
      (by rw [hfl]; exact hD)
    rw [hlen] at this
    exact this
  · obtain ⟨e1, e2, _⟩ := coOfI_tables conn.symbols.toList.reverse (startsOf conn.symbols conn.startFaces)
      conn.processed.size (conn.ct.numVertices - conn.ct.numIsolated)
    rw [e1, e2]
    exact ctIso_StI' hT hTr _ hcov hvlt

/-- **the connectivity link for runs without `S`, arbitrary start faces** (standard traversal, no attribute data, every
    encoder choice).  Hypotheses: the run, `hnoS`, and the decoder's domain checks `hnf`, `hnv`, `hedge`,
    `hsz2` only. -/
theorem eb_connectivity_roundtrip_noS_closed (ch : ConnChoices) (pf : Faces) (conn : ConnEnc)
    (h : encodeConnectivity ch false pf #[] = .ok conn)
    (hnoS : ∀ x, x ∈ conn.symbols.toList → x ≠ topoS)
    (hnf : conn.processed.size ≤ 2 ^ 21)
    (hnv : conn.ct.numVertices - conn.ct.numIsolated ≤ 3 * 2 ^ 21)
    (hedge : 3 * conn.processed.size / 2 ≤
      (conn.ct.numVertices - conn.ct.numIsolated) * (conn.ct.numVertices - conn.ct.numIsolated - 1) / 2)
    (hsz2 : conn.processed.size ≤ conn.symbols.size + conn.symbols.size / 3) :
    ∃ mesh, Runs decodeConnectivity 514 ([0] ++ conn.bytes) mesh 514 ∧
      CTIso conn.ct conn.processed mesh.numFaces mesh.c2v mesh.opp ∧ mesh.atts.size = conn.atts.size :=
  eb_connectivity_roundtrip_noS ch pf conn h hnoS hnf hnv hedge hsz2 (decLoopIso_of_run ch pf conn h hnoS)

/-- … in checker form: the Boolean `ctIso … = true` -/
theorem eb_connectivity_roundtrip_noS_checker (ch : ConnChoices) (pf : Faces) (conn : ConnEnc)
    (h : encodeConnectivity ch false pf #[] = .ok conn)
    (hnoS : ∀ x, x ∈ conn.symbols.toList → x ≠ topoS)
    (hnf : conn.processed.size ≤ 2 ^ 21)
    (hnv : conn.ct.numVertices - conn.ct.numIsolated ≤ 3 * 2 ^ 21)
    (hedge : 3 * conn.processed.size / 2 ≤
      (conn.ct.numVertices - conn.ct.numIsolated) * (conn.ct.numVertices - conn.ct.numIsolated - 1) / 2)
    (hsz2 : conn.processed.size ≤ conn.symbols.size + conn.symbols.size / 3) :
    ∃ mesh, Runs decodeConnectivity 514 ([0] ++ conn.bytes) mesh 514 ∧
      ctIso conn.ct conn.processed mesh.numFaces mesh.c2v mesh.opp = true ∧ mesh.atts.size = conn.atts.size :=
  CTIsoComplete.ctIso_of_CTIso_link
    (eb_connectivity_roundtrip_noS_closed ch pf conn h hnoS hnf hnv hedge hsz2)

/-! ## instance: the tetrahedron (closed mesh, one interior start face) -/

open Draco.EbEnc.ConnExample in
def tetra : Faces := #[(0, 1, 2), (0, 3, 1), (1, 3, 2), (2, 3, 0)]

open Draco.EbEnc.ConnExample in
def tetraConn : ConnEnc :=
  match encodeConnectivity exCh.conn false tetra #[] with
  | .ok c => c
  | .error _ => default

open Draco.EbEnc.ConnExample in
theorem tetraEncode : encodeConnectivity exCh.conn false tetra #[] = .ok tetraConn := by
  have h : (match encodeConnectivity exCh.conn false tetra #[] with | .ok _ => true | .error _ => false) = true := by
    decide +kernel
  unfold tetraConn
  split at h
  · rename_i e he; rw [he]
  · exact absurd h (by decide)

open Draco.EbEnc.ConnExample in
/-- **non-vacuity with an interior start face**: the model's own run on the tetrahedron (symbols C R E, start-face flag
    `true`); every hypothesis by kernel evaluation -/
theorem tetraLink : tetraConn.symbols = #[0, 5, 7] ∧ tetraConn.startFaces = #[true] ∧
    ∃ mesh, Runs decodeConnectivity 514 ([0] ++ tetraConn.bytes) mesh 514 ∧
      ctIso tetraConn.ct tetraConn.processed mesh.numFaces mesh.c2v mesh.opp = true ∧
      CTIso tetraConn.ct tetraConn.processed mesh.numFaces mesh.c2v mesh.opp :=
  ⟨by decide +kernel, by decide +kernel, by
    obtain ⟨mesh, h1, h2, _⟩ := eb_connectivity_roundtrip_noS_closed exCh.conn tetra tetraConn tetraEncode
      (by decide +kernel) (by decide +kernel) (by decide +kernel) (by decide +kernel) (by decide +kernel)
    exact ⟨mesh, h1, CTIsoComplete.ctIso_complete h2, h2⟩⟩

end Draco.EbEnc.NoSLink
