import DracoProofs.EbEncTraceI
import DracoProofs.EbDecSimStartI
import DracoProofs.EbConnSplitFreeI
import DracoProofs.EbCTIsoComplete
import DracoProofs.EbConnExample
/-
  THE CONNECTIVITY LINK FOR RUNS WITHOUT THE SYMBOL `S`, ARBITRARY START FACES, assembled:
  encoder trace (`EncTraceI.traceI_of_run`), pure decoder simulation with interior start faces (`DecSim.ctIso_StI'`), monadic
  glue (`DecSim.connLoop_StI`), stream-level glue (`ConnSplitFreeI.eb_connectivity_roundtrip_noS`).

  * `callStarts_length_of_run`: one call of `EncodeConnectivityFromCorner` per start-face flag;
    `startsOf_flags_of_run`: the flags of the trace are the recorded start faces.
  * `decLoopIso_of_run`: `ConnSplitFreeI.DecLoopIso conn` with `co := coOfI …`.
  * `eb_connectivity_roundtrip_noS_closed`, `…_checker`.
  * `tetraLink`: the tetrahedron (closed mesh, interior start face), every hypothesis by kernel evaluation.
-/
namespace Draco.EbEnc.NoSLink
open Draco Draco.SeqEnc DecM
open Draco.Eb hiding nextC prevC iabs
open Draco.EbEnc.EncCounts Draco.EbEnc.Coverage Draco.EbEnc.DecSim Draco.EbEnc.ConnTri Draco.EbEnc.ConnGlue
open Draco.EbEnc.ConnSplitFree Draco.EbEnc.ConnSplitFreeI Draco.EbEnc.EncTraceI

/-- **one call per start-face flag** (no `S`): the calls start at `0` and after every `E` -/
theorem callStarts_length_of_run (ch : ConnChoices) (pf : Faces) (conn : ConnEnc)
    (h : encodeConnectivity ch false pf #[] = .ok conn)
    (hnoS : ∀ x, x ∈ conn.symbols.toList → x ≠ topoS) :
    (callStarts conn.symbols).length = conn.startFaces.size := by
  have hrun := h
  rw [encodeConnectivity_eq] at hrun
  split at hrun
  · rename_i table hcreate
    have hT := tblOK_ofTable hcreate
    have hcov := cover_ofTable hcreate
    simp only [] at hrun
    rcases ite_ok hrun with ⟨_, hrun⟩ | ⟨_, hrun⟩
    · exact (throw_bind_ne hrun).elim
    obtain ⟨x, hx, hrun⟩ := (bind_ok_iff _ _ _).mp hrun
    have hH : HolesOK (CT.ofTable table) x.1 := findHoles_spec hT (nh := x.2) hx
    obtain ⟨atts, _, hrun⟩ := (bind_ok_iff _ _ _).mp hrun
    obtain ⟨val, hrun⟩ := ite_bind_both hrun
    obtain ⟨s, hloop, hrun⟩ := (bind_ok_iff _ _ _).mp hrun
    have hI : (Coverage.OInv (CT.ofTable table) s ∧
        TrInv (CT.ofTable table) x.1 s.2.2.2.2.2.2.2.2.1 s.1 s.2.2.2.2.2.2.2.1 s.2.2.2.2.1 inv ∧
        InitOK (CT.ofTable table) x.1 s.1 s.2.2.2.2.2.2.2.2.1 ∧ OPos (CT.ofTable table) s) ∨ False := by
      refine range_loop _ _
        (fun _ s => Coverage.OInv (CT.ofTable table) s ∧
          TrInv (CT.ofTable table) x.1 s.2.2.2.2.2.2.2.2.1 s.1 s.2.2.2.2.2.2.2.1 s.2.2.2.2.1 inv ∧
          InitOK (CT.ofTable table) x.1 s.1 s.2.2.2.2.2.2.2.2.1 ∧ OPos (CT.ofTable table) s)
        (fun _ => False) ?_ _ s ?_ hloop
      · intro j s r hj ⟨hO, hTr, hC, hP⟩ hr
        left
        obtain ⟨s', e, hO', _, _⟩ := outerBody_cov hT hH j s r hj hO hr
        obtain ⟨s'', e', hTr'⟩ := outerBody_tr hT hH hcov j s r hj hO hTr hr
        obtain ⟨s3, e3, hC'⟩ := outerBody_init hT hH hcov j s r hj hO hC hr
        obtain ⟨s4, e4, hP'⟩ := outerBody_pos hT hH j s r hj hO hP hr
        rw [e] at e' e3 e4; cases e'; cases e3; cases e4
        exact ⟨s', e, hO', hTr', hC', hP'⟩
      · refine ⟨⟨inv_init (CT.ofTable table) _ _ rfl, closed_init _ _⟩, trInv_init _ _ _, initOK_init _ _ _, rfl, rfl, ?_⟩
        intro _
        exact ⟨rfl, Or.inl rfl, fun k hk => by simp at hk⟩
    obtain ⟨hO, hTr, hC, hP⟩ := hI.resolve_right (fun h => h)
    obtain ⟨vf, vv, vh, val2, sy, sf, sfs, P, ifc, sp, f2s, ls, nss⟩ := s
    dsimp only at hTr hC
    obtain ⟨_, p2, p3⟩ := hP
    dsimp only at p2 p3
    obtain ⟨sb, _, hrun⟩ := (bind_ok_iff _ _ _).mp hrun
    have hconn : conn.ct = CT.ofTable table ∧ conn.processed = P.reverse ++ ifc ∧ conn.symbols = sy ∧
        conn.startFaces = sfs := by
      rcases ite_ok hrun with ⟨_, hrun⟩ | ⟨_, hrun⟩
      · obtain ⟨cb, _, hrun⟩ := (bind_ok_iff _ _ _).mp hrun
        have := pure_ok hrun
        rw [this]
        exact ⟨rfl, rfl, rfl, rfl⟩
      · have := pure_ok hrun
        rw [this]
        exact ⟨rfl, rfl, rfl, rfl⟩
    obtain ⟨e1, e2, e3, e4⟩ := hconn
    have hInv : Inv (CT.ofTable table) vf vv P ifc := hO.1
    have hn : noS sy := by rw [← e3]; exact hnoS
    obtain ⟨q1, _, q3⟩ := p3 hn
    rw [e3, e4]
    exact q1
  · simp only [throw, throwThe, MonadExceptOf.throw] at hrun
    cases hrun


/-- the start-face flags of the trace of a run are the recorded start faces -/
theorem startsOf_flags_of_run (ch : ConnChoices) (pf : Faces) (conn : ConnEnc)
    (h : encodeConnectivity ch false pf #[] = .ok conn)
    (hnoS : ∀ x, x ∈ conn.symbols.toList → x ≠ topoS) :
    (startsOf conn.symbols conn.startFaces).map (·.1) = conn.startFaces.toList :=
  startsOf_flags _ _ (callStarts_length_of_run ch pf conn h hnoS)

/-- **the decoder loop, discharged**: `hv` = the pure decoder creates at most `num_vertices − num_isolated` vertices in its
    symbol phase -/
theorem decLoopIso_of_run (ch : ConnChoices) (pf : Faces) (conn : ConnEnc)
    (h : encodeConnectivity ch false pf #[] = .ok conn)
    (hnoS : ∀ x, x ∈ conn.symbols.toList → x ≠ topoS)
    (hv : (St conn.symbols.toList.reverse conn.processed.size (conn.ct.numVertices - conn.ct.numIsolated)
      conn.symbols.size).vc.size ≤ conn.ct.numVertices - conn.ct.numIsolated) :
    DecLoopIso conn := by
  obtain ⟨hT, hTr⟩ := traceI_of_run ch pf conn h hnoS
  obtain ⟨hcov, hvlt⟩ := EncTrace.cover_of_run ch false pf #[] conn h
  have hlen : conn.symbols.toList.reverse.length = conn.symbols.size := by simp
  have hfl := startsOf_flags_of_run ch pf conn h hnoS
  refine ⟨coOfI conn.symbols.toList.reverse (startsOf conn.symbols conn.startFaces) conn.processed.size
    (conn.ct.numVertices - conn.ct.numIsolated), ?_, ?_⟩
  · intro tr hD
    have := connLoop_StI hT hTr (conn.ct.numVertices - conn.ct.numIsolated) (by rw [hlen]; exact hv) tr
      (by rw [hfl]; exact hD)
    rw [hlen] at this
    exact this
  · obtain ⟨e1, e2, _⟩ := coOfI_tables conn.symbols.toList.reverse (startsOf conn.symbols conn.startFaces)
      conn.processed.size (conn.ct.numVertices - conn.ct.numIsolated)
    rw [e1, e2]
    exact ctIso_StI' hT hTr _ hcov hvlt

/-- **the connectivity link for runs without `S`, arbitrary start faces** (standard traversal, no attribute data, every
    encoder choice).  Named hypotheses: the decoder's domain checks `hnf`, `hnv`, `hedge`, `hsz2`, and `hv` (the pure
    decoder's vertex count in the symbol phase stays within the count the encoder writes). -/
theorem eb_connectivity_roundtrip_noS_closed (ch : ConnChoices) (pf : Faces) (conn : ConnEnc)
    (h : encodeConnectivity ch false pf #[] = .ok conn)
    (hnoS : ∀ x, x ∈ conn.symbols.toList → x ≠ topoS)
    (hnf : conn.processed.size ≤ 2 ^ 21)
    (hnv : conn.ct.numVertices - conn.ct.numIsolated ≤ 3 * 2 ^ 21)
    (hedge : 3 * conn.processed.size / 2 ≤
      (conn.ct.numVertices - conn.ct.numIsolated) * (conn.ct.numVertices - conn.ct.numIsolated - 1) / 2)
    (hsz2 : conn.processed.size ≤ conn.symbols.size + conn.symbols.size / 3)
    (hv : (St conn.symbols.toList.reverse conn.processed.size (conn.ct.numVertices - conn.ct.numIsolated)
      conn.symbols.size).vc.size ≤ conn.ct.numVertices - conn.ct.numIsolated) :
    ∃ mesh, Runs decodeConnectivity 514 ([0] ++ conn.bytes) mesh 514 ∧
      CTIso conn.ct conn.processed mesh.numFaces mesh.c2v mesh.opp ∧ mesh.atts.size = conn.atts.size :=
  eb_connectivity_roundtrip_noS ch pf conn h hnoS hnf hnv hedge hsz2 (decLoopIso_of_run ch pf conn h hnoS hv)

/-- … in checker form: the Boolean `ctIso … = true` -/
theorem eb_connectivity_roundtrip_noS_checker (ch : ConnChoices) (pf : Faces) (conn : ConnEnc)
    (h : encodeConnectivity ch false pf #[] = .ok conn)
    (hnoS : ∀ x, x ∈ conn.symbols.toList → x ≠ topoS)
    (hnf : conn.processed.size ≤ 2 ^ 21)
    (hnv : conn.ct.numVertices - conn.ct.numIsolated ≤ 3 * 2 ^ 21)
    (hedge : 3 * conn.processed.size / 2 ≤
      (conn.ct.numVertices - conn.ct.numIsolated) * (conn.ct.numVertices - conn.ct.numIsolated - 1) / 2)
    (hsz2 : conn.processed.size ≤ conn.symbols.size + conn.symbols.size / 3)
    (hv : (St conn.symbols.toList.reverse conn.processed.size (conn.ct.numVertices - conn.ct.numIsolated)
      conn.symbols.size).vc.size ≤ conn.ct.numVertices - conn.ct.numIsolated) :
    ∃ mesh, Runs decodeConnectivity 514 ([0] ++ conn.bytes) mesh 514 ∧
      ctIso conn.ct conn.processed mesh.numFaces mesh.c2v mesh.opp = true ∧ mesh.atts.size = conn.atts.size :=
  CTIsoComplete.ctIso_of_CTIso_link
    (eb_connectivity_roundtrip_noS_closed ch pf conn h hnoS hnf hnv hedge hsz2 hv)

/-! ## instance: the tetrahedron (closed mesh, one interior start face) -/

open Draco.EbEnc.ConnExample in
def tetra : Faces := #[(0, 1, 2), (0, 3, 1), (1, 3, 2), (2, 3, 0)]

open Draco.EbEnc.ConnExample in
def tetraConn : ConnEnc :=
  match encodeConnectivity exCh.conn false tetra #[] with
  | .ok c => c
  | .error _ => default

open Draco.EbEnc.ConnExample in
theorem tetraEncode : encodeConnectivity exCh.conn false tetra #[] = .ok tetraConn := by
  have h : (match encodeConnectivity exCh.conn false tetra #[] with | .ok _ => true | .error _ => false) = true := by
    decide +kernel
  unfold tetraConn
  split at h
  · rename_i e he; rw [he]
  · exact absurd h (by decide)

open Draco.EbEnc.ConnExample in
/-- **non-vacuity with an interior start face**: the model's own run on the tetrahedron (symbols C R E, start-face flag
    `true`); every hypothesis by kernel evaluation -/
theorem tetraLink : tetraConn.symbols = #[0, 5, 7] ∧ tetraConn.startFaces = #[true] ∧
    ∃ mesh, Runs decodeConnectivity 514 ([0] ++ tetraConn.bytes) mesh 514 ∧
      ctIso tetraConn.ct tetraConn.processed mesh.numFaces mesh.c2v mesh.opp = true ∧
      CTIso tetraConn.ct tetraConn.processed mesh.numFaces mesh.c2v mesh.opp :=
  ⟨by decide +kernel, by decide +kernel, by
    obtain ⟨mesh, h1, h2, _⟩ := eb_connectivity_roundtrip_noS_closed exCh.conn tetra tetraConn tetraEncode
      (by decide +kernel) (by decide +kernel) (by decide +kernel) (by decide +kernel) (by decide +kernel)
      (by decide +kernel)
    exact ⟨mesh, h1, CTIsoComplete.ctIso_complete h2, h2⟩⟩

end Draco.EbEnc.NoSLink
