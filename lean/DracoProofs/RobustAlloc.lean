import DracoProofs.RobustSuffix
import DracoProofs.RobustBasic
/-
  C18 on the model: an invariant calculus over *all* outcomes of a `DecM` computation (success and
  failure) and the proof that every allocation event of `decodeGeometry` is bounded by
  `A + K * (input length + declared element counts)`.
-/
namespace Draco.Robust
open Draco Draco.DecM

/-- constant part of the bound: the rANS look-up table (2^20 entries of 4 bytes) + 64 KiB -/
def allocA : Nat := 4 * 2 ^ 20 + 65536
/-- bytes per input byte / declared element -/
def allocK : Nat := 2048

/-- the allocation bound for a stream of `L` bytes declaring `d` elements -/
def allocBound (L d : Nat) : Nat := allocA + allocK * (L + d)

theorem allocBound_mono {L d d' : Nat} (h : d ≤ d') : allocBound L d ≤ allocBound L d' := by
  unfold allocBound
  have := Nat.mul_le_mul_left allocK (Nat.add_le_add_left h L)
  omega

/-- state invariant: the remaining input is a suffix of the stream `bs`, at least `d` elements have been
    declared, every allocation so far is within the bound for what has been declared so far -/
structure Inv (bs : Bytes) (d : Nat) (s : DSt) : Prop where
  suf : s.rest <:+ bs
  decl : d ≤ s.declared
  allocs : ∀ e ∈ s.allocs, e.2 ≤ allocBound bs.length s.declared

theorem Inv.weaken {bs : Bytes} {d d' : Nat} {s : DSt} (h : Inv bs d s) (hd : d' ≤ d) : Inv bs d' s :=
  ⟨h.suf, Nat.le_trans hd h.decl, h.allocs⟩

theorem Inv.status {bs : Bytes} {d : Nat} {s : DSt} (h : Inv bs d s) (st : Status) : Inv bs d { s with status := st } :=
  ⟨h.suf, h.decl, h.allocs⟩

theorem Inv.len {bs : Bytes} {d : Nat} {s : DSt} (h : Inv bs d s) : s.rest.length ≤ bs.length := h.suf.length_le

theorem Inv.bytes {bs : Bytes} {d : Nat} {s : DSt} (h : Inv bs d s) (hb : IsBytes bs) : IsBytes s.rest :=
  fun b hm => hb b (h.suf.subset hm)

/-- `Tr bs d m d' F`: from a state satisfying `Inv bs d`, a failing run ends in a state satisfying
    `Inv bs 0`, a successful run returns a value `a` satisfying `F` in a state satisfying `Inv bs (D a)`. -/
def Tr {α} (bs : Bytes) (d : Nat) (m : DecM α) (D : α → Nat) (F : α → Prop) : Prop :=
  ∀ s, Inv bs d s →
    (∀ s', m s = (none, s') → Inv bs 0 s') ∧ (∀ a s', m s = (some a, s') → Inv bs (D a) s' ∧ F a)

variable {bs : Bytes}

theorem bind_cases {α β} (m : DecM α) (f : α → DecM β) (s : DSt) :
    (∃ s1, m s = (none, s1) ∧ (m >>= f) s = (none, s1)) ∨
    (∃ a s1, m s = (some a, s1) ∧ (m >>= f) s = f a s1) := by
  simp only [bind, DecM.andThen]
  rcases hm : m s with ⟨r, s1⟩
  cases r with
  | none => exact Or.inl ⟨s1, rfl, rfl⟩
  | some a => exact Or.inr ⟨a, s1, rfl, rfl⟩

theorem tr_bind {α β} {m : DecM α} {f : α → DecM β} {d : Nat} {D1 : α → Nat} {D2 : β → Nat} {F : α → Prop} {F2 : β → Prop}
    (hm : Tr bs d m D1 F) (hf : ∀ a, F a → Tr bs (D1 a) (f a) D2 F2) : Tr bs d (m >>= f) D2 F2 := by
  intro s hs
  have h1 := hm s hs
  rcases bind_cases m f s with ⟨s1, e1, e2⟩ | ⟨a, s1, e1, e2⟩
  · rw [e2]
    refine ⟨fun s' h => ?_, fun a s' h => ?_⟩
    · cases h; exact h1.1 _ e1
    · cases h
  · rw [e2]
    have h2 := h1.2 a s1 e1
    exact hf a h2.2 s1 h2.1

theorem tr_weaken {α} {m : DecM α} {d : Nat} {D D' : α → Nat} {F F' : α → Prop} (hm : Tr bs d m D F)
    (hd : ∀ a, D' a ≤ D a) (hF : ∀ a, F a → F' a) : Tr bs d m D' F' := by
  intro s hs
  have h1 := hm s hs
  exact ⟨h1.1, fun a s' h => ⟨(h1.2 a s' h).1.weaken (hd a), hF a (h1.2 a s' h).2⟩⟩

theorem tr_weaken' {α} {m : DecM α} {d : Nat} {D D' : α → Nat} {F F' : α → Prop} (hm : Tr bs d m D F)
    (hd : ∀ a, F a → D' a ≤ D a) (hF : ∀ a, F a → F' a) : Tr bs d m D' F' := by
  intro s hs
  have h1 := hm s hs
  exact ⟨h1.1, fun a s' h => ⟨(h1.2 a s' h).1.weaken (hd a (h1.2 a s' h).2), hF a (h1.2 a s' h).2⟩⟩

/-- start from a stronger invariant than needed -/
theorem tr_pre {α} {m : DecM α} {d d0 : Nat} {D : α → Nat} {F : α → Prop} (hm : Tr bs d m D F) (hd : d ≤ d0) :
    Tr bs d0 m D F := fun s hs => hm s (hs.weaken hd)

theorem tr_pure {α} {a : α} {d : Nat} {F : α → Prop} (h : F a) : Tr bs d (pure a) (fun _ => d) F := by
  intro s hs
  refine ⟨fun s' h' => ?_, fun b s' h' => ?_⟩
  · simp [pure, DecM.ret] at h'
  · obtain ⟨rfl, rfl⟩ := pure_ok h'
    exact ⟨hs, h⟩

theorem tr_fail {α} {d : Nat} {D : α → Nat} {F : α → Prop} : Tr bs d (DecM.fail : DecM α) D F := by
  intro s hs
  refine ⟨fun s' h => ?_, fun a s' h => (fail_ok h).elim⟩
  simp only [DecM.fail, Prod.mk.injEq, true_and] at h
  rw [← h]
  split <;> first | exact (hs.weaken (Nat.zero_le _)).status _ | exact hs.weaken (Nat.zero_le _)

theorem tr_failWith {α} {st : Status} {d : Nat} {D : α → Nat} {F : α → Prop} : Tr bs d (DecM.failWith st : DecM α) D F := by
  intro s hs
  refine ⟨fun s' h => ?_, fun a s' h => (failWith_ok h).elim⟩
  simp only [DecM.failWith, Prod.mk.injEq, true_and] at h
  rw [← h]; exact (hs.weaken (Nat.zero_le _)).status _

theorem tr_require {c : Bool} {d : Nat} : Tr bs d (require c) (fun _ => d) (fun _ => c = true) := by
  unfold require
  split
  · rename_i hc; exact tr_pure hc
  · exact tr_fail

theorem tr_ofOption {α} {o : Option α} {d : Nat} : Tr bs d (ofOption o) (fun _ => d) (fun a => o = some a) := by
  cases o with
  | none => exact tr_fail
  | some x => exact tr_pure rfl

theorem tr_remaining {d : Nat} : Tr bs d remaining (fun _ => d) (fun n => n ≤ bs.length) := by
  intro s hs
  refine ⟨fun s' h => ?_, fun a s' h => ?_⟩
  · simp [remaining] at h
  obtain ⟨rfl, rfl⟩ := remaining_ok h
  exact ⟨hs, hs.len⟩

theorem tr_version {d : Nat} : Tr bs d version (fun _ => d) (fun _ => True) := by
  intro s hs
  refine ⟨fun s' h => ?_, fun a s' h => ?_⟩
  · simp [version] at h
  obtain ⟨_, rfl⟩ := version_ok h
  exact ⟨hs, trivial⟩

theorem tr_setVersion {v d : Nat} : Tr bs d (setVersion v) (fun _ => d) (fun _ => True) := by
  intro s hs
  refine ⟨fun s' h => ?_, fun a s' h => ?_⟩
  · simp [setVersion] at h
  simp only [setVersion, Prod.mk.injEq] at h
  rw [← h.2]
  exact ⟨⟨hs.suf, hs.decl, hs.allocs⟩, trivial⟩

theorem tr_declare {n d : Nat} : Tr bs d (declare n) (fun _ => d + n) (fun _ => True) := by
  intro s hs
  refine ⟨fun s' h => ?_, fun a s' h => ?_⟩
  · simp [declare] at h
  simp only [declare, Prod.mk.injEq] at h
  rw [← h.2]
  refine ⟨⟨hs.suf, Nat.add_le_add_right hs.decl n, fun e he => ?_⟩, trivial⟩
  exact Nat.le_trans (hs.allocs e he) (allocBound_mono (Nat.le_add_right _ _))

theorem tr_alloc {site : String} {n d : Nat} (h : n ≤ allocBound bs.length d) :
    Tr bs d (alloc site n) (fun _ => d) (fun _ => True) := by
  intro s hs
  refine ⟨fun s' h' => ?_, fun a s' h' => ?_⟩
  · simp [alloc] at h'
  simp only [alloc, Prod.mk.injEq] at h'
  rw [← h'.2]
  refine ⟨⟨hs.suf, hs.decl, fun e he => ?_⟩, trivial⟩
  rcases List.mem_cons.mp he with rfl | he
  · exact Nat.le_trans h (allocBound_mono hs.decl)
  · exact hs.allocs e he

/-- a reader that returns a suffix of its input; `F` may use that the input is a suffix of the stream -/
theorem tr_lift {α} {r : Rd α} {d : Nat} {F : α → Prop} (hr : SufRd r)
    (hF : ∀ x a rest, x <:+ bs → r x = some (a, rest) → F a) : Tr bs d (lift r) (fun _ => d) F := by
  intro s hs
  refine ⟨fun s' h => ?_, fun a s' h => ?_⟩
  · unfold lift at h
    split at h
    · simp only [Prod.mk.injEq, true_and] at h
      rw [← h]
      split <;> first | exact (hs.weaken (Nat.zero_le _)).status _ | exact hs.weaken (Nat.zero_le _)
    · cases h
  · obtain ⟨rest, heq, rfl⟩ := lift_ok h
    exact ⟨⟨(hr _ _ _ heq).trans hs.suf, hs.decl, hs.allocs⟩, hF _ _ _ hs.suf heq⟩

theorem tr_lift_any {α} {r : Rd α} {d : Nat} (hr : SufRd r) : Tr bs d (lift r) (fun _ => d) (fun _ => True) :=
  tr_lift hr (fun _ _ _ _ _ => trivial)

theorem tr_ite {α} {c : Prop} [Decidable c] {x y : DecM α} {d : Nat} {D : α → Nat} {F : α → Prop}
    (hx : c → Tr bs d x D F) (hy : ¬c → Tr bs d y D F) : Tr bs d (if c then x else y) D F := by
  split
  · rename_i h; exact hx h
  · rename_i h; exact hy h

theorem tr_mapM' {α β} (f : α → DecM β) (P : α → Prop) (Q : β → Prop) (d : Nat)
    (hf : ∀ a, P a → Tr bs d (f a) (fun _ => d) Q) :
    ∀ (l : List α), (∀ a ∈ l, P a) → Tr bs d (mapM' f l) (fun _ => d) (fun l' => l'.length = l.length ∧ ∀ b ∈ l', Q b) := by
  intro l
  induction l with
  | nil => intro _; simp only [mapM']; exact tr_pure ⟨rfl, by simp⟩
  | cons a as ih =>
    intro hP
    simp only [mapM']
    refine tr_bind (hf a (hP a (by simp))) (fun b hb => ?_)
    refine tr_bind (ih (fun x hx => hP x (by simp [hx]))) (fun l' hl' => ?_)
    refine tr_pure ⟨by simp [hl'.1], ?_⟩
    intro x hx
    rcases List.mem_cons.mp hx with rfl | hx
    · exact hb
    · exact hl'.2 x hx

theorem tr_replicateM' {α} (f : DecM α) (Q : α → Prop) (d : Nat) (hf : Tr bs d f (fun _ => d) Q) (n : Nat) :
    Tr bs d (replicateM' n f) (fun _ => d) (fun l => l.length = n ∧ ∀ a ∈ l, Q a) := by
  unfold replicateM'
  have := tr_mapM' (bs := bs) (fun _ : Unit => f) (fun _ => True) Q d (fun _ _ => hf) (List.replicate n ()) (fun _ _ => trivial)
  exact tr_weaken this (fun _ => Nat.le_refl _) (fun l h => by simpa using h)

/-! ### basic readers -/

theorem isBytes_suffix {x : Bytes} (hb : IsBytes bs) (h : x <:+ bs) : IsBytes x := fun b hm => hb b (h.subset hm)

theorem tr_rdU8 (hb : IsBytes bs) {d : Nat} : Tr bs d rdU8 (fun _ => d) (fun b => b < 256) := by
  refine tr_lift readU8_suf (fun x a rest hx h => ?_)
  cases x with
  | nil => simp [readU8] at h
  | cons b t =>
    simp only [readU8, Option.some.injEq, Prod.mk.injEq] at h
    rw [← h.1]; exact isBytes_suffix hb hx b (by simp)

theorem tr_rdU8_any {d : Nat} : Tr bs d rdU8 (fun _ => d) (fun _ => True) := tr_lift_any readU8_suf
theorem tr_rdU16 {d : Nat} : Tr bs d rdU16 (fun _ => d) (fun _ => True) := tr_lift_any (readLE_suf 2)
theorem tr_rdU32 {d : Nat} : Tr bs d rdU32 (fun _ => d) (fun _ => True) := tr_lift_any (readLE_suf 4)
theorem tr_varint {w d : Nat} : Tr bs d (varint w) (fun _ => d) (fun _ => True) := tr_lift_any (decVarint_suf w)
theorem tr_bytes {n d : Nat} : Tr bs d (bytes n) (fun _ => d) (fun _ => True) := tr_lift_any (readBytes_suf n)

theorem tr_rdI8 {d : Nat} : Tr bs d rdI8 (fun _ => d) (fun _ => True) := by
  unfold rdI8
  exact tr_bind tr_rdU8_any (fun _ _ => tr_pure trivial)

theorem tr_rdI32 {d : Nat} : Tr bs d rdI32 (fun _ => d) (fun _ => True) := by
  unfold rdI32
  exact tr_bind tr_rdU32 (fun _ _ => tr_pure trivial)

end Draco.Robust
