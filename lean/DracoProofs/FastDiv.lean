import DracoModel.FastDiv
import Mathlib.Tactic.Ring
import Generated.FastDivTab
/-
  C17 (c): `fastdiv` with the table of the pinned source is exact division for `x < 2^31`,
  `1 ≤ y ≤ 255`.  A per-entry arithmetic certificate is checked by kernel evaluation and lifted
  by a general lemma about (mult, shift) pairs.  (For larger `x` the 32-bit sum `t + x` wraps
  and `fastdiv` is NOT the quotient — see `fastdiv_wraps`; rABS only divides states < 2^20.)
-/
namespace Draco

/-- round-up reciprocal: if `M·y = 2^k + e` with `x·e < 2^k` then `⌊x·M / 2^k⌋ = ⌊x / y⌋` -/
theorem mul_shift_div (x y M k e : Nat) (hy : 0 < y) (hM : M * y = 2^k + e)
    (hx : x * e < 2^k) : x * M / 2^k = x / y := by
  have h1 : x * M * y = x * 2^k + x * e := by rw [Nat.mul_assoc, hM, Nat.mul_add]
  apply Nat.div_eq_of_lt_le
  · apply Nat.le_of_mul_le_mul_right (c := y) _ hy
    calc x / y * 2^k * y = (x / y * y) * 2^k := by ring
      _ ≤ x * 2^k := Nat.mul_le_mul_right _ (Nat.div_mul_le_self x y)
      _ ≤ x * 2^k + x * e := Nat.le_add_right _ _
      _ = x * M * y := h1.symm
  · apply Nat.lt_of_mul_lt_mul_right (a := y)
    have hlt : x + 1 ≤ x / y * y + y := by
      have h2 := Nat.div_add_mod x y
      have h3 := Nat.mod_lt x hy
      rw [Nat.mul_comm (x / y) y]
      omega
    calc x * M * y = x * 2^k + x * e := h1
      _ < x * 2^k + 2^k := Nat.add_lt_add_left hx _
      _ = (x + 1) * 2^k := by rw [Nat.add_mul, Nat.one_mul]
      _ ≤ (x / y * y + y) * 2^k := Nat.mul_le_mul_right _ hlt
      _ = (x / y + 1) * 2^k * y := by ring

/-- the certificate for one (mult, shift) entry -/
def fastdivCertOK (tab : List (Nat × Nat)) (y : Nat) : Bool :=
  let e := fastdivEntry tab y
  let M := e.1 + 2^32
  decide (e.1 < 2^32) && decide (2^(32 + e.2) ≤ M * y) &&
    decide ((M * y - 2^(32 + e.2)) * 2^31 ≤ 2^(32 + e.2))

theorem fastdiv_of_cert (tab : List (Nat × Nat)) (x y : Nat) (hx : x < 2^31) (hy : 0 < y)
    (hc : fastdivCertOK tab y = true) : fastdiv tab x y = x / y := by
  unfold fastdivCertOK at hc
  unfold fastdiv
  generalize fastdivEntry tab y = ent at *
  obtain ⟨m, s⟩ := ent
  simp only [Bool.and_eq_true, decide_eq_true_eq] at hc
  obtain ⟨⟨hm, hge⟩, herr⟩ := hc
  simp only
  have hsum : x * m / 2^32 + x = x * (m + 2^32) / 2^32 := by
    rw [Nat.mul_add, Nat.add_mul_div_right _ _ (by decide : 0 < 2^32)]
  have hlt : x * (m + 2^32) / 2^32 < 2^32 := by
    rw [Nat.div_lt_iff_lt_mul (by decide)]
    calc x * (m + 2^32) < 2^31 * (m + 2^32) := Nat.mul_lt_mul_of_pos_right hx (by omega)
      _ ≤ 2^31 * (2^32 + 2^32) := Nat.mul_le_mul_left _ (by omega)
      _ = 2^32 * 2^32 := by decide
  rw [hsum, Nat.mod_eq_of_lt hlt, Nat.div_div_eq_div_mul, ← Nat.pow_add]
  apply mul_shift_div x y (m + 2^32) (32 + s) ((m + 2^32) * y - 2^(32 + s)) hy (by omega)
  generalize (m + 2^32) * y - 2^(32 + s) = e at *
  rcases Nat.eq_zero_or_pos e with h0 | hpos
  · subst h0; simp
  · calc x * e < 2^31 * e := Nat.mul_lt_mul_of_pos_right hx hpos
      _ = e * 2^31 := Nat.mul_comm _ _
      _ ≤ 2^(32 + s) := herr

/-- all 255 entries `y = 1..255` of the pinned table satisfy the certificate -/
theorem fastdivTab_cert :
    (List.range 256).all (fun y => y == 0 || fastdivCertOK Generated.fastdivTab y) = true := by
  decide +kernel

theorem fastdiv_correct_31 (x y : Nat) (hx : x < 2^31) (hy1 : 1 ≤ y) (hy2 : y ≤ 255) :
    fastdiv Generated.fastdivTab x y = x / y := by
  have h := List.all_eq_true.mp fastdivTab_cert y (List.mem_range.mpr (by omega))
  have hy0 : (y == 0) = false := by simp; omega
  rw [hy0, Bool.false_or] at h
  exact fastdiv_of_cert _ x y hx (by omega) h

/-- outside that range the 32-bit wrap of `t + x` makes `fastdiv` differ from the quotient -/
theorem fastdiv_wraps : fastdiv Generated.fastdivTab 4294307702 100 ≠ 4294307702 / 100 := by
  decide +kernel

end Draco
