import DracoModel.RansSymbol
import DracoProofs.Rans
/-
  Probability table serialisation: `RAnsSymbolDecoder::Create` reads back what
  `RAnsSymbolEncoder::EncodeTable` wrote.
-/
namespace Draco

/-- tables the encoder can serialise: 22-bit entries, last entry non zero -/
def TableOk (ps : List Nat) : Prop := (∀ p ∈ ps, p < 2 ^ 22) ∧ ps.getLast? ≠ some 0

theorem encTableGoTR_eq : ∀ (ps : List Nat) (skip : Nat) (acc : Bytes),
    encTableGoTR ps skip acc = (encTableGo ps skip).map (acc.reverse ++ ·) := by
  intro ps
  induction ps with
  | nil => intro skip acc; simp [encTableGoTR, encTableGo]
  | cons p ps ih =>
    intro skip acc
    cases skip with
    | succ k => simp only [encTableGoTR, encTableGo, ih]
    | zero =>
      simp only [encTableGoTR, encTableGo]
      split
      · rfl
      · split
        · rw [ih]; cases encTableGo ps (zeroRunLen 63 ps) <;> simp
        · split
          · rw [ih]; cases encTableGo ps 0 <;> simp
          · split
            · rw [ih]; cases encTableGo ps 0 <;> simp
            · rw [ih]; cases encTableGo ps 0 <;> simp

theorem encTableGo_skip : ∀ (ps : List Nat) (k : Nat),
    encTableGo ps k = encTableGo (ps.drop k) 0 := by
  intro ps
  induction ps with
  | nil => intro k; cases k <;> simp [encTableGo]
  | cons p ps ih =>
    intro k
    cases k with
    | zero => simp
    | succ k => simp only [encTableGo, List.drop_succ_cons]; exact ih k

theorem zeroRunLen_le : ∀ (lim : Nat) (ps : List Nat), zeroRunLen lim ps ≤ lim ∧ zeroRunLen lim ps ≤ ps.length := by
  intro lim
  induction lim with
  | zero => intro ps; simp [zeroRunLen]
  | succ lim ih =>
    intro ps
    cases ps with
    | nil => simp [zeroRunLen]
    | cons p ps =>
      simp only [zeroRunLen]
      split
      · have := ih ps; simp only [List.length_cons]; omega
      · simp

theorem zeroRunLen_take : ∀ (lim : Nat) (ps : List Nat),
    ps.take (zeroRunLen lim ps) = List.replicate (zeroRunLen lim ps) 0 := by
  intro lim
  induction lim with
  | zero => intro ps; simp [zeroRunLen]
  | succ lim ih =>
    intro ps
    cases ps with
    | nil => simp [zeroRunLen]
    | cons p ps =>
      simp only [zeroRunLen]
      split
      · rename_i h; subst h
        simp only [List.take_succ_cons, List.replicate_succ, ih ps]
      · simp

theorem tableOk_drop (ps : List Nat) (k : Nat) (h : TableOk ps) : TableOk (ps.drop k) := by
  obtain ⟨h1, h2⟩ := h
  refine ⟨fun p hp => h1 p (List.mem_of_mem_drop hp), ?_⟩
  by_cases hk : k < ps.length
  · rw [List.getLast?_drop]; simp [Nat.not_le.mpr hk]; exact h2
  · rw [List.drop_of_length_le (by omega)]; simp

theorem tableOk_tail (p : Nat) (ps : List Nat) (h : TableOk (p :: ps)) : TableOk ps := by
  have := tableOk_drop (p :: ps) 1 h
  simpa using this

/-- every token covers at most 64 symbols -/
theorem encTableGo_length : ∀ (n : Nat) (ps : List Nat) (bs : Bytes), ps.length ≤ n →
    encTableGo ps 0 = some bs → ps.length ≤ 64 * bs.length := by
  intro n
  induction n with
  | zero =>
    intro ps bs hn _
    have : ps.length = 0 := by omega
    omega
  | succ n ih =>
    intro ps bs hn h
    cases ps with
    | nil => simp
    | cons p ps =>
      simp only [List.length_cons] at hn
      simp only [encTableGo] at h
      split at h
      · simp at h
      · split at h
        · rw [encTableGo_skip] at h
          obtain ⟨z1, z2⟩ := zeroRunLen_le 63 ps
          cases hgo : encTableGo (ps.drop (zeroRunLen 63 ps)) 0 with
          | none => simp [hgo] at h
          | some bs' =>
            simp only [hgo, Option.some.injEq] at h
            subst h
            have := ih (ps.drop (zeroRunLen 63 ps)) bs' (by simp; omega) hgo
            simp only [List.length_drop, List.length_cons] at this ⊢
            omega
        · cases hgo : encTableGo ps 0 with
          | none => simp [hgo] at h
          | some bs' =>
            have := ih ps bs' (by omega) hgo
            simp only [hgo] at h
            split at h
            · simp only [Option.some.injEq] at h; subst h; simp only [List.length_cons]; omega
            · split at h
              · simp only [Option.some.injEq] at h; subst h; simp only [List.length_cons]; omega
              · simp only [Option.some.injEq] at h; subst h; simp only [List.length_cons]; omega

theorem encTableGo_isSome : ∀ (n : Nat) (ps : List Nat), ps.length ≤ n → (∀ p ∈ ps, p < 2 ^ 22) →
    ∃ bs, encTableGo ps 0 = some bs := by
  intro n
  induction n with
  | zero =>
    intro ps hn _
    have : ps = [] := List.length_eq_zero_iff.mp (by omega)
    subst this; exact ⟨[], by simp [encTableGo]⟩
  | succ n ih =>
    intro ps hn hall
    cases ps with
    | nil => exact ⟨[], by simp [encTableGo]⟩
    | cons p ps =>
      simp only [List.length_cons] at hn
      have hp : ¬ p ≥ 2 ^ 22 := by have := hall p (by simp); omega
      simp only [encTableGo, hp, if_false]
      split
      · rw [encTableGo_skip]
        obtain ⟨bs', h'⟩ := ih (ps.drop (zeroRunLen 63 ps)) (by simp; omega)
          (fun q hq => hall q (by simp [List.mem_of_mem_drop hq]))
        simp [h']
      · obtain ⟨bs', h'⟩ := ih ps (by omega) (fun q hq => hall q (by simp [hq]))
        simp only [h']
        split
        · simp
        · split <;> simp

/-- the decoder loop reads back the encoder loop -/
theorem decTableGo_encTableGo (rest : Bytes) : ∀ (n : Nat) (ps : List Nat) (bs : Bytes) (fuel : Nat)
    (acc : List Nat), ps.length ≤ n → ps.length ≤ fuel → TableOk ps → encTableGo ps 0 = some bs →
    decTableGo fuel ps.length acc (bs ++ rest) = some (acc.reverse ++ ps, rest) := by
  intro n
  induction n with
  | zero =>
    intro ps bs fuel acc hn _ _ h
    have : ps = [] := List.length_eq_zero_iff.mp (by omega)
    subst this
    simp only [encTableGo, Option.some.injEq] at h; subst h
    cases fuel <;> simp [decTableGo]
  | succ n ih =>
    intro ps bs fuel acc hn hf hok h
    cases ps with
    | nil =>
      simp only [encTableGo, Option.some.injEq] at h; subst h
      cases fuel <;> simp [decTableGo]
    | cons p ps =>
      simp only [List.length_cons] at hn hf
      obtain ⟨fuel, rfl⟩ : ∃ f, fuel = f + 1 := ⟨fuel - 1, by omega⟩
      have hp22 : p < 2 ^ 22 := hok.1 p (by simp)
      simp only [encTableGo] at h
      split at h
      · simp at h
      · split at h
        · -- zero run
          rename_i _ hp0
          subst hp0
          rw [encTableGo_skip] at h
          obtain ⟨z1, z2⟩ := zeroRunLen_le 63 ps
          cases hgo : encTableGo (ps.drop (zeroRunLen 63 ps)) 0 with
          | none => simp [hgo] at h
          | some bs' =>
            simp only [hgo, Option.some.injEq] at h
            subst h
            have hih := ih (ps.drop (zeroRunLen 63 ps)) bs' fuel
              (List.replicate (zeroRunLen 63 ps + 1) 0 ++ acc) (by simp; omega) (by simp; omega)
              (tableOk_drop ps _ (tableOk_tail _ _ hok)) hgo
            have e1 : (zeroRunLen 63 ps * 4 + 3) % 4 = 3 := by omega
            have e2 : (zeroRunLen 63 ps * 4 + 3) / 4 = zeroRunLen 63 ps := by omega
            have e3 : ¬ zeroRunLen 63 ps ≥ ps.length + 1 := by omega
            have e4 : ps.length + 1 - (zeroRunLen 63 ps + 1) = (ps.drop (zeroRunLen 63 ps)).length := by
              simp
            simp only [decTableGo, List.length_cons, List.cons_append, e1, e2, e3, if_true, if_false,
              Nat.add_one_ne_zero, e4, hih]
            have : 0 :: ps = List.replicate (zeroRunLen 63 ps + 1) 0 ++ ps.drop (zeroRunLen 63 ps) := by
              rw [List.replicate_succ, List.cons_append, ← zeroRunLen_take 63 ps, List.take_append_drop]
            rw [this]
            simp [List.reverse_append]
        · rename_i _ hp0
          cases hgo : encTableGo ps 0 with
          | none => simp [hgo] at h
          | some bs' =>
            simp only [hgo] at h
            split at h
            · simp only [Option.some.injEq] at h; subst h
              have hih := ih ps bs' fuel (p :: acc) (by omega) (by omega) (tableOk_tail _ _ hok) hgo
              have e1 : p * 4 % 4 = 0 := by omega
              have e2 : p * 4 / 4 = p := by omega
              simp only [decTableGo, List.length_cons, List.cons_append, e1, e2, if_true, if_false,
                Nat.add_one_ne_zero, Nat.add_sub_cancel, hih]
              simp
            · split at h
              · simp only [Option.some.injEq] at h; subst h
                have hih := ih ps bs' fuel (p :: acc) (by omega) (by omega) (tableOk_tail _ _ hok) hgo
                have e1 : (p * 4 + 1) % 256 % 4 = 1 := by omega
                have e2 : (p * 4 + 1) % 256 / 4 + p / 64 % 256 * 64 = p := by omega
                simp only [decTableGo, List.length_cons, List.cons_append, e1, e2, if_true, if_false,
                  Nat.add_one_ne_zero, Nat.add_sub_cancel, hih]
                simp
              · simp only [Option.some.injEq] at h; subst h
                have hih := ih ps bs' fuel (p :: acc) (by omega) (by omega) (tableOk_tail _ _ hok) hgo
                have e1 : (p * 4 + 2) % 256 % 4 = 2 := by omega
                have e2 : (p * 4 + 2) % 256 / 4 + p / 64 % 256 * 64 + p / 16384 % 256 * 16384 = p := by
                  omega
                simp only [decTableGo, List.length_cons, List.cons_append, e1, e2, if_false,
                  Nat.add_one_ne_zero, Nat.add_sub_cancel, hih]
                simp

theorem decVarint32_encVarint (v : Nat) (hv : v < 2 ^ 32) (rest : Bytes) :
    decVarint 32 (encVarint v ++ rest) = some (v, rest) := by
  have h128 : (2:Nat) ^ 32 < 128 ^ 5 := by norm_num
  have := decVarintAux_enc 32 rest 5 10 v (by omega) (by omega) (by omega) hv
  have e : varintMaxDepth 32 = 5 := by decide
  simp only [decVarint, encVarint, e]
  exact this

/-- `decodeTable` on an abstract encoder output -/
theorem decodeTable_of (ps : List Nat) (bs rest : Bytes) (hlen : ps.length < 2 ^ 32)
    (hok : TableOk ps) (h : encTableGo ps 0 = some bs) :
    decodeTable (encVarint ps.length ++ bs ++ rest) = some (ps, rest) := by
  have h1 : decVarint 32 (encVarint ps.length ++ bs ++ rest) = some (ps.length, bs ++ rest) := by
    rw [List.append_assoc]; exact decVarint32_encVarint _ hlen _
  have h2 := encTableGo_length ps.length ps bs (Nat.le_refl _) h
  have h3 : ¬ ps.length / 64 > (bs ++ rest).length := by
    simp only [List.length_append]; omega
  have h4 := decTableGo_encTableGo rest ps.length ps bs ps.length [] (Nat.le_refl _) (Nat.le_refl _) hok h
  simp only [decodeTable, h1, h3, if_false, h4, List.reverse_nil, List.nil_append]

theorem table_roundtrip_aux (ps : List Nat) (hlen : ps.length < 2 ^ 32) (hok : TableOk ps) :
    ∃ bs, encodeTable ps = some bs ∧ ∀ rest, decodeTable (bs ++ rest) = some (ps, rest) := by
  obtain ⟨bs, h⟩ := encTableGo_isSome ps.length ps (Nat.le_refl _) hok.1
  refine ⟨encVarint ps.length ++ bs, ?_, fun rest => decodeTable_of ps bs rest hlen hok h⟩
  have hl : ¬ (ps.getLast? == some 0) = true := by
    simp only [beq_iff_eq]; exact hok.2
  simp only [encodeTable, hl, encTableGoTR_eq, h]
  simp

/-- the fuel `num_symbols_` of `decTableGo` is never exhausted: more fuel changes nothing -/
theorem decTableGo_fuel : ∀ (fuel remaining : Nat) (acc : List Nat) (bs : Bytes), remaining ≤ fuel →
    decTableGo (fuel + 1) remaining acc bs = decTableGo fuel remaining acc bs := by
  intro fuel
  induction fuel with
  | zero =>
    intro remaining acc bs h
    have : remaining = 0 := by omega
    subst this; simp [decTableGo]
  | succ f ih =>
    intro remaining acc bs h
    simp only [decTableGo]
    by_cases h0 : remaining = 0
    · simp [h0]
    · simp only [h0, if_false]
      cases bs with
      | nil => rfl
      | cons b bs1 =>
        simp only
        split
        · split
          · rfl
          · exact ih _ _ _ (by omega)
        · split
          · exact ih _ _ _ (by omega)
          · split
            · cases bs1 with
              | nil => rfl
              | cons e0 bs2 => exact ih _ _ _ (by omega)
            · cases bs1 with
              | nil => rfl
              | cons e0 bs2 =>
                cases bs2 with
                | nil => rfl
                | cons e1 bs3 => exact ih _ _ _ (by omega)

end Draco
