import DracoProofs.StripsGrow
import Mathlib.Data.List.Forall2
/-
  DracoProofs.StripsMain — the face loop of `GenerateTriangleStripsWith…`: every face ends up in
  exactly one stored chain; the stream decodes to the faces of the mesh.
-/
namespace Draco
namespace Strips

/-! ### one step of the face loop -/

theorem markList_getD_iff (vis : Array Bool) (fs : List Nat) (g : Nat) :
    (markList vis fs).getD g true = false ↔ (vis.getD g true = false ∧ g ∉ fs) := by
  constructor
  · intro h
    exact ⟨(markList_getD_false h).2, (markList_getD_false h).1⟩
  · intro ⟨h1, h2⟩
    induction fs generalizing vis with
    | nil => exact h1
    | cons f fs ih =>
      show (markList (vis.setIfInBounds f true) fs).getD g true = false
      apply ih
      · have hne : f ≠ g := by intro e; exact h2 (by simp [e])
        simp only [Array.getD_eq_getD_getElem?, Array.getElem?_setIfInBounds, hne, if_false] at h1 ⊢
        exact h1
      · intro hm; exact h2 (by simp [hm])

theorem chain_len_pos {C : List Nat} {f : Nat} (h : f ∈ C.map (· / 3)) : C ≠ [] := by
  intro e; simp [e] at h

theorem longestStrip_cases {cx : Ctx} (hinv : OppInv cx) (vis : Array Bool) (fi : Nat)
    (hfresh : vis.getD fi true = false) :
    ∃ k, k < 3 ∧ longestStrip cx vis fi = some (stripFromCorner cx vis (3 * fi + k)) := by
  have hdiv0 : (3 * fi) / 3 = fi := by omega
  obtain ⟨C, hlen, _, _, _, hmem⟩ := stripFromCorner_chain hinv vis (3 * fi) (by rw [hdiv0]; exact hfresh)
  have hpos : (stripFromCorner cx vis (3 * fi)).1.size > 0 := by
    rw [← hlen]
    exact List.length_pos_iff.2 (chain_len_pos hmem)
  unfold longestStrip
  simp only [hpos, if_true, Option.map_some, Option.getD_some]
  by_cases h1 : (stripFromCorner cx vis (3 * fi + 1)).1.size > (stripFromCorner cx vis (3 * fi)).1.size
  · simp only [h1, if_true, Option.map_some, Option.getD_some]
    by_cases h2 : (stripFromCorner cx vis (3 * fi + 2)).1.size > (stripFromCorner cx vis (3 * fi + 1)).1.size
    · exact ⟨2, by omega, by simp [h2]⟩
    · exact ⟨1, by omega, by simp [h2]⟩
  · simp only [h1, if_false, Option.map_some, Option.getD_some]
    by_cases h2 : (stripFromCorner cx vis (3 * fi + 2)).1.size > (stripFromCorner cx vis (3 * fi)).1.size
    · exact ⟨2, by omega, by simp [h2]⟩
    · exact ⟨0, by omega, by simp [h2]⟩

/-- what is written in front of a new strip -/
def preOut (restart : Bool) (st : Out) (s : Nat) : List Nat :=
  if st.numStrips > 0 then
    if restart then restartIndex :: st.out
    else if (st.numEncodedFaces + 2) % 2 = 1 then s :: s :: st.lastPoint :: st.out
    else s :: st.lastPoint :: st.out
  else st.out

def preEnc (restart : Bool) (st : Out) : Nat :=
  if st.numStrips > 0 then
    if restart then st.numEncodedFaces
    else if (st.numEncodedFaces + 2) % 2 = 1 then st.numEncodedFaces + 3 else st.numEncodedFaces + 2
  else st.numEncodedFaces

/-- one iteration of the face loop on an unvisited face: a fresh store chain through that face
    is appended -/
theorem faceStep_unvisited {cx : Ctx} (hinv : OppInv cx) (restart : Bool) (st : Out) (fi : Nat)
    (hfresh : st.visited.getD fi true = false) :
    ∃ c C, SChain cx 0 (c :: C) ∧ Fresh st.visited (c :: C) ∧ fi ∈ (c :: C).map (· / 3) ∧
      (faceStep cx restart st fi).visited = markList st.visited ((c :: C).map (· / 3)) ∧
      (faceStep cx restart st fi).numStrips = st.numStrips + 1 ∧
      (faceStep cx restart st fi).out = (stream cx 0 (c :: C)).reverse ++ preOut restart st (cx.pt c) ∧
      (faceStep cx restart st fi).numEncodedFaces = preEnc restart st + (c :: C).length ∧
      (faceStep cx restart st fi).lastPoint = ((stream cx 0 (c :: C)).getLast?).getD st.lastPoint := by
  obtain ⟨k, hk, hls⟩ := longestStrip_cases hinv st.visited fi hfresh
  have hdiv : (3 * fi + k) / 3 = fi := by omega
  obtain ⟨C0, hlen, hhead, hch, hfr, hmem⟩ :=
    stripFromCorner_chain hinv st.visited (3 * fi + k) (by rw [hdiv]; exact hfresh)
  rw [hdiv] at hmem
  cases C0 with
  | nil => simp at hmem
  | cons c C =>
    have hc : (stripFromCorner cx st.visited (3 * fi + k)).2 = c := by
      simpa using hhead.symm
    refine ⟨c, C, hch, hfr, hmem, ?_⟩
    unfold faceStep
    have hv : ¬ (st.visited.getD fi true = true) := by simp [hfresh]
    simp only [hv, if_false, hls, Bool.false_eq_true]
    unfold storeStrip
    rw [← hlen, hc]
    have hw := walk_chain cx 0 c C hch
    have hlen' : (c :: C).length = C.length + 1 := rfl
    rw [hlen']
    by_cases hn : st.numStrips > 0
    · cases restart
      · -- degenerate triangles
        by_cases hp : (st.numEncodedFaces + 2) % 2 = 1
        · simp only [hn, if_true, Bool.false_eq_true, if_false, hp]
          obtain ⟨h1, h2, h3, h4, h5⟩ := storeLoop_spec cx (C.length + 1) 0 (some c)
            { visited := st.visited, out := cx.pt c :: cx.pt c :: st.lastPoint :: st.out,
              numStrips := st.numStrips + 1, numEncodedFaces := st.numEncodedFaces + 2 + 1, lastPoint := st.lastPoint }
          rw [hw] at h1 h2 h4 h5
          refine ⟨h2, h3, ?_, ?_, h5⟩
          · rw [h1]; simp [preOut, hn, hp]
          · rw [h4]; simp [preEnc, hn, hp]
        · simp only [hn, if_true, Bool.false_eq_true, if_false, hp]
          obtain ⟨h1, h2, h3, h4, h5⟩ := storeLoop_spec cx (C.length + 1) 0 (some c)
            { visited := st.visited, out := cx.pt c :: st.lastPoint :: st.out,
              numStrips := st.numStrips + 1, numEncodedFaces := st.numEncodedFaces + 2, lastPoint := st.lastPoint }
          rw [hw] at h1 h2 h4 h5
          refine ⟨h2, h3, ?_, ?_, h5⟩
          · rw [h1]; simp [preOut, hn]; omega
          · rw [h4]; simp [preEnc, hn]; omega
      · simp only [hn, if_true]
        obtain ⟨h1, h2, h3, h4, h5⟩ := storeLoop_spec cx (C.length + 1) 0 (some c)
          { visited := st.visited, out := restartIndex :: st.out,
            numStrips := st.numStrips + 1, numEncodedFaces := st.numEncodedFaces, lastPoint := st.lastPoint }
        rw [hw] at h1 h2 h4 h5
        refine ⟨h2, h3, ?_, ?_, h5⟩
        · rw [h1]; simp [preOut, hn]
        · rw [h4]; simp [preEnc, hn]
    · simp only [hn, if_false]
      obtain ⟨h1, h2, h3, h4, h5⟩ := storeLoop_spec cx (C.length + 1) 0 (some c)
        { visited := st.visited, out := st.out,
          numStrips := st.numStrips + 1, numEncodedFaces := st.numEncodedFaces, lastPoint := st.lastPoint }
      rw [hw] at h1 h2 h4 h5
      refine ⟨h2, h3, ?_, ?_, h5⟩
      · rw [h1]; simp [preOut, hn]
      · rw [h4]; simp [preEnc, hn]

end Strips
end Draco

namespace Draco
namespace Strips

/-! ### the invariant of the face loop -/

/-- all corners of the stored chains, oldest strip first (`Cs` lists the newest strip first) -/
def allCorners (Cs : List (List Nat)) : List Nat := Cs.reverse.flatten

def allFaces (Cs : List (List Nat)) : List Nat := (allCorners Cs).map (· / 3)

theorem allFaces_cons (C : List Nat) (Cs : List (List Nat)) :
    allFaces (C :: Cs) = allFaces Cs ++ C.map (· / 3) := by
  simp [allFaces, allCorners]

structure CoreInv (cx : Ctx) (N : Nat) (st : Out) (Cs : List (List Nat)) (n : Nat) : Prop where
  vis : ∀ f, st.visited.getD f true = false ↔ (f < N ∧ f ∉ allFaces Cs)
  nodup : (allFaces Cs).Nodup
  lt : ∀ f ∈ allFaces Cs, f < N
  chain : ∀ C ∈ Cs, SChain cx 0 C
  done : ∀ f, f < n → f ∈ allFaces Cs
  nstrips : st.numStrips = Cs.length

theorem coreInv_visited {cx : Ctx} {N : Nat} {st : Out} {Cs : List (List Nat)} {n : Nat}
    (h : CoreInv cx N st Cs n) (hn : n < N) (hv : st.visited.getD n true = true) :
    CoreInv cx N st Cs (n + 1) := by
  refine ⟨h.vis, h.nodup, h.lt, h.chain, ?_, h.nstrips⟩
  intro f hf
  by_cases hfn : f = n
  · subst hfn
    by_cases hm : f ∈ allFaces Cs
    · exact hm
    · have := (h.vis f).2 ⟨hn, hm⟩
      rw [hv] at this
      cases this
  · exact h.done f (by omega)

theorem coreInv_step {cx : Ctx} {N : Nat} {st st' : Out} {Cs : List (List Nat)} {n : Nat}
    (h : CoreInv cx N st Cs n) (C : List Nat) (hch : SChain cx 0 C) (hfr : Fresh st.visited C)
    (hmem : n ∈ C.map (· / 3)) (hvis : st'.visited = markList st.visited (C.map (· / 3)))
    (hns : st'.numStrips = st.numStrips + 1) : CoreInv cx N st' (C :: Cs) (n + 1) := by
  have hF := (fresh_iff _ _).1 hfr
  refine ⟨?_, ?_, ?_, ?_, ?_, ?_⟩
  · intro f
    rw [hvis, markList_getD_iff, h.vis, allFaces_cons, List.mem_append]
    constructor
    · rintro ⟨⟨h1, h2⟩, h3⟩
      exact ⟨h1, fun hh => hh.elim h2 h3⟩
    · rintro ⟨h1, h2⟩
      exact ⟨⟨h1, fun hh => h2 (Or.inl hh)⟩, fun hh => h2 (Or.inr hh)⟩
  · rw [allFaces_cons, List.nodup_append]
    refine ⟨h.nodup, hF.1, ?_⟩
    intro a ha b hb hab
    subst hab
    have := (h.vis a).1 (hF.2 a hb)
    exact this.2 ha
  · intro f hf
    rw [allFaces_cons, List.mem_append] at hf
    rcases hf with hf | hf
    · exact h.lt f hf
    · exact ((h.vis f).1 (hF.2 f hf)).1
  · intro C' hC'
    simp only [List.mem_cons] at hC'
    rcases hC' with e | e
    · subst e; exact hch
    · exact h.chain C' e
  · intro f hf
    rw [allFaces_cons, List.mem_append]
    by_cases hfn : f = n
    · subst hfn; exact Or.inr hmem
    · exact Or.inl (h.done f (by omega))
  · rw [hns, h.nstrips]; rfl

/-! ### primitive restart: encoding and decoding -/

/-- `st.out` (reversed stream) for the chains `Cs` (newest first) -/
def outR (cx : Ctx) : List (List Nat) → List Nat
  | [] => []
  | [C] => (stream cx 0 C).reverse
  | C :: C' :: rest => (stream cx 0 C).reverse ++ restartIndex :: outR cx (C' :: rest)

theorem splitRestart_ne_nil (s : List Nat) : splitRestart s ≠ [] := by
  induction s with
  | nil => simp [splitRestart]
  | cons x xs ih =>
    unfold splitRestart
    cases h : splitRestart xs with
    | nil => exact absurd h ih
    | cons a as => simp only; split <;> simp

theorem splitRestart_clean (b : List Nat) (hb : restartIndex ∉ b) : splitRestart b = [b] := by
  induction b with
  | nil => rfl
  | cons x xs ih =>
    have hx : x ≠ restartIndex := fun e => hb (by simp [e])
    have hxs : restartIndex ∉ xs := fun h => hb (by simp [h])
    unfold splitRestart
    rw [ih hxs]
    simp [hx]

theorem splitRestart_append (a b : List Nat) (hb : restartIndex ∉ b) :
    splitRestart (a ++ restartIndex :: b) = splitRestart a ++ [b] := by
  induction a with
  | nil =>
    simp only [List.nil_append]
    unfold splitRestart
    rw [splitRestart_clean b hb]
    simp
  | cons x xs ih =>
    simp only [List.cons_append]
    unfold splitRestart
    rw [ih]
    cases h : splitRestart xs with
    | nil => exact absurd h (splitRestart_ne_nil xs)
    | cons s ss =>
      simp only [List.cons_append]
      split <;> simp

theorem triangles_restart_append (a b : List Nat) (hb : restartIndex ∉ b) :
    triangles true (a ++ restartIndex :: b) = triangles true a ++ stripTriangles false b := by
  simp [triangles, splitRestart_append a b hb]

theorem triangles_restart_clean (b : List Nat) (hb : restartIndex ∉ b) :
    triangles true b = stripTriangles false b := by
  simp [triangles, splitRestart_clean b hb]

/-- the point ids used by the faces differ from the restart index -/
def PtOk (cx : Ctx) : Prop := ∀ c, c / 3 < cx.faces.size → cx.pt c ≠ restartIndex

theorem stream_clean {cx : Ctx} (hpt : PtOk cx) (i : Nat) (C : List Nat) (hC : ∀ c ∈ C, c / 3 < cx.faces.size) :
    restartIndex ∉ stream cx i C := by
  induction C generalizing i with
  | nil => simp [stream]
  | cons c C ih =>
    have hc := hC c (by simp)
    have h1 := hpt c hc
    have h2 := hpt (nextC c) (by rw [nextC_div]; exact hc)
    have h3 := hpt (prevC c) (by rw [prevC_div]; exact hc)
    have hrest := ih (i + 1) (fun c' hc' => hC c' (by simp [hc']))
    simp only [stream, emit, List.mem_append]
    rintro (h | h)
    · split at h
      · simp only [List.mem_cons, List.not_mem_nil, or_false] at h
        rcases h with h | h | h
        · exact h1 h.symm
        · exact h2 h.symm
        · exact h3 h.symm
      · simp only [List.mem_cons, List.not_mem_nil, or_false] at h
        exact h1 h.symm
    · exact hrest h

theorem outR_decode {cx : Ctx} (hpt : PtOk cx) (Cs : List (List Nat))
    (hch : ∀ C ∈ Cs, SChain cx 0 C) (hin : ∀ C ∈ Cs, ∀ c ∈ C, c / 3 < cx.faces.size) :
    triangles true (outR cx Cs).reverse = Cs.reverse.flatMap (chainTris cx 0) := by
  induction Cs with
  | nil =>
    show triangles true [] = []
    rfl
  | cons C rest ih =>
    have hC := stream_clean hpt 0 C (hin C (by simp))
    cases rest with
    | nil =>
      simp only [outR, List.reverse_reverse, List.reverse_cons, List.reverse_nil, List.nil_append,
        List.flatMap_cons, List.flatMap_nil, List.append_nil]
      rw [triangles_restart_clean _ hC, stripTriangles_stream cx C (hch C (by simp))]
    | cons C' rest' =>
      have e : (outR cx (C :: C' :: rest')).reverse =
          (outR cx (C' :: rest')).reverse ++ restartIndex :: stream cx 0 C := by
        simp [outR]
      rw [e, triangles_restart_append _ _ hC, ih (fun D hD => hch D (by simp [hD])) (fun D hD => hin D (by simp [hD]))]
      rw [stripTriangles_stream cx C (hch C (by simp))]
      simp [List.flatMap_append]

/-! ### the loop -/

theorem forall₂_chainTris (cx : Ctx) (i : Nat) (C : List Nat) :
    List.Forall₂ FaceRot (chainTris cx i C) (C.map fun c => cx.faces.getD (c / 3) (0, 0, 0)) := by
  induction C generalizing i with
  | nil => exact List.Forall₂.nil
  | cons c C ih => exact List.Forall₂.cons (triOf_faceRot cx i c) (ih (i + 1))

theorem forall₂_flatMap_chainTris (cx : Ctx) (Ds : List (List Nat)) :
    List.Forall₂ FaceRot (Ds.flatMap (chainTris cx 0))
      (Ds.flatten.map fun c => cx.faces.getD (c / 3) (0, 0, 0)) := by
  induction Ds with
  | nil => exact List.Forall₂.nil
  | cons D Ds ih =>
    simp only [List.flatMap_cons, List.flatten_cons, List.map_append]
    exact List.rel_append (forall₂_chainTris cx 0 D) ih

/-- the state after the first `n` iterations of the face loop -/
def loopState (cx : Ctx) (restart : Bool) (n : Nat) : Out :=
  (List.range n).foldl (faceStep cx restart)
    { visited := Array.replicate cx.faces.size false, out := [], numStrips := 0, numEncodedFaces := 0,
      lastPoint := 2 ^ 32 - 1 }

theorem loopState_succ (cx : Ctx) (restart : Bool) (n : Nat) :
    loopState cx restart (n + 1) = faceStep cx restart (loopState cx restart n) n := by
  simp [loopState, List.range_succ]

theorem faceStep_visited (cx : Ctx) (restart : Bool) (st : Out) (fi : Nat)
    (h : st.visited.getD fi true = true) : faceStep cx restart st fi = st := by
  unfold faceStep
  simp [h]

theorem loop_restart {cx : Ctx} (hinv : OppInv cx) (n : Nat) (hn : n ≤ cx.faces.size) :
    ∃ Cs, CoreInv cx cx.faces.size (loopState cx true n) Cs n ∧ (loopState cx true n).out = outR cx Cs := by
  induction n with
  | zero =>
    refine ⟨[], ⟨?_, by simp [allFaces, allCorners], by simp [allFaces, allCorners], by simp, by simp, rfl⟩, rfl⟩
    intro f
    simp only [loopState, List.range_zero, List.foldl_nil, allFaces, allCorners, List.reverse_nil,
      List.flatten_nil, List.map_nil, List.not_mem_nil, not_false_eq_true, and_true]
    simp only [Array.getD_eq_getD_getElem?, Array.getElem?_replicate]
    by_cases hf : f < cx.faces.size <;> simp [hf]
  | succ n ih =>
    obtain ⟨Cs, hI, hout⟩ := ih (by omega)
    rw [loopState_succ]
    by_cases hv : (loopState cx true n).visited.getD n true = true
    · rw [faceStep_visited _ _ _ _ hv]
      exact ⟨Cs, coreInv_visited hI (by omega) hv, hout⟩
    · have hv' : (loopState cx true n).visited.getD n true = false := by simpa using hv
      obtain ⟨c, C, hch, hfr, hmem, h1, h2, h3, _, _⟩ := faceStep_unvisited hinv true _ n hv'
      refine ⟨(c :: C) :: Cs, coreInv_step hI (c :: C) hch hfr hmem h1 h2, ?_⟩
      rw [h3]
      unfold preOut
      rw [hI.nstrips, hout]
      cases Cs with
      | nil => simp [outR]
      | cons C' rest => simp [outR]

end Strips
end Draco

namespace Draco
namespace Strips

theorem generateWith_eq (opp : Array (Option Nat)) (restart : Bool) (faces : List Face) :
    generateWith opp restart faces =
      (loopState { faces := faces.toArray, opp := opp } restart faces.length).out.reverse := by
  simp [generateWith, loopState]

theorem ptOk_of_faces (opp : Array (Option Nat)) (faces : List Face)
    (h : ∀ f ∈ faces, f.1 ≠ restartIndex ∧ f.2.1 ≠ restartIndex ∧ f.2.2 ≠ restartIndex) :
    PtOk { faces := faces.toArray, opp := opp } := by
  intro c hc
  simp only [List.size_toArray] at hc
  have hmem : faces.toArray.getD (c / 3) (0, 0, 0) ∈ faces := by
    simp [Array.getD_eq_getD_getElem?, hc]
  obtain ⟨h1, h2, h3⟩ := h _ hmem
  rcases pt_cases { faces := faces.toArray, opp := opp } c with ⟨_, e⟩ | ⟨_, e⟩ | ⟨_, e⟩ <;> rw [e]
  · exact h1
  · exact h2
  · exact h3

/-- a list of pairwise different numbers `< N` containing all numbers `< N` is a permutation of
    `0 … N-1` -/
theorem perm_range_of {l : List Nat} {N : Nat} (hnd : l.Nodup) (hlt : ∀ x ∈ l, x < N)
    (hall : ∀ x, x < N → x ∈ l) : l.Perm (List.range N) := by
  rw [List.perm_ext_iff_of_nodup hnd List.nodup_range]
  intro a
  rw [List.mem_range]
  exact ⟨hlt a, hall a⟩

theorem faces_eq_map_range (faces : List Face) :
    faces = (List.range faces.length).map fun i => faces.toArray.getD i (0, 0, 0) := by
  apply List.ext_getElem
  · simp
  · intro i h1 h2
    simp [Array.getD_eq_getD_getElem?, h1]

/-- **primitive-restart strips describe the mesh**: for every opposite table that is an
    involution, the triangles a consumer reads from the generated stream are, up to order and up
    to the choice of the first corner of each triangle (orientation preserved), exactly the faces
    of the mesh — each face once. -/
theorem generateWith_restart_spec (opp : Array (Option Nat)) (faces : List Face)
    (hinv : OppInv { faces := faces.toArray, opp := opp })
    (hR : ∀ f ∈ faces, f.1 ≠ restartIndex ∧ f.2.1 ≠ restartIndex ∧ f.2.2 ≠ restartIndex) :
    ∃ l, l.Perm faces ∧ List.Forall₂ FaceRot (triangles true (generateWith opp true faces)) l := by
  obtain ⟨Cs, hI, hout⟩ := loop_restart hinv faces.length (by simp)
  have hN : ({ faces := faces.toArray, opp := opp } : Ctx).faces.size = faces.length := by simp
  rw [hN] at hI
  have hin : ∀ C ∈ Cs, ∀ c ∈ C, c / 3 < ({ faces := faces.toArray, opp := opp } : Ctx).faces.size := by
    intro C hC c hc
    rw [hN]
    apply hI.lt
    simp only [allFaces, allCorners, List.mem_map, List.mem_flatten, List.mem_reverse]
    exact ⟨c, ⟨C, hC, hc⟩, rfl⟩
  refine ⟨(allCorners Cs).map fun c => faces.toArray.getD (c / 3) (0, 0, 0), ?_, ?_⟩
  · have hp : (allFaces Cs).Perm (List.range faces.length) :=
      perm_range_of hI.nodup hI.lt (fun x hx => hI.done x hx)
    have := hp.map fun i => faces.toArray.getD i (0, 0, 0)
    rw [← faces_eq_map_range] at this
    unfold allFaces at this
    rw [List.map_map] at this
    exact this
  · rw [generateWith_eq, hout, outR_decode (ptOk_of_faces opp faces hR) Cs hI.chain hin]
    exact forall₂_flatMap_chainTris _ Cs.reverse

end Strips
end Draco
