import DracoModel.Decoder
/-
  Sequential streams inside the complete decoder.  `decodeGeometry` (DracoModel/Decoder.lean) dispatches on the
  encoder-method byte of the header; the theorems of C09 / C10 / C20 about the sequential decoders are stated for
  `decodeGeometrySeq` (the dispatcher with the Edgebreaker / kd-tree bodies rejected) and transfer to
  `decodeGeometry` on every stream whose header announces a sequential method (`IsSeqStream`).
-/
namespace Draco
open DecM

/-- the stream's header is readable and announces a sequential method (encoder_method byte 0) -/
def IsSeqStream (s : DSt) : Prop := ∃ h s1, decodeHeader s = (some h, s1) ∧ h.encoderMethod = 0

/-- `Decoder::DecodeBufferToGeometry` restricted to the sequential decoders: Edgebreaker and kd-tree bodies
    are rejected as unsupported -/
def decodeGeometrySeq (opts : DecOpts) : DecM DecodeResult :=
  decodeStreamWith (fun _ => failWith (.unsupported "edgebreaker")) (fun _ => failWith (.unsupported "kd-tree")) opts

/-- on a sequential stream the Edgebreaker / kd-tree body decoders are never run -/
theorem decodeStreamWith_seq (eb kd eb' kd' : DecOpts → DecM Geometry) (opts : DecOpts) (s : DSt)
    (hs : IsSeqStream s) : decodeStreamWith eb kd opts s = decodeStreamWith eb' kd' opts s := by
  obtain ⟨h, s1, hh, hm⟩ := hs
  unfold decodeStreamWith
  simp only [bind, DecM.andThen, hh, hm]
  simp

theorem decodeGeometry_eq_seq (opts : DecOpts) (s : DSt) (hs : IsSeqStream s) :
    decodeGeometry opts s = decodeGeometrySeq opts s :=
  decodeStreamWith_seq _ _ _ _ opts s hs

end Draco
