import DracoModel.Wrap
/-
  DracoProofs.Wrap — the wrap transform (C16): round trip under the no-overflow hypotheses for
  the decoder as written, the counterexample without them (finding F1), and the full round trip
  for the repaired decoder `Wrap.decOrig`.
-/
namespace Draco
namespace Wrap

/-- what `InitCorrectionBounds` computes, in linear-arithmetic form -/
structure Bounds (t : WrapT) (lo hi : Int) : Prop where
  minV : t.minV = lo
  maxV : t.maxV = hi
  maxDif : t.maxDif = hi - lo + 1
  minCorr : t.minCorr = -(t.maxDif / 2)
  maxCorr : t.maxCorr = t.maxDif - 1 - t.maxDif / 2

theorem init_some_iff (lo hi : Int) :
    (∃ t, init lo hi = some t) ↔ (0 ≤ hi - lo ∧ hi - lo < 2^31 - 1) := by
  unfold init
  dsimp only
  constructor
  · rintro ⟨t, h⟩
    split at h
    · cases h
    · omega
  · intro h
    have : ¬ (hi - lo < 0 ∨ hi - lo ≥ 2^31 - 1) := by omega
    simp only [this, if_false]
    exact ⟨_, rfl⟩

theorem init_bounds {lo hi : Int} {t : WrapT} (h : init lo hi = some t) :
    Bounds t lo hi ∧ 0 ≤ hi - lo ∧ hi - lo < 2^31 - 1 := by
  unfold init at h
  dsimp only at h
  split at h
  · cases h
  · rename_i hc
    simp only [Option.some.injEq] at h
    subst h
    refine ⟨⟨rfl, rfl, by dsimp only; omega, rfl, ?_⟩, by omega, by omega⟩
    dsimp only
    split <;> omega

/-- `Wrap.init` succeeds exactly on the declared domain -/
theorem init_isSome {lo hi : Int} (h1 : lo ≤ hi) (h2 : hi - lo < 2^31 - 1) :
    ∃ t, init lo hi = some t := (init_some_iff lo hi).2 ⟨by omega, h2⟩

/-- corrections always lie in the announced interval (any 32-bit prediction, no overflow
    hypothesis needed: this is about the encoder only) -/
theorem encCorr_bounds {lo hi : Int} {t : WrapT} (hb : Bounds t lo hi)
    (hd0 : 0 ≤ hi - lo) (hd : hi - lo < 2^31 - 1) (hlo : -2^31 ≤ lo) (hhi : hi < 2^31)
    (orig pred : Int) (ho1 : lo ≤ orig) (ho2 : orig ≤ hi) :
    t.minCorr ≤ encCorr t orig pred ∧ encCorr t orig pred ≤ t.maxCorr := by
  obtain ⟨h1, h2, h3, h4, h5⟩ := hb
  obtain ⟨mn, mx, md, mc, nc⟩ := t
  dsimp only at h1 h2 h3 h4 h5
  subst h1 h2 h4 h5
  unfold encCorr clamp wrap32
  dsimp only
  constructor <;> (repeat' split) <;> omega

/-- core of `wrap_roundtrip_partial` -/
theorem decOrigUnfixed_encCorr {lo hi : Int} {t : WrapT} (hb : Bounds t lo hi)
    (hd0 : 0 ≤ hi - lo) (hd : hi - lo < 2^31 - 1) (hlo : -2^31 ≤ lo) (hhi : hi < 2^31)
    (orig pred : Int) (ho1 : lo ≤ orig) (ho2 : orig ≤ hi)
    (hov1 : hi + t.maxCorr < 2^31) (hov2 : -2^31 ≤ lo + t.minCorr) :
    decOrigUnfixed t pred (encCorr t orig pred) = orig := by
  obtain ⟨h1, h2, h3, h4, h5⟩ := hb
  obtain ⟨mn, mx, md, mc, nc⟩ := t
  dsimp only at h1 h2 h3 h4 h5 hov1 hov2
  subst h1 h2 h4 h5
  unfold decOrigUnfixed encCorr clamp wrap32
  dsimp only
  (repeat' split) <;> omega

/-- core of `wrap_roundtrip_fixed`: no overflow hypotheses -/
theorem decOrig_encCorr {lo hi : Int} {t : WrapT} (hb : Bounds t lo hi)
    (hd0 : 0 ≤ hi - lo) (hd : hi - lo < 2^31 - 1) (hlo : -2^31 ≤ lo) (hhi : hi < 2^31)
    (orig pred : Int) (ho1 : lo ≤ orig) (ho2 : orig ≤ hi) :
    decOrig t pred (encCorr t orig pred) = orig := by
  obtain ⟨h1, h2, h3, h4, h5⟩ := hb
  obtain ⟨mn, mx, md, mc, nc⟩ := t
  dsimp only at h1 h2 h3 h4 h5
  subst h1 h2 h4 h5
  unfold decOrig encCorr clamp wrap32
  dsimp only
  (repeat' split) <;> omega

/-- the repaired decoder agrees with the decoder as written whenever the 32-bit sum does not
    overflow -/
theorem decOrig_eq_decOrigUnfixed {lo hi : Int} {t : WrapT} (hb : Bounds t lo hi)
    (hd0 : 0 ≤ hi - lo) (hd : hi - lo < 2^31 - 1) (hlo : -2^31 ≤ lo) (hhi : hi < 2^31)
    (pred corr : Int)
    (hs1 : -2^31 ≤ clamp t pred + corr) (hs2 : clamp t pred + corr < 2^31) :
    decOrig t pred corr = decOrigUnfixed t pred corr := by
  obtain ⟨h1, h2, h3, h4, h5⟩ := hb
  unfold decOrig decOrigUnfixed wrap32
  generalize clamp t pred + corr = s at *
  obtain ⟨mn, mx, md, mc, nc⟩ := t
  dsimp only at h1 h2 h3 h4 h5 ⊢
  subst h1 h2 h4 h5
  (repeat' split) <;> omega

/-- the clamped prediction lies in the range -/
theorem clamp_mem {lo hi : Int} {t : WrapT} (hb : Bounds t lo hi) (h : lo ≤ hi) (p : Int) :
    lo ≤ clamp t p ∧ clamp t p ≤ hi := by
  obtain ⟨h1, h2, _, _, _⟩ := hb
  unfold clamp; rw [h1, h2]; constructor <;> (repeat' split) <;> omega

/-! ### transform data (`EncodeTransformData` / `DecodeTransformData`) -/

theorem leValue_writeLE (n v : Nat) : leValue (writeLE n v) = v % 256^n := by
  induction n generalizing v with
  | zero => simp [writeLE, leValue, Nat.mod_one]
  | succ n ih =>
    simp only [writeLE, leValue, ih]
    rw [Nat.pow_succ, Nat.mul_comm (256^n) 256, Nat.mod_mul]

theorem writeLE_length (n v : Nat) : (writeLE n v).length = n := by
  induction n generalizing v with
  | zero => rfl
  | succ n ih => simp [writeLE, ih]

theorem readLE_writeLE (n v : Nat) (rest : Bytes) (hv : v < 256^n) :
    readLE n (writeLE n v ++ rest) = some (v, rest) := by
  unfold readLE readBytes
  have hl := writeLE_length n v
  have : ¬ (writeLE n v ++ rest).length < n := by simp [hl]
  simp only [this, if_false]
  rw [List.take_left' hl, List.drop_left' hl, leValue_writeLE, Nat.mod_eq_of_lt hv]

theorem toSigned_toUnsigned32 (x : Int) (h1 : -2^31 ≤ x) (h2 : x < 2^31) :
    toSigned 32 (toUnsigned 32 x) = x := by
  unfold toSigned toUnsigned
  have e : ((2:Nat)^32 : Nat) = 4294967296 := by decide
  have e' : ((2:Nat)^(32-1) : Nat) = 2147483648 := by decide
  simp only [e, e']
  omega

theorem toUnsigned32_lt (x : Int) : toUnsigned 32 x < 256^4 := by
  unfold toUnsigned
  have e : ((2:Nat)^32 : Nat) = 4294967296 := by decide
  simp only [e]
  omega

/-- the decoder reads back exactly the transform the encoder wrote, and consumes exactly the
    8 bytes -/
theorem transformData_roundtrip {lo hi : Int} {t : WrapT} (h : init lo hi = some t)
    (hlo : -2^31 ≤ lo) (hhi : hi < 2^31) (rest : Bytes) :
    decodeTransformData (encodeTransformData t ++ rest) = some (t, rest) := by
  obtain ⟨hb, hd0, hd⟩ := init_bounds h
  unfold decodeTransformData encodeTransformData
  rw [List.append_assoc, readLE_writeLE _ _ _ (toUnsigned32_lt _)]
  dsimp only
  rw [readLE_writeLE _ _ _ (toUnsigned32_lt _)]
  dsimp only
  rw [hb.minV, hb.maxV, toSigned_toUnsigned32 lo hlo (by omega),
    toSigned_toUnsigned32 hi (by omega) hhi]
  have : ¬ lo > hi := by omega
  simp only [this, if_false, h]

end Wrap
end Draco
