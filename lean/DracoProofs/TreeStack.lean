import DracoModel.TreeStack
/-
  The explicit-stack loop `TreeStack.run` and the recursive `TreeStack.tree` compute the same
  function, for every step function that has a termination measure on the tuples it accepts.
-/
namespace Draco.TreeStack

variable {F O S : Type}

/-- measure of an optional child -/
def μo (μ : F → Nat) : Option F → Nat
  | none => 0
  | some f => μ f

/-- `μ` bounds the number of loop iterations a tuple can cause, on tuples satisfying `Inv` -/
structure Measured (step : F → S → Option (Step F O S)) (Inv : F → Prop) (μ : F → Nat) : Prop where
  leaf : ∀ fr s out s1, Inv fr → step fr s = some (.leaf out s1) → 1 ≤ μ fr
  split : ∀ fr s out f sn s1, Inv fr → step fr s = some (.split out f sn s1) →
    μo μ f + μo μ sn + 1 ≤ μ fr ∧ (∀ c, f = some c → Inv c) ∧ (∀ c, sn = some c → Inv c)

/-- an optional subtree -/
def sub (step : F → S → Option (Step F O S)) (d : Nat) (o : Option F) (s : S) : Option (List O × S) :=
  match o with
  | none => some ([], s)
  | some c => tree step d c s

theorem tree_succ (step : F → S → Option (Step F O S)) (d : Nat) (fr : F) (s : S) :
    tree step (d+1) fr s =
      match step fr s with
      | none => none
      | some (.leaf out s1) => some (out, s1)
      | some (.split out f sn s1) =>
        match sub step d sn s1 with
        | none => none
        | some (o2, s2) =>
          match sub step d f s2 with
          | none => none
          | some (o1, s3) => some (out ++ (o2 ++ o1), s3) := by
  simp only [tree, sub]
  rfl

variable {step : F → S → Option (Step F O S)} {Inv : F → Prop} {μ : F → Nat}

theorem tree_of_mu_zero (hm : Measured step Inv μ) (d : Nat) (fr : F) (s : S) (hi : Inv fr)
    (h0 : μ fr = 0) : tree step d fr s = none := by
  cases d with
  | zero => rfl
  | succ d =>
    rw [tree_succ]
    cases h : step fr s with
    | none => rfl
    | some st =>
      cases st with
      | leaf out s1 => have := hm.leaf fr s out s1 hi h; omega
      | split out f sn s1 => have := (hm.split fr s out f sn s1 hi h).1; omega

/-- enough depth is enough -/
theorem tree_depth_indep (hm : Measured step Inv μ) : ∀ (d1 d2 : Nat) (fr : F) (s : S), Inv fr →
    μ fr ≤ d1 → μ fr ≤ d2 → tree step d1 fr s = tree step d2 fr s := by
  intro d1
  induction d1 with
  | zero =>
    intro d2 fr s hi h1 _
    rw [tree_of_mu_zero hm 0 fr s hi (by omega), tree_of_mu_zero hm d2 fr s hi (by omega)]
  | succ d1 ih =>
    intro d2 fr s hi h1 h2
    cases d2 with
    | zero =>
      rw [tree_of_mu_zero hm _ fr s hi (by omega), tree_of_mu_zero hm 0 fr s hi (by omega)]
    | succ d2 =>
      rw [tree_succ, tree_succ]
      cases h : step fr s with
      | none => rfl
      | some st =>
        cases st with
        | leaf out s1 => rfl
        | split out f sn s1 =>
          obtain ⟨hμ, hf, hsn⟩ := hm.split fr s out f sn s1 hi h
          have hsub : ∀ (o : Option F) (s' : S), (∀ c, o = some c → Inv c) → μo μ o + 1 ≤ μ fr →
              sub step d1 o s' = sub step d2 o s' := by
            intro o s' ho hle
            cases o with
            | none => rfl
            | some c =>
              simp only [sub]
              simp only [μo] at hle
              exact ih d2 c s' (ho c rfl) (by omega) (by omega)
          simp only
          rw [hsub sn s1 hsn (by omega)]
          cases sub step d2 sn s1 with
          | none => rfl
          | some r =>
            obtain ⟨o2, s2⟩ := r
            simp only
            rw [hsub f s2 hf (by omega)]

/-- the tuples of a stack processed one after the other, top first -/
def forest (step : F → S → Option (Step F O S)) (μ : F → Nat) :
    List F → S → List O → Option (List O × S)
  | [], s, acc => some (acc, s)
  | fr :: rest, s, acc =>
    match tree step (μ fr) fr s with
    | none => none
    | some (o, s1) => forest step μ rest s1 (o.reverse ++ acc)

theorem forest_opt (step : F → S → Option (Step F O S)) (μ : F → Nat) (o : Option F) (rest : List F)
    (s : S) (acc : List O) :
    forest step μ (optList o ++ rest) s acc =
      match sub step (μo μ o) o s with
      | none => none
      | some (o2, s2) => forest step μ rest s2 (o2.reverse ++ acc) := by
  cases o with
  | none => simp [optList, sub]
  | some c => simp only [optList, List.cons_append, List.nil_append, forest, sub, μo]

theorem sub_depth (hm : Measured step Inv μ) (d : Nat) (o : Option F) (s : S)
    (ho : ∀ c, o = some c → Inv c) (hd : μo μ o ≤ d) :
    sub step d o s = sub step (μo μ o) o s := by
  cases o with
  | none => rfl
  | some c =>
    simp only [sub, μo] at hd ⊢
    exact tree_depth_indep hm d (μ c) c s (ho c rfl) hd (Nat.le_refl _)

/-- the loop equals the sequential processing of its stack -/
theorem run_eq_forest (hm : Measured step Inv μ) : ∀ (fuel : Nat) (stack : List F) (s : S)
    (acc : List O), (∀ fr ∈ stack, Inv fr) → (stack.map μ).sum ≤ fuel →
    run step fuel stack s acc = forest step μ stack s acc := by
  intro fuel
  induction fuel with
  | zero =>
    intro stack s acc hi hs
    cases stack with
    | nil => rfl
    | cons fr rest =>
      simp only [List.map_cons, List.sum_cons] at hs
      have h0 : μ fr = 0 := by omega
      simp only [run, forest, h0, tree]
  | succ fuel ih =>
    intro stack s acc hi hs
    cases stack with
    | nil => rfl
    | cons fr rest =>
      simp only [List.map_cons, List.sum_cons] at hs
      have hifr : Inv fr := hi fr (by simp)
      have hirest : ∀ x ∈ rest, Inv x := fun x hx => hi x (by simp [hx])
      simp only [run, forest]
      cases h : step fr s with
      | none =>
        cases hk : μ fr with
        | zero => simp [tree]
        | succ k => rw [tree_succ, h]
      | some st =>
        cases st with
        | leaf out s1 =>
          have h1 := hm.leaf fr s out s1 hifr h
          obtain ⟨k, hk⟩ : ∃ k, μ fr = k + 1 := ⟨μ fr - 1, by omega⟩
          rw [hk, tree_succ, h]
          simp only
          exact ih rest s1 _ hirest (by omega)
        | split out f sn s1 =>
          obtain ⟨hμ, hf, hsn⟩ := hm.split fr s out f sn s1 hifr h
          obtain ⟨k, hk⟩ : ∃ k, μ fr = k + 1 := ⟨μ fr - 1, by omega⟩
          have hstack : ∀ x ∈ optList sn ++ (optList f ++ rest), Inv x := by
            intro x hx
            simp only [List.mem_append] at hx
            rcases hx with hx | hx | hx
            · cases sn with
              | none => simp [optList] at hx
              | some c => simp only [optList, List.mem_singleton] at hx; subst hx; exact hsn _ rfl
            · cases f with
              | none => simp [optList] at hx
              | some c => simp only [optList, List.mem_singleton] at hx; subst hx; exact hf _ rfl
            · exact hirest x hx
          have hsum : ((optList sn ++ (optList f ++ rest)).map μ).sum ≤ fuel := by
            have e1 : ∀ o : Option F, ((optList o).map μ).sum = μo μ o := by
              intro o; cases o <;> simp [optList, μo]
            simp only [List.map_append, List.sum_append, e1]
            omega
          simp only
          rw [ih _ s1 _ hstack hsum, forest_opt, hk, tree_succ, h]
          simp only
          rw [sub_depth hm k sn s1 hsn (by omega)]
          cases sub step (μo μ sn) sn s1 with
          | none => rfl
          | some r =>
            obtain ⟨o2, s2⟩ := r
            simp only
            rw [forest_opt, sub_depth hm k f s2 hf (by omega)]
            cases sub step (μo μ f) f s2 with
            | none => rfl
            | some r1 =>
              obtain ⟨o1, s3⟩ := r1
              simp only [List.reverse_append, List.append_assoc]

/-- the loop started on one tuple with an empty output = the recursive subtree -/
theorem run_eq_tree (hm : Measured step Inv μ) (fuel d : Nat) (fr : F) (s : S) (hi : Inv fr)
    (hf : μ fr ≤ fuel) (hd : μ fr ≤ d) :
    run step fuel [fr] s [] =
      match tree step d fr s with
      | none => none
      | some (o, s1) => some (o.reverse, s1) := by
  rw [run_eq_forest hm fuel [fr] s [] (by simpa using hi) (by simpa using hf)]
  simp only [forest]
  rw [tree_depth_indep hm d (μ fr) fr s hi hd (Nat.le_refl _)]
  cases tree step (μ fr) fr s with
  | none => rfl
  | some r => obtain ⟨o, s1⟩ := r; simp

end Draco.TreeStack
