import Std.Tactic.Do
import DracoModel.EbDecoder
/-
  DracoProofs.EbConnInv — size facts about the tables `Eb.connLoop` returns (C18): the vertex table has at most
  `max_num_vertices` entries (the check right after the symbol loop) and the vertex compaction keeps its size;
  the number of vertices it reports is at most that size.
-/
open Std.Do
set_option mvcgen.warning false

namespace Draco.Eb

theorem bind_ok {α β : Type} {x : R α} {f : α → R β} {b : β} (h : (x >>= f) = .ok b) :
    ∃ a, x = .ok a ∧ f a = .ok b := by
  cases x with
  | error e => cases h
  | ok a => exact ⟨a, rfl, h⟩

/-- `if (corner_table_->num_vertices() > max_num_vertices) return -1` at the end of the symbol loop -/
theorem connMain_vc (ci : ConnIn) (tr : Trav) (m : ConnMain) (h : connMain ci tr = .ok m) :
    m.vc.size ≤ ci.maxNumVertices := by
  unfold connMain at h
  obtain ⟨r, _, h⟩ := bind_ok h
  dsimp only at h
  split at h
  · obtain ⟨_, hr, _⟩ := bind_ok h
    cases hr
  · rename_i hc
    cases h
    simp only [gt_iff_lt, Nat.not_lt] at hc
    exact hc

theorem wr_size {site : String} {a : Array Nat} {i v : Nat} {r : Array Nat} (h : wr site a i v = .ok r) :
    r.size = a.size := by
  unfold wr at h
  split at h
  · simp only [pure, Except.pure, Except.ok.injEq] at h; rw [← h]; simp
  · cases h

theorem setLeftMost_size {vc : Array Nat} {v c : Nat} {r : Array Nat} (h : setLeftMost vc v c = .ok r) :
    r.size = vc.size := by
  unfold setLeftMost at h
  split at h
  · simp only [pure, Except.pure, Except.ok.injEq] at h; rw [← h]
  · exact wr_size h

/-- partial correctness of an `R` program from its success case -/
theorem R.mayThrow_of' {α : Type} (prog : R α) (Q : α → Prop) (h : ∀ a, prog = .ok a → Q a) :
    ⦃⌜True⌝⦄ prog ⦃⇓? r => ⌜Q r⌝⦄ := by
  cases hp : prog with
  | error e =>
    simp only [Triple, WP.wp, PostCond.mayThrow]
    intro _
    trivial
  | ok a =>
    have := h a hp
    simp only [Triple, WP.wp, PostCond.mayThrow]
    intro _
    exact this

theorem R.ok_of_mayThrow' {α : Type} {prog : R α} {Q : α → Prop} (h : ⦃⌜True⌝⦄ prog ⦃⇓? r => ⌜Q r⌝⦄)
    (a : α) (hp : prog = .ok a) : Q a := by
  subst hp
  simp only [Triple, WP.wp, PostCond.mayThrow] at h
  exact h trivial

@[local spec] theorem raise_cspec {α : Type} (e : Err) :
    ⦃⌜True⌝⦄ (raise e : R α) ⦃((fun _ => ⌜False⌝ : α → Assertion .pure), ExceptConds.true)⦄ := by
  simp only [Triple, WP.wp, raise]
  intro _
  trivial

@[local spec] theorem rdB_tspec (site : String) (a : Array Bool) (i : Nat) :
    ⦃⌜True⌝⦄ rdB site a i ⦃⇓? _ => ⌜True⌝⦄ := R.mayThrow_of' _ _ (fun _ _ => trivial)
@[local spec] theorem wrB_tspec (site : String) (a : Array Bool) (i : Nat) (v : Bool) :
    ⦃⌜True⌝⦄ wrB site a i v ⦃⇓? _ => ⌜True⌝⦄ := R.mayThrow_of' _ _ (fun _ _ => trivial)

@[local spec] theorem wr_size_spec (site : String) (a : Array Nat) (i v : Nat) :
    ⦃⌜True⌝⦄ wr site a i v ⦃⇓? r => ⌜r.size = a.size⌝⦄ := R.mayThrow_of' _ _ (fun _ h => wr_size h)
@[local spec] theorem setLeftMost_size_spec (vc : Array Nat) (v c : Nat) :
    ⦃⌜True⌝⦄ setLeftMost vc v c ⦃⇓? r => ⌜r.size = vc.size⌝⦄ := R.mayThrow_of' _ _ (fun _ h => setLeftMost_size h)
@[local spec] theorem leftMost_tspec (vc : Array Nat) (v : Nat) :
    ⦃⌜True⌝⦄ leftMost vc v ⦃⇓? _ => ⌜True⌝⦄ := R.mayThrow_of' _ _ (fun _ _ => trivial)
@[local spec] theorem vertexA_tspec (c2v : Array Nat) (c : Nat) :
    ⦃⌜True⌝⦄ vertex c2v c ⦃⇓? _ => ⌜True⌝⦄ := R.mayThrow_of' _ _ (fun _ _ => trivial)
@[local spec] theorem swingLeftA_tspec (opp : Array Nat) (c : Nat) :
    ⦃⌜True⌝⦄ swingLeft opp c ⦃⇓? _ => ⌜True⌝⦄ := R.mayThrow_of' _ _ (fun _ _ => trivial)
@[local spec] theorem swingRightA_tspec (opp : Array Nat) (c : Nat) :
    ⦃⌜True⌝⦄ swingRight opp c ⦃⇓? _ => ⌜True⌝⦄ := R.mayThrow_of' _ _ (fun _ _ => trivial)

set_option maxHeartbeats 4000000 in
theorem connCompact_spec (ci : ConnIn) (m : ConnMain) (s : ConnStart) :
    ⦃⌜True⌝⦄ connCompact ci m s ⦃⇓? r => ⌜r.vc.size = m.vc.size ∧ r.numConnVerts ≤ m.vc.size⌝⦄ := by
  mvcgen [connCompact]
  case inv1 => exact ⇓? ⟨_, b⟩ => ⌜b.2.1.size = m.vc.size ∧ b.2.2.2.2.1 ≤ (m.vc.size : Int)⌝
  case inv2 => exact ⇓? ⟨_, b2⟩ => ⌜b2.2.1 ≤ (m.vc.size : Int)⌝
  case inv5 => exact ⇓? ⟨_, _⟩ => ⌜True⌝
  case inv6 => exact ⇓? ⟨_, _⟩ => ⌜True⌝
  all_goals (try (simp_all (config := { zetaDelta := true }); done))
  all_goals (try (simp_all (config := { zetaDelta := true }); omega))

/-- the vertex table of an accepted connectivity has at most `max_num_vertices` entries, the reported number of
    vertices is at most its size -/
theorem connLoop_vc (ci : ConnIn) (tr : Trav) (co : ConnOut) (h : connLoop ci tr = .ok co) :
    co.vc.size ≤ ci.maxNumVertices ∧ co.numConnVerts ≤ co.vc.size := by
  unfold connLoop at h
  obtain ⟨m, hm, h⟩ := bind_ok h
  obtain ⟨s, _, h⟩ := bind_ok h
  have h1 := connMain_vc ci tr m hm
  have h2 := R.ok_of_mayThrow' (connCompact_spec ci m s) co h
  omega

end Draco.Eb
