import DracoModel.SeqDecoder
import DracoProofs.Wrap
import DracoProofs.SeqStream
import Mathlib.Data.List.Forall2
/-
  DracoProofs.SkipEquiv — helper definitions and lemmas for C10 (`SetSkipAttributeTransform`).

  The sequential decoder model `decodeGeometrySeq opts` looks at `opts` only in the very last phase
  of the attribute controller (`TransformAttributesToOriginalFormat`), and that phase reads no
  input.  This file makes that explicit WITHOUT touching the model:

    * `decodeSeqStates` / `finishAtt`        the first three phases / the body of the last one,
      `decodeSequentialAttributes_eq`        the controller is their composition;
    * `streamFront` / `finishStream`         the same split for the dispatcher `decodeStreamWith`
      `decodeStreamWith_eq`                  (complete decoder: `decodeGeometry`, any body decoders),
    * `geomFront` / `finishGeom`             and for the sequential decoder `decodeGeometrySeq`:
      `decodeGeometrySeq_eq`                 `decodeGeometrySeq opts = geomFront >>= finishGeom opts`;
    * `finishPure`, `finishAtt_eq`           the last phase is a pure partial function of the
                                             per-attribute state (`ofOption ∘ finishPure`);
    * `decodeGeometrySeq_some_iff`           hence: `decodeGeometrySeq opts` accepts with result `r`
                                             iff `geomFront` accepts with some `fr` (same final
                                             state) and `finishGeomPure opts.skip fr = some r`;
    * `SeqAttState.WF`, `geomFront_wf`       what the first three phases guarantee about every
                                             per-attribute state (decoder type ≤ 3, the transform
                                             data matches the decoder type, …);
    * `geomFront_states`                     the states of `geomFront` are an output of
                                             `decodeSeqStates`.
-/
namespace Draco
open DecM

/-! ## the decoder monad: laws that are needed (there is no `LawfulMonad` instance) -/

namespace DecM

theorem andThen_assoc {α β γ} (m : DecM α) (f : α → DecM β) (g : β → DecM γ) :
    (m.andThen f).andThen g = m.andThen (fun a => (f a).andThen g) := by
  funext s
  simp only [andThen]
  split <;> rename_i h
  · split at h
    · cases h; rfl
    · simp only [h]
  · split at h
    · cases h
    · simp only [h]

theorem ret_andThen {α β} (a : α) (f : α → DecM β) : (ret a).andThen f = f a := rfl

theorem andThen_ret {α} (m : DecM α) : m.andThen ret = m := by
  funext s
  simp only [andThen, ret]
  split <;> rename_i h <;> rw [h]

theorem ite_andThen {α β} (c : Prop) [Decidable c] (a b : DecM α) (g : α → DecM β) :
    (if c then a else b).andThen g = if c then a.andThen g else b.andThen g := by
  split <;> rfl

theorem failWith_andThen {α β} (x : Status) (g : α → DecM β) :
    (failWith x : DecM α).andThen g = failWith x := rfl

theorem fail_andThen {α β} (g : α → DecM β) : (fail : DecM α).andThen g = fail := rfl

/-- a successful bind is a successful first part followed by a successful second part -/
theorem andThen_some {α β} (m : DecM α) (f : α → DecM β) (s s' : DSt) (b : β) :
    m.andThen f s = (some b, s') ↔ ∃ a s1, m s = (some a, s1) ∧ f a s1 = (some b, s') := by
  simp only [andThen]
  constructor
  · intro h
    split at h
    · cases h
    · rename_i a s1 h1; exact ⟨a, s1, h1, h⟩
  · rintro ⟨a, s1, h1, h2⟩
    rw [h1]; exact h2

theorem ofOption_some {α} (o : Option α) (s s' : DSt) (a : α) :
    ofOption o s = (some a, s') ↔ o = some a ∧ s' = s := by
  cases o with
  | none => simp [ofOption, fail]
  | some b =>
    simp only [ofOption, ret, Prod.mk.injEq, Option.some.injEq]
    constructor
    · rintro ⟨h1, h2⟩; exact ⟨h1, h2.symm⟩
    · rintro ⟨h1, h2⟩; exact ⟨h1, h2.symm⟩

theorem ofOption_isSome {α} (o : Option α) (s : DSt) : (ofOption o s).1.isSome = o.isSome := by
  cases o <;> rfl

/-- `mapOpt g l`: all of `g x`, if every one is defined -/
def mapOpt {α β} (g : α → Option β) : List α → Option (List β)
  | [] => some []
  | a :: as =>
    match g a with
    | none => none
    | some b =>
      match mapOpt g as with
      | none => none
      | some bs => some (b :: bs)

/-- a loop whose body is a pure partial function is a pure partial function -/
theorem mapM'_ofOption {α β} (g : α → Option β) (l : List α) :
    mapM' (fun x => ofOption (g x)) l = ofOption (mapOpt g l) := by
  induction l with
  | nil => rfl
  | cons a as ih =>
    simp only [mapM', mapOpt, bind, pure, ih]
    cases g a with
    | none => rfl
    | some b =>
      cases mapOpt g as with
      | none => rfl
      | some bs => rfl

theorem mapOpt_some_iff {α β} (g : α → Option β) (l : List α) :
    (mapOpt g l).isSome ↔ ∀ x ∈ l, (g x).isSome := by
  induction l with
  | nil => simp [mapOpt]
  | cons a as ih =>
    simp only [List.mem_cons, forall_eq_or_imp, ← ih, mapOpt]
    cases g a with
    | none => simp
    | some b => cases mapOpt g as <;> simp

/-- element-wise simulation between two pure loops over the same list -/
theorem mapOpt_rel {α β γ} (R : β → γ → Prop) (f : α → Option β) (g : α → Option γ) (l : List α)
    (h : ∀ x ∈ l, ∀ b, f x = some b → ∃ c, g x = some c ∧ R b c) (bs : List β)
    (hf : mapOpt f l = some bs) : ∃ cs, mapOpt g l = some cs ∧ List.Forall₂ R bs cs := by
  induction l generalizing bs with
  | nil =>
    simp only [mapOpt, Option.some.injEq] at hf
    subst hf
    exact ⟨[], rfl, List.Forall₂.nil⟩
  | cons a as ih =>
    simp only [mapOpt] at hf
    cases hfa : f a with
    | none => rw [hfa] at hf; cases hf
    | some b =>
      rw [hfa] at hf
      cases hfas : mapOpt f as with
      | none => rw [hfas] at hf; cases hf
      | some bs' =>
        rw [hfas] at hf
        simp only [Option.some.injEq] at hf
        subst hf
        obtain ⟨c, hc, hR⟩ := h a (by simp) b hfa
        obtain ⟨cs, hcs, hRs⟩ := ih (fun x hx => h x (by simp [hx])) bs' hfas
        refine ⟨c :: cs, ?_, List.Forall₂.cons hR hRs⟩
        simp only [mapOpt, hc, hcs]

/-- two pure loops over the same list: element-wise relation between their results -/
theorem mapOpt_rel₂ {α β γ} (R : β → γ → Prop) (f : α → Option β) (g : α → Option γ) (l : List α)
    (h : ∀ x ∈ l, ∀ b c, f x = some b → g x = some c → R b c) (bs : List β) (cs : List γ)
    (hf : mapOpt f l = some bs) (hg : mapOpt g l = some cs) : List.Forall₂ R bs cs := by
  induction l generalizing bs cs with
  | nil =>
    simp only [mapOpt, Option.some.injEq] at hf hg
    subst hf hg
    exact List.Forall₂.nil
  | cons a as ih =>
    simp only [mapOpt] at hf hg
    cases hfa : f a with
    | none => rw [hfa] at hf; cases hf
    | some b =>
      cases hga : g a with
      | none => rw [hga] at hg; cases hg
      | some c =>
        rw [hfa] at hf; rw [hga] at hg
        cases hfas : mapOpt f as with
        | none => rw [hfas] at hf; cases hf
        | some bs' =>
          cases hgas : mapOpt g as with
          | none => rw [hgas] at hg; cases hg
          | some cs' =>
            rw [hfas] at hf; rw [hgas] at hg
            simp only [Option.some.injEq] at hf hg
            subst hf hg
            exact List.Forall₂.cons (h a (by simp) b c hfa hga)
              (ih (fun x hx => h x (by simp [hx])) bs' cs' hfas hgas)

/-! ### postconditions -/

/-- `Post m P`: whenever `m` succeeds, its result and final state satisfy `P` -/
def Post {α} (m : DecM α) (P : α → DSt → Prop) : Prop :=
  ∀ s a s', m s = (some a, s') → P a s'

theorem Post.bind {α β} {m : DecM α} {f : α → DecM β} {P : α → DSt → Prop} {Q : β → DSt → Prop}
    (hm : Post m P) (hf : ∀ a s1, P a s1 → ∀ b s', f a s1 = (some b, s') → Q b s') :
    Post (m >>= f) Q := by
  intro s b s' h
  obtain ⟨a, s1, h1, h2⟩ := (andThen_some m f s s' b).1 h
  exact hf a s1 (hm s a s1 h1) b s' h2

theorem Post.bindP {α β} {m : DecM α} {f : α → DecM β} {P : α → Prop} {Q : β → DSt → Prop}
    (hm : Post m (fun a _ => P a)) (hf : ∀ a, P a → Post (f a) Q) : Post (m >>= f) Q := by
  intro s b s' h
  obtain ⟨a, s1, h1, h2⟩ := (andThen_some m f s s' b).1 h
  exact hf a (hm s a s1 h1) s1 b s' h2

theorem Post.bind' {α β} {m : DecM α} {f : α → DecM β} {Q : β → DSt → Prop}
    (hf : ∀ a, Post (f a) Q) : Post (m >>= f) Q := by
  intro s b s' h
  obtain ⟨a, s1, _, h2⟩ := (andThen_some m f s s' b).1 h
  exact hf a s1 b s' h2

theorem Post.ite {α} {c : Prop} [Decidable c] {a b : DecM α} {Q : α → DSt → Prop}
    (ha : Post a Q) (hb : Post b Q) : Post (if c then a else b) Q := by
  split
  · exact ha
  · exact hb

theorem Post.failWith {α} (x : Status) (Q : α → DSt → Prop) : Post (failWith x : DecM α) Q := by
  intro s a s' h; cases h

theorem Post.fail {α} (Q : α → DSt → Prop) : Post (fail : DecM α) Q := by
  intro s a s' h; cases h

theorem Post.pure {α} {a : α} {Q : α → DSt → Prop} (h : ∀ s, Q a s) : Post (pure a : DecM α) Q := by
  intro s b s' hb
  cases hb
  exact h s

theorem Post.mono {α} {m : DecM α} {P Q : α → DSt → Prop} (hm : Post m P)
    (h : ∀ a s, P a s → Q a s) : Post m Q := fun s a s' e => h a s' (hm s a s' e)

theorem Post.require (c : Bool) : Post (require c) (fun _ _ => c = true) := by
  intro s a s' h
  cases c with
  | true => rfl
  | false => cases h

/-- a loop over elements satisfying `P` with a body that establishes `Q` yields elements
    satisfying `Q` -/
theorem Post.mapM'_all {α β} {f : α → DecM β} {P : α → Prop} {Q : β → Prop}
    (hf : ∀ x, P x → Post (f x) (fun y _ => Q y)) (l : List α) (hl : ∀ x ∈ l, P x) :
    Post (mapM' f l) (fun l' _ => ∀ y ∈ l', Q y) := by
  induction l with
  | nil =>
    intro s a s' h
    cases h
    intro y hy; cases hy
  | cons a as ih =>
    intro s bs s' h
    simp only [mapM'] at h
    obtain ⟨b, s1, h1, h2⟩ := (andThen_some _ _ s s' bs).1 h
    obtain ⟨bs', s2, h3, h4⟩ := (andThen_some _ _ s1 s' bs).1 h2
    cases h4
    intro y hy
    rcases List.mem_cons.1 hy with rfl | hy
    · exact hf a (hl a (by simp)) s y s1 h1
    · exact ih (fun x hx => hl x (by simp [hx])) s1 bs' s' h3 y hy

end DecM

/-! ## the attribute controller: first three phases + the last one -/

/-- `SequentialAttributeDecodersController` up to and including
    `DecodeDataNeededByPortableTransforms` (literally the code of `decodeSequentialAttributes`
    without its last loop) -/
def decodeSeqStates (numPoints : Nat) : DecM (List SeqAttState) := do
  let descs ← decodeAttDescs
  alloc "controller.sequential_decoders" (8 * descs.length)
  -- decoder types + Init
  let states ← mapM' (fun (d : AttDesc) => do
      let dt ← rdU8
      require (dt ≤ 3)
      if dt == 2 then require (d.dataType == Generated.DT_FLOAT32.toNat)
      if dt == 3 then require (d.numComponents == 3 && d.dataType == Generated.DT_FLOAT32.toNat)
      pure ({ desc := d, decoderType := dt } : SeqAttState)) descs
  -- LinearSequencer::GenerateSequence
  require (numPoints < 2^31)
  alloc "linear_sequencer.point_ids" (4 * numPoints)
  -- DecodePortableAttributes
  let states ← mapM' (fun (s : SeqAttState) => do
      let stride := dataTypeLength s.desc.dataType * s.desc.numComponents
      alloc "attribute.Reset" (numPoints * stride)
      if s.decoderType == 0 then
        -- SequentialAttributeDecoder::DecodeValues: entry by entry
        let b ← bytes (numPoints * stride)
        pure { s with rawValues := b }
      else
        let nc := if s.decoderType == 3 then 2 else s.desc.numComponents
        let vals ← decodeIntegerValues s.decoderType numPoints nc
        pure { s with portable := vals }) states
  -- DecodeDataNeededByPortableTransforms
  let states ← mapM' (fun (s : SeqAttState) => do
      if s.decoderType == 2 then
        let mins ← replicateM' s.desc.numComponents rdU32
        let range ← rdU32
        let bits ← rdU8
        require (1 ≤ bits && bits ≤ 30)
        pure { s with transform := .quantization bits mins range }
      else if s.decoderType == 3 then
        let bits ← rdU8
        pure { s with transform := .octahedron bits }
      else pure s) states
  pure states

/-- `TransformAttributesToOriginalFormat` for one attribute (the body of the last loop of
    `decodeSequentialAttributes`) -/
def finishAtt (opts : DecOpts) (numPoints : Nat) (s : SeqAttState) : DecM Attribute := do
  let d := s.desc
  if s.decoderType == 0 then
    pure (d.toAttribute numPoints s.rawValues)
  else if opts.skip.contains d.attType then
    -- attribute()->CopyFrom(*portable_attribute)
    let nc := if s.decoderType == 3 then 2 else d.numComponents
    pure { attType := d.attType, dataType := Generated.DT_INT32.toNat, numComponents := nc,
           normalized := false, uniqueId := d.uniqueId, numValues := numPoints, map := none,
           values := (s.portable.map (intToLE 4)).flatten, transform := s.transform }
  else
    match s.decoderType with
    | 1 =>
      -- SequentialIntegerAttributeDecoder::StoreValues
      let len := dataTypeLength d.dataType
      require (d.dataType ≥ 1 && d.dataType ≤ 6)
      pure (d.toAttribute numPoints (s.portable.map (intToLE len)).flatten)
    | 2 =>
      match s.transform with
      | .quantization bits mins range =>
        pure (d.toAttribute numPoints (dequantAll range bits.toNat mins s.portable mins []).flatten)
      | _ => fail
    | _ =>
      match s.transform with
      | .octahedron bits =>
        require (2 ≤ bits && bits ≤ 30)
        pure (d.toAttribute numPoints (octaAll bits.toNat s.portable []).flatten)
      | _ => fail

/-- the controller is the first three phases followed by the `opts`-dependent last one -/
theorem decodeSequentialAttributes_eq (opts : DecOpts) (n : Nat) :
    decodeSequentialAttributes opts n =
      (do let st ← decodeSeqStates n; mapM' (finishAtt opts n) st) := by
  unfold decodeSequentialAttributes decodeSeqStates
  simp only [bind, pure, DecM.andThen_assoc]
  rfl

/-! ## the whole decoder: everything before the last phase + the last phase -/

/-- everything the decoder has computed before `TransformAttributesToOriginalFormat` -/
structure GeomFront where
  isMesh : Bool
  numPoints : Nat
  faces : List (Nat × Nat × Nat)
  metadata : Option GeometryMetadata
  /-- `none`: the stream has no attributes decoder -/
  states : Option (List SeqAttState)

/-- `decodePointAttributesSeq` without the last phase -/
def decodePointStatesSeq (numPoints : Nat) : DecM (Option (List SeqAttState)) := do
  let numDecoders ← rdU8
  if numDecoders == 0 then pure none
  else if numDecoders == 1 then (do let st ← decodeSeqStates numPoints; pure (some st))
  else failWith (.unsupported "more than one sequential attributes decoder")

/-- the last phase over all attributes -/
def finishAtts (opts : DecOpts) (numPoints : Nat) :
    Option (List SeqAttState) → DecM (List Attribute)
  | none => pure []
  | some st => mapM' (finishAtt opts numPoints) st

theorem decodePointAttributesSeq_eq (opts : DecOpts) (n : Nat) :
    decodePointAttributesSeq opts n =
      (do let st ← decodePointStatesSeq n; finishAtts opts n st) := by
  unfold decodePointAttributesSeq decodePointStatesSeq
  simp only [bind, pure, DecM.andThen_assoc, DecM.ite_andThen, DecM.failWith_andThen,
    DecM.ret_andThen, decodeSequentialAttributes_eq]
  rfl

/-- the last phase + assembling the result -/
def finishGeom (opts : DecOpts) (fr : GeomFront) : DecM DecodeResult := do
  let atts ← finishAtts opts fr.numPoints fr.states
  pure ⟨{ isMesh := fr.isMesh, numPoints := fr.numPoints, faces := fr.faces, atts := atts },
        fr.metadata⟩

/-- where the dispatcher `decodeStreamWith` stands before anything that depends on the options:
    a sequential stream decoded up to the last phase of the attribute controller, or the start
    of an Edgebreaker / kd-tree body -/
inductive StreamFront where
  | seq (fr : GeomFront)
  | eb (md : Option GeometryMetadata)
  | kd (md : Option GeometryMetadata)

/-- `decodeStreamWith` (literally the same code) up to the first use of the options; does not
    depend on the options nor on the Edgebreaker / kd-tree body decoders -/
def streamFront : DecM StreamFront := do
  let h ← decodeHeader
  -- Decoder::GetEncodedGeometryType
  require (h.encoderType < 2)
  let isMesh := h.encoderType == 1
  let maxMajor := if isMesh then Generated.kDracoMeshBitstreamVersionMajor.toNat else Generated.kDracoPointCloudBitstreamVersionMajor.toNat
  let maxMinor := if isMesh then Generated.kDracoMeshBitstreamVersionMinor.toNat else Generated.kDracoPointCloudBitstreamVersionMinor.toNat
  -- CreatePointCloudDecoder / CreateMeshDecoder
  require (h.encoderMethod ≤ 1)
  if h.major < 1 || h.major > maxMajor then failWith .unknownVersion else
  if h.major == maxMajor && h.minor > maxMinor then failWith .unknownVersion else
  setVersion (bsVersion h.major h.minor)
  let ver := bsVersion h.major h.minor
  let md ← if ver ≥ bsVersion 1 3 && h.flags / 32768 % 2 == 1 then (do let g ← lift Leaf.decodeGeometryMetadata; pure (some g)) else pure none
  if h.encoderMethod != 0 && isMesh then pure (.eb md) else
  if h.encoderMethod != 0 then pure (.kd md) else
  if isMesh then
    let (numPoints, faces) ← decodeSeqConnectivity
    let st ← decodePointStatesSeq numPoints
    pure (.seq ⟨true, numPoints, faces, md, st⟩)
  else
    let np ← rdI32
    -- set_num_points(int32 → uint32)
    let numPoints := toUnsigned 32 np
    declare numPoints
    let st ← decodePointStatesSeq numPoints
    pure (.seq ⟨false, numPoints, [], md, st⟩)

/-- the options-dependent rest of `decodeStreamWith` -/
def finishStream (eb kd : DecOpts → DecM Geometry) (opts : DecOpts) :
    StreamFront → DecM DecodeResult
  | .seq fr => finishGeom opts fr
  | .eb md => do let g ← eb opts; pure ⟨g, md⟩
  | .kd md => do let g ← kd opts; pure ⟨g, md⟩

/-- the dispatcher is an options-independent front part followed by the options-dependent rest -/
theorem decodeStreamWith_eq (eb kd : DecOpts → DecM Geometry) (opts : DecOpts) :
    decodeStreamWith eb kd opts = (do let fg ← streamFront; finishStream eb kd opts fg) := by
  unfold decodeStreamWith streamFront
  simp only [bind, pure, DecM.andThen_assoc, DecM.ite_andThen, DecM.failWith_andThen,
    DecM.ret_andThen, decodePointAttributesSeq_eq, finishStream, finishGeom]

/-- only the sequential streams -/
def seqOnly : StreamFront → DecM GeomFront
  | .seq fr => pure fr
  | .eb _ => failWith (.unsupported "edgebreaker")
  | .kd _ => failWith (.unsupported "kd-tree")

/-- `decodeGeometrySeq` up to the last phase of the attribute controller; does not depend on the
    decoder options -/
def geomFront : DecM GeomFront := do
  let fg ← streamFront
  seqOnly fg

/-- the sequential decoder is an `opts`-independent front part followed by the last phase -/
theorem decodeGeometrySeq_eq (opts : DecOpts) :
    decodeGeometrySeq opts = (do let fr ← geomFront; finishGeom opts fr) := by
  unfold decodeGeometrySeq geomFront
  rw [decodeStreamWith_eq]
  simp only [bind, DecM.andThen_assoc]
  congr 1
  funext fg
  cases fg <;> rfl

/-! ## the last phase is a pure partial function -/

/-- the attribute exposed when the transform is skipped: `CopyFrom(*portable_attribute)` -/
def portableAtt (numPoints : Nat) (s : SeqAttState) : Attribute :=
  { attType := s.desc.attType, dataType := Generated.DT_INT32.toNat,
    numComponents := if s.decoderType == 3 then 2 else s.desc.numComponents,
    normalized := false, uniqueId := s.desc.uniqueId, numValues := numPoints, map := none,
    values := (s.portable.map (intToLE 4)).flatten, transform := s.transform }

/-- the inverse transform of a non-generic attribute (`none`: the C++ returns false) -/
def finishNormal (numPoints : Nat) (s : SeqAttState) : Option Attribute :=
  match s.decoderType with
  | 1 =>
    if (s.desc.dataType ≥ 1 && s.desc.dataType ≤ 6) = true then
      some (s.desc.toAttribute numPoints
        (s.portable.map (intToLE (dataTypeLength s.desc.dataType))).flatten)
    else none
  | 2 =>
    match s.transform with
    | .quantization bits mins range =>
      some (s.desc.toAttribute numPoints
        (dequantAll range bits.toNat mins s.portable mins []).flatten)
    | _ => none
  | _ =>
    match s.transform with
    | .octahedron bits =>
      if (decide (2 ≤ bits) && decide (bits ≤ 30)) = true then
        some (s.desc.toAttribute numPoints (octaAll bits.toNat s.portable []).flatten)
      else none
    | _ => none

/-- `finishAtt` as a pure function of the skip list and the per-attribute state -/
def finishPure (skip : List Nat) (numPoints : Nat) (s : SeqAttState) : Option Attribute :=
  if (s.decoderType == 0) = true then some (s.desc.toAttribute numPoints s.rawValues)
  else if skip.contains s.desc.attType = true then some (portableAtt numPoints s)
  else finishNormal numPoints s

theorem finishAtt_eq (opts : DecOpts) (n : Nat) (s : SeqAttState) :
    finishAtt opts n s = ofOption (finishPure opts.skip n s) := by
  unfold finishAtt finishPure finishNormal
  simp only [bind, pure]
  split
  · rfl
  · split
    · rfl
    · split
      · simp only [DecM.require]
        split <;> rfl
      · split <;> rfl
      · split
        · simp only [DecM.require]
          split <;> rfl
        · rfl

def finishAttsPure (skip : List Nat) (numPoints : Nat) :
    Option (List SeqAttState) → Option (List Attribute)
  | none => some []
  | some st => DecM.mapOpt (finishPure skip numPoints) st

def finishGeomPure (skip : List Nat) (fr : GeomFront) : Option DecodeResult :=
  match finishAttsPure skip fr.numPoints fr.states with
  | none => none
  | some atts =>
    some ⟨{ isMesh := fr.isMesh, numPoints := fr.numPoints, faces := fr.faces, atts := atts },
          fr.metadata⟩

theorem finishAtts_eq (opts : DecOpts) (n : Nat) (st : Option (List SeqAttState)) :
    finishAtts opts n st = ofOption (finishAttsPure opts.skip n st) := by
  cases st with
  | none => rfl
  | some l =>
    simp only [finishAtts, finishAttsPure]
    rw [← DecM.mapM'_ofOption]
    congr 1
    funext x
    exact finishAtt_eq opts n x

theorem finishGeom_eq (opts : DecOpts) (fr : GeomFront) :
    finishGeom opts fr = ofOption (finishGeomPure opts.skip fr) := by
  unfold finishGeom finishGeomPure
  rw [finishAtts_eq]
  cases finishAttsPure opts.skip fr.numPoints fr.states <;> rfl

/-- `decodeGeometrySeq opts` accepts with result `r` and final state `s'` exactly when the front
    part accepts with final state `s'` and the (pure, input-free) last phase is defined -/
theorem decodeGeometrySeq_some_iff (opts : DecOpts) (s s' : DSt) (r : DecodeResult) :
    decodeGeometrySeq opts s = (some r, s') ↔
      ∃ fr, geomFront s = (some fr, s') ∧ finishGeomPure opts.skip fr = some r := by
  rw [decodeGeometrySeq_eq]
  simp only [bind]
  rw [DecM.andThen_some]
  constructor
  · rintro ⟨fr, s1, h1, h2⟩
    rw [finishGeom_eq, DecM.ofOption_some] at h2
    obtain ⟨h2, rfl⟩ := h2
    exact ⟨fr, h1, h2⟩
  · rintro ⟨fr, h1, h2⟩
    refine ⟨fr, s', h1, ?_⟩
    rw [finishGeom_eq, DecM.ofOption_some]
    exact ⟨h2, rfl⟩

theorem decodeGeometrySeq_isSome_iff (opts : DecOpts) (s : DSt) :
    (decodeGeometrySeq opts s).1.isSome ↔
      ∃ fr s', geomFront s = (some fr, s') ∧ (finishGeomPure opts.skip fr).isSome := by
  constructor
  · intro h
    cases hd : decodeGeometrySeq opts s with
    | mk o s' =>
      rw [hd] at h
      cases o with
      | none => cases h
      | some r =>
        obtain ⟨fr, h1, h2⟩ := (decodeGeometrySeq_some_iff opts s s' r).1 hd
        exact ⟨fr, s', h1, by rw [h2]; rfl⟩
  · rintro ⟨fr, s', h1, h2⟩
    cases hf : finishGeomPure opts.skip fr with
    | none => rw [hf] at h2; cases h2
    | some r =>
      rw [(decodeGeometrySeq_some_iff opts s s' r).2 ⟨fr, h1, hf⟩]; rfl

theorem finishGeomPure_isSome_iff (skip : List Nat) (fr : GeomFront) :
    (finishGeomPure skip fr).isSome ↔
      ∀ sts, fr.states = some sts → ∀ x ∈ sts, (finishPure skip fr.numPoints x).isSome := by
  unfold finishGeomPure
  cases hst : fr.states with
  | none => simp [finishAttsPure]
  | some sts =>
    simp only [finishAttsPure, Option.some.injEq, forall_eq']
    rw [← DecM.mapOpt_some_iff]
    cases DecM.mapOpt (finishPure skip fr.numPoints) sts <;> simp

/-! ## what the first three phases guarantee about a per-attribute state -/

/-- after `decoder types + Init` -/
def SeqAttState.WF1 (x : SeqAttState) : Prop :=
  x.decoderType ≤ 3 ∧ x.transform = .none ∧
  (x.decoderType = 2 → x.desc.dataType = Generated.DT_FLOAT32.toNat) ∧
  (x.decoderType = 3 → x.desc.numComponents = 3 ∧ x.desc.dataType = Generated.DT_FLOAT32.toNat)

/-- after `DecodeDataNeededByPortableTransforms`: the transform data matches the decoder type -/
def SeqAttState.WF (x : SeqAttState) : Prop :=
  ((x.decoderType = 0 ∨ x.decoderType = 1) ∧ x.transform = .none) ∨
  (x.decoderType = 2 ∧ x.desc.dataType = Generated.DT_FLOAT32.toNat ∧
    ∃ (bits : Nat) (mins : List Nat) (range : Nat),
      x.transform = .quantization bits mins range ∧ 1 ≤ bits ∧ bits ≤ 30) ∨
  (x.decoderType = 3 ∧ x.desc.numComponents = 3 ∧ x.desc.dataType = Generated.DT_FLOAT32.toNat ∧
    ∃ bits : Nat, x.transform = .octahedron bits)

theorem phase1_post (d : AttDesc) :
    Post (do
      let dt ← rdU8
      require (dt ≤ 3)
      if dt == 2 then require (d.dataType == Generated.DT_FLOAT32.toNat)
      if dt == 3 then require (d.numComponents == 3 && d.dataType == Generated.DT_FLOAT32.toNat)
      pure ({ desc := d, decoderType := dt } : SeqAttState)) (fun x _ => x.WF1) := by
  refine Post.bind' ?_; intro dt
  refine Post.bindP (Post.require _) ?_; intro _ h1
  have h1 : dt ≤ 3 := by simpa using h1
  dsimp only
  split <;> rename_i hc2
  · refine Post.bindP (Post.require _) ?_; intro _ h2
    split <;> rename_i hc3
    · refine Post.bindP (Post.require _) ?_; intro _ h3
      refine Post.pure ?_; intro _
      exact ⟨h1, rfl, fun _ => by simpa using h2, fun _ => by simpa using h3⟩
    · refine Post.pure ?_; intro _
      exact ⟨h1, rfl, fun _ => by simpa using h2, fun h3 => by subst h3; simp at hc3⟩
  · split <;> rename_i hc3
    · refine Post.bindP (Post.require _) ?_; intro _ h3
      refine Post.pure ?_; intro _
      exact ⟨h1, rfl, fun h2 => by subst h2; simp at hc2, fun _ => by simpa using h3⟩
    · refine Post.pure ?_; intro _
      exact ⟨h1, rfl, fun h2 => by subst h2; simp at hc2, fun h3 => by subst h3; simp at hc3⟩

theorem phase2_post (n : Nat) (x : SeqAttState) (hx : x.WF1) :
    Post (do
      let stride := dataTypeLength x.desc.dataType * x.desc.numComponents
      alloc "attribute.Reset" (n * stride)
      if x.decoderType == 0 then
        let b ← bytes (n * stride)
        pure { x with rawValues := b }
      else
        let nc := if x.decoderType == 3 then 2 else x.desc.numComponents
        let vals ← decodeIntegerValues x.decoderType n nc
        pure { x with portable := vals }) (fun y _ => y.WF1) := by
  refine Post.bind' ?_; intro _
  refine Post.ite ?_ ?_
  · refine Post.bind' ?_; intro b
    refine Post.pure ?_; intro _; exact hx
  · refine Post.bind' ?_; intro b
    refine Post.pure ?_; intro _; exact hx

theorem phase3_post (x : SeqAttState) (hx : x.WF1) :
    Post (do
      if x.decoderType == 2 then
        let mins ← replicateM' x.desc.numComponents rdU32
        let range ← rdU32
        let bits ← rdU8
        require (1 ≤ bits && bits ≤ 30)
        pure { x with transform := .quantization bits mins range }
      else if x.decoderType == 3 then
        let bits ← rdU8
        pure { x with transform := .octahedron bits }
      else pure x) (fun y _ => y.WF) := by
  obtain ⟨h3, ht, h2, h3'⟩ := hx
  split
  · rename_i hc
    have hc : x.decoderType = 2 := by simpa using hc
    refine Post.bind' ?_; intro mins
    refine Post.bind' ?_; intro range
    refine Post.bind' ?_; intro bits
    refine Post.bindP (Post.require _) ?_; intro _ hb
    refine Post.pure ?_; intro _
    refine Or.inr (Or.inl ⟨hc, h2 hc, bits, mins, range, rfl, ?_⟩)
    simpa using hb
  · rename_i hc
    have hc : ¬ x.decoderType = 2 := by simpa using hc
    split
    · rename_i hc3
      have hc3 : x.decoderType = 3 := by simpa using hc3
      refine Post.bind' ?_; intro bits
      refine Post.pure ?_; intro _
      exact Or.inr (Or.inr ⟨hc3, (h3' hc3).1, (h3' hc3).2, bits, rfl⟩)
    · rename_i hc3
      have hc3 : ¬ x.decoderType = 3 := by simpa using hc3
      refine Post.pure ?_; intro _
      refine Or.inl ⟨?_, ht⟩
      omega

/-- every state produced by the first three phases is well formed -/
theorem decodeSeqStates_wf (n : Nat) : Post (decodeSeqStates n) (fun l _ => ∀ x ∈ l, x.WF) := by
  unfold decodeSeqStates
  refine Post.bind' ?_; intro descs
  refine Post.bind' ?_; intro _
  refine Post.bindP (Post.mapM'_all (P := fun _ => True) (fun d _ => phase1_post d) descs
    (fun _ _ => trivial)) ?_
  intro st1 h1
  refine Post.bind' ?_; intro _
  refine Post.bind' ?_; intro _
  refine Post.bindP (Post.mapM'_all (fun x hx => phase2_post n x hx) st1 h1) ?_
  intro st2 h2
  exact Post.mapM'_all (fun x hx => phase3_post x hx) st2 h2

/-- the states handed to the last phase come out of `decodeSeqStates`, run for the number of
    points of the geometry and ending in the final decoder state -/
theorem decodePointStatesSeq_post (n : Nat) :
    Post (decodePointStatesSeq n) (fun o s' => ∀ sts, o = some sts →
      ∃ s0, decodeSeqStates n s0 = (some sts, s')) := by
  unfold decodePointStatesSeq
  intro s o s' h
  obtain ⟨nd, s1, _, h2⟩ := (andThen_some _ _ s s' o).1 h
  split at h2
  · cases h2; intro sts hs; cases hs
  · split at h2
    · obtain ⟨st, s2, h3, h4⟩ := (andThen_some _ _ s1 s' o).1 h2
      cases h4
      intro sts hs
      cases hs
      exact ⟨s1, h3⟩
    · cases h2

/-- the property of `geomFront_states`, on a `StreamFront` -/
def StreamFront.StatesOK : StreamFront → DSt → Prop
  | .seq fr, s' => ∀ sts, fr.states = some sts →
      ∃ s0, decodeSeqStates fr.numPoints s0 = (some sts, s')
  | .eb _, _ => True
  | .kd _, _ => True

theorem streamFront_states : Post streamFront StreamFront.StatesOK := by
  unfold streamFront
  refine Post.bind' ?_; intro h
  refine Post.bind' ?_; intro _
  refine Post.bind' ?_; intro _
  refine Post.ite (Post.failWith _ _) ?_
  refine Post.ite (Post.failWith _ _) ?_
  refine Post.bind' ?_; intro _
  have key : ∀ md : Option GeometryMetadata, Post
      (if (h.encoderMethod != 0 && h.encoderType == 1) = true then pure (StreamFront.eb md)
        else
        if (h.encoderMethod != 0) = true then pure (StreamFront.kd md)
        else
          if (h.encoderType == 1) = true then do
            let __x ← decodeSeqConnectivity
            match __x with
              | (numPoints, faces) => do
                let st ← decodePointStatesSeq numPoints
                pure (StreamFront.seq ⟨true, numPoints, faces, md, st⟩)
          else do
            let np ← rdI32
            declare (toUnsigned 32 np)
            let st ← decodePointStatesSeq (toUnsigned 32 np)
            pure (StreamFront.seq ⟨false, toUnsigned 32 np, [], md, st⟩))
      StreamFront.StatesOK := by
    intro md
    refine Post.ite (Post.pure (fun _ => trivial)) ?_
    refine Post.ite (Post.pure (fun _ => trivial)) ?_
    refine Post.ite ?_ ?_
    · apply Post.bind'; rintro ⟨np, faces⟩
      refine Post.bind (decodePointStatesSeq_post np) ?_
      intro o s1 ho b s' hb
      cases hb
      exact ho
    · refine Post.bind' ?_; intro np
      refine Post.bind' ?_; intro _
      refine Post.bind (decodePointStatesSeq_post _) ?_
      intro o s1 ho b s' hb
      cases hb
      exact ho
  refine Post.ite ?_ ?_
  · refine Post.bind' ?_; intro md
    exact key md
  · refine Post.bind' ?_; intro md
    exact key md

/-- `geomFront` accepts exactly when `streamFront` accepts with a sequential stream -/
theorem geomFront_some_iff (s s' : DSt) (fr : GeomFront) :
    geomFront s = (some fr, s') ↔ streamFront s = (some (.seq fr), s') := by
  unfold geomFront
  simp only [bind]
  rw [DecM.andThen_some]
  constructor
  · rintro ⟨fg, s1, h1, h2⟩
    cases fg with
    | seq fr' => cases h2; exact h1
    | eb _ => cases h2
    | kd _ => cases h2
  · intro h
    exact ⟨_, _, h, rfl⟩

theorem geomFront_states :
    Post geomFront (fun fr s' => ∀ sts, fr.states = some sts →
      ∃ s0, decodeSeqStates fr.numPoints s0 = (some sts, s')) := by
  intro s fr s' h
  exact streamFront_states s _ s' ((geomFront_some_iff s s' fr).1 h)

/-- every per-attribute state handed to the last phase is well formed -/
theorem geomFront_wf (s s' : DSt) (fr : GeomFront) (h : geomFront s = (some fr, s'))
    (sts : List SeqAttState) (hs : fr.states = some sts) : ∀ x ∈ sts, x.WF := by
  obtain ⟨s0, h0⟩ := geomFront_states s fr s' h sts hs
  exact decodeSeqStates_wf fr.numPoints s0 sts s' h0

/-! ## the last phase, case by case -/

theorem finishPure_generic (S : List Nat) (n : Nat) (x : SeqAttState) (h : x.decoderType = 0) :
    finishPure S n x = some (x.desc.toAttribute n x.rawValues) := by
  simp [finishPure, h]

theorem finishPure_of_mem (S : List Nat) (n : Nat) (x : SeqAttState) (h : x.decoderType ≠ 0)
    (hm : x.desc.attType ∈ S) : finishPure S n x = some (portableAtt n x) := by
  simp [finishPure, h, hm]

theorem finishPure_of_not_mem (S : List Nat) (n : Nat) (x : SeqAttState) (h : x.decoderType ≠ 0)
    (hm : x.desc.attType ∉ S) : finishPure S n x = finishNormal n x := by
  simp [finishPure, h, hm]

/-- the last phase depends on the skip list only through membership of the attribute's type -/
theorem finishPure_congr (S T : List Nat) (n : Nat) (x : SeqAttState)
    (h : x.desc.attType ∈ S ↔ x.desc.attType ∈ T) : finishPure S n x = finishPure T n x := by
  by_cases h0 : x.decoderType = 0
  · rw [finishPure_generic S n x h0, finishPure_generic T n x h0]
  · by_cases hm : x.desc.attType ∈ S
    · rw [finishPure_of_mem S n x h0 hm, finishPure_of_mem T n x h0 (h.1 hm)]
    · rw [finishPure_of_not_mem S n x h0 hm, finishPure_of_not_mem T n x h0 (fun c => hm (h.2 c))]

theorem finishNormal_toAttribute (n : Nat) (x : SeqAttState) (a : Attribute)
    (h : finishNormal n x = some a) : ∃ v, a = x.desc.toAttribute n v := by
  unfold finishNormal at h
  split at h
  · split at h
    · cases h; exact ⟨_, rfl⟩
    · cases h
  · split at h
    · cases h; exact ⟨_, rfl⟩
    · cases h
  · split at h
    · split at h
      · cases h; exact ⟨_, rfl⟩
      · cases h
    · cases h

/-- identity, type, mapping and size of a decoded attribute do not depend on the skip list -/
theorem finishPure_ids (S : List Nat) (n : Nat) (x : SeqAttState) (a : Attribute)
    (h : finishPure S n x = some a) :
    a.uniqueId = x.desc.uniqueId ∧ a.attType = x.desc.attType ∧ a.map = none ∧ a.numValues = n := by
  by_cases h0 : x.decoderType = 0
  · rw [finishPure_generic S n x h0] at h; cases h; exact ⟨rfl, rfl, rfl, rfl⟩
  · by_cases hm : x.desc.attType ∈ S
    · rw [finishPure_of_mem S n x h0 hm] at h; cases h; exact ⟨rfl, rfl, rfl, rfl⟩
    · rw [finishPure_of_not_mem S n x h0 hm] at h
      obtain ⟨v, rfl⟩ := finishNormal_toAttribute n x a h
      exact ⟨rfl, rfl, rfl, rfl⟩

/-- the states on which the ordinary last phase returns false although the stream was decoded
    completely: an integer attribute whose declared data type is not an integer type of at most
    32 bits (`StoreValues`), a normal attribute whose quantization is outside 2..30 bits -/
def SeqAttState.Blocked (x : SeqAttState) : Prop :=
  (x.decoderType = 1 ∧ ¬ (1 ≤ x.desc.dataType ∧ x.desc.dataType ≤ 6)) ∨
  (x.decoderType = 3 ∧ ∃ bits : Int, x.transform = .octahedron bits ∧ ¬ (2 ≤ bits ∧ bits ≤ 30))

theorem finishNormal_none_iff (n : Nat) (x : SeqAttState) (hx : x.WF) (h0 : x.decoderType ≠ 0) :
    finishNormal n x = none ↔ x.Blocked := by
  unfold SeqAttState.Blocked
  rcases hx with ⟨h | h, ht⟩ | ⟨h, _, bits, mins, range, ht, _⟩ | ⟨h, _, _, bits, ht⟩
  · exact absurd h h0
  · simp only [finishNormal, h]
    constructor
    · intro hn
      split at hn
      · cases hn
      · rename_i hc
        left
        refine ⟨trivial, fun hc' => hc ?_⟩
        simp [hc'.1, hc'.2]
    · rintro (⟨_, hc⟩ | ⟨hc, _⟩)
      · split
        · rename_i hc'
          exfalso; apply hc
          simpa using hc'
        · rfl
      · cases hc
  · simp only [finishNormal, h, ht]
    constructor
    · intro hn; cases hn
    · rintro (⟨hc, _⟩ | ⟨hc, _⟩) <;> cases hc
  · simp only [finishNormal, h, ht]
    constructor
    · intro hn
      split at hn
      · cases hn
      · rename_i hc
        right
        refine ⟨trivial, bits, rfl, fun hc' => hc ?_⟩
        simp [hc'.1, hc'.2]
    · rintro (⟨hc, _⟩ | ⟨_, b, hb, hc⟩)
      · cases hc
      · cases hb
        split
        · rename_i hc'
          exfalso; apply hc
          simpa using hc'
        · rfl

/-- the last phase rejects a well-formed state exactly when its transform is not skipped and
    the state is `Blocked` -/
theorem finishPure_none_iff (S : List Nat) (n : Nat) (x : SeqAttState) (hx : x.WF) :
    finishPure S n x = none ↔ x.desc.attType ∉ S ∧ x.Blocked := by
  by_cases h0 : x.decoderType = 0
  · rw [finishPure_generic S n x h0]
    constructor
    · intro h; cases h
    · rintro ⟨_, ⟨h, _⟩ | ⟨h, _⟩⟩ <;> omega
  · by_cases hm : x.desc.attType ∈ S
    · rw [finishPure_of_mem S n x h0 hm]
      constructor
      · intro h; cases h
      · rintro ⟨h, _⟩; exact absurd hm h
    · rw [finishPure_of_not_mem S n x h0 hm, finishNormal_none_iff n x hx h0]
      exact ⟨fun h => ⟨hm, h⟩, fun h => h.2⟩

theorem finishPure_isSome_iff (S : List Nat) (n : Nat) (x : SeqAttState) (hx : x.WF) :
    (finishPure S n x).isSome ↔ (x.desc.attType ∈ S ∨ ¬ x.Blocked) := by
  have := finishPure_none_iff S n x hx
  cases hf : finishPure S n x with
  | none =>
    rw [hf] at this
    have h := this.1 rfl
    simp only [Option.isSome_none, Bool.false_eq_true, false_iff, not_or, not_not]
    exact h
  | some a =>
    rw [hf] at this
    simp only [Option.isSome_some, true_iff]
    by_cases hm : x.desc.attType ∈ S
    · exact Or.inl hm
    · right; intro hb; have := this.2 ⟨hm, hb⟩; cases this

/-! ## lifting element-wise facts to the whole result -/

/-- what is the same in two results whatever the skip lists, plus an element-wise relation
    between the attributes -/
def SameGeom (R : Attribute → Attribute → Prop) (r r' : DecodeResult) : Prop :=
  r'.metadata = r.metadata ∧ r'.geometry.isMesh = r.geometry.isMesh ∧
  r'.geometry.numPoints = r.geometry.numPoints ∧ r'.geometry.faces = r.geometry.faces ∧
  List.Forall₂ R r.geometry.atts r'.geometry.atts

theorem finishGeomPure_rel (R : Attribute → Attribute → Prop) (S T : List Nat) (fr : GeomFront)
    (h : ∀ sts, fr.states = some sts → ∀ x ∈ sts, ∀ a, finishPure S fr.numPoints x = some a →
      ∃ b, finishPure T fr.numPoints x = some b ∧ R a b)
    (r : DecodeResult) (hr : finishGeomPure S fr = some r) :
    ∃ r', finishGeomPure T fr = some r' ∧ SameGeom R r r' := by
  unfold finishGeomPure at hr ⊢
  cases hst : fr.states with
  | none =>
    rw [hst] at hr
    simp only [finishAttsPure, Option.some.injEq] at hr ⊢
    subst hr
    exact ⟨_, rfl, rfl, rfl, rfl, rfl, List.Forall₂.nil⟩
  | some sts =>
    rw [hst] at hr
    simp only [finishAttsPure] at hr ⊢
    cases hS : DecM.mapOpt (finishPure S fr.numPoints) sts with
    | none => rw [hS] at hr; cases hr
    | some atts =>
      rw [hS] at hr
      simp only [Option.some.injEq] at hr
      subst hr
      obtain ⟨cs, hcs, hR⟩ := DecM.mapOpt_rel R _ _ sts (h sts hst) atts hS
      rw [hcs]
      exact ⟨_, rfl, rfl, rfl, rfl, rfl, hR⟩

theorem finishGeomPure_rel₂ (R : Attribute → Attribute → Prop) (S T : List Nat) (fr : GeomFront)
    (h : ∀ sts, fr.states = some sts → ∀ x ∈ sts, ∀ a b, finishPure S fr.numPoints x = some a →
      finishPure T fr.numPoints x = some b → R a b)
    (r r' : DecodeResult) (hr : finishGeomPure S fr = some r) (hr' : finishGeomPure T fr = some r') :
    SameGeom R r r' := by
  unfold finishGeomPure at hr hr'
  cases hst : fr.states with
  | none =>
    rw [hst] at hr hr'
    simp only [finishAttsPure, Option.some.injEq] at hr hr'
    subst hr hr'
    exact ⟨rfl, rfl, rfl, rfl, List.Forall₂.nil⟩
  | some sts =>
    rw [hst] at hr hr'
    simp only [finishAttsPure] at hr hr'
    cases hS : DecM.mapOpt (finishPure S fr.numPoints) sts with
    | none => rw [hS] at hr; cases hr
    | some atts =>
      cases hT : DecM.mapOpt (finishPure T fr.numPoints) sts with
      | none => rw [hT] at hr'; cases hr'
      | some atts' =>
        rw [hS] at hr; rw [hT] at hr'
        simp only [Option.some.injEq] at hr hr'
        subst hr hr'
        exact ⟨rfl, rfl, rfl, rfl, DecM.mapOpt_rel₂ R _ _ sts (h sts hst) atts atts' hS hT⟩

/-- a rejected last phase leaves the input position where the front part left it -/
theorem decodeGeometrySeq_none_of_front (opts : DecOpts) (s s' : DSt) (fr : GeomFront)
    (h : geomFront s = (some fr, s')) (hf : finishGeomPure opts.skip fr = none) :
    decodeGeometrySeq opts s =
      (none, if s'.status == .ok then { s' with status := .error } else s') := by
  rw [decodeGeometrySeq_eq]
  simp only [bind, DecM.andThen, h, finishGeom_eq, hf]
  rfl

/-- a run of the dispatcher is a run of the front part followed by a run of the rest -/
theorem decodeStreamWith_some_iff (eb kd : DecOpts → DecM Geometry) (opts : DecOpts)
    (s s' : DSt) (r : DecodeResult) :
    decodeStreamWith eb kd opts s = (some r, s') ↔
      ∃ fg s1, streamFront s = (some fg, s1) ∧ finishStream eb kd opts fg s1 = (some r, s') := by
  rw [decodeStreamWith_eq]
  simp only [bind]
  rw [DecM.andThen_some]

/-- a stream is sequential when the evaluated header says so (for concrete streams) -/
theorem isSeqStream_of_eval (s : DSt)
    (h : (decodeHeader s).1.map (·.encoderMethod) = some 0) : IsSeqStream s := by
  cases hd : decodeHeader s with
  | mk o s1 =>
    rw [hd] at h
    cases o with
    | none => cases h
    | some hdr =>
      simp only [Option.map_some, Option.some.injEq] at h
      exact ⟨hdr, s1, hd, h⟩

end Draco
