import DracoModel.Rabs
import DracoProofs.FastDiv
/-
  C17 (d), rABS core: `rabs_desc_read` undoes `rabs_desc_write`, the encoder state stays in
  `[L, 256·L)`, `ans_read_init` undoes `ans_write_end`.
  Everything is stated for an arbitrary table `tab` on which `fastdiv` is exact (`DivOK`);
  `divOK_generated` instantiates it with the table of the pinned source.
-/
namespace Draco

/-- `fastdiv` with this table is exact on the range rABS uses -/
def DivOK (tab : List (Nat × Nat)) : Prop :=
  ∀ x y, x < 2^20 → 1 ≤ y → y ≤ 255 → fastdiv tab x y = x / y

theorem divOK_generated : DivOK Generated.fastdivTab := fun x y hx h1 h2 =>
  fastdiv_correct_31 x y (Nat.lt_of_lt_of_le hx (by decide)) h1 h2

/-- the encoder invariant `L ≤ state < L · IO_BASE` (the `DRACO_DCHECK`s of `ans_write_end`) -/
def AnsCoder.Valid (a : AnsCoder) : Prop := ansL ≤ a.state ∧ a.state < ansL * ansIO

/-- a probability the coder can work with -/
def ProbOK (p0 : Nat) : Prop := 1 ≤ p0 ∧ p0 ≤ 255

theorem ansWriteInit_valid : ansWriteInit.Valid := by
  simp [ansWriteInit, AnsCoder.Valid, ansL, ansIO]

/-- the decoder view of an encoder state -/
def AnsCoder.toDec (a : AnsCoder) : AnsDecoder := ⟨a.state, a.out⟩

/-- the renormalisation step at the start of `rabs_desc_read` -/
def ansPull (d : AnsDecoder) : AnsDecoder :=
  if d.state < ansL then
    match d.buf with
    | [] => d
    | b :: r => ⟨(d.state * ansIO + b) % 2^32, r⟩
  else d

/-- the rest of `rabs_desc_read` -/
def rabsReadCore (d1 : AnsDecoder) (p0 : Nat) : Bool × AnsDecoder :=
  let p := ansCompl p0
  let x := d1.state
  let quot := x / ansP8
  let rem := x % ansP8
  let xn := (quot * p) % 2^32
  if rem < p then (true, ⟨(xn + rem) % 2^32, d1.buf⟩)
  else (false, ⟨(x + 2 * 2^32 - xn - p) % 2^32, d1.buf⟩)

theorem rabsRead_eq (d : AnsDecoder) (p0 : Nat) : rabsRead d p0 = rabsReadCore (ansPull d) p0 := rfl

theorem ansPull_of_ge (d : AnsDecoder) (h : ansL ≤ d.state) : ansPull d = d := by
  unfold ansPull
  have : ¬ d.state < ansL := by omega
  simp [this]

theorem ansCompl_of_ok {p0 : Nat} (h : ProbOK p0) : ansCompl p0 = 256 - p0 := by
  unfold ProbOK at h
  unfold ansCompl ansP8
  omega

/-- closed form of `rabs_desc_write` on valid states -/
theorem rabsWrite_spec (tab : List (Nat × Nat)) (hd : DivOK tab) (a : AnsCoder) (ha : a.Valid)
    (val : Bool) (p0 : Nat) (hp : ProbOK p0) :
    ∃ x1 out1 q r ls,
      ls = (if val then 256 - p0 else p0) ∧
      ((a.state ≥ 4096 * ls ∧ x1 = a.state / 256 ∧ out1 = (a.state % 256) :: a.out) ∨
       (a.state < 4096 * ls ∧ x1 = a.state ∧ out1 = a.out)) ∧
      x1 = q * ls + r ∧ r < ls ∧ 16 ≤ q ∧ q < 4096 ∧
      rabsWrite tab a val p0 = ⟨q * 256 + r + (if val then 0 else 256 - p0), out1⟩ := by
  obtain ⟨hlo, hhi⟩ := ha
  have hp' := hp
  unfold ProbOK at hp'
  simp only [ansL, ansIO] at hlo hhi
  generalize hls : (if val then 256 - p0 else p0) = ls
  have hls1 : 1 ≤ ls ∧ ls ≤ 255 := by cases val <;> simp at hls <;> omega
  -- the renormalised state
  generalize hx1 : (if a.state ≥ 4096 * ls then a.state / 256 else a.state) = x1
  generalize hout1 : (if a.state ≥ 4096 * ls then (a.state % 256) :: a.out else a.out) = out1
  have hx1b : 16 * ls ≤ x1 ∧ x1 < 4096 * ls := by
    by_cases h : a.state ≥ 4096 * ls
    · simp only [h, if_true] at hx1; omega
    · simp only [h, if_false] at hx1; omega
  have hdiv : fastdiv tab x1 ls = x1 / ls := hd x1 ls (by omega) hls1.1 hls1.2
  have hq1 : 16 ≤ x1 / ls := (Nat.le_div_iff_mul_le (by omega)).mpr hx1b.1
  have hq2 : x1 / ls < 4096 := (Nat.div_lt_iff_lt_mul (by omega)).mpr hx1b.2
  have hdm := Nat.div_add_mod x1 ls
  have hr := Nat.mod_lt x1 (show 0 < ls by omega)
  rw [Nat.mul_comm] at hdm
  refine ⟨x1, out1, x1 / ls, x1 % ls, ls, rfl, ?_, hdm.symm, hr, hq1, hq2, ?_⟩
  · by_cases h : a.state ≥ 4096 * ls
    · left; simp only [h, if_true] at hx1 hout1; exact ⟨h, hx1.symm, hout1.symm⟩
    · right; simp only [h, if_false] at hx1 hout1; exact ⟨by omega, hx1.symm, hout1.symm⟩
  · unfold rabsWrite
    simp only [ansCompl_of_ok hp, ansL, ansP8, ansIO]
    have e16 : 4096 / 256 * 256 = 4096 := by decide
    rw [e16, hls]
    have ha1 : (if a.state ≥ 4096 * ls then
        (⟨a.state / 256, (a.state % 256) :: a.out⟩ : AnsCoder) else a) = ⟨x1, out1⟩ := by
      by_cases h : a.state ≥ 4096 * ls
      · simp only [h, if_true] at hx1 hout1 ⊢; rw [hx1, hout1]
      · simp only [h, if_false] at hx1 hout1 ⊢; cases a; simp_all
    rw [ha1]
    simp only [hdiv]
    generalize x1 / ls = q at *
    generalize x1 % ls = r at *
    have hql : q * ls ≤ x1 := by omega
    have e1 : (q * ls) % 2^32 = q * ls := Nat.mod_eq_of_lt (by omega)
    have e2 : (x1 + 2^32 - q * ls) % 2^32 = r := by omega
    rw [e1, e2]
    congr 1
    apply Nat.mod_eq_of_lt
    cases val <;> simp at hls ⊢ <;> omega

theorem rabsWrite_valid (tab : List (Nat × Nat)) (hd : DivOK tab) (a : AnsCoder) (ha : a.Valid)
    (val : Bool) (p0 : Nat) (hp : ProbOK p0) : (rabsWrite tab a val p0).Valid := by
  obtain ⟨x1, out1, q, r, ls, hls, _, _, hr, hq1, hq2, hw⟩ := rabsWrite_spec tab hd a ha val p0 hp
  rw [hw]
  unfold ProbOK at hp
  simp only [AnsCoder.Valid, ansL, ansIO]
  cases val <;> simp at hls ⊢ <;> omega

/-- at most one byte is emitted per coded bit -/
theorem rabsWrite_out_length (tab : List (Nat × Nat)) (a : AnsCoder) (val : Bool) (p0 : Nat) :
    (rabsWrite tab a val p0).out.length ≤ a.out.length + 1 := by
  unfold rabsWrite
  simp only
  split <;> split <;> simp

/-- one decoder step undoes one encoder step (up to the lazy renormalisation `ansPull`) -/
theorem rabs_step (tab : List (Nat × Nat)) (hd : DivOK tab) (a : AnsCoder) (ha : a.Valid)
    (val : Bool) (p0 : Nat) (hp : ProbOK p0) (d : AnsDecoder)
    (hpull : ansPull d = (rabsWrite tab a val p0).toDec) :
    (rabsRead d p0).1 = val ∧ ansPull (rabsRead d p0).2 = a.toDec := by
  obtain ⟨x1, out1, q, r, ls, hls, hcase, hx1, hr, hq1, hq2, hw⟩ :=
    rabsWrite_spec tab hd a ha val p0 hp
  obtain ⟨hlo, hhi⟩ := ha
  simp only [ansL, ansIO] at hlo hhi
  rw [rabsRead_eq, hpull, hw]
  have hp' := hp
  unfold ProbOK at hp'
  unfold rabsReadCore AnsCoder.toDec
  simp only [ansCompl_of_ok hp, ansP8]
  have hpull1 : ansPull ⟨x1, out1⟩ = ⟨a.state, a.out⟩ := by
    rcases hcase with ⟨h1, h2, h3⟩ | ⟨h1, h2, h3⟩
    · unfold ansPull
      have : x1 < ansL := by simp only [ansL]; omega
      simp only [this, if_true, h3, ansIO]
      congr 1
      omega
    · rw [ansPull_of_ge _ (by simp only [ansL]; omega), h2, h3]
  cases val with
  | true =>
    simp only [if_true] at hls ⊢
    have e1 : (q * 256 + r + 0) / 256 = q := by omega
    have e2 : (q * 256 + r + 0) % 256 = r := by omega
    rw [e1, e2, ← hls]
    simp only [hr, if_true]
    have e3 : (q * ls) % 2^32 = q * ls := Nat.mod_eq_of_lt (by
      calc q * ls < 4096 * 256 := Nat.mul_lt_mul'' hq2 (by omega)
        _ < 2^32 := by decide)
    have hx1lt : x1 < 2^32 := by
      rcases hcase with ⟨_, h2, _⟩ | ⟨_, h2, _⟩ <;> omega
    rw [e3, ← hx1, Nat.mod_eq_of_lt hx1lt]
    exact ⟨trivial, hpull1⟩
  | false =>
    simp only [Bool.false_eq_true, if_false] at hls ⊢
    subst hls
    have e1 : (q * 256 + r + (256 - ls)) / 256 = q := by omega
    have e2 : (q * 256 + r + (256 - ls)) % 256 = r + (256 - ls) := by omega
    rw [e1, e2]
    have hnot : ¬ r + (256 - ls) < 256 - ls := by omega
    simp only [hnot, if_false]
    have hsplit : q * 256 = q * (256 - ls) + q * ls := by
      rw [← Nat.mul_add]; congr 1; omega
    have hb : q * (256 - ls) < 4096 * 256 := Nat.mul_lt_mul'' hq2 (by omega)
    have e3 : (q * (256 - ls)) % 2^32 = q * (256 - ls) := Nat.mod_eq_of_lt (by omega)
    rw [e3]
    have e4 : (q * 256 + r + (256 - ls) + 2 * 2^32 - q * (256 - ls) - (256 - ls)) % 2^32 = x1 := by
      have hx1lt : x1 < 2^32 := by
        rcases hcase with ⟨_, h2, _⟩ | ⟨_, h2, _⟩ <;> omega
      omega
    rw [e4]
    exact ⟨trivial, hpull1⟩

/-! ### `ans_write_end` / `ans_read_init` -/

theorem ansWriteEnd_length (a : AnsCoder) (ha : a.Valid) :
    (ansWriteEnd a).length ≤ a.out.length + 3 ∧ 1 ≤ (ansWriteEnd a).length := by
  unfold ansWriteEnd
  simp only
  split
  · simp
  · split
    · simp
    · split <;> simp
      · obtain ⟨h1, h2⟩ := ha
        simp only [ansL, ansIO] at *
        omega

theorem ansReadInit_1 (s : Nat) (out : Bytes) (h : s < 64) :
    ansReadInit ((s :: out).reverse) = some ⟨s + 4096, out⟩ := by
  unfold ansReadInit
  rw [List.reverse_reverse]
  have e0 : s / 64 = 0 := by omega
  have e1 : s % 64 = s := by omega
  have e2 : ¬ s + ansL ≥ ansL * ansIO := by unfold ansL ansIO; omega
  simp only [e0, e1, e2, if_true, if_false]
  rfl

theorem ansReadInit_2 (b1 b0 : Nat) (out : Bytes) (h1 : b1 / 64 = 1) :
    ansReadInit ((b1 :: b0 :: out).reverse) = some ⟨(b1 * 256 + b0) % 2^14 + 4096, out⟩ := by
  unfold ansReadInit
  rw [List.reverse_reverse]
  have e2 : ¬ (b1 * 256 + b0) % 2^14 + ansL ≥ ansL * ansIO := by unfold ansL ansIO; omega
  simp only [h1, e2, if_false]
  simp
  rfl

theorem ansReadInit_3 (b2 b1 b0 : Nat) (out : Bytes) (h2 : b2 / 64 = 2)
    (hlt : (b2 * 65536 + b1 * 256 + b0) % 2^22 + 4096 < 4096 * 256) :
    ansReadInit ((b2 :: b1 :: b0 :: out).reverse) =
      some ⟨(b2 * 65536 + b1 * 256 + b0) % 2^22 + 4096, out⟩ := by
  unfold ansReadInit
  rw [List.reverse_reverse]
  have e2 : ¬ (b2 * 65536 + b1 * 256 + b0) % 2^22 + ansL ≥ ansL * ansIO := by
    unfold ansL ansIO; omega
  simp only [h2, e2, if_false]
  simp
  rfl

/-- closed form of `ans_write_end` in terms of `s = state − L` -/
theorem ansWriteEnd_eq (a : AnsCoder) (s : Nat) (hst : a.state = s + 4096) (hs : s < 2^22) :
    ansWriteEnd a =
      if s < 64 then (s :: a.out).reverse
      else if s < 16384 then (((16384 + s) / 256) % 256 :: (16384 + s) % 256 :: a.out).reverse
      else (((8388608 + s) / 65536) % 256 :: ((8388608 + s) / 256) % 256 ::
              (8388608 + s) % 256 :: a.out).reverse := by
  unfold ansWriteEnd
  unfold ansL
  have e : (a.state + 2^32 - 4096) % 2^32 = s := by omega
  rw [e]
  simp only [Nat.reducePow, Nat.reduceMul] at hs ⊢
  simp only [hs, if_true]

theorem ansReadInit_writeEnd (a : AnsCoder) (ha : a.Valid) :
    ansReadInit (ansWriteEnd a) = some a.toDec := by
  obtain ⟨hlo, hhi⟩ := ha
  unfold ansL ansIO at *
  obtain ⟨s, hst⟩ : ∃ s, a.state = s + 4096 := ⟨a.state - 4096, by omega⟩
  have hsl : s < 1048576 - 4096 := by omega
  rw [ansWriteEnd_eq a s hst (by omega)]
  unfold AnsCoder.toDec
  rw [hst]
  by_cases h6 : s < 64
  · rw [if_pos h6, ansReadInit_1 s a.out h6]
  · rw [if_neg h6]
    by_cases h14 : s < 16384
    · rw [if_pos h14, ansReadInit_2 _ _ _ (by omega)]
      congr 2; omega
    · rw [if_neg h14, ansReadInit_3 _ _ _ _ (by omega) (by omega)]
      congr 2; omega

end Draco
