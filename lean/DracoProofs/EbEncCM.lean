import DracoProofs.EbEncPredict
/-
  Round trip of the constrained multi-parallelogram prediction scheme of the Edgebreaker codec:
  whenever the encoder loop `constrainedMultiEncode` (DracoModel/EbEncPredict.lean) succeeds — for
  EVERY choice of crease flags —, the decoder loop `constrainedMultiDecode` (DracoModel/EbPredict.lean),
  given the encoder's corrections and the encoder's flags in the order `encodeCreaseFlags` writes them,
  returns the original values.

  The two model functions are first shown to be (definitionally) loops over named bodies
  (`encBody` / `decBody`: the gather loop `gather` over the corners of the vertex, then the part that
  consumes the flags); the loops are then related by generic simulation lemmas on `forIn` over lists.
-/
open Std.Do

set_option mvcgen.warning false

namespace Draco.EbEnc
open Draco Draco.Eb

/-! ### generic facts about `for` loops over lists in `R` -/

/-- a loop whose body succeeds with the same result whenever the body of another loop does, returns
    what the other loop returns -/
theorem forIn_mono {σ : Type} (l : List Nat) (f g : Nat → σ → R (ForInStep σ))
    (h : ∀ a ∈ l, ∀ s r, f a s = .ok r → g a s = .ok r) :
    ∀ init out, forIn l init f = .ok out → forIn l init g = .ok out := by
  induction l with
  | nil => intro init out h; exact h
  | cons a l ih =>
    intro init out hf
    rw [List.forIn_cons, bind_ok_iff] at hf
    obtain ⟨r, h1, h2⟩ := hf
    rw [List.forIn_cons, h a (by simp) init r h1]
    cases r with
    | done b => exact h2
    | yield b => exact ih (fun x hx s r => h x (by simp [hx]) s r) b out h2

/-- simulation of a loop (that only yields) by a loop over the same list on another state -/
theorem forIn_sim {σ τ : Type} (l : List Nat) (f : Nat → σ → R (ForInStep σ)) (g : Nat → τ → R (ForInStep τ))
    (Rel : Nat → σ → τ → Prop)
    (h : ∀ i (hi : i < l.length) s t r, Rel i s t → f l[i] s = .ok r →
      ∃ s' t', r = .yield s' ∧ g l[i] t = .ok (.yield t') ∧ Rel (i + 1) s' t') :
    ∀ s0 t0 s, Rel 0 s0 t0 → forIn l s0 f = .ok s → ∃ t, forIn l t0 g = .ok t ∧ Rel l.length s t := by
  induction l generalizing Rel with
  | nil =>
    intro s0 t0 s hr hf
    simp [pure, Except.pure] at hf
    subst hf
    exact ⟨t0, rfl, hr⟩
  | cons a l ih =>
    intro s0 t0 s hr hf
    rw [List.forIn_cons, bind_ok_iff] at hf
    obtain ⟨r, h1, h2⟩ := hf
    obtain ⟨s', t', rfl, hg, hr'⟩ := h 0 (by simp) s0 t0 r hr h1
    have := ih (fun i => Rel (i + 1)) (fun i hi s t r hrel hfi => by
      have := h (i + 1) (by simp; omega) s t r hrel (by simpa using hfi)
      simpa using this) s' t' s hr' h2
    obtain ⟨t, ht, hrel⟩ := this
    refine ⟨t, ?_, by simpa using hrel⟩
    rw [List.forIn_cons]
    simp only [List.getElem_cons_zero] at hg
    rw [hg]
    exact ht

/-- the states of a successful loop whose body only yields on states satisfying an invariant -/
theorem forIn_trace_inv {σ : Type} (l : List Nat) (f : Nat → σ → R (ForInStep σ)) (I : Nat → σ → Prop)
    (hy : ∀ i (hi : i < l.length) s r, I i s → f l[i] s = .ok r → ∃ s', r = .yield s' ∧ I (i + 1) s') :
    ∀ init out, I 0 init → forIn l init f = .ok out →
      ∃ E : Nat → σ, E 0 = init ∧ E l.length = out ∧ (∀ i, i ≤ l.length → I i (E i)) ∧
        ∀ i (hi : i < l.length), f l[i] (E i) = .ok (.yield (E (i + 1))) := by
  induction l generalizing I with
  | nil =>
    intro init out hI h
    simp [pure, Except.pure] at h
    refine ⟨fun _ => init, rfl, h, ?_, by intro i hi; simp at hi⟩
    intro i hi
    simp at hi
    subst hi
    exact hI
  | cons a l ih =>
    intro init out hI h
    rw [List.forIn_cons, bind_ok_iff] at h
    obtain ⟨r, h1, h2⟩ := h
    obtain ⟨s', rfl, hI'⟩ := hy 0 (by simp) init r hI (by simpa using h1)
    obtain ⟨E, e0, e1, eI, e2⟩ := ih (fun i => I (i + 1)) (fun i hi s r hIs hfi => by
      have := hy (i + 1) (by simp; omega) s r hIs (by simpa using hfi)
      simpa using this) s' out hI' h2
    refine ⟨fun i => if i = 0 then init else E (i - 1), rfl, by simpa using e1, ?_, ?_⟩
    · intro i hi
      cases i with
      | zero => simpa using hI
      | succ j =>
        have := eI j (by simpa using hi)
        simpa using this
    · intro i hi
      cases i with
      | zero => simpa [e0] using h1
      | succ j =>
        have := e2 j (by simpa using hi)
        simpa using this
/-- a loop whose body, run from a state satisfying the invariant, yields a state satisfying the invariant -/
theorem forIn_inv {σ : Type} (l : List Nat) (f : Nat → σ → R (ForInStep σ)) (I : Nat → σ → Prop)
    (h : ∀ i (hi : i < l.length) s, I i s → ∃ s', f l[i] s = .ok (.yield s') ∧ I (i + 1) s') :
    ∀ init, I 0 init → ∃ out, forIn l init f = .ok out ∧ I l.length out := by
  induction l generalizing I with
  | nil => intro init hi; exact ⟨init, rfl, hi⟩
  | cons a l ih =>
    intro init hi
    obtain ⟨s', h1, h2⟩ := h 0 (by simp) init hi
    obtain ⟨out, h3, h4⟩ := ih (fun i => I (i + 1)) (fun i hi s hI => by
      have := h (i + 1) (by simp; omega) s hI
      simpa using this) s' h2
    refine ⟨out, ?_, by simpa using h4⟩
    rw [List.forIn_cons]
    simp only [List.getElem_cons_zero] at h1
    rw [h1]
    exact h3

/-! ### the two loops as loops over named bodies -/

abbrev CMGatherSt := Nat × Array (Array Int) × Bool × Bool

/-- one iteration of the loop over the corners of a vertex (both sides), `pred` = the prediction call -/
def gStep (pred : Nat → R (Option (Array Int))) (t : TView) (start kMax : Nat) (s : CMGatherSt) : R (ForInStep CMGatherSt) :=
  if (s.1 == inv) = true then pure (ForInStep.done (s.1, s.2.1, s.2.2.1, true))
  else do
    let l ← pred s.1
    let jp : Array (Array Int) → Bool → R (ForInStep CMGatherSt) := fun preds fin =>
      let jp2 : Nat → R (ForInStep CMGatherSt) := fun corner =>
        if (corner == start) = true then pure (ForInStep.done (corner, preds, s.2.2.1, true))
        else if (corner == inv && s.2.2.1) = true then do
          let corner ← t.swingRight start
          pure (ForInStep.yield (corner, preds, false, fin))
        else pure (ForInStep.yield (corner, preds, s.2.2.1, fin))
      if s.2.2.1 = true then do
        let c ← t.swingLeft s.1
        jp2 c
      else do
        let c ← t.swingRight s.1
        jp2 c
    match l with
    | some pv =>
      if ((s.2.1.push pv).size == kMax) = true then pure (ForInStep.done (s.1, s.2.1.push pv, s.2.2.1, true))
      else jp (s.2.1.push pv) s.2.2.2
    | none => jp s.2.1 s.2.2.2

def gather (pred : Nat → R (Option (Array Int))) (t : TView) (start : Nat) : R CMGatherSt :=
  forIn [0:2 * (3 * t.numFaces) + 4] ((start, #[], true, false) : CMGatherSt)
    fun _ s => gStep pred t start Generated.kMaxNumParallelograms.toNat s

/-- `multi += pv` (componentwise, int32 wrap-around) -/
def addVec (nc : Nat) (multi pv : Array Int) : R (Array Int) :=
  forIn [0:nc] multi fun j multi => pure (ForInStep.yield (multi.set! j (wrap32 (multi[j]! + pv[j]!))))

abbrev CMEncSt := Array Int × Array Nat × Array (Array Bool)

/-- the flag the encoder chooses for parallelogram `i` of an entry -/
def encFlag (crease : Array (Array Bool)) (numPar have_ i : Nat) : Bool :=
  if have_ ≥ numPar then (crease.getD (numPar - 1) #[]).getD (have_ - numPar + i) true else true

def encFlagStep (crease : Array (Array Bool)) (preds : Array (Array Int)) (nc have_ : Nat) (i : Nat)
    (s : Array (Array Bool) × Int × Array Int) : R (ForInStep (Array (Array Bool) × Int × Array Int)) :=
  if (!encFlag crease preds.size have_ i) = true then do
    let m ← addVec nc s.2.2 preds[i]!
    pure (ForInStep.yield (s.1.modify (preds.size - 1) fun x => x.push (encFlag crease preds.size have_ i), s.2.1 + 1, m))
  else pure (ForInStep.yield (s.1.modify (preds.size - 1) fun x => x.push (encFlag crease preds.size have_ i), s.2.1, s.2.2))

def encTail (wt : WrapT) (nc p : Nat) (data out : Array Int) (left : Array Nat) (isCrease : Array (Array Bool))
    (numUsed : Int) (multi : Array Int) : R (ForInStep CMEncSt) :=
  if (numUsed == 0) = true then do
    let out ← corrWrap wt nc (p * nc) (fun c => rdI "in_data" data ((p - 1) * nc + c)) data out
    pure (ForInStep.yield (out, left, isCrease))
  else do
    let out ← corrWrap wt nc (p * nc) (fun c => rdI "multi_pred_vals" (Array.map (fun x => x.tdiv numUsed) multi) c) data out
    pure (ForInStep.yield (out, left, isCrease))

/-- the part of the encoder's loop body after the gather loop -/
def encPost (wt : WrapT) (nc : Nat) (crease : Array (Array Bool)) (data : Array Int) (p : Nat) (s : CMEncSt) (g : CMGatherSt) :
    R (ForInStep CMEncSt) :=
  let jp : Unit → R (ForInStep CMEncSt) := fun _ =>
    if g.2.1.size > 0 then do
      let have_ ← rd "crease flags left" s.2.1 (g.2.1.size - 1)
      let left ← wr "crease flags left" s.2.1 (g.2.1.size - 1) (have_ - g.2.1.size)
      let r ← forIn [0:g.2.1.size] ((s.2.2, 0, Array.replicate nc 0) : Array (Array Bool) × Int × Array Int)
        fun i st => encFlagStep crease g.2.1 nc have_ i st
      encTail wt nc p data s.1 left r.1 r.2.1 r.2.2
    else encTail wt nc p data s.1 s.2.1 s.2.2 0 (Array.replicate nc 0)
  if (!g.2.2.2) = true then do
    let r ← throw (Err.fuel "constrained multi-parallelogram: corners of a vertex")
    jp r
  else jp ()

/-- the body of the encoder's loop over the entries -/
def encBody (md : MeshData) (wt : WrapT) (nc : Nat) (crease : Array (Array Bool)) (data : Array Int) (p : Nat) (s : CMEncSt) :
    R (ForInStep CMEncSt) := do
  let g ← gather (fun c => parallelogramPredictionE md p c data nc) md.t md.d2c[p]!
  encPost wt nc crease data p s g

/-- the encoder is the loop over `encBody` (by unfolding) -/
theorem constrainedMultiEncode_eq (md : MeshData) (wt : WrapT) (nc : Nat) (crease : Array (Array Bool))
    (data : Array Int) :
    constrainedMultiEncode md wt nc crease data = (do
      let s ← forIn [0:md.d2c.size - 1]
        ((Array.replicate data.size (0 : Int),
          (Array.range Generated.kMaxNumParallelograms.toNat).map (fun i => (crease.getD i #[]).size),
          Array.replicate Generated.kMaxNumParallelograms.toNat #[]) : CMEncSt)
        fun k s => encBody md wt nc crease data (md.d2c.size - 1 - k) s
      let out ← corrWrap wt nc 0 (fun _ => pure 0) data s.1
      pure (out, s.2.2)) := by
  rfl

abbrev CMDecSt := Array Int × Array Nat × Nat

def decFlagStep (crease : Array (Array Bool)) (preds : Array (Array Int)) (nc : Nat) (i : Nat)
    (s : Array Nat × Int × Array Int) : R (ForInStep (Array Nat × Int × Array Int)) := do
  let ps ← rd "is_crease_edge_pos" s.1 (preds.size - 1)
  let pos ← wr "is_crease_edge_pos" s.1 (preds.size - 1) (ps + 1)
  let jp : Unit → R (ForInStep (Array Nat × Int × Array Int)) := fun _ =>
    if (!(crease.getD (preds.size - 1) #[])[ps]!) = true then do
      let m ← addVec nc s.2.2 preds[i]!
      pure (ForInStep.yield (pos, s.2.1 + 1, m))
    else pure (ForInStep.yield (pos, s.2.1, s.2.2))
  if (crease.getD (preds.size - 1) #[]).size ≤ ps then do
    let r ← throw Err.fail
    jp r
  else jp ()

def decTail (wt : Leaf.WrapT) (nc p : Nat) (data : Array Int) (pos : Array Nat) (maxPar : Nat)
    (numUsed : Int) (multi : Array Int) : R (ForInStep CMDecSt) :=
  if (numUsed == 0) = true then do
    let data ← applyWrap wt nc (p * nc) (fun c => rdI "out_data" data ((p - 1) * nc + c)) data
    pure (ForInStep.yield (data, pos, maxPar))
  else do
    let data ← applyWrap wt nc (p * nc) (fun c => rdI "multi_pred_vals" (Array.map (fun x => x.tdiv numUsed) multi) c) data
    pure (ForInStep.yield (data, pos, maxPar))

/-- the part of the decoder's loop body after the gather loop -/
def decPost (wt : Leaf.WrapT) (nc : Nat) (crease : Array (Array Bool)) (p : Nat) (s : CMDecSt) (g : CMGatherSt) :
    R (ForInStep CMDecSt) :=
  let jp : Unit → R (ForInStep CMDecSt) := fun _ =>
    let jp2 : Nat → R (ForInStep CMDecSt) := fun maxPar =>
      if g.2.1.size > 0 then do
        let r ← forIn [0:g.2.1.size] ((s.2.1, 0, Array.replicate nc 0) : Array Nat × Int × Array Int)
          fun i st => decFlagStep crease g.2.1 nc i st
        decTail wt nc p s.1 r.1 maxPar r.2.1 r.2.2
      else decTail wt nc p s.1 s.2.1 maxPar 0 (Array.replicate nc 0)
    if g.2.1.size > s.2.2 then jp2 g.2.1.size else jp2 s.2.2
  if (!g.2.2.2) = true then do
    let r ← throw (Err.fuel "constrained multi-parallelogram: corners of a vertex")
    jp r
  else jp ()

/-- the body of the decoder's loop over the entries -/
def decBody (md : MeshData) (wt : Leaf.WrapT) (nc : Nat) (crease : Array (Array Bool)) (p : Nat) (s : CMDecSt) :
    R (ForInStep CMDecSt) := do
  let g ← gather (fun c => parallelogramPrediction md p c s.1 nc) md.t md.d2c[p]!
  decPost wt nc crease p s g

/-- the decoder is the loop over `decBody` (by unfolding) -/
theorem constrainedMultiDecode_eq (md : MeshData) (wt : Leaf.WrapT) (nc : Nat) (crease : Array (Array Bool))
    (data : Array Int) :
    constrainedMultiDecode md wt nc crease data = (do
      let data ← applyWrap wt nc 0 (fun _ => pure 0) data
      let s ← forIn [1:md.d2c.size] ((data, Array.replicate Generated.kMaxNumParallelograms.toNat 0, 0) : CMDecSt)
        fun p s => decBody md wt nc crease p s
      pure (s.1, s.2.2)) := by
  rfl

/-! ### the pieces of the loop bodies -/

theorem gStep_mono (predE predD : Nat → R (Option (Array Int))) (h : ∀ c r, predE c = .ok r → predD c = .ok r)
    (t : TView) (start kMax : Nat) (s : CMGatherSt) (r : ForInStep CMGatherSt)
    (hr : gStep predE t start kMax s = .ok r) : gStep predD t start kMax s = .ok r := by
  unfold gStep at hr ⊢
  split
  · rename_i hc; rw [if_pos hc] at hr; exact hr
  · rename_i hc
    rw [if_neg hc, bind_ok_iff] at hr
    obtain ⟨l, h1, h2⟩ := hr
    rw [h _ _ h1]
    exact h2

theorem gather_mono (predE predD : Nat → R (Option (Array Int))) (h : ∀ c r, predE c = .ok r → predD c = .ok r)
    (t : TView) (start : Nat) (g : CMGatherSt) (hg : gather predE t start = .ok g) : gather predD t start = .ok g := by
  unfold gather at hg ⊢
  simp only [Std.Legacy.Range.forIn_eq_forIn_range'] at hg ⊢
  exact forIn_mono _ _ _ (fun a _ s r => gStep_mono predE predD h t start _ s r) _ _ hg

theorem addVec_size (nc : Nat) (multi pv r : Array Int) (h : addVec nc multi pv = .ok r) : r.size = multi.size := by
  have : ⦃⌜True⌝⦄ addVec nc multi pv ⦃⇓ r => ⌜r.size = multi.size⌝⦄ := by
    mvcgen [addVec]
    case inv1 => exact ⇓⟨xs, b⟩ => ⌜b.size = multi.size⌝
    all_goals simp_all
  obtain ⟨a, h1, h2⟩ := R.of_triple this
  rw [h] at h1
  cases h1
  exact h2

theorem getD_modify_toList (a : Array (Array Bool)) (ctx c : Nat) (b : Bool) :
    ((a.modify ctx fun x => x.push b).getD c #[]).toList =
      (a.getD c #[]).toList ++ if c = ctx ∧ c < a.size then [b] else [] := by
  simp only [Array.getD_eq_getD_getElem?, Array.getElem?_modify]
  by_cases hc : c < a.size
  · by_cases e : ctx = c
    · subst e; simp [hc]
    · simp [e, Ne.symm e]
  · simp [hc]

theorem flagLoop_sim (crease crease' : Array (Array Bool)) (preds : Array (Array Int)) (nc have_ : Nat)
    (isC : Array (Array Bool)) (pos : Array Nat)
    (hctx : preds.size - 1 < pos.size) (hctx' : preds.size - 1 < isC.size)
    (hfl : ∀ i, i < preds.size → pos[preds.size - 1] + i < (crease'.getD (preds.size - 1) #[]).size ∧
        (crease'.getD (preds.size - 1) #[])[pos[preds.size - 1] + i]! = encFlag crease preds.size have_ i)
    (r : Array (Array Bool) × Int × Array Int)
    (h : forIn [0:preds.size] ((isC, 0, Array.replicate nc 0) : Array (Array Bool) × Int × Array Int)
      (fun i st => encFlagStep crease preds nc have_ i st) = .ok r) :
    forIn [0:preds.size] ((pos, 0, Array.replicate nc 0) : Array Nat × Int × Array Int)
        (fun i st => decFlagStep crease' preds nc i st)
      = .ok (pos.set (preds.size - 1) (pos[preds.size - 1] + preds.size) hctx, r.2.1, r.2.2) ∧
    r.2.2.size = nc ∧ r.1.size = isC.size ∧
    ∀ c, (r.1.getD c #[]).toList = (isC.getD c #[]).toList ++
       if c = preds.size - 1 then (List.range preds.size).map (encFlag crease preds.size have_) else [] := by
  simp only [Std.Legacy.Range.forIn_eq_forIn_range'] at h ⊢
  have hsim := forIn_sim _ (fun i st => encFlagStep crease preds nc have_ i st)
    (fun i st => decFlagStep crease' preds nc i st)
    (fun i (s : Array (Array Bool) × Int × Array Int) (t : Array Nat × Int × Array Int) =>
      t.2.1 = s.2.1 ∧ t.2.2 = s.2.2 ∧ s.2.2.size = nc ∧
      t.1 = pos.set (preds.size - 1) (pos[preds.size - 1] + i) hctx ∧ s.1.size = isC.size ∧
      ∀ c, (s.1.getD c #[]).toList = (isC.getD c #[]).toList ++
        if c = preds.size - 1 then (List.range i).map (encFlag crease preds.size have_) else [])
    ?_ _ (pos, 0, Array.replicate nc 0) r ?_ h
  · obtain ⟨t, ht, h1, h2, h3, h4, h5, h6⟩ := hsim
    simp only [List.length_range', Std.Legacy.Range.size, Nat.sub_zero, Nat.add_sub_cancel, Nat.div_one] at h4 h6
    refine ⟨?_, h3, h5, h6⟩
    rw [ht]
    congr 1
    exact Prod.ext h4 (Prod.ext h1 h2)
  · intro i hi s t r' hrel hstep
    obtain ⟨sa, snu, smu⟩ := s
    obtain ⟨tp, tnu, tmu⟩ := t
    obtain ⟨e1, e2, e3, e4, e5, e6⟩ := hrel
    simp only at e1 e2 e3 e4 e5 e6
    subst e1 e2 e4
    have hi' : i < preds.size := by simpa [Std.Legacy.Range.size] using hi
    have hli : (List.range' 0 ([:preds.size].size) 1)[i] = i := by simp
    rw [hli] at hstep ⊢
    obtain ⟨hf1, hf2⟩ := hfl i hi'
    have hdec : ∀ (nu : Int) (mu : Array Int) (bexp : Bool), encFlag crease preds.size have_ i = bexp →
        decFlagStep crease' preds nc i (pos.set (preds.size - 1) (pos[preds.size - 1] + i) hctx, nu, mu) =
          (if (!bexp) = true then do
            let m ← addVec nc mu preds[i]!
            pure (ForInStep.yield (pos.set (preds.size - 1) (pos[preds.size - 1] + (i + 1)) hctx, nu + 1, m))
          else pure (ForInStep.yield (pos.set (preds.size - 1) (pos[preds.size - 1] + (i + 1)) hctx, nu, mu))) := by
      intro nu mu bexp hb
      unfold decFlagStep
      simp only []
      rw [rd_eq _ _ _ (by simpa using hctx)]
      simp only [bind, Except.bind, wr, Array.size_set, hctx, dite_true, pure, Except.pure, Array.getElem_set_self,
        Array.set_set]
      rw [if_neg (by omega), hf2, hb]
      rfl
    have hsa : ∀ c, (((sa.modify (preds.size - 1) fun x => x.push (encFlag crease preds.size have_ i)).getD c #[]).toList =
        (isC.getD c #[]).toList ++
          if c = preds.size - 1 then (List.range (i + 1)).map (encFlag crease preds.size have_) else []) := by
      intro c
      rw [getD_modify_toList, e6 c]
      by_cases hc : c = preds.size - 1
      · subst hc
        simp [List.range_succ, e5, hctx']
      · simp [hc]
    unfold encFlagStep at hstep
    cases hb : encFlag crease preds.size have_ i with
    | true =>
      rw [hb] at hstep hsa
      simp only [Bool.not_true, Bool.false_eq_true, if_false, pure, Except.pure] at hstep
      cases hstep
      refine ⟨_, (_, _, _), rfl, ?_, rfl, rfl, e3, rfl, by simpa using e5, hsa⟩
      rw [hdec _ _ true hb]
      rfl
    | false =>
      rw [hb] at hstep hsa
      simp only [Bool.not_false, if_true] at hstep
      rw [bind_ok_iff] at hstep
      obtain ⟨m, hm1, hm2⟩ := hstep
      simp only [pure, Except.pure] at hm2
      cases hm2
      refine ⟨_, (_, _, _), rfl, ?_, rfl, rfl, ?_, rfl, by simpa using e5, hsa⟩
      · rw [hdec _ _ false hb]
        simp only [Bool.not_false, if_true]
        rw [hm1]
        rfl
      · simp only
        rw [addVec_size nc _ _ _ hm1]; exact e3
  · refine ⟨rfl, rfl, by simp, ?_, rfl, ?_⟩
    · simp
    · intro c; simp

/-- the prediction of an entry from the number of parallelograms used and their sum -/
def cmPred (nc : Nat) (data : Array Int) (p : Nat) (nu : Int) (mu : Array Int) (c : Nat) : Int :=
  if (nu == 0) = true then data.getD ((p - 1) * nc + c) 0 else (mu.map fun x => x.tdiv nu).getD c 0

theorem encTail_eq (wt : WrapT) (nc p n : Nat) (data out : Array Int) (left : Array Nat) (isC : Array (Array Bool))
    (nu : Int) (mu : Array Int) (hp : 0 < p) (hpn : p < n) (hsz : data.size = n * nc) (hout : out.size = data.size)
    (hmu : mu.size = nc) :
    encTail wt nc p data out left isC nu mu = .ok (.yield
      (patch out (p * nc) nc (fun c _ => Wrap.encCorr wt (data.getD (p * nc + c) 0) (cmPred nc data p nu mu c)), left, isC)) := by
  have hle : p * nc + nc ≤ n * nc := by
    rw [← Nat.succ_mul]; exact Nat.mul_le_mul_right nc hpn
  have hpm : (p - 1) * nc + nc = p * nc := by
    rw [← Nat.succ_mul]; congr 1; omega
  unfold encTail
  split
  · rename_i h0
    rw [corrWrap_eq wt nc (p * nc) _ (fun c => cmPred nc data p nu mu c) data out (by omega) hout ?_]
    · rfl
    · intro c hc
      rw [rdI_eq _ _ _ (by omega)]
      simp [cmPred, h0, Array.getD, show (p - 1) * nc + c < data.size by omega, pure, Except.pure]
  · rename_i h0
    rw [corrWrap_eq wt nc (p * nc) _ (fun c => cmPred nc data p nu mu c) data out (by omega) hout ?_]
    · rfl
    · intro c hc
      rw [rdI_eq _ _ _ (by simp; omega)]
      simp [cmPred, h0, Array.getD, show c < mu.size by omega, pure, Except.pure]

theorem decTail_eq (wt : Leaf.WrapT) (nc p n : Nat) (data d : Array Int) (pos : Array Nat) (maxPar : Nat)
    (nu : Int) (mu : Array Int) (hp : 0 < p) (hpn : p < n) (hsz : data.size = n * nc) (hd : d.size = data.size)
    (hprev : ∀ c, c < nc → d.getD ((p - 1) * nc + c) 0 = data.getD ((p - 1) * nc + c) 0)
    (hmu : mu.size = nc) :
    decTail wt nc p d pos maxPar nu mu = .ok (.yield
      (patch d (p * nc) nc (fun c x => Leaf.wrapDec wt (cmPred nc data p nu mu c) x), pos, maxPar)) := by
  have hle : p * nc + nc ≤ n * nc := by
    rw [← Nat.succ_mul]; exact Nat.mul_le_mul_right nc hpn
  have hpm : (p - 1) * nc + nc = p * nc := by
    rw [← Nat.succ_mul]; congr 1; omega
  unfold decTail
  split
  · rename_i h0
    rw [applyWrap_eq wt nc (p * nc) _ (fun c => cmPred nc data p nu mu c) d (by omega) ?_]
    · rfl
    · intro c hc
      rw [rdI_eq _ _ _ (by omega)]
      have := hprev c hc
      rw [Array.getD, dif_pos (show (p - 1) * nc + c < d.size by omega)] at this
      show Except.ok (d[(p - 1) * nc + c]'(by omega)) = _
      rw [show d[(p - 1) * nc + c]'(by omega) = _ from this]
      simp [cmPred, h0, pure, Except.pure]
  · rename_i h0
    rw [applyWrap_eq wt nc (p * nc) _ (fun c => cmPred nc data p nu mu c) d (by omega) ?_]
    · rfl
    · intro c hc
      rw [rdI_eq _ _ _ (by simp; omega)]
      simp [cmPred, h0, Array.getD, show c < mu.size by omega, pure, Except.pure]


theorem rd_ok_lt (site : String) (a : Array Nat) (i v : Nat) (h : rd site a i = .ok v) : ∃ hi : i < a.size, v = a[i] := by
  unfold rd at h
  split at h
  · rename_i hi
    simp [pure, Except.pure] at h
    exact ⟨hi, h.symm⟩
  · simp [throw, throwThe, MonadExceptOf.throw] at h

theorem wr_ok_size (site : String) (a : Array Nat) (i v : Nat) (r : Array Nat) (h : wr site a i v = .ok r) : r.size = a.size := by
  unfold wr at h
  split at h
  · simp [pure, Except.pure] at h
    subst h; simp
  · simp [throw, throwThe, MonadExceptOf.throw] at h

/-- the encoder's loop over the parallelograms of an entry: the flags pushed, size of the sum -/
theorem flagLoop_enc (crease : Array (Array Bool)) (preds : Array (Array Int)) (nc have_ : Nat)
    (isC : Array (Array Bool)) (hm : 0 < preds.size) (hctx' : preds.size - 1 < isC.size)
    (r : Array (Array Bool) × Int × Array Int)
    (h : forIn [0:preds.size] ((isC, 0, Array.replicate nc 0) : Array (Array Bool) × Int × Array Int)
      (fun i st => encFlagStep crease preds nc have_ i st) = .ok r) :
    r.2.2.size = nc ∧ r.1.size = isC.size ∧
    ∀ c, (r.1.getD c #[]).toList = (isC.getD c #[]).toList ++
       if c = preds.size - 1 then (List.range preds.size).map (encFlag crease preds.size have_) else [] := by
  have := flagLoop_sim crease
    (Array.replicate preds.size (Array.ofFn (n := preds.size) fun i => encFlag crease preds.size have_ i.val))
    preds nc have_ isC (Array.replicate preds.size 0) (by simpa using by omega) hctx' (by
      intro i hi
      have h1 : preds.size - 1 < preds.size := by omega
      simp [Array.getD, h1, hi]) r h
  exact this.2

/-- what a successful run of the encoder's loop body (after the gather loop returned `g`) did, and what the
    decoder's loop body does after its gather loop returned the same `g`: `fl` = the crease flags chosen
    for the entry, `P` = the prediction -/
theorem encPost_ok (wt : WrapT) (nc : Nat) (crease : Array (Array Bool)) (data : Array Int) (p n : Nat) (s : CMEncSt) (g : CMGatherSt)
    (r : ForInStep CMEncSt) (hp : 0 < p) (hpn : p < n) (hsz : data.size = n * nc)
    (hout : s.1.size = data.size) (hleft : s.2.1.size = 4) (hisC : s.2.2.size = 4)
    (h : encPost wt nc crease data p s g = .ok r) :
    ∃ (fl : List Bool) (P : Nat → Int) (left' : Array Nat) (isC' : Array (Array Bool)),
      fl.length = g.2.1.size ∧ g.2.1.size ≤ 4 ∧ left'.size = 4 ∧ isC'.size = 4 ∧
      r = .yield (patch s.1 (p * nc) nc (fun c _ => Wrap.encCorr wt (data.getD (p * nc + c) 0) (P c)), left', isC') ∧
      (∀ c, (isC'.getD c #[]).toList = (s.2.2.getD c #[]).toList ++
        if 0 < g.2.1.size ∧ c = g.2.1.size - 1 then fl else []) ∧
      ∀ (crease' : Array (Array Bool)) (d : Array Int) (pos : Array Nat) (maxPar : Nat), pos.size = 4 →
        d.size = data.size → (∀ c, c < nc → d.getD ((p - 1) * nc + c) 0 = data.getD ((p - 1) * nc + c) 0) →
        (∀ i, i < g.2.1.size →
          pos.getD (g.2.1.size - 1) 0 + i < (crease'.getD (g.2.1.size - 1) #[]).size ∧
          (crease'.getD (g.2.1.size - 1) #[])[pos.getD (g.2.1.size - 1) 0 + i]! = fl.getD i false) →
        ∃ maxPar', decPost wt nc crease' p (d, pos, maxPar) g = .ok (.yield
          (patch d (p * nc) nc (fun c x => Leaf.wrapDec wt (P c) x),
           (if 0 < g.2.1.size then pos.setIfInBounds (g.2.1.size - 1) (pos.getD (g.2.1.size - 1) 0 + g.2.1.size) else pos),
           maxPar')) := by
  obtain ⟨out, left, isC⟩ := s
  obtain ⟨gc, preds, gfp, gfin⟩ := g
  simp only at hout hleft hisC ⊢
  unfold encPost at h
  simp only [] at h
  cases gfin with
  | false => simp [throw, throwThe, MonadExceptOf.throw, bind, Except.bind] at h
  | true =>
    simp only [Bool.not_true, Bool.false_eq_true, if_false] at h
    by_cases hm : preds.size > 0
    · rw [if_pos hm] at h
      simp only [bind_ok_iff] at h
      obtain ⟨have_, hrd, left', hwr, r', hloop, htail⟩ := h
      obtain ⟨hctx, _⟩ := rd_ok_lt _ _ _ _ hrd
      have hl' := wr_ok_size _ _ _ _ _ hwr
      obtain ⟨hmu, hsz', hlist⟩ := flagLoop_enc crease preds nc have_ isC hm (by omega) r' hloop
      rw [encTail_eq wt nc p n data out left' r'.1 r'.2.1 r'.2.2 hp hpn hsz hout hmu] at htail
      cases htail
      refine ⟨(List.range preds.size).map (encFlag crease preds.size have_), cmPred nc data p r'.2.1 r'.2.2, left', r'.1,
        by simp, by omega, by omega, by omega, rfl, ?_, ?_⟩
      · intro c
        rw [hlist c]
        by_cases hc : c = preds.size - 1
        · simp [hc, hm]
        · simp [hc]
      · intro crease' d pos maxPar hpos hd hprev hfl
        have hcp : preds.size - 1 < pos.size := by omega
        have hgd : pos.getD (preds.size - 1) 0 = pos[preds.size - 1] := by simp [Array.getD, hcp]
        rw [hgd] at hfl ⊢
        obtain ⟨hdec, _⟩ := flagLoop_sim crease crease' preds nc have_ isC pos hcp (by omega) (by
          intro i hi
          obtain ⟨h1, h2⟩ := hfl i hi
          refine ⟨h1, ?_⟩
          rw [h2]
          simp [List.getD, hi]) r' hloop
        unfold decPost
        simp only [Bool.not_true, Bool.false_eq_true, if_false, if_pos hm, hdec, bind, Except.bind]
        have hset : pos.setIfInBounds (preds.size - 1) (pos[preds.size - 1] + preds.size) =
            pos.set (preds.size - 1) (pos[preds.size - 1] + preds.size) hcp := by
          simp [Array.setIfInBounds, hcp]
        rw [hset]
        by_cases hmp : preds.size > maxPar
        · rw [if_pos hmp]
          exact ⟨_, decTail_eq wt nc p n data d _ _ _ _ hp hpn hsz hd hprev hmu⟩
        · rw [if_neg hmp]
          exact ⟨_, decTail_eq wt nc p n data d _ _ _ _ hp hpn hsz hd hprev hmu⟩
    · rw [if_neg hm] at h
      rw [encTail_eq wt nc p n data out left isC 0 _ hp hpn hsz hout (by simp)] at h
      cases h
      refine ⟨[], cmPred nc data p 0 (Array.replicate nc 0), left, isC, by simp; omega, by omega, hleft, hisC, rfl, ?_, ?_⟩
      · intro c
        simp [hm]
      · intro crease' d pos maxPar hpos hd hprev hfl
        unfold decPost
        simp only [Bool.not_true, Bool.false_eq_true, if_false, if_neg hm]
        by_cases hmp : preds.size > maxPar
        · rw [if_pos hmp]
          exact ⟨_, decTail_eq wt nc p n data d _ _ _ _ hp hpn hsz hd hprev (by simp)⟩
        · rw [if_neg hmp]
          exact ⟨_, decTail_eq wt nc p n data d _ _ _ _ hp hpn hsz hd hprev (by simp)⟩

/-- a successful run of the encoder's loop body for entry `p`, and the decoder's loop body for the same entry
    on a state whose values below entry `p` are the original ones -/
theorem encBody_ok (md : MeshData) (wt : WrapT) (nc : Nat) (crease : Array (Array Bool)) (data : Array Int) (p n : Nat)
    (s : CMEncSt) (r : ForInStep CMEncSt) (hp : 0 < p) (hpn : p < n) (hsz : data.size = n * nc)
    (hout : s.1.size = data.size) (hleft : s.2.1.size = 4) (hisC : s.2.2.size = 4)
    (h : encBody md wt nc crease data p s = .ok r) :
    ∃ (m : Nat) (fl : List Bool) (P : Nat → Int) (left' : Array Nat) (isC' : Array (Array Bool)),
      fl.length = m ∧ m ≤ 4 ∧ left'.size = 4 ∧ isC'.size = 4 ∧
      r = .yield (patch s.1 (p * nc) nc (fun c _ => Wrap.encCorr wt (data.getD (p * nc + c) 0) (P c)), left', isC') ∧
      (∀ c, (isC'.getD c #[]).toList = (s.2.2.getD c #[]).toList ++ if 0 < m ∧ c = m - 1 then fl else []) ∧
      ∀ (crease' : Array (Array Bool)) (d : Array Int) (pos : Array Nat) (maxPar : Nat), pos.size = 4 →
        d.size = data.size → (∀ i (h1 : i < d.size) (h2 : i < data.size), i < p * nc → d[i] = data[i]) →
        (∀ i, i < m →
          pos.getD (m - 1) 0 + i < (crease'.getD (m - 1) #[]).size ∧
          (crease'.getD (m - 1) #[])[pos.getD (m - 1) 0 + i]! = fl.getD i false) →
        ∃ maxPar', decBody md wt nc crease' p (d, pos, maxPar) = .ok (.yield
          (patch d (p * nc) nc (fun c x => Leaf.wrapDec wt (P c) x),
           (if 0 < m then pos.setIfInBounds (m - 1) (pos.getD (m - 1) 0 + m) else pos), maxPar')) := by
  unfold encBody at h
  rw [bind_ok_iff] at h
  obtain ⟨g, hg, hpost⟩ := h
  obtain ⟨fl, P, left', isC', h1, h2, h3, h4, h5, h6, h7⟩ :=
    encPost_ok wt nc crease data p n s g r hp hpn hsz hout hleft hisC hpost
  refine ⟨g.2.1.size, fl, P, left', isC', h1, h2, h3, h4, h5, h6, ?_⟩
  intro crease' d pos maxPar hpos hd hagree hfl
  have hle : p * nc + nc ≤ n * nc := by
    rw [← Nat.succ_mul]; exact Nat.mul_le_mul_right nc hpn
  have hpm : (p - 1) * nc + nc = p * nc := by
    rw [← Nat.succ_mul]; congr 1; omega
  have hgd : gather (fun c => parallelogramPrediction md p c d nc) md.t md.d2c[p]! = .ok g := by
    refine gather_mono _ _ ?_ _ _ _ hg
    intro c r hr
    rw [parallelogramPrediction_congr md p c nc d data hd hagree]
    exact predE_ok md p c nc data r hr
  obtain ⟨maxPar', hdec⟩ := h7 crease' d pos maxPar hpos hd (by
    intro c hc
    have e1 : (p - 1) * nc + c < d.size := by omega
    have e2 : (p - 1) * nc + c < data.size := by omega
    simp only [Array.getD, e1, e2, dite_true]
    exact hagree _ e1 e2 (by omega)) hfl
  refine ⟨maxPar', ?_⟩
  unfold decBody
  simp only [hgd, bind, Except.bind]
  exact hdec

/-! ### the order of the crease flags in the stream -/

/-- the flags of a context whose entries use `m` flags each, in the order `encodeCreaseFlags` writes them
    (= the decoder reads them): groups of `m`, the last group first -/
def streamOrder (m : Nat) (A : Array Bool) : Array Bool :=
  ((List.range (A.size / m * m)).map fun q => A.getD (A.size - m * (q / m + 1) + q % m) false).toArray

/-- the crease flags of context `ctx` in the order the decoder reads them: groups of `ctx+1` flags, last group first -/
def creaseStreamOrder (isCrease : Array (Array Bool)) : Array (Array Bool) :=
  isCrease.mapIdx fun i A => streamOrder (i + 1) A

theorem creaseStreamOrder_getD (isCrease : Array (Array Bool)) (c : Nat) :
    (creaseStreamOrder isCrease).getD c #[] = streamOrder (c + 1) (isCrease.getD c #[]) := by
  unfold creaseStreamOrder
  by_cases hc : c < isCrease.size
  · simp [Array.getD, hc]
  · simp [Array.getD, hc, streamOrder]

/-- the group the decoder reads after `Y.length` flags is the group the encoder pushed before the flags `Y` -/
theorem streamOrder_get (m : Nat) (A : Array Bool) (X fl Y : List Bool) (hA : A.toList = X ++ fl ++ Y)
    (hfl : fl.length = m) (hm : 0 < m) (hX : m ∣ X.length) (hY : m ∣ Y.length) (i : Nat) (hi : i < m) :
    Y.length + i < (streamOrder m A).size ∧ (streamOrder m A)[Y.length + i]! = fl.getD i false := by
  obtain ⟨x, hx⟩ := hX
  obtain ⟨y, hy⟩ := hY
  have hsize : A.size = m * (x + 1 + y) := by
    have := congrArg List.length hA
    simp only [Array.length_toList, List.length_append] at this
    rw [this, hx, hy, hfl]; ring
  have hdiv : A.size / m * m = A.size := by
    rw [hsize, Nat.mul_div_cancel_left _ hm, Nat.mul_comm]
  have hlt : Y.length + i < A.size := by
    rw [hsize, hy]
    have : m * y + m * (x + 1) = m * (x + 1 + y) := by ring
    have : m ≤ m * (x + 1) := Nat.le_mul_of_pos_right m (by omega)
    omega
  have hs : (streamOrder m A).size = A.size := by simp [streamOrder, hdiv]
  refine ⟨by omega, ?_⟩
  rw [getElem!_pos _ _ (by omega)]
  simp only [streamOrder, List.getElem_toArray, List.getElem_map, List.getElem_range]
  have hq : (Y.length + i) / m = y := by
    rw [hy, Nat.add_comm, Nat.add_mul_div_left _ _ hm, Nat.div_eq_of_lt hi, Nat.zero_add]
  have hr : (Y.length + i) % m = i := by
    rw [hy, Nat.add_comm, Nat.add_mul_mod_self_left, Nat.mod_eq_of_lt hi]
  rw [hq, hr]
  have hidx : A.size - m * (y + 1) + i = X.length + i := by
    rw [hsize, hx]
    have : m * (x + 1 + y) = m * x + m * (y + 1) := by ring
    omega
  rw [hidx]
  have hxi : X.length + i < A.size := by
    rw [hsize, hx]
    have : m * (x + 1 + y) = m * x + m + m * y := by ring
    omega
  rw [Array.getD, dif_pos hxi]
  show A[X.length + i] = _
  rw [← Array.getElem_toList]
  simp only [hA]
  rw [List.getElem_append_left (by simp; omega), List.getElem_append_right (by omega)]
  simp [List.getD, hfl, hi]

theorem kMax_eq : Generated.kMaxNumParallelograms.toNat = 4 := by decide

theorem patch_getD (a : Array Int) (off k : Nat) (f : Nat → Int → Int) (i : Nat) :
    (patch a off k f).getD i 0 = if off ≤ i ∧ i < off + k ∧ i < a.size then f (i - off) (a.getD i 0) else a.getD i 0 := by
  by_cases hi : i < a.size
  · rw [Array.getD, dif_pos (by simpa using hi)]
    show (patch a off k f)[i]'(by simpa using hi) = _
    rw [patch_get a off k f i hi]
    simp only [Array.getD, hi, dite_true, and_true]
    rfl
  · rw [Array.getD, dif_neg (by simpa using hi), if_neg (by omega), Array.getD, dif_neg hi]

theorem setIfInBounds_getD (pos : Array Nat) (a v c : Nat) :
    (pos.setIfInBounds a v).getD c 0 = if c = a ∧ c < pos.size then v else pos.getD c 0 := by
  by_cases hc : c < pos.size
  · simp only [Array.getD, Array.size_setIfInBounds, hc, dite_true, and_true]
    show (pos.setIfInBounds a v)[c]'(by simpa using hc) = _
    rw [Array.getElem_setIfInBounds]
    by_cases e : a = c
    · simp [e]
    · rw [if_neg e, if_neg (Ne.symm e)]; rfl
  · simp [Array.getD, hc]

/-! ### the round trip -/

set_option linter.unusedVariables false in
/-- **constrained multi-parallelogram prediction**: for every choice `crease` of crease flags, whenever the
    encoder loop succeeds, the decoder loop — given the encoder's corrections and the encoder's flags in the
    order of the stream — returns the original values -/
theorem constrained_multi_roundtrip (md : MeshData) (wt : WrapT) (lo hi : Int) (nc n : Nat)
    (crease : Array (Array Bool)) (data corr : Array Int) (isCrease : Array (Array Bool))
    (hnc : 0 < nc) (hn : 0 < n) (hd : md.d2c.size = n) (hsz : data.size = n * nc)
    (hinit : Wrap.init lo hi = some wt) (hlo : -2 ^ 31 ≤ lo) (hhi : hi < 2 ^ 31)
    (hrange : ∀ i (h : i < data.size), lo ≤ data[i] ∧ data[i] ≤ hi)
    (henc : constrainedMultiEncode md wt nc crease data = .ok (corr, isCrease)) :
    ∃ maxPar, constrainedMultiDecode md wt nc (creaseStreamOrder isCrease) corr = .ok (data, maxPar) := by
  rw [constrainedMultiEncode_eq, bind_ok_iff] at henc
  obtain ⟨sfin, hloop, henc⟩ := henc
  rw [bind_ok_iff] at henc
  obtain ⟨out, hcw, hret⟩ := henc
  simp only [pure, Except.pure, Except.ok.injEq, Prod.mk.injEq] at hret
  obtain ⟨hout, hisC⟩ := hret
  subst hout hisC
  rw [hd, kMax_eq] at hloop
  simp only [Std.Legacy.Range.forIn_eq_forIn_range', Std.Legacy.Range.size, Nat.sub_zero, Nat.add_sub_cancel,
    Nat.div_one] at hloop
  have hblk : ∀ p, p < n → p * nc + nc ≤ data.size := by
    intro p hp
    rw [hsz, ← Nat.succ_mul]; exact Nat.mul_le_mul_right nc hp
  have hwrap : ∀ (orig pred : Int) (i : Nat) (hi : i < data.size), orig = data.getD i 0 →
      Leaf.wrapDec wt pred (Wrap.encCorr wt orig pred) = orig := by
    intro orig pred i hi ho
    have hv : data.getD i 0 = data[i] := by simp [Array.getD, hi]
    obtain ⟨h1, h2⟩ := hrange i hi
    rw [ho, hv]
    exact (Wrap.decOrig_encCorr (Wrap.init_bounds hinit).1 (Wrap.init_bounds hinit).2.1 (Wrap.init_bounds hinit).2.2
      hlo hhi _ _ h1 h2)
  -- the states of the encoder
  obtain ⟨E, hE0, hEfin, hEI, hEstep⟩ := forIn_trace_inv (List.range' 0 (n - 1) 1)
    (fun k s => encBody md wt nc crease data (n - 1 - k) s)
    (fun _ (s : CMEncSt) => s.1.size = data.size ∧ s.2.1.size = 4 ∧ s.2.2.size = 4) (by
      intro i hi s r hI hr
      have hi' : i < n - 1 := by simpa using hi
      have hli : (List.range' 0 (n - 1) 1)[i] = i := by simp
      rw [hli] at hr
      obtain ⟨m, fl, P, left', isC', _, _, h3, h4, h5, _⟩ :=
        encBody_ok md wt nc crease data (n - 1 - i) n s r (by omega) (by omega) hsz hI.1 hI.2.1 hI.2.2 hr
      exact ⟨_, h5, by simpa using hI.1, h3, h4⟩) _ _ (by simp) hloop
  simp only [List.length_range'] at hEfin hEI hEstep
  have hEstep' : ∀ k (hk : k < n - 1), encBody md wt nc crease data (n - 1 - k) (E k) = .ok (.yield (E (k + 1))) := by
    intro k hk
    have := hEstep k hk
    simpa using this
  have hok := fun k (hk : k < n - 1) => encBody_ok md wt nc crease data (n - 1 - k) n (E k) _ (by omega) (by omega) hsz
    (hEI k (by omega)).1 (hEI k (by omega)).2.1 (hEI k (by omega)).2.2 (hEstep' k hk)
  -- the flags
  let L : Nat → Nat → List Bool := fun k c => ((E k).2.2.getD c #[]).toList
  have hL0 : ∀ c, L 0 c = [] := by
    intro c
    simp only [L, hE0]
    by_cases hc : c < 4
    · simp [Array.getD, hc]
    · simp [Array.getD, hc]
  have hLchain : ∀ c k k', k ≤ k' → k' ≤ n - 1 → ∃ Y, L k' c = L k c ++ Y ∧ (c + 1) ∣ Y.length := by
    intro c k k' hkk'
    induction k', hkk' using Nat.le_induction with
    | base => intro _; exact ⟨[], by simp, by simp⟩
    | succ k' hk' ih =>
      intro hle
      obtain ⟨Y, hY1, hY2⟩ := ih (by omega)
      obtain ⟨m, fl, P, left', isC', h1, _, _, _, h5, h6, _⟩ := hok k' (by omega)
      have h5' : E (k' + 1) = _ := ForInStep.yield.inj h5
      have hl : L (k' + 1) c = L k' c ++ if 0 < m ∧ c = m - 1 then fl else [] := by
        simp only [L]
        rw [h5']
        exact h6 c
      refine ⟨Y ++ if 0 < m ∧ c = m - 1 then fl else [], by rw [hl, hY1, List.append_assoc], ?_⟩
      rw [List.length_append]
      apply Nat.dvd_add hY2
      split
      · rename_i hc
        rw [h1, hc.2]
        have : m - 1 + 1 = m := by omega
        rw [this]
      · simp
  -- the corrections
  have hOframe : ∀ k, k < n - 1 → ∀ k', k + 1 ≤ k' → k' ≤ n - 1 → ∀ i, (n - 1 - k) * nc ≤ i →
      (E k').1.getD i 0 = (E (k + 1)).1.getD i 0 := by
    intro k hk k' hkk'
    induction k', hkk' using Nat.le_induction with
    | base => intro _ i _; rfl
    | succ k' hk' ih =>
      intro hle i hi
      rw [← ih (by omega) i hi]
      obtain ⟨m, fl, P, left', isC', _, _, _, _, h5, _, _⟩ := hok k' (by omega)
      have h5' : E (k' + 1) = _ := ForInStep.yield.inj h5
      rw [h5']
      simp only
      rw [patch_getD, if_neg]
      have : (n - 1 - k' + 1) * nc ≤ (n - 1 - k) * nc := Nat.mul_le_mul_right nc (by omega)
      rw [Nat.succ_mul] at this
      omega
  have hcorr := corrWrap_eq wt nc 0 (fun _ => pure 0) (fun _ => 0) data sfin.1 (by have := hblk 0 hn; omega)
    (by rw [← hEfin]; exact (hEI (n - 1) (by omega)).1) (fun _ _ => rfl)
  rw [hcw] at hcorr
  have hcorr' : out = _ := Except.ok.inj hcorr
  have hcs : out.size = data.size := by
    rw [hcorr', patch_size, ← hEfin]; exact (hEI (n - 1) (by omega)).1
  have hcorr0 : ∀ c, c < nc → out.getD c 0 = Wrap.encCorr wt (data.getD c 0) 0 := by
    intro c hc
    rw [hcorr', patch_getD, if_pos]
    · simp
    · refine ⟨by omega, by omega, ?_⟩
      rw [← hEfin, (hEI (n - 1) (by omega)).1]
      have := hblk 0 hn
      omega
  have hcorrP : ∀ k (hk : k < n - 1) (P : Nat → Int),
      (E (k + 1)).1 = patch (E k).1 ((n - 1 - k) * nc) nc
        (fun c _ => Wrap.encCorr wt (data.getD ((n - 1 - k) * nc + c) 0) (P c)) →
      ∀ c, c < nc → out.getD ((n - 1 - k) * nc + c) 0 = Wrap.encCorr wt (data.getD ((n - 1 - k) * nc + c) 0) (P c) := by
    intro k hk P hP c hc
    have h1 : nc ≤ (n - 1 - k) * nc := Nat.le_mul_of_pos_left nc (by omega)
    rw [hcorr', patch_getD, if_neg (by omega), ← hEfin, hOframe k hk (n - 1) (by omega) (by omega) _ (by omega), hP]
    rw [patch_getD, if_pos]
    · simp
    · refine ⟨by omega, by omega, ?_⟩
      rw [(hEI k (by omega)).1]
      have := hblk (n - 1 - k) (by omega)
      omega
  -- the decoder
  rw [constrainedMultiDecode_eq]
  have h0 : applyWrap wt nc 0 (fun _ => pure 0) out = pure (mix data out (1 * nc)) := by
    rw [applyWrap_eq wt nc 0 (fun _ => pure 0) (fun _ => 0) out (by have := hblk 0 hn; omega) (fun _ _ => rfl)]
    have := mix_patch data out nc 0 (fun _ x => Leaf.wrapDec wt 0 x)
      (by
        intro c hc
        simp only [Nat.zero_mul, Nat.zero_add]
        rw [hcorr0 c hc]
        exact hwrap _ _ c (by have := hblk 0 hn; omega) rfl) (by have := hblk 0 hn; omega)
    rw [Nat.zero_mul, mix_zero] at this
    rw [this]
  rw [h0, hd, kMax_eq]
  simp only [Std.Legacy.Range.forIn_eq_forIn_range', Std.Legacy.Range.size, Nat.add_sub_cancel, Nat.div_one]
  have hD : ∃ dfin : CMDecSt, forIn (List.range' 1 (n - 1) 1) ((mix data out (1 * nc), Array.replicate 4 0, 0) : CMDecSt)
      (fun p s => decBody md wt nc (creaseStreamOrder sfin.2.2) p s) = .ok dfin ∧
      dfin.1 = mix data out ((1 + (n - 1)) * nc) := by
    obtain ⟨dfin, h1, h2⟩ := forIn_inv (List.range' 1 (n - 1) 1)
      (fun p s => decBody md wt nc (creaseStreamOrder sfin.2.2) p s)
      (fun j (s : CMDecSt) => s.1 = mix data out ((1 + j) * nc) ∧ s.2.1.size = 4 ∧
        ∀ c, c < 4 → s.2.1.getD c 0 + (L (n - 1 - j) c).length = (L (n - 1) c).length) (by
        intro j hj s hI
        have hj' : j < n - 1 := by simpa using hj
        have hlj : (List.range' 1 (n - 1) 1)[j] = 1 + j := by simp
        rw [hlj]
        obtain ⟨d, pos, maxPar⟩ := s
        obtain ⟨hd1, hpos, hposL⟩ := hI
        simp only at hd1 hpos hposL
        subst hd1
        -- the encoder's step for the same entry
        have hk : n - 2 - j < n - 1 := by omega
        have hpk : n - 1 - (n - 2 - j) = 1 + j := by omega
        have hk1 : n - 2 - j + 1 = n - 1 - j := by omega
        have hcP := hcorrP (n - 2 - j) hk
        obtain ⟨m, fl, P, left', isC', h1, h2, h3, h4, h5, h6, h7⟩ := hok (n - 2 - j) hk
        rw [hpk] at h5 h7 hcP
        have h5' : E (n - 2 - j + 1) = _ := ForInStep.yield.inj h5
        rw [hk1] at h5' hcP
        have hl : ∀ c, L (n - 1 - j) c = L (n - 2 - j) c ++ if 0 < m ∧ c = m - 1 then fl else [] := by
          intro c
          simp only [L]
          rw [h5']
          exact h6 c
        have hpj : 1 + j < n := by omega
        -- the flags the decoder reads are the flags of this entry
        have hflags : ∀ i, i < m →
            pos.getD (m - 1) 0 + i < ((creaseStreamOrder sfin.2.2).getD (m - 1) #[]).size ∧
            ((creaseStreamOrder sfin.2.2).getD (m - 1) #[])[pos.getD (m - 1) 0 + i]! = fl.getD i false := by
          intro i hi
          have hm : 0 < m := by omega
          obtain ⟨Y, hY1, hY2⟩ := hLchain (m - 1) (n - 1 - j) (n - 1) (by omega) (by omega)
          obtain ⟨X, hX1, hX2⟩ := hLchain (m - 1) 0 (n - 2 - j) (by omega) (by omega)
          rw [hL0, List.nil_append] at hX1
          have hmm : m - 1 + 1 = m := by omega
          rw [hmm] at hY2 hX2
          have hA : (sfin.2.2.getD (m - 1) #[]).toList = X ++ fl ++ Y := by
            have e : L (n - 1) (m - 1) = (sfin.2.2.getD (m - 1) #[]).toList := by
              simp only [L]; rw [hEfin]
            rw [← e, hY1, hl (m - 1), if_pos ⟨hm, rfl⟩, hX1]
          have hposY : pos.getD (m - 1) 0 = Y.length := by
            have := hposL (m - 1) (by omega)
            rw [hY1, List.length_append] at this
            omega
          rw [creaseStreamOrder_getD, hmm, hposY]
          exact streamOrder_get m _ X fl Y hA h1 hm hX2 hY2 i hi
        obtain ⟨maxPar', hdec⟩ := h7 (creaseStreamOrder sfin.2.2) (mix data out ((1 + j) * nc)) pos maxPar hpos
          (by simp [hcs]) (by
            intro i h1 h2 hi
            rw [mix_get data out _ i (by simpa using h1), if_pos hi]
            simp [Array.getD, h2]) hflags
        refine ⟨_, hdec, ?_, ?_, ?_⟩
        · show patch (mix data out ((1 + j) * nc)) ((1 + j) * nc) nc (fun c x => Leaf.wrapDec wt (P c) x) = _
          rw [mix_patch data out nc (1 + j) (fun c x => Leaf.wrapDec wt (P c) x) ?_ ?_]
          · congr 2
          · intro c hc
            rw [hcP P (by rw [h5']) c hc]
            exact hwrap _ _ ((1 + j) * nc + c) (by have := hblk (1 + j) hpj; omega) rfl
          · have := hblk (1 + j) hpj
            rw [Nat.succ_mul]; omega
        · show (if 0 < m then pos.setIfInBounds (m - 1) (pos.getD (m - 1) 0 + m) else pos).size = 4
          split <;> simp [hpos]
        · intro c hc
          show (if 0 < m then pos.setIfInBounds (m - 1) (pos.getD (m - 1) 0 + m) else pos).getD c 0 +
            (L (n - 1 - (j + 1)) c).length = _
          have hkk : n - 1 - (j + 1) = n - 2 - j := by omega
          rw [hkk]
          have hpc := hposL c hc
          rw [hl c, List.length_append] at hpc
          by_cases hm : 0 < m
          · rw [if_pos hm, setIfInBounds_getD]
            by_cases hcm : c = m - 1
            · rw [if_pos ⟨hcm, by omega⟩]
              rw [if_pos ⟨hm, hcm⟩, h1] at hpc
              rw [← hcm]
              omega
            · rw [if_neg (by intro h; exact hcm h.1)]
              rw [if_neg (by intro h; exact hcm h.2)] at hpc
              simpa using hpc
          · rw [if_neg hm]
            rw [if_neg (by intro h; exact hm h.1)] at hpc
            simpa using hpc)
      (mix data out (1 * nc), Array.replicate 4 0, 0) (by
        refine ⟨rfl, by simp, ?_⟩
        intro c hc
        simp [Array.getD, hc])
    refine ⟨dfin, h1, ?_⟩
    simpa using h2.1
  obtain ⟨dfin, hdloop, hdI⟩ := hD
  · refine ⟨dfin.2.2, ?_⟩
    simp only [pure, Except.pure, bind, Except.bind] at hdloop ⊢
    rw [hdloop]
    show Except.ok (dfin.1, dfin.2.2) = _
    rw [hdI]
    congr 2
    apply mix_all data out _ hcs
    rw [hsz]
    apply Nat.mul_le_mul_right
    omega

/-! ### what `encodeCreaseFlags` writes -/

theorem foldl_congr_mem {α β : Type} (f g : α → β → α) (l : List β) (h : ∀ a, ∀ b ∈ l, f a b = g a b) :
    ∀ init, l.foldl f init = l.foldl g init := by
  induction l with
  | nil => intro init; rfl
  | cons x l ih =>
    intro init
    simp only [List.foldl_cons]
    rw [h init x (by simp)]
    exact ih (fun a b hb => h a b (by simp [hb])) _

/-- a loop over `G` groups of `m` elements is a loop over `G * m` elements -/
theorem foldl_range_groups {β : Type} (step : β → Nat → Nat → β) (m : Nat) (hm : 0 < m) (G : Nat) (init : β) :
    (List.range G).foldl (fun e g => (List.range m).foldl (fun e k => step e g k) e) init
      = (List.range (G * m)).foldl (fun e q => step e (q / m) (q % m)) init := by
  induction G with
  | zero => simp
  | succ G ih =>
    rw [List.range_succ, List.foldl_append, ih, Nat.succ_mul, List.range_add, List.foldl_append, List.foldl_map]
    simp only [List.foldl_cons, List.foldl_nil]
    apply foldl_congr_mem
    intro a k hk
    have hk' : k < m := List.mem_range.mp hk
    have h1 : (G * m + k) / m = G := by
      rw [Nat.mul_comm, Nat.mul_add_div hm, Nat.div_eq_of_lt hk', Nat.add_zero]
    have h2 : (G * m + k) % m = k := by
      rw [Nat.mul_comm, Nat.mul_add_mod, Nat.mod_eq_of_lt hk']
    rw [h1, h2]

theorem forIn_id_foldl {β : Type} (l : List Nat) (f : Nat → β → Id (ForInStep β)) (g : β → Nat → β)
    (h : ∀ a b, f a b = pure (ForInStep.yield (g b a))) : ∀ init, forIn l init f = pure (l.foldl g init) := by
  induction l with
  | nil => intro init; rfl
  | cons x l ih =>
    intro init
    rw [List.forIn_cons, h x init]
    simp only [List.foldl_cons]
    exact ih _

/-- `encodeCreaseFlags` writes, per context `i`, the number of flags and — when there are any — the flags
    `(creaseStreamOrder isCrease)[i]` through a binary rANS encoder -/
theorem encodeCreaseFlags_eq (finish : RAnsBitEnc → Bytes) (isCrease : Array (Array Bool)) :
    encodeCreaseFlags finish isCrease =
      (List.range 4).foldl (fun bytes i =>
        bytes ++ encVarint ((isCrease.getD i #[]).size % 2 ^ 32) ++
          if (isCrease.getD i #[]).size > 0 then
            finish (((creaseStreamOrder isCrease).getD i #[]).foldl (fun e b => e.encodeBit b) RAnsBitEnc.start)
          else []) [] := by
  unfold encodeCreaseFlags
  simp only [Std.Legacy.Range.forIn_eq_forIn_range', Std.Legacy.Range.size, Nat.sub_zero, Nat.add_sub_cancel,
    Nat.div_one, kMax_eq, ← List.range_eq_range']
  rw [forIn_id_foldl _ _ (fun bytes i =>
        bytes ++ encVarint ((isCrease.getD i #[]).size % 2 ^ 32) ++
          if (isCrease.getD i #[]).size > 0 then
            finish (((creaseStreamOrder isCrease).getD i #[]).foldl (fun e b => e.encodeBit b) RAnsBitEnc.start)
          else [])]
  · rfl
  · intro i bytes
    split
    · rename_i hpos
      rw [forIn_id_foldl _ _ (fun (e : RAnsBitEnc) g => (List.range (i + 1)).foldl (fun (e : RAnsBitEnc) k => e.encodeBit
        ((isCrease.getD i #[]).getD ((isCrease.getD i #[]).size - (i + 1) * (g + 1) + k) false)) e)]
      · simp only [pure_bind]
        rw [foldl_range_groups (fun (e : RAnsBitEnc) g k => e.encodeBit
          ((isCrease.getD i #[]).getD ((isCrease.getD i #[]).size - (i + 1) * (g + 1) + k) false)) (i + 1) (by omega)]
        rw [creaseStreamOrder_getD, streamOrder, List.foldl_toArray, List.foldl_map]
      · intro g e
        rw [forIn_id_foldl _ _ (fun (e : RAnsBitEnc) k => e.encodeBit
          ((isCrease.getD i #[]).getD ((isCrease.getD i #[]).size - (i + 1) * (g + 1) + k) false))]
        · rfl
        · intro k e; rfl
    · rw [List.append_nil]

/-! ### non-vacuity -/

/-- two triangles `(0,1,2)`, `(2,1,3)`; values are coded in the order of the corners 1, 2, 0, 5; the last entry
    has one parallelogram (the mesh of `exMesh` in DracoProps/C01Eb.lean) -/
def exMeshCM : MeshData :=
  { t := { c2v := #[0, 1, 2, 2, 1, 3], opp := #[5, inv, inv, inv, inv, 0], seam := #[], lm := #[0, 1, 2, 5],
           isAtt := false, numFaces := 2 },
    d2c := #[1, 2, 0, 5], v2d := #[2, 0, 1, 3] }

set_option maxRecDepth 8000 in
/-- the encoder run with the choice "use the parallelogram of the last entry" -/
theorem exCMEnc :
    constrainedMultiEncode exMeshCM ⟨0, 20, 21, 10, -10⟩ 1 #[#[false], #[], #[], #[]] #[3, 7, 12, 16] =
      .ok (#[3, 4, 5, -5], #[#[false], #[], #[], #[]]) := by
  rw [constrainedMultiEncode_eq]
  simp [encBody, gather, gStep, encPost, encFlagStep, encFlag, encTail, addVec, corrWrap, parallelogramPredictionE,
    checkParallelogramEntries, parallelogramPrediction, exMeshCM, TView.opposite, TView.vertex, TView.swingLeft,
    TView.swingRight, rd, wr, rdI, wrI, inv, Eb.nextC, Eb.prevC, kMax_eq,
    Std.Legacy.Range.forIn_eq_forIn_range', Std.Legacy.Range.size, bind, Except.bind, pure, Except.pure, wrap32,
    Wrap.encCorr, Wrap.clamp, List.range'_succ]
  decide

/-- non-vacuity: the hypotheses of `constrained_multi_roundtrip` hold on a run in which the last entry is
    predicted by its parallelogram (3 + 7 − 12, clamped to 0, correction wrapped) -/
example : ∃ maxPar, constrainedMultiDecode exMeshCM ⟨0, 20, 21, 10, -10⟩ 1
    (creaseStreamOrder #[#[false], #[], #[], #[]]) #[3, 4, 5, -5] = .ok (#[3, 7, 12, 16], maxPar) :=
  constrained_multi_roundtrip exMeshCM ⟨0, 20, 21, 10, -10⟩ 0 20 1 4 #[#[false], #[], #[], #[]] #[3, 7, 12, 16] _ _
    (by decide) (by decide) (by decide) (by decide) (by decide) (by decide) (by decide) (by decide) exCMEnc

end Draco.EbEnc
