import DracoProofs.EbConnGlueS
import DracoProofs.EbEncTraceS
import DracoProofs.EbNoSLink
/-
  `eb_connectivity_roundtrip_withS'`: `ConnGlueS.eb_connectivity_roundtrip_withS` with the encoder's invariants of the event
  list (`hev : EvsOK conn.splits`, `hevn`) discharged from the run (`EncTraceS.events_of_run`); `decLoopIsoS_of_noS`;
  `tetraLinkS`: a non-vacuity instance of the with-`S` theorem (the tetrahedron: a run WITHOUT `S`, so with an empty event
  list — it exercises the statement, not the split events).
-/
namespace Draco.EbEnc.ConnGlueS
open Draco Draco.SeqEnc DecM
open Draco.Eb hiding iabs nextC prevC
open Draco.EbEnc.ConnTri Draco.EbEnc.ConnGlue
open Draco.EbEnc.EncCounts Draco.EbEnc.ConnSplitFree Draco.EbEnc.ConnSplitFreeI

theorem splitsOK_of : ∀ (L : List TopoSplit) (last : Nat),
    (∀ ev, ev ∈ L → last ≤ ev.source ∧ ev.source < 2 ^ 32 ∧ ev.split ≤ ev.source ∧ ev.edge < 2) →
    (L.map (·.source)).Pairwise (· ≤ ·) → SplitsOK last L := by
  intro L
  induction L with
  | nil => intro _ _ _; trivial
  | cons e es ih =>
    intro last h hp
    obtain ⟨a, b, c, d⟩ := h e (by simp)
    rw [List.map_cons, List.pairwise_cons] at hp
    refine ⟨a, b, c, d, ih e.source (fun ev hev => ?_) hp.2⟩
    obtain ⟨_, b', c', d'⟩ := h ev (by simp [hev])
    exact ⟨hp.1 _ (List.mem_map.mpr ⟨ev, hev, rfl⟩), b', c', d'⟩

/-- **(1) the encoder's invariants of the event list, from the run** -/
theorem evs_of_run (ch : ConnChoices) (pf : Faces) (conn : ConnEnc)
    (h : encodeConnectivity ch false pf #[] = .ok conn) (hn32 : conn.symbols.size < 2 ^ 32) :
    EvsOK conn.splits ∧ conn.splits.size ≤ conn.symbols.size := by
  obtain ⟨⟨h1, h2, h3⟩, h4⟩ := EncTraceS.events_of_run ch pf conn h
  constructor
  · refine splitsOK_of _ 0 (fun ev hev => ?_) ?_
    · obtain ⟨a, b, _⟩ := h4 ev hev
      obtain ⟨_, _, c, _⟩ := h1 ev (by simpa using hev)
      exact ⟨Nat.zero_le _, by omega, by omega, by omega⟩
    · rw [List.map_reverse, List.pairwise_reverse] at h3
      exact h3.imp (fun hab => hab)
  · rw [List.map_reverse, List.nodup_reverse] at h2
    have hsub : conn.splits.toList.map (·.split) ⊆ List.range conn.symbols.size := by
      intro x hx
      obtain ⟨ev, hev, rfl⟩ := List.mem_map.mp hx
      obtain ⟨a, b, _⟩ := h4 ev hev
      exact List.mem_range.mpr (by omega)
    have := h2.length_le_of_subset hsub
    simpa using this

/-- **(2) `eb_connectivity_roundtrip_withS'`**: hypotheses: the run, the decoder's domain checks, the decoder loop -/
theorem eb_connectivity_roundtrip_withS' (ch : ConnChoices) (pf : Faces) (conn : ConnEnc)
    (h : encodeConnectivity ch false pf #[] = .ok conn)
    (hnf : conn.processed.size ≤ 2 ^ 21)
    (hnv : conn.ct.numVertices - conn.ct.numIsolated + conn.numSplitSymbols ≤ 3 * 2 ^ 21)
    (hedge : 3 * conn.processed.size / 2 ≤
      (conn.ct.numVertices - conn.ct.numIsolated) * (conn.ct.numVertices - conn.ct.numIsolated - 1) / 2)
    (hsz2 : conn.processed.size ≤ conn.symbols.size + conn.symbols.size / 3)
    (hrun : DecLoopIsoS conn) :
    ∃ mesh, Runs decodeConnectivity 514 ([0] ++ conn.bytes) mesh 514 ∧
      CTIso conn.ct conn.processed mesh.numFaces mesh.c2v mesh.opp ∧ mesh.atts.size = conn.atts.size := by
  obtain ⟨hsz1, _⟩ := symbols_of_run ch pf conn h
  obtain ⟨hev, hevn⟩ := evs_of_run ch pf conn h (by omega)
  exact eb_connectivity_roundtrip_withS ch pf conn h hnf hnv hedge hsz2 hev (by omega) hrun

/-- **(3)** without a symbol `S` there are no events and no split symbols: `DecLoopIso` is `DecLoopIsoS` -/
theorem decLoopIsoS_of_noS (ch : ConnChoices) (pf : Faces) (conn : ConnEnc)
    (h : encodeConnectivity ch false pf #[] = .ok conn)
    (hnoS : ∀ x, x ∈ conn.symbols.toList → x ≠ topoS) (hrun : DecLoopIso conn) : DecLoopIsoS conn := by
  obtain ⟨tbl, holeId, nh, s, hc, hnd, hh, hmain, e_ct, e_P, e_sy, e_sfs, e_sp, e_ns⟩ := stages_of_run_S ch pf conn h
  obtain ⟨hsp, hns⟩ := noS_of_main _ holeId nh s hmain (by rw [← e_sy]; exact hnoS)
  have e1 : conn.splits = #[] := by rw [e_sp, hsp]
  have e2 : conn.numSplitSymbols = 0 := by rw [e_ns, hns]
  obtain ⟨co, hloop, hiso⟩ := hrun
  refine ⟨co, ?_, hiso⟩
  rw [e1, e2]
  exact hloop

open Draco.EbEnc.ConnExample Draco.EbEnc.NoSLink in
/-- **non-vacuity of the with-`S` theorem** (on a run WITHOUT `S`: the tetrahedron of `NoSLink`, symbols C R E, interior
    start face; the event list is empty): every hypothesis of `eb_connectivity_roundtrip_withS'` by kernel evaluation,
    the decoder loop from `NoSLink.decLoopIso_of_run` through `decLoopIsoS_of_noS` -/
theorem tetraLinkS : ∃ mesh, Runs decodeConnectivity 514 ([0] ++ tetraConn.bytes) mesh 514 ∧
    CTIso tetraConn.ct tetraConn.processed mesh.numFaces mesh.c2v mesh.opp ∧ mesh.atts.size = tetraConn.atts.size :=
  eb_connectivity_roundtrip_withS' exCh.conn tetra tetraConn tetraEncode (by decide +kernel) (by decide +kernel)
    (by decide +kernel) (by decide +kernel)
    (decLoopIsoS_of_noS exCh.conn tetra tetraConn tetraEncode (by decide +kernel)
      (decLoopIso_of_run exCh.conn tetra tetraConn tetraEncode (by decide +kernel)))

end Draco.EbEnc.ConnGlueS
