import Std.Tactic.Do
import DracoModel.EbDecoder
/-
  Invariants of the vertex traversals (DracoModel/EbTraversal.lean) on the success path, for every
  table (consistent or not): the value sequence and the vertex → value map stay coherent
  (`SInv`), the map keeps its size, and a mesh with a face yields at least one value.
  Verification conditions by `mvcgen` (Std.Do) with may-throw postconditions.
-/
open Std.Do
set_option mvcgen.warning false

namespace Draco.Eb

/-- partial correctness of an `R` program from its success case -/
theorem R.mayThrow_of {α : Type} (prog : R α) (Q : α → Prop) (h : ∀ a, prog = .ok a → Q a) :
    ⦃⌜True⌝⦄ prog ⦃⇓? r => ⌜Q r⌝⦄ := by
  cases hp : prog with
  | error e =>
    simp only [Triple, WP.wp, PostCond.mayThrow]
    intro _
    trivial
  | ok a =>
    have := h a hp
    simp only [Triple, WP.wp, PostCond.mayThrow]
    intro _
    exact this

/-- … and back -/
theorem R.ok_of_mayThrow {α : Type} {prog : R α} {Q : α → Prop} (h : ⦃⌜True⌝⦄ prog ⦃⇓? r => ⌜Q r⌝⦄)
    (a : α) (hp : prog = .ok a) : Q a := by
  subst hp
  simp only [Triple, WP.wp, PostCond.mayThrow] at h
  exact h trivial

@[spec] theorem raise_spec {α : Type} (e : Err) :
    ⦃⌜True⌝⦄ (raise e : R α) ⦃((fun _ => ⌜False⌝ : α → Assertion .pure), ExceptConds.true)⦄ := by
  simp only [Triple, WP.wp, raise]
  intro _
  trivial

/-- coherence of a (partial) traversal result -/
def SInv (s : SeqOut) : Prop :=
  s.pointIds.size = s.d2c.size ∧ ∀ i (h : i < s.v2d.size), s.v2d[i] = 0 ∨ s.v2d[i] < s.d2c.size

def AnyTrue (a : Array Bool) : Prop := ∃ i, ∃ h : i < a.size, a[i] = true

theorem onNewVertex_ok (faces : Array Nat) (s : SeqOut) (v c : Nat) (hs : SInv s) (r : SeqOut)
    (h : onNewVertex faces s v c = .ok r) : SInv r ∧ 1 ≤ r.d2c.size ∧ r.v2d.size = s.v2d.size := by
  unfold onNewVertex rd wr at h
  simp only [bind, Except.bind] at h
  split at h
  · cases h
  · rename_i p hp
    split at h
    · cases h
    · rename_i v2d hv
      simp only [pure, Except.pure, Except.ok.injEq] at h
      subst h
      split at hv
      · rename_i hlt
        simp only [pure, Except.pure, Except.ok.injEq] at hv
        subst hv
        refine ⟨⟨by simp [hs.1], ?_⟩, by simp, by simp⟩
        intro i hi
        simp only [Array.size_set] at hi
        simp only [Array.getElem_set, Array.size_push]
        split
        · right; omega
        · rcases hs.2 i hi with h0 | h1
          · left; exact h0
          · right; omega
      · cases hv

@[spec] theorem onNewVertex_spec (faces : Array Nat) (s : SeqOut) (v c : Nat) (hs : SInv s) :
    ⦃⌜True⌝⦄ onNewVertex faces s v c ⦃⇓? r => ⌜SInv r ∧ 1 ≤ r.d2c.size ∧ r.v2d.size = s.v2d.size⌝⦄ :=
  R.mayThrow_of _ _ (fun r h => onNewVertex_ok faces s v c hs r h)

theorem rdB_ok {site : String} {a : Array Bool} {i : Nat} {r : Bool} (h : rdB site a i = .ok r) :
    ∃ hi : i < a.size, a[i] = r := by
  unfold rdB at h
  split at h
  · rename_i hi; refine ⟨hi, ?_⟩; simpa [pure, Except.pure] using h
  · cases h

@[spec] theorem rdB_spec (site : String) (a : Array Bool) (i : Nat) :
    ⦃⌜True⌝⦄ rdB site a i ⦃⇓? r => ⌜r = true → AnyTrue a⌝⦄ :=
  R.mayThrow_of _ _ (fun r h hr => by
    obtain ⟨hi, he⟩ := rdB_ok h
    exact ⟨i, hi, by rw [he, hr]⟩)

@[spec] theorem wrB_spec (site : String) (a : Array Bool) (i : Nat) (v : Bool) :
    ⦃⌜True⌝⦄ wrB site a i v ⦃⇓? _ => ⌜True⌝⦄ := R.mayThrow_of _ _ (fun _ _ => trivial)
@[spec] theorem rd_spec (site : String) (a : Array Nat) (i : Nat) :
    ⦃⌜True⌝⦄ rd site a i ⦃⇓? _ => ⌜True⌝⦄ := R.mayThrow_of _ _ (fun _ _ => trivial)
@[spec] theorem wr_spec (site : String) (a : Array Nat) (i v : Nat) :
    ⦃⌜True⌝⦄ wr site a i v ⦃⇓? _ => ⌜True⌝⦄ := R.mayThrow_of _ _ (fun _ _ => trivial)
@[spec] theorem vertex_spec (t : TView) (c : Nat) :
    ⦃⌜True⌝⦄ t.vertex c ⦃⇓? _ => ⌜True⌝⦄ := R.mayThrow_of _ _ (fun _ _ => trivial)
@[spec] theorem rightCorner_spec (t : TView) (c : Nat) :
    ⦃⌜True⌝⦄ t.rightCorner c ⦃⇓? _ => ⌜True⌝⦄ := R.mayThrow_of _ _ (fun _ _ => trivial)
@[spec] theorem leftCorner_spec (t : TView) (c : Nat) :
    ⦃⌜True⌝⦄ t.leftCorner c ⦃⇓? _ => ⌜True⌝⦄ := R.mayThrow_of _ _ (fun _ _ => trivial)
@[spec] theorem isOnBoundary_spec (t : TView) (c : Nat) :
    ⦃⌜True⌝⦄ t.isOnBoundary c ⦃⇓? _ => ⌜True⌝⦄ := R.mayThrow_of _ _ (fun _ _ => trivial)
@[spec] theorem faceVisited_spec (fv : Array Bool) (c : Nat) :
    ⦃⌜True⌝⦄ faceVisited fv c ⦃⇓? _ => ⌜True⌝⦄ := R.mayThrow_of _ _ (fun _ _ => trivial)

theorem anyTrue_replicate (n : Nat) : ¬ AnyTrue (Array.replicate n false) := by
  rintro ⟨i, hi, h⟩
  simp at h

/-- what the loops keep about the sequence: coherent, map size fixed, non-empty once non-empty -/
def Keeps (n : Nat) (o o' : SeqOut) : Prop :=
  SInv o' ∧ o'.v2d.size = n ∧ (1 ≤ o.d2c.size → 1 ≤ o'.d2c.size)

/-- sequence facts carried through the inner loops: coherent, map size kept, non-empty -/
def Good (o o' : SeqOut) : Prop := SInv o' ∧ o'.v2d.size = o.v2d.size ∧ 1 ≤ o'.d2c.size

/-- `visitVertex`: afterwards the sequence is non-empty, whether the vertex was new or not, provided
    every already visited vertex was recorded (`AnyTrue vv → non-empty`) -/
theorem visitVertex_spec (faces : Array Nat) (vv : Array Bool) (out : SeqOut) (v c : Nat)
    (hs : SInv out) (hvv : AnyTrue vv → 1 ≤ out.d2c.size) :
    ⦃⌜True⌝⦄ visitVertex faces vv out v c ⦃⇓? r => ⌜Good out r.2⌝⦄ := by
  mvcgen [visitVertex]
  all_goals simp_all [Good]

theorem dfInner_spec (t : TView) (faces : Array Nat) (fuel : Nat) (fv vv : Array Bool) (out : SeqOut)
    (stack : Array Nat) (cornerId faceId : Nat) (hg : Good out out) :
    ⦃⌜True⌝⦄ dfInner t faces fuel fv vv out stack cornerId faceId ⦃⇓? r => ⌜Good out r.2.2.1⌝⦄ := by
  mvcgen [dfInner]
  case inv1 => exact ⇓? ⟨_, b⟩ => ⌜Good out b.2.2.1⌝
  all_goals simp_all (config := { zetaDelta := true }) [Good]

attribute [local spec] dfInner_spec in
theorem dfStack_spec (t : TView) (faces : Array Nat) (fuel : Nat) (fv vv : Array Bool) (out : SeqOut)
    (stack : Array Nat) (hg : Good out out) :
    ⦃⌜True⌝⦄ dfStack t faces fuel fv vv out stack ⦃⇓? r => ⌜Good out r.2.2⌝⦄ := by
  mvcgen [dfStack]
  case inv1 => exact ⇓? ⟨_, b⟩ => ⌜Good out b.2.2.1⌝
  all_goals simp_all (config := { zetaDelta := true }) [Good]

/-- result of a traversal: coherent, map of size `n`, non-empty when the table has a face -/
def SeqOK (n numFaces : Nat) (r : SeqOut) : Prop :=
  SInv r ∧ r.v2d.size = n ∧ (1 ≤ numFaces → 1 ≤ r.d2c.size)

attribute [local spec] dfStack_spec visitVertex_spec in
theorem depthFirst_spec (t : TView) (faces : Array Nat) (n : Nat) :
    ⦃⌜True⌝⦄ depthFirst t faces n ⦃⇓? r => ⌜SeqOK n t.numFaces r⌝⦄ := by
  mvcgen [depthFirst]
  case inv1 => exact ⇓? ⟨xs, b⟩ => ⌜SInv b.2.2 ∧ b.2.2.v2d.size = n ∧
      ((AnyTrue b.1 ∨ AnyTrue b.2.1 ∨ xs.prefix ≠ []) → 1 ≤ b.2.2.d2c.size)⌝
  all_goals (try simp_all (config := { zetaDelta := true }) [Good, SeqOK, SInv])
  case vc24.pre => exact ⟨anyTrue_replicate _, anyTrue_replicate _⟩
  case vc25.post.success =>
    rename_i r h
    intro hnf
    apply h.2.2
    right; right
    intro he
    omega

@[spec] theorem mpPriority_spec (t : TView) (vv : Array Bool) (degree : Array Nat) (corner : Nat) :
    ⦃⌜True⌝⦄ mpPriority t vv degree corner ⦃⇓? _ => ⌜True⌝⦄ := R.mayThrow_of _ _ (fun _ _ => trivial)

/-- inside the inner loops every vertex visit happens on a non-empty sequence -/
theorem visitVertex_good (faces : Array Nat) (vv : Array Bool) (out0 out : SeqOut) (v c : Nat)
    (hg : Good out0 out) :
    ⦃⌜True⌝⦄ visitVertex faces vv out v c ⦃⇓? r => ⌜Good out0 r.2⌝⦄ := by
  mvcgen [visitVertex]
  all_goals simp_all [Good]

attribute [local spec] visitVertex_good in
theorem mpInner_spec (t : TView) (faces : Array Nat) (fuel : Nat) (fv vv : Array Bool) (out : SeqOut)
    (degree : Array Nat) (stacks : MpStacks) (cornerId : Nat) (hg : Good out out) :
    ⦃⌜True⌝⦄ mpInner t faces fuel fv vv out degree stacks cornerId ⦃⇓? r => ⌜Good out r.2.2.1⌝⦄ := by
  mvcgen [mpInner]
  case inv1 => exact ⇓? ⟨_, b⟩ => ⌜Good out b.2.2.1⌝
  all_goals simp_all (config := { zetaDelta := true }) [Good]

attribute [local spec] mpInner_spec in
theorem mpStack_spec (t : TView) (faces : Array Nat) (fuel : Nat) (fv vv : Array Bool) (out : SeqOut)
    (degree : Array Nat) (stacks : MpStacks) (hg : Good out out) :
    ⦃⌜True⌝⦄ mpStack t faces fuel fv vv out degree stacks ⦃⇓? r => ⌜Good out r.2.2.1⌝⦄ := by
  mvcgen [mpStack]
  case inv1 => exact ⇓? ⟨_, b⟩ => ⌜Good out b.2.2.1⌝
  all_goals simp_all (config := { zetaDelta := true }) [Good]

attribute [local spec] mpStack_spec visitVertex_spec in
theorem maxPredictionDegree_spec (t : TView) (faces : Array Nat) (n : Nat) :
    ⦃⌜True⌝⦄ maxPredictionDegree t faces n
    ⦃⇓? r => ⌜SInv r ∧ r.v2d.size = n ∧ (1 ≤ t.numFaces → 1 ≤ t.numVertices → 1 ≤ r.d2c.size)⌝⦄ := by
  mvcgen [maxPredictionDegree]
  case inv1 => exact ⇓? ⟨xs, b⟩ => ⌜SInv b.2.2.1 ∧ b.2.2.1.v2d.size = n ∧
      ((AnyTrue b.2.1 ∨ (xs.prefix ≠ [] ∧ 1 ≤ t.numVertices)) → 1 ≤ b.2.2.1.d2c.size)⌝
  all_goals (try simp_all (config := { zetaDelta := true }) [Good, SInv])
  case vc17.pre => exact anyTrue_replicate _
  case vc18.post.success =>
    rename_i r h
    intro h1 h2
    exact h.2.2 (Or.inr ⟨by omega, h2⟩)

@[spec] theorem opposite_spec (opp : Array Nat) (c : Nat) :
    ⦃⌜True⌝⦄ opposite opp c ⦃⇓? _ => ⌜True⌝⦄ := R.mayThrow_of _ _ (fun _ _ => trivial)
@[spec] theorem vertexB_spec (c2v : Array Nat) (c : Nat) :
    ⦃⌜True⌝⦄ vertex c2v c ⦃⇓? _ => ⌜True⌝⦄ := R.mayThrow_of _ _ (fun _ _ => trivial)
@[spec] theorem swingRight_spec (opp : Array Nat) (c : Nat) :
    ⦃⌜True⌝⦄ swingRight opp c ⦃⇓? _ => ⌜True⌝⦄ := R.mayThrow_of _ _ (fun _ _ => trivial)

theorem range_nonempty {n : Nat} {pref suff : List Nat} {cur : Nat}
    (h : [0:n].toList = pref ++ cur :: suff) : 1 ≤ n := by
  rcases Nat.eq_zero_or_pos n with h0 | h0
  · subst h0
    have := congrArg List.length h
    simp at this
  · exact h0

set_option maxHeartbeats 1000000 in
/-- `RecomputeVertices` creates attribute vertices only from existing base vertices -/
theorem buildAttConn_spec (c2vBase opp vc seamCorners : Array Nat) :
    ⦃⌜True⌝⦄ buildAttConn c2vBase opp vc seamCorners ⦃⇓? r => ⌜1 ≤ r.lm.size → 1 ≤ vc.size⌝⦄ := by
  mvcgen [buildAttConn]
  case inv1 => exact ⇓? ⟨_, _⟩ => ⌜True⌝
  case inv2 => exact ⇓? ⟨_, b⟩ => ⌜1 ≤ b.2.size → 1 ≤ vc.size⌝
  all_goals (try (exact ⇓? ⟨_, _⟩ => ⌜1 ≤ vc.size⌝))
  all_goals (try simp_all (config := { zetaDelta := true }))
  all_goals exact range_nonempty (by assumption)

theorem buildAttConn_ok (c2vBase opp vc seamCorners : Array Nat) (r : AttConn)
    (h : buildAttConn c2vBase opp vc seamCorners = .ok r) : 1 ≤ r.lm.size → 1 ≤ vc.size :=
  R.ok_of_mayThrow (buildAttConn_spec c2vBase opp vc seamCorners) r h

/-- success-path facts of both traversals as plain implications -/
theorem depthFirst_ok (t : TView) (faces : Array Nat) (n : Nat) (r : SeqOut)
    (h : depthFirst t faces n = .ok r) : SeqOK n t.numFaces r :=
  R.ok_of_mayThrow (depthFirst_spec t faces n) r h

theorem maxPredictionDegree_ok (t : TView) (faces : Array Nat) (n : Nat) (r : SeqOut)
    (h : maxPredictionDegree t faces n = .ok r) :
    SInv r ∧ r.v2d.size = n ∧ (1 ≤ t.numFaces → 1 ≤ t.numVertices → 1 ≤ r.d2c.size) :=
  R.ok_of_mayThrow (maxPredictionDegree_spec t faces n) r h

end Draco.Eb
