import DracoProofs.EbDecSimMain
import DracoProofs.EbTraceS2
/-
  THE MONADIC GLUE FOR `S` AND THE TOPOLOGY SPLIT EVENTS: the body of the symbol loop `Eb.connMain` (named by
  `decompM`, DracoProofs/EbDecSimMain.lean) on a generic state with a split-active table, invalid vertices and remaining
  split events.
-/
namespace Draco.EbEnc.DecSim
open Draco Draco.EbEnc
open Draco.Eb (inv connMain ConnMain ConnIn ConnOut Trav R decodeSymbolStd TopoSplit)
open Draco.EbEnc.ConnTri (RdS CSt forIn_list_total bind_forIn_total)
set_option linter.unusedSimpArgs false

/-- the loop state from the tables with `S`: remaining split events `splits`, number of faces `j`, symbol reader, tags -/
def mkStS (s : DSS) (splits : List TopoSplit) (j : Nat) (rd : BitReader) (tr : Trav) (tg : Nat) : CSt :=
  (s.c2v, s.opp, s.vc, s.hole, s.stack, s.splitActive, s.invalid, splits, j, rd, tr.valences, tr.ctxCnt, inv, inv,
    tr.predDec, inv, tg)

/-! ## the relabelling walk of `S` -/

/-- from `x` the walk along `next` visits the corners `w` and then reaches the invalid corner -/
def Walk (next : Nat → Nat) : Nat → List Nat → Prop
  | x, [] => x = 4294967295
  | x, y :: w => x = y ∧ y ≠ 4294967295 ∧ Walk next (next y) w

/-- a bounded `for` loop that relabels along a walk -/
theorem walk_forIn (f : Nat → Array Nat × Nat × Bool → R (ForInStep (Array Nat × Nat × Bool))) (vP : Nat) (next : Nat → Nat) :
    ∀ (w : List Nat) (c : Array Nat) (x start fuel N : Nat), c.size = N → Walk next x w → w.length < fuel →
      (∀ y, y ∈ w → ∀ i (c : Array Nat), c.size = N → f i (c, y, false) = .ok (.yield (c.setIfInBounds y vP, next y, false))) →
      (∀ i c, f i (c, 4294967295, false) = .ok (.done (c, 4294967295, true))) →
      forIn (List.range' start fuel) (c, x, false) f =
        .ok (w.foldl (fun c y => c.setIfInBounds y vP) c, 4294967295, true) := by
  intro w
  induction w with
  | nil =>
    intro c x start fuel N _ hw hlen _ hdone
    obtain ⟨fuel', rfl⟩ : ∃ k, fuel = k + 1 := ⟨fuel - 1, by simp at hlen; omega⟩
    have hx : x = 4294967295 := hw
    subst hx
    rw [List.range'_succ, List.forIn_cons, hdone]
    rfl
  | cons y w ih =>
    intro c x start fuel N hN hw hlen hstep hdone
    obtain ⟨fuel', rfl⟩ : ∃ k, fuel = k + 1 := ⟨fuel - 1, by simp at hlen; omega⟩
    obtain ⟨hx, _, hw'⟩ := hw
    subst hx
    rw [List.range'_succ, List.forIn_cons, hstep x (List.mem_cons_self ..) _ _ hN]
    show forIn (List.range' (start + 1) fuel') (c.setIfInBounds x vP, next x, false) f = _
    rw [ih _ _ _ _ N (by rw [Array.size_setIfInBounds]; exact hN) hw' (by simpa using hlen)
      (fun y hy => hstep y (List.mem_cons_of_mem _ hy)) hdone]
    rfl

/-! ## the body of the symbol loop at `S` -/

set_option maxRecDepth 100000 in
set_option maxHeartbeats 4000000 in
/-- **`TOPOLOGY_S` on a generic state**: `b` = the popped active corner, `a` = the split-active corner of this symbol or the
    next active corner; `w` = the corners the relabelling loop visits (`hw`: the swing-left walk of the updated table from
    `Next(b)` ends at the invalid corner; `hmerge`: relabelling them is the merge of the two vertices) -/
theorem body_S (nf nv ns : Nat) (evs : List TopoSplit) (tr : Trav) (hkind : tr.kind = 0) (j : Nat) (s : DSS) (splits : List TopoSplit)
    (rd : BitReader) (tg : Nat) (a b : Nat) (w : List Nat)
    (hs : (decodeSymbolStd rd).1 = 1) (hcs : 3 * j + 2 < s.c2v.size) (hos : s.opp.size = s.c2v.size) (hsz : s.c2v.size ≤ 4294967295)
    (hjs : j < s.splitActive.size)
    (hst : 0 < s.stack.size) (hb : s.stack.back! = b)
    (hA : (s.splitActive[j]! = 4294967295 ∧ 0 < s.stack.pop.size ∧ s.stack.pop.back! = a) ∨
          (s.splitActive[j]! ≠ 4294967295 ∧ s.splitActive[j]! = a))
    (hab : a ≠ b) (ha3 : a < 3 * j) (hb3 : b < 3 * j) (hna : Eb.nextC a < 3 * j) (hpa : Eb.prevC a < 3 * j)
    (hnb : Eb.nextC b < 3 * j) (hpb : Eb.prevC b < 3 * j)
    (hoa : s.opp[a]! = 4294967295) (hob : s.opp[b]! = 4294967295)
    (hvP : s.c2v[Eb.prevC a]! < s.vc.size) (hvN : s.c2v[Eb.nextC b]! < s.vc.size) (hvB : s.c2v[Eb.prevC b]! < s.vc.size)
    (hvs : s.vc.size < 4294967295)
    (hw : Walk (fun x => Eb.nextC (glue (glue s.opp a (3 * j + 2)) b (3 * j + 1))[Eb.nextC x]!) (Eb.nextC b) w)
    (hwl : w.length < 3 * nf + 1)
    (hwb : ∀ y, y ∈ w → y < s.c2v.size ∧ Eb.nextC y < s.c2v.size ∧
      Eb.nextC (glue (glue s.opp a (3 * j + 2)) b (3 * j + 1))[Eb.nextC y]! ≠ Eb.nextC b)
    (hmerge : w.foldl (fun c y => c.setIfInBounds y s.c2v[Eb.prevC a]!)
        (((s.c2v.setIfInBounds (3 * j) s.c2v[Eb.prevC a]!).setIfInBounds (3 * j + 1) s.c2v[Eb.nextC a]!).setIfInBounds (3 * j + 2)
          s.c2v[Eb.prevC b]!) =
      mergeV (((s.c2v.setIfInBounds (3 * j) s.c2v[Eb.prevC a]!).setIfInBounds (3 * j + 1) s.c2v[Eb.nextC a]!).setIfInBounds (3 * j + 2)
          s.c2v[Eb.prevC b]!) s.c2v[Eb.nextC b]! s.c2v[Eb.prevC a]!) :
    (decompM ⟨nf, nv, ns, evs, true⟩ tr).1.1 j (mkStS s splits j rd tr tg) =
      .ok (.yield (mkStS (stepS j s) splits (j + 1) (decodeSymbolStd rd).2 tr (tg ||| 2 ||| 16384))) := by
  have hne : ¬ s.stack = #[] := by intro e; rw [e] at hst; simp at hst
  have hemp : s.stack.isEmpty = false := by rw [Array.isEmpty_eq_false_iff]; exact hne
  have h0 : 3 * j < s.c2v.size := by omega
  have h1 : 3 * j + 1 < s.c2v.size := by omega
  have h0' : 3 * j < s.opp.size := by omega
  have h1' : 3 * j + 1 < s.opp.size := by omega
  have h2' : 3 * j + 2 < s.opp.size := by omega
  have ha1 : a < s.opp.size := by omega
  have hb1 : b < s.opp.size := by omega
  have ha2 : a ≠ 4294967295 := by omega
  have hb2 : b ≠ 4294967295 := by omega
  have hna1 : Eb.nextC a < s.c2v.size := by omega
  have hpa1 : Eb.prevC a < s.c2v.size := by omega
  have hnb1 : Eb.nextC b < s.c2v.size := by omega
  have hpb1 : Eb.prevC b < s.c2v.size := by omega
  have hna2 : Eb.nextC a ≠ 4294967295 := by omega
  have hpa2 : Eb.prevC a ≠ 4294967295 := by omega
  have hnb2 : Eb.nextC b ≠ 4294967295 := by omega
  have hpb2 : Eb.prevC b ≠ 4294967295 := by omega
  have e1 : ¬ 3 * j = Eb.nextC a := by omega
  have e2 : ¬ 3 * j = Eb.prevC b := by omega
  have e3 : ¬ 3 * j + 1 = Eb.prevC b := by omega
  have e4 : ¬ 3 * j = Eb.nextC b := by omega
  have e5 : ¬ 3 * j + 1 = Eb.nextC b := by omega
  have e6 : ¬ 3 * j + 2 = Eb.nextC b := by omega
  have e7 : ¬ 3 * j + 2 = a := by omega
  have e8 : ¬ 3 * j + 2 = b := by omega
  have e9 : ¬ b = a := fun e => hab e.symm
  have hvP2 : s.c2v[Eb.prevC a]! ≠ 4294967295 := by omega
  have hvN2 : s.c2v[Eb.nextC b]! ≠ 4294967295 := by omega
  have hvB2 : s.c2v[Eb.prevC b]! ≠ 4294967295 := by omega
  have hge : s.splitActive[j]! = s.splitActive[j]'hjs := getElem!_pos s.splitActive j hjs
  -- the relabelling loop
  have hloop : ∀ (F : Nat → Array Nat × Nat × Bool → R (ForInStep (Array Nat × Nat × Bool))) (c : Array Nat), c.size = s.c2v.size →
      (∀ y, y ∈ w → ∀ i (c : Array Nat), c.size = s.c2v.size → F i (c, y, false) = .ok (.yield (c.setIfInBounds y s.c2v[Eb.prevC a]!,
        Eb.nextC (glue (glue s.opp a (3 * j + 2)) b (3 * j + 1))[Eb.nextC y]!, false))) →
      (∀ i c, F i (c, 4294967295, false) = .ok (.done (c, 4294967295, true))) →
      forIn (List.range' 0 (3 * nf + 1)) (c, Eb.nextC b, false) F =
        .ok (w.foldl (fun c y => c.setIfInBounds y s.c2v[Eb.prevC a]!) c, 4294967295, true) :=
    fun F c hc h1 h2 => walk_forIn F _ _ w c _ 0 _ _ hc hw hwl h1 h2
  rcases hA with ⟨hit, hpop, hpb'⟩ | ⟨hit, hita⟩
  · have hit1 : s.splitActive[j]'hjs = 4294967295 := by rw [← hge]; exact hit
    have hpne : ¬ s.stack.pop = #[] := by intro e; rw [e] at hpop; simp at hpop
    simp [-getElem!_pos, decompM, Eb.raise, mkStS, hkind, hs, hemp, hne, hb, hit, hit1, hpne, hpb', hab, hjs, h0, h1, hcs, h0', h1', h2', ha1, hb1, ha2, hb2,
      hna1, hpa1, hnb1, hpb1, hna2, hpa2, hnb2, hpb2, hoa, hob, hvP, hvN, hvB, hvP2, hvN2, hvB2, e1, e2, e3, e4, e5, e6, e7, e8, e9,
      Trav.valence, Trav.tracksValences, ConnTri.exTopoC, ConnTri.exTopoS, ConnTri.exTopoL, ConnTri.exTopoR, ConnTri.exTopoE,
      wr_ok, wrB_ok, vertex_ok, opposite_ok, leftMost_ok, setLeftMost_ok, Eb.setOpp, gsI, inv, bind, Except.bind, pure, Except.pure,
      Std.Legacy.Range.forIn_eq_forIn_range', Std.Legacy.Range.size]
    rw [hloop]
    · rw [hmerge]
      simp [-getElem!_pos, stepS, glue, hb, hit, hpb', inv, Eb.tg_sym_S, Eb.tg_isolated_S]
    · simp
    · intro y hy i c hc
      obtain ⟨k1, k2, k3⟩ := hwb y hy
      have k0 : y < c.size := by omega
      have k4 : y ≠ 4294967295 := by omega
      have k5 : Eb.nextC y ≠ 4294967295 := by omega
      have k6 : Eb.nextC y < s.opp.size := by omega
      simp only [glue, Array.set!_eq_setIfInBounds] at k3
      simp [-getElem!_pos, k0, k1, k4, k5, k6, k3, wr_ok, Eb.swingLeft, opposite_ok, glue, bind, Except.bind, pure, Except.pure]
    · intro i c
      simp
  · have hit2 : s.splitActive[j]'hjs = a := by rw [← hge]; exact hita
    simp [-getElem!_pos, decompM, Eb.raise, mkStS, hkind, hs, hemp, hne, hb, hit2, hab, hjs, h0, h1, hcs, h0', h1', h2', ha1, hb1, ha2, hb2,
      hna1, hpa1, hnb1, hpb1, hna2, hpa2, hnb2, hpb2, hoa, hob, hvP, hvN, hvB, hvP2, hvN2, hvB2, e1, e2, e3, e4, e5, e6, e7, e8, e9,
      Trav.valence, Trav.tracksValences, ConnTri.exTopoC, ConnTri.exTopoS, ConnTri.exTopoL, ConnTri.exTopoR, ConnTri.exTopoE,
      wr_ok, wrB_ok, vertex_ok, opposite_ok, leftMost_ok, setLeftMost_ok, Eb.setOpp, gsI, inv, bind, Except.bind, pure, Except.pure,
      Std.Legacy.Range.forIn_eq_forIn_range', Std.Legacy.Range.size]
    rw [hloop]
    · rw [hmerge]
      simp [-getElem!_pos, stepS, glue, hb, hita, ha2, inv, Eb.tg_sym_S, Eb.tg_isolated_S]
    · simp
    · intro y hy i c hc
      obtain ⟨k1, k2, k3⟩ := hwb y hy
      have k0 : y < c.size := by omega
      have k4 : y ≠ 4294967295 := by omega
      have k5 : Eb.nextC y ≠ 4294967295 := by omega
      have k6 : Eb.nextC y < s.opp.size := by omega
      simp only [glue, Array.set!_eq_setIfInBounds] at k3
      simp [-getElem!_pos, k0, k1, k4, k5, k6, k3, wr_ok, Eb.swingLeft, opposite_ok, glue, bind, Except.bind, pure, Except.pure]
    · intro i c
      simp

/-! ## the `checkSplit` loop (`IsTopologySplit`) after `E / R / L` -/

/-- the effect of one event on `topology_split_active_corners` -/
def evSet (ns j : Nat) (sa : Array Nat) (ev : TopoSplit) : Array Nat :=
  sa.setIfInBounds (ns - 1 - ev.split) (if ev.edge = 1 then 3 * j + 1 else 3 * j + 2)

/-- … and on the tags (`cnt` = events already consumed at this symbol) -/
def evTag (tg cnt : Nat) (ev : TopoSplit) : Nat :=
  (if cnt = 1 then tg ||| Eb.tg_split_event ||| Eb.tg_split_two_on_one_symbol else tg ||| Eb.tg_split_event) |||
    (if ev.edge = 1 then Eb.tg_split_right_edge else Eb.tg_split_left_edge)

/-- the `checkSplit` loop as a recursion on the remaining events: consumes the head while its source is this symbol -/
def splitLoop (ns j : Nat) : List TopoSplit → Array Nat × Nat × Nat → Array Nat × List TopoSplit × Nat × Nat
  | [], (sa, tg, cnt) => (sa, [], tg, cnt)
  | ev :: rest, (sa, tg, cnt) =>
    if ev.source = ns - j - 1 then splitLoop ns j rest (evSet ns j sa ev, evTag tg cnt ev, cnt + 1)
    else (sa, ev :: rest, tg, cnt)

theorem split_forIn (F : Nat → Array Nat × List TopoSplit × Nat × Nat → R (ForInStep (Array Nat × List TopoSplit × Nat × Nat)))
    (ns j : Nat) (hnil : ∀ i sa tg cnt, F i (sa, [], tg, cnt) = .ok (.done (sa, [], tg, cnt))) :
    ∀ (l : List TopoSplit) (sa : Array Nat) (tg cnt start fuel : Nat), l.length < fuel →
      (∀ ev, ev ∈ l → ∀ i sa rest tg cnt, F i (sa, ev :: rest, tg, cnt) =
        if ev.source = ns - j - 1 then .ok (.yield (evSet ns j sa ev, rest, evTag tg cnt ev, cnt + 1))
        else .ok (.done (sa, ev :: rest, tg, cnt))) →
      forIn (List.range' start fuel) (sa, l, tg, cnt) F = .ok (splitLoop ns j l (sa, tg, cnt)) := by
  intro l
  induction l with
  | nil =>
    intro sa tg cnt start fuel hlen _
    obtain ⟨fuel', rfl⟩ : ∃ k, fuel = k + 1 := ⟨fuel - 1, by simp at hlen; omega⟩
    rw [List.range'_succ, List.forIn_cons, hnil]
    rfl
  | cons ev l ih =>
    intro sa tg cnt start fuel hlen hcons
    obtain ⟨fuel', rfl⟩ : ∃ k, fuel = k + 1 := ⟨fuel - 1, by simp at hlen; omega⟩
    rw [List.range'_succ, List.forIn_cons, hcons ev (List.mem_cons_self ..)]
    by_cases h : ev.source = ns - j - 1
    · rw [if_pos h]
      show forIn (List.range' (start + 1) fuel') (evSet ns j sa ev, l, evTag tg cnt ev, cnt + 1) F = _
      rw [ih _ _ _ _ _ (by simpa using hlen) (fun e he => hcons e (List.mem_cons_of_mem _ he))]
      simp [splitLoop, h]
    · rw [if_neg h]
      simp [splitLoop, h]
      rfl

theorem toSigned_small (x : Nat) (h : x < 2 ^ 31) : toSigned 32 x = (x : Int) := by
  unfold toSigned
  have : x % 2 ^ 32 = x := Nat.mod_eq_of_lt (by omega)
  rw [this, if_pos (by omega)]

set_option maxRecDepth 100000 in
set_option maxHeartbeats 4000000 in
/-- **`TOPOLOGY_E` with the split events**: the base tables change as in `stepE`, the `checkSplit` loop is `splitLoop` -/
theorem body_E_S (nf nv ns : Nat) (evs : List TopoSplit) (tr : Trav) (hkind : tr.kind = 0) (j : Nat) (s : DSS) (splits : List TopoSplit)
    (rd : BitReader) (tg : Nat)
    (hs : (decodeSymbolStd rd).1 = 7) (hc : 3 * j + 2 < s.c2v.size) (hv : s.vc.size + 3 ≤ nv) (hinv : s.vc.size + 2 < 4294967295)
    (hj : 3 * j + 2 < 4294967295)
    (hev : ∀ ev, ev ∈ splits → ev.source ≤ ns - j - 1 ∧ ev.split < ns ∧ ev.split < 2 ^ 31) :
    (decompM ⟨nf, nv, ns, evs, true⟩ tr).1.1 j (mkStS s splits j rd tr tg) =
      .ok (.yield (mkStS { s.withBase (stepE j s.base) with splitActive := (splitLoop ns j splits (s.splitActive, tg ||| 16, 0)).1 }
        (splitLoop ns j splits (s.splitActive, tg ||| 16, 0)).2.1 (j + 1) (decodeSymbolStd rd).2 tr
        (splitLoop ns j splits (s.splitActive, tg ||| 16, 0)).2.2.1)) := by
  have h0 : 3 * j < s.c2v.size := by omega
  have h1 : 3 * j + 1 < s.c2v.size := by omega
  have h3 : ¬ (nv < s.vc.size + 1 + 1 + 1) := by omega
  have h4 : s.vc.size ≠ 4294967295 := by omega
  have h5 : s.vc.size + 1 ≠ 4294967295 := by omega
  have h6 : s.vc.size + 2 ≠ 4294967295 := by omega
  simp [decompM, Eb.raise, mkStS, hkind, hs, h0, h1, hc, h3, h4, h5, h6, Trav.valence, Trav.tracksValences, ConnTri.exTopoC, ConnTri.exTopoS, ConnTri.exTopoL, ConnTri.exTopoR, ConnTri.exTopoE,
    wr_ok, inv, bind, Except.bind, pure, Except.pure,
    Std.Legacy.Range.forIn_eq_forIn_range', Std.Legacy.Range.size]
  rw [setLeftMost_ok _ _ _ h4 (by simp only [Array.size_push]; omega)]; dsimp only
  rw [setLeftMost_ok _ _ _ h5 (by simp only [Array.size_push, Array.size_setIfInBounds]; omega)]; dsimp only
  rw [setLeftMost_ok _ _ _ h6 (by simp only [Array.size_push, Array.size_setIfInBounds]; omega)]; dsimp only
  rw [push3_set, split_forIn _ ns j ?_ splits _ _ _ _ _ (Nat.lt_succ_self _) ?_]
  · simp [DSS.withBase, DSS.base, stepE, Eb.tg_sym_E]
  · intro i sa tg cnt
    rfl
  · intro ev hev' i sa rest tg cnt
    obtain ⟨k1, k2, k3⟩ := hev ev hev'
    have k4 : ¬ (ns - j - 1 < ev.source) := by omega
    have k5 := toSigned_small ev.split k3
    have k6 : (1 : Int) ≤ (ns : Int) - (ev.split : Int) ∧ (ns : Int) - (ev.split : Int) - 1 < (ns : Int) := by omega
    have k7 : ((ns : Int) - (ev.split : Int)).toNat - 1 = ns - 1 - ev.split := by omega
    have k8 : ¬ ((ev.split : Int) < 0) := by omega
    simp only [k4, k5, k6, k7, k8, if_false, if_true, and_self, nx0 j (by unfold inv; omega), pv0 j (by unfold inv; omega), evSet, evTag]
    by_cases h : ev.source = ns - j - 1
    · rw [if_pos h, if_pos h]
      by_cases hc1 : cnt = 1
      · rw [if_pos hc1, if_pos hc1]
      · rw [if_neg hc1, if_neg hc1]
    · rw [if_neg h, if_neg h]

theorem back_setI (a : Array Nat) (x : Nat) (h : 0 < a.size) : (a.setIfInBounds (a.size - 1) x).back! = x := by
  have := back!_set a x h
  simpa [Array.set!_eq_setIfInBounds] using this

set_option maxRecDepth 100000 in
set_option maxHeartbeats 4000000 in
theorem body_R_S (nf nv ns : Nat) (evs : List TopoSplit) (tr : Trav) (hkind : tr.kind = 0) (j : Nat) (s : DSS) (splits : List TopoSplit) (rd : BitReader) (tg : Nat)
    (hj : 3 * j + 2 < 4294967295) (hev : ∀ ev, ev ∈ splits → ev.source ≤ ns - j - 1 ∧ ev.split < ns ∧ ev.split < 2 ^ 31)
    (hs : (decodeSymbolStd rd).1 = 5) (hc : 3 * j + 2 < s.c2v.size) (ho : s.opp.size = s.c2v.size) (hsz : s.c2v.size ≤ 4294967295)
    (hv : s.vc.size + 1 ≤ nv) (hinv : s.vc.size < 4294967295)
    (hst : 0 < s.stack.size) (ha : s.stack.back! < 3 * j) (hna : Eb.nextC s.stack.back! < 3 * j) (hpa : Eb.prevC s.stack.back! < 3 * j)
    (hoa : s.opp[s.stack.back!]! = 4294967295) (hvr : s.c2v[Eb.prevC s.stack.back!]! < s.vc.size) :
    (decompM ⟨nf, nv, ns, evs, true⟩ tr).1.1 j (mkStS s splits j rd tr tg) =
      .ok (.yield (mkStS { s.withBase (stepR j s.base) with splitActive := (splitLoop ns j splits (s.splitActive, tg ||| 8, 0)).1 }
        (splitLoop ns j splits (s.splitActive, tg ||| 8, 0)).2.1 (j + 1) (decodeSymbolStd rd).2 tr
        (splitLoop ns j splits (s.splitActive, tg ||| 8, 0)).2.2.1)) := by
  have h0 : 3 * j < s.c2v.size := by omega
  have h1 : 3 * j + 1 < s.c2v.size := by omega
  have h0' : 3 * j < s.opp.size := by omega
  have h2' : 3 * j + 2 < s.opp.size := by omega
  have ha' : s.stack.back! < s.opp.size := by omega
  have hai : s.stack.back! ≠ 4294967295 := by omega
  have hnai : Eb.nextC s.stack.back! ≠ 4294967295 := by omega
  have hpai : Eb.prevC s.stack.back! ≠ 4294967295 := by omega
  have hna' : Eb.nextC s.stack.back! < s.c2v.size := by omega
  have hpa' : Eb.prevC s.stack.back! < s.c2v.size := by omega
  have e1 : ¬ 3 * j + 2 = Eb.prevC s.stack.back! := by omega
  have e2 : ¬ 3 * j + 2 = Eb.nextC s.stack.back! := by omega
  have e3 : ¬ 3 * j = Eb.nextC s.stack.back! := by omega
  have e4 : ¬ 3 * j = Eb.prevC s.stack.back! := by omega
  have h3 : ¬ (nv < s.vc.size + 1) := by omega
  have hemp : s.stack.isEmpty = false := by
    rw [Array.isEmpty_eq_false_iff]; intro e; rw [e] at hst; simp at hst
  have hvri : s.c2v[Eb.prevC s.stack.back!]! ≠ 4294967295 := by omega
  have hinv' : s.vc.size ≠ 4294967295 := by omega
  have hne : ¬ s.stack = #[] := by intro e; rw [e] at hst; simp at hst
  have hoa2 : s.opp[s.stack.back!]'ha' = 4294967295 := by rw [← hoa, getElem!_pos s.opp _ ha']
  have hvr2 : s.c2v[Eb.prevC s.stack.back!]'hpa' < s.vc.size + 1 := by
    have : s.c2v[Eb.prevC s.stack.back!]! = s.c2v[Eb.prevC s.stack.back!]'hpa' := getElem!_pos s.c2v _ hpa'
    omega
  have hvri2 : ¬ s.c2v[Eb.prevC s.stack.back!]'hpa' = 4294967295 := by
    have : s.c2v[Eb.prevC s.stack.back!]! = s.c2v[Eb.prevC s.stack.back!]'hpa' := getElem!_pos s.c2v _ hpa'
    omega
  simp [decompM, Eb.raise, mkStS, back_setI _ _ hst, hkind, hs, h0, h1, hc, h0', h2', ha', h3, hemp, hoa, Trav.valence, Trav.tracksValences, ConnTri.exTopoC, ConnTri.exTopoS, ConnTri.exTopoL, ConnTri.exTopoR, ConnTri.exTopoE,
    wr_ok, vertex_ok, opposite_ok, setLeftMost_ok, hne, hoa2, hvr2, hvri2, hinv', hai, hnai, hpai, hna', hpa', Eb.setOpp, gsI, e1, e2, e3, e4, inv, bind, Except.bind, pure, Except.pure,
    Std.Legacy.Range.forIn_eq_forIn_range', Std.Legacy.Range.size]
  rw [split_forIn _ ns j ?_ splits _ _ _ _ _ (Nat.lt_succ_self _) ?_]
  · simp [DSS.withBase, DSS.base, stepR, glue, push_set, Eb.tg_sym_R, Eb.tg_sym_L, hna', hpa']
  · intro i sa tg cnt
    rfl
  · intro ev hev' i sa rest tg cnt
    obtain ⟨k1, k2, k3⟩ := hev ev hev'
    have k4 : ¬ (ns - j - 1 < ev.source) := by omega
    have k5 := toSigned_small ev.split k3
    have k6 : (1 : Int) ≤ (ns : Int) - (ev.split : Int) ∧ (ns : Int) - (ev.split : Int) - 1 < (ns : Int) := by omega
    have k7 : ((ns : Int) - (ev.split : Int)).toNat - 1 = ns - 1 - ev.split := by omega
    have k8 : ¬ ((ev.split : Int) < 0) := by omega
    simp only [k4, k5, k6, k7, k8, if_false, if_true, and_self, nx0 j (by unfold inv; omega), pv0 j (by unfold inv; omega), evSet, evTag]
    by_cases h : ev.source = ns - j - 1
    · rw [if_pos h, if_pos h]
      by_cases hc1 : cnt = 1
      · rw [if_pos hc1, if_pos hc1]
      · rw [if_neg hc1, if_neg hc1]
    · rw [if_neg h, if_neg h]


set_option maxRecDepth 100000 in
set_option maxHeartbeats 4000000 in
theorem body_L_S (nf nv ns : Nat) (evs : List TopoSplit) (tr : Trav) (hkind : tr.kind = 0) (j : Nat) (s : DSS) (splits : List TopoSplit) (rd : BitReader) (tg : Nat)
    (hj : 3 * j + 2 < 4294967295) (hev : ∀ ev, ev ∈ splits → ev.source ≤ ns - j - 1 ∧ ev.split < ns ∧ ev.split < 2 ^ 31)
    (hs : (decodeSymbolStd rd).1 = 3) (hc : 3 * j + 2 < s.c2v.size) (ho : s.opp.size = s.c2v.size) (hsz : s.c2v.size ≤ 4294967295)
    (hv : s.vc.size + 1 ≤ nv) (hinv : s.vc.size < 4294967295)
    (hst : 0 < s.stack.size) (ha : s.stack.back! < 3 * j) (hna : Eb.nextC s.stack.back! < 3 * j) (hpa : Eb.prevC s.stack.back! < 3 * j)
    (hoa : s.opp[s.stack.back!]! = 4294967295) (hvr : s.c2v[Eb.prevC s.stack.back!]! < s.vc.size) :
    (decompM ⟨nf, nv, ns, evs, true⟩ tr).1.1 j (mkStS s splits j rd tr tg) =
      .ok (.yield (mkStS { s.withBase (stepL j s.base) with splitActive := (splitLoop ns j splits (s.splitActive, tg ||| 4, 0)).1 }
        (splitLoop ns j splits (s.splitActive, tg ||| 4, 0)).2.1 (j + 1) (decodeSymbolStd rd).2 tr
        (splitLoop ns j splits (s.splitActive, tg ||| 4, 0)).2.2.1)) := by
  have h0 : 3 * j < s.c2v.size := by omega
  have h1 : 3 * j + 1 < s.c2v.size := by omega
  have h0' : 3 * j < s.opp.size := by omega
  have h2' : 3 * j + 2 < s.opp.size := by omega
  have h1' : 3 * j + 1 < s.opp.size := by omega
  have ha' : s.stack.back! < s.opp.size := by omega
  have hai : s.stack.back! ≠ 4294967295 := by omega
  have hnai : Eb.nextC s.stack.back! ≠ 4294967295 := by omega
  have hpai : Eb.prevC s.stack.back! ≠ 4294967295 := by omega
  have hna' : Eb.nextC s.stack.back! < s.c2v.size := by omega
  have hpa' : Eb.prevC s.stack.back! < s.c2v.size := by omega
  have e1 : ¬ 3 * j + 2 = Eb.prevC s.stack.back! := by omega
  have e2 : ¬ 3 * j + 2 = Eb.nextC s.stack.back! := by omega
  have e3 : ¬ 3 * j = Eb.nextC s.stack.back! := by omega
  have e4 : ¬ 3 * j = Eb.prevC s.stack.back! := by omega
  have e5 : ¬ 3 * j + 1 = Eb.prevC s.stack.back! := by omega
  have e6 : ¬ 3 * j + 1 = Eb.nextC s.stack.back! := by omega
  have h3 : ¬ (nv < s.vc.size + 1) := by omega
  have hemp : s.stack.isEmpty = false := by
    rw [Array.isEmpty_eq_false_iff]; intro e; rw [e] at hst; simp at hst
  have hvri : s.c2v[Eb.prevC s.stack.back!]! ≠ 4294967295 := by omega
  have hinv' : s.vc.size ≠ 4294967295 := by omega
  have hne : ¬ s.stack = #[] := by intro e; rw [e] at hst; simp at hst
  have hoa2 : s.opp[s.stack.back!]'ha' = 4294967295 := by rw [← hoa, getElem!_pos s.opp _ ha']
  have hvr2 : s.c2v[Eb.prevC s.stack.back!]'hpa' < s.vc.size + 1 := by
    have : s.c2v[Eb.prevC s.stack.back!]! = s.c2v[Eb.prevC s.stack.back!]'hpa' := getElem!_pos s.c2v _ hpa'
    omega
  have hvri2 : ¬ s.c2v[Eb.prevC s.stack.back!]'hpa' = 4294967295 := by
    have : s.c2v[Eb.prevC s.stack.back!]! = s.c2v[Eb.prevC s.stack.back!]'hpa' := getElem!_pos s.c2v _ hpa'
    omega
  simp [decompM, Eb.raise, mkStS, back_setI _ _ hst, hkind, hs, h0, h1, hc, h0', h1', h2', ha', h3, hemp, hoa, Trav.valence, Trav.tracksValences, ConnTri.exTopoC, ConnTri.exTopoS, ConnTri.exTopoL, ConnTri.exTopoR, ConnTri.exTopoE,
    wr_ok, vertex_ok, opposite_ok, setLeftMost_ok, hne, hoa2, hvr2, hvri2, hinv', hai, hnai, hpai, hna', hpa', Eb.setOpp, gsI, e1, e2, e3, e4, e5, e6, inv, bind, Except.bind, pure, Except.pure,
    Std.Legacy.Range.forIn_eq_forIn_range', Std.Legacy.Range.size]
  rw [split_forIn _ ns j ?_ splits _ _ _ _ _ (Nat.lt_succ_self _) ?_]
  · simp [DSS.withBase, DSS.base, stepL, glue, push_set, Eb.tg_sym_R, Eb.tg_sym_L, hna', hpa']
  · intro i sa tg cnt
    rfl
  · intro ev hev' i sa rest tg cnt
    obtain ⟨k1, k2, k3⟩ := hev ev hev'
    have k4 : ¬ (ns - j - 1 < ev.source) := by omega
    have k5 := toSigned_small ev.split k3
    have k6 : (1 : Int) ≤ (ns : Int) - (ev.split : Int) ∧ (ns : Int) - (ev.split : Int) - 1 < (ns : Int) := by omega
    have k7 : ((ns : Int) - (ev.split : Int)).toNat - 1 = ns - 1 - ev.split := by omega
    have k8 : ¬ ((ev.split : Int) < 0) := by omega
    simp only [k4, k5, k6, k7, k8, if_false, if_true, and_self, nx0 j (by unfold inv; omega), pv0 j (by unfold inv; omega), evSet, evTag]
    by_cases h : ev.source = ns - j - 1
    · rw [if_pos h, if_pos h]
      by_cases hc1 : cnt = 1
      · rw [if_pos hc1, if_pos hc1]
      · rw [if_neg hc1, if_neg hc1]
    · rw [if_neg h, if_neg h]


set_option maxRecDepth 100000 in
set_option maxHeartbeats 4000000 in
theorem body_C_S (nf nv ns : Nat) (evs : List TopoSplit) (tr : Trav) (hkind : tr.kind = 0) (j : Nat) (s0 : DS) (sa inval : Array Nat) (splits : List TopoSplit) (rd : BitReader) (tg : Nat)
    (hs : (decodeSymbolStd rd).1 = 0) (hc : 3 * j + 2 < s0.c2v.size) (ho : s0.opp.size = s0.c2v.size) (hsz : s0.c2v.size ≤ 4294967295)
    (hst : 0 < s0.stack.size) (ha : s0.stack.back! < 3 * j) (hna : Eb.nextC s0.stack.back! < 3 * j) (hpa : Eb.prevC s0.stack.back! < 3 * j)
    (hx : s0.c2v[Eb.nextC s0.stack.back!]! < s0.vc.size) (hxh : s0.c2v[Eb.nextC s0.stack.back!]! < s0.hole.size)
    (hb : cornerB s0 < 3 * j) (hnb : Eb.nextC (cornerB s0) < 3 * j) (hab : s0.stack.back! ≠ cornerB s0)
    (hoa : s0.opp[s0.stack.back!]! = 4294967295) (hob : s0.opp[cornerB s0]! = 4294967295)
    (hvr : s0.c2v[Eb.prevC s0.stack.back!]! < s0.vc.size) (hvinv : s0.vc.size ≤ 4294967295)
    (hx1 : s0.c2v[Eb.nextC s0.stack.back!]! ≠ s0.c2v[Eb.prevC s0.stack.back!]!)
    (hx2 : s0.c2v[Eb.nextC s0.stack.back!]! ≠ s0.c2v[Eb.nextC (cornerB s0)]!) :
    (decompM ⟨nf, nv, ns, evs, true⟩ tr).1.1 j (mkStS ⟨s0.c2v, s0.opp, s0.vc, s0.hole, s0.stack, sa, inval⟩ splits j rd tr tg) =
      .ok (.yield (mkStS ⟨(stepC j s0).c2v, (stepC j s0).opp, (stepC j s0).vc, (stepC j s0).hole, (stepC j s0).stack, sa, inval⟩
        splits (j + 1) (decodeSymbolStd rd).2 tr (tg ||| 1))) := by
  simp only [cornerB] at hb hnb hab hob hx2
  have h0 : 3 * j < s0.c2v.size := by omega
  have h1 : 3 * j + 1 < s0.c2v.size := by omega
  have h0' : 3 * j < s0.opp.size := by omega
  have h1' : 3 * j + 1 < s0.opp.size := by omega
  have h2' : 3 * j + 2 < s0.opp.size := by omega
  have ha' : s0.stack.back! < s0.opp.size := by omega
  have hb' : Eb.nextC s0.vc[s0.c2v[Eb.nextC s0.stack.back!]!]! < s0.opp.size := by omega
  have hai : s0.stack.back! ≠ 4294967295 := by omega
  have hnai : Eb.nextC s0.stack.back! ≠ 4294967295 := by omega
  have hpai : Eb.prevC s0.stack.back! ≠ 4294967295 := by omega
  have hbi : Eb.nextC s0.vc[s0.c2v[Eb.nextC s0.stack.back!]!]! ≠ 4294967295 := by omega
  have hnbi : Eb.nextC (Eb.nextC s0.vc[s0.c2v[Eb.nextC s0.stack.back!]!]!) ≠ 4294967295 := by omega
  have hna' : Eb.nextC s0.stack.back! < s0.c2v.size := by omega
  have hpa' : Eb.prevC s0.stack.back! < s0.c2v.size := by omega
  have hnb' : Eb.nextC (Eb.nextC s0.vc[s0.c2v[Eb.nextC s0.stack.back!]!]!) < s0.c2v.size := by omega
  have hne : ¬ s0.stack = #[] := by intro e; rw [e] at hst; simp at hst
  have hvri : s0.c2v[Eb.prevC s0.stack.back!]! ≠ 4294967295 := by omega
  have e1 : ¬ 3 * j + 1 = s0.stack.back! := by omega
  have e2 : ¬ 3 * j + 1 = Eb.nextC s0.vc[s0.c2v[Eb.nextC s0.stack.back!]!]! := by omega
  have e3 : ¬ s0.stack.back! = Eb.nextC s0.vc[s0.c2v[Eb.nextC s0.stack.back!]!]! := hab
  simp [-getElem!_pos, decompM, Eb.raise, mkStS, hkind, hs, h0, h1, hc, h0', h1', h2', ha', hb', hne, hoa, hob, hx, hxh, hvr, hvri, hab, hx1, hx2, Trav.valence, Trav.tracksValences,
    ConnTri.exTopoC, ConnTri.exTopoS, ConnTri.exTopoL, ConnTri.exTopoR, ConnTri.exTopoE,
    wr_ok, wrB_ok, vertex_ok, opposite_ok, leftMost_ok, setLeftMost_ok, hai, hnai, hpai, hbi, hnbi, hna', hpa', hnb', Eb.setOpp, gsI, e1, e2, e3, inv, bind, Except.bind, pure, Except.pure,
    Std.Legacy.Range.forIn_eq_forIn_range', Std.Legacy.Range.size, List.range'_succ, stepC, glue, cornerB]
  rfl

end Draco.EbEnc.DecSim
