import DracoModel.SeqDecoder
import DracoModel.SymbolLegacy
/-
  Every reader of the model returns a suffix of its input: the decoder only moves forward in the
  caller's bytes and never looks at or changes anything else (C02: the input is not modified;
  C18: the remaining size that the plausibility guards compare with never exceeds the stream length).
-/
namespace Draco.Robust
open Draco

/-- a reader that returns a suffix of its input -/
def SufRd {α} (r : Rd α) : Prop := ∀ bs a rest, r bs = some (a, rest) → rest <:+ bs

theorem suf_drop (n : Nat) (bs : Bytes) : bs.drop n <:+ bs := List.drop_suffix n bs

theorem readU8_suf : SufRd readU8 := by
  intro bs a rest h
  cases bs with
  | nil => simp [readU8] at h
  | cons b t => simp only [readU8, Option.some.injEq, Prod.mk.injEq] at h; rw [← h.2]; exact List.suffix_cons b t

theorem readBytes_suf (n : Nat) : SufRd (readBytes n) := by
  intro bs a rest h
  unfold readBytes at h
  split at h
  · cases h
  · cases h; exact suf_drop n bs

theorem readLE_suf (n : Nat) : SufRd (readLE n) := by
  intro bs a rest h
  unfold readLE at h
  split at h
  · cases h
  · rename_i v r hr; cases h; exact readBytes_suf n bs v _ hr

theorem decVarintAux_suf (w : Nat) : ∀ (d : Nat), SufRd (decVarintAux w d) := by
  intro d
  induction d with
  | zero => intro bs a rest h; simp [decVarintAux] at h
  | succ d ih =>
    intro bs a rest h
    cases bs with
    | nil => simp [decVarintAux] at h
    | cons byte t =>
      simp only [decVarintAux] at h
      split at h
      · split at h
        · cases h
        · rename_i v r hr
          cases h
          exact (ih t v _ hr).trans (List.suffix_cons byte t)
      · cases h; exact List.suffix_cons _ _

theorem decVarint_suf (w : Nat) : SufRd (decVarint w) := decVarintAux_suf w _

/-! ### symbol decoding -/

theorem decTableGo_suf : ∀ (fuel remaining : Nat) (acc : List Nat), SufRd (decTableGo fuel remaining acc) := by
  intro fuel
  induction fuel with
  | zero => intro remaining acc bs a rest h; simp only [decTableGo] at h; cases h; exact List.suffix_refl _
  | succ f ih =>
    intro remaining acc bs a rest h
    simp only [decTableGo] at h
    split at h
    · cases h; exact List.suffix_refl _
    · split at h
      · cases h
      · rename_i b bs1
        split at h
        · split at h
          · cases h
          · exact (ih _ _ _ _ _ h).trans (List.suffix_cons b bs1)
        · split at h
          · exact (ih _ _ _ _ _ h).trans (List.suffix_cons b bs1)
          · split at h
            · split at h
              · rename_i e0 bs2
                exact (ih _ _ _ _ _ h).trans ((List.suffix_cons e0 bs2).trans (List.suffix_cons b _))
              · cases h
            · split at h
              · rename_i e0 e1 bs3
                exact (ih _ _ _ _ _ h).trans
                  ((List.suffix_cons e1 bs3).trans ((List.suffix_cons e0 _).trans (List.suffix_cons b _)))
              · cases h

theorem decodeTable_suf : SufRd decodeTable := by
  intro bs a rest h
  unfold decodeTable at h
  split at h
  · cases h
  · rename_i n r hn
    split at h
    · cases h
    · exact (decTableGo_suf _ _ _ _ _ _ h).trans (decVarint_suf 32 _ _ _ hn)

theorem ransSymbolDecoderCreate_suf (pb : Nat) : SufRd (ransSymbolDecoderCreate pb) := by
  intro bs a rest h
  unfold ransSymbolDecoderCreate at h
  split at h
  · cases h
  · rename_i probs r hp
    split at h
    · cases h; exact decodeTable_suf _ _ _ hp
    · split at h
      · cases h
      · cases h; exact decodeTable_suf _ _ _ hp

theorem ransStartDecoding_suf (pb : Nat) (before : Bytes) : SufRd (ransStartDecoding pb before) := by
  intro bs a rest h
  unfold ransStartDecoding at h
  split at h
  · cases h
  · rename_i len r hl
    split at h
    · cases h
    · split at h
      · cases h
      · cases h; exact (suf_drop _ _).trans (decVarint_suf 64 _ _ _ hl)

theorem decodeSymbols_suf (nv nc : Nat) : SufRd (decodeSymbols nv nc) := by
  intro bs a rest h
  unfold decodeSymbols at h
  split at h
  · cases h; exact List.suffix_refl _
  · split at h
    · cases h
    · rename_i scheme rest0
      have h0 : rest0 <:+ scheme :: rest0 := List.suffix_cons _ _
      split at h
      · unfold decodeTaggedSymbols at h
        split at h
        · cases h
        · rename_i t r1 hc
          split at h
          · cases h
          · rename_i st r2 hs
            split at h
            · cases h
            · split at h
              · cases h
              · dsimp only at h
                split at h
                · cases h
                · cases h
                  exact (suf_drop _ _).trans ((ransStartDecoding_suf _ _ _ _ _ hs).trans
                    ((ransSymbolDecoderCreate_suf _ _ _ _ hc).trans h0))
      · split at h
        · unfold decodeRawSymbols at h
          split at h
          · cases h
          · rename_i b r0
            split at h
            · unfold decodeRawSymbolsInternal at h
              dsimp only at h
              split at h
              · cases h
              · rename_i t r1 hc
                split at h
                · cases h
                · unfold decodeRans at h
                  split at h
                  · cases h
                  · rename_i st r2 hs
                    cases h
                    exact (ransStartDecoding_suf _ _ _ _ _ hs).trans
                      ((ransSymbolDecoderCreate_suf _ _ _ _ hc).trans ((List.suffix_cons b r0).trans h0))
            · cases h
        · cases h

/-! ### symbol decoding of every bitstream version, transform data -/

theorem decodeTableV_suf (legacy : Bool) : SufRd (decodeTableV legacy) := by
  intro bs a rest h
  unfold decodeTableV at h
  split at h
  · exact decodeTable_suf _ _ _ h
  split at h
  · cases h
  · rename_i n r hn
    split at h
    · cases h
    · exact (decTableGo_suf _ _ _ _ _ _ h).trans (readLE_suf 4 _ _ _ hn)

theorem ransSymbolDecoderCreateV_suf (legacy : Bool) (pb : Nat) : SufRd (ransSymbolDecoderCreateV legacy pb) := by
  intro bs a rest h
  unfold ransSymbolDecoderCreateV at h
  split at h
  · cases h
  · rename_i probs r hp
    split at h
    · cases h; exact decodeTableV_suf legacy _ _ _ hp
    · split at h
      · cases h
      · cases h; exact decodeTableV_suf legacy _ _ _ hp

theorem ransStartDecodingV_suf (legacy : Bool) (pb : Nat) (before : Bytes) : SufRd (ransStartDecodingV legacy pb before) := by
  intro bs a rest h
  unfold ransStartDecodingV at h
  split at h
  · exact ransStartDecoding_suf _ _ _ _ _ h
  split at h
  · cases h
  · rename_i len r hl
    split at h
    · cases h
    · split at h
      · cases h
      · cases h; exact (suf_drop _ _).trans (readLE_suf 8 _ _ _ hl)

theorem decodeSymbolsV_suf (legacy : Bool) (nv nc : Nat) : SufRd (decodeSymbolsV legacy nv nc) := by
  intro bs a rest h
  unfold decodeSymbolsV at h
  split at h
  · exact decodeSymbols_suf nv nc _ _ _ h
  split at h
  · cases h; exact List.suffix_refl _
  · split at h
    · cases h
    · rename_i scheme rest0
      have h0 : rest0 <:+ scheme :: rest0 := List.suffix_cons _ _
      split at h
      · unfold decodeTaggedSymbolsV at h
        split at h
        · cases h
        · rename_i t r1 hc
          split at h
          · cases h
          · rename_i st r2 hs
            split at h
            · cases h
            · split at h
              · cases h
              · dsimp only at h
                split at h
                · cases h
                · cases h
                  exact (suf_drop _ _).trans ((ransStartDecodingV_suf _ _ _ _ _ _ hs).trans
                    ((ransSymbolDecoderCreateV_suf _ _ _ _ _ hc).trans h0))
      · split at h
        · unfold decodeRawSymbolsV at h
          split at h
          · cases h
          · rename_i b r0
            split at h
            · dsimp only at h
              split at h
              · cases h
              · rename_i t r1 hc
                split at h
                · cases h
                · split at h
                  · cases h
                  · rename_i st r2 hs
                    cases h
                    exact (ransStartDecodingV_suf _ _ _ _ _ _ hs).trans
                      ((ransSymbolDecoderCreateV_suf _ _ _ _ _ hc).trans ((List.suffix_cons b r0).trans h0))
            · cases h
        · cases h

theorem wrap_decodeTransformData_suf : SufRd Wrap.decodeTransformData := by
  intro bs a rest h
  unfold Wrap.decodeTransformData at h
  split at h
  · cases h
  · rename_i x r1 h1
    split at h
    · cases h
    · rename_i y r2 h2
      dsimp only at h
      split at h
      · cases h
      · split at h
        · cases h
        · cases h; exact (readLE_suf 4 _ _ _ h2).trans (readLE_suf 4 _ _ _ h1)

theorem octa_decodeTransformData_suf : SufRd Octa.decodeTransformData := by
  intro bs a rest h
  unfold Octa.decodeTransformData at h
  split at h
  · cases h
  · rename_i x r1 h1
    split at h
    · cases h
    · rename_i y r2 h2
      split at h
      · cases h
      · cases h; exact (readLE_suf 4 _ _ _ h2).trans (readLE_suf 4 _ _ _ h1)

theorem octa_legacyDecodeTransformData_suf (pre22 : Bool) : SufRd (Octa.legacyDecodeTransformData pre22) := by
  intro bs a rest h
  unfold Octa.legacyDecodeTransformData at h
  split at h
  · cases h
  · rename_i x r1 h1
    dsimp only at h
    have key : ∀ r2, (if pre22 = true then (match readLE 4 r1 with | none => none | some (_, r) => some r) else some r1) = some r2 →
        r2 <:+ r1 := by
      intro r2 hr
      split at hr
      · split at hr
        · cases hr
        · rename_i y r h2; cases hr; exact readLE_suf 4 _ _ _ h2
      · cases hr; exact List.suffix_refl _
    split at h
    · cases h
    · rename_i r2 hr2
      split at h
      · cases h
      · cases h; exact (key _ hr2).trans (readLE_suf 4 _ _ _ h1)

/-! ### metadata -/

theorem decodeName_suf : SufRd decodeName := by
  intro bs a rest h
  unfold decodeName at h
  split at h
  · cases h
  · rename_i len bs1 hl
    have h1 := readU8_suf _ _ _ hl
    split at h
    · cases h; exact h1
    · exact (readBytes_suf _ _ _ _ h).trans h1

theorem decodeEntry_suf (ae : Bool) : SufRd (decodeEntry ae) := by
  intro bs a rest h
  unfold decodeEntry at h
  split at h
  · cases h
  · rename_i name bs1 hn
    split at h
    · cases h
    · rename_i ds bs2 hv
      split at h
      · cases h
      · split at h
        · cases h
        · split at h
          · cases h
          · rename_i value bs3 hb
            cases h
            exact (readBytes_suf _ _ _ _ hb).trans ((decVarint_suf 32 _ _ _ hv).trans (decodeName_suf _ _ _ hn))

theorem decodeEntries_suf (ae : Bool) : ∀ (n : Nat) (acc : List (Bytes × Bytes)), SufRd (decodeEntries ae n acc) := by
  intro n
  induction n with
  | zero => intro acc bs a rest h; simp only [decodeEntries] at h; cases h; exact List.suffix_refl _
  | succ n ih =>
    intro acc bs a rest h
    simp only [decodeEntries] at h
    split at h
    · cases h
    · rename_i name value bs1 he
      exact (ih _ _ _ _ h).trans (decodeEntry_suf ae _ _ _ he)

theorem decodeSubsWith_suf (child : Rd Metadata) (hc : SufRd child) :
    ∀ (k : Nat) (acc : List (Bytes × Metadata)), SufRd (decodeSubsWith child k acc) := by
  intro k
  induction k with
  | zero => intro acc bs a rest h; simp only [decodeSubsWith] at h; cases h; exact List.suffix_refl _
  | succ k ih =>
    intro acc bs a rest h
    simp only [decodeSubsWith] at h
    split at h
    · cases h
    · rename_i name bs1 hn
      split at h
      · cases h
      · rename_i m bs2 hm
        split at h
        · cases h
        · exact (ih _ _ _ _ h).trans ((hc _ _ _ hm).trans (decodeName_suf _ _ _ hn))

theorem decodeNode_suf (ae : Bool) : ∀ (f : Nat) (hp : Bool) (lvl : Nat), SufRd (decodeNode ae f hp lvl) := by
  intro f
  induction f with
  | zero => intro hp lvl bs a rest h; simp [decodeNode] at h
  | succ f ih =>
    intro hp lvl bs a rest h
    simp only [decodeNode] at h
    split at h
    · cases h
    · rename_i ne bs1 h1
      split at h
      · cases h
      · rename_i es bs2 h2
        split at h
        · cases h
        · rename_i ns bs3 h3
          split at h
          · cases h
          · have hpre : bs3 <:+ bs :=
              (decVarint_suf 32 _ _ _ h3).trans ((decodeEntries_suf ae _ _ _ _ _ h2).trans (decVarint_suf 32 _ _ _ h1))
            repeat' split at h
            all_goals first
              | (cases h; done)
              | (rename_i ss bs4 h4
                 cases h
                 exact (decodeSubsWith_suf _ (ih _ _) _ _ _ _ _ h4).trans hpre)

theorem decodeAtts_suf (node : Rd Metadata) (hn : SufRd node) :
    ∀ (n : Nat) (acc : List (Nat × Metadata)), SufRd (decodeAtts node n acc) := by
  intro n
  induction n with
  | zero => intro acc bs a rest h; simp only [decodeAtts] at h; cases h; exact List.suffix_refl _
  | succ n ih =>
    intro acc bs a rest h
    simp only [decodeAtts] at h
    split at h
    · cases h
    · rename_i id bs1 h1
      split at h
      · cases h
      · rename_i m bs2 h2
        exact (ih _ _ _ _ h).trans ((hn _ _ _ h2).trans (decVarint_suf 32 _ _ _ h1))

theorem decodeGeometryWith_suf (node : Rd Metadata) (hn : SufRd node) : SufRd (decodeGeometryWith node) := by
  intro bs a rest h
  unfold decodeGeometryWith at h
  split at h
  · cases h
  · rename_i na bs1 h1
    split at h
    · cases h
    · rename_i atts bs2 h2
      split at h
      · cases h
      · rename_i root bs3 h3
        cases h
        exact (hn _ _ _ h3).trans ((decodeAtts_suf node hn _ _ _ _ _ h2).trans (decVarint_suf 32 _ _ _ h1))

theorem leaf_decodeGeometryMetadata_suf : SufRd Leaf.decodeGeometryMetadata :=
  decodeGeometryWith_suf _ (decodeNode_suf true _ false 0)

theorem leaf_decodeSymbols_suf (nv nc : Nat) : SufRd (Leaf.decodeSymbols nv nc) := decodeSymbols_suf nv nc

end Draco.Robust
