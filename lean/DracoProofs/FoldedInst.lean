import DracoProofs.Folded
import DracoProofs.RansBit
import DracoProofs.Adaptive
/-
  The two instantiations of FoldedBit32 in the code base:
  FoldedBit32Encoder<RAnsBitEncoder> and FoldedBit32Encoder<AdaptiveRAnsBitEncoder>.
-/
namespace Draco

theorem ransBit_coderOK (tab : List (Nat × Nat)) (hd : DivOK tab) (zpr : Nat → Nat → Nat) :
    CoderOK (ransBitEncIface tab zpr) (ransBitDecIface false) RAnsBitEnc.flat RAnsBitEnc.Inv := by
  constructor
  · simp only [ransBitEncIface]; exact RAnsBitEnc.start_flat
  · simp only [ransBitEncIface]; exact RAnsBitEnc.start_inv
  · intro e b he; simp only [ransBitEncIface]; exact RAnsBitEnc.encodeBit_spec e b he
  · intro e rest _ hlen
    simp only [ransBitEncIface, ransBitDecIface]
    exact ransBit_start_finish tab hd zpr e hlen rest

theorem adaptive_coderOK (tab : List (Nat × Nat)) (hd : DivOK tab) (pm : ProbModel) (hpm : pm.OK) :
    CoderOK (adaptiveEncIface tab pm) (adaptiveDecIface pm) (fun e => e.reverse) (fun _ => True) := by
  constructor
  · simp only [adaptiveEncIface, List.reverse_nil]
  · trivial
  · intro e b _; simp only [adaptiveEncIface, List.reverse_cons, and_true]
  · intro e rest _ hlen
    simp only [adaptiveEncIface, adaptiveDecIface]
    have := adaptive_start_finish tab hd pm hpm e.reverse (by simpa using hlen) rest
    rw [List.reverse_reverse] at this
    exact this

theorem foldedRans_decode_encode (tab : List (Nat × Nat)) (hd : DivOK tab) (zpr : Nat → Nat → Nat)
    (ops : List BitOp) (hv : ∀ op ∈ ops, op.Valid) (hlen : ops.length + 3 < 2^32) (rest : Bytes) :
    foldedRansDecode false (ops.map BitOp.req) (foldedRansEncode tab zpr ops ++ rest) =
      some (ops.map BitOp.value, rest) :=
  folded_decode_encode (ransBit_coderOK tab hd zpr) ops hv hlen rest

theorem foldedAdaptive_decode_encode (tab : List (Nat × Nat)) (hd : DivOK tab) (pm : ProbModel)
    (hpm : pm.OK) (ops : List BitOp) (hv : ∀ op ∈ ops, op.Valid) (hlen : ops.length + 3 < 2^32)
    (rest : Bytes) :
    foldedDecode (adaptiveDecIface pm) (ops.map BitOp.req)
        (foldedEncode (adaptiveEncIface tab pm) ops ++ rest) = some (ops.map BitOp.value, rest) :=
  folded_decode_encode (adaptive_coderOK tab hd pm hpm) ops hv hlen rest

end Draco
