import DracoProofs.DedupCore
import DracoProofs.DedupFast
/-
  DracoProofs.Dedup — `Attribute.dedupValues`, `Geometry.dedupValues`, `Geometry.dedupPointIds`:
  validity, preservation of every point's value bytes, absence of duplicates, idempotence.
-/
namespace Draco

/-! ### validity unpacked -/

structure Attribute.Valid (a : Attribute) (np : Nat) : Prop where
  comps : 1 ≤ a.numComponents
  dtl : 1 ≤ dataTypeLength a.dataType
  buf : a.numValues * a.stride ≤ a.values.length
  idmap : a.map = none → np ≤ a.numValues
  exmap : ∀ m, a.map = some m → m.length = np ∧ ∀ x ∈ m, x < a.numValues

theorem Attribute.valid_iff (a : Attribute) (np : Nat) : a.valid np = true ↔ a.Valid np := by
  unfold Attribute.valid
  constructor
  · intro h
    simp only [Bool.and_eq_true, decide_eq_true_eq, ge_iff_le] at h
    obtain ⟨⟨⟨h1, h2⟩, h3⟩, h4⟩ := h
    refine ⟨h1, h2, h3, ?_, ?_⟩
    · intro hm
      rw [hm] at h4
      simpa using h4
    · intro m hm
      rw [hm] at h4
      simpa using h4
  · intro ⟨h1, h2, h3, h4, h5⟩
    simp only [Bool.and_eq_true, decide_eq_true_eq, ge_iff_le]
    refine ⟨⟨⟨h1, h2⟩, h3⟩, ?_⟩
    cases hm : a.map with
    | none => simpa using h4 hm
    | some m => simpa using h5 m hm

theorem Geometry.valid_atts {g : Geometry} (h : g.valid = true) :
    ∀ a ∈ g.atts, a.Valid g.numPoints := by
  unfold Geometry.valid at h
  simp only [Bool.and_eq_true, List.all_eq_true] at h
  intro a ha
  exact (Attribute.valid_iff a _).1 (h.2 a ha)

theorem Geometry.valid_faces {g : Geometry} (h : g.valid = true) :
    ∀ f ∈ g.faces, f.1 < g.numPoints ∧ f.2.1 < g.numPoints ∧ f.2.2 < g.numPoints := by
  unfold Geometry.valid at h
  simp only [Bool.and_eq_true, List.all_eq_true] at h
  intro f hf
  have := h.1 f hf
  obtain ⟨a, b, c⟩ := f
  simpa [and_assoc] using this

theorem Attribute.entries_length (a : Attribute) : a.entries.length = a.numValues :=
  chunk_length _ _ _

theorem Attribute.entries_elem_length {a : Attribute} {np : Nat} (h : a.Valid np) :
    ∀ e ∈ a.entries, e.length = a.stride :=
  chunk_elem_length _ _ _ h.buf

/-- the valid point `p` maps to an existing value -/
theorem Attribute.mappedIndex_lt {a : Attribute} {np : Nat} (h : a.Valid np) {p : Nat} (hp : p < np) :
    a.mappedIndex p < a.numValues := by
  unfold Attribute.mappedIndex
  cases hm : a.map with
  | none =>
    have := h.idmap hm
    simp only
    omega
  | some m =>
    obtain ⟨hl, hb⟩ := h.exmap m hm
    simp only
    have hp' : p < m.length := by omega
    rw [getD_eq_getElem' _ _ hp']
    exact hb _ (List.getElem_mem hp')

/-! ### Attribute.dedupValues -/

/-- the attribute after a run that changed something -/
def Attribute.dedupChanged (np : Nat) (a : Attribute) : Attribute :=
  let r := dedupAux [] a.entries
  { a with
    numValues := r.1.length
    values := r.1.flatten
    map := some (match a.map with
      | none => r.2.take np
      | some m => m.map (r.2.getD · 0)) }

theorem Attribute.dedupValues_cases (np : Nat) (a : Attribute) :
    a.dedupValues np = a ∨
    (a.dedupSupported = true ∧ (dedupAux [] a.entries).1.length ≠ a.numValues ∧
      a.dedupValues np = a.dedupChanged np) := by
  unfold Attribute.dedupValues
  rw [dedupFast_eq]
  by_cases hs : a.dedupSupported = true
  · simp only [hs, if_true]
    by_cases hl : (dedupAux [] a.entries).1.length = a.numValues
    · simp [hl]
    · right
      refine ⟨trivial, hl, ?_⟩
      simp only [hl, if_false]
      unfold Attribute.dedupChanged
      simp only [toArray_getD']
      cases a.map <;> rfl
  · left
    simp [hs]

theorem Attribute.dedupChanged_stride (np : Nat) (a : Attribute) :
    (a.dedupChanged np).stride = a.stride := rfl

theorem Attribute.dedupChanged_entries {np : Nat} {a : Attribute} (h : a.Valid np) :
    (a.dedupChanged np).entries = (dedupAux [] a.entries).1 := by
  unfold Attribute.entries
  rw [Attribute.dedupChanged_stride]
  show chunk a.stride (dedupAux [] a.entries).1.length (dedupAux [] a.entries).1.flatten = _
  have hlen : ∀ e ∈ (dedupAux [] a.entries).1, e.length = a.stride := by
    intro e he
    rw [dedupAux_mem] at he
    rcases he with he | he
    · simp at he
    · exact Attribute.entries_elem_length h e he
  have := chunk_flatten a.stride _ hlen []
  simp only [List.append_nil] at this
  exact this

theorem Attribute.dedupChanged_valid {np : Nat} {a : Attribute} (h : a.Valid np) :
    (a.dedupChanged np).Valid np := by
  have hlen : ∀ e ∈ (dedupAux [] a.entries).1, e.length = a.stride := by
    intro e he
    rw [dedupAux_mem] at he
    rcases he with he | he
    · simp at he
    · exact Attribute.entries_elem_length h e he
  have hr2 : (dedupAux [] a.entries).2.length = a.numValues := by
    rw [dedupAux_length, Attribute.entries_length]
  refine ⟨h.comps, h.dtl, ?_, ?_, ?_⟩
  · show (dedupAux [] a.entries).1.length * a.stride ≤ (dedupAux [] a.entries).1.flatten.length
    rw [flatten_length_of a.stride _ hlen]
    exact Nat.le_refl _
  · intro hm
    simp [Attribute.dedupChanged] at hm
  · intro m hm
    simp only [Attribute.dedupChanged, Option.some.injEq] at hm
    subst hm
    cases hmap : a.map with
    | none =>
      have := h.idmap hmap
      simp only
      refine ⟨by rw [List.length_take, hr2]; omega, ?_⟩
      intro x hx
      exact dedupAux_bound [] a.entries x (List.mem_of_mem_take hx)
    | some m0 =>
      obtain ⟨hl, hb⟩ := h.exmap m0 hmap
      simp only
      refine ⟨by simpa using hl, ?_⟩
      intro x hx
      simp only [List.mem_map] at hx
      obtain ⟨y, hy, rfl⟩ := hx
      have hy' : y < (dedupAux [] a.entries).2.length := by rw [hr2]; exact hb y hy
      rw [getD_eq_getElem' _ _ hy']
      exact dedupAux_bound [] a.entries _ (List.getElem_mem hy')

theorem Attribute.dedupValues_valid {np : Nat} {a : Attribute} (h : a.Valid np) :
    (a.dedupValues np).Valid np := by
  rcases Attribute.dedupValues_cases np a with hc | ⟨_, _, hc⟩
  · rw [hc]; exact h
  · rw [hc]; exact Attribute.dedupChanged_valid h

/-- `DeduplicateValues` does not change the value bytes seen by any point -/
theorem Attribute.dedupValues_pointValue {np : Nat} {a : Attribute} (h : a.Valid np)
    {p : Nat} (hp : p < np) : (a.dedupValues np).pointValue p = a.pointValue p := by
  rcases Attribute.dedupValues_cases np a with hc | ⟨_, _, hc⟩
  · rw [hc]
  · rw [hc]
    unfold Attribute.pointValue
    rw [Attribute.dedupChanged_entries h]
    have hr2 : (dedupAux [] a.entries).2.length = a.numValues := by
      rw [dedupAux_length, Attribute.entries_length]
    have hmi := Attribute.mappedIndex_lt h hp
    have key : (a.dedupChanged np).mappedIndex p = (dedupAux [] a.entries).2.getD (a.mappedIndex p) 0 := by
      unfold Attribute.mappedIndex
      cases hmap : a.map with
      | none =>
        have := h.idmap hmap
        simp only [Attribute.dedupChanged, hmap]
        rw [List.getD_eq_getElem?_getD, List.getElem?_take_of_lt hp, ← List.getD_eq_getElem?_getD]
      | some m0 =>
        obtain ⟨hl, hb⟩ := h.exmap m0 hmap
        simp only [Attribute.dedupChanged, hmap]
        have hp' : p < m0.length := by omega
        rw [getD_eq_getElem' _ _ (by simpa using hp'), getD_eq_getElem' _ _ hp']
        simp
    rw [key]
    have hget := dedupAux_get [] a.entries (a.mappedIndex p) (by rw [Attribute.entries_length]; exact hmi)
    rw [List.getD_eq_getElem?_getD, hget]
    rw [getD_eq_getElem' _ _ (by rw [Attribute.entries_length]; exact hmi)]
    rfl

/-- after `DeduplicateValues` of a supported attribute no two value entries are byte-equal -/
theorem Attribute.dedupValues_nodup {np : Nat} {a : Attribute} (h : a.Valid np)
    (hs : a.dedupSupported = true) : (a.dedupValues np).entries.Nodup := by
  rcases Attribute.dedupValues_cases np a with hc | ⟨_, _, hc⟩
  · -- nothing changed: then the loop found no duplicate
    rw [hc]
    unfold Attribute.dedupValues at hc
    rw [dedupFast_eq] at hc
    simp only [hs, if_true] at hc
    by_cases hl : (dedupAux [] a.entries).1.length = a.numValues
    · rw [← Attribute.entries_length a] at hl
      exact (dedupAux_nil_nodup_iff _).1 hl
    · -- changed: the result differs in `numValues`
      exfalso
      simp only [hl, if_false] at hc
      apply hl
      have := congrArg Attribute.numValues hc
      simpa using this
  · rw [hc, Attribute.dedupChanged_entries h]
    exact dedupAux_nodup [] _ List.nodup_nil

theorem Attribute.dedupValues_idem {np : Nat} {a : Attribute} (h : a.Valid np) :
    (a.dedupValues np).dedupValues np = a.dedupValues np := by
  rcases Attribute.dedupValues_cases np a with hc | ⟨hs, hne, hc⟩
  · rw [hc, hc]
  · rw [hc]
    have hent := Attribute.dedupChanged_entries h
    have hnd : (a.dedupChanged np).entries.Nodup := by
      rw [hent]; exact dedupAux_nodup [] _ List.nodup_nil
    unfold Attribute.dedupValues
    rw [dedupFast_eq]
    have hs' : (a.dedupChanged np).dedupSupported = true := hs
    simp only [hs', if_true]
    have : (dedupAux [] (a.dedupChanged np).entries).1.length = (a.dedupChanged np).numValues := by
      rw [(dedupAux_nil_nodup_iff _).2 hnd, Attribute.entries_length]
    simp [this]

/-! ### Geometry.dedupValues -/

theorem Geometry.dedupValues_numPoints (g : Geometry) : g.dedupValues.numPoints = g.numPoints := by
  unfold Geometry.dedupValues; split <;> rfl

theorem Geometry.dedupValues_faces (g : Geometry) : g.dedupValues.faces = g.faces := by
  unfold Geometry.dedupValues; split <;> rfl

theorem Geometry.dedupValues_isMesh (g : Geometry) : g.dedupValues.isMesh = g.isMesh := by
  unfold Geometry.dedupValues; split <;> rfl

theorem Geometry.dedupValues_valid {g : Geometry} (h : g.valid = true) : g.dedupValues.valid = true := by
  unfold Geometry.dedupValues
  split
  · exact h
  · have ha := Geometry.valid_atts h
    unfold Geometry.valid at h ⊢
    simp only [Bool.and_eq_true, List.all_eq_true] at h ⊢
    refine ⟨h.1, ?_⟩
    intro a' ha'
    simp only [List.mem_map] at ha'
    obtain ⟨a, hmem, rfl⟩ := ha'
    exact (Attribute.valid_iff _ _).2 (Attribute.dedupValues_valid (ha a hmem))

theorem Geometry.dedupValues_pointTuple {g : Geometry} (h : g.valid = true) {p : Nat}
    (hp : p < g.numPoints) : g.dedupValues.pointTuple p = g.pointTuple p := by
  unfold Geometry.dedupValues
  split
  · rfl
  · unfold Geometry.pointTuple
    simp only [List.map_map]
    apply List.map_congr_left
    intro a ha
    exact Attribute.dedupValues_pointValue (Geometry.valid_atts h a ha) hp

theorem Geometry.dedupValues_triangles {g : Geometry} (h : g.valid = true) :
    g.dedupValues.triangles = g.triangles := by
  unfold Geometry.triangles
  rw [Geometry.dedupValues_faces]
  apply List.map_congr_left
  intro f hf
  obtain ⟨h1, h2, h3⟩ := Geometry.valid_faces h f hf
  obtain ⟨a, b, c⟩ := f
  simp only
  rw [Geometry.dedupValues_pointTuple h h1, Geometry.dedupValues_pointTuple h h2,
    Geometry.dedupValues_pointTuple h h3]

theorem Geometry.dedupValues_points {g : Geometry} (h : g.valid = true) :
    g.dedupValues.points = g.points := by
  unfold Geometry.points
  rw [Geometry.dedupValues_numPoints]
  apply List.map_congr_left
  intro p hp
  rw [Geometry.dedupValues_pointTuple h (by simpa using hp)]

theorem Geometry.dedupValues_idem {g : Geometry} (h : g.valid = true) :
    g.dedupValues.dedupValues = g.dedupValues := by
  by_cases h0 : g.numPoints = 0
  · unfold Geometry.dedupValues
    simp [h0]
  · have e1 : g.dedupValues = { g with atts := g.atts.map (Attribute.dedupValues g.numPoints) } := by
      unfold Geometry.dedupValues; simp [h0]
    rw [e1]
    unfold Geometry.dedupValues
    simp only [h0, if_false, List.map_map]
    congr 1
    apply List.map_congr_left
    intro a ha
    exact Attribute.dedupValues_idem (Geometry.valid_atts h a ha)

/-! ### Geometry.dedupPointIds -/

/-- keys of all points, in point order -/
def Geometry.pointKeys (g : Geometry) : List (List Nat) := (List.range g.numPoints).map g.pointKey

/-- `index_map` of `DeduplicatePointIds` (identity if nothing is merged) -/
def Geometry.pointIdMap (g : Geometry) (p : Nat) : Nat :=
  if (dedupAux [] g.pointKeys).1.length = g.numPoints then p else (dedupAux [] g.pointKeys).2.getD p 0

theorem Geometry.pointKey_length (g : Geometry) (p : Nat) : (g.pointKey p).length = g.atts.length := by
  simp [Geometry.pointKey]

theorem Geometry.pointKeys_length (g : Geometry) : g.pointKeys.length = g.numPoints := by
  simp [Geometry.pointKeys]

theorem map_getD_range (l : List Nat) : (List.range l.length).map (fun k => l.getD k 0) = l := by
  apply List.ext_getElem
  · simp
  · intro i h1 h2
    simp [h2]

/-- the geometry after a run that merged something -/
def Geometry.dedupPointsChanged (g : Geometry) : Geometry :=
  let r := dedupAux [] g.pointKeys
  { g with
    numPoints := r.1.length
    faces := g.faces.map fun (a, b, c) => (r.2.getD a 0, r.2.getD b 0, r.2.getD c 0)
    atts := g.atts.zipIdx.map fun (a, k) => { a with map := some (r.1.map (·.getD k 0)) } }

theorem Geometry.dedupPointIds_cases (g : Geometry) :
    ((dedupAux [] g.pointKeys).1.length = g.numPoints ∧ g.dedupPointIds = g) ∨
    ((dedupAux [] g.pointKeys).1.length ≠ g.numPoints ∧ g.dedupPointIds = g.dedupPointsChanged) := by
  have hk : ((List.range g.numPoints).map fun p => (g.atts.map (·.mapArray)).map fun ma => idxOf ma p) = g.pointKeys := by
    unfold Geometry.pointKeys Geometry.pointKey
    apply List.map_congr_left
    intro p _
    rw [List.map_map]
    apply List.map_congr_left
    intro a _
    simp [idxOf_mapArray]
  unfold Geometry.dedupPointIds
  simp only [hk, dedupFast_eq]
  by_cases hl : (dedupAux [] g.pointKeys).1.length = g.numPoints
  · left
    exact ⟨hl, by simp [hl]⟩
  · right
    refine ⟨hl, ?_⟩
    simp only [hl, if_false, toArray_getD']
    rfl

/-- every key kept by the loop is the key of a point, hence has one component per attribute -/
theorem Geometry.uniqueKey_length (g : Geometry) :
    ∀ key ∈ (dedupAux [] g.pointKeys).1, key.length = g.atts.length := by
  intro key hk
  rw [dedupAux_mem] at hk
  rcases hk with hk | hk
  · simp at hk
  · simp only [Geometry.pointKeys, List.mem_map] at hk
    obtain ⟨p, _, rfl⟩ := hk
    exact g.pointKey_length p

theorem Geometry.dedupPointsChanged_atts_length (g : Geometry) :
    g.dedupPointsChanged.atts.length = g.atts.length := by
  simp [Geometry.dedupPointsChanged]

/-- attribute `k` of the result -/
theorem Geometry.dedupPointsChanged_att (g : Geometry) (k : Nat) (hk : k < g.atts.length) :
    g.dedupPointsChanged.atts[k]? =
      some { g.atts[k] with map := some ((dedupAux [] g.pointKeys).1.map (·.getD k 0)) } := by
  simp [Geometry.dedupPointsChanged, hk]

/-- the key of the new point `q` is the `q`-th kept key -/
theorem Geometry.dedupPointsChanged_pointKey (g : Geometry) (q : Nat)
    (hq : q < (dedupAux [] g.pointKeys).1.length) :
    g.dedupPointsChanged.pointKey q = (dedupAux [] g.pointKeys).1[q] := by
  have hlen := g.uniqueKey_length _ (List.getElem_mem hq)
  apply List.ext_getElem
  · rw [Geometry.pointKey_length, Geometry.dedupPointsChanged_atts_length, hlen]
  · intro k h1 h2
    rw [Geometry.pointKey_length, Geometry.dedupPointsChanged_atts_length] at h1
    have hatt := g.dedupPointsChanged_att k h1
    have hk' : k < g.dedupPointsChanged.atts.length := by
      rw [Geometry.dedupPointsChanged_atts_length]; exact h1
    have hatt' : g.dedupPointsChanged.atts[k] =
        { g.atts[k] with map := some ((dedupAux [] g.pointKeys).1.map (·.getD k 0)) } := by
      have := List.getElem?_eq_getElem hk'
      rw [this] at hatt
      exact Option.some.inj hatt
    simp only [Geometry.pointKey, List.getElem_map]
    rw [hatt']
    simp only [Attribute.mappedIndex]
    rw [getD_eq_getElem' _ _ (by simpa using hq)]
    simp only [List.getElem_map]
    rw [getD_eq_getElem' _ _ h2]

theorem Geometry.dedupPointsChanged_pointKeys (g : Geometry) :
    g.dedupPointsChanged.pointKeys = (dedupAux [] g.pointKeys).1 := by
  apply List.ext_getElem
  · simp [Geometry.pointKeys, Geometry.dedupPointsChanged]
  · intro q h1 h2
    simp only [Geometry.pointKeys, List.getElem_map, List.getElem_range]
    exact g.dedupPointsChanged_pointKey q h2

/-- `DeduplicatePointIds` leaves no two points with the same tuple of value indices -/
theorem Geometry.dedupPointIds_nodup (g : Geometry) : g.dedupPointIds.pointKeys.Nodup := by
  rcases g.dedupPointIds_cases with ⟨hl, hc⟩ | ⟨_, hc⟩
  · rw [hc]
    rw [← g.pointKeys_length] at hl
    exact (dedupAux_nil_nodup_iff _).1 hl
  · rw [hc, g.dedupPointsChanged_pointKeys]
    exact dedupAux_nodup [] _ List.nodup_nil

theorem Geometry.dedupPointIds_idem (g : Geometry) : g.dedupPointIds.dedupPointIds = g.dedupPointIds := by
  have hnd := g.dedupPointIds_nodup
  rcases g.dedupPointIds.dedupPointIds_cases with ⟨_, hc⟩ | ⟨hl, _⟩
  · exact hc
  · exfalso
    apply hl
    rw [(dedupAux_nil_nodup_iff _).2 hnd, Geometry.pointKeys_length]

/-- the new id of an old point is a point of the result -/
theorem Geometry.pointIdMap_lt (g : Geometry) {p : Nat} (hp : p < g.numPoints) :
    g.pointIdMap p < g.dedupPointIds.numPoints := by
  unfold Geometry.pointIdMap
  rcases g.dedupPointIds_cases with ⟨hl, hc⟩ | ⟨hl, hc⟩
  · rw [hc]; simp [hl, hp]
  · rw [hc]
    simp only [hl, if_false]
    have hp' : p < (dedupAux [] g.pointKeys).2.length := by
      rw [dedupAux_length, Geometry.pointKeys_length]; exact hp
    rw [getD_eq_getElem' _ _ hp']
    exact dedupAux_bound [] _ _ (List.getElem_mem hp')

/-- every point of the result is the image of an old point -/
theorem Geometry.pointIdMap_surj (g : Geometry) {q : Nat} (hq : q < g.dedupPointIds.numPoints) :
    ∃ p, p < g.numPoints ∧ g.pointIdMap p = q := by
  unfold Geometry.pointIdMap
  rcases g.dedupPointIds_cases with ⟨hl, hc⟩ | ⟨hl, hc⟩
  · rw [hc] at hq
    exact ⟨q, hq, by simp [hl]⟩
  · rw [hc] at hq
    simp only [hl, if_false]
    change q < (dedupAux [] g.pointKeys).1.length at hq
    -- the q-th kept key is the key of some point p; its number is q because keys are distinct
    have hmem : (dedupAux [] g.pointKeys).1[q] ∈ g.pointKeys := by
      have := (dedupAux_mem [] g.pointKeys _).1 (List.getElem_mem hq)
      simpa using this
    obtain ⟨p, hp, hpe⟩ := List.getElem_of_mem hmem
    refine ⟨p, by simpa [Geometry.pointKeys_length] using hp, ?_⟩
    have hget := dedupAux_get [] g.pointKeys p hp
    rw [hpe] at hget
    have hnd := dedupAux_nodup [] g.pointKeys List.nodup_nil
    have hb : (dedupAux [] g.pointKeys).2.getD p 0 < (dedupAux [] g.pointKeys).1.length := by
      have hp' : p < (dedupAux [] g.pointKeys).2.length := by rw [dedupAux_length]; exact hp
      rw [getD_eq_getElem' _ _ hp']
      exact dedupAux_bound [] _ _ (List.getElem_mem hp')
    have h1 := (List.getElem?_eq_some_iff.1 hget)
    obtain ⟨hb', he⟩ := h1
    exact (List.getElem_inj hnd).1 he

/-- `DeduplicatePointIds` + `ApplyPointIdDeduplication`: the new point `index_map[p]` carries the
    same value INDICES as the old point `p` in every attribute -/
theorem Geometry.dedupPointIds_pointKey (g : Geometry) {p : Nat} (hp : p < g.numPoints) :
    g.dedupPointIds.pointKey (g.pointIdMap p) = g.pointKey p := by
  unfold Geometry.pointIdMap
  rcases g.dedupPointIds_cases with ⟨hl, hc⟩ | ⟨hl, hc⟩
  · rw [hc]; simp [hl]
  · rw [hc]
    simp only [hl, if_false]
    have hp1 : p < g.pointKeys.length := by rw [Geometry.pointKeys_length]; exact hp
    have hget := dedupAux_get [] g.pointKeys p hp1
    obtain ⟨hb, he⟩ := List.getElem?_eq_some_iff.1 hget
    rw [g.dedupPointsChanged_pointKey _ hb, he]
    simp [Geometry.pointKeys]

theorem Geometry.dedupPointIds_entries (g : Geometry) :
    g.dedupPointIds.atts.map Attribute.entries = g.atts.map Attribute.entries := by
  rcases g.dedupPointIds_cases with ⟨_, hc⟩ | ⟨_, hc⟩
  · rw [hc]
  · rw [hc]
    apply List.ext_getElem
    · simp [Geometry.dedupPointsChanged]
    · intro k h1 h2
      simp only [List.length_map] at h2
      have hatt := g.dedupPointsChanged_att k h2
      have hk' : k < g.dedupPointsChanged.atts.length := by
        rw [Geometry.dedupPointsChanged_atts_length]; exact h2
      rw [List.getElem?_eq_getElem hk'] at hatt
      simp only [List.getElem_map]
      rw [Option.some.inj hatt]
      rfl

/-- the tuple of value bytes of a point is determined by its key and the entries -/
theorem Geometry.pointTuple_eq (g : Geometry) (p : Nat) :
    g.pointTuple p =
      List.zipWith (fun es i => es.getD i []) (g.atts.map Attribute.entries) (g.pointKey p) := by
  unfold Geometry.pointTuple Geometry.pointKey Attribute.pointValue
  induction g.atts with
  | nil => rfl
  | cons a as ih => simp

/-- the new point `index_map[p]` carries the same value bytes as the old point `p` -/
theorem Geometry.dedupPointIds_pointTuple (g : Geometry) {p : Nat} (hp : p < g.numPoints) :
    g.dedupPointIds.pointTuple (g.pointIdMap p) = g.pointTuple p := by
  rw [Geometry.pointTuple_eq, Geometry.pointTuple_eq, g.dedupPointIds_entries, g.dedupPointIds_pointKey hp]

theorem Geometry.dedupPointIds_isMesh (g : Geometry) : g.dedupPointIds.isMesh = g.isMesh := by
  rcases g.dedupPointIds_cases with ⟨_, hc⟩ | ⟨_, hc⟩ <;> rw [hc] <;> rfl

theorem Geometry.dedupPointIds_faces (g : Geometry) :
    g.dedupPointIds.faces =
      g.faces.map fun f => (g.pointIdMap f.1, g.pointIdMap f.2.1, g.pointIdMap f.2.2) := by
  rcases g.dedupPointIds_cases with ⟨hl, hc⟩ | ⟨hl, hc⟩
  · rw [hc]
    simp [Geometry.pointIdMap, hl]
  · rw [hc]
    simp only [Geometry.pointIdMap, hl, if_false]
    rfl

/-- faces are remapped consistently: the triangles are equal as LISTS -/
theorem Geometry.dedupPointIds_triangles {g : Geometry} (h : g.valid = true) :
    g.dedupPointIds.triangles = g.triangles := by
  unfold Geometry.triangles
  rw [g.dedupPointIds_faces, List.map_map]
  apply List.map_congr_left
  intro f hf
  obtain ⟨h1, h2, h3⟩ := Geometry.valid_faces h f hf
  obtain ⟨a, b, c⟩ := f
  simp only [Function.comp]
  rw [g.dedupPointIds_pointTuple h1, g.dedupPointIds_pointTuple h2, g.dedupPointIds_pointTuple h3]

end Draco

namespace Draco

/-! ### validity after DeduplicatePointIds, and distinct points -/

theorem Geometry.pointKey_getD (g : Geometry) (p k : Nat) (hk : k < g.atts.length) :
    (g.pointKey p).getD k 0 = g.atts[k].mappedIndex p := by
  have : k < (g.pointKey p).length := by rw [Geometry.pointKey_length]; exact hk
  rw [getD_eq_getElem' _ _ this]
  simp [Geometry.pointKey]

theorem Geometry.dedupPointIds_valid {g : Geometry} (hv : g.valid = true) : g.dedupPointIds.valid = true := by
  rcases g.dedupPointIds_cases with ⟨_, hc⟩ | ⟨hl, hc⟩
  · rw [hc]; exact hv
  · have hfaces := g.dedupPointIds_faces
    have hnum : g.dedupPointIds.numPoints = (dedupAux [] g.pointKeys).1.length := by rw [hc]; rfl
    unfold Geometry.valid
    simp only [Bool.and_eq_true, List.all_eq_true]
    refine ⟨?_, ?_⟩
    · intro f hf
      rw [hfaces] at hf
      simp only [List.mem_map] at hf
      obtain ⟨f0, hf0, rfl⟩ := hf
      obtain ⟨h1, h2, h3⟩ := Geometry.valid_faces hv f0 hf0
      simp [g.pointIdMap_lt h1, g.pointIdMap_lt h2, g.pointIdMap_lt h3]
    · intro a' ha'
      rw [Attribute.valid_iff]
      rw [hc] at ha'
      obtain ⟨k, hk, hke⟩ := List.getElem_of_mem ha'
      have hk0 : k < g.atts.length := by rw [← g.dedupPointsChanged_atts_length]; exact hk
      have hatt := g.dedupPointsChanged_att k hk0
      rw [List.getElem?_eq_getElem hk, hke] at hatt
      have ha := Option.some.inj hatt
      have hva := Geometry.valid_atts hv g.atts[k] (List.getElem_mem hk0)
      rw [ha, hnum]
      refine ⟨hva.comps, hva.dtl, hva.buf, ?_, ?_⟩
      · intro hm; simp at hm
      · intro m hm
        simp only [Option.some.injEq] at hm
        subst hm
        refine ⟨by simp, ?_⟩
        intro x hx
        simp only [List.mem_map] at hx
        obtain ⟨key, hkey, rfl⟩ := hx
        have hmem := (dedupAux_mem [] g.pointKeys key).1 hkey
        simp only [List.not_mem_nil, false_or, Geometry.pointKeys, List.mem_map, List.mem_range] at hmem
        obtain ⟨p, hp, rfl⟩ := hmem
        rw [g.pointKey_getD p k hk0]
        exact Attribute.mappedIndex_lt hva hp

/-- with pairwise different entries, the bytes of a point determine its value index -/
theorem Attribute.mappedIndex_of_pointValue {a : Attribute} {np : Nat} (hv : a.Valid np)
    (hnd : a.entries.Nodup) {q1 q2 : Nat} (h1 : q1 < np) (h2 : q2 < np)
    (h : a.pointValue q1 = a.pointValue q2) : a.mappedIndex q1 = a.mappedIndex q2 := by
  unfold Attribute.pointValue at h
  have l1 : a.mappedIndex q1 < a.entries.length := by
    rw [Attribute.entries_length]; exact Attribute.mappedIndex_lt hv h1
  have l2 : a.mappedIndex q2 < a.entries.length := by
    rw [Attribute.entries_length]; exact Attribute.mappedIndex_lt hv h2
  rw [getD_eq_getElem' _ _ l1, getD_eq_getElem' _ _ l2] at h
  exact (List.getElem_inj hnd).1 h

theorem Geometry.pointKey_of_pointTuple {g : Geometry} (hv : g.valid = true)
    (hnd : ∀ a ∈ g.atts, a.entries.Nodup) {q1 q2 : Nat} (h1 : q1 < g.numPoints) (h2 : q2 < g.numPoints)
    (h : g.pointTuple q1 = g.pointTuple q2) : g.pointKey q1 = g.pointKey q2 := by
  unfold Geometry.pointTuple at h
  unfold Geometry.pointKey
  rw [List.map_inj_left] at h ⊢
  intro a ha
  exact Attribute.mappedIndex_of_pointValue (Geometry.valid_atts hv a ha) (hnd a ha) h1 h2 (h a ha)

/-- distinct keys + distinct entries ⇒ distinct points -/
theorem Geometry.pointTuples_nodup {g : Geometry} (hv : g.valid = true)
    (hnd : ∀ a ∈ g.atts, a.entries.Nodup) (hk : g.pointKeys.Nodup) :
    ((List.range g.numPoints).map g.pointTuple).Nodup := by
  unfold Geometry.pointKeys at hk
  unfold List.Nodup at hk ⊢
  rw [List.pairwise_map] at hk ⊢
  apply List.Pairwise.imp_of_mem _ hk
  intro q1 q2 m1 m2 hne heq
  exact hne (Geometry.pointKey_of_pointTuple hv hnd (by simpa using m1) (by simpa using m2) heq)

/-- `DeduplicatePointIds` does not touch the value entries (per attribute) -/
theorem Geometry.dedupPointIds_entries_nodup (g : Geometry) (hnd : ∀ a ∈ g.atts, a.entries.Nodup) :
    ∀ a ∈ g.dedupPointIds.atts, a.entries.Nodup := by
  intro a ha
  have he := g.dedupPointIds_entries
  have : a.entries ∈ g.dedupPointIds.atts.map Attribute.entries := List.mem_map.2 ⟨a, ha, rfl⟩
  rw [he] at this
  obtain ⟨a0, ha0, h0⟩ := List.mem_map.1 this
  rw [← h0]
  exact hnd a0 ha0

end Draco
