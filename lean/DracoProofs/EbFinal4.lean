import DracoProofs.EbFinal3
/-
  Towards `eb_roundtrip_of_link'`: the `TupleSetup` of the items of the controllers that traverse the BASE corner table
  (per-vertex decoders), from the connectivity link and the decoder-table facts `DecBaseOK`.

  * `baseIso_of_link`: `TVIso` of the base views (`tviso_of_ctiso`);
  * `tupleSetup_base_item`: `TupleSetup` of an item of a base-view controller, given `ValuesRefineVertices`;
  * `valuesRefine_single`, `valuesRefine_position`: `ValuesRefineVertices` with a single connectivity (every attribute)
    and for the POSITION attribute otherwise;
  * `eb_roundtrip_of_link_base`: the round trip with `hsetup` required only for the remaining items.
-/
namespace Draco.EbEnc
open Draco Draco.SeqEnc DecM
open Draco.Eb hiding iabs nextC prevC

namespace Final4
open PosAgreeP Tuples FaceCorr PlanSettingP Final2 Final3 EncCounts

/-- **the decoder-table facts of the base table** (what `tviso_of_ctiso` and `TupleSetup` need beyond `CTIso`):
    * `hdv` — the vertex of every corner indexes `vertex_corners_`;
    * `hbd` — `IsOnBoundary` (through the left-most corner of a vertex, not covered by `CTIso`) agrees with the encoder's
      table (evaluated by `tvIsoCheck`; from `ofTable_hvcE` + the decoder's `vertex_corners_` invariant);
    * `refines` — `PointsRefineVertices`: two corners with the same decoder point have the same base vertex
      (`pointsRefine_base` / `pointsRefine_empty` from `assignPoints`). -/
structure DecBaseOK (enc : Encoded) (mesh : Mesh) : Prop where
  hdv : ∀ d, d < 3 * mesh.numFaces → mesh.c2v[d]! < mesh.vc.size
  hbd : ∀ d, d < 3 * mesh.numFaces → ∃ b,
    (baseViewD mesh.numFaces mesh.c2v mesh.opp mesh.vc).isOnBoundary mesh.c2v[d]! = .ok b ∧
    enc.conn.ct.view.isOnBoundary (psi enc.conn.ct enc.conn.processed mesh.numFaces mesh.c2v mesh.c2v[d]!) = .ok b
  refines : PointsRefineVertices (baseViewD mesh.numFaces mesh.c2v mesh.opp mesh.vc) mesh.faces

/-- the created table behind the encoder's connectivity -/
theorem table_of_run (ch : EbChoices) (g : Geometry) (md : Option GeometryMetadata) (o : EbOpts) (enc : Encoded)
    (henc : encodeEdgebreaker ch g md o = .ok enc) :
    ∃ posFaces acv table, connInputs g (useSingleConnectivity o) = .ok (posFaces, acv) ∧
      CornerTable.create posFaces = some table ∧ enc.conn.ct = CT.ofTable table ∧ posFaces.size = g.faces.length := by
  obtain ⟨mdBytes, coder, posFaces, acv, cs, couts, h1, h2, h3, h4, _⟩ :=
    (encodeEdgebreaker_stages ch g md o enc henc).stages
  obtain ⟨table, vf, hcreate, hct, _⟩ := EncCounts.encodeConnectivity_visited ch.conn _ posFaces acv enc.conn h4
  exact ⟨posFaces, acv, table, h3, hcreate, hct, connInputs_size h3⟩

/-- **the base views are isomorphic** under the corner map of `processed_connectivity_corners_` -/
theorem baseIso_of_link (ch : EbChoices) (g : Geometry) (md : Option GeometryMetadata) (o : EbOpts) (enc : Encoded)
    (henc : encodeEdgebreaker ch g md o = .ok enc) (mesh : Mesh)
    (hiso : CTIso enc.conn.ct enc.conn.processed mesh.numFaces mesh.c2v mesh.opp) (hD : DecBaseOK enc mesh) :
    TVIso (baseViewD mesh.numFaces mesh.c2v mesh.opp mesh.vc) enc.conn.ct.view (phi enc.conn.processed)
      (psi enc.conn.ct enc.conn.processed mesh.numFaces mesh.c2v) := by
  obtain ⟨posFaces, acv, table, _, hcreate, hct, _⟩ := table_of_run ch g md o enc henc
  have hfit := create_fits hcreate
  have hc2v := create_c2v_size hcreate
  have hopp := create_opp_size hcreate
  refine tviso_of_ctiso enc.conn.ct enc.conn.processed mesh.numFaces mesh.c2v mesh.opp mesh.vc hiso ?_ ?_ ?_ hD.hdv hD.hbd
  · rw [hct]; show table.cornerToVertex.size ≤ inv; omega
  · rw [hct]; show table.cornerToVertex.size % 3 = 0; omega
  · rw [hct]
    show (table.oppositeCorners.map fun o => o.getD inv).size = table.cornerToVertex.size
    rw [Array.size_map, hopp, hc2v]

/-- the view of a per-vertex decoder is the base view of the decoded table -/
theorem viewOfDecoder_base (mesh : Mesh) (dec : AttDecoder) (h : dec.cornerDecoder = false) :
    viewOfDecoder mesh dec = baseViewD mesh.numFaces mesh.c2v mesh.opp mesh.vc := by
  unfold viewOfDecoder baseViewD
  simp [h]

/-- **`TupleSetup` of an item of a controller on the base table** (per-vertex decoder), given that the values of the
    item's attribute refine the base vertices (`hvr`).  `hgv`: the input geometry is valid (`Geometry.valid`). -/
theorem tupleSetup_base_item (ch : EbChoices) (g : Geometry) (md : Option GeometryMetadata) (o : EbOpts) (enc : Encoded)
    (henc : encodeEdgebreaker ch g md o = .ok enc) (hgv : g.valid = true) (mesh : Mesh)
    (hiso : CTIso enc.conn.ct enc.conn.processed mesh.numFaces mesh.c2v mesh.opp) (hD : DecBaseOK enc mesh)
    (sides : List (SeqOut × Array Nat))
    (hruns : ∀ c side, (c, side) ∈ enc.couts.toList.zip sides →
      SideRuns mesh (decOfController enc.conn (enc.controllers[c.ctrl]!)) side)
    (c : CtrlOut) (side : SeqOut × Array Nat) (hz : (c, side) ∈ enc.couts.toList.zip sides)
    (hview : c.view = enc.conn.ct.view)
    (hpv : (decOfController enc.conn (enc.controllers[c.ctrl]!)).cornerDecoder = false)
    (j : Nat) (hj : j < g.atts.length)
    (hvr : ValuesRefineVertices g.atts[j] enc.conn.ct.view (flattenFaces g.faces).toArray mesh.numFaces
      (phi enc.conn.processed)) :
    TupleSetup g.atts[j] g.numPoints (flattenFaces g.faces).toArray mesh.faces mesh.numPoints
      (baseViewD mesh.numFaces mesh.c2v mesh.opp mesh.vc) c.view (phi enc.conn.processed)
      (psi enc.conn.ct enc.conn.processed mesh.numFaces mesh.c2v) side.1 c.seq side.2 := by
  obtain ⟨posFaces, acv, table, _, hcreate, hct, hpsz⟩ := table_of_run ch g md o enc henc
  have hB := baseIso_of_link ch g md o enc henc mesh hiso hD
  have hg : Hedge (baseViewD mesh.numFaces mesh.c2v mesh.opp mesh.vc) := by
    have hB' := hB
    rw [hct] at hB'
    exact Hedge.of_iso_hedge hB' (hedge_ofTable hcreate)
  obtain ⟨v2dSize, htrav⟩ := travRuns_of_run ch g md o enc henc mesh sides hruns c side hz
  rw [viewOfDecoder_base mesh _ hpv] at htrav
  obtain ⟨_, r2⟩ := hruns c side hz
  rw [viewOfDecoder_base mesh _ hpv] at r2
  have hnumF : enc.conn.ct.view.numFaces = g.faces.length := by
    rw [hct, ofTable_view_numFaces hcreate, hpsz]
  have hvalid : g.atts[j].valid g.numPoints = true := by
    unfold Geometry.valid at hgv
    rw [Bool.and_eq_true] at hgv
    exact List.all_eq_true.mp hgv.2 _ (List.getElem_mem hj)
  rw [hview] at htrav ⊢
  exact tupleSetup_of_runs hB hg enc.conn.processed _ v2dSize hiso.faces.symm
    (fun i _ => (phi_three enc.conn.processed i).symm) side.1 c.seq htrav hD.refines r2 hvr hvalid
    (fun x hx => facesE_lt_of_valid g hgv x (by rw [hnumF] at hx; exact hx))

/-! ### `ValuesRefineVertices` on the base view -/

/-- with a single connectivity the table is built from the point ids: EVERY attribute refines the base vertices -/
theorem valuesRefine_single (ch : EbChoices) (g : Geometry) (md : Option GeometryMetadata) (o : EbOpts) (enc : Encoded)
    (henc : encodeEdgebreaker ch g md o = .ok enc) (mesh : Mesh)
    (hiso : CTIso enc.conn.ct enc.conn.processed mesh.numFaces mesh.c2v mesh.opp) (hD : DecBaseOK enc mesh)
    (hs : useSingleConnectivity o = true) (a : Attribute) :
    ValuesRefineVertices a enc.conn.ct.view (flattenFaces g.faces).toArray mesh.numFaces (phi enc.conn.processed) := by
  obtain ⟨posFaces, acv, table, h3, hcreate, hct, _⟩ := table_of_run ch g md o enc henc
  have hB := baseIso_of_link ch g md o enc henc mesh hiso hD
  rw [hct] at hB ⊢
  rw [hs] at h3
  have := connInputs_single h3
  subst this
  exact valuesRefine_of_create hcreate hB a _ (hpf_single a g.faces)

/-- without a single connectivity there is exactly one POSITION attribute: the one `GetNamedAttributeId` finds -/
theorem pos_unique (g : Geometry) (pid j : Nat) (hone : (g.atts.toArray.toList.filter fun a => a.attType == posType).length = 1)
    (hpid : namedAttributeId g.atts.toArray posType = some pid) (hj : j < g.atts.length)
    (hjp : (g.atts[j].attType == posType) = true) : g.atts.toArray[pid]! = g.atts[j] := by
  unfold namedAttributeId at hpid
  have hp1 := List.find?_some hpid
  have hp2 : pid < g.atts.length := by
    have := List.mem_of_find?_eq_some hpid
    simpa using this
  have hget : g.atts.toArray[pid]! = g.atts[pid] := by simp [hp2]
  rw [hget] at hp1 ⊢
  by_cases hne : pid = j
  · subst hne; rfl
  · exfalso
    have hl : g.atts.toArray.toList = g.atts := by simp
    rw [hl] at hone
    rcases Nat.lt_or_gt_of_ne hne with hlt | hlt
    · have := filter_length_two (fun (a : Attribute) => a.attType == posType) g.atts pid j hlt hj hp1 hjp
      omega
    · have := filter_length_two (fun (a : Attribute) => a.attType == posType) g.atts j pid hlt hp2 hjp hp1
      omega

/-- without a single connectivity the table is built from the position value indices: the POSITION attribute refines
    the base vertices -/
theorem valuesRefine_position (ch : EbChoices) (g : Geometry) (md : Option GeometryMetadata) (o : EbOpts) (enc : Encoded)
    (henc : encodeEdgebreaker ch g md o = .ok enc) (mesh : Mesh)
    (hiso : CTIso enc.conn.ct enc.conn.processed mesh.numFaces mesh.c2v mesh.opp) (hD : DecBaseOK enc mesh)
    (hs : useSingleConnectivity o = false) (j : Nat) (hj : j < g.atts.length)
    (hjp : (g.atts[j].attType == posType) = true) :
    ValuesRefineVertices g.atts[j] enc.conn.ct.view (flattenFaces g.faces).toArray mesh.numFaces
      (phi enc.conn.processed) := by
  obtain ⟨posFaces, acv, table, h3, hcreate, hct, _⟩ := table_of_run ch g md o enc henc
  have hB := baseIso_of_link ch g md o enc henc mesh hiso hD
  rw [hct] at hB ⊢
  rw [hs] at h3
  have hone := connInputs_hpos h3
  obtain ⟨_, hpf⟩ := hpf_of_connInputs h3 g.atts[j] (fun _ pid hpid => (pos_unique g pid j hone hpid hj hjp).symm)
  exact valuesRefine_of_create hcreate hB g.atts[j] _ hpf

/-! ### the controllers on the base table -/

theorem connInputs_single_acv {g : Geometry} {pf : Faces} {acv : Array (Nat × Array Nat)}
    (h : connInputs g true = .ok (pf, acv)) : acv = #[] := by
  unfold connInputs at h
  simp only [if_true, Bool.not_true, Bool.false_eq_true, if_false, pure, Except.pure, bind, Except.bind,
    Except.ok.injEq, Prod.mk.injEq] at h
  exact h.2.symm

theorem viewOfController_off {conn : ConnEnc} {c : Controller} {v : TView} (hoff : c.onAttTable = false)
    (h : viewOfController conn c = .ok v) : v = conn.ct.view := by
  unfold viewOfController at h
  simp only [hoff, Bool.false_eq_true, if_false, pure, Except.pure, Except.ok.injEq] at h
  exact h.symm

/-- a controller output under a single connectivity, or whose first attribute is the POSITION attribute, lives on the
    base table on both sides: the encoder's view is the base view and the announced decoder is per vertex -/
theorem ctrl_base (ch : EbChoices) (g : Geometry) (md : Option GeometryMetadata) (o : EbOpts) (enc : Encoded)
    (henc : encodeEdgebreaker ch g md o = .ok enc) (c : CtrlOut) (hc : c ∈ enc.couts.toList)
    (hcase : useSingleConnectivity o = true ∨
      ((g.atts.toArray[(enc.controllers[c.ctrl]!).attIds[0]!]!).attType == posType) = true) :
    c.view = enc.conn.ct.view ∧ (decOfController enc.conn (enc.controllers[c.ctrl]!)).cornerDecoder = false := by
  obtain ⟨hnonpos, _⟩ := attData_of_run ch g md o enc henc
  obtain ⟨mdBytes, coder, posFaces, acv, cs, couts, h1, h2, h3, h4, h5, h6, h7, h8, h9, h10, _⟩ :=
    (encodeEdgebreaker_stages ch g md o enc henc).stages
  have hchain := encodeControllers_chain ch o g enc.conn cs _ _ _ _ _ h8
  have hord := rearrangeEncoders_order h7
  rw [h9] at hcase ⊢
  rw [h10] at hc
  simp only [] at hc
  obtain ⟨e, p', hemem, hrun⟩ := chain_mem hchain c hc
  obtain ⟨_, _, hview, _, _, _, _, hce⟩ := encodeController_spec ch o g enc.conn cs _ _ e p' c hrun
  have helt : e < cs.size := hord.2.1 e (by simpa using hemem)
  have hmem : cs[c.ctrl]! ∈ cs := by rw [hce]; exact getElem!_mem_of_lt cs e helt
  rw [← hce] at hview
  have key : (cs[c.ctrl]!).onAttTable = false ∧ (cs[c.ctrl]!).attDataId < 0 := by
    rcases hcase with hs | hp
    · refine ⟨generateControllers_onAttTable_single h5 hs _ hmem, ?_⟩
      by_contra hnn
      have hlt := (generateControllers_attDataId_lt h5 _ hmem (by omega)).1
      rw [hs] at h3
      have hacv := connInputs_single_acv h3
      have hsz := (encodeConnectivity_atts ch.conn _ posFaces acv enc.conn h4).1
      have hsz0 : enc.conn.atts.size = 0 := by rw [hsz, hacv]; rfl
      omega
    · constructor
      · cases ht : (cs[c.ctrl]!).onAttTable with
        | false => rfl
        | true =>
          have := (generateControllers_onAttTable h5 _ hmem ht).2.2.2.2
          rw [hp] at this
          cases this
      · rw [generateControllers_pos_attDataId h5 hnonpos _ hmem hp]; decide
  refine ⟨viewOfController_off key.1 hview, ?_⟩
  show (!(decide ((cs[c.ctrl]!).attDataId < 0) ||
    (enc.conn.atts[(cs[c.ctrl]!).attDataId.toNat]!).conn.noInteriorSeams)) = false
  simp [key.2]

/-- **`hsetup` for the items on the base table**: under a single connectivity (every item), or for the POSITION
    attribute of a controller whose first attribute is a POSITION attribute.  `hD`: the decoder-table facts of the base
    table; `hgv`: `Geometry.valid`. -/
theorem hsetup_base (ch : EbChoices) (g : Geometry) (md : Option GeometryMetadata) (o : EbOpts) (enc : Encoded)
    (henc : encodeEdgebreaker ch g md o = .ok enc) (hgv : g.valid = true) (mesh : Mesh)
    (hiso : CTIso enc.conn.ct enc.conn.processed mesh.numFaces mesh.c2v mesh.opp) (hD : DecBaseOK enc mesh)
    (sides : List (SeqOut × Array Nat))
    (hruns : ∀ c side, (c, side) ∈ enc.couts.toList.zip sides →
      SideRuns mesh (decOfController enc.conn (enc.controllers[c.ctrl]!)) side)
    (c : CtrlOut) (side : SeqOut × Array Nat) (it : EncItem) (hz : (c, side) ∈ enc.couts.toList.zip sides)
    (hit : it ∈ c.items.toList)
    (hcase : useSingleConnectivity o = true ∨
      (((g.atts.toArray[(enc.controllers[c.ctrl]!).attIds[0]!]!).attType == posType) = true ∧
       ((g.atts.toArray[it.attId]!).attType == posType) = true)) :
    ∃ (dC : TView) (ψC : Nat → Nat) (np npD : Nat), dC.numFaces = mesh.numFaces ∧
      TupleSetup (g.atts.toArray[it.attId]!) np (flattenFaces g.faces).toArray mesh.faces npD dC c.view
        (phi enc.conn.processed) ψC side.1 c.seq side.2 := by
  have hc : c ∈ enc.couts.toList := (List.of_mem_zip hz).1
  obtain ⟨hview, hpv⟩ := ctrl_base ch g md o enc henc c hc (hcase.imp id (fun h => h.1))
  -- the attribute id of the item is an attribute id
  have hjlt : it.attId < g.atts.length := by
    obtain ⟨mdBytes, coder, posFaces, acv, cs, couts, h1, h2, h3, h4, h5, h6, h7, h8, h9, h10, _⟩ :=
      (encodeEdgebreaker_stages ch g md o enc henc).stages
    have hchain := encodeControllers_chain ch o g enc.conn cs _ _ _ _ _ h8
    have hord := rearrangeEncoders_order h7
    have hc' : c ∈ couts := by rw [h10] at hc; simpa using hc
    obtain ⟨e, p', hemem, hrun⟩ := chain_mem hchain c hc'
    have helt : e < cs.size := hord.2.1 e (by simpa using hemem)
    have := (item_facts ch o g enc.conn cs _ _ e p' c h5 helt hrun it hit).1
    simpa using this
  have hget : g.atts.toArray[it.attId]! = g.atts[it.attId] := by simp [hjlt]
  rw [hget] at hcase ⊢
  have hvr : ValuesRefineVertices g.atts[it.attId] enc.conn.ct.view (flattenFaces g.faces).toArray mesh.numFaces
      (phi enc.conn.processed) := by
    by_cases hs : useSingleConnectivity o = true
    · exact valuesRefine_single ch g md o enc henc mesh hiso hD hs _
    · rcases hcase with h | ⟨_, hjp⟩
      · exact absurd h hs
      · exact valuesRefine_position ch g md o enc henc mesh hiso hD (by simpa using hs) it.attId hjlt hjp
  exact ⟨_, _, _, _, rfl, tupleSetup_base_item ch g md o enc henc hgv mesh hiso hD sides hruns c side hz hview hpv
    it.attId hjlt hvr⟩

/-! ### the round trip with the base-table items discharged -/

/-- **eb_roundtrip_of_link_base**: `eb_roundtrip_of_link` where `hsetup` is required only for the items NOT on the base
    table in the sense of `hsetup_base` (`hrest`); for every other item it comes from the link + `DecBaseOK` + `g.valid`.
    In particular `hrest` is vacuous under a single connectivity, and for geometries whose only attribute is the POSITION. -/
theorem eb_roundtrip_of_link_base (ch : EbChoices) (g : Geometry) (md : Option GeometryMetadata) (o : EbOpts)
    (enc : Encoded) (henc : encodeEdgebreaker ch g md o = .ok enc) (hmd : ∀ m, md = some m → m.WF')
    (hatt : ∀ a, a < g.atts.toArray.size → EbAttOK (g.atts.toArray[a]!) (o.base.att a))
    (huid : (g.atts.map (·.uniqueId)).Nodup) (hn128 : g.atts.length ≤ 128)
    (hbytes : ∀ a ∈ g.atts, IsBytes a.values) (hgv : g.valid = true)
    (mesh : Mesh)
    (hconn : ∀ coder, traversalCoder o g.faces.length = some coder →
      Runs decodeConnectivity 514 ([coder] ++ enc.conn.bytes) mesh 514)
    (hiso : CTIso enc.conn.ct enc.conn.processed mesh.numFaces mesh.c2v mesh.opp)
    (hmatts : mesh.atts.size = enc.conn.atts.size)
    (hD : DecBaseOK enc mesh)
    (sides : List (SeqOut × Array Nat))
    (hseq : sidesOfDecoder mesh enc.conn enc.controllers enc.couts.toList = .ok sides)
    (hvals : ∀ (i k : Nat)
      (hi : i < (planOf o g.atts.toArray enc.conn enc.controllers enc.couts.toList sides).length)
      (hk : k < (planOf o g.atts.toArray enc.conn enc.controllers enc.couts.toList sides)[i].items.length),
      ValuesOK mesh (planOf o g.atts.toArray enc.conn enc.controllers enc.couts.toList sides)[i]
        (parentAt (planOf o g.atts.toArray enc.conn enc.controllers enc.couts.toList sides) i k)
        (planOf o g.atts.toArray enc.conn enc.controllers enc.couts.toList sides)[i].items[k])
    (hrest : ∀ c side it, (c, side) ∈ enc.couts.toList.zip sides → it ∈ c.items.toList →
      ¬ (useSingleConnectivity o = true ∨
        (((g.atts.toArray[(enc.controllers[c.ctrl]!).attIds[0]!]!).attType == posType) = true ∧
         ((g.atts.toArray[it.attId]!).attType == posType) = true)) →
      ∃ (dC : TView) (ψC : Nat → Nat) (np npD : Nat), dC.numFaces = mesh.numFaces ∧
        TupleSetup (g.atts.toArray[it.attId]!) np (flattenFaces g.faces).toArray mesh.faces npD dC c.view
          (phi enc.conn.processed) ψC side.1 c.seq side.2)
    (extra : Bytes) :
    ∃ st st',
      decodeGeometry {} { rest := enc.bytes ++ extra } =
        (some ⟨planGeometry {} mesh (planOf o g.atts.toArray enc.conn enc.controllers enc.couts.toList sides), md⟩, st) ∧
      st.rest = extra ∧
      decodeGeometry { skip := allTypes } { rest := enc.bytes ++ extra } =
        (some ⟨planGeometry { skip := allTypes } mesh
          (planOf o g.atts.toArray enc.conn enc.controllers enc.couts.toList sides), md⟩, st') ∧
      st'.rest = extra ∧
      Spec.checkCore .edgebreaker (quantReq g o.base) g
        (planGeometry {} mesh (planOf o g.atts.toArray enc.conn enc.controllers enc.couts.toList sides))
        (planGeometry { skip := allTypes } mesh
          (planOf o g.atts.toArray enc.conn enc.controllers enc.couts.toList sides)) = true := by
  have hruns := (sidesOfDecoder_spec mesh enc.conn enc.controllers _ sides hseq).2
  refine eb_roundtrip_of_link ch g md o enc henc hmd hatt huid hn128 hbytes mesh hconn hiso hmatts sides hseq hvals ?_ extra
  intro c side it hz hit
  by_cases hcase : useSingleConnectivity o = true ∨
      (((g.atts.toArray[(enc.controllers[c.ctrl]!).attIds[0]!]!).attType == posType) = true ∧
       ((g.atts.toArray[it.attId]!).attType == posType) = true)
  · exact hsetup_base ch g md o enc henc hgv mesh hiso hD sides hruns c side it hz hit hcase
  · exact hrest c side it hz hit hcase

/-! ### the one-triangle example from `eb_roundtrip_of_link_base` -/

open ConnExample in
example (extra : Bytes) :
    ∃ st st',
      decodeGeometry {} { rest := exBytes ++ extra } = (some ⟨planGeometry {} exMesh exPlan, none⟩, st) ∧ st.rest = extra ∧
      decodeGeometry { skip := allTypes } { rest := exBytes ++ extra } =
        (some ⟨planGeometry { skip := allTypes } exMesh exPlan, none⟩, st') ∧ st'.rest = extra ∧
      Spec.checkCore .edgebreaker (quantReq exG exO.base) exG (planGeometry {} exMesh exPlan)
        (planGeometry { skip := allTypes } exMesh exPlan) = true := by
  have hiso : CTIso exEnc.conn.ct exEnc.conn.processed exMesh.numFaces exMesh.c2v exMesh.opp :=
    ctIso_sound _ _ _ _ _ (by decide +kernel) (by decide +kernel) (by decide +kernel) exIso
  have hseq : sidesOfDecoder exMesh exEnc.conn exEnc.controllers exEnc.couts.toList = .ok exSides := by
    have h : (match sidesOfDecoder exMesh exEnc.conn exEnc.controllers exEnc.couts.toList with
        | .ok s => decide (s = exSides) | .error _ => false) = true := by
      decide +kernel
    split at h
    · rename_i s hs; rw [hs, of_decide_eq_true h]
    · exact absurd h (by decide)
  have hD : DecBaseOK exEnc exMesh :=
    { hdv := by decide +kernel
      hbd := by
        intro d hd
        have h3 : d < 3 := by
          have : exMesh.numFaces = 1 := by decide +kernel
          omega
        have : d = 0 ∨ d = 1 ∨ d = 2 := by omega
        rcases this with rfl | rfl | rfl <;> exact ⟨true, by decide +kernel, by decide +kernel⟩
      refines := by
        intro c c' hc hc'
        have hn : (baseViewD exMesh.numFaces exMesh.c2v exMesh.opp exMesh.vc).numFaces = 1 := by decide +kernel
        rw [hn] at hc hc'
        have h1 : c = 0 ∨ c = 1 ∨ c = 2 := by omega
        have h2 : c' = 0 ∨ c' = 1 ∨ c' = 2 := by omega
        rcases h1 with rfl | rfl | rfl <;> rcases h2 with rfl | rfl | rfl <;> decide +kernel }
  have hbytes : ∀ a ∈ exG.atts, IsBytes a.values := by
    have hb : (exG.atts.all fun a => a.values.all fun b => decide (b < 256)) = true := by decide +kernel
    intro a ha b hb'
    have h1 := List.all_eq_true.mp hb a ha
    have h2 := List.all_eq_true.mp h1 b hb'
    simpa using h2
  have hall : (exEnc.couts.toList.all fun c => c.items.toList.all fun it =>
      ((exG.atts.toArray[(exEnc.controllers[c.ctrl]!).attIds[0]!]!).attType == posType) &&
      ((exG.atts.toArray[it.attId]!).attType == posType)) = true := by decide +kernel
  have h := eb_roundtrip_of_link_base exCh exG none exO exEnc exEncode (fun m h => by cases h) exHatt exHuid
    (by decide +kernel) hbytes (by decide +kernel) exMesh exHconn hiso (by decide +kernel) hD exSides hseq
    exHvals (by
      intro c side it hz hit hn
      exfalso
      apply hn
      right
      have hc := (List.of_mem_zip hz).1
      have h1 := List.all_eq_true.mp hall c hc
      have h2 := List.all_eq_true.mp h1 it hit
      simpa using h2) extra
  rw [exEnc_bytes] at h
  exact h

end Final4

end Draco.EbEnc
