import DracoProofs.GeneratedCore
import DracoModel.SeqDecoder
import DracoModel.SeqEncoder
/-
  DracoProofs.GeneratedSeq — the index-width selection of the sequential mesh connectivity coder:
  the decision skeletons of the `if (num_points < 256) … else if (num_points < (1 << 16)) … else if (num_points < (1 << 21) …`
  chains of `MeshSequentialDecoder::DecodeConnectivity` and `MeshSequentialEncoder::EncodeConnectivity`
  (lean/Generated/Funcs.lean, translated from clang's AST of /repo on every run by tools/vlib/xlate.py: the conditions are
  the repo's, the branch bodies are replaced by their ordinal) select the same class as the model.
-/
namespace Draco.Generated
open Draco Draco.CInt

/-- the index width class the model's `decodeSeqConnectivity` / `encodeSeqConnectivity` use for raw indices:
    0 = `uint8_t`, 1 = `uint16_t`, 2 = varint, 3 = `uint32_t` -/
def seqIndexWidth (numPoints : Nat) (legacy : Bool) : Nat :=
  if numPoints < 256 then 0 else if numPoints < 2^16 then 1 else if numPoints < 2^21 && !legacy then 2 else 3

/-- the shape of the model's selection (any four continuations): it is `seqIndexWidth` -/
theorem model_chain_is_seqIndexWidth {α : Type} (numPoints : Nat) (legacy : Bool) (a b c d : α) :
    (if numPoints < 256 then a else if numPoints < 2^16 then b else if numPoints < 2^21 && !legacy then c else d) =
      match seqIndexWidth numPoints legacy with
      | 0 => a | 1 => b | 2 => c | _ => d := by
  unfold seqIndexWidth
  split
  · rfl
  · split
    · rfl
    · split <;> rfl

theorem model_enc_chain_is_seqIndexWidth {α : Type} (numPoints : Nat) (a b c d : α) :
    (if numPoints < 256 then a else if numPoints < 2^16 then b else if numPoints < 2^21 then c else d) =
      match seqIndexWidth numPoints false with
      | 0 => a | 1 => b | 2 => c | _ => d := by
  have := model_chain_is_seqIndexWidth numPoints false a b c d
  simpa using this

/-- `MeshSequentialDecoder::DecodeConnectivity`: branch taken for `num_points` (`uint32_t`) and `bitstream_version()`
    (`uint16_t`); `legacy` = version < 2.2 -/
theorem DecodeConnectivity_indexWidth_eq_model (ver numPoints : Nat) (hv : ver < 2^16) (hn : numPoints < 2^32) :
    MeshSequentialDecoder.DecodeConnectivity_indexWidth ver numPoints =
      (seqIndexWidth numPoints (decide (ver < bsVersion 2 2)) : Int) := by
  unfold MeshSequentialDecoder.DecodeConnectivity_indexWidth seqIndexWidth
  have e : (wrapI32 (cOr 32 (wrapI32 (cShl 2 8)) 2)) = 514 := by decide
  have eb : bsVersion 2 2 = 514 := by decide
  rw [e, eb]
  c_const
  by_cases h1 : numPoints < 256
  · have : (numPoints : Int) < 256 := by omega
    simp [h1, this]
  · have n1 : ¬ ((numPoints : Int) < 256) := by omega
    by_cases h2 : numPoints < 2^16
    · have : (numPoints : Int) < 65536 := by omega
      simp [h1, n1, h2, this]
    · have n2 : ¬ ((numPoints : Int) < 65536) := by omega
      by_cases h3 : numPoints < 2^21 <;> by_cases h4 : ver < 514
      all_goals (
        have a3 : ((numPoints : Int) < 2097152) = (numPoints < 2^21) := by apply propext; constructor <;> intro h <;> omega
        have a4 : ((ver : Int) ≥ 514) = ¬ (ver < 514) := by apply propext; constructor <;> intro h <;> omega
        simp [h1, n1, h2, n2, h3, h4, a3, a4])

theorem EncodeConnectivity_indexWidth_eq_model (numPoints : Nat) (hn : numPoints < 2^31) :
    MeshSequentialEncoder.EncodeConnectivity_indexWidth numPoints = (seqIndexWidth numPoints false : Int) := by
  unfold MeshSequentialEncoder.EncodeConnectivity_indexWidth seqIndexWidth
  c_const
  by_cases h1 : numPoints < 256
  · have : (numPoints : Int) < 256 := by omega
    simp [h1, this]
  · have n1 : ¬ ((numPoints : Int) < 256) := by omega
    by_cases h2 : numPoints < 2^16
    · have : (numPoints : Int) < 65536 := by omega
      simp [h1, n1, h2, this]
    · have n2 : ¬ ((numPoints : Int) < 65536) := by omega
      by_cases h3 : numPoints < 2^21
      · have : (numPoints : Int) < 2097152 := by omega
        simp [h1, n1, h2, n2, h3, this]
      · have : ¬ ((numPoints : Int) < 2097152) := by omega
        simp [h1, n1, h2, n2, h3, this]

end Draco.Generated
