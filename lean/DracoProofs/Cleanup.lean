import DracoProofs.CleanupUnused
import DracoProofs.DedupFast
import Mathlib.Data.List.Forall2
/-
  DracoProofs.Cleanup — `MeshCleanup::Cleanup`: the face-removal steps and the composition.
-/
namespace Draco
namespace Cleanup

/-! ### the rotation loop of RemoveDuplicateFaces -/

/-- the `while` loop has stopped: `face[0]` is a smallest point id -/
def Stopped (f : Face) : Prop := ¬ (f.1 > f.2.1 ∨ f.1 > f.2.2)

theorem canonFace_cases (f : Face) :
    (canonFace f = f ∨ canonFace f = rotL f ∨ canonFace f = rotL (rotL f)) ∧ Stopped (canonFace f) := by
  obtain ⟨a, b, c⟩ := f
  unfold Stopped canonFace canonLoop canonLoop canonLoop rotL
  dsimp only
  by_cases h1 : a > b ∨ a > c
  · rw [if_pos h1]
    by_cases h2 : b > c ∨ b > a
    · rw [if_pos h2]
      refine ⟨Or.inr (Or.inr rfl), ?_⟩
      show ¬ (c > a ∨ c > b)
      omega
    · rw [if_neg h2]
      exact ⟨Or.inr (Or.inl rfl), h2⟩
  · rw [if_neg h1]
    exact ⟨Or.inl rfl, h1⟩

theorem canonFace_stopped (f : Face) : Stopped (canonFace f) := (canonFace_cases f).2

theorem canonFace_of_stopped {f : Face} (h : Stopped f) : canonFace f = f := by
  obtain ⟨a, b, c⟩ := f
  unfold Stopped at h
  unfold canonFace canonLoop
  simp only [h, if_false]

/-- fuel 2 suffices: one more iteration would not rotate -/
theorem canonLoop_stops (f : Face) : canonLoop 3 f = canonLoop 2 f := by
  obtain ⟨a, b, c⟩ := f
  unfold canonLoop canonLoop canonLoop canonLoop rotL
  dsimp only
  by_cases h1 : a > b ∨ a > c
  · simp only [h1, if_true]
    by_cases h2 : b > c ∨ b > a
    · simp only [h2, if_true]
      have h3 : ¬ (c > a ∨ c > b) := by omega
      simp only [h3, if_false]
    · simp only [h2, if_false]
  · simp only [h1, if_false]

theorem canonFace_idem (f : Face) : canonFace (canonFace f) = canonFace f :=
  canonFace_of_stopped (canonFace_stopped f)

/-- for a face with three different point ids the canonical form does not depend on the rotation -/
theorem canonFace_rotL {f : Face} (hd : f.1 ≠ f.2.1 ∧ f.1 ≠ f.2.2 ∧ f.2.1 ≠ f.2.2) :
    canonFace (rotL f) = canonFace f := by
  obtain ⟨a, b, c⟩ := f
  dsimp only at hd
  unfold canonFace canonLoop canonLoop canonLoop rotL
  dsimp only
  by_cases h1 : a > b ∨ a > c <;> by_cases h2 : b > c ∨ b > a <;> by_cases h3 : c > a ∨ c > b <;>
    simp only [h1, h2, h3, if_true, if_false] <;> first | rfl | (exfalso; omega)

/-! ### the duplicate-face loop -/

/-- first occurrences: the elements not in `seen` and not occurring earlier, in order -/
def firstOccFrom (seen : List Face) : List Face → List Face
  | [] => []
  | c :: cs => if seen.contains c then firstOccFrom seen cs else c :: firstOccFrom (c :: seen) cs

/-- the ORIGINAL (unrotated) faces that survive `RemoveDuplicateFaces` -/
def keptOrig (seen : List Face) : List Face → List Face
  | [] => []
  | f :: fs =>
    if seen.contains (canonFace f) then keptOrig seen fs else f :: keptOrig (canonFace f :: seen) fs

/-- a face survives iff its canonical rotation did not occur before -/
theorem keptOrig_canon (seen : List Face) (fs : List Face) :
    (keptOrig seen fs).map canonFace = firstOccFrom seen (fs.map canonFace) := by
  induction fs generalizing seen with
  | nil => rfl
  | cons f fs ih =>
    simp only [keptOrig, List.map_cons, firstOccFrom]
    split
    · exact ih seen
    · simp [ih]

theorem keptOrig_sublist (seen : List Face) (fs : List Face) : (keptOrig seen fs).Sublist fs := by
  induction fs generalizing seen with
  | nil => exact List.Sublist.slnil
  | cons f fs ih =>
    simp only [keptOrig]
    split
    · exact (ih seen).cons f
    · exact (ih _).cons_cons f

/-- what is stored: the surviving face itself or its canonical rotation -/
theorem dupLoop_forall₂ (seen : List Face) (dup : Bool) (fs : List Face) :
    List.Forall₂ (fun f' f => f' = f ∨ f' = canonFace f) (dupLoop seen dup fs) (keptOrig seen fs) := by
  induction fs generalizing seen dup with
  | nil => exact List.Forall₂.nil
  | cons f fs ih =>
    simp only [dupLoop, keptOrig]
    split
    · exact ih seen true
    · refine List.Forall₂.cons ?_ (ih _ dup)
      cases dup
      · exact Or.inl rfl
      · exact Or.inr rfl

theorem firstOccFrom_nodup (seen cs : List Face) : (firstOccFrom seen cs).Nodup ∧
    ∀ c ∈ firstOccFrom seen cs, c ∉ seen := by
  induction cs generalizing seen with
  | nil => simp [firstOccFrom]
  | cons c cs ih =>
    simp only [firstOccFrom]
    split
    · exact ih seen
    · rename_i hc
      obtain ⟨h1, h2⟩ := ih (c :: seen)
      refine ⟨?_, ?_⟩
      · rw [List.nodup_cons]
        refine ⟨?_, h1⟩
        intro hmem
        exact h2 c hmem (by simp)
      · intro x hx
        simp only [List.mem_cons] at hx
        rcases hx with hx | hx
        · subst hx
          simpa using hc
        · intro hxs
          exact h2 x hx (by simp [hxs])

theorem firstOccFrom_mem (seen cs : List Face) (x : Face) :
    x ∈ firstOccFrom seen cs ↔ (x ∈ cs ∧ x ∉ seen) := by
  induction cs generalizing seen with
  | nil => simp [firstOccFrom]
  | cons c cs ih =>
    simp only [firstOccFrom]
    split
    · rename_i hc
      have hc' : c ∈ seen := by simpa using hc
      rw [ih]
      simp only [List.mem_cons]
      constructor
      · rintro ⟨h1, h2⟩; exact ⟨Or.inr h1, h2⟩
      · rintro ⟨h1 | h1, h2⟩
        · exact absurd (h1 ▸ hc') h2
        · exact ⟨h1, h2⟩
    · rename_i hc
      have hc' : c ∉ seen := by simpa using hc
      simp only [List.mem_cons, ih]
      constructor
      · rintro (h | ⟨h1, h2⟩)
        · subst h; exact ⟨Or.inl rfl, hc'⟩
        · exact ⟨Or.inr h1, fun h => h2 (Or.inr h)⟩
      · rintro ⟨h1 | h1, h2⟩
        · exact Or.inl h1
        · by_cases hx : x = c
          · exact Or.inl hx
          · exact Or.inr ⟨h1, fun h => by rcases h with h | h; exact hx h; exact h2 h⟩

/-! ### validity through the face steps -/

def FacesOk (np : Nat) (fs : List Face) : Prop :=
  ∀ f ∈ fs, f.1 < np ∧ f.2.1 < np ∧ f.2.2 < np

theorem valid_of_faces {g : Geometry} (hv : g.valid = true) (fs : List Face) (h : FacesOk g.numPoints fs) :
    ({ g with faces := fs } : Geometry).valid = true := by
  unfold Geometry.valid at hv ⊢
  simp only [Bool.and_eq_true, List.all_eq_true] at hv ⊢
  refine ⟨?_, hv.2⟩
  intro f hf
  obtain ⟨h1, h2, h3⟩ := h f hf
  obtain ⟨a, b, c⟩ := f
  simp_all

theorem facesOk_of_valid {g : Geometry} (hv : g.valid = true) : FacesOk g.numPoints g.faces :=
  Geometry.valid_faces hv

theorem canonFace_ok {np : Nat} {f : Face} (h : f.1 < np ∧ f.2.1 < np ∧ f.2.2 < np) :
    (canonFace f).1 < np ∧ (canonFace f).2.1 < np ∧ (canonFace f).2.2 < np := by
  rcases (canonFace_cases f).1 with e | e | e <;> rw [e]
  · exact h
  · exact ⟨h.2.1, h.2.2, h.1⟩
  · exact ⟨h.2.2, h.1, h.2.1⟩

theorem dupLoop_ok {np : Nat} (seen : List Face) (dup : Bool) (fs : List Face) (h : FacesOk np fs) :
    FacesOk np (dupLoop seen dup fs) := by
  induction fs generalizing seen dup with
  | nil => intro f hf; simp [dupLoop] at hf
  | cons f fs ih =>
    have hf0 := h f (by simp)
    have hrest : FacesOk np fs := fun x hx => h x (by simp [hx])
    simp only [dupLoop]
    split
    · exact ih seen true hrest
    · intro x hx
      simp only [List.mem_cons] at hx
      rcases hx with hx | hx
      · subst hx
        cases dup
        · exact hf0
        · exact canonFace_ok hf0
      · exact ih _ dup hrest x hx

/-! ### triangles of rotated faces -/

/-- cyclic rotation of a triangle `[x, y, z] ↦ [y, z, x]` -/
def rotTri : List (List Bytes) → List (List Bytes)
  | [x, y, z] => [y, z, x]
  | t => t

/-- the same triangle up to the choice of the first corner (orientation preserved) -/
def TriRot (t' t : List (List Bytes)) : Prop := t' = t ∨ t' = rotTri t ∨ t' = rotTri (rotTri t)

def _root_.Draco.Geometry.triangleOf (g : Geometry) (f : Face) : List (List Bytes) :=
  [g.pointTuple f.1, g.pointTuple f.2.1, g.pointTuple f.2.2]

theorem triangles_eq_map (g : Geometry) : g.triangles = g.faces.map g.triangleOf := by
  unfold Geometry.triangles Geometry.triangleOf
  apply List.map_congr_left
  intro f _
  obtain ⟨a, b, c⟩ := f
  rfl

theorem triangleOf_canon (g : Geometry) (f : Face) : TriRot (g.triangleOf (canonFace f)) (g.triangleOf f) := by
  rcases (canonFace_cases f).1 with e | e | e <;> rw [e]
  · exact Or.inl rfl
  · exact Or.inr (Or.inl rfl)
  · exact Or.inr (Or.inr rfl)

/-! ### the whole cleanup -/

/-- the original faces of `g` that survive the face-removal steps selected by `o`
    (in `g`'s point numbering, unrotated, in order) -/
def survivors (o : CleanupOpts) (pos : Attribute) (fs : List Face) : List Face :=
  let fs1 := if o.removeDegeneratedFaces then fs.filter (fun f => !isDegenerate pos f) else fs
  if o.removeDuplicateFaces then keptOrig [] fs1 else fs1

/-- the faces actually stored after the face-removal steps (survivors, possibly rotated) -/
def storedFaces (o : CleanupOpts) (pos : Attribute) (fs : List Face) : List Face :=
  let fs1 := if o.removeDegeneratedFaces then fs.filter (fun f => !isDegenerate pos f) else fs
  if o.removeDuplicateFaces then dupLoop [] false fs1 else fs1

theorem storedFaces_ok {np : Nat} (o : CleanupOpts) (pos : Attribute) (fs : List Face) (h : FacesOk np fs) :
    FacesOk np (storedFaces o pos fs) := by
  unfold storedFaces
  have h1 : FacesOk np (if o.removeDegeneratedFaces then fs.filter (fun f => !isDegenerate pos f) else fs) := by
    split
    · intro f hf
      exact h f (List.mem_filter.1 hf).1
    · exact h
  dsimp only
  split
  · exact dupLoop_ok _ _ _ h1
  · exact h1

theorem storedFaces_survivors (o : CleanupOpts) (pos : Attribute) (fs : List Face) :
    List.Forall₂ (fun f' f => f' = f ∨ f' = canonFace f) (storedFaces o pos fs) (survivors o pos fs) := by
  unfold storedFaces survivors
  dsimp only
  split
  · exact dupLoop_forall₂ _ _ _
  · generalize (if o.removeDegeneratedFaces then fs.filter (fun f => !isDegenerate pos f) else fs) = l
    induction l with
    | nil => exact List.Forall₂.nil
    | cons f l ih => exact List.Forall₂.cons (Or.inl rfl) ih

theorem faceKey_inj {f g : Face} (h : faceKey f = faceKey g) : f = g := by
  obtain ⟨a, b, c⟩ := f
  obtain ⟨a', b', c'⟩ := g
  simp only [faceKey, List.cons.injEq, and_true] at h
  obtain ⟨h1, h2, h3⟩ := h
  subst h1 h2 h3
  rfl

/-- the hash-set version of the duplicate-face loop is the list version -/
theorem dupLoopFast_eq (t : DTable) (keys : List (List Nat)) (seen : List Face) (ht : t.Rel keys)
    (hk : ∀ f, faceKey f ∈ keys ↔ f ∈ seen) (dup : Bool) (fs : List Face) :
    dupLoopFast t dup fs = dupLoop seen dup fs := by
  induction fs generalizing t keys seen dup with
  | nil => rfl
  | cons f fs ih =>
    unfold dupLoopFast dupLoop
    have hfind : (t.find (faceKey (canonFace f))).isSome = seen.contains (canonFace f) := by
      rw [ht.find]
      cases hf : findIx (faceKey (canonFace f)) keys with
      | none =>
        have : canonFace f ∉ seen := fun hm => (findIx_none.1 hf) ((hk _).2 hm)
        simp [this]
      | some j =>
        have : canonFace f ∈ seen := (hk _).1 (List.mem_of_getElem? (findIx_some hf))
        simp [this]
    simp only [hfind]
    by_cases hc : seen.contains (canonFace f) = true
    · simp only [hc, if_true]
      exact ih t keys seen ht hk true
    · have hc' : seen.contains (canonFace f) = false := by simpa using hc
      simp only [hc', Bool.false_eq_true, if_false]
      have hnew : t.find (faceKey (canonFace f)) = none := by
        have : (t.find (faceKey (canonFace f))).isSome = false := by rw [hfind]; exact hc'
        simpa using this
      congr 1
      apply ih (t.insert (faceKey (canonFace f))) (keys ++ [faceKey (canonFace f)]) (canonFace f :: seen)
        (DTable.insert_rel ht _ hnew)
      intro g
      simp only [List.mem_append, List.mem_cons, List.not_mem_nil, or_false, hk]
      constructor
      · rintro (h | h)
        · exact Or.inr h
        · exact Or.inl (faceKey_inj h)
      · rintro (h | h)
        · exact Or.inr (by rw [h])
        · exact Or.inl h

theorem removeDuplicates_eq (g : Geometry) :
    removeDuplicates g = { g with faces := dupLoop [] false g.faces } := by
  unfold removeDuplicates
  rw [dupLoopFast_eq _ [] [] (DTable.empty_rel _) (by simp) false g.faces]

theorem removeDegenerated_eq (pos : Attribute) (g : Geometry) :
    removeDegenerated pos g = { g with faces := g.faces.filter fun f => !isDegenerate pos f } := by
  unfold removeDegenerated
  dsimp only
  simp only [idxOf_mapArray]
  rfl

/-- shape of a successful run -/
theorem run_eq {o : CleanupOpts} {g g' : Geometry} (h : run o g = some g') :
    (o.removeDegeneratedFaces = false ∧ o.removeUnusedAttributes = false ∧ o.removeDuplicateFaces = false ∧
      o.makeGeometryManifold = false ∧ g' = g) ∨
    (∃ pos, g.positionAtt = some pos ∧
      g' = (if o.removeUnusedAttributes then removeUnused { g with faces := storedFaces o pos g.faces }
            else { g with faces := storedFaces o pos g.faces })) := by
  unfold run at h
  split at h
  · rename_i hc
    left
    simp only [Bool.and_eq_true, Bool.not_eq_true'] at hc
    obtain ⟨⟨⟨h1, h2⟩, h3⟩, h4⟩ := hc
    exact ⟨h1, h2, h3, h4, (Option.some.inj h).symm⟩
  · right
    split at h
    · cases h
    · rename_i pos hpos
      refine ⟨pos, hpos, ?_⟩
      have := (Option.some.inj h).symm
      rw [this]
      simp only [removeDegenerated_eq, removeDuplicates_eq]
      unfold storedFaces
      cases o.removeDegeneratedFaces <;> cases o.removeDuplicateFaces <;> cases o.removeUnusedAttributes <;> rfl

theorem forall₂_map_triangles (g : Geometry) {l1 l2 : List Face}
    (h : List.Forall₂ (fun f' f => f' = f ∨ f' = canonFace f) l1 l2) :
    List.Forall₂ TriRot (l1.map g.triangleOf) (l2.map g.triangleOf) := by
  induction h with
  | nil => exact List.Forall₂.nil
  | cons hh _ ih =>
    refine List.Forall₂.cons ?_ ih
    rcases hh with e | e
    · rw [e]; exact Or.inl rfl
    · rw [e]; exact triangleOf_canon g _

/-- the original faces that survive a successful run (all of them if there is nothing to do) -/
def survivorsOf (o : CleanupOpts) (g : Geometry) : List Face :=
  match g.positionAtt with
  | some pos => survivors o pos g.faces
  | none => g.faces

theorem forall₂_refl_triRot (l : List (List (List Bytes))) : List.Forall₂ TriRot l l := by
  induction l with
  | nil => exact List.Forall₂.nil
  | cons t l ih => exact List.Forall₂.cons (Or.inl rfl) ih

/-- **Cleanup preserves the described triangles**: after a successful run the triangles of the
    result are, one by one and in order, the triangles of the surviving original faces, each up to
    the choice of its first corner (orientation preserved). -/
theorem run_triangles {o : CleanupOpts} {g g' : Geometry} (hv : g.valid = true) (h : run o g = some g') :
    List.Forall₂ TriRot g'.triangles ((survivorsOf o g).map g.triangleOf) := by
  rcases run_eq h with ⟨h1, _, h3, _, hg⟩ | ⟨pos, hpos, hg⟩
  · have hs : survivorsOf o g = g.faces := by
      unfold survivorsOf survivors
      cases g.positionAtt <;> simp [h1, h3]
    rw [hs, hg, triangles_eq_map]
    exact forall₂_refl_triRot _
  · have hs : survivorsOf o g = survivors o pos g.faces := by simp [survivorsOf, hpos]
    have hok := storedFaces_ok o pos g.faces (facesOk_of_valid hv)
    have hv1 : ({ g with faces := storedFaces o pos g.faces } : Geometry).valid = true := valid_of_faces hv _ hok
    have htri : g'.triangles = (storedFaces o pos g.faces).map g.triangleOf := by
      rw [hg]
      split
      · rw [removeUnused_triangles _ hv1, triangles_eq_map]
        rfl
      · rw [triangles_eq_map]
        rfl
    rw [htri, hs]
    exact forall₂_map_triangles g (storedFaces_survivors o pos g.faces)

/-- without `remove_duplicate_faces` no face is rotated: the triangles are equal as lists -/
theorem run_triangles_nodup {o : CleanupOpts} {g g' : Geometry} (hv : g.valid = true)
    (h : run o g = some g') (hd : o.removeDuplicateFaces = false) :
    g'.triangles = (survivorsOf o g).map g.triangleOf := by
  rcases run_eq h with ⟨h1, _, h3, _, hg⟩ | ⟨pos, hpos, hg⟩
  · have hs : survivorsOf o g = g.faces := by
      unfold survivorsOf survivors
      cases g.positionAtt <;> simp [h1, h3]
    rw [hs, hg, triangles_eq_map]
  · have hs : survivorsOf o g = survivors o pos g.faces := by simp [survivorsOf, hpos]
    have hok := storedFaces_ok o pos g.faces (facesOk_of_valid hv)
    have hv1 : ({ g with faces := storedFaces o pos g.faces } : Geometry).valid = true := valid_of_faces hv _ hok
    have hss : storedFaces o pos g.faces = survivors o pos g.faces := by
      simp only [storedFaces, survivors, hd]
      rfl
    rw [hg, hs, ← hss]
    split
    · rw [removeUnused_triangles _ hv1, triangles_eq_map]
      rfl
    · rw [triangles_eq_map]
      rfl

end Cleanup
end Draco
