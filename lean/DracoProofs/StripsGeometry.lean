import DracoProofs.StripsDegenerate
import DracoProofs.Cleanup
/-
  DracoProofs.StripsGeometry — the strip theorems for `Strips.generate?` on a `Geometry`
  (corner table of the position attribute).
-/
namespace Draco
namespace Strips

/-- Clause I1 of property C13 (`c13_opposite_symm` in DracoProps/C13.lean, slice "corner table"):
    the opposite table built by `CornerTable::Create` is a symmetric pairing.  It is a hypothesis
    here only because the corner-table proofs live in another library file; it is discharged by
    `fun _ _ h c o hco => (c13_opposite_symm h c o hco).2.2.1`. -/
def CreateSymm : Prop :=
  ∀ (faces : Faces) (ct : CornerTable), CornerTable.create faces = some ct →
    ∀ c o, ct.opposite (some c) = some o → ct.opposite (some o) = some c

/-- executable form of the hypothesis for one table -/
def oppInvB (opp : Array (Option Nat)) : Bool :=
  (List.range opp.size).all fun c =>
    match oget opp c with
    | none => true
    | some o => oget opp o == some c

theorem positionOpp_inv (hs : CreateSymm) {g : Geometry} {opp : Array (Option Nat)}
    (h : positionOpp g = some opp) (faces : Array Face) : OppInv { faces := faces, opp := opp } := by
  unfold positionOpp at h
  split at h
  · cases h
  · dsimp only at h
    split at h
    · cases h
    · rename_i pos _ ct hct
      cases h
      intro c o hco
      exact hs _ ct hct c o hco

theorem generate?_eq {restart : Bool} {g : Geometry} {s : List Nat} (h : generate? restart g = some s) :
    ∃ opp, positionOpp g = some opp ∧ s = generateWith opp restart g.faces := by
  unfold generate? at h
  cases hp : positionOpp g with
  | none => simp [hp] at h
  | some opp =>
    simp only [hp, Option.map_some, Option.some.injEq] at h
    exact ⟨opp, rfl, h.symm⟩

/-- the faces a consumer of the strip is expected to draw -/
def expectedFaces (restart : Bool) (faces : List Face) : List Face :=
  if restart then faces else faces.filter fun f => !isDegenerateTriangle f

/-- **strips describe the mesh** (both output modes) -/
theorem generate?_spec (hs : CreateSymm) (restart : Bool) (g : Geometry) (s : List Nat)
    (hR : ∀ f ∈ g.faces, f.1 ≠ restartIndex ∧ f.2.1 ≠ restartIndex ∧ f.2.2 ≠ restartIndex)
    (h : generate? restart g = some s) :
    ∃ l, l.Perm (expectedFaces restart g.faces) ∧ List.Forall₂ FaceRot (triangles restart s) l := by
  obtain ⟨opp, hopp, rfl⟩ := generate?_eq h
  have hinv := positionOpp_inv hs hopp g.faces.toArray
  cases restart
  · exact generateWith_degenerate_spec opp g.faces hinv
  · exact generateWith_restart_spec opp g.faces hinv hR

theorem triangleOf_faceRot (g : Geometry) {f' f : Face} (h : FaceRot f' f) :
    Cleanup.TriRot (g.triangleOf f') (g.triangleOf f) := by
  rcases h with e | e | e <;> subst e
  · exact Or.inl rfl
  · exact Or.inr (Or.inl rfl)
  · exact Or.inr (Or.inr rfl)

theorem forall₂_triangleOf (g : Geometry) {l1 l2 : List Face} (h : List.Forall₂ FaceRot l1 l2) :
    List.Forall₂ Cleanup.TriRot (l1.map g.triangleOf) (l2.map g.triangleOf) := by
  induction h with
  | nil => exact List.Forall₂.nil
  | cons hh _ ih => exact List.Forall₂.cons (triangleOf_faceRot g hh) ih

/-- valid meshes with fewer than `2^32` points never use the restart index as a point id -/
theorem faces_ne_restart {g : Geometry} (hv : g.valid = true) (hn : g.numPoints ≤ restartIndex) :
    ∀ f ∈ g.faces, f.1 ≠ restartIndex ∧ f.2.1 ≠ restartIndex ∧ f.2.2 ≠ restartIndex := by
  intro f hf
  obtain ⟨h1, h2, h3⟩ := Geometry.valid_faces hv f hf
  refine ⟨?_, ?_, ?_⟩ <;> omega

end Strips
end Draco
