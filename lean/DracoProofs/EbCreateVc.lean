import DracoProofs.EbCreateProps
/-
  Two facts about `vertex_corners_` / `NumIsolatedVertices()` of a table built by `CornerTable.create`
  that the Edgebreaker-encoder theorems assume as named hypotheses:

  (G1) `hvcE`: the recorded left-most corner of a vertex is a corner of that vertex
       (`create_vertexCorners_vertex`, `ofTable_hvcE`);
  (G2) `hiso`: `NumIsolatedVertices()` counts exactly the vertices without a recorded corner
       (`create_numIsolated`, `ofTable_hiso`).

  G1 needs a new invariant of `ComputeVertexCorners`: every walk of `cvcCorner` only marks corners that
  were unvisited when the walk started.  This follows from the visited set being closed under
  `SwingRight`/`SwingLeft` between two calls of `cvcCorner` (`OInv`; each call marks a whole swing orbit, which
  needs adequate fuel).  Closedness is obtained from the label-coherence lemmas `cvcLeft_coh` /
  `cvcRight_coh` of `CornerTableCoherent.lean` by a simulation: the visited marks of a walk evolve like the
  labels of the same walk run with `nm = true`, `v = 1` on the 0/1 array of the marks.
-/
namespace Draco

/-! ### the visited corners are closed under the swings -/

/-- the visited marks are constant along `SwingRight` -/
def OInv (opp : Array (Option Nat)) (vis : Array Bool) : Prop :=
  ∀ a b, swingRightA opp a = some b → vis.getD a false = vis.getD b false

/-- the marks as a 0/1 label array -/
def fakeCtv (vis : Array Bool) : Array Nat := vis.map fun b => if b then 1 else 0

theorem vget_fakeCtv (vis : Array Bool) (x : Nat) :
    vget (fakeCtv vis) x = if vis.getD x false = true then 1 else 0 := by
  unfold vget fakeCtv
  simp only [Array.getD_eq_getD_getElem?, Array.getElem?_map]
  cases vis[x]? with
  | none => simp
  | some b => cases b <;> simp

/-- the label array of `st'` is the 0/1 image of the marks of `st` -/
def Sim (st st' : VCState) : Prop :=
  st'.ctv.size = st.visitedC.size ∧
  ∀ x, vget st'.ctv x = if st.visitedC.getD x false = true then 1 else 0

theorem sim_set {vis : Array Bool} {ctv : Array Nat} (act : Nat) (hs : ctv.size = vis.size)
    (h : ∀ x, vget ctv x = if vis.getD x false = true then 1 else 0) :
    (ctv.setIfInBounds act 1).size = (vis.setIfInBounds act true).size ∧
    ∀ x, vget (ctv.setIfInBounds act 1) x =
      if (vis.setIfInBounds act true).getD x false = true then 1 else 0 := by
  refine ⟨by simp [Array.size_setIfInBounds, hs], ?_⟩
  intro x
  rw [vget_set, bget_set, hs]
  by_cases hc : act = x ∧ act < vis.size
  · rw [if_pos hc, if_pos hc]; simp
  · rw [if_neg hc, if_neg hc]; exact h x

theorem markL_sim (v : Nat) (nm : Bool) (act : Nat) {st st' : VCState} (h : Sim st st') :
    Sim (markL v nm st act) (markL 1 true st' act) := by
  simp only [markL_eq, Sim, if_true]
  exact sim_set act h.1 h.2

theorem markR_sim (v : Nat) (nm : Bool) (act : Nat) {st st' : VCState} (h : Sim st st') :
    Sim (markR v nm st act) (markR 1 true st' act) := by
  simp only [markR_eq, Sim, if_true]
  exact sim_set act h.1 h.2

theorem cvcLeft_sim (opp : Array (Option Nat)) (c v : Nat) (nm : Bool) :
    ∀ (fuel act : Nat) (st st' : VCState), Sim st st' →
      Sim (cvcLeft opp c v nm fuel act st).1 (cvcLeft opp c 1 true fuel act st').1 ∧
      (cvcLeft opp c v nm fuel act st).2 = (cvcLeft opp c 1 true fuel act st').2 := by
  intro fuel
  induction fuel with
  | zero => intro act st st' h; simpa [cvcLeft] using h
  | succ fuel ih =>
    intro act st st' h
    have hm := markL_sim v nm act h
    conv => unfold cvcLeft
    simp only []
    split
    · exact ⟨hm, rfl⟩
    · split
      · exact ⟨hm, rfl⟩
      · exact ih _ _ _ hm

theorem cvcRight_sim (opp : Array (Option Nat)) (v : Nat) (nm : Bool) :
    ∀ (fuel : Nat) (act : Option Nat) (st st' : VCState), Sim st st' →
      Sim (cvcRight opp v nm fuel act st) (cvcRight opp 1 true fuel act st') := by
  intro fuel
  induction fuel with
  | zero => intro act st st' h; simpa [cvcRight] using h
  | succ fuel ih =>
    intro act st st' h
    cases act with
    | none => simpa [cvcRight] using h
    | some a =>
      conv => unfold cvcRight
      exact ih _ _ _ (markR_sim v nm a h)

theorem oinv_of_sim {opp : Array (Option Nat)} {st st' : VCState} (h : Sim st st')
    (hl : LInv opp st'.ctv) : OInv opp st.visitedC := by
  intro a b hab
  have := hl a b hab
  rw [h.2 a, h.2 b] at this
  cases ha : st.visitedC.getD a false <;> cases hb : st.visitedC.getD b false <;> simp [ha, hb] at this ⊢

theorem linv_of_oinv {opp : Array (Option Nat)} {st st' : VCState} (h : Sim st st')
    (ho : OInv opp st.visitedC) : LInv opp st'.ctv := by
  intro a b hab
  rw [h.2 a, h.2 b, ho a b hab]

section
variable {ctv0 : Array Nat} {opp : Array (Option Nat)} {k : Nat}

/-- one call of `cvcCorner` (adequate fuel) marks a whole swing orbit -/
theorem cvcCorner_oinv (hn : ctv0.size = 3 * k) (hopp : OppOK ctv0 ctv0.size opp)
    (fuel : Nat) (hf : ctv0.size ≤ fuel) (st : VCState) (c : Nat) (hc : c < ctv0.size)
    (hsz : st.visitedC.size = ctv0.size) (hO : OInv opp st.visitedC) :
    OInv opp (cvcCorner opp fuel st c).visitedC := by
  cases hvis : st.visitedC.getD c false with
  | true => unfold cvcCorner; simp only [hvis, if_true]; exact hO
  | false =>
    obtain ⟨nm, v, st1, e1, _, e3⟩ := cvcCorner_eq opp fuel st c hvis
    rw [e3]
    have hP := swing_pinj hn hopp
    have hsim : Sim st1 { st1 with ctv := fakeCtv st1.visitedC } :=
      ⟨by simp [fakeCtv], vget_fakeCtv _⟩
    generalize hst1' : ({ st1 with ctv := fakeCtv st1.visitedC } : VCState) = st1' at hsim
    obtain ⟨sL, fL⟩ := cvcLeft_sim opp c v nm fuel c st1 st1' hsim
    have ht := hP.symm.termIn hc
    have hsz1 : st1'.ctv.size = ctv0.size := by rw [hsim.1, e1, hsz]
    have hL1 : LInv opp st1'.ctv := linv_of_oinv hsim (by rw [e1]; exact hO)
    have hpre : PreL opp c 1 st1'.ctv c :=
      ⟨fun a b hab _ _ => hL1 a b hab, fun _ _ h => absurd rfl h, fun h => absurd rfl h⟩
    obtain ⟨r1, r2, r3⟩ := cvcLeft_coh hP c 1 _ _ ht fuel st1' (by omega) hsz1 hc hpre
    split
    · rename_i hflag
      have hflag' : (cvcLeft opp c 1 true fuel c st1').2 = true := by rw [← fL]; exact hflag
      obtain ⟨i, L, h1, h2⟩ := cvcLeft_flag opp c 1 true _ _ _ hflag'
      obtain ⟨j, hj, hnone⟩ := right_dies hn hopp c hc i L h1 h2
      obtain ⟨q1, q2⟩ := r3 hflag'
      refine oinv_of_sim (cvcRight_sim opp v nm fuel _ _ _ sL) ?_
      refine cvcRight_coh hP 1 j _ hnone fuel _ (by omega) r1 ?_ ⟨?_, ?_⟩
      · intro x hx; exact (hP.fg c x hx).2
      · intro a b hab hne
        refine q1 a b hab ?_
        intro hac
        subst hac
        exact hne hab
      · intro x l hx hl
        have := (hP.fg c x hx).1
        rw [this] at hl
        injection hl with hl
        subst hl
        exact q2
    · rename_i hflag
      refine oinv_of_sim sL (r2 ?_)
      rw [← fL]; simpa using hflag

end

/-! ### G1: a recorded corner of a vertex carries that vertex -/

/-- every recorded `vertex_corners_[v] = L` is a visited corner with label `v` -/
def GInv (st : VCState) : Prop :=
  ∀ v L, oget st.vc v = some L → st.visitedC.getD L false = true ∧ vget st.ctv L = v

/-- the invariant inside a walk of `cvcCorner` for the vertex `v`; `vis0` are the marks at its start -/
structure WInv (ctv0 : Array Nat) (vis0 : Array Bool) (v : Nat) (st : VCState) : Prop where
  size_ctv : st.ctv.size = ctv0.size
  size_visC : st.visitedC.size = ctv0.size
  other : ∀ v' L, v' ≠ v → oget st.vc v' = some L → vis0.getD L false = true ∧ vget st.ctv L = v'
  self : ∀ L, oget st.vc v = some L → st.visitedC.getD L false = true ∧ vget st.ctv L = v
  lab : ∀ x, vis0.getD x false = false → vget st.ctv x = vget ctv0 x ∨ vget st.ctv x = v
  le : BLe vis0 st.visitedC

theorem mark_winv {ctv0 : Array Nat} {vis0 : Array Bool} {v : Nat} {st st' : VCState} (nm : Bool) (act : Nat)
    (h : WInv ctv0 vis0 v st) (hact : act < ctv0.size) (hun : vis0.getD act false = false)
    (hlab : nm = false → vget ctv0 act = v)
    (e1 : st'.ctv = if nm then st.ctv.setIfInBounds act v else st.ctv)
    (e2 : st'.visitedC = st.visitedC.setIfInBounds act true)
    (e3 : st'.vc = st.vc ∨ st'.vc = st.vc.setIfInBounds v (some act)) :
    WInv ctv0 vis0 v st' := by
  -- labels after the mark
  have hctv : ∀ x, vget st'.ctv x = if act = x ∧ nm = true then v else vget st.ctv x := by
    intro x
    rw [e1]
    cases nm with
    | false => simp
    | true =>
      simp only [if_true, and_true]
      rw [vget_set, h.size_ctv]
      simp [hact]
  have hactv : vget st'.ctv act = v := by
    rw [hctv]
    cases nm with
    | true => simp
    | false =>
      simp only [Bool.false_eq_true, and_false, if_false]
      rcases h.lab act hun with h1 | h1
      · rw [h1]; exact hlab rfl
      · exact h1
  have hvact : st'.visitedC.getD act false = true := by
    rw [e2, bget_set, h.size_visC]; simp [hact]
  have hmono : ∀ x, st.visitedC.getD x false = true → st'.visitedC.getD x false = true := by
    intro x hx; rw [e2]; exact bget_set_true_mono _ _ _ hx
  refine ⟨?_, ?_, ?_, ?_, ?_, ?_⟩
  · rw [e1]; split <;> simp [Array.size_setIfInBounds, h.size_ctv]
  · rw [e2]; simp [Array.size_setIfInBounds, h.size_visC]
  · intro v' L hv' hL
    have hold : oget st.vc v' = some L := by
      rcases e3 with e3 | e3
      · rw [e3] at hL; exact hL
      · rw [e3, oget_set_ne _ _ (Ne.symm hv')] at hL; exact hL
    obtain ⟨h1, h2⟩ := h.other v' L hv' hold
    refine ⟨h1, ?_⟩
    rw [hctv]
    have : act ≠ L := by intro he; rw [he, h1] at hun; cases hun
    simp only [this, false_and, if_false]
    exact h2
  · intro L hL
    have hcases : L = act ∨ oget st.vc v = some L := by
      rcases e3 with e3 | e3
      · rw [e3] at hL; exact Or.inr hL
      · rw [e3, oget_set] at hL
        split at hL
        · injection hL with hL; exact Or.inl hL.symm
        · exact Or.inr hL
    rcases hcases with he | hold
    · subst he; exact ⟨hvact, hactv⟩
    · obtain ⟨h1, h2⟩ := h.self L hold
      refine ⟨hmono L h1, ?_⟩
      rw [hctv]
      split
      · rfl
      · exact h2
  · intro x hx
    rw [hctv]
    split
    · exact Or.inr rfl
    · exact h.lab x hx
  · intro x hx
    exact hmono x (h.le x hx)

theorem markL_winv {ctv0 : Array Nat} {vis0 : Array Bool} {v : Nat} {st : VCState} (nm : Bool) (act : Nat)
    (h : WInv ctv0 vis0 v st) (hact : act < ctv0.size) (hun : vis0.getD act false = false)
    (hlab : nm = false → vget ctv0 act = v) : WInv ctv0 vis0 v (markL v nm st act) :=
  mark_winv nm act h hact hun hlab (by simp [markL_eq]) (by simp [markL_eq]) (Or.inr (by simp [markL_eq]))

theorem markR_winv {ctv0 : Array Nat} {vis0 : Array Bool} {v : Nat} {st : VCState} (nm : Bool) (act : Nat)
    (h : WInv ctv0 vis0 v st) (hact : act < ctv0.size) (hun : vis0.getD act false = false)
    (hlab : nm = false → vget ctv0 act = v) : WInv ctv0 vis0 v (markR v nm st act) :=
  mark_winv nm act h hact hun hlab (by simp [markR_eq]) (by simp [markR_eq]) (Or.inl (by simp [markR_eq]))

section
variable {ctv0 : Array Nat} {opp : Array (Option Nat)} {k : Nat}

theorem cvcLeft_winv (hn : ctv0.size = 3 * k) (hopp : OppOK ctv0 ctv0.size opp) {vis0 : Array Bool}
    (hO : OInv opp vis0) (c v : Nat) (nm : Bool) (p : Nat) (hnmp : nm = false → p = v) :
    ∀ (fuel act : Nat) (st : VCState), WInv ctv0 vis0 v st → act < ctv0.size →
      vis0.getD act false = false → vget ctv0 act = p →
      WInv ctv0 vis0 v (cvcLeft opp c v nm fuel act st).1 := by
  intro fuel
  induction fuel with
  | zero => intro act st h _ _ _; simpa [cvcLeft] using h
  | succ fuel ih =>
    intro act st h hact hun hp
    have hm := markL_winv nm act h hact hun (fun hf => by rw [hp]; exact hnmp hf)
    unfold cvcLeft
    simp only []
    split
    · exact hm
    · rename_i nx hsw
      split
      · exact hm
      · obtain ⟨h1, h2, h3⟩ := swingLeftA_facts hn hopp hsw
        exact ih nx _ hm h1 (by rw [hO nx act h3]; exact hun) (by rw [h2, hp])

theorem cvcRight_winv (hn : ctv0.size = 3 * k) (hopp : OppOK ctv0 ctv0.size opp) {vis0 : Array Bool}
    (hO : OInv opp vis0) (v : Nat) (nm : Bool) (p : Nat) (hnmp : nm = false → p = v) :
    ∀ (fuel : Nat) (act : Option Nat) (st : VCState), WInv ctv0 vis0 v st →
      (∀ a, act = some a → a < ctv0.size ∧ vis0.getD a false = false ∧ vget ctv0 a = p) →
      WInv ctv0 vis0 v (cvcRight opp v nm fuel act st) := by
  intro fuel
  induction fuel with
  | zero => intro act st h _; simpa [cvcRight] using h
  | succ fuel ih =>
    intro act st h hact
    cases act with
    | none => simpa [cvcRight] using h
    | some a =>
      unfold cvcRight
      obtain ⟨ha, hun, hp⟩ := hact a rfl
      have hm := markR_winv nm a h ha hun (fun hf => by rw [hp]; exact hnmp hf)
      refine ih _ _ hm ?_
      intro b hb
      obtain ⟨h1, h2, _⟩ := swingRightA_facts hn hopp hb
      exact ⟨h1, by rw [← hO a b hb]; exact hun, by rw [h2, hp]⟩

/-- `cvcCorner` on an unvisited corner, with everything the walks start from -/
theorem cvcCorner_eq' (opp : Array (Option Nat)) (fuel : Nat) (st : VCState) (c : Nat)
    (h : st.visitedC.getD c false = false) :
    ∃ nm v st1, st1.visitedC = st.visitedC ∧ st1.ctv = st.ctv ∧ st1.parents.size = st.parents.size + (if nm then 1 else 0) ∧
      (nm = true → v = st.vc.size ∧ st1.vc = st.vc.push none ∧
        st1.visitedV = (st.visitedV.push false).setIfInBounds v true) ∧
      (nm = false → v = vget st.ctv c ∧ st1.vc = st.vc ∧ st1.visitedV = st.visitedV.setIfInBounds v true) ∧
      cvcCorner opp fuel st c =
        if (cvcLeft opp c v nm fuel c st1).2 = true then
          cvcRight opp v nm fuel (swingRightA opp c) (cvcLeft opp c v nm fuel c st1).1
        else (cvcLeft opp c v nm fuel c st1).1 := by
  unfold cvcCorner
  simp only [h, Bool.false_eq_true, if_false]
  refine ⟨_, _, _, ?_, ?_, ?_, ?_, ?_, rfl⟩
  · split <;> rfl
  · split <;> rfl
  · split <;> simp
  · intro hnm; simp [hnm]
  · intro hnm; simp [hnm]

theorem cvcCorner_ginv {numOrig : Nat} (hn : ctv0.size = 3 * k) (hopp : OppOK ctv0 ctv0.size opp)
    (fuel : Nat) (st : VCState) (c : Nat) (hc : c < ctv0.size)
    (hV : VInv ctv0 numOrig st) (hO : OInv opp st.visitedC) (hG : GInv st) :
    GInv (cvcCorner opp fuel st c) := by
  cases hvis : st.visitedC.getD c false with
  | true => unfold cvcCorner; simp only [hvis, if_true]; exact hG
  | false =>
    obtain ⟨nm, v, st1, e1, e2, _, et, ef, e3⟩ := cvcCorner_eq' opp fuel st c hvis
    rw [e3]
    have hvc : ∀ x, oget st1.vc x = oget st.vc x := by
      intro x
      cases nm with
      | true => rw [(et rfl).2.1, oget_push_none]
      | false => rw [(ef rfl).2.1]
    have hnmp : nm = false → vget ctv0 c = v := by
      intro hf; rw [(ef hf).1, hV.unvisited c hvis]
    have hW1 : WInv ctv0 st.visitedC v st1 := by
      refine ⟨by rw [e2]; exact hV.size_ctv, by rw [e1]; exact hV.size_visC, ?_, ?_, ?_, ?_⟩
      · intro v' L _ hL
        rw [hvc] at hL
        rw [e2]; exact hG v' L hL
      · intro L hL
        rw [hvc] at hL
        rw [e1, e2]; exact hG v L hL
      · intro x hx
        rw [e2]; exact Or.inl (hV.unvisited x hx)
      · rw [e1]; exact BLe.refl _
    have hWL := cvcLeft_winv hn hopp hO c v nm (vget ctv0 c) hnmp fuel c st1 hW1 hc hvis rfl
    have hfin : ∀ {s : VCState}, WInv ctv0 st.visitedC v s → GInv s := by
      intro s hs v' L hL
      by_cases hv' : v' = v
      · subst hv'; exact hs.self L hL
      · obtain ⟨h1, h2⟩ := hs.other v' L hv' hL
        exact ⟨hs.le L h1, h2⟩
    split
    · refine hfin (cvcRight_winv hn hopp hO v nm (vget ctv0 c) hnmp fuel _ _ hWL ?_)
      intro a ha
      obtain ⟨h1, h2, _⟩ := swingRightA_facts hn hopp ha
      exact ⟨h1, by rw [← hO c a ha]; exact hvis, h2⟩
    · exact hfin hWL

/-- the combined invariant of the face loop -/
structure VGInv (ctv0 : Array Nat) (opp : Array (Option Nat)) (numOrig : Nat) (st : VCState) : Prop where
  vinv : VInv ctv0 numOrig st
  oinv : OInv opp st.visitedC
  ginv : GInv st

theorem cvcCorner_vginv {numOrig : Nat} (hn : ctv0.size = 3 * k) (hopp : OppOK ctv0 ctv0.size opp)
    (fuel : Nat) (hf : ctv0.size ≤ fuel) (st : VCState) (c : Nat) (hc : c < ctv0.size)
    (h : VGInv ctv0 opp numOrig st) : VGInv ctv0 opp numOrig (cvcCorner opp fuel st c) :=
  ⟨cvcCorner_inv numOrig hn hopp fuel st c hc h.vinv,
   cvcCorner_oinv hn hopp fuel hf st c hc h.vinv.size_visC h.oinv,
   cvcCorner_ginv hn hopp fuel st c hc h.vinv h.oinv h.ginv⟩

theorem computeVertexCornersF_ginv (hn : ctv0.size = 3 * k) (hopp : OppOK ctv0 ctv0.size opp)
    (fuel : Nat) (hf : ctv0.size ≤ fuel) :
    VGInv ctv0 opp (numVerticesOf ctv0) (computeVertexCornersF ctv0 opp (numVerticesOf ctv0) fuel) := by
  unfold computeVertexCornersF
  apply foldl_range_inv' (VGInv ctv0 opp (numVerticesOf ctv0))
  · refine ⟨⟨rfl, by simp, by simp, ?_, fun c _ => rfl⟩, ?_, ?_⟩
    · intro c hc
      have := vget_lt_numVerticesOf ctv0 c hc
      simp only [Array.size_empty, Nat.add_zero]
      refine ⟨this, ?_⟩
      unfold vparent; simp [this]
    · intro a b _
      simp only [Array.getD_eq_getD_getElem?, Array.getElem?_replicate]
      split <;> split <;> rfl
    · intro v L hL
      simp only [oget_replicate] at hL
      cases hL
  · intro f hf' s hs
    unfold cvcFace
    split
    · exact hs
    · exact cvcCorner_vginv hn hopp fuel hf _ _ (by omega)
        (cvcCorner_vginv hn hopp fuel hf _ _ (by omega) (cvcCorner_vginv hn hopp fuel hf _ _ (by omega) hs))

end

namespace CornerTable

/-- **G1** in `CornerTable` terms: `vertex_corners_[v] = c` is a valid corner with `Vertex(c) = v`. -/
theorem create_vertexCorners_vertex {faces : Faces} {table : CornerTable} (hc : create faces = some table)
    (v c : Nat) (h : oget table.vertexCorners v = some c) :
    c < 3 * faces.size ∧ vget table.cornerToVertex c = v := by
  obtain ⟨h1, _, h3, _, _⟩ := createF_eq hc
  have hsz := size_initCtv faces
  have hinv := computeVertexCornersF_ginv hsz (finalOpp_inv (initCtv faces) (3 * faces.size + 1))
    (3 * faces.size + 1) (by rw [hsz]; omega)
  rw [h3] at h
  obtain ⟨g1, g2⟩ := hinv.ginv v c h
  refine ⟨?_, by rw [h1]; exact g2⟩
  have := bget_lt g1
  rw [hinv.vinv.size_visC, hsz] at this
  exact this

end CornerTable

end Draco

/-! ### G2: a vertex is marked visited exactly when its corner is recorded -/

namespace Draco

/-- `visited_vertices[v]` ⇔ `vertex_corners_[v]` is valid -/
structure HInv (st : VCState) : Prop where
  size_vv : st.visitedV.size = st.vc.size
  iff : ∀ v, st.visitedV.getD v false = (oget st.vc v).isSome

theorem cvcLeft_vcfacts (opp : Array (Option Nat)) (c v : Nat) (nm : Bool) :
    ∀ (fuel act : Nat) (st : VCState),
      (cvcLeft opp c v nm fuel act st).1.visitedV = st.visitedV ∧
      (cvcLeft opp c v nm fuel act st).1.vc.size = st.vc.size ∧
      (∀ x, x ≠ v → oget (cvcLeft opp c v nm fuel act st).1.vc x = oget st.vc x) ∧
      ((oget st.vc v).isSome = true → (oget (cvcLeft opp c v nm fuel act st).1.vc v).isSome = true) ∧
      (0 < fuel → v < st.vc.size → (oget (cvcLeft opp c v nm fuel act st).1.vc v).isSome = true) := by
  intro fuel
  induction fuel with
  | zero => intro act st; simp [cvcLeft]
  | succ fuel ih =>
    intro act st
    obtain ⟨s1, _, s3⟩ := markL_simple v nm st act
    have hne : ∀ x, x ≠ v → oget (markL v nm st act).vc x = oget st.vc x := by
      intro x hx; simp only [markL_eq]; exact oget_set_ne _ _ (Ne.symm hx)
    have hsome : (oget st.vc v).isSome = true ∨ v < st.vc.size →
        (oget (markL v nm st act).vc v).isSome = true := by
      intro h
      simp only [markL_eq]
      rw [oget_set]
      split
      · rfl
      · rename_i hcond
        rcases h with h | h
        · exact h
        · exact absurd ⟨rfl, h⟩ hcond
    have hm : (markL v nm st act).visitedV = st.visitedV ∧
        (markL v nm st act).vc.size = st.vc.size ∧
        (∀ x, x ≠ v → oget (markL v nm st act).vc x = oget st.vc x) ∧
        ((oget st.vc v).isSome = true → (oget (markL v nm st act).vc v).isSome = true) ∧
        (0 < fuel + 1 → v < st.vc.size → (oget (markL v nm st act).vc v).isSome = true) :=
      ⟨s1, s3, hne, fun h => hsome (Or.inl h), fun _ h => hsome (Or.inr h)⟩
    unfold cvcLeft
    simp only []
    split
    · exact hm
    · split
      · exact hm
      · obtain ⟨r1, r2, r3, r4, _⟩ := ih _ (markL v nm st act)
        refine ⟨by rw [r1, s1], by rw [r2, s3], fun x hx => by rw [r3 x hx, hne x hx],
          fun h => r4 (hsome (Or.inl h)), fun _ h => r4 (hsome (Or.inr h))⟩

theorem cvcRight_vcfacts (opp : Array (Option Nat)) (v : Nat) (nm : Bool) :
    ∀ (fuel : Nat) (act : Option Nat) (st : VCState),
      (cvcRight opp v nm fuel act st).visitedV = st.visitedV ∧ (cvcRight opp v nm fuel act st).vc = st.vc := by
  intro fuel
  induction fuel with
  | zero => intro act st; simp [cvcRight]
  | succ fuel ih =>
    intro act st
    cases act with
    | none => simp [cvcRight]
    | some a =>
      unfold cvcRight
      obtain ⟨r1, r2⟩ := ih (swingRightA opp a) (markR v nm st a)
      obtain ⟨s1, _, s3⟩ := markR_simple v nm st a
      exact ⟨by rw [r1, s1], by rw [r2, s3]⟩

theorem oget_size_none (a : Array (Option Nat)) : oget a a.size = none := by
  cases h : oget a a.size with
  | none => rfl
  | some x => exact absurd (oget_lt h) (Nat.lt_irrefl _)

section
variable {ctv0 : Array Nat} {opp : Array (Option Nat)} {k : Nat}

theorem cvcCorner_hinv {numOrig : Nat} (fuel : Nat) (hf : 0 < fuel) (st : VCState) (c : Nat)
    (hc : c < ctv0.size) (hV : VInv ctv0 numOrig st) (hH : HInv st) :
    HInv (cvcCorner opp fuel st c) := by
  cases hvis : st.visitedC.getD c false with
  | true => unfold cvcCorner; simp only [hvis, if_true]; exact hH
  | false =>
    obtain ⟨nm, v, st1, _, _, _, et, ef, e3⟩ := cvcCorner_eq' opp fuel st c hvis
    -- the prepared state: sizes agree, `v` is in range and marked, the other entries are as before
    have hprep : st1.visitedV.size = st1.vc.size ∧ v < st1.vc.size ∧
        st1.visitedV.getD v false = true ∧
        ∀ x, x ≠ v → st1.visitedV.getD x false = (oget st1.vc x).isSome := by
      cases nm with
      | true =>
        obtain ⟨hv, h1, h2⟩ := et rfl
        rw [h1, h2]
        refine ⟨by simp [Array.size_setIfInBounds, hH.size_vv], by simp [hv], ?_, ?_⟩
        · rw [bget_set]; simp [hv, hH.size_vv]
        · intro x hx
          rw [bget_set, oget_push_none, bget_push_false]
          simp only [Ne.symm hx, false_and, if_false]
          exact hH.iff x
      | false =>
        obtain ⟨hv, h1, h2⟩ := ef rfl
        have hvlt : v < st.vc.size := by
          rw [hv, hV.size_vc]; exact (hV.parent c hc).1
        rw [h1, h2]
        refine ⟨by simp [Array.size_setIfInBounds, hH.size_vv], hvlt, ?_, ?_⟩
        · rw [bget_set]; simp [hH.size_vv, hvlt]
        · intro x hx
          rw [bget_set]
          simp only [Ne.symm hx, false_and, if_false]
          exact hH.iff x
    obtain ⟨p1, p2, p3, p4⟩ := hprep
    obtain ⟨l1, l2, l3, _, l5⟩ := cvcLeft_vcfacts opp c v nm fuel c st1
    have hL : HInv (cvcLeft opp c v nm fuel c st1).1 := by
      refine ⟨by rw [l1, l2]; exact p1, ?_⟩
      intro x
      by_cases hx : x = v
      · subst hx; rw [l1, p3, l5 hf p2]
      · rw [l1, l3 x hx]; exact p4 x hx
    rw [e3]
    split
    · obtain ⟨r1, r2⟩ := cvcRight_vcfacts opp v nm fuel (swingRightA opp c) (cvcLeft opp c v nm fuel c st1).1
      exact ⟨by rw [r1, r2]; exact hL.size_vv, fun x => by rw [r1, r2]; exact hL.iff x⟩
    · exact hL

theorem computeVertexCornersF_hinv (hn : ctv0.size = 3 * k) (hopp : OppOK ctv0 ctv0.size opp)
    (fuel : Nat) (hf : 0 < fuel) :
    HInv (computeVertexCornersF ctv0 opp (numVerticesOf ctv0) fuel) := by
  have key := foldl_range_inv' (fun st => VInv ctv0 (numVerticesOf ctv0) st ∧ HInv st)
    (cvcFace opp fuel)
    { ctv := ctv0, vc := Array.replicate (numVerticesOf ctv0) none, parents := #[],
      visitedV := Array.replicate (numVerticesOf ctv0) false,
      visitedC := Array.replicate ctv0.size false } (ctv0.size / 3) ?_ ?_
  · exact key.2
  · refine ⟨⟨rfl, by simp, by simp, ?_, fun c _ => rfl⟩, ⟨by simp, ?_⟩⟩
    · intro c hc
      have := vget_lt_numVerticesOf ctv0 c hc
      simp only [Array.size_empty, Nat.add_zero]
      refine ⟨this, ?_⟩
      unfold vparent; simp [this]
    · intro v
      simp only [oget_replicate, Array.getD_eq_getD_getElem?, Array.getElem?_replicate]
      split <;> rfl
  · intro f hf' s hs
    refine ⟨cvcFace_inv _ hn hopp fuel s f hf' hs.1, ?_⟩
    unfold cvcFace
    split
    · exact hs.2
    · have hV0 := hs.1
      have hV1 := cvcCorner_inv (numVerticesOf ctv0) hn hopp fuel s (3 * f) (by omega) hV0
      have hV2 := cvcCorner_inv (numVerticesOf ctv0) hn hopp fuel _ (3 * f + 1) (by omega) hV1
      have l1 := cvcCorner_hinv (opp := opp) fuel hf s (3 * f) (by omega) hV0 hs.2
      have l2 := cvcCorner_hinv (opp := opp) fuel hf _ (3 * f + 1) (by omega) hV1 l1
      exact cvcCorner_hinv (opp := opp) fuel hf _ (3 * f + 2) (by omega) hV2 l2

end

/-! ### the count -/

theorem foldl_count_false (l : List Bool) : ∀ k : Nat,
    l.foldl (fun k b => if b then k else k + 1) k = k + l.countP (fun b => !b) := by
  induction l with
  | nil => intro k; simp
  | cons b l ih =>
    intro k
    simp only [List.foldl_cons, List.countP_cons]
    rw [ih]
    cases b <;> simp; omega

theorem countP_range_getD (l : List Bool) (q : Bool → Bool) :
    (List.range l.length).countP (fun i => q (l.getD i false)) = l.countP q := by
  induction l with
  | nil => simp
  | cons b l ih =>
    rw [List.length_cons, List.range_succ_eq_map, List.countP_cons, List.countP_map, List.countP_cons]
    simp only [List.getD_cons_zero]
    have : ((fun i => q ((b :: l).getD i false)) ∘ Nat.succ) = fun i => q (l.getD i false) := by
      funext i; simp
    rw [this, ih]

/-- number of `false` marks = number of indices whose mark is `false` -/
theorem foldl_visited_count (a : Array Bool) :
    a.foldl (fun k b => if b then k else k + 1) 0 =
      (List.range a.size).countP (fun i => !(a.getD i false)) := by
  rw [← Array.foldl_toList, foldl_count_false, Nat.zero_add, ← countP_range_getD a.toList (fun b => !b)]
  simp only [Array.length_toList]
  congr 1
  funext i
  simp [Array.getD_eq_getD_getElem?, List.getD_eq_getElem?_getD]

theorem countP_add_countP_not (l : List Nat) (p : Nat → Bool) :
    l.countP (fun i => !(p i)) + l.countP p = l.length := by
  induction l with
  | nil => simp
  | cons a l ih =>
    simp only [List.countP_cons, List.length_cons]
    cases p a <;> simp <;> omega

namespace CornerTable

/-- **G2** in `CornerTable` terms: `NumIsolatedVertices()` is the number of vertices without a recorded
    corner. -/
theorem create_numIsolated {faces : Faces} {table : CornerTable} (hc : create faces = some table) :
    table.numIsolatedVertices =
      (List.range table.vertexCorners.size).countP (fun v => (oget table.vertexCorners v).isNone) := by
  unfold create createF at hc
  split at hc
  · injection hc with hc
    subst hc
    simp only []
    have hsz := size_initCtv faces
    have hH := computeVertexCornersF_hinv hsz (finalOpp_inv (initCtv faces) (3 * faces.size + 1))
      (3 * faces.size + 1) (Nat.succ_pos _)
    unfold finalOpp at hH
    rw [foldl_visited_count, hH.size_vv]
    congr 1
    funext v
    rw [hH.iff v]
    cases oget _ v <;> rfl
  · cases hc

theorem create_numIsolated_add {faces : Faces} {table : CornerTable} (hc : create faces = some table) :
    table.numIsolatedVertices +
      (List.range table.vertexCorners.size).countP (fun v => (oget table.vertexCorners v).isSome) =
      table.vertexCorners.size := by
  rw [create_numIsolated hc]
  have := countP_add_countP_not (List.range table.vertexCorners.size)
    (fun v => (oget table.vertexCorners v).isSome)
  simp only [List.length_range] at this
  have e : (fun v => (oget table.vertexCorners v).isNone) =
      fun i => !(oget table.vertexCorners i).isSome := by
    funext v; cases oget table.vertexCorners v <;> rfl
  rw [e]; exact this

end CornerTable
end Draco

namespace Draco.EbEnc
open Draco
open Draco.Eb hiding iabs nextC prevC

/-- the entries of the encoder's `vertex_corners_` array -/
theorem ofTable_vc_get (table : CornerTable) (v : Nat) (hv : v < table.vertexCorners.size) :
    (CT.ofTable table).vc[v]! = (oget table.vertexCorners v).getD inv := by
  show (table.vertexCorners.map fun o => o.getD inv)[v]! = _
  unfold oget
  rw [getElem!_def, Array.getElem?_map, Array.getD_eq_getD_getElem?, Array.getElem?_eq_getElem hv]
  rfl

/-- **G1** (`hvcE`): in the encoder's table built from `CornerTable.create`, the recorded left-most corner of a
    vertex is a corner of that vertex. -/
theorem ofTable_hvcE {faces : Faces} {table : CornerTable} (hc : CornerTable.create faces = some table) :
    ∀ v, v < (CT.ofTable table).vc.size → (CT.ofTable table).vc[v]! ≠ inv →
      (CT.ofTable table).vc[v]! < (CT.ofTable table).numCorners ∧
        (CT.ofTable table).c2v[(CT.ofTable table).vc[v]!]! = v := by
  intro v hv hne
  have hv' : v < table.vertexCorners.size := by
    have : (CT.ofTable table).vc.size = table.vertexCorners.size := by
      show (table.vertexCorners.map fun o => o.getD inv).size = _
      rw [Array.size_map]
    omega
  rw [ofTable_vc_get table v hv'] at hne ⊢
  cases ho : oget table.vertexCorners v with
  | none => rw [ho] at hne; exact absurd rfl hne
  | some c =>
    obtain ⟨h1, h2⟩ := CornerTable.create_vertexCorners_vertex hc v c ho
    simp only [Option.getD_some]
    refine ⟨?_, ?_⟩
    · show c < table.cornerToVertex.size
      rw [create_c2v_size hc]; exact h1
    · show table.cornerToVertex[c]! = v
      rw [← h2]
      unfold vget
      rw [getElem!_def, Array.getD_eq_getD_getElem?]
      cases table.cornerToVertex[c]? <;> rfl

/-- **G2** (`hiso`): `num_vertices − NumIsolatedVertices()` is the number of vertices with a recorded corner. -/
theorem ofTable_hiso {faces : Faces} {table : CornerTable} (hc : CornerTable.create faces = some table) :
    (CT.ofTable table).numVertices - (CT.ofTable table).numIsolated =
      ((List.range (CT.ofTable table).vc.size).filter (fun v => (CT.ofTable table).vc[v]! != inv)).length := by
  have hsz : (CT.ofTable table).vc.size = table.vertexCorners.size := by
    show (table.vertexCorners.map fun o => o.getD inv).size = _
    rw [Array.size_map]
  have hadd := CornerTable.create_numIsolated_add hc
  have hfit := create_fits hc
  have hcnt : ((List.range (CT.ofTable table).vc.size).filter (fun v => (CT.ofTable table).vc[v]! != inv)).length =
      (List.range table.vertexCorners.size).countP (fun v => (oget table.vertexCorners v).isSome) := by
    rw [← List.countP_eq_length_filter, hsz]
    apply List.countP_congr
    intro v hv
    rw [List.mem_range] at hv
    rw [ofTable_vc_get table v hv]
    cases ho : oget table.vertexCorners v with
    | none => simp
    | some c =>
      have := (CornerTable.create_vertexCorners_vertex hc v c ho).1
      simp only [Option.getD_some, Option.isSome_some, bne_iff_ne, ne_eq, iff_true]
      omega
  rw [hcnt]
  show (CT.ofTable table).vc.size - table.numIsolatedVertices = _
  rw [hsz]
  omega

/-- `hiso` also gives: the isolated vertices are among the vertices -/
theorem ofTable_numIsolated_le {faces : Faces} {table : CornerTable} (hc : CornerTable.create faces = some table) :
    (CT.ofTable table).numIsolated ≤ (CT.ofTable table).numVertices := by
  have hsz : (CT.ofTable table).vc.size = table.vertexCorners.size := by
    show (table.vertexCorners.map fun o => o.getD inv).size = _
    rw [Array.size_map]
  have hadd := CornerTable.create_numIsolated_add hc
  show table.numIsolatedVertices ≤ (CT.ofTable table).vc.size
  rw [hsz]
  omega

end Draco.EbEnc
