import DracoProofs.EbDecSim
import DracoProofs.EbEncTrace
import DracoProofs.EbHoleFlag
import DracoProofs.EbCountsRun
import DracoProofs.EbTVIsoBase
/-
  The decoder-side hypotheses of the Edgebreaker point count theorem for the PURE decoder state `DecSim.St syms n maxV j`
  of a split-free trace (`DecSim.Trace t P syms`, `Coverage.TblOK t`).

  * `HInv maxV j s`: a LOCAL invariant of the pure steps `stepE / stepR / stepL / stepC` on top of `DecSim.Inv`:
    the recorded left-most corner of every decoder vertex is a corner of that vertex (`vcok`); a vertex still flagged as
    hole vertex has its recorded left-most corner left-open (`opn`); all corners of a vertex whose flag was cleared are
    glued on both sides (`full`); every vertex has at most one right-open corner (`rm`); `hinv_St`.
  * at the end (`j = n = P.size`): `fanTbl_St`, `cover_St`, `closed_St`, `aphyp_St` (`APHyp`), `hole_St` (`FanHyps.hole`),
    `usedVerts_St`, `c2v_size_St`, `hbd_St` / `tviso_St` (the `TVIso` of the base views).
  * `eb_points_splitfree`: the position-only point count from the encoder run.
-/
namespace Draco.EbEnc.DecSimHole
open Draco Draco.EbEnc Draco.EbEnc.DecSim
open Draco.Eb (inv)
open Draco.EbEnc.EncCounts (nextC_cf prevC_cf nextC_div3 prevC_div3 inv_eq prevC_lt_inv nextC_lt3 prevC_lt3)
open Draco.EbEnc.Coverage (TblOK vget_eq)
open Draco.EbEnc.AttViews (sRP sLP BaseTbl FanTbl InFan sRP_inv iter_fix)

/-! ## the local invariant -/

/-- the invariant of the hole flags and the recorded left-most corners after `j` symbols -/
structure HInv (maxV j : Nat) (s : DS) : Prop where
  hsz : s.hole.size = maxV
  fresh : ∀ v, s.vc.size ≤ v → v < maxV → s.hole[v]! = true
  vcok : ∀ v, v < s.vc.size → s.vc[v]! < 3 * j ∧ s.c2v[s.vc[v]!]! = v
  opn : ∀ v, v < s.vc.size → s.hole[v]! = true → s.opp[Eb.nextC s.vc[v]!]! = inv
  full : ∀ v, v < s.vc.size → v < maxV → s.hole[v]! = false →
    ∀ d, d < 3 * j → s.c2v[d]! = v → s.opp[Eb.nextC d]! ≠ inv ∧ s.opp[Eb.prevC d]! ≠ inv
  rm : ∀ d d', d < 3 * j → d' < 3 * j → s.c2v[d]! = s.c2v[d']! → s.opp[Eb.prevC d]! = inv → s.opp[Eb.prevC d']! = inv →
    d = d'

theorem HInv.init (n maxV : Nat) : HInv maxV 0 (DS.init n maxV) := by
  refine ⟨by simp [DS.init], ?_, fun v hv => ?_, fun v hv => ?_, fun v hv => ?_, fun d d' hd => absurd hd (by omega)⟩
  · intro v _ hv
    show (Array.replicate maxV true)[v]! = true
    simp [hv]
  all_goals (exfalso; simp [DS.init] at hv)

theorem nextC_inj' {a b : Nat} (ha : a < inv) (hb : b < inv) (h : Eb.nextC a = Eb.nextC b) : a = b := by
  rw [← Eb.prevC_nextC a ha, ← Eb.prevC_nextC b hb, h]

theorem prevC_inj' {a b : Nat} (ha : a < inv) (hb : b < inv) (h : Eb.prevC a = Eb.prevC b) : a = b := by
  rw [← Eb.nextC_prevC a ha, ← Eb.nextC_prevC b hb, h]

theorem hget_set (a : Array Bool) (i k : Nat) (x : Bool) :
    (a.setIfInBounds i x)[k]! = if k = i ∧ i < a.size then x else a[k]! := by
  by_cases hi : i < a.size
  · have := EncCounts.bget_set' a i k x hi
    simp only [Array.getElem!_eq_getD]
    show (a.setIfInBounds i x).getD k false = if k = i ∧ i < a.size then x else a.getD k false
    rw [this]
    simp [hi]
  · have : a.setIfInBounds i x = a := by
      apply Array.ext (by simp)
      intro m h1 h2
      rw [Array.getElem_setIfInBounds]
      rw [if_neg (by omega)]
    simp [this, hi]

/-! ## step E -/

theorem hinv_stepE {t : CT} {P : Array Nat} (hC : Ctx t P) {maxV j : Nat} {s : DS} (hI : Inv t P j s) (hH : HInv maxV j s)
    (hj : j < P.size) : HInv maxV (j + 1) (stepE j s) := by
  have hinv := hC.fits'
  have hcs := hI.v.csize
  have hc' : ∀ d, (stepE j s).c2v[d]! = if d = 3 * j + 2 then s.vc.size + 2 else if d = 3 * j + 1 then s.vc.size + 1
      else if d = 3 * j then s.vc.size else s.c2v[d]! := fun d => gs3 _ _ _ _ _ _ _ d (by omega) (by omega) (by omega)
  have hv' : ∀ v, (stepE j s).vc[v]! = if v = s.vc.size + 2 then 3 * j + 2 else if v = s.vc.size + 1 then 3 * j + 1
      else if v = s.vc.size then 3 * j else s.vc[v]! := fun v => push3_get _ _ _ _ v
  have hvs : (stepE j s).vc.size = s.vc.size + 3 := by
    show (((s.vc.push _).push _).push _).size = _
    simp only [Array.size_push]
  have hold : ∀ d, d < 3 * j → (stepE j s).c2v[d]! = s.c2v[d]! := by
    intro d hd
    rw [hc', if_neg (by omega), if_neg (by omega), if_neg (by omega)]
  have ho' : (stepE j s).opp = s.opp := rfl
  have hh' : (stepE j s).hole = s.hole := rfl
  have hO3 : ∀ a, 3 * j ≤ a → a < 3 * j + 3 → s.opp[a]! = inv := fun a h1 h2 => hI.o.o3 a h1 (by omega)
  have hnewv : ∀ d, 3 * j ≤ d → d < 3 * j + 3 → s.vc.size ≤ (stepE j s).c2v[d]! ∧
      ∀ d', d' < 3 * (j + 1) → (stepE j s).c2v[d']! = (stepE j s).c2v[d]! → d' = d := by
    intro d h1 h2
    have hd : d = 3 * j ∨ d = 3 * j + 1 ∨ d = 3 * j + 2 := by omega
    constructor
    · rw [hc']; rcases hd with rfl | rfl | rfl <;> simp <;> omega
    · intro d' hd' e
      by_cases hdn : d' < 3 * j
      · have := hI.v.vlt d' hdn
        rw [hold d' hdn, hc'] at e
        rcases hd with rfl | rfl | rfl <;> simp at e <;> omega
      · have hd'' : d' = 3 * j ∨ d' = 3 * j + 1 ∨ d' = 3 * j + 2 := by omega
        rw [hc', hc'] at e
        rcases hd with rfl | rfl | rfl <;> rcases hd'' with rfl | rfl | rfl <;> simp at e <;> omega
  refine ⟨hH.hsz, ?_, ?_, ?_, ?_, ?_⟩
  · intro v h1 h2
    rw [hh']
    exact hH.fresh v (by omega) h2
  · intro v hv
    rw [hv']
    by_cases e2 : v = s.vc.size + 2
    · rw [if_pos e2, hc', if_pos rfl]; exact ⟨by omega, e2.symm⟩
    · rw [if_neg e2]
      by_cases e1 : v = s.vc.size + 1
      · rw [if_pos e1, hc', if_neg (by omega), if_pos rfl]; exact ⟨by omega, e1.symm⟩
      · rw [if_neg e1]
        by_cases e0 : v = s.vc.size
        · rw [if_pos e0, hc', if_neg (by omega), if_neg (by omega), if_pos rfl]; exact ⟨by omega, e0.symm⟩
        · rw [if_neg e0]
          obtain ⟨k1, k2⟩ := hH.vcok v (by omega)
          rw [hold _ k1]
          exact ⟨by omega, k2⟩
  · intro v hv hh
    rw [ho', hv']
    rw [hh'] at hh
    by_cases e2 : v = s.vc.size + 2
    · rw [if_pos e2, nx2 _ (by omega)]; exact hO3 _ (by omega) (by omega)
    · rw [if_neg e2]
      by_cases e1 : v = s.vc.size + 1
      · rw [if_pos e1, nx1 _ (by omega)]; exact hO3 _ (by omega) (by omega)
      · rw [if_neg e1]
        by_cases e0 : v = s.vc.size
        · rw [if_pos e0, nx0 _ (by omega)]; exact hO3 _ (by omega) (by omega)
        · rw [if_neg e0]
          exact hH.opn v (by omega) hh
  · intro v hv hm hh d hd e
    rw [hh'] at hh
    rw [ho']
    by_cases hvn : s.vc.size ≤ v
    · rw [hH.fresh v hvn hm] at hh; cases hh
    · by_cases hdn : d < 3 * j
      · rw [hold d hdn] at e
        exact hH.full v (by omega) hm hh d hdn e
      · have := (hnewv d (by omega) (by omega)).1
        omega
  · intro d d' hd hd' e o1 o2
    rw [ho'] at o1 o2
    by_cases hdn : d < 3 * j
    · by_cases hdn' : d' < 3 * j
      · rw [hold d hdn, hold d' hdn'] at e
        exact hH.rm d d' hdn hdn' e o1 o2
      · exact (hnewv d' (by omega) (by omega)).2 d hd e
    · exact ((hnewv d (by omega) (by omega)).2 d' hd' e.symm).symm

/-! ## steps R and L -/

theorem hinv_stepQ {t : CT} {P : Array Nat} (hC : Ctx t P) {maxV j : Nat} {s : DS} (hI : Inv t P j s) (hH : HInv maxV j s)
    (hj : j < P.size) (h0 : 0 < j) (hgp : Later P (j - 1) t.opp[P[j - 1]!]!) (q q1 q2 : Nat)
    (hr : 3 * j ≤ q ∧ q < 3 * j + 3 ∧ 3 * j ≤ q1 ∧ q1 < 3 * j + 3 ∧ 3 * j ≤ q2 ∧ q2 < 3 * j + 3 ∧ q ≠ q1 ∧ q ≠ q2 ∧ q1 ≠ q2)
    (hn : Eb.nextC q = q1 ∧ Eb.prevC q = q2 ∧ Eb.nextC q1 = q2 ∧ Eb.nextC q2 = q)
    (hnd : t.c2v[Eb.nextC P[j - 1]!]! ≠ t.c2v[Eb.prevC P[j - 1]!]!) :
    HInv maxV (j + 1) (stepQ j q q1 q2 s) := by
  have hinv := hC.fits'
  have hcs := hI.v.csize
  have hos := hI.o.size
  obtain ⟨hs0, hA, hoA⟩ := hI.active hC hj h0 hgp
  obtain ⟨r1, r2, r3, r4, r5, r6, r7, r8, r9⟩ := hr
  obtain ⟨n1, n2, n3, n4⟩ := hn
  have hnA : Eb.nextC (3 * (j - 1)) = 3 * (j - 1) + 1 := nx0 _ (by omega)
  have hpA : Eb.prevC (3 * (j - 1)) = 3 * (j - 1) + 2 := pv0 _ (by omega)
  have hvR := hI.v.vlt (3 * (j - 1) + 2) (by omega)
  have hvL := hI.v.vlt (3 * (j - 1) + 1) (by omega)
  have i3 : 3 * j ≤ inv := by omega
  have ho' : ∀ d, (stepQ j q q1 q2 s).opp[d]! = if d = 3 * (j - 1) then q else if d = q then 3 * (j - 1) else s.opp[d]! := by
    intro d
    show (glue s.opp q s.stack.back!)[d]! = _
    rw [hA]
    exact glue_get _ _ _ _ (by omega) (by omega)
  have hc' : ∀ d, (stepQ j q q1 q2 s).c2v[d]! = if d = q2 then s.c2v[3 * (j - 1) + 1]! else if d = q1 then s.c2v[3 * (j - 1) + 2]!
      else if d = q then s.vc.size else s.c2v[d]! := by
    intro d
    show (((s.c2v.set! q s.vc.size).set! q1 s.c2v[Eb.prevC s.stack.back!]!).set! q2 s.c2v[Eb.nextC s.stack.back!]!)[d]! = _
    rw [hA, hnA, hpA]
    exact gs3 _ _ _ _ _ _ _ d (by omega) (by omega) (by omega)
  have hv' : ∀ v, (stepQ j q q1 q2 s).vc[v]! = if v = s.c2v[3 * (j - 1) + 2]! then q1 else if v = s.vc.size then q else s.vc[v]! := by
    intro v
    show ((s.vc.push q).set! s.c2v[Eb.prevC s.stack.back!]! q1)[v]! = _
    rw [hA, hpA, gs _ _ _ _ (by rw [Array.size_push]; omega), AttViews.push_get!]
  have hvs : (stepQ j q q1 q2 s).vc.size = s.vc.size + 1 := by
    show ((s.vc.push q).set! _ q1).size = _
    rw [size_set, Array.size_push]
  have hold : ∀ d, d < 3 * j → (stepQ j q q1 q2 s).c2v[d]! = s.c2v[d]! := by
    intro d hd
    rw [hc', if_neg (by omega), if_neg (by omega), if_neg (by omega)]
  have hh' : (stepQ j q q1 q2 s).hole = s.hole := rfl
  have hO3 : ∀ a, 3 * j ≤ a → a < 3 * j + 3 → s.opp[a]! = inv := fun a h1 h2 => hI.o.o3 a h1 (by omega)
  have hp1 : Eb.prevC q1 = q := by rw [← n1]; exact Eb.prevC_nextC _ (by omega)
  have hp2 : Eb.prevC q2 = q1 := by rw [← n3]; exact Eb.prevC_nextC _ (by omega)
  -- the two old vertices of the glued edge differ
  have huw : s.c2v[3 * (j - 1) + 1]! ≠ s.c2v[3 * (j - 1) + 2]! := by
    intro e
    have := hI.v.fine _ _ (by omega) (by omega) e
    rw [phi_1, phi_2] at this
    exact hnd this
  -- old opposite entries
  have hoOld : ∀ d, d < 3 * j → d ≠ 3 * (j - 1) → (stepQ j q q1 q2 s).opp[d]! = s.opp[d]! := by
    intro d hd hne
    rw [ho', if_neg hne, if_neg (by omega)]
  have hoA' : (stepQ j q q1 q2 s).opp[3 * (j - 1)]! = q := by rw [ho', if_pos rfl]
  have hnew : ∀ d, 3 * j ≤ d → d < 3 * j + 3 → d = q ∨ d = q1 ∨ d = q2 := by intros; omega
  have hcq : (stepQ j q q1 q2 s).c2v[q]! = s.vc.size := by rw [hc', if_neg r8, if_neg r7, if_pos rfl]
  have hcq1 : (stepQ j q q1 q2 s).c2v[q1]! = s.c2v[3 * (j - 1) + 2]! := by rw [hc', if_neg r9, if_pos rfl]
  have hcq2 : (stepQ j q q1 q2 s).c2v[q2]! = s.c2v[3 * (j - 1) + 1]! := by rw [hc', if_pos rfl]
  refine ⟨hH.hsz, ?_, ?_, ?_, ?_, ?_⟩
  · intro v h1 h2
    rw [hh']
    exact hH.fresh v (by omega) h2
  · intro v hv
    rw [hv']
    by_cases eu : v = s.c2v[3 * (j - 1) + 2]!
    · rw [if_pos eu, hcq1]; exact ⟨by omega, eu.symm⟩
    · rw [if_neg eu]
      by_cases eV : v = s.vc.size
      · rw [if_pos eV, hcq]; exact ⟨by omega, eV.symm⟩
      · rw [if_neg eV]
        obtain ⟨k1, k2⟩ := hH.vcok v (by omega)
        rw [hold _ k1]
        exact ⟨by omega, k2⟩
  · intro v hv hh
    rw [hh'] at hh
    rw [hv']
    by_cases eu : v = s.c2v[3 * (j - 1) + 2]!
    · rw [if_pos eu, n3, ho', if_neg (by omega), if_neg (fun e => r8 e.symm)]; exact hO3 _ r5 r6
    · rw [if_neg eu]
      by_cases eV : v = s.vc.size
      · rw [if_pos eV, n1, ho', if_neg (by omega), if_neg (fun e => r7 e.symm)]; exact hO3 _ r3 r4
      · rw [if_neg eV]
        obtain ⟨k1, k2⟩ := hH.vcok v (by omega)
        have hnl := nextC_lt3 k1 i3
        rw [hoOld _ hnl ?_]
        · exact hH.opn v (by omega) hh
        · intro e
          have : s.vc[v]! = 3 * (j - 1) + 2 := by
            rw [← Eb.prevC_nextC s.vc[v]! (by omega), e, hpA]
          rw [this] at k2
          exact eu k2.symm
  · intro v hv hm hh d hd e
    rw [hh'] at hh
    by_cases eV : v = s.vc.size
    · rw [hH.fresh v (by omega) hm] at hh; cases hh
    · have hvl : v < s.vc.size := by omega
      have hF := hH.full v hvl hm hh
      by_cases eu : v = s.c2v[3 * (j - 1) + 2]!
      · exfalso
        have := (hF (3 * (j - 1) + 2) (by omega) eu.symm).1
        rw [nx2 _ (by omega)] at this
        exact this hoA
      · by_cases ew : v = s.c2v[3 * (j - 1) + 1]!
        · exfalso
          have := (hF (3 * (j - 1) + 1) (by omega) ew.symm).2
          rw [pv1 _ (by omega)] at this
          exact this hoA
        · have hdn : d < 3 * j := by
            apply Classical.byContradiction
            intro hdn
            rcases hnew d (by omega) (by omega) with rfl | rfl | rfl
            · rw [hcq] at e; exact eV e.symm
            · rw [hcq1] at e; exact eu e.symm
            · rw [hcq2] at e; exact ew e.symm
          rw [hold d hdn] at e
          obtain ⟨f1, f2⟩ := hF d hdn e
          constructor
          · by_cases ea : Eb.nextC d = 3 * (j - 1)
            · rw [ea, hoA']; omega
            · rw [hoOld _ (nextC_lt3 hdn i3) ea]; exact f1
          · by_cases ea : Eb.prevC d = 3 * (j - 1)
            · rw [ea, hoA']; omega
            · rw [hoOld _ (prevC_lt3 hdn i3) ea]; exact f2
  · -- classification of the right-open corners of the new table
    have cls : ∀ d, d < 3 * (j + 1) → (stepQ j q q1 q2 s).opp[Eb.prevC d]! = inv →
        (d < 3 * j ∧ s.opp[Eb.prevC d]! = inv ∧ d ≠ 3 * (j - 1) + 1 ∧ (stepQ j q q1 q2 s).c2v[d]! = s.c2v[d]!) ∨
        (d = q ∧ (stepQ j q q1 q2 s).c2v[d]! = s.vc.size) ∨
        (d = q2 ∧ (stepQ j q q1 q2 s).c2v[d]! = s.c2v[3 * (j - 1) + 1]!) := by
      intro d hd ho
      by_cases hdn : d < 3 * j
      · left
        have hpd := prevC_lt3 hdn i3
        have hne : Eb.prevC d ≠ 3 * (j - 1) := by
          intro e; rw [e, hoA'] at ho; omega
        rw [hoOld _ hpd hne] at ho
        refine ⟨hdn, ho, ?_, hold d hdn⟩
        intro e; rw [e, pv1 _ (by omega)] at hne; exact hne rfl
      · right
        rcases hnew d (by omega) (by omega) with rfl | rfl | rfl
        · exact Or.inl ⟨rfl, hcq⟩
        · exfalso; rw [hp1, ho', if_neg (by omega), if_pos rfl] at ho; omega
        · exact Or.inr ⟨rfl, hcq2⟩
    have hwr : s.opp[Eb.prevC (3 * (j - 1) + 1)]! = inv := by rw [pv1 _ (by omega)]; exact hoA
    intro d d' hd hd' e o1 o2
    rcases cls d hd o1 with ⟨a1, a2, a3, a4⟩ | ⟨rfl, a4⟩ | ⟨rfl, a4⟩ <;>
      rcases cls d' hd' o2 with ⟨b1, b2, b3, b4⟩ | ⟨rfl, b4⟩ | ⟨rfl, b4⟩
    · rw [a4, b4] at e; exact hH.rm d d' a1 b1 e a2 b2
    · rw [a4, b4] at e; have := hI.v.vlt d a1; omega
    · rw [a4, b4] at e
      exact absurd (hH.rm d _ a1 (by omega) e a2 hwr) a3
    · rw [a4, b4] at e; have := hI.v.vlt d' b1; omega
    · rfl
    · rw [a4, b4] at e; omega
    · rw [a4, b4] at e
      exact absurd (hH.rm d' _ b1 (by omega) e.symm b2 hwr) b3
    · rw [a4, b4] at e; omega
    · rfl

/-! ## step C -/

theorem hinv_stepC {t : CT} {P : Array Nat} (hC : Ctx t P) {maxV j : Nat} {s : DS} (hI : Inv t P j s) (hH : HInv maxV j s)
    (hj : j < P.size) (h0 : 0 < j) {l : Nat} (hF : CFacts t P j s l)
    (hwu : s.c2v[3 * (j - 1) + 1]! ≠ s.c2v[3 * (j - 1) + 2]!)
    (hwy : s.c2v[3 * (j - 1) + 1]! ≠ s.c2v[Eb.nextC (Eb.nextC l)]!) :
    HInv maxV (j + 1) (stepC j s) := by
  have hinv := hC.fits'
  have hcs := hI.v.csize
  have hos := hI.o.size
  obtain ⟨hs0, hA, hoA, hl, hB, hvl, hphiB, hoppB, hoB, hAB⟩ := hF
  have i3 : 3 * j ≤ inv := by omega
  have hnl : Eb.nextC l < 3 * j := nextC_lt3 hl i3
  have hnnl : Eb.nextC (Eb.nextC l) < 3 * j := nextC_lt3 hnl i3
  have hnA : Eb.nextC (3 * (j - 1)) = 3 * (j - 1) + 1 := nx0 _ (by omega)
  have hpA : Eb.prevC (3 * (j - 1)) = 3 * (j - 1) + 2 := pv0 _ (by omega)
  have hvR := hI.v.vlt (3 * (j - 1) + 2) (by omega)
  have hvW := hI.v.vlt (3 * (j - 1) + 1) (by omega)
  have hnew : ∀ a, 3 * j ≤ a → a < 3 * j + 3 → a = 3 * j ∨ a = 3 * j + 1 ∨ a = 3 * j + 2 := by intros; omega
  have ho' : ∀ d, (stepC j s).opp[d]! = if d = 3 * j + 2 then Eb.nextC l else if d = Eb.nextC l then 3 * j + 2
      else if d = 3 * j + 1 then 3 * (j - 1) else if d = 3 * (j - 1) then 3 * j + 1 else s.opp[d]! := by
    intro d
    show (glue (glue s.opp s.stack.back! (3 * j + 1)) (cornerB s) (3 * j + 2))[d]! = _
    rw [hA, hB, glue_get _ _ _ _ (by rw [glue_size]; omega) (by rw [glue_size]; omega), glue_get _ _ _ _ (by omega) (by omega)]
  have hc' : ∀ d, (stepC j s).c2v[d]! = if d = 3 * j + 2 then s.c2v[3 * (j - 1) + 2]! else if d = 3 * j + 1 then s.c2v[Eb.nextC (Eb.nextC l)]!
      else if d = 3 * j then s.c2v[3 * (j - 1) + 1]! else s.c2v[d]! := by
    intro d
    show (((s.c2v.set! (3 * j) s.c2v[Eb.nextC s.stack.back!]!).set! (3 * j + 1) s.c2v[Eb.nextC (cornerB s)]!).set! (3 * j + 2)
      s.c2v[Eb.prevC s.stack.back!]!)[d]! = _
    rw [hA, hB, hnA, hpA]
    exact gs3 _ _ _ _ _ _ _ d (by omega) (by omega) (by omega)
  have hv' : ∀ v, (stepC j s).vc[v]! = if v = s.c2v[3 * (j - 1) + 2]! then 3 * j + 2 else s.vc[v]! := by
    intro v
    show (s.vc.set! s.c2v[Eb.prevC s.stack.back!]! (3 * j + 2))[v]! = _
    rw [hA, hpA, gs _ _ _ _ hvR]
  have hvs : (stepC j s).vc.size = s.vc.size := by
    show (s.vc.set! _ _).size = _
    rw [size_set]
  have hold : ∀ d, d < 3 * j → (stepC j s).c2v[d]! = s.c2v[d]! := by
    intro d hd
    rw [hc', if_neg (by omega), if_neg (by omega), if_neg (by omega)]
  have hh' : ∀ v, (stepC j s).hole[v]! =
      if v = s.c2v[3 * (j - 1) + 1]! ∧ s.c2v[3 * (j - 1) + 1]! < s.hole.size then false else s.hole[v]! := by
    intro v
    show (s.hole.setIfInBounds s.c2v[Eb.nextC s.stack.back!]! false)[v]! = _
    rw [hA, hnA]
    exact hget_set _ _ _ _
  -- a flag that is still set belongs to another vertex than the tip
  have hhT : ∀ v, (stepC j s).hole[v]! = true → v ≠ s.c2v[3 * (j - 1) + 1]! ∧ s.hole[v]! = true := by
    intro v h
    rw [hh'] at h
    by_cases e : v = s.c2v[3 * (j - 1) + 1]! ∧ s.c2v[3 * (j - 1) + 1]! < s.hole.size
    · rw [if_pos e] at h; cases h
    · rw [if_neg e] at h
      refine ⟨fun ev => e ⟨ev, ?_⟩, h⟩
      apply Classical.byContradiction
      intro hlt
      have : s.hole[v]! = false := by
        rw [ev, getElem!_neg s.hole _ hlt]; rfl
      rw [this] at h; cases h
  have hhF : ∀ v, (stepC j s).hole[v]! = false → v ≠ s.c2v[3 * (j - 1) + 1]! → s.hole[v]! = false := by
    intro v h hne
    rw [hh', if_neg (fun e => hne e.1)] at h
    exact h
  have hO3 : ∀ a, 3 * j ≤ a → a < 3 * j + 3 → s.opp[a]! = inv := fun a h1 h2 => hI.o.o3 a h1 (by omega)
  have hoA' : (stepC j s).opp[3 * (j - 1)]! = 3 * j + 1 := by
    rw [ho', if_neg (by omega), if_neg (fun e => hAB e.symm), if_neg (by omega), if_pos rfl]
  have hoB' : (stepC j s).opp[Eb.nextC l]! = 3 * j + 2 := by
    rw [ho', if_neg (by omega), if_pos rfl]
  have hoOld : ∀ d, d < 3 * j → d ≠ 3 * (j - 1) → d ≠ Eb.nextC l → (stepC j s).opp[d]! = s.opp[d]! := by
    intro d hd h1 h2
    rw [ho', if_neg (by omega), if_neg h2, if_neg (by omega), if_neg h1]
  -- an unglued old corner of the new table was unglued before, and is neither of the two glued corners
  have hoInv : ∀ d, d < 3 * j → (stepC j s).opp[d]! = inv → d ≠ 3 * (j - 1) ∧ d ≠ Eb.nextC l ∧ s.opp[d]! = inv := by
    intro d hd h
    have h1 : d ≠ 3 * (j - 1) := by intro e; rw [e, hoA'] at h; omega
    have h2 : d ≠ Eb.nextC l := by intro e; rw [e, hoB'] at h; omega
    rw [hoOld d hd h1 h2] at h
    exact ⟨h1, h2, h⟩
  have hc0 : (stepC j s).c2v[3 * j]! = s.c2v[3 * (j - 1) + 1]! := by rw [hc', if_neg (by omega), if_neg (by omega), if_pos rfl]
  have hc1 : (stepC j s).c2v[3 * j + 1]! = s.c2v[Eb.nextC (Eb.nextC l)]! := by rw [hc', if_neg (by omega), if_pos rfl]
  have hc2 : (stepC j s).c2v[3 * j + 2]! = s.c2v[3 * (j - 1) + 2]! := by rw [hc', if_pos rfl]
  have hpnnl : Eb.prevC (Eb.nextC (Eb.nextC l)) = Eb.nextC l := Eb.prevC_nextC _ (by omega)
  -- the recorded left-most corner of the tip vertex
  have hvcW : Eb.nextC s.vc[s.c2v[3 * (j - 1) + 1]!]! = Eb.nextC l := by
    have := hB
    unfold cornerB at this
    rw [hA, hnA] at this
    exact this
  refine ⟨?_, ?_, ?_, ?_, ?_, ?_⟩
  · show (s.hole.setIfInBounds _ _).size = _
    rw [Array.size_setIfInBounds]; exact hH.hsz
  · intro v h1 h2
    rw [hvs] at h1
    rw [hh', if_neg (fun e => by omega)]
    exact hH.fresh v h1 h2
  · intro v hv
    rw [hvs] at hv
    rw [hv']
    by_cases eu : v = s.c2v[3 * (j - 1) + 2]!
    · rw [if_pos eu, hc2]; exact ⟨by omega, eu.symm⟩
    · rw [if_neg eu]
      obtain ⟨k1, k2⟩ := hH.vcok v hv
      rw [hold _ k1]
      exact ⟨by omega, k2⟩
  · intro v hv hh
    rw [hvs] at hv
    obtain ⟨hvw, hh0⟩ := hhT v hh
    rw [hv']
    by_cases eu : v = s.c2v[3 * (j - 1) + 2]!
    · rw [if_pos eu, nx2 _ (by omega), ho', if_neg (by omega), if_neg (by omega), if_neg (by omega), if_neg (by omega)]
      exact hO3 _ (by omega) (by omega)
    · rw [if_neg eu]
      obtain ⟨k1, k2⟩ := hH.vcok v hv
      have hnv := nextC_lt3 k1 i3
      rw [hoOld _ hnv ?_ ?_]
      · exact hH.opn v hv hh0
      · intro e
        have : s.vc[v]! = 3 * (j - 1) + 2 := by
          rw [← Eb.prevC_nextC s.vc[v]! (by omega), e, hpA]
        rw [this] at k2
        exact eu k2.symm
      · intro e
        have : s.vc[v]! = l := nextC_inj' (by omega) (by omega) e
        rw [this, hvl] at k2
        exact hvw k2.symm
  · intro v hv hm hh d hd e
    rw [hvs] at hv
    by_cases ew : v = s.c2v[3 * (j - 1) + 1]!
    · -- the tip vertex: its fan is closed now
      by_cases hdn : d < 3 * j
      · rw [hold d hdn, ew] at e
        constructor
        · intro ho
          obtain ⟨_, g2, g3⟩ := hoInv _ (nextC_lt3 hdn i3) ho
          have := hI.v.lm d hdn g3
          rw [e] at this
          rw [this] at hvcW
          exact g2 hvcW
        · intro ho
          obtain ⟨g1, _, g3⟩ := hoInv _ (prevC_lt3 hdn i3) ho
          have := hH.rm d (3 * (j - 1) + 1) hdn (by omega) e g3 (by rw [pv1 _ (by omega)]; exact hoA)
          rw [this, pv1 _ (by omega)] at g1
          exact g1 rfl
      · rcases hnew d (by omega) (by omega) with rfl | rfl | rfl
        · rw [nx0 _ (by omega), pv0 _ (by omega), ho', ho', if_neg (by omega), if_neg (by omega), if_pos rfl, if_pos rfl]
          exact ⟨by omega, by omega⟩
        · rw [hc1, ew] at e; exact absurd e.symm hwy
        · rw [hc2, ew] at e; exact absurd e.symm hwu
    · have hh0 := hhF v hh ew
      have hFv := hH.full v hv hm hh0
      by_cases eu : v = s.c2v[3 * (j - 1) + 2]!
      · exfalso
        have := (hFv (3 * (j - 1) + 2) (by omega) eu.symm).1
        rw [nx2 _ (by omega)] at this
        exact this hoA
      · by_cases ey : v = s.c2v[Eb.nextC (Eb.nextC l)]!
        · exfalso
          have := (hFv _ hnnl ey.symm).2
          rw [hpnnl] at this
          exact this hoB
        · have hdn : d < 3 * j := by
            apply Classical.byContradiction
            intro hdn
            rcases hnew d (by omega) (by omega) with rfl | rfl | rfl
            · rw [hc0] at e; exact ew e.symm
            · rw [hc1] at e; exact ey e.symm
            · rw [hc2] at e; exact eu e.symm
          rw [hold d hdn] at e
          obtain ⟨f1, f2⟩ := hFv d hdn e
          exact ⟨fun ho => f1 (hoInv _ (nextC_lt3 hdn i3) ho).2.2, fun ho => f2 (hoInv _ (prevC_lt3 hdn i3) ho).2.2⟩
  · have cls : ∀ d, d < 3 * (j + 1) → (stepC j s).opp[Eb.prevC d]! = inv →
        (d < 3 * j ∧ s.opp[Eb.prevC d]! = inv ∧ d ≠ Eb.nextC (Eb.nextC l) ∧ (stepC j s).c2v[d]! = s.c2v[d]!) ∨
        (d = 3 * j + 1 ∧ (stepC j s).c2v[d]! = s.c2v[Eb.nextC (Eb.nextC l)]!) := by
      intro d hd ho
      by_cases hdn : d < 3 * j
      · left
        obtain ⟨_, g2, g3⟩ := hoInv _ (prevC_lt3 hdn i3) ho
        refine ⟨hdn, g3, ?_, hold d hdn⟩
        intro e; rw [e, hpnnl] at g2; exact g2 rfl
      · right
        rcases hnew d (by omega) (by omega) with rfl | rfl | rfl
        · exfalso; rw [pv0 _ (by omega), ho', if_pos rfl] at ho; omega
        · exact ⟨rfl, hc1⟩
        · exfalso; rw [pv2 _ (by omega), ho', if_neg (by omega), if_neg (by omega), if_pos rfl] at ho; omega
    have hyr : s.opp[Eb.prevC (Eb.nextC (Eb.nextC l))]! = inv := by rw [hpnnl]; exact hoB
    intro d d' hd hd' e o1 o2
    rcases cls d hd o1 with ⟨a1, a2, a3, a4⟩ | ⟨rfl, a4⟩ <;>
      rcases cls d' hd' o2 with ⟨b1, b2, b3, b4⟩ | ⟨rfl, b4⟩
    · rw [a4, b4] at e; exact hH.rm d d' a1 b1 e a2 b2
    · rw [a4, b4] at e
      exact absurd (hH.rm d _ a1 hnnl e a2 hyr) a3
    · rw [a4, b4] at e
      exact absurd (hH.rm d' _ b1 hnnl e.symm b2 hyr) b3
    · rfl

/-! ## the invariant along the run -/

theorem hinv_step {t : CT} {P : Array Nat} {syms : List Nat} (hT : TblOK t) (hTr : Trace t P syms) {maxV j : Nat} {s : DS}
    (hI : Inv t P j s) (hH : HInv maxV j s) (hj : j < P.size) : HInv maxV (j + 1) (step syms[j]! j s) := by
  have hC := hTr.ctx hT
  have hinv := hC.fits'
  obtain ⟨_, hg, _, hE, hR, hL, hCc, hsym⟩ := hTr.face j hj
  have hgp : 0 < j → Later P (j - 1) t.opp[P[j - 1]!]! := fun h0 => (hTr.face (j - 1) (by omega)).2.1
  have hnd : 0 < j → t.c2v[Eb.nextC P[j - 1]!]! ≠ t.c2v[Eb.prevC P[j - 1]!]! :=
    fun h0 => (hTr.face (j - 1) (by omega)).2.2.1.2.2
  unfold step
  by_cases h7 : syms[j]! = 7
  · rw [if_pos h7]
    exact hinv_stepE hC hI hH hj
  · rw [if_neg h7]
    by_cases h5 : syms[j]! = 5
    · rw [if_pos h5, stepR_eq]
      obtain ⟨h0, a, b⟩ := hR h5
      exact hinv_stepQ hC hI hH hj h0 (hgp h0) _ _ _ (by omega)
        ⟨nx2 _ (by omega), pv2 _ (by omega), nx0 _ (by omega), nx1 _ (by omega)⟩ (hnd h0)
    · rw [if_neg h5]
      by_cases h3 : syms[j]! = 3
      · rw [if_pos h3, stepL_eq]
        obtain ⟨h0, a, b⟩ := hL h3
        exact hinv_stepQ hC hI hH hj h0 (hgp h0) _ _ _ (by omega)
          ⟨nx1 _ (by omega), pv1 _ (by omega), nx2 _ (by omega), nx0 _ (by omega)⟩ (hnd h0)
      · rw [if_neg h3]
        have h0' : syms[j]! = 0 := by omega
        obtain ⟨h0, a, m, _, hm, hcl, hEar⟩ := hCc h0'
        obtain ⟨l, hF⟩ := hI.cfacts hC hj h0 (hgp h0) a m hm hcl hEar
        obtain ⟨_, _, _, _, _, _, _, _, g1, g2⟩ := guards_C hT hTr hI hj h0'
        rw [hF.hA, nx0 _ (by omega)] at g1 g2
        rw [pv0 _ (by omega)] at g1
        rw [hF.hB] at g2
        exact hinv_stepC hC hI hH hj h0 hF g1 g2

/-- **the hole-flag invariant holds along the whole pure run** -/
theorem hinv_St {t : CT} {P : Array Nat} {syms : List Nat} (hT : TblOK t) (hTr : Trace t P syms) (maxV : Nat) :
    ∀ j, j ≤ P.size → HInv maxV j (St syms P.size maxV j)
  | 0, _ => HInv.init P.size maxV
  | j+1, h => hinv_step hT hTr (inv_St hT hTr maxV j (by omega)) (hinv_St hT hTr maxV j (by omega)) (by omega)

/-! ## the final tables -/

section fin
variable {t : CT} {P : Array Nat} {syms : List Nat} {s : DS} {maxV : Nat}

/-- the decoder's `Opposite` is an involution where it is defined -/
theorem baseTbl_fin (hC : Ctx t P) (hI : Inv t P P.size s) : BaseTbl (3 * P.size) s.opp := by
  have hinv := hC.fits'
  refine ⟨by omega, hinv, hI.o.size, ?_⟩
  intro c hc hne
  obtain ⟨h1, h2⟩ := hI.o.o1 c hc hne
  refine ⟨h1, ?_⟩
  have hlt := hC.phi_lt hc
  have hne' : t.opp[phi P c]! ≠ inv := by
    rw [← h2]; have := hC.phi_inv h1; omega
  have hback := (hC.invol hlt hne').2
  rw [← h2] at hback
  exact hI.o.o2 _ _ h1 hc hback

/-- **`APHyp.tbl`** of the final tables -/
theorem fanTbl_fin (hC : Ctx t P) (hI : Inv t P P.size s) (hH : HInv maxV P.size s) :
    FanTbl (3 * P.size) s.opp s.vc (fun c => s.c2v[c]!) := by
  have hinv := hC.fits'
  have hb := baseTbl_fin hC hI
  refine ⟨hb, ?_, fun v hv _ => hH.vcok v hv⟩
  intro c hc hne
  have hci : c ≠ inv := by omega
  unfold sRP at hne ⊢
  rw [if_neg hci] at hne ⊢
  have hp := prevC_lt3 hc hinv
  have ho : s.opp[Eb.prevC c]! ≠ inv := by
    intro e; rw [e, AttViews.prevC_inv] at hne; exact hne rfl
  obtain ⟨_, e2⟩ := hI.v.hedge _ hp ho
  rw [Eb.nextC_prevC _ (by omega)] at e2
  exact e2

/-- the fan of a vertex whose hole flag was cleared is closed -/
theorem closed_fin (hC : Ctx t P) (hI : Inv t P P.size s) (hH : HInv maxV P.size s) {v : Nat} (hv : v < s.vc.size)
    (hm : v < maxV) (hh : s.hole[v]! = false) : ∀ k, iter (sRP s.opp) k s.vc[v]! ≠ inv := by
  have hinv := hC.fits'
  have ht := fanTbl_fin hC hI hH
  obtain ⟨hl, hlv⟩ := hH.vcok v hv
  intro k
  induction k with
  | zero => show s.vc[v]! ≠ inv; omega
  | succ k ih =>
    rw [iter_succ']
    obtain ⟨h1, h2⟩ := ht.bv_iter hl k ih
    have h2' : s.c2v[iter (sRP s.opp) k s.vc[v]!]! = v := h2.trans hlv
    obtain ⟨_, f2⟩ := hH.full v hv hm hh _ h1 h2'
    rw [Coverage.sRP_eq _ (by omega)]
    have := (ht.toBaseTbl.invol _ (prevC_lt3 h1 hinv) f2).1
    have := prevC_lt3 this hinv
    omega

/-- the encoder's `SwingRight` walks between images of decoder corners are `SwingRight` walks of the decoder's table -/
theorem sR_transport (hC : Ctx t P) (hI : Inv t P P.size s)
    (hcl : ∀ d, d < 3 * P.size → t.opp[phi P d]! ≠ inv → ∃ i, i < P.size ∧ t.opp[phi P d]! / 3 = P[i]! / 3) :
    ∀ k d d', d < 3 * P.size → d' < 3 * P.size → iter (sRP t.opp) k (phi P d) = phi P d' → iter (sRP s.opp) k d = d' := by
  have hinv := hC.fits'
  have hnc := hC.nc_le
  intro k
  induction k with
  | zero =>
    intro d d' hd hd' e
    exact hC.phi_inj hd hd' e
  | succ k ih =>
    intro d d' hd hd' e
    have e' : iter (sRP t.opp) k (sRP t.opp (phi P d)) = phi P d' := e
    have hpd := hC.phi_inv hd
    rw [Coverage.sRP_eq _ (by omega)] at e'
    have hpp : phi P (Eb.prevC d) = Eb.prevC (phi P d) := phi_prevC P d (by omega) (hC.p_inv (by omega))
    have hpdlt : Eb.prevC d < 3 * P.size := prevC_lt3 hd hinv
    by_cases hne : t.opp[Eb.prevC (phi P d)]! = inv
    · rw [hne, AttViews.prevC_inv, iter_fix (sRP_inv _)] at e'
      have := hC.phi_inv hd'
      omega
    · rw [← hpp] at hne e'
      obtain ⟨i, hi, hf⟩ := hcl _ hpdlt hne
      have helt := (hC.invol (hC.phi_lt hpdlt) hne).1
      obtain ⟨de, hdei, hdephi⟩ := hC.exists_phi (by omega : t.opp[phi P (Eb.prevC d)]! < inv) hi hf
      have hde : de < 3 * P.size := by omega
      have hopp : s.opp[Eb.prevC d]! = de := hI.o.o2 _ _ hpdlt hde hdephi.symm
      have hpde : Eb.prevC de < 3 * P.size := prevC_lt3 hde hinv
      have := ih (Eb.prevC de) d' hpde hd' (by
        rw [phi_prevC P de (by omega) (hC.p_inv (by omega)), hdephi]; exact e')
      show iter (sRP s.opp) k (sRP s.opp d) = d'
      rw [Coverage.sRP_eq _ (by omega), hopp]
      exact this

/-- a recorded left-most corner that is reached from another corner by `SwingRight` steps belongs to a cleared vertex -/
theorem cleared_of_reached (hC : Ctx t P) (hI : Inv t P P.size s) (hH : HInv maxV P.size s) {v c m : Nat}
    (hv : v < s.vc.size) (hc : c < 3 * P.size) (hm : 1 ≤ m) (e : iter (sRP s.opp) m c = s.vc[v]!) : s.hole[v]! = false := by
  have hb := baseTbl_fin hC hI
  obtain ⟨hl, _⟩ := hH.vcok v hv
  have hli : s.vc[v]! ≠ inv := hb.ne_inv hl
  cases hh : s.hole[v]! with
  | false => rfl
  | true =>
    exfalso
    have ho := hH.opn v hv hh
    have em : m = (m - 1) + 1 := by omega
    rw [em, iter_succ'] at e
    have hy : iter (sRP s.opp) (m - 1) c ≠ inv := by
      intro e'; rw [e', sRP_inv] at e; exact hli e.symm
    have hylt := AP.iter_sR_lt hb hc _ hy
    obtain ⟨-, hsl⟩ := hb.sR_sL hylt e hli
    have : sLP s.opp s.vc[v]! = inv := by simp [sLP, hli, ho, AttViews.nextC_inv]
    rw [this] at hsl
    exact hy hsl.symm

/-- a corner from which `m` `SwingRight` steps lead to the start `l` of a closed fan lies in the fan of `l` -/
theorem inFan_of_closed {N : Nat} {opp : Array Nat} (hb : BaseTbl N opp) {l c m : Nat} (hl : l < N) (hc : c < N)
    (hcl : ∀ k, iter (sRP opp) k l ≠ inv) (e : iter (sRP opp) m c = l) : ∃ k, iter (sRP opp) k l = c := by
  obtain ⟨Pd, hO, _⟩ := CountsIso.orbit_exists hb hl
  have hper : iter (sRP opp) Pd l = l := by
    rcases hO.fin with h | h
    · exact absurd h (hcl _)
    · exact h
  have hpos := hO.pos
  have hper' : iter (sRP opp) ((Pd - 1) + 1) l = l := by rw [show Pd - 1 + 1 = Pd by omega]; exact hper
  have hle : m ≤ Pd * m := Nat.le_mul_of_pos_left m (by omega)
  have h1 : iter (sRP opp) (Pd * m) l = l := by
    have := AttViews.walk_period hper' 0 m
    rw [show 0 + (Pd - 1 + 1) * m = Pd * m by rw [show Pd - 1 + 1 = Pd by omega]; omega] at this
    exact this
  have h2 : iter (sRP opp) m (iter (sRP opp) (Pd * m - m) l) = iter (sRP opp) m c := by
    rw [← iter_add, show Pd * m - m + m = Pd * m by omega, h1, e]
  refine ⟨Pd * m - m, ?_⟩
  exact AP.iter_sR_inj hb m _ _ (AP.iter_sR_lt hb hl _ (hcl _)) hc h2 (by rw [h2, e]; exact hb.ne_inv hl)

/-- **`APHyp.cover`** of the final tables: every corner lies in the fan of the recorded left-most corner of its vertex -/
theorem cover_fin (hT : TblOK t) (hTr : Trace t P syms) (hI : Inv t P P.size s) (hH : HInv maxV P.size s)
    (hmax : s.vc.size ≤ maxV)
    (hcov : ∀ d, d < 3 * P.size → ∃ k, iter (sRP t.opp) k t.vc[t.c2v[phi P d]!]! = phi P d) :
    ∀ c, c < 3 * P.size → s.c2v[c]! < s.vc.size ∧ InFan s.opp s.vc[s.c2v[c]!]! c := by
  have hC := hTr.ctx hT
  have hinv := hC.fits'
  have hcl := hTr.closed hT
  have hb := baseTbl_fin hC hI
  intro c hc
  have hv := hI.v.vlt c hc
  refine ⟨hv, by omega, ?_⟩
  obtain ⟨hl, hlv⟩ := hH.vcok _ hv
  have hfine := hI.v.fine _ _ hl hc hlv
  obtain ⟨k1, hk1⟩ := hcov c hc
  obtain ⟨k2, hk2⟩ := hcov _ hl
  rw [hfine] at hk2
  by_cases hkk : k2 ≤ k1
  · refine ⟨k1 - k2, sR_transport hC hI hcl _ _ _ hl hc ?_⟩
    rw [← hk2, ← iter_add, show k2 + (k1 - k2) = k1 by omega, hk1]
  · have e : iter (sRP s.opp) (k2 - k1) c = s.vc[s.c2v[c]!]! := by
      refine sR_transport hC hI hcl _ _ _ hc hl ?_
      rw [← hk1, ← iter_add, show k1 + (k2 - k1) = k2 by omega, hk2]
    have hh := cleared_of_reached hC hI hH hv hc (by omega) e
    exact inFan_of_closed hb hl hc (closed_fin hC hI hH hv (by omega) hh) e

/-- **`APHyp`** of the final tables -/
theorem aphyp_fin (hT : TblOK t) (hTr : Trace t P syms) (hI : Inv t P P.size s) (hH : HInv maxV P.size s)
    (hmax : s.vc.size ≤ maxV)
    (hcov : ∀ d, d < 3 * P.size → ∃ k, iter (sRP t.opp) k t.vc[t.c2v[phi P d]!]! = phi P d)
    (co : Eb.ConnOut) (h1 : co.c2v = s.c2v) (h2 : co.opp = s.opp) (h3 : co.vc = s.vc) (h4 : co.hole = s.hole) :
    APHyp P.size co := by
  have hC := hTr.ctx hT
  refine ⟨?_, ?_, ?_⟩
  · rw [h1, h2, h3]; exact fanTbl_fin hC hI hH
  · rw [h1, h2, h3]; exact cover_fin hT hTr hI hH hmax hcov
  · intro v hv _ hh
    rw [h3] at hv
    rw [h4] at hh
    rw [h2, h3]
    exact closed_fin hC hI hH hv (by omega) hh

/-- **`FanHyps.hole`** of the final tables: a vertex still flagged as hole vertex reaches the boundary -/
theorem hole_fin (hC : Ctx t P) (hI : Inv t P P.size s) (hH : HInv maxV P.size s) :
    ∀ v, v < s.vc.size → s.vc[v]! ≠ inv → s.hole[v]! = true → ∃ k, iter (sRP s.opp) k s.vc[v]! = inv := by
  have hb := baseTbl_fin hC hI
  intro v hv _ hh
  obtain ⟨hl, _⟩ := hH.vcok v hv
  have ho := hH.opn v hv hh
  obtain ⟨Pd, hO, -⟩ := CountsIso.orbit_exists hb hl
  rcases hO.fin with hfin | hper
  · exact ⟨Pd, hfin⟩
  · exfalso
    have := cleared_of_reached hC hI hH hv hl hO.pos hper
    rw [this] at hh; cases hh

/-- no vertex of the final tables is isolated -/
theorem usedVerts_fin (hC : Ctx t P) (hH : HInv maxV P.size s) : (CountsIso.usedVerts s.vc).length = s.vc.size := by
  have hinv := hC.fits'
  unfold CountsIso.usedVerts
  rw [List.filter_eq_self.mpr, List.length_range]
  intro v hv
  rw [List.mem_range] at hv
  have := (hH.vcok v hv).1
  simp only [bne_iff_ne, ne_eq]
  omega

end fin

/-! ## the vertex count and the boundary flags against the encoder's table -/

section link
variable {t : CT} {P : Array Nat} {syms : List Nat} {s : DS} {maxV : Nat}

/-- the decoder has at most as many vertices as the encoder's table has vertices in use -/
theorem vc_size_le (hT : TblOK t) (hTr : Trace t P syms) (hI : Inv t P P.size s) (hH : HInv maxV P.size s)
    (hcov : ∀ d, d < 3 * P.size → ∃ k, iter (sRP t.opp) k t.vc[t.c2v[phi P d]!]! = phi P d)
    (hvlt : ∀ d, d < 3 * P.size → t.c2v[phi P d]! < t.numVertices) :
    s.vc.size ≤ (CountsIso.usedVerts t.vc).length := by
  have hC := hTr.ctx hT
  have hiso := ctIso_of_inv hT hTr hI hcov hvlt
  have hnd : ((List.range s.vc.size).map (fun v => t.c2v[phi P s.vc[v]!]!)).Nodup := by
    refine List.Nodup.map_on ?_ List.nodup_range
    intro v hv v' hv' e
    rw [List.mem_range] at hv hv'
    obtain ⟨a1, a2⟩ := hH.vcok v hv
    obtain ⟨b1, b2⟩ := hH.vcok v' hv'
    have := (hiso.vertex _ _ a1 b1).mpr e
    rw [a2, b2] at this
    exact this
  have hsub : (List.range s.vc.size).map (fun v => t.c2v[phi P s.vc[v]!]!) ⊆ CountsIso.usedVerts t.vc := by
    intro w hw
    rw [List.mem_map] at hw
    obtain ⟨v, hv, rfl⟩ := hw
    rw [List.mem_range] at hv
    obtain ⟨a1, _⟩ := hH.vcok v hv
    rw [CountsIso.mem_usedVerts]
    refine ⟨hvlt _ a1, ?_⟩
    intro e
    obtain ⟨k, hk⟩ := hcov _ a1
    rw [e, iter_fix (sRP_inv _)] at hk
    have := hC.phi_inv a1
    omega
  have := hnd.length_le_of_subset hsub
  simpa using this

/-- `SwingRight` walks of the decoder's table are `SwingRight` walks of the encoder's table -/
theorem sR_transport' (hC : Ctx t P) (hI : Inv t P P.size s) :
    ∀ k d, d < 3 * P.size → iter (sRP s.opp) k d ≠ inv →
      iter (sRP s.opp) k d < 3 * P.size ∧ iter (sRP t.opp) k (phi P d) = phi P (iter (sRP s.opp) k d) := by
  have hinv := hC.fits'
  intro k
  induction k with
  | zero => intro d hd _; exact ⟨hd, rfl⟩
  | succ k ih =>
    intro d hd hne
    have hne' : iter (sRP s.opp) k (sRP s.opp d) ≠ inv := hne
    have hs : sRP s.opp d ≠ inv := by
      intro e; rw [e, iter_fix (sRP_inv _)] at hne'; exact hne' rfl
    rw [Coverage.sRP_eq _ (by omega)] at hs
    have hpd := prevC_lt3 hd hinv
    have ho : s.opp[Eb.prevC d]! ≠ inv := by
      intro e; rw [e, AttViews.prevC_inv] at hs; exact hs rfl
    obtain ⟨h1, h2⟩ := hI.o.o1 _ hpd ho
    have hpe := prevC_lt3 h1 hinv
    have e1 : sRP s.opp d = Eb.prevC s.opp[Eb.prevC d]! := Coverage.sRP_eq _ (by omega)
    have e2 : sRP t.opp (phi P d) = phi P (Eb.prevC s.opp[Eb.prevC d]!) := by
      have := hC.phi_inv hd
      rw [Coverage.sRP_eq _ (by omega), phi_prevC P _ (by omega) (hC.p_inv (by omega)), h2,
        phi_prevC P d (by omega) (hC.p_inv (by omega))]
    show iter (sRP s.opp) k (sRP s.opp d) < _ ∧ iter (sRP t.opp) k (sRP t.opp (phi P d)) = phi P (iter (sRP s.opp) k (sRP s.opp d))
    rw [e2, e1]
    rw [e1] at hne'
    exact ih _ hpe hne'

theorem isOnBoundary_eval (tv : Eb.TView) (hatt : tv.isAtt = false) {v : Nat} (hv : v < tv.lm.size)
    (hl : tv.lm[v]! ≠ inv) (hn : Eb.nextC tv.lm[v]! < tv.opp.size) (hni : Eb.nextC tv.lm[v]! ≠ inv) :
    tv.isOnBoundary v = .ok (Eb.nextC tv.opp[Eb.nextC tv.lm[v]!]! == inv) := by
  have h1 : (tv.lm[v]! == inv) = false := by simp [hl]
  have h2 : (Eb.nextC tv.lm[v]! == inv) = false := by simp [hni]
  unfold Eb.TView.isOnBoundary
  rw [rd_ok' _ _ _ hv]
  simp only [bind, Except.bind, h1, Bool.false_eq_true, if_false, Eb.TView.swingLeft, Eb.TView.opposite, h2, hatt,
    rd_ok' _ _ _ hn, pure, Except.pure]

theorem nextC_eq_inv_iff {N : Nat} {opp : Array Nat} (hb : BaseTbl N opp) {c : Nat} (hc : c < N) :
    Eb.nextC opp[c]! = inv ↔ opp[c]! = inv := by
  constructor
  · intro h
    apply Classical.byContradiction
    intro hne
    have h1 := (hb.invol c hc hne).1
    have h2 := hb.le
    have := Eb.nextC_lt opp[c]! (by omega)
    omega
  · intro h; rw [h, AttViews.nextC_inv]

/-- the recorded left-most corner of a decoder vertex is left-open exactly when that of the encoder's vertex is -/
theorem lm_open_iff (hT : TblOK t) (hTr : Trace t P syms) (hI : Inv t P P.size s) (hH : HInv maxV P.size s)
    (hmax : s.vc.size ≤ maxV)
    (hcov : ∀ d, d < 3 * P.size → ∃ k, iter (sRP t.opp) k t.vc[t.c2v[phi P d]!]! = phi P d)
    (hvlt : ∀ d, d < 3 * P.size → t.c2v[phi P d]! < t.numVertices)
    (hvcE : ∀ w, w < t.vc.size → t.vc[w]! ≠ inv → t.vc[w]! < t.numCorners)
    {v : Nat} (hv : v < s.vc.size) :
    s.opp[Eb.nextC s.vc[v]!]! = inv ↔ t.opp[Eb.nextC t.vc[t.c2v[phi P s.vc[v]!]!]!]! = inv := by
  have hC := hTr.ctx hT
  have hinv := hC.fits'
  have hnc := hC.nc_le
  have hbE := hT.base
  have hbD := baseTbl_fin hC hI
  have hiso := ctIso_of_inv hT hTr hI hcov hvlt
  obtain ⟨hl, hlv⟩ := hH.vcok v hv
  have hpl := hC.phi_inv hl
  obtain ⟨k2, hk2⟩ := hcov _ hl
  have hx0i : t.vc[t.c2v[phi P s.vc[v]!]!]! ≠ inv := by
    intro e; rw [e, iter_fix (sRP_inv _)] at hk2; omega
  have hx0 := hvcE _ (hvlt _ hl) hx0i
  have hnl := nextC_lt3 hl hinv
  have hpn : phi P (Eb.nextC s.vc[v]!) = Eb.nextC (phi P s.vc[v]!) := phi_nextC P _ (by omega) (hC.p_inv (by omega))
  -- a corner reached by at least one `SwingRight` step is not left-open
  have notopen : ∀ {x y : Nat}, y < t.numCorners → sRP t.opp y = x → x ≠ inv → t.opp[Eb.nextC x]! ≠ inv := by
    intro x y hy e hx ho
    obtain ⟨-, hsl⟩ := hbE.sR_sL hy e hx
    have : sLP t.opp x = inv := by simp [sLP, hx, ho, AttViews.nextC_inv]
    rw [this] at hsl
    omega
  constructor
  · intro ho
    have hoE : t.opp[Eb.nextC (phi P s.vc[v]!)]! = inv := by
      rw [← hpn]; exact (hiso.opp_inv _ hnl).mp ho
    by_cases h0 : k2 = 0
    · subst h0
      have : t.vc[t.c2v[phi P s.vc[v]!]!]! = phi P s.vc[v]! := hk2
      rw [this]; exact hoE
    · exfalso
      have em : k2 = (k2 - 1) + 1 := by omega
      rw [em, iter_succ'] at hk2
      have hy : iter (sRP t.opp) (k2 - 1) t.vc[t.c2v[phi P s.vc[v]!]!]! ≠ inv := by
        intro e'; rw [e', sRP_inv] at hk2; omega
      exact notopen (AP.iter_sR_lt hbE hx0 _ hy) hk2 (by omega) hoE
  · intro hoE
    apply Classical.byContradiction
    intro ho
    have hh : s.hole[v]! = false := by
      cases hh : s.hole[v]! with
      | false => rfl
      | true => exact absurd (hH.opn v hv hh) ho
    have hcl := closed_fin hC hI hH hv (by omega) hh
    obtain ⟨Pd, hO, _⟩ := CountsIso.orbit_exists hbD hl
    have hper : iter (sRP s.opp) Pd s.vc[v]! = s.vc[v]! := by
      rcases hO.fin with h | h
      · exact absurd h (hcl _)
      · exact h
    have hpos := hO.pos
    obtain ⟨_, hperE⟩ := sR_transport' hC hI Pd _ hl (hcl _)
    rw [hper] at hperE
    -- the encoder's orbit is periodic from the recorded corner
    have e1 : iter (sRP t.opp) k2 (iter (sRP t.opp) Pd t.vc[t.c2v[phi P s.vc[v]!]!]!) =
        iter (sRP t.opp) k2 t.vc[t.c2v[phi P s.vc[v]!]!]! := by
      rw [← iter_add, Nat.add_comm, iter_add, hk2, hperE]
    have hne1 : iter (sRP t.opp) Pd t.vc[t.c2v[phi P s.vc[v]!]!]! ≠ inv := by
      intro e; rw [e, iter_fix (sRP_inv _), hk2] at e1; omega
    have e2 := AP.iter_sR_inj hbE k2 _ _ (AP.iter_sR_lt hbE hx0 _ hne1) hx0 e1 (by rw [e1, hk2]; omega)
    have em : Pd = (Pd - 1) + 1 := by omega
    rw [em, iter_succ'] at e2
    have hy : iter (sRP t.opp) (Pd - 1) t.vc[t.c2v[phi P s.vc[v]!]!]! ≠ inv := by
      intro e'; rw [e', sRP_inv] at e2; exact hx0i e2.symm
    exact notopen (AP.iter_sR_lt hbE hx0 _ hy) e2 hx0i hoE

/-- **`hbd`**: `IsOnBoundary` of the decoder's base view agrees with the encoder's -/
theorem hbd_fin (hT : TblOK t) (hTr : Trace t P syms) (hI : Inv t P P.size s) (hH : HInv maxV P.size s)
    (hmax : s.vc.size ≤ maxV)
    (hcov : ∀ d, d < 3 * P.size → ∃ k, iter (sRP t.opp) k t.vc[t.c2v[phi P d]!]! = phi P d)
    (hvlt : ∀ d, d < 3 * P.size → t.c2v[phi P d]! < t.numVertices)
    (hvcE : ∀ w, w < t.vc.size → t.vc[w]! ≠ inv → t.vc[w]! < t.numCorners) :
    ∀ d, d < 3 * P.size → ∃ b, (baseViewD P.size s.c2v s.opp s.vc).isOnBoundary s.c2v[d]! = .ok b ∧
      t.view.isOnBoundary (psi t P P.size s.c2v s.c2v[d]!) = .ok b := by
  have hC := hTr.ctx hT
  have hinv := hC.fits'
  have hnc := hC.nc_le
  have hbE := hT.base
  have hbD := baseTbl_fin hC hI
  have hiso := ctIso_of_inv hT hTr hI hcov hvlt
  intro d hd
  have hv := hI.v.vlt d hd
  obtain ⟨hl, hlv⟩ := hH.vcok _ hv
  have hnl := nextC_lt3 hl hinv
  have hfine := hI.v.fine _ _ hl hd hlv
  rw [hiso.psi_vertex d hd]
  have hopen := lm_open_iff hT hTr hI hH hmax hcov hvlt hvcE hv
  rw [hfine] at hopen
  obtain ⟨k, hk⟩ := hcov d hd
  have hx0i : t.vc[t.c2v[phi P d]!]! ≠ inv := by
    intro e; rw [e, iter_fix (sRP_inv _)] at hk; have := hC.phi_inv hd; omega
  have hx0 := hvcE _ (hvlt _ hd) hx0i
  have hnx : Eb.nextC t.vc[t.c2v[phi P d]!]! < t.numCorners := AttViews.nextC_ltN hbE.n3 hx0
  refine ⟨Eb.nextC s.opp[Eb.nextC s.vc[s.c2v[d]!]!]! == inv, ?_, ?_⟩
  · exact isOnBoundary_eval (baseViewD P.size s.c2v s.opp s.vc) rfl hv (by show s.vc[s.c2v[d]!]! ≠ inv; omega)
      (by show Eb.nextC s.vc[s.c2v[d]!]! < s.opp.size; rw [hI.o.size]; exact hnl)
      (by show Eb.nextC s.vc[s.c2v[d]!]! ≠ inv; omega)
  · have := isOnBoundary_eval t.view rfl (v := t.c2v[phi P d]!) (hvlt _ hd) hx0i
      (by show Eb.nextC t.vc[t.c2v[phi P d]!]! < t.opp.size; rw [hbE.oppsz]; exact hnx)
      (by show Eb.nextC t.vc[t.c2v[phi P d]!]! ≠ inv; omega)
    rw [this]
    congr 1
    show (Eb.nextC t.opp[Eb.nextC t.vc[t.c2v[phi P d]!]!]! == inv) = (Eb.nextC s.opp[Eb.nextC s.vc[s.c2v[d]!]!]! == inv)
    have i1 := nextC_eq_inv_iff hbE hnx
    have i2 := nextC_eq_inv_iff hbD hnl
    rw [Bool.eq_iff_iff, beq_iff_eq, beq_iff_eq, i1, i2]
    exact hopen.symm

/-- **the base views are isomorphic** -/
theorem tviso_fin (hT : TblOK t) (hTr : Trace t P syms) (hI : Inv t P P.size s) (hH : HInv maxV P.size s)
    (hmax : s.vc.size ≤ maxV)
    (hcov : ∀ d, d < 3 * P.size → ∃ k, iter (sRP t.opp) k t.vc[t.c2v[phi P d]!]! = phi P d)
    (hvlt : ∀ d, d < 3 * P.size → t.c2v[phi P d]! < t.numVertices)
    (hvcE : ∀ w, w < t.vc.size → t.vc[w]! ≠ inv → t.vc[w]! < t.numCorners) :
    TVIso (baseViewD P.size s.c2v s.opp s.vc) t.view (phi P) (psi t P P.size s.c2v) := by
  have hC := hTr.ctx hT
  have hiso := ctIso_of_inv hT hTr hI hcov hvlt
  have hk := hT.ctok
  refine tviso_of_ctiso t P P.size s.c2v s.opp s.vc hiso hC.nc_le ?_ hk.oppsz (fun d hd => hI.v.vlt d hd)
    (hbd_fin hT hTr hI hH hmax hcov hvlt hvcE)
  have := hk.three
  omega

end link

/-! ## the final state `St syms n maxV n` of the pure decoder -/

section st
variable {t : CT} {P : Array Nat} {syms : List Nat} {maxV : Nat}

/-- **(3)** sizes -/
theorem c2v_size_St (hT : TblOK t) (hTr : Trace t P syms) (maxV : Nat) :
    (St syms P.size maxV P.size).c2v.size = 3 * P.size ∧ (St syms P.size maxV P.size).opp.size = 3 * P.size :=
  ⟨(inv_St hT hTr maxV P.size (Nat.le_refl _)).v.csize, (inv_St hT hTr maxV P.size (Nat.le_refl _)).o.size⟩

/-- **(3)** no decoder vertex is isolated: all `vc.size` vertices are in use -/
theorem usedVerts_St (hT : TblOK t) (hTr : Trace t P syms) (maxV : Nat) :
    (CountsIso.usedVerts (St syms P.size maxV P.size).vc).length = (St syms P.size maxV P.size).vc.size :=
  usedVerts_fin (hTr.ctx hT) (hinv_St hT hTr maxV P.size (Nat.le_refl _))

/-- the decoder creates at most as many vertices as the encoder's table has in use -/
theorem vc_size_St_le (hT : TblOK t) (hTr : Trace t P syms) (maxV : Nat)
    (hcov : ∀ d, d < 3 * P.size → ∃ k, iter (sRP t.opp) k t.vc[t.c2v[phi P d]!]! = phi P d)
    (hvlt : ∀ d, d < 3 * P.size → t.c2v[phi P d]! < t.numVertices) :
    (St syms P.size maxV P.size).vc.size ≤ (CountsIso.usedVerts t.vc).length :=
  vc_size_le hT hTr (inv_St hT hTr maxV P.size (Nat.le_refl _)) (hinv_St hT hTr maxV P.size (Nat.le_refl _)) hcov hvlt

/-- **(2) `APHyp`** of the final tables of the pure decoder (`maxV` = the size of `is_vert_hole_` must cover the
    encoder's vertices in use) -/
theorem aphyp_St (hT : TblOK t) (hTr : Trace t P syms) (maxV : Nat)
    (hcov : ∀ d, d < 3 * P.size → ∃ k, iter (sRP t.opp) k t.vc[t.c2v[phi P d]!]! = phi P d)
    (hvlt : ∀ d, d < 3 * P.size → t.c2v[phi P d]! < t.numVertices)
    (hmaxV : (CountsIso.usedVerts t.vc).length ≤ maxV)
    (co : Eb.ConnOut) (h1 : co.c2v = (St syms P.size maxV P.size).c2v) (h2 : co.opp = (St syms P.size maxV P.size).opp)
    (h3 : co.vc = (St syms P.size maxV P.size).vc) (h4 : co.hole = (St syms P.size maxV P.size).hole) :
    APHyp P.size co :=
  aphyp_fin hT hTr (inv_St hT hTr maxV P.size (Nat.le_refl _)) (hinv_St hT hTr maxV P.size (Nat.le_refl _))
    (Nat.le_trans (vc_size_St_le hT hTr maxV hcov hvlt) hmaxV) hcov co h1 h2 h3 h4

/-- **(1) `FanHyps.hole`** of the final tables of the pure decoder -/
theorem hole_St (hT : TblOK t) (hTr : Trace t P syms) (maxV : Nat) :
    ∀ v, v < (St syms P.size maxV P.size).vc.size → (St syms P.size maxV P.size).vc[v]! ≠ inv →
      (St syms P.size maxV P.size).hole[v]! = true →
      ∃ k, iter (sRP (St syms P.size maxV P.size).opp) k (St syms P.size maxV P.size).vc[v]! = inv :=
  hole_fin (hTr.ctx hT) (inv_St hT hTr maxV P.size (Nat.le_refl _)) (hinv_St hT hTr maxV P.size (Nat.le_refl _))

/-- the base view of the final tables is isomorphic to the encoder's (`hdv` and `hbd` of `tviso_of_ctiso` discharged) -/
theorem tviso_St (hT : TblOK t) (hTr : Trace t P syms) (maxV : Nat)
    (hcov : ∀ d, d < 3 * P.size → ∃ k, iter (sRP t.opp) k t.vc[t.c2v[phi P d]!]! = phi P d)
    (hvlt : ∀ d, d < 3 * P.size → t.c2v[phi P d]! < t.numVertices)
    (hvcE : ∀ w, w < t.vc.size → t.vc[w]! ≠ inv → t.vc[w]! < t.numCorners)
    (hmaxV : (CountsIso.usedVerts t.vc).length ≤ maxV) :
    TVIso (baseViewD P.size (St syms P.size maxV P.size).c2v (St syms P.size maxV P.size).opp (St syms P.size maxV P.size).vc)
      t.view (phi P) (psi t P P.size (St syms P.size maxV P.size).c2v) :=
  tviso_fin hT hTr (inv_St hT hTr maxV P.size (Nat.le_refl _)) (hinv_St hT hTr maxV P.size (Nat.le_refl _))
    (Nat.le_trans (vc_size_St_le hT hTr maxV hcov hvlt) hmaxV) hcov hvlt hvcE

end st

/-! ## the point count of a split-free run, position only -/

/-- the decoder-side package for the pure decoder state of a split-free encoder run: `maxV` = the vertex count the
    encoder writes (`num_vertices - num_isolated`) -/
theorem dec_hyps_of_run (ch : ConnChoices) (pf : Faces) (conn : ConnEnc)
    (h : encodeConnectivity ch false pf #[] = .ok conn)
    (hnoS : ∀ x, x ∈ conn.symbols.toList → x ≠ Eb.topoS)
    (hstart : ∀ b, b ∈ conn.startFaces.toList → b = false)
    (co : Eb.ConnOut)
    (h1 : co.c2v = (St conn.symbols.toList.reverse conn.processed.size (conn.ct.numVertices - conn.ct.numIsolated) conn.processed.size).c2v)
    (h2 : co.opp = (St conn.symbols.toList.reverse conn.processed.size (conn.ct.numVertices - conn.ct.numIsolated) conn.processed.size).opp)
    (h3 : co.vc = (St conn.symbols.toList.reverse conn.processed.size (conn.ct.numVertices - conn.ct.numIsolated) conn.processed.size).vc)
    (h4 : co.hole = (St conn.symbols.toList.reverse conn.processed.size (conn.ct.numVertices - conn.ct.numIsolated) conn.processed.size).hole) :
    APHyp conn.processed.size co ∧
    (∀ v, v < co.vc.size → co.vc[v]! ≠ inv → co.hole[v]! = true → ∃ k, iter (sRP co.opp) k co.vc[v]! = inv) ∧
    TVIso (baseViewD conn.processed.size co.c2v co.opp co.vc) conn.ct.view (phi conn.processed)
      (psi conn.ct conn.processed conn.processed.size co.c2v) ∧
    co.c2v.size = 3 * conn.processed.size ∧ (CountsIso.usedVerts co.vc).length = co.vc.size := by
  obtain ⟨hTr, hT, _⟩ := EncTrace.trace_of_run ch pf conn h hnoS hstart
  obtain ⟨hcov, hvlt⟩ := EncTrace.cover_of_run ch false pf #[] conn h
  obtain ⟨table, _, hcreate, hct, _⟩ := EncCounts.encodeConnectivity_visited ch false pf #[] conn h
  have hvcE : ∀ w, w < conn.ct.vc.size → conn.ct.vc[w]! ≠ inv → conn.ct.vc[w]! < conn.ct.numCorners := by
    rw [hct]; exact fun w hw hne => (ofTable_hvcE hcreate w hw hne).1
  have hmaxV : (CountsIso.usedVerts conn.ct.vc).length ≤ conn.ct.numVertices - conn.ct.numIsolated := by
    rw [CountsIso.usedVerts_count_of_run h]
  refine ⟨aphyp_St hT hTr _ hcov hvlt hmaxV co h1 h2 h3 h4, ?_, ?_, ?_, ?_⟩
  · rw [h2, h3, h4]; exact hole_St hT hTr _
  · rw [h1, h2, h3]; exact tviso_St hT hTr _ hcov hvlt hvcE hmaxV
  · rw [h1]; exact (c2v_size_St hT hTr _).1
  · rw [h3]; exact usedVerts_St hT hTr _

/-- **C09, Edgebreaker points, split-free position-only runs**: `num_encoded_points` = the number of points
    `AssignPointsToCorners` returns on the tables of the PURE decoder (`numConnVerts` = the number of decoder vertices, no
    compaction).  No decoder-side table hypothesis is left. -/
theorem eb_points_splitfree (ch : ConnChoices) (pf : Faces) (conn : ConnEnc) (atts : Array Attribute) (used : Array Eb.AttConn)
    (nE : Nat)
    (h : encodeConnectivity ch false pf #[] = .ok conn)
    (hnoS : ∀ x, x ∈ conn.symbols.toList → x ≠ Eb.topoS)
    (hstart : ∀ b, b ∈ conn.startFaces.toList → b = false)
    (hatts : atts.size ≤ 1)
    (hrunE : computeNumberOfEncodedPoints atts conn used = .ok nE)
    (co : Eb.ConnOut)
    (h1 : co.c2v = (St conn.symbols.toList.reverse conn.processed.size (conn.ct.numVertices - conn.ct.numIsolated) conn.processed.size).c2v)
    (h2 : co.opp = (St conn.symbols.toList.reverse conn.processed.size (conn.ct.numVertices - conn.ct.numIsolated) conn.processed.size).opp)
    (h3 : co.vc = (St conn.symbols.toList.reverse conn.processed.size (conn.ct.numVertices - conn.ct.numIsolated) conn.processed.size).vc)
    (h4 : co.hole = (St conn.symbols.toList.reverse conn.processed.size (conn.ct.numVertices - conn.ct.numIsolated) conn.processed.size).hole)
    (h5 : co.numConnVerts = co.vc.size)
    (attsD : Array Eb.AttConn) (c2p : Array Nat) (nD tags : Nat)
    (hne : attsD.isEmpty = true)
    (hrunD : Eb.assignPoints co conn.processed.size attsD = .ok (c2p, nD, tags)) :
    nE = nD := by
  obtain ⟨hdec, hhole, hiso, _, hused⟩ := dec_hyps_of_run ch pf conn h hnoS hstart co h1 h2 h3 h4
  exact CountsIso.eb_encoded_points_eq_decoded_single_of_run atts used nE co conn.processed.size attsD c2p nD tags _
    hatts hrunE h hne hrunD rfl hiso hdec hhole (by rw [h5, hused])

/-- … in closed form: the encoder's point count is the number of vertices the pure decoder creates -/
theorem eb_points_splitfree_count (ch : ConnChoices) (pf : Faces) (conn : ConnEnc) (atts : Array Attribute)
    (used : Array Eb.AttConn) (nE : Nat)
    (h : encodeConnectivity ch false pf #[] = .ok conn)
    (hnoS : ∀ x, x ∈ conn.symbols.toList → x ≠ Eb.topoS)
    (hstart : ∀ b, b ∈ conn.startFaces.toList → b = false)
    (hatts : atts.size ≤ 1)
    (hrunE : computeNumberOfEncodedPoints atts conn used = .ok nE) :
    nE = (St conn.symbols.toList.reverse conn.processed.size (conn.ct.numVertices - conn.ct.numIsolated)
      conn.processed.size).vc.size := by
  let s := St conn.symbols.toList.reverse conn.processed.size (conn.ct.numVertices - conn.ct.numIsolated) conn.processed.size
  exact eb_points_splitfree ch pf conn atts used nE h hnoS hstart hatts hrunE ⟨s.c2v, s.opp, s.vc, s.hole, s.vc.size, 0, []⟩
    rfl rfl rfl rfl rfl #[] s.c2v s.vc.size 0 rfl (assignPoints_empty _ _ _ rfl)

end Draco.EbEnc.DecSimHole
