import Std.Tactic.Do
import DracoModel.EbEncPredict
import DracoProofs.Wrap
import DracoProofs.SeqIntValues
import DracoProofs.Octahedron
import DracoProofs.Yields
/-
  Round trips of the mesh prediction schemes of the Edgebreaker codec on the SAME mesh data
  (corner table, data-to-corner map, vertex-to-data map): the decoder loop of
  DracoModel/EbPredict.lean applied to the corrections computed by the encoder loop of
  DracoModel/EbEncPredict.lean returns the original portable values.

  The loops are `for` loops over arrays in the `Except` monad `R`; the verification conditions are
  generated with `mvcgen` (Std.Do) from loop invariants.
-/
open Std.Do

set_option mvcgen.warning false

namespace Draco.EbEnc
open Draco Draco.Eb

/-! ### adequacy: Hoare triples of `R` programs as equations -/

theorem R.of_triple {α : Type} {prog : R α} {Q : α → Prop} (h : ⦃⌜True⌝⦄ prog ⦃⇓ r => ⌜Q r⌝⦄) :
    ∃ a, prog = .ok a ∧ Q a := by
  apply Except.of_wp_eq (prog := prog) rfl (fun x => ∃ a, x = .ok a ∧ Q a)
  have h' : ⊢ₛ wp⟦prog⟧ (⇓ r => ⌜Q r⌝) := by
    have := h
    simp only [Triple] at this
    exact SPred.entails.trans (by simp) this
  apply SPred.entails.trans h'
  apply (wp prog).mono
  refine ⟨fun a => ?_, ?_⟩
  · simp
  · simp

/-- the triple of a program known to return `a` -/
theorem R.triple_of_eq {α : Type} {prog : R α} {a : α} (h : prog = .ok a) (Q : α → Prop) (hq : Q a) :
    ⦃⌜True⌝⦄ prog ⦃⇓ r => ⌜Q r⌝⦄ := by
  subst h
  mvcgen

/-- `wp` of a returned value -/
theorem wp_ok {α : Type} (a : α) (Q : α → Prop) (h : Q a) :
    (wp⟦(Except.ok a : R α)⟧ (PostCond.noThrow fun r => ⌜Q r⌝)).down := by
  have : ⦃⌜True⌝⦄ (Except.ok a : R α) ⦃⇓ r => ⌜Q r⌝⦄ := by
    mvcgen
  exact this trivial

/-! ### checked array accesses -/

theorem rdI_eq (site : String) (a : Array Int) (i : Nat) (h : i < a.size) : rdI site a i = .ok a[i] := by
  simp [rdI, h, pure, Except.pure]

theorem wrI_eq (site : String) (a : Array Int) (i : Nat) (v : Int) (h : i < a.size) :
    wrI site a i v = .ok (a.set i v h) := by
  simp [wrI, h, pure, Except.pure]

theorem rd_eq (site : String) (a : Array Nat) (i : Nat) (h : i < a.size) : rd site a i = .ok a[i] := by
  simp [rd, h, pure, Except.pure]

@[spec]
theorem rdI_spec (site : String) (a : Array Int) (i : Nat) (h : i < a.size) :
    ⦃⌜True⌝⦄ rdI site a i ⦃⇓ r => ⌜r = a[i]⌝⦄ :=
  R.triple_of_eq (rdI_eq site a i h) _ rfl

@[spec]
theorem wrI_spec (site : String) (a : Array Int) (i : Nat) (v : Int) (h : i < a.size) :
    ⦃⌜True⌝⦄ wrI site a i v ⦃⇓ r => ⌜r = a.set i v h⌝⦄ :=
  R.triple_of_eq (wrI_eq site a i v h) _ rfl

/-- position of the current element of a `for i in [a:n]` loop -/
theorem range_split {a n : Nat} {pref suff : List Nat} {cur : Nat}
    (h : [a:n].toList = pref ++ cur :: suff) : cur = a + pref.length ∧ cur < n := by
  have h' : List.range' a (n - a) 1 = pref ++ cur :: suff := by simpa [Std.Legacy.Range.toList] using h
  have hl := congrArg List.length h'
  simp at hl
  have hget : (List.range' a (n - a) 1)[pref.length]? = some cur := by rw [h']; simp
  rw [List.getElem?_range' (by omega)] at hget
  simp at hget; omega

theorem range_length (a n : Nat) : ([a:n].toList).length = n - a := by
  simp [Std.Legacy.Range.toList]


/-! ### writing a block of entries -/

/-- the array `a` with the `k` entries from `off` on replaced by `f c a[off+c]` -/
def patch (a : Array Int) (off k : Nat) (f : Nat → Int → Int) : Array Int :=
  Array.ofFn (n := a.size) fun i => if off ≤ i.val ∧ i.val < off + k then f (i.val - off) a[i] else a[i]

@[simp] theorem patch_size (a : Array Int) (off k : Nat) (f : Nat → Int → Int) : (patch a off k f).size = a.size := by
  simp [patch]

theorem patch_get (a : Array Int) (off k : Nat) (f : Nat → Int → Int) (i : Nat) (h : i < a.size) :
    (patch a off k f)[i]'(by simp [h]) = if off ≤ i ∧ i < off + k then f (i - off) a[i] else a[i] := by
  simp [patch]

theorem patch_zero (a : Array Int) (off : Nat) (f : Nat → Int → Int) : patch a off 0 f = a := by
  apply Array.ext
  · simp
  · intro i h1 h2
    rw [patch_get a off 0 f i h2, if_neg (by omega)]

theorem patch_succ (a : Array Int) (off k : Nat) (f : Nat → Int → Int) (h : off + k < a.size) :
    (patch a off k f).set (off + k) (f k a[off + k]) (by simp [h]) = patch a off (k + 1) f := by
  apply Array.ext
  · simp
  · intro i h1 h2
    have hi : i < a.size := by simpa using h2
    rw [patch_get a off (k+1) f i hi]
    by_cases e : i = off + k
    · subst e
      simp
    · rw [Array.getElem_set_ne (h := by omega) (pj := by simp [hi]), patch_get a off k f i hi]
      by_cases hlo : off ≤ i ∧ i < off + k
      · rw [if_pos hlo, if_pos (by omega)]
      · rw [if_neg hlo, if_neg (by omega)]

/-- `applyWrap` (decoder): the `nc` corrections from `off` on are replaced by the original values -/
theorem applyWrap_spec (wt : Leaf.WrapT) (nc off : Nat) (pred : Nat → R Int) (P : Nat → Int) (data : Array Int)
    (h : off + nc ≤ data.size) (hp : ∀ c, c < nc → pred c = pure (P c)) :
    ⦃⌜True⌝⦄ applyWrap wt nc off pred data
    ⦃⇓ r => ⌜r = patch data off nc fun c x => Leaf.wrapDec wt (P c) x⌝⦄ := by
  mvcgen [applyWrap]
  case inv1 =>
    exact ⇓⟨xs, b⟩ => ⌜b = patch data off xs.prefix.length fun c x => Leaf.wrapDec wt (P c) x⌝
  case vc1.step =>
    rename_i pref cur suff hsplit b hinv
    obtain ⟨hc, hlt⟩ := range_split hsplit
    rw [hp cur hlt]
    have hb : b = patch data off pref.length fun c x => Leaf.wrapDec wt (P c) x := hinv
    have hbs : b.size = data.size := by rw [hb, patch_size]
    mvcgen
    case vc1.h => omega
    case vc2.h => omega
    case vc3.success.success =>
      rename_i r1 hr1 r2 hr2
      subst hr2 hr1
      have hget : b[off + cur]'(by omega) = data[off + cur]'(by omega) := by
        subst hb
        rw [patch_get data off pref.length _ (off + cur) (by omega), if_neg (by omega)]
      rw [hget]
      subst hb
      have hc' : cur = pref.length := by omega
      subst hc'
      have := patch_succ data off pref.length (fun c x => Leaf.wrapDec wt (P c) x) (by omega)
      simpa using this
  case vc2.pre =>
    show data = patch data off 0 _
    rw [patch_zero]
  case vc3.post.success =>
    rename_i r hinv
    have : r = patch data off ([:nc].toList).length fun c x => Leaf.wrapDec wt (P c) x := hinv
    simpa [range_length] using this
  case vc4.post.except => simp

theorem applyWrap_eq (wt : Leaf.WrapT) (nc off : Nat) (pred : Nat → R Int) (P : Nat → Int) (data : Array Int)
    (h : off + nc ≤ data.size) (hp : ∀ c, c < nc → pred c = pure (P c)) :
    applyWrap wt nc off pred data = pure (patch data off nc fun c x => Leaf.wrapDec wt (P c) x) := by
  obtain ⟨a, h1, h2⟩ := R.of_triple (applyWrap_spec wt nc off pred P data h hp)
  rw [h1, h2]; rfl

/-- `corrWrap` (encoder): the `nc` entries of `out` from `off` on receive the corrections -/
theorem corrWrap_spec (wt : WrapT) (nc off : Nat) (pred : Nat → R Int) (P : Nat → Int) (data out : Array Int)
    (h : off + nc ≤ data.size) (ho : out.size = data.size) (hp : ∀ c, c < nc → pred c = pure (P c)) :
    ⦃⌜True⌝⦄ corrWrap wt nc off pred data out
    ⦃⇓ r => ⌜r = patch out off nc fun c _ => Wrap.encCorr wt (data.getD (off + c) 0) (P c)⌝⦄ := by
  mvcgen [corrWrap]
  case inv1 =>
    exact ⇓⟨xs, b⟩ => ⌜b = patch out off xs.prefix.length fun c _ => Wrap.encCorr wt (data.getD (off + c) 0) (P c)⌝
  case vc1.h =>
    rename_i pref cur suff hsplit b hinv
    obtain ⟨hc, hlt⟩ := range_split hsplit
    omega
  case vc2.step =>
    rename_i pref cur suff hsplit b hinv r1 hr1
    obtain ⟨hc, hlt⟩ := range_split hsplit
    rw [hp cur hlt]
    have hb : b = patch out off pref.length fun c _ => Wrap.encCorr wt (data.getD (off + c) 0) (P c) := hinv
    have hbs : b.size = data.size := by rw [hb, patch_size, ho]
    mvcgen
    case vc1.h => omega
    case vc2.success =>
      rename_i r2 hr2
      subst hr2 hr1 hb
      have hc' : cur = pref.length := by omega
      subst hc'
      have := patch_succ out off pref.length (fun c _ => Wrap.encCorr wt (data.getD (off + c) 0) (P c)) (by omega)
      have hg : data.getD (off + pref.length) 0 = data[off + pref.length]'(by omega) := by
        simp [Array.getD, show off + pref.length < data.size by omega]
      simpa [hg] using this
  case vc3.pre =>
    show out = patch out off 0 _
    rw [patch_zero]
  case vc4.post.success =>
    rename_i r hinv
    have : r = patch out off ([:nc].toList).length fun c _ => Wrap.encCorr wt (data.getD (off + c) 0) (P c) := hinv
    simpa [range_length] using this
  case vc5.post.except => simp

theorem corrWrap_eq (wt : WrapT) (nc off : Nat) (pred : Nat → R Int) (P : Nat → Int) (data out : Array Int)
    (h : off + nc ≤ data.size) (ho : out.size = data.size) (hp : ∀ c, c < nc → pred c = pure (P c)) :
    corrWrap wt nc off pred data out =
      .ok (patch out off nc fun c _ => Wrap.encCorr wt (data.getD (off + c) 0) (P c)) := by
  obtain ⟨a, h1, h2⟩ := R.of_triple (corrWrap_spec wt nc off pred P data out h ho hp)
  rw [h1, h2]


/-! ### the encoder loop `encodeBackward` -/

theorem block_div_mod {p nc i : Nat} (h1 : p * nc ≤ i) (h2 : i < p * nc + nc) :
    i / nc = p ∧ i % nc = i - p * nc := by
  have hnc : 0 < nc := by omega
  have hd : i / nc = p := by
    apply Nat.div_eq_of_lt_le
    · rw [Nat.mul_comm] at h1; simpa [Nat.mul_comm] using h1
    · rw [Nat.succ_mul]; exact h2
  refine ⟨hd, ?_⟩
  have := Nat.div_add_mod i nc
  rw [hd, Nat.mul_comm] at this
  omega

/-- blocks `≥ lo` of `nc` entries hold `g block index`, the entries below are zero -/
def blocksFrom (size nc lo : Nat) (g : Nat → Nat → Int) : Array Int :=
  Array.ofFn (n := size) fun i => if lo * nc ≤ i.val then g (i.val / nc) (i.val % nc) else 0

theorem blocksFrom_getD (size nc : Nat) (g : Nat → Nat → Int) (p c : Nat) (hc : c < nc)
    (hi : p * nc + c < size) : (blocksFrom size nc 0 g).getD (p * nc + c) 0 = g p c := by
  obtain ⟨hd, hm⟩ := block_div_mod (p := p) (nc := nc) (i := p * nc + c) (by omega) (by omega)
  have hm' : (p * nc + c) % nc = c := by omega
  have hsz : p * nc + c < (blocksFrom size nc 0 g).size := by simpa [blocksFrom] using hi
  rw [Array.getD, dif_pos hsz]
  show (blocksFrom size nc 0 g)[p * nc + c] = g p c
  simp only [blocksFrom, Array.getElem_ofFn, Nat.zero_mul, Nat.zero_le, if_true, hd, hm']

theorem encodeBackward_spec (n nc size : Nat) (corrAt : Nat → Array Int → R (Array Int)) (g : Nat → Nat → Int)
    (hsz : size = n * nc) (hn : 0 < n) (hnc : 0 < nc)
    (hstep : ∀ p out, p < n → out.size = size →
      corrAt p out = .ok (patch out (p * nc) nc fun c _ => g p c)) :
    ⦃⌜True⌝⦄ encodeBackward n size corrAt ⦃⇓ r => ⌜r = blocksFrom size nc 0 g⌝⦄ := by
  have hpatch : ∀ (q : Nat), q < n →
      patch (blocksFrom size nc (q + 1) g) (q * nc) nc (fun c _ => g q c) = blocksFrom size nc q g := by
    intro q hq
    apply Array.ext
    · simp [blocksFrom]
    · intro i h1 h2
      have hi : i < size := by simpa [blocksFrom] using h2
      rw [patch_get _ _ _ _ i (by simpa [blocksFrom] using hi)]
      simp only [blocksFrom, Array.getElem_ofFn]
      have hsm : (q + 1) * nc = q * nc + nc := Nat.succ_mul q nc
      by_cases hb : q * nc ≤ i ∧ i < q * nc + nc
      · obtain ⟨hd, hm⟩ := block_div_mod hb.1 hb.2
        rw [if_pos hb, if_pos hb.1, hd, hm]
      · rw [if_neg hb]
        by_cases h3 : (q + 1) * nc ≤ i
        · rw [if_pos h3, if_pos (by omega)]
        · rw [if_neg h3, if_neg (by omega)]
  mvcgen [encodeBackward]
  case inv1 =>
    exact ⇓⟨xs, b⟩ => ⌜b = blocksFrom size nc (n - xs.prefix.length) g⌝
  case vc1.step =>
    rename_i pref cur suff hsplit b hinv
    obtain ⟨hc, hlt⟩ := range_split hsplit
    have hb : b = blocksFrom size nc (n - pref.length) g := hinv
    have hcur : cur = pref.length := by omega
    rw [hstep (n - 1 - cur) b (by omega) (by rw [hb]; simp [blocksFrom])]
    mvcgen
    subst hb hcur
    have h1 : n - pref.length = (n - 1 - pref.length) + 1 := by omega
    rw [h1, hpatch (n - 1 - pref.length) (by omega)]
    simp only [List.length_append, List.length_cons, List.length_nil]
    congr 1
    omega
  case vc2.pre =>
    show Array.replicate size (0 : Int) = blocksFrom size nc (n - 0) g
    apply Array.ext
    · simp [blocksFrom]
    · intro i h1 h2
      have hi : i < size := by simpa using h1
      simp only [blocksFrom, Array.getElem_ofFn, Array.getElem_replicate, Nat.sub_zero]
      rw [if_neg (by omega)]
  case vc3.post.success =>
    rename_i out0 r
    intro hinv
    have hr : r = blocksFrom size nc (n - ([:n - 1].toList).length) g := hinv
    rw [range_length] at hr
    rw [hstep 0 r hn (by rw [hr]; simp [blocksFrom])]
    apply wp_ok
    subst hr
    have h1 : n - (n - 1 - 0) = 0 + 1 := by omega
    have := hpatch 0 hn
    rw [h1]
    simpa using this
  case vc4.post.except => simp

theorem encodeBackward_eq (n nc size : Nat) (corrAt : Nat → Array Int → R (Array Int)) (g : Nat → Nat → Int)
    (hsz : size = n * nc) (hn : 0 < n) (hnc : 0 < nc)
    (hstep : ∀ p out, p < n → out.size = size →
      corrAt p out = .ok (patch out (p * nc) nc fun c _ => g p c)) :
    encodeBackward n size corrAt = .ok (blocksFrom size nc 0 g) := by
  obtain ⟨a, h1, h2⟩ := R.of_triple (encodeBackward_spec n nc size corrAt g hsz hn hnc hstep)
  rw [h1, h2]


/-! ### delta coding with the wrap transform -/

/-- the first `k` entries from `orig`, the rest from `corr` (state of an in-place decoder) -/
def mix (orig corr : Array Int) (k : Nat) : Array Int :=
  Array.ofFn (n := corr.size) fun i => if i.val < k then orig.getD i.val 0 else corr[i]

@[simp] theorem mix_size (orig corr : Array Int) (k : Nat) : (mix orig corr k).size = corr.size := by
  simp [mix]

theorem mix_get (orig corr : Array Int) (k i : Nat) (h : i < corr.size) :
    (mix orig corr k)[i]'(by simp [h]) = if i < k then orig.getD i 0 else corr[i] := by
  simp [mix]

theorem mix_zero (orig corr : Array Int) : mix orig corr 0 = corr := by
  apply Array.ext
  · simp
  · intro i h1 h2
    rw [mix_get orig corr 0 i h2, if_neg (by omega)]

theorem mix_all (orig corr : Array Int) (k : Nat) (hs : corr.size = orig.size) (hk : orig.size ≤ k) :
    mix orig corr k = orig := by
  apply Array.ext
  · simp [hs]
  · intro i h1 h2
    have hi : i < corr.size := by simpa using h1
    rw [mix_get orig corr k i hi, if_pos (by omega)]
    simp [Array.getD, h2]

/-- decoding block `p` of an in-place decoder whose first `p` blocks are decoded -/
theorem mix_patch (orig corr : Array Int) (nc p : Nat) (f : Nat → Int → Int)
    (hf : ∀ c, c < nc → f c (corr.getD (p * nc + c) 0) = orig.getD (p * nc + c) 0)
    (hsz : (p + 1) * nc ≤ corr.size) :
    patch (mix orig corr (p * nc)) (p * nc) nc f = mix orig corr ((p + 1) * nc) := by
  have hsm : (p + 1) * nc = p * nc + nc := Nat.succ_mul p nc
  apply Array.ext
  · simp
  · intro i h1 h2
    have hi : i < corr.size := by simpa using h2
    rw [patch_get _ _ _ _ i (by simpa using hi), mix_get orig corr _ i hi, mix_get orig corr _ i hi]
    by_cases hb : p * nc ≤ i ∧ i < p * nc + nc
    · rw [if_pos hb, if_neg (by omega), if_pos (by omega)]
      have := hf (i - p * nc) (by omega)
      have e : p * nc + (i - p * nc) = i := by omega
      rw [e] at this
      rw [← this]
      simp [Array.getD, hi]
    · rw [if_neg hb]
      by_cases h3 : i < p * nc
      · rw [if_pos h3, if_pos (by omega)]
      · rw [if_neg h3, if_neg (by omega)]

/-- the corrections the delta encoder computes for entry `p`, component `c` -/
def deltaCorrAt (wt : WrapT) (nc : Nat) (data : Array Int) (p c : Nat) : Int :=
  Wrap.encCorr wt (data.getD (p * nc + c) 0) (if p = 0 then 0 else data.getD ((p - 1) * nc + c) 0)

theorem deltaEncodeWrap_eq (wt : WrapT) (nc n : Nat) (data : Array Int) (hnc : 0 < nc) (hn : 0 < n)
    (hsz : data.size = n * nc) :
    deltaEncodeWrap wt nc data = .ok (blocksFrom data.size nc 0 (deltaCorrAt wt nc data)) := by
  have hdiv : data.size / nc = n := by rw [hsz]; exact Nat.mul_div_cancel n hnc
  unfold deltaEncodeWrap
  have hnc0 : (nc == 0) = false := by simp; omega
  simp only [hnc0, Bool.false_eq_true, if_false, hdiv]
  apply encodeBackward_eq n nc data.size _ (deltaCorrAt wt nc data) hsz hn hnc
  intro p out hp hout
  have hle : p * nc + nc ≤ n * nc := by
    rw [← Nat.succ_mul]; exact Nat.mul_le_mul_right nc hp
  rw [corrWrap_eq wt nc (p * nc) (deltaPred nc data p)
    (fun c => if p = 0 then 0 else data.getD ((p - 1) * nc + c) 0) data out (by omega) hout ?_]
  · rfl
  · intro c hc
    unfold deltaPred
    by_cases hp0 : p = 0
    · simp [hp0]
    · have hb : (p == 0) = false := by simpa using hp0
      have hpm : (p - 1) * nc + nc = p * nc := by
        rw [← Nat.succ_mul]; congr 1; omega
      simp only [hb, Bool.false_eq_true, if_false, hp0]
      rw [rdI_eq _ _ _ (by omega)]
      simp [Array.getD, show (p - 1) * nc + c < data.size by omega, pure, Except.pure]

theorem deltaDecodeWrap_spec (wt : Leaf.WrapT) (nc n : Nat) (orig corr : Array Int) (hnc : 0 < nc) (hn : 0 < n)
    (hsz : orig.size = n * nc) (hcs : corr.size = orig.size)
    (hinv : ∀ p c, p < n → c < nc →
      Leaf.wrapDec wt (if p = 0 then 0 else orig.getD ((p - 1) * nc + c) 0) (corr.getD (p * nc + c) 0)
        = orig.getD (p * nc + c) 0) :
    ⦃⌜True⌝⦄ deltaDecodeWrap wt nc corr ⦃⇓ r => ⌜r = orig⌝⦄ := by
  have hdiv : corr.size / nc = n := by rw [hcs, hsz]; exact Nat.mul_div_cancel n hnc
  have hnc0 : (nc == 0) = false := by simp; omega
  have hblk : ∀ p, p < n → (p + 1) * nc ≤ corr.size := by
    intro p hp
    rw [hcs, hsz]; exact Nat.mul_le_mul_right nc hp
  -- entry 0
  have h0 : applyWrap wt nc 0 (fun _ => pure 0) corr = pure (mix orig corr (1 * nc)) := by
    rw [applyWrap_eq wt nc 0 (fun _ => pure 0) (fun _ => 0) corr (by have := hblk 0 hn; omega) (fun _ _ => rfl)]
    have := mix_patch orig corr nc 0 (fun _ x => Leaf.wrapDec wt 0 x)
      (by intro c hc; have := hinv 0 c hn hc; simpa using this) (hblk 0 hn)
    rw [Nat.zero_mul, mix_zero] at this
    rw [this]
  mvcgen [deltaDecodeWrap]
  case vc1.isTrue => rename_i h; rw [hnc0] at h; cases h
  case vc2.isFalse =>
    rw [h0]
    mvcgen
    case inv1 =>
      exact ⇓⟨xs, b⟩ => ⌜b = mix orig corr ((1 + xs.prefix.length) * nc)⌝
    case vc1.step =>
      rename_i hne cur suff hsplit b hb0
      obtain ⟨hc, hlt⟩ := range_split hsplit
      rw [hdiv] at hlt
      have hb : b = mix orig corr ((1 + pref.length) * nc) := hb0
      have hcur : 1 + pref.length = cur := by omega
      rw [hcur] at hb
      have hsm : (cur - 1) * nc + nc = cur * nc := by
        rw [← Nat.succ_mul]; congr 1; omega
      have hle := hblk cur hlt
      have hs1 : (cur + 1) * nc = cur * nc + nc := Nat.succ_mul cur nc
      rw [applyWrap_eq wt nc (cur * nc) _ (fun c => orig.getD ((cur - 1) * nc + c) 0) b
        (by rw [hb]; simp; omega) ?_]
      · mvcgen
        subst hb
        rw [mix_patch orig corr nc cur _ ?_ hle]
        · simp only [List.length_append, List.length_cons, List.length_nil]
          congr 2; omega
        · intro c hc
          have := hinv cur c hlt hc
          rw [if_neg (by omega)] at this
          exact this
      · intro c hc
        rw [rdI_eq _ _ _ (by rw [hb]; simp; omega)]
        subst hb
        rw [mix_get orig corr _ _ (by omega), if_pos (by omega)]
        rfl
    case vc2.pre =>
      show mix orig corr (1 * nc) = mix orig corr ((1 + 0) * nc)
      rfl
    case vc3.post.success =>
      rename_i hne r hr0
      have hr : r = mix orig corr ((1 + ([1:corr.size / nc].toList).length) * nc) := hr0
      rw [range_length, hdiv] at hr
      rw [hr]
      apply mix_all orig corr _ hcs
      rw [hsz]
      apply Nat.mul_le_mul_right
      omega
    case vc4.post.except => simp

/-- **delta coding (wrap transform)**: the decoder loop applied to the corrections of the encoder
    loop returns the values — for value arrays of `n ≥ 1` entries of `nc ≥ 1` components whose
    values lie in the range `[lo, hi]` the wrap transform was initialised with -/
theorem delta_wrap_roundtrip (wt : WrapT) (lo hi : Int) (nc n : Nat) (data : Array Int)
    (hnc : 0 < nc) (hn : 0 < n) (hsz : data.size = n * nc)
    (hinit : Wrap.init lo hi = some wt) (hlo : -2 ^ 31 ≤ lo) (hhi : hi < 2 ^ 31)
    (hrange : ∀ i (h : i < data.size), lo ≤ data[i] ∧ data[i] ≤ hi) :
    ∃ corr, deltaEncodeWrap wt nc data = .ok corr ∧ deltaDecodeWrap wt nc corr = .ok data := by
  refine ⟨_, deltaEncodeWrap_eq wt nc n data hnc hn hsz, ?_⟩
  have hspec := deltaDecodeWrap_spec wt nc n data (blocksFrom data.size nc 0 (deltaCorrAt wt nc data)) hnc hn hsz
    (by simp [blocksFrom]) ?_
  · obtain ⟨a, h1, h2⟩ := R.of_triple hspec
    rw [h1, h2]
  · intro p c hp hc
    have hle : p * nc + nc ≤ n * nc := by
      rw [← Nat.succ_mul]; exact Nat.mul_le_mul_right nc hp
    have hi : p * nc + c < data.size := by omega
    rw [blocksFrom_getD data.size nc _ p c hc hi]
    unfold deltaCorrAt
    have hv : data.getD (p * nc + c) 0 = data[p * nc + c] := by simp [Array.getD, hi]
    rw [hv]
    obtain ⟨h1, h2⟩ := hrange (p * nc + c) hi
    exact (Wrap.decOrig_encCorr (Wrap.init_bounds hinit).1 (Wrap.init_bounds hinit).2.1 (Wrap.init_bounds hinit).2.2
      hlo hhi _ _ h1 h2)


/-! ### parallelogram prediction -/


theorem forIn_list_congr {σ : Type} (l : List Nat) (f g : Nat → σ → R (ForInStep σ))
    (h : ∀ a ∈ l, ∀ s, f a s = g a s) : ∀ init, forIn l init f = forIn l init g := by
  induction l with
  | nil => intro init; simp
  | cons a l ih =>
    intro init
    simp only [List.forIn_cons]
    rw [h a (by simp) init]
    congr 1
    funext r
    cases r with
    | done b => rfl
    | yield b => exact ih (fun x hx s => h x (by simp [hx]) s) b

theorem rdI_congr (site : String) (d d' : Array Int) (i : Nat) (hs : d.size = d'.size)
    (h : ∀ (h1 : i < d.size) (h2 : i < d'.size), d[i] = d'[i]) : rdI site d i = rdI site d' i := by
  unfold rdI
  by_cases hi : i < d.size
  · have hi' : i < d'.size := by omega
    simp [hi, hi', h hi hi']
  · have hi' : ¬ i < d'.size := by omega
    simp [hi, hi']

theorem parallelogramPrediction_congr (md : MeshData) (p ci nc : Nat) (d d' : Array Int) (hs : d.size = d'.size)
    (h : ∀ i (h1 : i < d.size) (h2 : i < d'.size), i < p * nc → d[i] = d'[i]) :
    parallelogramPrediction md p ci d nc = parallelogramPrediction md p ci d' nc := by
  unfold parallelogramPrediction
  simp only [Std.Legacy.Range.forIn_eq_forIn_range']
  refine bind_congr fun oci => ?_
  split
  · rfl
  · refine bind_congr fun v1 => bind_congr fun vOpp => bind_congr fun v2 => bind_congr fun vNext =>
      bind_congr fun v3 => bind_congr fun vPrev => ?_
    split
    · rename_i hg
      simp only [Bool.and_eq_true, decide_eq_true_eq] at hg
      obtain ⟨⟨ho, hn⟩, hpv⟩ := hg
      congr 1
      apply forIn_list_congr
      intro c hc s
      have hc' : c < nc := by
        have := List.mem_range'.mp hc
        simp [Std.Legacy.Range.size] at this
        omega
      have key : ∀ v, v < p → v * nc + c < p * nc := by
        intro v hv
        have : (v + 1) * nc ≤ p * nc := Nat.mul_le_mul_right nc hv
        rw [Nat.succ_mul] at this
        omega
      rw [rdI_congr _ d d' (vNext * nc + c) hs (fun h1 h2 => h _ h1 h2 (key _ hn)),
        rdI_congr _ d d' (vPrev * nc + c) hs (fun h1 h2 => h _ h1 h2 (key _ hpv)),
        rdI_congr _ d d' (vOpp * nc + c) hs (fun h1 h2 => h _ h1 h2 (key _ ho))]
    · rfl

/-- the encoder-side call = the check of the `-1` entries, then the shared predictor -/
theorem predE_ok (md : MeshData) (p ci nc : Nat) (d : Array Int) (r : Option (Array Int))
    (h : parallelogramPredictionE md p ci d nc = .ok r) : parallelogramPrediction md p ci d nc = .ok r := by
  unfold parallelogramPredictionE at h
  cases hc : checkParallelogramEntries md ci with
  | error e => rw [hc] at h; cases h
  | ok u => rw [hc] at h; exact h

/-- the value of the prediction call of entry `p` on the original data (`none` also when the call fails) -/
def predVal (md : MeshData) (nc : Nat) (data : Array Int) (p : Nat) : Option (Array Int) :=
  match parallelogramPredictionE md p (md.d2c[p]!) data nc with
  | .ok r => r
  | .error _ => none

/-- the prediction calls of the encoder succeed and return `nc` values (no out-of-range table access) -/
def PredOK (md : MeshData) (nc : Nat) (data : Array Int) : Prop :=
  ∀ p, 0 < p → p < md.d2c.size →
    parallelogramPredictionE md p (md.d2c[p]!) data nc = .ok (predVal md nc data p) ∧
    ∀ pv, predVal md nc data p = some pv → pv.size = nc

/-- the prediction of entry `p`, component `c` -/
def parPred (md : MeshData) (nc : Nat) (data : Array Int) (p c : Nat) : Int :=
  if p = 0 then 0 else
  match predVal md nc data p with
  | none => data.getD ((p - 1) * nc + c) 0
  | some pv => pv.getD c 0

def parCorrAt (md : MeshData) (wt : WrapT) (nc : Nat) (data : Array Int) (p c : Nat) : Int :=
  Wrap.encCorr wt (data.getD (p * nc + c) 0) (parPred md nc data p c)

theorem parallelogramEncode_eq (md : MeshData) (wt : WrapT) (nc n : Nat) (data : Array Int) (hnc : 0 < nc)
    (hn : 0 < n) (hd : md.d2c.size = n) (hsz : data.size = n * nc) (hok : PredOK md nc data) :
    parallelogramEncode md wt nc data = .ok (blocksFrom data.size nc 0 (parCorrAt md wt nc data)) := by
  unfold parallelogramEncode
  rw [hd]
  apply encodeBackward_eq n nc data.size _ (parCorrAt md wt nc data) hsz hn hnc
  intro p out hp hout
  have hle : p * nc + nc ≤ n * nc := by
    rw [← Nat.succ_mul]; exact Nat.mul_le_mul_right nc hp
  unfold parallelogramCorrAt
  by_cases hp0 : p = 0
  · subst hp0
    simp only [beq_self_eq_true, if_true]
    rw [corrWrap_eq wt nc 0 (fun _ => pure 0) (fun _ => 0) data out (by omega) hout (fun _ _ => rfl)]
    simp [parCorrAt, parPred]
  · have hb : (p == 0) = false := by simpa using hp0
    obtain ⟨hcall, hsize⟩ := hok p (by omega) (by omega)
    have hpm : (p - 1) * nc + nc = p * nc := by
      rw [← Nat.succ_mul]; congr 1; omega
    simp only [hb, Bool.false_eq_true, if_false, hcall]
    cases hv : predVal md nc data p with
    | none =>
      show corrWrap wt nc (p * nc) (fun c => rdI "in_data" data ((p - 1) * nc + c)) data out = _
      rw [corrWrap_eq wt nc (p * nc) _ (fun c => data.getD ((p - 1) * nc + c) 0) data out (by omega) hout ?_]
      · simp only [parCorrAt, parPred, hp0, if_false, hv]
      · intro c hc
        rw [rdI_eq _ _ _ (by omega)]
        simp [Array.getD, show (p - 1) * nc + c < data.size by omega, pure, Except.pure]
    | some pv =>
      have hpvs := hsize pv hv
      show corrWrap wt nc (p * nc) (fun c => rdI "pred_vals" pv c) data out = _
      rw [corrWrap_eq wt nc (p * nc) _ (fun c => pv.getD c 0) data out (by omega) hout ?_]
      · simp only [parCorrAt, parPred, hp0, if_false, hv]
      · intro c hc
        rw [rdI_eq _ _ _ (by omega)]
        simp [Array.getD, show c < pv.size by omega, pure, Except.pure]


theorem parallelogramDecode_spec (md : MeshData) (wt : Leaf.WrapT) (nc n : Nat) (orig corr : Array Int)
    (hnc : 0 < nc) (hn : 0 < n) (hd : md.d2c.size = n)
    (hsz : orig.size = n * nc) (hcs : corr.size = orig.size) (hok : PredOK md nc orig)
    (hinv : ∀ p c, p < n → c < nc →
      Leaf.wrapDec wt (parPred md nc orig p c) (corr.getD (p * nc + c) 0) = orig.getD (p * nc + c) 0) :
    ⦃⌜True⌝⦄ parallelogramDecode md wt nc corr ⦃⇓ r => ⌜r.1 = orig⌝⦄ := by
  have hblk : ∀ p, p < n → (p + 1) * nc ≤ corr.size := by
    intro p hp
    rw [hcs, hsz]; exact Nat.mul_le_mul_right nc hp
  have h0 : applyWrap wt nc 0 (fun _ => pure 0) corr = pure (mix orig corr (1 * nc)) := by
    rw [applyWrap_eq wt nc 0 (fun _ => pure 0) (fun _ => 0) corr (by have := hblk 0 hn; omega) (fun _ _ => rfl)]
    have := mix_patch orig corr nc 0 (fun _ x => Leaf.wrapDec wt 0 x)
      (by intro c hc; have := hinv 0 c hn hc; simpa [parPred] using this) (hblk 0 hn)
    rw [Nat.zero_mul, mix_zero] at this
    rw [this]
  mvcgen [parallelogramDecode]
  rw [h0]
  mvcgen
  case inv1 =>
    exact ⇓⟨xs, b⟩ => ⌜b.1 = mix orig corr ((1 + xs.prefix.length) * nc)⌝
  case vc1.step =>
    rename_i pref cur suff hsplit b hb0
    obtain ⟨hc, hlt⟩ := range_split hsplit
    rw [hd] at hlt
    obtain ⟨bd, bu⟩ := b
    have hb : bd = mix orig corr ((1 + pref.length) * nc) := hb0
    have hcur : 1 + pref.length = cur := by omega
    rw [hcur] at hb
    subst hb
    have hsm : (cur - 1) * nc + nc = cur * nc := by
      rw [← Nat.succ_mul]; congr 1; omega
    have hle := hblk cur hlt
    have hs1 : (cur + 1) * nc = cur * nc + nc := Nat.succ_mul cur nc
    obtain ⟨hcall, hsize⟩ := hok cur (by omega) (by omega)
    -- the prediction call sees the decoded prefix only
    have hpred : parallelogramPrediction md cur (md.d2c[cur]!) (mix orig corr (cur * nc)) nc =
        pure (predVal md nc orig cur) := by
      rw [parallelogramPrediction_congr md cur _ nc (mix orig corr (cur * nc)) orig (by simp [hcs]) ?_]
      · exact predE_ok md cur _ nc orig _ hcall
      · intro i h1 h2 hi
        rw [mix_get orig corr _ i (by simpa using h1), if_pos hi]
        simp [Array.getD, h2]
    simp only []
    rw [hpred]
    have hstep : ∀ (pred : Nat → R Int), (∀ c, c < nc → pred c = pure (parPred md nc orig cur c)) →
        applyWrap wt nc (cur * nc) pred (mix orig corr (cur * nc)) = pure (mix orig corr ((cur + 1) * nc)) := by
      intro pred hp
      rw [applyWrap_eq wt nc (cur * nc) pred (fun c => parPred md nc orig cur c) _ (by simp; omega) hp,
        mix_patch orig corr nc cur _ (fun c hc => hinv cur c hlt hc) hle]
    cases hv : predVal md nc orig cur with
    | none =>
      mvcgen
      rw [hstep _ ?_]
      · mvcgen
        simp only [List.length_append, List.length_cons, List.length_nil]
        congr 2; omega
      · intro c hc
        rw [rdI_eq _ _ _ (by simp; omega), mix_get orig corr _ _ (by omega), if_pos (by omega)]
        simp only [parPred, hv, show ¬ cur = 0 by omega, if_false]
        rfl
    | some pv =>
      have hpvs := hsize pv hv
      mvcgen
      rw [hstep _ ?_]
      · mvcgen
        simp only [List.length_append, List.length_cons, List.length_nil]
        congr 2; omega
      · intro c hc
        rw [rdI_eq _ _ _ (by omega)]
        simp only [parPred, hv, show ¬ cur = 0 by omega, if_false]
        simp [Array.getD, show c < pv.size by omega, pure, Except.pure]
  case vc2.vc1.pre =>
    show mix orig corr (1 * nc) = mix orig corr ((1 + 0) * nc)
    rfl
  case vc3.vc1.post.success =>
    rename_i r hr0
    have hr : r.1 = mix orig corr ((1 + ([1:md.d2c.size].toList).length) * nc) := hr0
    rw [range_length, hd] at hr
    rw [hr]
    apply mix_all orig corr _ hcs
    rw [hsz]
    apply Nat.mul_le_mul_right
    omega
  case vc4.vc1.post.except => simp

/-- **parallelogram prediction**: the decoder loop applied to the corrections of the encoder loop on
    the same mesh data returns the values (and the number of entries predicted by a parallelogram) -/
theorem parallelogram_roundtrip (md : MeshData) (wt : WrapT) (lo hi : Int) (nc n : Nat) (data : Array Int)
    (hnc : 0 < nc) (hn : 0 < n) (hd : md.d2c.size = n) (hsz : data.size = n * nc)
    (hinit : Wrap.init lo hi = some wt) (hlo : -2 ^ 31 ≤ lo) (hhi : hi < 2 ^ 31)
    (hrange : ∀ i (h : i < data.size), lo ≤ data[i] ∧ data[i] ≤ hi)
    (hok : PredOK md nc data) :
    ∃ corr used, parallelogramEncode md wt nc data = .ok corr ∧
      parallelogramDecode md wt nc corr = .ok (data, used) := by
  have henc := parallelogramEncode_eq md wt nc n data hnc hn hd hsz hok
  have hspec := parallelogramDecode_spec md wt nc n data (blocksFrom data.size nc 0 (parCorrAt md wt nc data))
    hnc hn hd hsz (by simp [blocksFrom]) hok ?_
  · obtain ⟨a, h1, h2⟩ := R.of_triple hspec
    refine ⟨_, a.2, henc, ?_⟩
    rw [h1]
    congr 1
    exact Prod.ext h2 rfl
  · intro p c hp hc
    have hle : p * nc + nc ≤ n * nc := by
      rw [← Nat.succ_mul]; exact Nat.mul_le_mul_right nc hp
    have hi : p * nc + c < data.size := by omega
    rw [blocksFrom_getD data.size nc _ p c hc hi]
    unfold parCorrAt
    have hv : data.getD (p * nc + c) 0 = data[p * nc + c] := by simp [Array.getD, hi]
    rw [hv]
    obtain ⟨h1, h2⟩ := hrange (p * nc + c) hi
    exact (Wrap.decOrig_encCorr (Wrap.init_bounds hinit).1 (Wrap.init_bounds hinit).2.1 (Wrap.init_bounds hinit).2.2
      hlo hhi _ _ h1 h2)


/-! ### a successful encoder run made every prediction call successfully -/


theorem bind_ok_iff {α β : Type} (x : R α) (f : α → R β) (r : β) :
    (x >>= f) = .ok r ↔ ∃ a, x = .ok a ∧ f a = .ok r := by
  cases x with
  | error e => simp [bind, Except.bind]
  | ok a => simp [bind, Except.bind]

/-- a successful `for` loop ran every body successfully -/
theorem forIn_ok_steps {σ : Type} (l : List Nat) (f : Nat → σ → R (ForInStep σ))
    (hy : ∀ a s r, f a s = .ok r → ∃ s', r = .yield s') :
    ∀ init out, forIn l init f = .ok out → ∀ a ∈ l, ∃ s r, f a s = .ok r := by
  induction l with
  | nil => intro init out _ a ha; simp at ha
  | cons x l ih =>
    intro init out h a ha
    rw [List.forIn_cons, bind_ok_iff] at h
    obtain ⟨r, h1, h2⟩ := h
    rcases List.mem_cons.mp ha with rfl | ha'
    · exact ⟨init, r, h1⟩
    · obtain ⟨s', rfl⟩ := hy x init r h1
      exact ih s' out h2 a ha'

theorem forIn_push_size (l : List Nat) (f : Nat → Array Int → R (ForInStep (Array Int)))
    (hf : ∀ a s r, f a s = .ok r → ∃ s', r = .yield s' ∧ s'.size = s.size + 1) :
    ∀ init out, forIn l init f = .ok out → out.size = init.size + l.length := by
  induction l with
  | nil => intro init out h; simp [pure, Except.pure] at h; simp [h]
  | cons x l ih =>
    intro init out h
    rw [List.forIn_cons, bind_ok_iff] at h
    obtain ⟨r, h1, h2⟩ := h
    obtain ⟨s', rfl, hs⟩ := hf x init r h1
    have := ih s' out h2
    simp only [List.length_cons]
    omega

theorem parallelogramPrediction_size (md : MeshData) (p ci nc : Nat) (d : Array Int) (pv : Array Int)
    (h : parallelogramPrediction md p ci d nc = .ok (some pv)) : pv.size = nc := by
  unfold parallelogramPrediction at h
  simp only [Std.Legacy.Range.forIn_eq_forIn_range'] at h
  rw [bind_ok_iff] at h
  obtain ⟨oci, _, h⟩ := h
  split at h
  · simp [pure, Except.pure] at h
  · simp only [bind_ok_iff] at h
    obtain ⟨v1, _, vOpp, _, v2, _, vNext, _, v3, _, vPrev, _, h⟩ := h
    split at h
    · rw [bind_ok_iff] at h
      obtain ⟨out, hloop, hret⟩ := h
      have hsz := forIn_push_size _ _ ?_ _ _ hloop
      · simp [pure, Except.pure] at hret
        subst hret
        simpa [Std.Legacy.Range.size] using hsz
      · intro a s r hr
        simp only [bind_ok_iff] at hr
        obtain ⟨x1, _, x2, _, x3, _, hr⟩ := hr
        simp [pure, Except.pure] at hr
        exact ⟨_, hr.symm, by simp⟩
    · simp [pure, Except.pure] at h

theorem predOK_of_encode (md : MeshData) (wt : WrapT) (nc : Nat) (data corr : Array Int)
    (h : parallelogramEncode md wt nc data = .ok corr) : PredOK md nc data := by
  intro p hp0 hpn
  unfold parallelogramEncode encodeBackward at h
  simp only [Std.Legacy.Range.forIn_eq_forIn_range'] at h
  rw [bind_ok_iff] at h
  obtain ⟨out, hloop, _⟩ := h
  have hmem : md.d2c.size - 1 - p ∈ List.range' 0 ([:md.d2c.size - 1].size) 1 := by
    simp [Std.Legacy.Range.size, List.mem_range']
    omega
  obtain ⟨s, r, hbody⟩ := forIn_ok_steps _ _ (by
    intro a s r hr
    rw [bind_ok_iff] at hr
    obtain ⟨o, _, hr⟩ := hr
    simp [pure, Except.pure] at hr
    exact ⟨_, hr.symm⟩) _ _ hloop _ hmem
  rw [bind_ok_iff] at hbody
  obtain ⟨o, hcorr, _⟩ := hbody
  have hp' : md.d2c.size - 1 - (md.d2c.size - 1 - p) = p := by omega
  rw [hp'] at hcorr
  unfold parallelogramCorrAt at hcorr
  have hb : (p == 0) = false := by simp; omega
  simp only [hb, Bool.false_eq_true, if_false] at hcorr
  rw [bind_ok_iff] at hcorr
  obtain ⟨a, hcall, _⟩ := hcorr
  have hv : predVal md nc data p = a := by simp [predVal, hcall]
  refine ⟨by rw [hv]; exact hcall, ?_⟩
  intro pv hpv
  rw [hv] at hpv
  subst hpv
  exact parallelogramPrediction_size md p _ nc data pv (predE_ok md p _ nc data _ hcall)

/-- **parallelogram prediction, conditional only on the success of the encoder**: whenever the encoder
    loop returns corrections, the decoder loop on the same mesh data returns the values -/
theorem parallelogram_roundtrip_of_encode (md : MeshData) (wt : WrapT) (lo hi : Int) (nc n : Nat) (data corr : Array Int)
    (hnc : 0 < nc) (hn : 0 < n) (hd : md.d2c.size = n) (hsz : data.size = n * nc)
    (hinit : Wrap.init lo hi = some wt) (hlo : -2 ^ 31 ≤ lo) (hhi : hi < 2 ^ 31)
    (hrange : ∀ i (h : i < data.size), lo ≤ data[i] ∧ data[i] ≤ hi)
    (henc : parallelogramEncode md wt nc data = .ok corr) :
    ∃ used, parallelogramDecode md wt nc corr = .ok (data, used) := by
  obtain ⟨corr', used, h1, h2⟩ := parallelogram_roundtrip md wt lo hi nc n data hnc hn hd hsz hinit hlo hhi hrange
    (predOK_of_encode md wt nc data corr henc)
  rw [henc] at h1
  cases h1
  exact ⟨used, h2⟩


/-! ### delta coding of normals (canonicalized octahedron transform) -/

/-- `ComputeOriginalValue` of the canonicalized octahedron transform as the decoder applies it to
    entries (`decodeIntegerValuesEb`, scheme `deltaOcta false`) -/
def octaDecEntry (t : OctaT) (p cr : List Int) : List Int :=
  match p, cr with
  | [p0, p1], [c0, c1] => let (a, b) := Leaf.octaDec t (p0, p1) (c0, c1); [a, b]
  | _, _ => cr

/-- delta coded octahedral coordinates come back: the decoder's `deltaDecode` on the corrections of
    `deltaEncodeOcta` (entries = canonical grid points) -/
theorem delta_octa_roundtrip (q : Nat) (t : OctaT) (hq : Octa.init q = some t) (n : Nat) (data : Array Int)
    (hlen : data.size = n * 2)
    (hent : ∀ e ∈ SeqEnc.entriesOf 2 data.size data.toList, OctaEntry t e) :
    deltaDecode (octaDecEntry t) 2 (deltaEncodeOcta t data).toList = data.toList := by
  obtain ⟨hwf, _⟩ := Octa.init_wf hq
  obtain ⟨w1, w2, w3, w4⟩ := hwf
  have hl : data.toList.length = n * 2 := by simpa using hlen
  obtain ⟨e1, _, _⟩ := Draco.entriesOf_spec 2 (by decide) n data.toList.length data.toList hl (by omega)
  have hsz : data.size = data.toList.length := by simp
  rw [hsz] at hent
  unfold deltaEncodeOcta
  rw [hsz]
  generalize hes : SeqEnc.entriesOf 2 data.toList.length data.toList = es at *
  let Dom : List Int → Prop := OctaEntry t
  let Pred : List Int → Prop := fun p => ∃ a b, p = [a, b] ∧ Octa.inGrid t (a, b)
  have hlenE : ∀ e p, Dom e → Pred p → (SeqEnc.octaEnc t e p).length = 2 := by
    rintro e p ⟨a, b, rfl, _, _⟩ ⟨c, d, rfl, _⟩
    rfl
  have hstep : ∀ e, Dom e → Pred e := fun e ⟨a, b, h1, h2, _⟩ => ⟨a, b, h1, h2⟩
  have h0 : Pred (List.replicate 2 0) := ⟨0, 0, rfl, by unfold Octa.inGrid; simp only; omega⟩
  have hrt : ∀ e p, Dom e → Pred p → octaDecEntry t p (SeqEnc.octaEnc t e p) = e := by
    rintro e p ⟨a, b, rfl, hg, hc⟩ ⟨c, d, rfl, hp⟩
    obtain ⟨r1, _⟩ := Octa.octa_roundtrip_wf t ⟨w1, w2, w3, w4⟩ (a, b) (c, d) hc hg hp
    simp only [octaDecEntry, SeqEnc.octaEnc, Leaf.octaDec, r1]
  have hinv := predictive_coding_invertible (SeqEnc.octaEnc t) (octaDecEntry t) 2 (by decide) Dom Pred hlenE hrt hstep h0
    es hent
  simp only [List.toList_toArray]
  rw [show ([0, 0] : List Int) = List.replicate 2 0 from rfl, hinv, e1]


/-! ### geometric normal prediction -/

section GeometricNormal
open Draco.Eb hiding iabs nextC prevC


/-- the decoder's computation for one entry of the geometric normal scheme -/
def normalOriginal (ot : OctaT) (pred : Int × Int × Int) (flip : Bool) (c : Int × Int) : Int × Int :=
  let v := Octa.canonicalizeIntVec ot pred
  let w := if flip then (wrap32 (-v.1), wrap32 (-v.2.1), wrap32 (-v.2.2)) else v
  Octa.decOrig ot (Octa.intVecToCoords ot w) c

theorem wrap32_small (x : Int) (h1 : -2^31 ≤ x) (h2 : x < 2^31) : wrap32 x = x := by
  unfold wrap32; omega

theorem normalCorrection_inverse (q : Nat) (ot : OctaT) (hq : Octa.init q = some ot) (pred : Int × Int × Int)
    (o : Int × Int) (hg : Octa.inGrid ot o) (hc : Octa.canonical ot o) :
    normalOriginal ot pred (normalCorrection ot pred o).1
      ((normalCorrection ot pred o).2.1, (normalCorrection ot pred o).2.2) = o := by
  obtain ⟨hwf, _⟩ := Octa.init_wf hq
  have hwf' := hwf
  obtain ⟨hV, hQ, hc1, h29⟩ := hwf'
  have hsum := Octa.canonicalizeIntVec_abs_sum ot (by omega) pred
  unfold normalCorrection normalOriginal
  generalize Octa.canonicalizeIntVec ot pred = v at *
  obtain ⟨x, y, z⟩ := v
  simp only at hsum
  have hx : iabs x ≤ ot.center := by have := Octa.iabs_nonneg y; have := Octa.iabs_nonneg z; omega
  have hy : iabs y ≤ ot.center := by have := Octa.iabs_nonneg x; have := Octa.iabs_nonneg z; omega
  have hz : iabs z ≤ ot.center := by have := Octa.iabs_nonneg x; have := Octa.iabs_nonneg y; omega
  have hnx : wrap32 (-x) = -x := wrap32_small _ (by unfold iabs at hx; split at hx <;> omega) (by unfold iabs at hx; split at hx <;> omega)
  have hny : wrap32 (-y) = -y := wrap32_small _ (by unfold iabs at hy; split at hy <;> omega) (by unfold iabs at hy; split at hy <;> omega)
  have hnz : wrap32 (-z) = -z := wrap32_small _ (by unfold iabs at hz; split at hz <;> omega) (by unfold iabs at hz; split at hz <;> omega)
  have hsumN : iabs (-x) + iabs (-y) + iabs (-z) = ot.center := by
    have e : ∀ a : Int, iabs (-a) = iabs a := by intro a; unfold iabs; split <;> split <;> omega
    rw [e, e, e]; exact hsum
  obtain ⟨gP, _⟩ := Octa.intVecToCoords_inGrid_canonical ot hwf (x, y, z) hsum
  obtain ⟨gN, _⟩ := Octa.intVecToCoords_inGrid_canonical ot hwf (-x, -y, -z) hsumN
  -- both candidate corrections decode to `o`
  have key : ∀ pr, Octa.inGrid ot pr →
      Octa.decOrig ot pr (Octa.makePositive ot (Octa.modMax ot (Octa.encCorr ot o pr).1),
        Octa.makePositive ot (Octa.modMax ot (Octa.encCorr ot o pr).2)) = o := by
    intro pr hpr
    obtain ⟨r1, r2⟩ := Octa.octa_roundtrip_wf ot hwf o pr hc hg hpr
    unfold Octa.inGrid at r2
    rw [Octa.makePositive_modMax ot hwf _ r2.1 r2.2.1, Octa.makePositive_modMax ot hwf _ r2.2.2.1 r2.2.2.2]
    exact r1
  simp only [hnx, hny, hnz]
  split
  · simp only [Bool.false_eq_true, if_false]
    exact key _ gP
  · simp only [if_true]
    exact key _ gN

/-- value of the normal prediction of entry `p` (zero vector when the call fails) -/
def npVal (md : MeshData) (ps : PosSource) (p : Nat) : Int × Int × Int :=
  match normalPredict md ps (md.d2c[p]!) with
  | .ok v => v
  | .error _ => (0, 0, 0)

def NormalOK (md : MeshData) (ps : PosSource) : Prop :=
  ∀ p, p < md.d2c.size → normalPredict md ps (md.d2c[p]!) = pure (npVal md ps p)

/-- flip bit and correction of entry `p` -/
def normalEntry (md : MeshData) (ps : PosSource) (ot : OctaT) (data : Array Int) (p : Nat) : Bool × Int × Int :=
  normalCorrection ot (npVal md ps p) (data.getD (2 * p) 0, data.getD (2 * p + 1) 0)

/-- entries `< k` hold the pairs `g p`, the rest is zero -/
def pairArr (size : Nat) (g : Nat → Int × Int) (k : Nat) : Array Int :=
  Array.ofFn (n := size) fun i =>
    if i.val < 2 * k then (if i.val % 2 = 0 then (g (i.val / 2)).1 else (g (i.val / 2)).2) else 0

@[simp] theorem pairArr_size (size : Nat) (g : Nat → Int × Int) (k : Nat) : (pairArr size g k).size = size := by
  simp [pairArr]

theorem pairArr_get (size : Nat) (g : Nat → Int × Int) (k i : Nat) (h : i < size) :
    (pairArr size g k)[i]'(by simp [h]) =
      if i < 2 * k then (if i % 2 = 0 then (g (i / 2)).1 else (g (i / 2)).2) else 0 := by
  simp [pairArr]

theorem pairArr_getD (size : Nat) (g : Nat → Int × Int) (k i : Nat) (h : i < size) :
    (pairArr size g k).getD i 0 =
      if i < 2 * k then (if i % 2 = 0 then (g (i / 2)).1 else (g (i / 2)).2) else 0 := by
  rw [Array.getD, dif_pos (by simp [h])]
  exact pairArr_get size g k i h

theorem pairArr_step (size : Nat) (g : Nat → Int × Int) (k : Nat) (h : 2 * k + 1 < size) :
    ((pairArr size g k).set (2 * k) (g k).1 (by simp; omega)).set
      (2 * k + 1) (g k).2 (by simp; omega) = pairArr size g (k + 1) := by
  apply Array.ext
  · simp
  · intro i h1 h2
    have hi : i < size := by simpa using h2
    rw [pairArr_get size g (k + 1) i hi]
    by_cases e1 : i = 2 * k + 1
    · subst e1
      simp only [Array.getElem_set_self]
      have hd : (2 * k + 1) / 2 = k := by omega
      rw [if_pos (by omega), if_neg (by omega), hd]
    · rw [Array.getElem_set_ne (h := by omega) (pj := by simp; omega)]
      by_cases e0 : i = 2 * k
      · subst e0
        simp only [Array.getElem_set_self]
        have hd : (2 * k) / 2 = k := by omega
        rw [if_pos (by omega), if_pos (by omega), hd]
      · rw [Array.getElem_set_ne (h := by omega) (pj := by simp; omega), pairArr_get size g k i hi]
        by_cases hl : i < 2 * k
        · simp only [hl, if_true, show i < 2 * (k + 1) by omega]
        · simp only [hl, if_false, show ¬ i < 2 * (k + 1) by omega]

def normalCorrArr (md : MeshData) (ps : PosSource) (ot : OctaT) (data : Array Int) (k : Nat) : Array Int :=
  pairArr data.size (fun p => (normalEntry md ps ot data p).2) k

def normalFlips (md : MeshData) (ps : PosSource) (ot : OctaT) (data : Array Int) (k : Nat) : Array Bool :=
  (Array.range k).map fun p => (normalEntry md ps ot data p).1

theorem geometricNormalEncode_spec (md : MeshData) (ps : PosSource) (ot : OctaT) (data : Array Int) (n : Nat)
    (hd : md.d2c.size = n) (hsz : data.size = 2 * n) (hok : NormalOK md ps) :
    ⦃⌜True⌝⦄ geometricNormalEncode md ps ot data
    ⦃⇓ r => ⌜r = (normalCorrArr md ps ot data n, normalFlips md ps ot data n)⌝⦄ := by
  mvcgen [geometricNormalEncode]
  case inv1 =>
    exact ⇓⟨xs, b⟩ => ⌜b = (normalCorrArr md ps ot data xs.prefix.length, normalFlips md ps ot data xs.prefix.length)⌝
  case vc1.step =>
    rename_i out0 flips0 pref cur suff hsplit b out1 flips1 hb0
    obtain ⟨hc, hlt⟩ := range_split hsplit
    rw [hd] at hlt
    have hcur : cur = pref.length := by omega
    obtain ⟨bo, bf⟩ := b
    have hb : (bo, bf) = (normalCorrArr md ps ot data pref.length, normalFlips md ps ot data pref.length) := hb0
    obtain ⟨hbo, hbf⟩ := Prod.mk.inj hb
    subst hbo hbf
    rw [hok cur (by omega)]
    mvcgen
    case vc1.h => omega
    case vc2.h => omega
    case vc3.h => simp [normalCorrArr]; omega
    case vc4.h => rename_i r h; subst h; simp [normalCorrArr]; omega
    case vc5.success.success.success.success =>
      rename_i r1 h1 r2 h2 r3 h3 r4 h4
      subst h4 h3 h2 h1
      have hg0 : data.getD (2 * cur) 0 = data[2 * cur]'(by omega) := by simp [Array.getD, show 2 * cur < data.size by omega]
      have hg1 : data.getD (2 * cur + 1) 0 = data[2 * cur + 1]'(by omega) := by
        simp [Array.getD, show 2 * cur + 1 < data.size by omega]
      have hne : normalCorrection ot (npVal md ps cur) (data[2 * cur]'(by omega), data[2 * cur + 1]'(by omega)) =
          normalEntry md ps ot data cur := by
        unfold normalEntry; rw [hg0, hg1]
      subst hcur
      simp only [List.length_append, List.length_cons, List.length_nil, Nat.zero_add]
      refine Prod.ext ?_ ?_
      · simp only [hne]
        exact pairArr_step data.size (fun p => (normalEntry md ps ot data p).2) pref.length (by omega)
      · simp only [hne, normalFlips, Array.range_succ]
        simp
  case vc2.pre =>
    rename_i out0 flips0
    show (Array.replicate data.size (0 : Int), (Array.mkEmpty md.d2c.size : Array Bool)) =
      (normalCorrArr md ps ot data 0, normalFlips md ps ot data 0)
    refine Prod.ext ?_ ?_
    · apply Array.ext
      · simp [normalCorrArr]
      · intro i h1 h2
        have hi : i < data.size := by simpa using h1
        simp only [normalCorrArr]
        rw [pairArr_get _ _ _ i hi]
        simp
    · simp [normalFlips]
  case vc3.post.success =>
    rename_i out0 flips0 r out1 flips1 hr0
    have hr : r = (normalCorrArr md ps ot data ([:md.d2c.size].toList).length,
        normalFlips md ps ot data ([:md.d2c.size].toList).length) := hr0
    rw [range_length, hd] at hr
    show (r.1, r.2) = _
    rw [hr, Nat.sub_zero]
  case vc4.post.except => simp


theorem mix_step2 (orig corr : Array Int) (k : Nat) (hs : corr.size = orig.size) (h : 2 * k + 1 < corr.size) :
    ((mix orig corr (2 * k)).set (2 * k) (orig.getD (2 * k) 0) (by simp; omega)).set (2 * k + 1)
      (orig.getD (2 * k + 1) 0) (by simp; omega) = mix orig corr (2 * (k + 1)) := by
  apply Array.ext
  · simp
  · intro i h1 h2
    have hi : i < corr.size := by simpa using h2
    rw [mix_get orig corr _ i hi]
    by_cases e1 : i = 2 * k + 1
    · subst e1
      simp only [Array.getElem_set_self]
      rw [if_pos (by omega)]
    · rw [Array.getElem_set_ne (h := by omega) (pj := by simp; omega)]
      by_cases e0 : i = 2 * k
      · subst e0
        simp only [Array.getElem_set_self]
        rw [if_pos (by omega)]
      · rw [Array.getElem_set_ne (h := by omega) (pj := by simp; omega), mix_get orig corr _ i hi]
        by_cases hl : i < 2 * k
        · rw [if_pos hl, if_pos (by omega)]
        · rw [if_neg hl, if_neg (by omega)]

theorem normalOriginal_eq (ot : OctaT) (a : Int × Int × Int) (f : Bool) (c : Int × Int) :
    Leaf.octaDec ot
      ((Octa.intVecToCoords ot
          (if f = true then
            (wrap32 (-(Octa.canonicalizeIntVec ot a).1), wrap32 (-(Octa.canonicalizeIntVec ot a).2.1),
              wrap32 (-(Octa.canonicalizeIntVec ot a).2.2))
          else ((Octa.canonicalizeIntVec ot a).1, (Octa.canonicalizeIntVec ot a).2.1, (Octa.canonicalizeIntVec ot a).2.2))).1,
        (Octa.intVecToCoords ot
          (if f = true then
            (wrap32 (-(Octa.canonicalizeIntVec ot a).1), wrap32 (-(Octa.canonicalizeIntVec ot a).2.1),
              wrap32 (-(Octa.canonicalizeIntVec ot a).2.2))
          else ((Octa.canonicalizeIntVec ot a).1, (Octa.canonicalizeIntVec ot a).2.1, (Octa.canonicalizeIntVec ot a).2.2))).2) c
      = normalOriginal ot a f c := by
  unfold normalOriginal Leaf.octaDec
  cases f <;> simp

theorem geometricNormalDecode_spec (md : MeshData) (ps : PosSource) (ot : OctaT) (orig corr : Array Int)
    (flipsL : List Bool) (n : Nat) (hd : md.d2c.size = n) (hsz : orig.size = 2 * n) (hcs : corr.size = orig.size)
    (hok : NormalOK md ps) (fd : RAnsBitDec) (hfd : Yields RAnsBitDec.nextBit fd flipsL) (hfl : flipsL.length = n)
    (hinv : ∀ p, p < n → normalOriginal ot (npVal md ps p) (flipsL.getD p false)
      (corr.getD (2 * p) 0, corr.getD (2 * p + 1) 0) = (orig.getD (2 * p) 0, orig.getD (2 * p + 1) 0)) :
    ⦃⌜True⌝⦄ geometricNormalDecode md ps ot (Leaf.octaDec ot) false fd corr ⦃⇓ r => ⌜r.1 = orig⌝⦄ := by
  mvcgen [geometricNormalDecode]
  case inv1 =>
    exact ⇓⟨xs, b⟩ => ⌜b.1 = mix orig corr (2 * xs.prefix.length) ∧
      Yields RAnsBitDec.nextBit b.2.1 (flipsL.drop xs.prefix.length)⌝
  case vc1.step =>
    rename_i pref cur suff hsplit b data0 s0 fd0 flipped0 corner0 hb0
    obtain ⟨hc, hlt⟩ := range_split hsplit
    rw [hd] at hlt
    have hcur : cur = pref.length := by omega
    obtain ⟨bd, bfd, bfl⟩ := b
    have hb : bd = mix orig corr (2 * pref.length) ∧ Yields RAnsBitDec.nextBit bfd (flipsL.drop pref.length) := hb0
    obtain ⟨hbd, hy⟩ := hb
    subst hbd hcur
    rw [List.drop_eq_getElem_cons (by omega)] at hy
    obtain ⟨hbit, hy'⟩ := hy
    have hflip : flipsL.getD pref.length false = flipsL[pref.length]'(by omega) := by
      simp [List.getD, show pref.length < flipsL.length by omega]
    have hi0 : 2 * pref.length < corr.size := by omega
    have hi1 : 2 * pref.length + 1 < corr.size := by omega
    have hg0 : (mix orig corr (2 * pref.length))[2 * pref.length]'(by simp; omega) = corr.getD (2 * pref.length) 0 := by
      rw [mix_get orig corr _ _ hi0, if_neg (by omega)]; simp [Array.getD, hi0]
    have hg1 : (mix orig corr (2 * pref.length))[2 * pref.length + 1]'(by simp; omega) = corr.getD (2 * pref.length + 1) 0 := by
      rw [mix_get orig corr _ _ hi1, if_neg (by omega)]; simp [Array.getD, hi1]
    have hval := hinv pref.length hlt
    rw [hflip, ← hbit] at hval
    simp only [corner0]
    rw [hok pref.length (by omega)]
    simp only [normalOriginal_eq, data0, fd0, s0, flipped0]
    have leaf : ∀ (k : Nat),
        ((((mix orig corr (2 * pref.length)).set (2 * pref.length)
          (normalOriginal ot (npVal md ps pref.length) bfd.nextBit.1
            ((mix orig corr (2 * pref.length))[2 * pref.length]'(by simp; omega),
             (mix orig corr (2 * pref.length))[2 * pref.length + 1]'(by simp; omega))).1 (by simp; omega)).set
          (2 * pref.length + 1)
          (normalOriginal ot (npVal md ps pref.length) bfd.nextBit.1
            ((mix orig corr (2 * pref.length))[2 * pref.length]'(by simp; omega),
             (mix orig corr (2 * pref.length))[2 * pref.length + 1]'(by simp; omega))).2 (by simp; omega)),
          bfd.nextBit.2, k).1 = mix orig corr (2 * (pref ++ [pref.length]).length) ∧
        Yields RAnsBitDec.nextBit bfd.nextBit.2 (flipsL.drop (pref ++ [pref.length]).length) := by
      intro k
      simp only [List.length_append, List.length_cons, List.length_nil, Nat.zero_add]
      refine ⟨?_, hy'⟩
      rw [hg0, hg1, hval]
      exact mix_step2 orig corr pref.length hcs hi1
    mvcgen
    case vc1.h => simp; omega
    case vc2.h => simp; omega
    case vc3.h => simp; omega
    case vc4.h => rename_i r h; subst h; simp; omega
    case vc5.isTrue.success.success.success.success =>
      rename_i hf r1 h1 r2 h2 r3 h3 r4 h4
      subst h4 h3 h2 h1
      exact leaf 0
    case vc6.h => simp; omega
    case vc7.h => simp; omega
    case vc8.h => simp; omega
    case vc9.h => rename_i r h; subst h; simp; omega
    case vc10.isFalse.success.success.success.success =>
      rename_i hf r1 h1 r2 h2 r3 h3 r4 h4
      subst h4 h3 h2 h1
      exact leaf 0
  case vc2.pre =>
    show corr = mix orig corr (2 * 0) ∧ Yields RAnsBitDec.nextBit fd (flipsL.drop 0)
    exact ⟨(mix_zero orig corr).symm, by simpa using hfd⟩
  case vc3.post.success =>
    rename_i r d0 s1 fd1 hr0
    have hr : r.1 = mix orig corr (2 * ([:md.d2c.size].toList).length) ∧ _ := hr0
    rw [range_length, hd] at hr
    show r.1 = orig
    rw [hr.1]
    exact mix_all orig corr _ hcs (by omega)
  case vc4.post.except => simp


theorem normalOK_of_encode (md : MeshData) (ps : PosSource) (ot : OctaT) (data : Array Int) (r : Array Int × Array Bool)
    (h : geometricNormalEncode md ps ot data = .ok r) : NormalOK md ps := by
  intro p hp
  unfold geometricNormalEncode at h
  simp only [Std.Legacy.Range.forIn_eq_forIn_range'] at h
  rw [bind_ok_iff] at h
  obtain ⟨st, hloop, _⟩ := h
  have hmem : p ∈ List.range' 0 ([:md.d2c.size].size) 1 := by
    simp [Std.Legacy.Range.size, List.mem_range']
    omega
  obtain ⟨s, r', hbody⟩ := forIn_ok_steps _ _ (by
    intro a s r hr
    simp only [bind_ok_iff] at hr
    obtain ⟨_, _, _, _, _, _, _, _, _, _, hr⟩ := hr
    simp [pure, Except.pure] at hr
    exact ⟨_, hr.symm⟩) _ _ hloop _ hmem
  rw [bind_ok_iff] at hbody
  obtain ⟨v, hv, _⟩ := hbody
  show normalPredict md ps md.d2c[p]! = Except.ok (npVal md ps p)
  simp [npVal, hv]

/-- **geometric normal prediction**: whenever the encoder loop succeeds, the decoder loop — fed the encoder's
    corrections and a bit decoder that yields the encoder's flip bits — returns the octahedral coordinates
    (entries = canonical points of the grid) -/
theorem geometric_normal_roundtrip (md : MeshData) (ps : PosSource) (q : Nat) (ot : OctaT) (hq : Octa.init q = some ot)
    (data : Array Int) (n : Nat) (hd : md.d2c.size = n) (hsz : data.size = 2 * n)
    (hent : ∀ p, p < n → Octa.inGrid ot (data.getD (2 * p) 0, data.getD (2 * p + 1) 0) ∧
      Octa.canonical ot (data.getD (2 * p) 0, data.getD (2 * p + 1) 0))
    (corr : Array Int) (flips : Array Bool) (henc : geometricNormalEncode md ps ot data = .ok (corr, flips))
    (fd : RAnsBitDec) (hfd : Yields RAnsBitDec.nextBit fd flips.toList) :
    ∃ k, geometricNormalDecode md ps ot (Leaf.octaDec ot) false fd corr = .ok (data, k) := by
  have hok := normalOK_of_encode md ps ot data _ henc
  obtain ⟨a, h1, h2⟩ := R.of_triple (geometricNormalEncode_spec md ps ot data n hd hsz hok)
  rw [henc] at h1
  cases h1
  obtain ⟨hcorr, hflips⟩ := Prod.mk.inj h2
  subst hcorr hflips
  have hspec := geometricNormalDecode_spec md ps ot data (normalCorrArr md ps ot data n)
    (normalFlips md ps ot data n).toList n hd hsz (by simp [normalCorrArr]) hok fd hfd (by simp [normalFlips]) ?_
  · obtain ⟨r, e1, e2⟩ := R.of_triple hspec
    refine ⟨r.2, ?_⟩
    rw [e1]
    congr 1
    exact Prod.ext e2 rfl
  · intro p hp
    have hi0 : 2 * p < data.size := by omega
    have hi1 : 2 * p + 1 < data.size := by omega
    have hc0 : (normalCorrArr md ps ot data n).getD (2 * p) 0 = (normalEntry md ps ot data p).2.1 := by
      unfold normalCorrArr
      rw [pairArr_getD _ _ _ _ hi0, if_pos (by omega), if_pos (by omega)]
      have : 2 * p / 2 = p := by omega
      rw [this]
    have hc1 : (normalCorrArr md ps ot data n).getD (2 * p + 1) 0 = (normalEntry md ps ot data p).2.2 := by
      unfold normalCorrArr
      rw [pairArr_getD _ _ _ _ hi1, if_pos (by omega), if_neg (by omega)]
      have : (2 * p + 1) / 2 = p := by omega
      rw [this]
    have hf : (normalFlips md ps ot data n).toList.getD p false = (normalEntry md ps ot data p).1 := by
      simp [normalFlips, List.getD, hp]
    rw [hc0, hc1, hf]
    obtain ⟨hg, hcn⟩ := hent p hp
    exact normalCorrection_inverse q ot hq (npVal md ps p) _ hg hcn


end GeometricNormal

end Draco.EbEnc
