import DracoProofs.MetadataRoundtrip
/-
  Top-level consequences: round trip of `decodeMetadata` / `decodeGeometryMetadata`, the
  return value of the repaired encoder, the nesting-depth limit, fuel.
-/
namespace Draco

/-! ## round trip at the top level -/

theorem decodeMetadata_enc (ae : Bool) (m : Metadata) (rest : Bytes)
    (hc : m.Canonical) (he : m.Encodable ae) :
    decodeNode ae (kMaxSubmetadataLevel + 3) false 0 (encodeMetadata m ++ rest) =
      some (m, rest) := by
  refine decodeNode_enc ae m _ false 0 rest hc he.1 ?_ ?_
  · have := he.2; simp only [Bool.false_eq_true, if_false]; omega
  · have := he.2; omega

theorem decodeAtts_enc (node : Rd Metadata) (rest : Bytes) :
    ∀ (atts acc : List (Nat × Metadata)),
      (∀ a ∈ atts, a.1 < 2^32 ∧ ∀ r, node (encodeMetadata a.2 ++ r) = some (a.2, r)) →
      decodeAtts node atts.length acc (encodeAtts atts ++ rest) =
        some (acc.reverse ++ atts, rest) := by
  intro atts
  induction atts with
  | nil => intro acc _; simp [decodeAtts, encodeAtts]
  | cons a t ih =>
    intro acc h
    obtain ⟨id, m⟩ := a
    have ha := h (id, m) (by simp)
    simp only [encodeAtts, List.length_cons, decodeAtts, List.append_assoc]
    rw [decVarint32_enc _ ha.1]
    simp only
    rw [ha.2]
    simp only
    rw [ih ((id, m) :: acc) (fun a h' => h a (by simp [h']))]
    simp

theorem decodeGeometryWith_enc (node : Rd Metadata) (g : GeometryMetadata) (rest : Bytes)
    (hl : g.atts.length < 2^32)
    (ha : ∀ a ∈ g.atts, a.1 < 2^32 ∧ ∀ r, node (encodeMetadata a.2 ++ r) = some (a.2, r))
    (hr : ∀ r, node (encodeMetadata g.root ++ r) = some (g.root, r)) :
    decodeGeometryWith node (encodeGeometryMetadata g ++ rest) = some (g, rest) := by
  simp only [decodeGeometryWith, encodeGeometryMetadata, List.append_assoc]
  rw [Nat.mod_eq_of_lt hl, decVarint32_enc _ hl]
  simp only
  rw [decodeAtts_enc node _ g.atts [] ha]
  simp only
  rw [hr]
  simp

/-! ## `WF` implies `WF'` -/

theorem wf'_of_wf {m : Metadata} (h : m.WF) : m.WF' := by
  refine ⟨h.1, ?_, h.2.2⟩
  have hall := h.2.1
  clear h
  revert hall
  refine Metadata.induct (P := fun m => m.All (NodeEncodable false) → m.All (NodeEncodable true))
    (Q := fun ss => SubsAll (NodeEncodable false) ss → SubsAll (NodeEncodable true) ss)
    ?_ ?_ ?_ m
  · intro es ss ih h
    simp only [Metadata.All] at h ⊢
    refine ⟨?_, ih h.2⟩
    obtain ⟨h1, h2, h3, h4⟩ := h.1
    exact ⟨h1, h2, fun e he => ⟨(h3 e he).1, (h3 e he).2.1, fun h => by cases h⟩, h4⟩
  · intro _; trivial
  · intro n m t ihm iht h
    simp only [SubsAll] at h ⊢
    exact ⟨ihm h.1, iht h.2⟩

theorem geometry_wf'_of_wf {g : GeometryMetadata} (h : g.WF) : g.WF' :=
  ⟨h.1, fun a ha => ⟨(h.2.1 a ha).1, wf'_of_wf (h.2.1 a ha).2⟩, wf'_of_wf h.2.2⟩

/-! ## the repaired encoder's return value -/

theorem entriesOkFixed_iff (es : List (Bytes × Bytes)) :
    entriesOkFixed es = true ↔ ∀ e ∈ es, e.1.length ≤ 255 ∧ e.2.length < 2^32 := by
  induction es with
  | nil => simp [entriesOkFixed]
  | cons e t ih =>
    obtain ⟨n, v⟩ := e
    simp only [entriesOkFixed, Bool.and_eq_true, decide_eq_true_eq, ih, List.mem_cons,
      forall_eq_or_imp]

theorem nodeEncodable_true_iff (es : List (Bytes × Bytes)) (ss : List (Bytes × Metadata)) :
    NodeEncodable true es ss ↔
      es.length < 2^32 ∧ ss.length < 2^32 ∧
      (∀ e ∈ es, e.1.length ≤ 255 ∧ e.2.length < 2^32) ∧ (∀ s ∈ ss, s.1.length ≤ 255) := by
  unfold NodeEncodable
  constructor
  · rintro ⟨h1, h2, h3, h4⟩
    exact ⟨h1, h2, fun e he => ⟨(h3 e he).1, (h3 e he).2.1⟩, h4⟩
  · rintro ⟨h1, h2, h3, h4⟩
    exact ⟨h1, h2, fun e he => ⟨(h3 e he).1, (h3 e he).2, fun h => by cases h⟩, h4⟩

theorem subsDepth_pos (a : Bytes × Metadata) (t : List (Bytes × Metadata)) :
    1 ≤ subsDepth (a :: t) := by
  obtain ⟨n, m⟩ := a
  simp only [subsDepth]; omega

def NodeOkSpec (m : Metadata) : Prop :=
  ∀ d, d ≤ kMaxSubmetadataLevel + 1 →
    (nodeOkFixed d m = true ↔
      m.All (NodeEncodable true) ∧ d + m.depth ≤ kMaxSubmetadataLevel + 1)

def SubsOkSpec (ss : List (Bytes × Metadata)) : Prop :=
  ∀ d, d ≤ kMaxSubmetadataLevel →
    (subsOkFixed d ss = true ↔
      (∀ s ∈ ss, s.1.length ≤ 255) ∧ SubsAll (NodeEncodable true) ss ∧
        d + subsDepth ss ≤ kMaxSubmetadataLevel + 1)

theorem nodeOkFixed_spec (m : Metadata) : NodeOkSpec m := by
  refine Metadata.induct (P := NodeOkSpec) (Q := SubsOkSpec) ?_ ?_ ?_ m
  · intro es ss ih d hd
    simp only [nodeOkFixed, Metadata.All, Metadata.depth, Bool.and_eq_true, Bool.or_eq_true,
      decide_eq_true_eq, entriesOkFixed_iff, nodeEncodable_true_iff, List.isEmpty_iff]
    cases ss with
    | nil =>
      simp only [subsOkFixed, SubsAll, subsDepth, List.length_nil]
      constructor
      · rintro ⟨⟨⟨⟨h1, h2⟩, h3⟩, _⟩, _⟩
        exact ⟨⟨⟨h1, h3, h2, by simp⟩, trivial⟩, by omega⟩
      · rintro ⟨⟨⟨h1, h3, h2, _⟩, _⟩, _⟩
        exact ⟨⟨⟨⟨h1, h2⟩, h3⟩, Or.inl trivial⟩, trivial⟩
    | cons a t =>
      have hpos := subsDepth_pos a t
      constructor
      · rintro ⟨⟨⟨⟨h1, h2⟩, h3⟩, h4⟩, h5⟩
        have hdk : d ≤ kMaxSubmetadataLevel := by
          rcases h4 with h4 | h4
          · cases h4
          · exact h4
        have := (ih d hdk).mp h5
        exact ⟨⟨⟨h1, h3, h2, this.1⟩, this.2.1⟩, this.2.2⟩
      · rintro ⟨⟨⟨h1, h3, h2, h4⟩, h5⟩, h6⟩
        have hdk : d ≤ kMaxSubmetadataLevel := by omega
        exact ⟨⟨⟨⟨h1, h2⟩, h3⟩, Or.inr hdk⟩, (ih d hdk).mpr ⟨h4, h5, h6⟩⟩
  · intro d _
    simp [subsOkFixed, SubsAll, subsDepth]
    omega
  · intro n m t ihm iht d hd
    have h1 := ihm (d + 1) (by omega)
    have h2 := iht d hd
    simp only [subsOkFixed, Bool.and_eq_true, decide_eq_true_eq, h1, h2, SubsAll, subsDepth,
      List.mem_cons, forall_eq_or_imp]
    constructor
    · rintro ⟨⟨a, b, c⟩, e, f, g⟩
      exact ⟨⟨a, e⟩, ⟨b, f⟩, by omega⟩
    · rintro ⟨⟨a, e⟩, ⟨b, f⟩, g⟩
      exact ⟨⟨a, b, by omega⟩, e, f, by omega⟩

theorem encodeMetadataStatusFixed_iff (m : Metadata) :
    encodeMetadataStatusFixed m = true ↔ m.Encodable true := by
  have := nodeOkFixed_spec m 0 (by omega)
  simp only [Nat.zero_add] at this
  exact this

theorem attsOkFixed_iff (l : List (Nat × Metadata)) :
    attsOkFixed l = true ↔ ∀ a ∈ l, a.1 < 2^32 ∧ a.2.Encodable true := by
  induction l with
  | nil => simp [attsOkFixed]
  | cons a t ih =>
    obtain ⟨id, m⟩ := a
    simp only [attsOkFixed, Bool.and_eq_true, decide_eq_true_eq, ih, List.mem_cons,
      forall_eq_or_imp, encodeMetadataStatusFixed_iff]

/-! ## nesting deeper than the decoder's limit -/

/-- `n` nested sub-metadata with empty names below an empty root -/
def chainMetadata : Nat → Metadata
  | 0 => .mk [] []
  | n+1 => .mk [] [([], chainMetadata n)]

theorem encodeNode_chain_succ (n : Nat) :
    (encodeNode (chainMetadata (n+1))).1 = 0 :: 1 :: 0 :: (encodeNode (chainMetadata n)).1 := by
  simp [chainMetadata, encodeNode, encodeEntries, encodeSubs, encodeString, encVarint,
    encVarintFuel]

theorem decVarint32_small (b : Nat) (rest : Bytes) (h : b < 128) :
    decVarint 32 (b :: rest) = some (b, rest) := by
  have : ¬ b ≥ 128 := by omega
  simp [decVarint, varintMaxDepth, decVarintAux, this]

/-- one `decodeNode` step on a chain -/
theorem decodeNode_chain_step (ae : Bool) (n f : Nat) (hp : Bool) (lvl : Nat) (rest : Bytes) :
    decodeNode ae (f+1) hp lvl ((encodeNode (chainMetadata (n+1))).1 ++ rest) =
      if (if hp then lvl + 1 else lvl) > kMaxSubmetadataLevel then none
      else
        match decodeNode ae f true (if hp then lvl + 1 else lvl)
            ((encodeNode (chainMetadata n)).1 ++ rest) with
        | none => none
        | some (m, bs2) => some (.mk [] [([], m)], bs2) := by
  rw [encodeNode_chain_succ]
  simp only [decodeNode, List.cons_append, decVarint32_small 0 _ (by omega),
    decVarint32_small 1 _ (by omega), decodeEntries]
  have h1 : ¬ 1 > (0 :: ((encodeNode (chainMetadata n)).1 ++ rest)).length := by
    simp
  simp only [h1, if_false]
  by_cases hk : (if hp then lvl + 1 else lvl) > kMaxSubmetadataLevel
  · simp [hk]
  · simp only [hk, if_false, decodeSubsWith, decodeName, readU8, if_true]
    cases decodeNode ae f true (if hp then lvl + 1 else lvl)
        ((encodeNode (chainMetadata n)).1 ++ rest) with
    | none => rfl
    | some r => obtain ⟨m, bs2⟩ := r; simp [insertNewDesc]

theorem decodeNode_chain_fail (ae : Bool) : ∀ (n f lvl : Nat) (rest : Bytes),
    1 ≤ n → lvl + n > kMaxSubmetadataLevel →
    decodeNode ae f true lvl ((encodeNode (chainMetadata n)).1 ++ rest) = none := by
  intro n
  induction n with
  | zero => intro f lvl rest h; omega
  | succ n ih =>
    intro f lvl rest _ hl
    cases f with
    | zero => rfl
    | succ f =>
      rw [decodeNode_chain_step]
      simp only [if_true]
      by_cases hk : lvl + 1 > kMaxSubmetadataLevel
      · simp [hk]
      · rw [if_neg hk, ih f (lvl + 1) rest (by omega) (by omega)]

theorem decodeMetadata_chain_fail (ae : Bool) (rest : Bytes) :
    decodeNode ae (kMaxSubmetadataLevel + 3) false 0
      (encodeMetadata (chainMetadata (kMaxSubmetadataLevel + 2)) ++ rest) = none := by
  unfold encodeMetadata
  rw [decodeNode_chain_step ae (kMaxSubmetadataLevel + 1) (kMaxSubmetadataLevel + 2) false 0]
  rw [decodeNode_chain_fail ae _ _ _ rest (by omega) (by simp)]
  simp [kMaxSubmetadataLevel]

theorem chainMetadata_entries_subs (n : Nat) :
    (∀ e ∈ (chainMetadata n).entries, e.1.length ≤ 255) ∧
    (∀ s ∈ (chainMetadata n).subs, s.1.length ≤ 255) := by
  cases n <;> simp [chainMetadata, Metadata.entries, Metadata.subs]

theorem chainMetadata_depth (n : Nat) : (chainMetadata n).depth = n := by
  induction n with
  | zero => simp [chainMetadata, Metadata.depth, subsDepth]
  | succ n ih => simp [chainMetadata, Metadata.depth, subsDepth] at *; exact ih

theorem chainMetadata_all (ae : Bool) (n : Nat) :
    (chainMetadata n).All (fun es ss => SortedKeys es ∧ SortedKeys ss) ∧
    (chainMetadata n).All (NodeEncodable ae) := by
  induction n with
  | zero => simp [chainMetadata, Metadata.All, SubsAll, SortedKeys, NodeEncodable]
  | succ n ih =>
    simp [chainMetadata, Metadata.All, SubsAll, SortedKeys, NodeEncodable] at *
    exact ih

/-! ## fuel -/

/-- The nesting fuel of `decodeNode` is never exhausted when at least
    `kMaxSubmetadataLevel + 2 − childLevel` is supplied: the result does not depend on it. -/
theorem decodeNode_fuel (ae : Bool) : ∀ (f f' : Nat) (hp : Bool) (lvl : Nat),
    1 ≤ f → 1 ≤ f' →
    kMaxSubmetadataLevel + 2 ≤ f + (if hp then lvl + 1 else lvl) →
    kMaxSubmetadataLevel + 2 ≤ f' + (if hp then lvl + 1 else lvl) →
    decodeNode ae f hp lvl = decodeNode ae f' hp lvl := by
  intro f
  induction f with
  | zero => intro f' hp lvl h; omega
  | succ f ih =>
    intro f' hp lvl _ hf' h1 h2
    cases f' with
    | zero => omega
    | succ f' =>
      funext bs
      simp only [decodeNode]
      by_cases hc : (if hp then lvl + 1 else lvl) ≤ kMaxSubmetadataLevel
      · rw [ih f' true (if hp then lvl + 1 else lvl) (by omega) (by omega)
          (by simp only [if_true]; omega) (by simp only [if_true]; omega)]
      · have hgt : (if hp then lvl + 1 else lvl) > kMaxSubmetadataLevel := by omega
        split
        · rfl
        · split
          · rfl
          · split
            · rfl
            · rename_i numSubs bs3 _
              split
              · rfl
              · by_cases h0 : numSubs = 0
                · subst h0; simp [decodeSubsWith]
                · have : numSubs ≠ 0 ∧ (if hp then lvl + 1 else lvl) > kMaxSubmetadataLevel :=
                    ⟨h0, hgt⟩
                  rw [if_pos this, if_pos this]

end Draco
