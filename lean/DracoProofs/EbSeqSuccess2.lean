import DracoProofs.EbSeqSuccess
/-
  SUCCESS TRANSFER for the prediction degree traversal (`traversalMethod = 1`): if the encoder's
  `maxPredictionDegreeOrder` on the view `e` succeeds and `TVIso d e φ ψ`, then the decoder's
  `Eb.maxPredictionDegree` on `d` succeeds.  Same method as DracoProofs/EbSeqSuccess.lean: the bodies of the decoder's
  loops succeed on every state with a corner in use and arrays of the right sizes (`*_prog`: here no input from the
  encoder's run is needed at all — the traverser never meets the invalid corner), the relation of the two runs comes
  from the `*_sim` lemmas of DracoProofs/EbTravEquiv.lean, the fuel error is excluded by
  `Eb.maxPredictionDegree_noFuel`.
-/
namespace Draco.EbEnc
open Draco
open Draco.Eb hiding iabs nextC prevC

section
variable {d e : TView} {φ ψ : Nat → Nat} {facesD facesE : Array Nat}

/-! ### the decoder's bodies succeed -/

/-- `ComputePriority` at a corner in use runs its continuation -/
theorem mpdPrioK_prog {β : Type} (h : TVIso d e φ ψ) (vv : Array Bool) (deg : Array Nat) (x : Nat)
    (k : Array Nat → Nat → R β) (hx : x < 3 * d.numFaces) (hvs : vv.size = d.numVertices)
    (hdg : deg.size = d.numVertices) :
    ∃ deg' p, mpdPrioK d vv deg x k = k deg' p ∧ deg'.size = deg.size := by
  obtain ⟨v, hv1, hv2, -, -⟩ := h.vertex x hx
  unfold mpdPrioK
  rw [hv1, trav_ok_bind]
  have hv : v < vv.size := by omega
  have hrd : ∀ site, rdB site vv v = .ok vv[v] := fun site => (trav_rdB_ok_iff _ _ _ _).2 (by simp [hv])
  rw [hrd, trav_ok_bind]
  generalize vv[v] = b
  cases b with
  | true =>
    simp only [Bool.not_true, Bool.false_eq_true, if_false]
    exact ⟨deg, 0, rfl, rfl⟩
  | false =>
    simp only [Bool.not_false, if_true]
    have hd : v < deg.size := by omega
    have hr : ∀ site, rd site deg v = .ok deg[v] := fun site => (trav_rd_ok_iff _ _ _ _).2 (by simp [hd])
    have hw : ∀ site x, wr site deg v x = .ok (deg.setIfInBounds v x) := fun site x =>
      (trav_wr_ok_iff _ _ _ _ _).2 ⟨hd, rfl⟩
    rw [hr, trav_ok_bind, hw, trav_ok_bind]
    exact ⟨_, _, rfl, by simp⟩

/-- the decision on the right corner succeeds -/
theorem mpdRight_prog (h : TVIso d e φ ψ) (fv vv : Array Bool) (out : SeqOut) (c : Nat) (fin : Bool) (ro : Nat)
    (rv : Bool) (deg st0 st1 st2 : Array Nat) (best : Nat) (hrv : rv = false → ro < 3 * d.numFaces)
    (hvs : vv.size = d.numVertices) (hdg : deg.size = d.numVertices) :
    ∃ r, mpdRight d fv vv out c fin ro rv deg st0 st1 st2 best = .ok r ∧ r.value.2.2.1 = out ∧
      r.value.2.2.2.1.size = deg.size ∧ ∀ s', r = .done s' → s'.2.2.2.2.2.2.2.2.2 = true := by
  unfold mpdRight
  cases rv with
  | true =>
    simp only [Bool.not_true, Bool.false_eq_true, if_false]
    exact ⟨_, rfl, rfl, rfl, by intro s' e; cases e; rfl⟩
  | false =>
    simp only [Bool.not_false, if_true]
    obtain ⟨deg', p, hk, hsz⟩ := mpdPrioK_prog h vv deg ro
      (fun degree priority =>
        if priority ≤ best then pure (ForInStep.yield (fv, vv, out, degree, st0, st1, st2, best, ro, fin))
        else mpdPushK st0 st1 st2 best priority ro fun st0 st1 st2 best =>
          (pure (ForInStep.done (fv, vv, out, degree, st0, st1, st2, best, c, true)) : R (ForInStep StPI)))
      (hrv rfl) hvs hdg
    rw [hk]
    try dsimp only
    by_cases hp : p ≤ best
    · rw [if_pos hp]
      exact ⟨_, rfl, rfl, hsz, by intro s' e; cases e⟩
    · rw [if_neg hp, mpdPushK_eq]
      exact ⟨_, rfl, rfl, hsz, by intro s' e; cases e; rfl⟩

/-- an iteration of the decoder's inner loop succeeds at a corner in use -/
theorem mpdInner_prog (h : TVIso d e φ ψ) (hfa : 3 * d.numFaces ≤ facesD.size) (m : Nat) (hm : d.numVertices ≤ m)
    (s : StPI) (hlt : s.2.2.2.2.2.2.2.2.1 < 3 * d.numFaces) (hfs : s.1.size = d.numFaces)
    (hvs : s.2.1.size = d.numVertices) (hv2 : s.2.2.1.v2d.size = m) (hdg : s.2.2.2.1.size = d.numVertices) :
    ∃ r, mpdInner d facesD s = .ok r ∧ r.value.2.2.1.v2d.size = m ∧ r.value.2.2.2.1.size = d.numVertices ∧
      ∀ s', r = .done s' → s'.2.2.2.2.2.2.2.2.2 = true := by
  have hf := h.fits
  obtain ⟨fv, vv, out, deg, st0, st1, st2, best, c, fin⟩ := s
  simp only at hlt hfs hvs hv2 hdg
  unfold mpdInner mpdInnerC
  simp only
  have hwD : ∀ site, wrB site fv (c / 3) true = .ok (fv.setIfInBounds (c / 3) true) := fun site =>
    (trav_wrB_ok_iff _ _ _ _ _).2 ⟨by omega, rfl⟩
  have hsz' : (fv.setIfInBounds (c / 3) true).size = d.numFaces := by simp [hfs]
  rw [hwD, trav_ok_bind]
  obtain ⟨v, hv1, hvlt, -, -⟩ := h.vertex c hlt
  rw [hv1, trav_ok_bind]
  have hcf : c < facesD.size := by omega
  rw [visitK_eq facesD vv out v c _ (by omega) hcf (by omega)]
  obtain ⟨ro, hr1, hr2, -⟩ := right_corr h c hlt
  obtain ⟨lo, hl1, hl2, -⟩ := left_corr h c hlt
  obtain ⟨rv, hb1⟩ := faceVisited_total hsz' hf.1 hr2
  obtain ⟨lv, hb2⟩ := faceVisited_total hsz' hf.1 hl2
  rw [hr1, trav_ok_bind, hl1, trav_ok_bind, hb1, trav_ok_bind, hb2, trav_ok_bind]
  have hvs' : (visVV vv v).size = d.numVertices := by rw [visVV_size, hvs]
  have hov : (visOut facesD vv out v c hcf).v2d.size = m := by rw [visOut_size, hv2]
  have hrv : rv = false → ro < 3 * d.numFaces := by
    intro e1
    rw [e1] at hb1
    have := (faceVisited_false hb1).1
    rcases hr2 with e2 | e2
    · exact absurd e2 this
    · exact e2
  cases lv with
  | true =>
    simp only [Bool.not_true, Bool.false_eq_true, if_false]
    obtain ⟨r, hr, ho, hd, hfin⟩ := mpdRight_prog h (fv.setIfInBounds (c / 3) true) (visVV vv v)
      (visOut facesD vv out v c hcf) c fin ro rv deg st0 st1 st2 best hrv hvs' hdg
    exact ⟨r, hr, by rw [ho]; exact hov, by rw [hd]; exact hdg, hfin⟩
  | false =>
    simp only [Bool.not_false, if_true]
    have hll : lo < 3 * d.numFaces := by
      have := (faceVisited_false hb2).1
      rcases hl2 with e2 | e2
      · exact absurd e2 this
      · exact e2
    obtain ⟨deg', p, hk, hsz⟩ := mpdPrioK_prog h (visVV vv v) deg lo
      (fun degree priority =>
        if (rv && decide (priority ≤ best)) = true then
          pure (ForInStep.yield (fv.setIfInBounds (c / 3) true, visVV vv v, visOut facesD vv out v c hcf, degree,
            st0, st1, st2, best, lo, fin))
        else mpdPushK st0 st1 st2 best priority lo fun st0 st1 st2 best =>
          mpdRight d (fv.setIfInBounds (c / 3) true) (visVV vv v) (visOut facesD vv out v c hcf) c fin ro rv degree
            st0 st1 st2 best)
      hll hvs' hdg
    rw [hk]
    try dsimp only
    by_cases hp : (rv && decide (p ≤ best)) = true
    · rw [if_pos hp]
      exact ⟨_, rfl, hov, by show deg'.size = d.numVertices; rw [hsz]; exact hdg, by intro s' e; cases e⟩
    · rw [if_neg hp, mpdPushK_eq]
      obtain ⟨r, hr, ho, hd, hfin⟩ := mpdRight_prog h (fv.setIfInBounds (c / 3) true) (visVV vv v)
        (visOut facesD vv out v c hcf) c fin ro rv deg' (pushSt p lo st0 st1 st2).1 (pushSt p lo st0 st1 st2).2.1
        (pushSt p lo st0 st1 st2).2.2 (if p < best then p else best) hrv hvs' (by rw [hsz]; exact hdg)
      exact ⟨r, hr, by rw [ho]; exact hov, by rw [hd, hsz]; exact hdg, hfin⟩

/-! ### forward simulation -/

/-- the relation of the inner loops together with the sizes of the decoder's maps -/
def RelPI' (d e : TView) (φ ψ : Nat → Nat) (facesD facesE : Array Nat) (n m : Nat) (s t : StPI) : Prop :=
  TRelPI d e φ ψ facesD facesE n s t ∧ s.2.2.1.v2d.size = m ∧ s.2.2.2.1.size = d.numVertices

def RelPID' (d e : TView) (φ ψ : Nat → Nat) (facesD facesE : Array Nat) (n m : Nat) (s t : StPI) : Prop :=
  TRelPID d e φ ψ facesD facesE n s t ∧ s.2.2.1.v2d.size = m ∧ s.2.2.2.1.size = d.numVertices ∧
    s.2.2.2.2.2.2.2.2.2 = true

theorem mpdInner_fwd (h : TVIso d e φ ψ) (hfa : 3 * d.numFaces ≤ facesD.size) (n m : Nat)
    (hm : d.numVertices ≤ m) (s t : StPI) (r' : ForInStep StPI)
    (hr : RelPI' d e φ ψ facesD facesE n m s t) (hE : mpdInner e facesE t = .ok r') :
    OkF (mpdInner d facesD s) (fun r =>
      (∃ s' t', r = .yield s' ∧ r' = .yield t' ∧ RelPI' d e φ ψ facesD facesE n m s' t') ∨
      (∃ s' t', r = .done s' ∧ r' = .done t' ∧ RelPID' d e φ ψ facesD facesE n m s' t')) := by
  obtain ⟨hrel, hv2, hdg⟩ := hr
  obtain ⟨r, hD, hv, hdg', hfin⟩ := mpdInner_prog h hfa m hm s hrel.2.1 hrel.1.core.fvD_size hrel.1.core.vvD_size hv2 hdg
  refine OkF.of_ok hD ?_
  rcases mpdInner_sim h n s t r r' hrel hD hE with ⟨s', t', rfl, rfl, hr'⟩ | ⟨s', t', rfl, rfl, hr'⟩
  · exact Or.inl ⟨s', t', rfl, rfl, hr', by simpa [ForInStep.value] using hv, by simpa [ForInStep.value] using hdg'⟩
  · exact Or.inr ⟨s', t', rfl, rfl, hr', by simpa [ForInStep.value] using hv, by simpa [ForInStep.value] using hdg',
      hfin s' rfl⟩

end

section
variable {d e : TView} {φ ψ : Nat → Nat} {facesD facesE : Array Nat} {n : Nat}
  {fvD vvD : Array Bool} {outD : SeqOut} {degD s0D s1D s2D : Array Nat} {bestD : Nat}
  {fvE vvE : Array Bool} {outE : SeqOut} {degE s0E s1E s2E : Array Nat} {bestE : Nat}

/-- the rest of an iteration of the stack loop once corresponding corners are popped: forward -/
theorem mpdAfterPop_fwd (h : TVIso d e φ ψ) (hfa : 3 * d.numFaces ≤ facesD.size) (fuelD fuelE : Nat)
    (hn : n ≤ d.numFaces) (m : Nat) (hm : d.numVertices ≤ m) (c cE : Nat)
    (hq : TRelQ d e φ ψ facesD facesE n (fun j => c = 3 * j) fvD vvD outD degD s0D s1D s2D bestD
      fvE vvE outE degE s0E s1E s2E bestE)
    (hlt : c < 3 * d.numFaces) (hcE : cE = φ c) (hN : Hedge d → NInv d vvD c)
    (hv2 : outD.v2d.size = m) (hdg : degD.size = d.numVertices) (r' : ForInStep StPM)
    (hE : mpdAfterPop e facesE fuelE fvE vvE outE degE false s0E s1E s2E bestE cE = .ok r') :
    OkF (mpdAfterPop d facesD fuelD fvD vvD outD degD false s0D s1D s2D bestD c) (fun r =>
      (∃ s' t', r = .yield s' ∧ r' = .yield t' ∧ TRelPM d e φ ψ facesD facesE n s' t') ∧
      r.value.2.2.1.v2d.size = m ∧ r.value.2.2.2.1.size = d.numVertices) := by
  suffices hex : OkF (mpdAfterPop d facesD fuelD fvD vvD outD degD false s0D s1D s2D bestD c)
      (fun r => r.value.2.2.1.v2d.size = m ∧ r.value.2.2.2.1.size = d.numVertices) by
    rcases hex with ⟨r, hD, hsz⟩ | hs
    · exact Or.inl ⟨r, hD, mpdAfterPop_sim h fuelD fuelE hn c cE hq hlt hcE hN r r' hD hE, hsz⟩
    · exact Or.inr hs
  have hf := h.fits
  subst hcE
  have hne : c ≠ inv := h.ne_inv c hlt
  have hneE : φ c ≠ inv := h.phi_ne_inv c hlt
  unfold mpdAfterPop at hE ⊢
  simp only [beq_iff_eq, hne, hneE, if_false] at hE ⊢
  rw [faceVisited_div _ _ hne]
  have hfc := faceVisited_corr h hq.core c (Or.inr hlt)
  rw [ext_of_ne φ hne] at hfc
  rw [faceVisited_div _ _ hneE, hfc] at hE
  obtain ⟨b, hb⟩ := faceVisited_total hq.core.fvD_size hf.1 (Or.inr hlt)
  rw [hb, trav_ok_bind] at hE ⊢
  cases b with
  | true =>
    simp only [if_true]
    exact OkF.of_ok rfl ⟨hv2, hdg⟩
  | false =>
    simp only [Bool.false_eq_true, if_false] at hE ⊢
    rw [bind_ok_iff] at hE
    obtain ⟨sE, hlE, hE⟩ := hE
    split at hE
    · exact absurd hE (trav_throw_ne_ok _ _)
    rename_i hfE
    simp only [Std.Legacy.Range.forIn_eq_forIn_range'] at hlE ⊢
    have hres := forIn_fwd_break (mpdInner d facesD) (mpdInner e facesE) (RelPI' d e φ ψ facesD facesE n m)
      (RelPID' d e φ ψ facesD facesE n m) (fun t => t.2.2.2.2.2.2.2.2.2 = true)
      (fun s t hrel => by simp [hrel.1.2.2.2.2.2])
      (fun s t r' hrel h2 => mpdInner_fwd h hfa n m hm s t r' hrel h2)
      (List.range' 0 [0:fuelD].size 1) _
      ((fvD, vvD, outD, degD, s0D, s1D, s2D, bestD, c, false) : StPI) _ sE ?_ hlE (by simpa using hfE)
    · refine hres.bind ?_
      rintro sD (⟨-, hsz1, hsz2, hfin⟩ | ⟨t, hrel, -⟩)
      · simp only [hfin, Bool.not_true, Bool.false_eq_true, if_false]
        exact OkF.of_ok rfl ⟨by simpa [ForInStep.value] using hsz1, by simpa [ForInStep.value] using hsz2⟩
      · have : sD.2.2.2.2.2.2.2.2.2 = false := hrel.2.2.2.2.1
        simp only [this, Bool.not_false, if_true]
        exact Or.inr ⟨_, rfl⟩
    · exact ⟨⟨hq, hlt, rfl, hN, rfl, rfl⟩, hv2, hdg⟩

/-- an iteration of the loop over the stacks: forward -/
theorem mpdMid_fwd (h : TVIso d e φ ψ) (hfa : 3 * d.numFaces ≤ facesD.size) (n fuelD fuelE : Nat)
    (hn : n ≤ d.numFaces) (m : Nat) (hm : d.numVertices ≤ m) (s t : StPM) (r' : ForInStep StPM)
    (hr : TRelPM d e φ ψ facesD facesE n s t) (hv2 : s.2.2.1.v2d.size = m)
    (hdg : s.2.2.2.1.size = d.numVertices) (hE : mpdMid e facesE fuelE t = .ok r') :
    OkF (mpdMid d facesD fuelD s) (fun r =>
      ((∃ s' t', r = .yield s' ∧ r' = .yield t' ∧ TRelPM d e φ ψ facesD facesE n s' t') ∨
       (∃ s' t', r = .done s' ∧ r' = .done t' ∧ TRelPMD d e φ ψ facesD facesE n s' t' ∧ s'.2.2.2.2.2.2.2.2 = true)) ∧
      r.value.2.2.1.v2d.size = m ∧ r.value.2.2.2.1.size = d.numVertices) := by
  suffices hex : OkF (mpdMid d facesD fuelD s) (fun r => r.value.2.2.1.v2d.size = m ∧
      r.value.2.2.2.1.size = d.numVertices ∧ ∀ s', r = .done s' → s'.2.2.2.2.2.2.2.2 = true) by
    rcases hex with ⟨r, hD, hsz1, hsz2, hfin⟩ | hs
    · refine Or.inl ⟨r, hD, ?_, hsz1, hsz2⟩
      rcases mpdMid_sim h n fuelD fuelE hn s t r r' hr hD hE with ⟨s', t', rfl, rfl, hrel⟩ | ⟨s', t', rfl, rfl, hrel⟩
      · exact Or.inl ⟨s', t', rfl, rfl, hrel⟩
      · exact Or.inr ⟨s', t', rfl, rfl, hrel, hfin s' rfl⟩
    · exact Or.inr hs
  obtain ⟨fvD, vvD, outD, degD, s0D, s1D, s2D, bestD, finD⟩ := s
  obtain ⟨fvE, vvE, outE, degE, s0E, s1E, s2E, bestE, finE⟩ := t
  obtain ⟨hq, f1, f2⟩ := hr
  simp only at hq f1 f2 hv2 hdg
  subst f1 f2
  have hb := hq.best
  subst hb
  unfold mpdMid mpdMidC at hE ⊢
  simp only at hE ⊢
  have e0 : s0E.isEmpty = s0D.isEmpty := by rw [hq.s0, trav_isEmpty_map]
  have e1 : s1E.isEmpty = s1D.isEmpty := by rw [hq.s1, trav_isEmpty_map]
  have e2 : s2E.isEmpty = s2D.isEmpty := by rw [hq.s2, trav_isEmpty_map]
  rw [e0, e1, e2] at hE
  have fin_of : ∀ {x : R (ForInStep StPM)}, OkF x (fun r =>
      (∃ s' t', r = .yield s' ∧ r' = .yield t' ∧ TRelPM d e φ ψ facesD facesE n s' t') ∧
      r.value.2.2.1.v2d.size = m ∧ r.value.2.2.2.1.size = d.numVertices) →
      OkF x (fun r => r.value.2.2.1.v2d.size = m ∧ r.value.2.2.2.1.size = d.numVertices ∧
        ∀ s', r = .done s' → s'.2.2.2.2.2.2.2.2 = true) := by
    intro x hx
    refine hx.mono ?_
    rintro r ⟨⟨s', t', rfl, rfl, -⟩, h1, h2⟩
    exact ⟨h1, h2, by intro s'' e; cases e⟩
  by_cases c0 : (decide (bestE ≤ 0) && !s0D.isEmpty) = true
  · rw [if_pos c0] at hE ⊢
    have hne : 0 < s0D.size := trav_size_pos_of_not_isEmpty (by simpa using (Bool.and_eq_true_iff.1 c0).2)
    obtain ⟨hq', hlt, hcE, hN⟩ := hq.pop0 h hne
    exact fin_of (mpdAfterPop_fwd h hfa fuelD fuelE hn m hm _ _ hq' hlt hcE hN hv2 hdg r' hE)
  rw [if_neg c0] at hE ⊢
  have h0 : s0D.size = 0 := by
    by_cases hb0 : bestE ≤ 0
    · have : s0D.isEmpty = true := by
        by_contra hh
        exact c0 (by simp [hb0, hh])
      exact trav_size_zero_of_isEmpty this
    · exact hq.low.1 (by omega)
  by_cases c1 : (decide (bestE ≤ 1) && !s1D.isEmpty) = true
  · rw [if_pos c1] at hE ⊢
    have hne : 0 < s1D.size := trav_size_pos_of_not_isEmpty (by simpa using (Bool.and_eq_true_iff.1 c1).2)
    obtain ⟨hq', hlt, hcE, hN⟩ := hq.pop1 h hne h0
    exact fin_of (mpdAfterPop_fwd h hfa fuelD fuelE hn m hm _ _ hq' hlt hcE hN hv2 hdg r' hE)
  rw [if_neg c1] at hE ⊢
  have h1 : s1D.size = 0 := by
    by_cases hb1 : bestE ≤ 1
    · have : s1D.isEmpty = true := by
        by_contra hh
        exact c1 (by simp [hb1, hh])
      exact trav_size_zero_of_isEmpty this
    · exact hq.low.2 (by omega)
  by_cases c2 : (!s2D.isEmpty) = true
  · rw [if_pos c2] at hE ⊢
    have hne : 0 < s2D.size := trav_size_pos_of_not_isEmpty (by simpa using c2)
    obtain ⟨hq', hlt, hcE, hN⟩ := hq.pop2 h hne h0 h1
    exact fin_of (mpdAfterPop_fwd h hfa fuelD fuelE hn m hm _ _ hq' hlt hcE hN hv2 hdg r' hE)
  rw [if_neg c2]
  unfold mpdAfterPop
  simp only [beq_self_eq_true, if_true]
  exact OkF.of_ok rfl ⟨hv2, hdg, by intro s' e; cases e; rfl⟩

end

section
variable {d e : TView} {φ ψ : Nat → Nat} {facesD facesE : Array Nat}
  {fvD vvD : Array Bool} {outD : SeqOut} {degD s0D s1D s2D : Array Nat} {bestD : Nat}
  {fvE vvE : Array Bool} {outE : SeqOut} {degE s0E s1E s2E : Array Nat} {bestE : Nat}

/-- `TraverseFromCorner` of the prediction degree traverser from corresponding corners: forward -/
theorem mpdFrom_fwd (h : TVIso d e φ ψ) (hfa : 3 * d.numFaces ≤ facesD.size) (fuelD fuelE i : Nat)
    (hi : i < d.numFaces) (m : Nat) (hm : d.numVertices ≤ m)
    (hq : TRelQ d e φ ψ facesD facesE i (fun _ => False) fvD vvD outD degD s0D s1D s2D bestD
      fvE vvE outE degE s0E s1E s2E bestE)
    (h0 : s0D.size = 0) (h1 : s1D.size = 0) (h2 : s2D.size = 0)
    (hv2 : outD.v2d.size = m) (hdg : degD.size = d.numVertices) (r' : ForInStep StP8)
    (hE : mpdFrom e facesE fuelE (φ (3 * i)) fvE vvE outE degE (s0E.push (φ (3 * i))) s1E s2E = .ok r') :
    OkF (mpdFrom d facesD fuelD (3 * i) fvD vvD outD degD (s0D.push (3 * i)) s1D s2D) (fun r =>
      ∃ s' t', r = .yield s' ∧ r' = .yield t' ∧ TRelPO d e φ ψ facesD facesE (i + 1) s' t' ∧
        s'.2.2.1.v2d.size = m ∧ s'.2.2.2.1.size = d.numVertices) := by
  suffices hex : OkF (mpdFrom d facesD fuelD (3 * i) fvD vvD outD degD (s0D.push (3 * i)) s1D s2D)
      (fun r => r.value.2.2.1.v2d.size = m ∧ r.value.2.2.2.1.size = d.numVertices) by
    rcases hex with ⟨r, hD, hsz⟩ | hs
    · refine Or.inl ⟨r, hD, ?_⟩
      obtain ⟨s', t', rfl, rfl, hrel⟩ := mpdFrom_sim h fuelD fuelE i hi hq h0 h1 h2 r r' hD hE
      exact ⟨s', t', rfl, rfl, hrel, hsz.1, hsz.2⟩
    · exact Or.inr hs
  have hf := h.fits
  have hc := hq.core
  have hlt : 3 * i < 3 * d.numFaces := by omega
  have hne : 3 * i ≠ inv := by omega
  unfold mpdFrom at hE ⊢
  obtain ⟨nv, hn1, hn2, hn3, _⟩ := h.vertex (Eb.nextC (3 * i)) (TVIso.nextC_lt hlt)
  obtain ⟨pv, hp1, hp2, hp3, _⟩ := h.vertex (Eb.prevC (3 * i)) (TVIso.prevC_lt hlt hf.1)
  obtain ⟨tv, ht1, ht2, ht3, _⟩ := h.vertex (3 * i) hlt
  rw [hn1, trav_ok_bind, hp1, trav_ok_bind]
  rw [← h.phi_next _ hlt, ← h.phi_prev _ hlt, hn3, trav_ok_bind, hp3, trav_ok_bind] at hE
  have hnl := TVIso.nextC_lt hlt
  have hpl := TVIso.prevC_lt hlt hf.1
  have hnf : Eb.nextC (3 * i) < facesD.size := by omega
  have hpf : Eb.prevC (3 * i) < facesD.size := by omega
  have htf : 3 * i < facesD.size := by omega
  -- first visit
  have hq1 : nv < vvD.size := by rw [hc.vvD_size]; exact hn2
  rw [visitK_eq facesD vvD outD nv _ _ hq1 hnf (by omega)]
  have hk1 : visitK facesD vvD outD nv (Eb.nextC (3 * i))
      (fun vv out => (pure (vv, out) : R (Array Bool × SeqOut))) =
      .ok (visVV vvD nv, visOut facesD vvD outD nv _ hnf) := visitK_eq facesD vvD outD nv _ _ hq1 hnf (by omega)
  obtain ⟨vv1, out1, vvE1, outE1, hc1, hkD1, hE, hseen1, hor1⟩ :=
    visitK_sim h hc _ nv hnl hn1 _ _ _ r' hk1 hE
  simp only [pure, Except.pure, Except.ok.injEq, Prod.mk.injEq] at hkD1
  obtain ⟨rfl, rfl⟩ := hkD1
  -- second visit
  have hq2 : pv < (visVV vvD nv).size := by rw [visVV_size, hc.vvD_size]; exact hp2
  have hq3 : pv < (visOut facesD vvD outD nv _ hnf).v2d.size := by rw [visOut_size]; omega
  rw [visitK_eq facesD _ _ pv _ _ hq2 hpf hq3]
  have hk2 : visitK facesD (visVV vvD nv) (visOut facesD vvD outD nv _ hnf) pv (Eb.prevC (3 * i))
      (fun vv out => (pure (vv, out) : R (Array Bool × SeqOut))) =
      .ok (visVV (visVV vvD nv) pv, visOut facesD (visVV vvD nv) (visOut facesD vvD outD nv _ hnf) pv _ hpf) :=
    visitK_eq facesD _ _ pv _ _ hq2 hpf hq3
  obtain ⟨vv2, out2, vvE2, outE2, hc2, hkD2, hE, hseen2, hor2⟩ :=
    visitK_sim h hc1 _ pv hpl hp1 _ _ _ r' hk2 hE
  simp only [pure, Except.pure, Except.ok.injEq, Prod.mk.injEq] at hkD2
  obtain ⟨rfl, rfl⟩ := hkD2
  -- third visit
  rw [ht1, trav_ok_bind]
  rw [ht3, trav_ok_bind] at hE
  have hq4 : tv < (visVV (visVV vvD nv) pv).size := by rw [visVV_size, visVV_size, hc.vvD_size]; exact ht2
  have hq5 : tv < (visOut facesD (visVV vvD nv) (visOut facesD vvD outD nv _ hnf) pv _ hpf).v2d.size := by
    rw [visOut_size, visOut_size]; omega
  rw [visitK_eq facesD _ _ tv _ _ hq4 htf hq5]
  have hk3 : visitK facesD (visVV (visVV vvD nv) pv)
      (visOut facesD (visVV vvD nv) (visOut facesD vvD outD nv _ hnf) pv _ hpf) tv (3 * i)
      (fun vv out => (pure (vv, out) : R (Array Bool × SeqOut))) =
      .ok (visVV (visVV (visVV vvD nv) pv) tv, visOut facesD (visVV (visVV vvD nv) pv)
        (visOut facesD (visVV vvD nv) (visOut facesD vvD outD nv _ hnf) pv _ hpf) tv _ htf) :=
    visitK_eq facesD _ _ tv _ _ hq4 htf hq5
  obtain ⟨vv3, out3, vvE3, outE3, hc3, hkD3, hE, hseen3, hor3⟩ :=
    visitK_sim h hc2 _ tv hlt ht1 _ _ _ r' hk3 hE
  simp only [pure, Except.pure, Except.ok.injEq, Prod.mk.injEq] at hkD3
  obtain ⟨rfl, rfl⟩ := hkD3
  have hsz3 : (visOut facesD (visVV (visVV vvD nv) pv)
      (visOut facesD (visVV vvD nv) (visOut facesD vvD outD nv _ hnf) pv _ hpf) tv _ htf).v2d.size = m := by
    rw [visOut_size, visOut_size, visOut_size, hv2]
  -- the loop over the stacks
  rw [bind_ok_iff] at hE
  obtain ⟨sE, hlE, hE⟩ := hE
  split at hE
  · exact absurd hE (trav_throw_ne_ok _ _)
  rename_i hfE
  simp only [Std.Legacy.Range.forIn_eq_forIn_range'] at hlE ⊢
  have hres := forIn_fwd_break (mpdMid d facesD fuelD) (mpdMid e facesE fuelE)
    (fun s t => TRelPM d e φ ψ facesD facesE (i + 1) s t ∧ s.2.2.1.v2d.size = m ∧ s.2.2.2.1.size = d.numVertices)
    (fun s t => TRelPMD d e φ ψ facesD facesE (i + 1) s t ∧ s.2.2.2.2.2.2.2.2 = true ∧ s.2.2.1.v2d.size = m ∧
      s.2.2.2.1.size = d.numVertices)
    (fun t => t.2.2.2.2.2.2.2.2 = true)
    (fun s t hrel => by simp [hrel.1.2.2])
    (fun s t r' hrel h2 => by
      refine (mpdMid_fwd h hfa (i + 1) fuelD fuelE (by omega) m hm s t r' hrel.1 hrel.2.1 hrel.2.2 h2).mono ?_
      rintro r ⟨⟨s', t', rfl, rfl, hr'⟩ | ⟨s', t', rfl, rfl, hr', hfin⟩, hsz1, hsz2⟩
      · exact Or.inl ⟨s', t', rfl, rfl, hr', by simpa [ForInStep.value] using hsz1,
          by simpa [ForInStep.value] using hsz2⟩
      · exact Or.inr ⟨s', t', rfl, rfl, hr', hfin, by simpa [ForInStep.value] using hsz1,
          by simpa [ForInStep.value] using hsz2⟩)
    (List.range' 0 [0:fuelD].size 1) _
    ((fvD, visVV (visVV (visVV vvD nv) pv) tv, visOut facesD (visVV (visVV vvD nv) pv)
      (visOut facesD (visVV vvD nv) (visOut facesD vvD outD nv _ hnf) pv _ hpf) tv _ htf,
      degD, s0D.push (3 * i), s1D, s2D, 0, false) : StPM)
    _ sE ?_ hlE (by simpa using hfE)
  · refine hres.bind ?_
    rintro sD (⟨-, hfin, hsz1, hsz2⟩ | ⟨t, hrel, -⟩)
    · simp only [hfin, Bool.not_true, Bool.false_eq_true, if_false]
      exact OkF.of_ok rfl ⟨by simpa [ForInStep.value] using hsz1, by simpa [ForInStep.value] using hsz2⟩
    · have : sD.2.2.2.2.2.2.2.2 = false := hrel.2.1
      simp only [this, Bool.not_false, if_true]
      exact Or.inr ⟨_, rfl⟩
  · refine ⟨⟨?_, rfl, rfl⟩, hsz3, hdg⟩
    have hmem : ∀ x, InS x (s0D.push (3 * i)) s1D s2D → x = 3 * i := by
      intro x hx
      rcases hx with hx | hx | hx
      · rcases Array.mem_push.1 hx with hx | hx
        · exact absurd hx (trav_not_mem_of_size_zero h0)
        · exact hx
      · exact absurd hx (trav_not_mem_of_size_zero h1)
      · exact absurd hx (trav_not_mem_of_size_zero h2)
    refine { core := hc3, deg := hq.deg, s0 := by rw [hq.s0]; simp [ext_of_ne φ hne], s1 := hq.s1, s2 := hq.s2,
             s_lt := ?_, best := rfl, low := ⟨fun hh => absurd hh (Nat.lt_irrefl 0), fun hh => absurd hh (Nat.not_lt_zero 1)⟩,
             k := ?_, hedge := ?_ }
    · intro x hx
      rw [hmem x hx]; exact hlt
    · intro j hj
      rcases Nat.lt_succ_iff_lt_or_eq.1 hj with e1 | e1
      · rcases hq.k j e1 with e2 | e2 | e2
        · exact Or.inl e2
        · rcases e2 with e2 | e2 | e2
          · exact absurd e2 (trav_not_mem_of_size_zero h0)
          · exact absurd e2 (trav_not_mem_of_size_zero h1)
          · exact absurd e2 (trav_not_mem_of_size_zero h2)
        · exact e2.elim
      · subst e1
        exact Or.inr (Or.inl (Or.inl (by simp)))
    · intro hg
      refine ⟨(((hq.hedge hg).1.of_or hor1).of_or hor2).of_or hor3, ?_⟩
      intro x hx
      rw [hmem x hx]
      have n1 : VSeen d (visVV vvD nv) (Eb.nextC (3 * i)) := by
        intro v' hv'
        rw [hn1] at hv'; cases hv'
        exact hseen1
      have n2 : VSeen d (visVV (visVV vvD nv) pv) (Eb.prevC (3 * i)) := by
        intro v' hv'
        rw [hp1] at hv'; cases hv'
        exact hseen2
      exact ⟨(n1.of_or hor2).of_or hor3, n2.of_or hor3⟩

end

section
variable {d e : TView} {φ ψ : Nat → Nat} {facesD facesE : Array Nat}

/-- the decoder's prediction degree traversal succeeds, or runs out of fuel, whenever the encoder's traversal of an
    isomorphic view succeeds -/
theorem maxPredictionDegree_okF (h : TVIso d e φ ψ) (hfa : 3 * d.numFaces ≤ facesD.size)
    (order v2dInit : Array Nat) (v2dSize : Nat) (hv2 : d.numVertices ≤ v2dSize)
    (hsize : order.size = d.numFaces) (horder : ∀ i, i < d.numFaces → order[i]! = φ (3 * i))
    (outE : SeqOut) (hE : maxPredictionDegreeOrder e facesE order v2dInit = .ok outE) :
    OkF (maxPredictionDegree d facesD v2dSize) (fun _ => True) := by
  have hf := h.fits
  rw [maxPredictionDegreeOrder_eq, bind_ok_iff] at hE
  obtain ⟨sE, hlE, hE⟩ := hE
  rw [maxPredictionDegree_eq]
  simp only [Std.Legacy.Range.forIn_eq_forIn_range']
  rw [← Array.forIn_toList] at hlE
  have hlen : (List.range' 0 [0:d.numFaces].size 1).length = order.toList.length := by
    simp [Std.Legacy.Range.size, hsize]
  refine OkF.bind (Q := fun _ => True) (OkF.mono (forIn_fwd_yield _ _
    (fun i (s t : StP8) => TRelPO d e φ ψ facesD facesE i s t ∧ s.2.2.1.v2d.size = v2dSize ∧
      s.2.2.2.1.size = d.numVertices)
    _ _ 0 hlen ?_ (mpdInit d (Array.replicate v2dSize 0)) _ sE ?_ hlE) (fun _ _ => trivial))
    (fun a _ => OkF.of_ok rfl trivial)
  · intro i h1 h2 s t r' hrel hfE
    have hi : i < d.numFaces := by simpa [Std.Legacy.Range.size] using h1
    have e1 : (List.range' 0 [0:d.numFaces].size 1)[i] = i := by simp
    have e2 : order.toList[i] = φ (3 * i) := by
      rw [← horder i hi]
      have : i < order.size := by omega
      simp [this]
    rw [e1]
    rw [e2] at hfE
    obtain ⟨fvD, vvD, outD, degD, s0D, s1D, s2D, bestD⟩ := s
    obtain ⟨fvE, vvE, outE, degE, s0E, s1E, s2E, bestE⟩ := t
    obtain ⟨⟨hq, h0, h1, h2⟩, hsz1, hsz2⟩ := hrel
    simp only [Nat.zero_add] at hq ⊢
    simp only at hq h0 h1 h2 hsz1 hsz2
    obtain ⟨v, _, hv2', _, hv4⟩ := h.vertex (3 * i) (by omega)
    unfold mpdOuter at hfE ⊢
    have nD : (d.numVertices == 0) = false := by simp; omega
    have nE : (e.numVertices == 0) = false := by simp; omega
    simp only [nD, nE, Bool.false_eq_true, if_false] at hfE ⊢
    exact mpdFrom_fwd h hfa _ _ i hi v2dSize hv2 hq h0 h1 h2 hsz1 hsz2 r' hfE
  · refine ⟨⟨?_, by simp [mpdInit], by simp [mpdInit], by simp [mpdInit]⟩, by simp [mpdInit], by simp [mpdInit]⟩
    have hci := TravCore.init (facesD := facesD) (facesE := facesE) h (Array.replicate v2dSize 0) v2dInit
    refine { core := hci, deg := ?_, s0 := by simp [mpdInit], s1 := by simp [mpdInit], s2 := by simp [mpdInit],
             s_lt := ?_, best := rfl, low := ⟨fun _ => by simp [mpdInit], fun _ => by simp [mpdInit]⟩, k := ?_,
             hedge := ?_ }
    · intro c v hc hv
      obtain ⟨v0, h1, h2, _, h4⟩ := h.vertex c hc
      rw [hv] at h1; cases h1
      simp [mpdInit, h2, h4]
    · intro x hx
      simp [mpdInit, InS] at hx
    · intro j hj
      omega
    · intro _
      refine ⟨?_, ?_⟩
      · intro c _ hm
        simp [mpdInit, Array.getElem?_replicate] at hm
      · intro x hx
        simp [mpdInit, InS] at hx

/-- **Success transfer, prediction degree traversal** (`traversalMethod = 1`): if the encoder's prediction degree
    traversal of the view `e` (from the start corners `φ (3 i)`) succeeds and the decoder's view `d` is embedded
    into `e`, then the decoder's traversal of `d` succeeds -/
theorem maxPredictionDegree_success_transfer (h : TVIso d e φ ψ) (hfa : 3 * d.numFaces ≤ facesD.size)
    (order v2dInit : Array Nat) (v2dSize : Nat) (hv2 : d.numVertices ≤ v2dSize)
    (hsize : order.size = d.numFaces) (horder : ∀ i, i < d.numFaces → order[i]! = φ (3 * i))
    (outE : SeqOut) (hE : maxPredictionDegreeOrder e facesE order v2dInit = .ok outE) :
    ∃ outD, maxPredictionDegree d facesD v2dSize = .ok outD := by
  rcases maxPredictionDegree_okF h hfa order v2dInit v2dSize hv2 hsize horder outE hE with ⟨a, ha, -⟩ | ⟨s, hs⟩
  · exact ⟨a, ha⟩
  · exact absurd hs (maxPredictionDegree_noFuel d facesD v2dSize s)

end

end Draco.EbEnc
