import Std.Tactic.Do
import DracoModel.EbDecoder
/-
  DracoProofs.EbTraversalFuel — fuel adequacy of the vertex traversals (C02): the `fuel` exits of
  `Eb.depthFirst` / `Eb.maxPredictionDegree` (DracoModel/EbTraversal.lean) are unreachable, for every corner table,
  consistent or not.  The C++ loops are `while (true)` / `while (!stack.empty())`; they terminate because every
  iteration marks a face or a vertex visited that was not (depth first), resp. marks a new face visited and pushes
  at most two corners (max prediction degree).  The model's bound `4·(faces + vertices) + 16` is never hit.
-/
open Std.Do
set_option mvcgen.warning false
set_option linter.unusedSimpArgs false

namespace Draco.Eb

/-- not the "fuel exhausted" outcome -/
def NoFuel (e : Err) : Prop := ∀ s, e ≠ .fuel s

/-- `prog` never ends with "fuel exhausted" -/
def NF {α : Type} (prog : R α) : Prop := ∀ e, prog = .error e → NoFuel e

theorem NF.pure {α : Type} (a : α) : NF (Pure.pure a : R α) := by intro e h; cases h
theorem NF.ok {α : Type} (a : α) : NF (Except.ok a : R α) := by intro e h; cases h
theorem NF.ub {α : Type} (s : String) : NF (throw (.ub s) : R α) := by
  intro e h; cases h; intro s' h'; cases h'
theorem NF.bind {α β : Type} {x : R α} {f : α → R β} (hx : NF x) (hf : ∀ a, NF (f a)) : NF (x >>= f) := by
  intro e h
  cases x with
  | error e' => cases h; exact hx _ rfl
  | ok a => exact hf a e h
theorem NF.ite {α : Type} {c : Prop} [Decidable c] {x y : R α} (hx : NF x) (hy : NF y) : NF (if c then x else y) := by
  split
  · exact hx
  · exact hy

theorem nf_rd (site : String) (a : Array Nat) (i : Nat) : NF (rd site a i) := by
  unfold rd; split
  · exact NF.pure _
  · exact NF.ub _
theorem nf_wr (site : String) (a : Array Nat) (i v : Nat) : NF (wr site a i v) := by
  unfold wr; split
  · exact NF.pure _
  · exact NF.ub _
theorem nf_rdB (site : String) (a : Array Bool) (i : Nat) : NF (rdB site a i) := by
  unfold rdB; split
  · exact NF.pure _
  · exact NF.ub _
theorem nf_wrB (site : String) (a : Array Bool) (i : Nat) (v : Bool) : NF (wrB site a i v) := by
  unfold wrB; split
  · exact NF.pure _
  · exact NF.ub _

theorem nf_topposite (t : TView) (c : Nat) : NF (t.opposite c) := by
  unfold TView.opposite
  refine NF.ite (NF.pure _) (NF.ite ?_ (nf_rd _ _ _))
  exact NF.bind (nf_rdB _ _ _) (fun b => NF.ite (NF.pure _) (nf_rd _ _ _))
theorem nf_tvertex (t : TView) (c : Nat) : NF (t.vertex c) := by
  unfold TView.vertex
  exact NF.ite (NF.pure _) (nf_rd _ _ _)
theorem nf_rightCorner (t : TView) (c : Nat) : NF (t.rightCorner c) := nf_topposite t _
theorem nf_leftCorner (t : TView) (c : Nat) : NF (t.leftCorner c) := nf_topposite t _
theorem nf_swingLeft (t : TView) (c : Nat) : NF (t.swingLeft c) := by
  unfold TView.swingLeft
  exact NF.bind (nf_topposite t _) (fun _ => NF.pure _)
theorem nf_isOnBoundary (t : TView) (v : Nat) : NF (t.isOnBoundary v) := by
  unfold TView.isOnBoundary
  refine NF.bind (nf_rd _ _ _) (fun c => NF.ite (NF.pure _) ?_)
  exact NF.bind (nf_swingLeft t c) (fun _ => NF.pure _)
theorem nf_faceVisited (fv : Array Bool) (f : Nat) : NF (faceVisited fv f) := by
  unfold faceVisited
  exact NF.ite (NF.pure _) (nf_rdB _ _ _)
theorem nf_onNewVertex (faces : Array Nat) (s : SeqOut) (v c : Nat) : NF (onNewVertex faces s v c) := by
  unfold onNewVertex
  exact NF.bind (nf_rd _ _ _) (fun _ => NF.bind (nf_wr _ _ _ _) (fun _ => NF.pure _))

/-- a triple from the success case and the absence of the fuel outcome -/
theorem R.spec_of {α : Type} (prog : R α) (Q : α → Prop) (h : ∀ a, prog = .ok a → Q a) (hn : NF prog) :
    ⦃⌜True⌝⦄ prog ⦃post⟨fun r => ⌜Q r⌝, fun e => ⌜NoFuel e⌝⟩⦄ := by
  cases hp : prog with
  | error e =>
    simp only [Triple, WP.wp]
    intro _
    exact hn e hp
  | ok a =>
    simp only [Triple, WP.wp]
    intro _
    exact h a hp

/-- … and back -/
theorem R.nf_of_spec {α : Type} {prog : R α} {Q : α → Prop}
    (h : ⦃⌜True⌝⦄ prog ⦃post⟨fun r => ⌜Q r⌝, fun e => ⌜NoFuel e⌝⟩⦄) : NF prog := by
  intro e hp
  subst hp
  simp only [Triple, WP.wp] at h
  exact h trivial

/-! ### counting visited flags -/

/-- number of set flags -/
def cnt (a : Array Bool) : Nat := a.count true

/-- 1 if the flag `i` exists and is not set -/
def pend (a : Array Bool) (i : Nat) : Nat := if h : i < a.size then (if a[i] = false then 1 else 0) else 0

@[simp] theorem cnt_replicate_false (n : Nat) : cnt (Array.replicate n false) = 0 := by
  unfold cnt; simp [Array.count_replicate]

theorem cnt_le (a : Array Bool) : cnt a ≤ a.size := Array.count_le_size

theorem pend_le (a : Array Bool) (i : Nat) : cnt a + pend a i ≤ a.size := by
  unfold pend
  split
  · rename_i h
    split
    · rename_i hf
      -- an unset flag: the count is below the size
      have : cnt (a.set i true h) = cnt a + 1 := by
        unfold cnt; rw [Array.count_set h]; simp [hf]
      have h2 := cnt_le (a.set i true h)
      simp only [Array.size_set] at h2
      omega
    · have := cnt_le a; omega
  · have := cnt_le a; omega

theorem pend_of_false {a : Array Bool} {i : Nat} (h : ∃ hi : i < a.size, a[i] = false) : pend a i = 1 := by
  obtain ⟨hi, hf⟩ := h
  unfold pend; simp [hi, hf]

theorem wrB_true_ok {site : String} {a : Array Bool} {i : Nat} {r : Array Bool} (h : wrB site a i true = .ok r) :
    r.size = a.size ∧ cnt r = cnt a + pend a i := by
  unfold wrB at h
  split at h
  · rename_i hi
    simp only [pure, Except.pure, Except.ok.injEq] at h
    subst h
    refine ⟨by simp, ?_⟩
    unfold cnt pend
    rw [Array.count_set hi]
    simp only [hi, dite_true, beq_self_eq_true, if_true]
    cases hv : a[i] with
    | false => simp
    | true =>
      have : 1 ≤ Array.count true a := by
        apply Array.count_pos_iff.mpr
        rw [← hv]; exact Array.getElem_mem hi
      simp; omega
  · cases h

theorem rdB_ok' {site : String} {a : Array Bool} {i : Nat} {r : Bool} (h : rdB site a i = .ok r) :
    ∃ hi : i < a.size, a[i] = r := by
  unfold rdB at h
  split at h
  · rename_i hi; refine ⟨hi, ?_⟩; simpa [pure, Except.pure] using h
  · cases h

/-! ### specifications of the leaves: success facts + no fuel outcome -/

@[spec] theorem raise_fspec {α : Type} (e : Err) (he : NoFuel e) :
    ⦃⌜True⌝⦄ (raise e : R α) ⦃post⟨fun _ => ⌜False⌝, fun e => ⌜NoFuel e⌝⟩⦄ := by
  simp only [Triple, WP.wp, raise]
  intro _
  exact he

theorem noFuel_fail : NoFuel .fail := by intro s h; cases h

@[spec] theorem wrB_fspec (site : String) (a : Array Bool) (i : Nat) :
    ⦃⌜True⌝⦄ wrB site a i true ⦃post⟨fun r => ⌜r.size = a.size ∧ cnt r = cnt a + pend a i⌝, fun e => ⌜NoFuel e⌝⟩⦄ :=
  R.spec_of _ _ (fun _ h => wrB_true_ok h) (nf_wrB _ _ _ _)
@[spec] theorem rdB_fspec (site : String) (a : Array Bool) (i : Nat) :
    ⦃⌜True⌝⦄ rdB site a i ⦃post⟨fun r => ⌜r = false → pend a i = 1⌝, fun e => ⌜NoFuel e⌝⟩⦄ :=
  R.spec_of _ _ (fun r h hr => by
    obtain ⟨hi, hv⟩ := rdB_ok' h
    exact pend_of_false ⟨hi, by rw [hv, hr]⟩) (nf_rdB _ _ _)
@[spec] theorem faceVisited_fspec (fv : Array Bool) (f : Nat) :
    ⦃⌜True⌝⦄ faceVisited fv f ⦃post⟨fun r => ⌜r = false → pend fv f = 1 ∧ f ≠ inv⌝, fun e => ⌜NoFuel e⌝⟩⦄ :=
  R.spec_of _ _ (fun r h hr => by
    unfold faceVisited at h
    split at h
    · simp only [pure, Except.pure, Except.ok.injEq] at h; rw [← h] at hr; cases hr
    · rename_i hne
      obtain ⟨hi, hv⟩ := rdB_ok' h
      exact ⟨pend_of_false ⟨hi, by rw [hv, hr]⟩, by simpa using hne⟩) (nf_faceVisited _ _)
@[spec] theorem vertex_fspec (t : TView) (c : Nat) :
    ⦃⌜True⌝⦄ t.vertex c ⦃post⟨fun _ => ⌜True⌝, fun e => ⌜NoFuel e⌝⟩⦄ := R.spec_of _ _ (fun _ _ => trivial) (nf_tvertex _ _)
@[spec] theorem rightCorner_fspec (t : TView) (c : Nat) :
    ⦃⌜True⌝⦄ t.rightCorner c ⦃post⟨fun _ => ⌜True⌝, fun e => ⌜NoFuel e⌝⟩⦄ := R.spec_of _ _ (fun _ _ => trivial) (nf_rightCorner _ _)
@[spec] theorem leftCorner_fspec (t : TView) (c : Nat) :
    ⦃⌜True⌝⦄ t.leftCorner c ⦃post⟨fun _ => ⌜True⌝, fun e => ⌜NoFuel e⌝⟩⦄ := R.spec_of _ _ (fun _ _ => trivial) (nf_leftCorner _ _)
@[spec] theorem isOnBoundary_fspec (t : TView) (v : Nat) :
    ⦃⌜True⌝⦄ t.isOnBoundary v ⦃post⟨fun _ => ⌜True⌝, fun e => ⌜NoFuel e⌝⟩⦄ := R.spec_of _ _ (fun _ _ => trivial) (nf_isOnBoundary _ _)
@[spec] theorem onNewVertex_fspec (faces : Array Nat) (s : SeqOut) (v c : Nat) :
    ⦃⌜True⌝⦄ onNewVertex faces s v c
    ⦃post⟨fun r => ⌜r.d2c.size = s.d2c.size + 1 ∧ r.pointIds.size = s.pointIds.size + 1⌝, fun e => ⌜NoFuel e⌝⟩⦄ :=
  R.spec_of _ _ (fun r h => by
    unfold onNewVertex at h
    simp only [bind, Except.bind] at h
    split at h
    · cases h
    · split at h
      · cases h
      · simp only [pure, Except.pure, Except.ok.injEq] at h
        rw [← h]; simp) (nf_onNewVertex _ _ _ _)

theorem fuel_contra (fv vv X Y : Array Bool) (F fuel : Nat) (hX : X.size = fv.size) (hY : Y.size = vv.size)
    (hfuel : fv.size + vv.size + 1 ≤ fuel) (hk : cnt fv + cnt vv + fuel + 1 ≤ cnt X + cnt Y + pend X F) : False := by
  have := pend_le X F
  have := cnt_le Y
  omega

set_option maxHeartbeats 1000000 in
theorem dfInner_fuel (t : TView) (faces : Array Nat) (fuel : Nat) (fv vv : Array Bool) (out : SeqOut)
    (stack : Array Nat) (cornerId faceId : Nat) (hfuel : fv.size + vv.size + 1 ≤ fuel) (hface : pend fv faceId = 1) :
    ⦃⌜True⌝⦄ dfInner t faces fuel fv vv out stack cornerId faceId
    ⦃post⟨fun r => ⌜r.1.size = fv.size ∧ r.2.1.size = vv.size ∧ cnt fv + 1 ≤ cnt r.1 ∧ r.2.2.2.size ≤ stack.size + 1 ∧
            r.2.2.1.d2c.size + cnt vv = out.d2c.size + cnt r.2.1 ∧
            r.2.2.1.pointIds.size + cnt vv = out.pointIds.size + cnt r.2.1⌝,
          fun e => ⌜NoFuel e⌝⟩⦄ := by
  mvcgen [dfInner]
  case inv1 => exact post⟨fun ⟨xs, b⟩ => ⌜b.1.size = fv.size ∧ b.2.1.size = vv.size ∧
      b.2.2.1.d2c.size + cnt vv = out.d2c.size + cnt b.2.1 ∧
      b.2.2.1.pointIds.size + cnt vv = out.pointIds.size + cnt b.2.1 ∧
      (xs.suffix ≠ [] → b.2.2.2.2.2.2 = false) ∧
      (b.2.2.2.2.2.2 = false → b.2.2.2.1 = stack ∧
        cnt fv + cnt vv + xs.prefix.length + 1 ≤ cnt b.1 + cnt b.2.1 + pend b.1 b.2.2.2.2.2.1 ∧
        cnt fv + 1 ≤ cnt b.1 + pend b.1 b.2.2.2.2.2.1) ∧
      (b.2.2.2.2.2.2 = true → cnt fv + 1 ≤ cnt b.1 ∧ b.2.2.2.1.size ≤ stack.size + 1)⌝, fun e => ⌜NoFuel e⌝⟩
  all_goals (try (simp_all (config := { zetaDelta := true }) [noFuel_fail]; done))
  all_goals (try exact noFuel_fail)
  all_goals (try (simp_all (config := { zetaDelta := true }); grind))
  all_goals (try (simp_all (config := { zetaDelta := true }); done))
  all_goals (try (simp_all (config := { zetaDelta := true }); obtain ⟨hX, hY, _, _, _, hk, _⟩ := ‹_ ∧ _ ∧ _ ∧ _ ∧ _ ∧ _ ∧ _›; exact (fuel_contra _ _ _ _ _ _ hX hY hfuel hk).elim))

theorem stack_contra (fv X : Array Bool) (n m fuel : Nat) (hX : X.size = fv.size)
    (hfuel : 2 * fv.size + n + 1 ≤ fuel) (hk : m + 2 * cnt fv + fuel ≤ n + 2 * cnt X) : False := by
  have := cnt_le X
  omega

set_option maxHeartbeats 1000000 in
attribute [local spec] dfInner_fuel in
theorem dfStack_fuel (t : TView) (faces : Array Nat) (fuel : Nat) (fv vv : Array Bool) (out : SeqOut)
    (stack : Array Nat) (hfuel : fv.size + vv.size + 1 ≤ fuel) (hfuel2 : 2 * fv.size + stack.size + 1 ≤ fuel) :
    ⦃⌜True⌝⦄ dfStack t faces fuel fv vv out stack
    ⦃post⟨fun r => ⌜r.1.size = fv.size ∧ r.2.1.size = vv.size ∧
            r.2.2.d2c.size + cnt vv = out.d2c.size + cnt r.2.1 ∧
            r.2.2.pointIds.size + cnt vv = out.pointIds.size + cnt r.2.1⌝, fun e => ⌜NoFuel e⌝⟩⦄ := by
  mvcgen [dfStack]
  case inv1 => exact post⟨fun ⟨xs, b⟩ => ⌜b.1.size = fv.size ∧ b.2.1.size = vv.size ∧
      b.2.2.1.d2c.size + cnt vv = out.d2c.size + cnt b.2.1 ∧
      b.2.2.1.pointIds.size + cnt vv = out.pointIds.size + cnt b.2.1 ∧
      (xs.suffix ≠ [] → b.2.2.2.2 = false) ∧
      (b.2.2.2.2 = false → b.2.2.2.1.size + 2 * cnt fv + xs.prefix.length ≤ stack.size + 2 * cnt b.1)⌝,
      fun e => ⌜NoFuel e⌝⟩
  all_goals (try exact noFuel_fail)
  all_goals (try (simp_all (config := { zetaDelta := true }); done))
  all_goals (try (simp_all (config := { zetaDelta := true }); grind))
  all_goals (try (simp_all (config := { zetaDelta := true }); obtain ⟨hX, _, _, _, hk⟩ := ‹_ ∧ _ ∧ _ ∧ _ ∧ _›; exact (stack_contra _ _ _ _ _ hX hfuel2 hk).elim))

theorem nf_visitVertex (faces : Array Nat) (vv : Array Bool) (out : SeqOut) (v c : Nat) :
    NF (visitVertex faces vv out v c) := by
  unfold visitVertex
  refine NF.bind (nf_rdB _ _ _) (fun b => NF.ite ?_ (NF.pure _))
  exact NF.bind (nf_wrB _ _ _ _) (fun _ => NF.bind (nf_onNewVertex _ _ _ _) (fun _ => NF.pure _))

theorem visitVertex_cnt {faces : Array Nat} {vv : Array Bool} {out : SeqOut} {v c : Nat} {r : Array Bool × SeqOut}
    (h : visitVertex faces vv out v c = .ok r) :
    r.1.size = vv.size ∧ r.2.d2c.size + cnt vv = out.d2c.size + cnt r.1 ∧
      r.2.pointIds.size + cnt vv = out.pointIds.size + cnt r.1 := by
  unfold visitVertex at h
  simp only [bind, Except.bind] at h
  split at h
  · cases h
  · rename_i b hb
    split at h
    · rename_i hnb
      have hbf : b = false := by simpa using hnb
      split at h
      · cases h
      · rename_i vv' hvv
        split at h
        · cases h
        · rename_i out' hout
          simp only [pure, Except.pure, Except.ok.injEq] at h
          rw [← h]
          obtain ⟨h1, h2⟩ := wrB_true_ok hvv
          obtain ⟨hi, hv⟩ := rdB_ok' hb
          have hp : pend vv v = 1 := pend_of_false ⟨hi, by rw [hv, hbf]⟩
          have ho : out'.d2c.size = out.d2c.size + 1 ∧ out'.pointIds.size = out.pointIds.size + 1 := by
            unfold onNewVertex at hout
            simp only [bind, Except.bind] at hout
            split at hout
            · cases hout
            · split at hout
              · cases hout
              · simp only [pure, Except.pure, Except.ok.injEq] at hout
                rw [← hout]; simp
          refine ⟨h1, ?_, ?_⟩ <;> simp only [] <;> omega
    · simp only [pure, Except.pure, Except.ok.injEq] at h
      rw [← h]
      exact ⟨rfl, rfl, rfl⟩

@[spec] theorem visitVertex_fspec (faces : Array Nat) (vv : Array Bool) (out : SeqOut) (v c : Nat) :
    ⦃⌜True⌝⦄ visitVertex faces vv out v c
    ⦃post⟨fun r => ⌜r.1.size = vv.size ∧ r.2.d2c.size + cnt vv = out.d2c.size + cnt r.1 ∧
        r.2.pointIds.size + cnt vv = out.pointIds.size + cnt r.1⌝, fun e => ⌜NoFuel e⌝⟩⦄ :=
  R.spec_of _ _ (fun _ h => visitVertex_cnt h) (nf_visitVertex _ _ _ _ _)

set_option maxHeartbeats 1000000 in
attribute [local spec] dfStack_fuel in
theorem depthFirst_fuel (t : TView) (faces : Array Nat) (v2dSize : Nat) :
    ⦃⌜True⌝⦄ depthFirst t faces v2dSize
    ⦃post⟨fun r => ⌜r.pointIds.size ≤ t.numVertices ∧ r.d2c.size = r.pointIds.size⌝, fun e => ⌜NoFuel e⌝⟩⦄ := by
  mvcgen [depthFirst]
  case inv1 => exact post⟨fun ⟨xs, b⟩ => ⌜b.1.size = t.numFaces ∧ b.2.1.size = t.numVertices ∧
      b.2.2.d2c.size = cnt b.2.1 ∧ b.2.2.pointIds.size = cnt b.2.1⌝, fun e => ⌜NoFuel e⌝⟩
  all_goals (try exact noFuel_fail)
  all_goals (try (simp_all (config := { zetaDelta := true }); done))
  all_goals (try (simp_all (config := { zetaDelta := true }); omega))
  all_goals (try (simp_all (config := { zetaDelta := true }); grind [cnt_le]))

/-- **the depth-first traverser never runs out of fuel** (any corner table, any face array) -/
theorem depthFirst_noFuel (t : TView) (faces : Array Nat) (v2dSize : Nat) (s : String) :
    depthFirst t faces v2dSize ≠ .error (.fuel s) :=
  fun h => R.nf_of_spec (depthFirst_fuel t faces v2dSize) _ h s rfl

/-! ### the max-prediction-degree traverser -/

/-- corners on the three priority stacks -/
def tot (s : MpStacks) : Nat := s.st0.size + s.st1.size + s.st2.size

@[simp] theorem tot_add (s : MpStacks) (c p : Nat) : tot (s.add c p) = tot s + 1 := by
  unfold MpStacks.add tot
  dsimp only
  split <;> split <;> (try split) <;> simp <;> omega

theorem tot_pop_le (s : MpStacks) : tot s.pop.2 ≤ tot s := by
  unfold MpStacks.pop tot
  split
  · simp only [Array.size_pop]; omega
  · split
    · simp only [Array.size_pop]; omega
    · split
      · simp only [Array.size_pop]; omega
      · exact Nat.le_refl _

theorem size_pos_of_not_isEmpty {a : Array Nat} (h : (!a.isEmpty) = true) : 1 ≤ a.size := by
  cases hs : a.size with
  | zero => simp [Array.size_eq_zero_iff.mp hs] at h
  | succ n => omega

theorem tot_pop (s : MpStacks) (h : s.pop.1 ≠ inv) : tot s.pop.2 + 1 = tot s := by
  unfold MpStacks.pop at h ⊢
  by_cases hc0 : (decide (s.best ≤ 0) && !s.st0.isEmpty) = true
  · rw [if_pos hc0]
    have hne : (!s.st0.isEmpty) = true := by simp only [Bool.and_eq_true] at hc0; exact hc0.2
    have := size_pos_of_not_isEmpty hne
    simp only [tot, Array.size_pop]; omega
  · rw [if_neg hc0] at h ⊢
    by_cases hc1 : (decide (s.best ≤ 1) && !s.st1.isEmpty) = true
    · rw [if_pos hc1]
      have hne : (!s.st1.isEmpty) = true := by simp only [Bool.and_eq_true] at hc1; exact hc1.2
      have := size_pos_of_not_isEmpty hne
      simp only [tot, Array.size_pop]; omega
    · rw [if_neg hc1] at h ⊢
      by_cases hc2 : (!s.st2.isEmpty) = true
      · rw [if_pos hc2]
        have := size_pos_of_not_isEmpty hc2
        simp only [tot, Array.size_pop]; omega
      · rw [if_neg hc2] at h
        exact (h rfl).elim

theorem pend_faceOfCorner {a : Array Bool} {c : Nat} (h : pend a (faceOfCorner c) = 1) (hne : faceOfCorner c ≠ inv) :
    pend a (c / 3) = 1 := by
  unfold faceOfCorner at h hne
  by_cases hc : (c == inv) = true
  · rw [if_pos hc] at hne; exact (hne rfl).elim
  · rw [if_neg hc] at h; exact h

theorem nf_mpPriority (t : TView) (vv : Array Bool) (degree : Array Nat) (corner : Nat) :
    NF (mpPriority t vv degree corner) := by
  unfold mpPriority
  refine NF.bind (nf_tvertex _ _) (fun v => NF.bind (nf_rdB _ _ _) (fun b => NF.ite ?_ (NF.pure _)))
  exact NF.bind (nf_rd _ _ _) (fun _ => NF.bind (nf_wr _ _ _ _) (fun _ => NF.pure _))

@[spec] theorem mpPriority_fspec (t : TView) (vv : Array Bool) (degree : Array Nat) (corner : Nat) :
    ⦃⌜True⌝⦄ mpPriority t vv degree corner ⦃post⟨fun _ => ⌜True⌝, fun e => ⌜NoFuel e⌝⟩⦄ :=
  R.spec_of _ _ (fun _ _ => trivial) (nf_mpPriority _ _ _ _)

theorem inner_contra (fv X : Array Bool) (fuel : Nat) (hX : X.size = fv.size) (hfuel : fv.size + 1 ≤ fuel)
    (hk : cnt fv + fuel ≤ cnt X) : False := by
  have := cnt_le X
  omega

set_option maxHeartbeats 2000000 in
theorem mpInner_fuel (t : TView) (faces : Array Nat) (fuel : Nat) (fv vv : Array Bool) (out : SeqOut)
    (degree : Array Nat) (stacks : MpStacks) (cornerId : Nat) (hfuel : fv.size + 1 ≤ fuel)
    (hface : pend fv (cornerId / 3) = 1) :
    ⦃⌜True⌝⦄ mpInner t faces fuel fv vv out degree stacks cornerId
    ⦃post⟨fun r => ⌜r.1.size = fv.size ∧ r.2.1.size = vv.size ∧ cnt fv + 1 ≤ cnt r.1 ∧
            tot r.2.2.2.2 + 2 * cnt fv ≤ tot stacks + 2 * cnt r.1 ∧
            r.2.2.1.d2c.size + cnt vv = out.d2c.size + cnt r.2.1 ∧
            r.2.2.1.pointIds.size + cnt vv = out.pointIds.size + cnt r.2.1⌝,
          fun e => ⌜NoFuel e⌝⟩⦄ := by
  mvcgen [mpInner]
  case inv1 => exact post⟨fun ⟨xs, b⟩ => ⌜b.1.size = fv.size ∧ b.2.1.size = vv.size ∧
      b.2.2.1.d2c.size + cnt vv = out.d2c.size + cnt b.2.1 ∧
      b.2.2.1.pointIds.size + cnt vv = out.pointIds.size + cnt b.2.1 ∧
      (xs.suffix ≠ [] → b.2.2.2.2.2.2 = false) ∧
      (b.2.2.2.2.2.2 = false → pend b.1 (b.2.2.2.2.2.1 / 3) = 1 ∧ cnt fv + xs.prefix.length ≤ cnt b.1 ∧
        tot b.2.2.2.2.1 + 2 * cnt fv ≤ tot stacks + 2 * cnt b.1) ∧
      (b.2.2.2.2.2.2 = true → cnt fv + 1 ≤ cnt b.1 ∧ tot b.2.2.2.2.1 + 2 * cnt fv ≤ tot stacks + 2 * cnt b.1)⌝,
      fun e => ⌜NoFuel e⌝⟩
  all_goals (try exact noFuel_fail)
  all_goals (try (simp_all (config := { zetaDelta := true }); done))
  all_goals (try (simp_all (config := { zetaDelta := true }); grind [pend_faceOfCorner]))
  all_goals (try (simp (config := { zetaDelta := true }) only [Bool.not_eq_true', Bool.not_eq_eq_eq_not, Bool.not_true, List.length_append, List.length_cons, List.length_nil, ne_eq, reduceCtorEq, not_false_eq_true, forall_const, tot_add] at *; grind [pend_faceOfCorner]))
  all_goals (try (simp_all (config := { zetaDelta := true }); obtain ⟨hX, _, _, _, _, hk, _⟩ := ‹_ ∧ _ ∧ _ ∧ _ ∧ _ ∧ _ ∧ _›; exact (inner_contra _ _ _ hX hfuel hk).elim))

theorem mpstack_contra (fv X : Array Bool) (n m fuel : Nat) (hX : X.size = fv.size)
    (hfuel : n + 2 * fv.size + 1 ≤ fuel + 2 * cnt fv) (hk : m + 2 * cnt fv + fuel ≤ n + 2 * cnt X) : False := by
  have := cnt_le X
  omega

set_option maxHeartbeats 2000000 in
attribute [local spec] mpInner_fuel in
theorem mpStack_fuel (t : TView) (faces : Array Nat) (fuel : Nat) (fv vv : Array Bool) (out : SeqOut)
    (degree : Array Nat) (stacks : MpStacks) (hfuel : fv.size + 1 ≤ fuel)
    (hfuel2 : tot stacks + 2 * fv.size + 1 ≤ fuel + 2 * cnt fv) :
    ⦃⌜True⌝⦄ mpStack t faces fuel fv vv out degree stacks
    ⦃post⟨fun r => ⌜r.1.size = fv.size ∧ r.2.1.size = vv.size ∧
            tot r.2.2.2.2 + 2 * cnt fv ≤ tot stacks + 2 * cnt r.1 ∧
            r.2.2.1.d2c.size + cnt vv = out.d2c.size + cnt r.2.1 ∧
            r.2.2.1.pointIds.size + cnt vv = out.pointIds.size + cnt r.2.1⌝,
          fun e => ⌜NoFuel e⌝⟩⦄ := by
  mvcgen [mpStack]
  case inv1 => exact post⟨fun ⟨xs, b⟩ => ⌜b.1.size = fv.size ∧ b.2.1.size = vv.size ∧
      b.2.2.1.d2c.size + cnt vv = out.d2c.size + cnt b.2.1 ∧
      b.2.2.1.pointIds.size + cnt vv = out.pointIds.size + cnt b.2.1 ∧
      (xs.suffix ≠ [] → b.2.2.2.2.2 = false) ∧
      (b.2.2.2.2.2 = false → tot b.2.2.2.2.1 + 2 * cnt fv + xs.prefix.length ≤ tot stacks + 2 * cnt b.1) ∧
      (b.2.2.2.2.2 = true → tot b.2.2.2.2.1 + 2 * cnt fv ≤ tot stacks + 2 * cnt b.1)⌝,
      fun e => ⌜NoFuel e⌝⟩
  all_goals (try exact noFuel_fail)
  all_goals (try (simp_all (config := { zetaDelta := true }); done))
  all_goals (try (simp_all (config := { zetaDelta := true }); grind [tot_pop, tot_pop_le, pend_faceOfCorner]))
  all_goals (try (simp (config := { zetaDelta := true }) only [Bool.not_eq_true', Bool.not_eq_eq_eq_not, Bool.not_true, List.length_append, List.length_cons, List.length_nil, ne_eq, reduceCtorEq, not_false_eq_true, forall_const, tot_add] at *; grind [tot_pop, tot_pop_le, pend_faceOfCorner]))
  all_goals (try (simp_all (config := { zetaDelta := true }); obtain ⟨hX, _, _, _, hk⟩ := ‹_ ∧ _ ∧ _ ∧ _ ∧ _›; exact (mpstack_contra _ _ _ _ _ hX hfuel2 hk).elim))

set_option maxHeartbeats 2000000 in
attribute [local spec] mpStack_fuel in
theorem maxPredictionDegree_fuel (t : TView) (faces : Array Nat) (v2dSize : Nat) :
    ⦃⌜True⌝⦄ maxPredictionDegree t faces v2dSize
    ⦃post⟨fun r => ⌜r.pointIds.size ≤ t.numVertices ∧ r.d2c.size = r.pointIds.size⌝, fun e => ⌜NoFuel e⌝⟩⦄ := by
  mvcgen [maxPredictionDegree]
  case inv1 => exact post⟨fun ⟨xs, b⟩ => ⌜b.1.size = t.numFaces ∧ b.2.1.size = t.numVertices ∧
      b.2.2.1.d2c.size = cnt b.2.1 ∧ b.2.2.1.pointIds.size = cnt b.2.1 ∧
      (tot b.2.2.2.2 ≤ xs.prefix.length + 2 * cnt b.1) ∧ (xs.prefix.length ≤ t.numFaces)⌝, fun e => ⌜NoFuel e⌝⟩
  all_goals (try exact noFuel_fail)
  all_goals (try (simp_all (config := { zetaDelta := true }); done))
  all_goals (try (simp_all (config := { zetaDelta := true }) [tot]; omega))
  all_goals (try (have hl := congrArg List.length ‹[:_].toList = _›; simp at hl; simp_all (config := { zetaDelta := true }) [tot]; omega))
  all_goals (try (have hl := congrArg List.length ‹[:_].toList = _›; simp at hl; simp_all (config := { zetaDelta := true }) [tot]; grind))
  all_goals (try (simp_all (config := { zetaDelta := true }) [tot]; done))
  all_goals (try (have hl := congrArg List.length ‹[:_].toList = _›; simp at hl; simp_all (config := { zetaDelta := true }) [tot]; grind [cnt_le]))
  all_goals (try (simp_all (config := { zetaDelta := true }) [tot]; grind [cnt_le]))

/-- **the max-prediction-degree traverser never runs out of fuel** (any corner table, any face array) -/
theorem maxPredictionDegree_noFuel (t : TView) (faces : Array Nat) (v2dSize : Nat) (s : String) :
    maxPredictionDegree t faces v2dSize ≠ .error (.fuel s) :=
  fun h => R.nf_of_spec (maxPredictionDegree_fuel t faces v2dSize) _ h s rfl

/-! ### length of the traversal sequence -/

theorem R.ok_of_spec {α : Type} {prog : R α} {Q : α → Prop}
    (h : ⦃⌜True⌝⦄ prog ⦃post⟨fun r => ⌜Q r⌝, fun e => ⌜NoFuel e⌝⟩⦄) (a : α) (hp : prog = .ok a) : Q a := by
  subst hp
  simp only [Triple, WP.wp] at h
  exact h trivial

/-- a vertex is entered into the sequence when it is marked visited and only then: the sequence is never longer
    than the vertex table of the traversed corner table (`num_vertices()` values are reserved for it) -/
theorem depthFirst_size {t : TView} {faces : Array Nat} {v2dSize : Nat} {r : SeqOut}
    (h : depthFirst t faces v2dSize = .ok r) : r.pointIds.size ≤ t.numVertices ∧ r.d2c.size = r.pointIds.size :=
  R.ok_of_spec (depthFirst_fuel t faces v2dSize) r h

theorem maxPredictionDegree_size {t : TView} {faces : Array Nat} {v2dSize : Nat} {r : SeqOut}
    (h : maxPredictionDegree t faces v2dSize = .ok r) :
    r.pointIds.size ≤ t.numVertices ∧ r.d2c.size = r.pointIds.size :=
  R.ok_of_spec (maxPredictionDegree_fuel t faces v2dSize) r h

end Draco.Eb
