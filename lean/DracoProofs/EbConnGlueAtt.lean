import DracoProofs.EbConnGlue
import DracoProofs.EbCountsRun2
/-
  GLUE for runs WITH attribute data (the seam bits), extending DracoProofs/EbConnGlue.lean (standard traversal, no split
  events).

  (A1) `seamsStart`, `startTraversal_gen_att`: `Start` of the traversal decoder with one seam buffer per attribute data
       (`seamBytes ch bl`): the seam decoders `tr.seams[i]` deliver (`Yields`) the i-th encoded bit list, for every
       continuation.
       `encodeSeamBits_encs`: the seam ENCODERS of `encodeSeamBits` hold exactly the recorded seam bits
       (`encs[i] = encodeBits seamBits[i].toList`), so the bytes the encoder appends are `seamBytes ch seamBits`
       (`seamBytes_of_encs`).
  (A4) `seamLink_of_link`: `CTIso` + the encoder's `encodeSeamBits` result + seam decoders delivering the recorded bits +
       `NoSelfOpp` + `CTOppInvol` + symmetry / boundary of the encoder's flags ⇒ `decodeSeams` SUCCEEDS and `SeamLink`
       holds for the tables `buildAttConn` makes of the decoded seam corners (from `Seams.seam_flags_correspond`).
  (A2) `runs_decodeConnectivity_of_loop_att`: (G1) with attribute data.
  (A3) `encodeConnectivity_stages_att` (generic stage theorem with `acv`), `encode_bytes_splitfree_att`.
  OPEN: `hseams` of (A2) asks for ONE result `(seams, tg)` of `decodeSeams` for every array of decoders delivering the
  bits; (A4) / `Seams.seams_list` determine `seams` but say nothing about the TAG mask `tg` (the decoders depend on the
  trailing input).  Missing lemma: the tag mask of `decodeSeams` depends on the decoders only through the delivered bits.
-/
namespace Draco.EbEnc.ConnGlueAtt
open Draco Draco.SeqEnc DecM
open Draco.Eb hiding iabs nextC prevC
open Draco.EbEnc.ConnExample (RunsX)
open Draco.EbEnc.ConnTri Draco.EbEnc.ConnGlue
open Draco.EbEnc.EncCounts Draco.EbEnc.Seams Draco.EbEnc.CountsIso

/-! ### (A1) the seam decoders -/

/-- the seam buffers: one rANS bit buffer per attribute data -/
def seamBytes (ch : ConnChoices) (bl : List (List Bool)) : Bytes := bl.flatMap fun b => finishBits ch (encodeBits b)

/-- `DecodeAttributeSeams`: one `StartDecoding` per attribute data; the decoders deliver the encoded bit lists -/
theorem seamsStart (ch : ConnChoices) (g : Nat → String) (extra : Bytes) :
    ∀ (bl : List (List Bool)), (∀ b ∈ bl, b.length + 3 < 2 ^ 32) →
    ∃ ds : List RAnsBitDec, RunsX (DecM.replicateM' bl.length (do
        let r ← DecM.remaining
        DecM.tag (g r)
        DecM.lift (ransBitStart false))) 514 (seamBytes ch bl) extra ds 514 ∧
      ds.length = bl.length ∧ ∀ i (hi : i < ds.length), Yields RAnsBitDec.nextBit ds[i] bl[i]! := by
  intro bl
  induction bl with
  | nil => intro _; exact ⟨[], RunsX.pure _ _ _, rfl, fun i hi => absurd hi (Nat.not_lt_zero _)⟩
  | cons b bl ih =>
    intro hlen
    obtain ⟨ds, hr, hl, hy⟩ := ih (fun x hx => hlen x (List.mem_cons_of_mem _ hx))
    obtain ⟨d, hd, hyd⟩ := bit_buffer_roundtrip ch b (hlen b List.mem_cons_self) (seamBytes ch bl ++ extra)
    refine ⟨d :: ds, ?_, by simp [hl], ?_⟩
    · show RunsX (DecM.mapM' _ (() :: List.replicate bl.length ())) 514 _ extra _ 514
      simp only [DecM.mapM', seamBytes, List.flatMap_cons]
      refine RunsX.bind (a := d) (v1 := 514) ?_ ?_
      · refine RunsX.bind0 (RunsX.remaining _ _) ?_
        refine RunsX.bind0 (RunsX.ofRuns (Runs.tag _ 514) _) ?_
        exact RunsX.lift hd 514
      · refine RunsX.bind' (b2 := []) hr (List.append_nil _).symm ?_
        exact RunsX.pure _ _ _
    · intro i hi
      cases i with
      | zero => simpa using hyd
      | succ i =>
        have hi' : i < ds.length := by simpa using hi
        have := hy i hi'
        simpa using this

/-- the traversal state after `Start` with seam decoders -/
def travA (d : RAnsBitDec) (seams : Array RAnsBitDec) (full : Bytes) : Trav :=
  { kind := 0, legacy := false, sym := BitReader.start full, startFace := d, startFaceBits := BitReader.start [],
    seams := seams }

/-- **(A1) `startTraversal_gen_att`**: `Start` of the standard traversal decoder on a symbol buffer `body`, a start-face
    buffer `sf` and one seam buffer per attribute data (bit lists `bl`): the seam decoders deliver the encoded bit lists,
    for every continuation `extra` -/
theorem startTraversal_gen_att (ch : ConnChoices) (body sf : Bytes) (bl : List (List Bool))
    (hbl : ∀ b ∈ bl, b.length + 3 < 2 ^ 32) (nv nf : Nat) (extra : Bytes) (d : RAnsBitDec)
    (hlen : body.length < 2 ^ 64)
    (hd : ransBitStart false (sf ++ (seamBytes ch bl ++ extra)) = some (d, seamBytes ch bl ++ extra)) :
    ∃ ds : List RAnsBitDec,
      RunsX (startTraversal 514 0 bl.length nv nf) 514 (encVarint body.length ++ (body ++ (sf ++ seamBytes ch bl))) extra
        (travA d ds.toArray (body ++ (sf ++ seamBytes ch bl) ++ extra)) 514 ∧
      ds.length = bl.length ∧ ∀ i (hi : i < ds.length), Yields RAnsBitDec.nextBit ds[i] bl[i]! := by
  obtain ⟨ds, hr, hl, hy⟩ := seamsStart ch (fun r => toString "at:rans:" ++ toString r) extra bl hbl
  refine ⟨ds, ?_, hl, hy⟩
  unfold startTraversal
  simp only [exLeg, ↓reduceIte, decide_false]
  refine RunsX.bind0 (RunsX.remaining _ _) ?_
  refine RunsX.bind0 (RunsX.ofRuns (Runs.tag _ 514) _) ?_
  rw [if_pos (by decide)]
  refine RunsX.bind (RunsX.ofRuns (Runs.lift (a := body.length) (fun e => by
    simp only [readBitRegionSize, Bool.false_eq_true, if_false]
    exact decVarint_enc (w := 64) (by simp) _ hlen e) 514) _) ?_
  refine RunsX.bind0 (RunsX.peekRest _ _) ?_
  refine RunsX.bind0 (RunsX.ofRuns (Runs.require (by simp) 514) _) ?_
  refine RunsX.bind (RunsX.ofRuns (Runs.lift (a := ()) (fun e => by simp [skipBytes]) 514) _) ?_
  refine RunsX.bind0 (RunsX.remaining _ _) ?_
  refine RunsX.bind (a := d) (RunsX.lift hd 514) ?_
  refine RunsX.bind0 (RunsX.remaining _ _) ?_
  refine RunsX.bind0 (RunsX.ofRuns (Runs.tag _ 514) _) ?_
  refine RunsX.bind' (b2 := []) hr (List.append_nil _).symm ?_
  rw [if_pos (by decide)]
  exact RunsX.pure _ _ _


instance : Inhabited RAnsBitEnc := ⟨RAnsBitEnc.start⟩

/-- the seam encoders hold exactly the recorded seam bits -/
def EncI (m : Nat) (s : ESt) : Prop := s.1.size = m ∧ s.2.size = m ∧ ∀ i, i < m → s.1[i]! = encodeBits s.2[i]!.toList

theorem eAtt_encI (m : Nat) (edgeSeams : Array (Array Bool)) (c i : Nat) (s : ESt) (r : ForInStep ESt) (hI : EncI m s)
    (h : eAtt edgeSeams c i s = .ok r) : EncI m (stepVal r) := by
  unfold eAtt at h
  obtain ⟨b, _, h⟩ := (bind_ok_iff _ _ _).mp h
  rw [pure_ok h]
  obtain ⟨h0, h1, h2⟩ := hI
  refine ⟨by simp [stepVal, h0], by simp [stepVal, h1], fun j hj => ?_⟩
  simp only [stepVal]
  rw [modify_get! _ _ _ _ (h0 ▸ hj), modify_get! _ _ _ _ (h1 ▸ hj)]
  by_cases e : j = i
  · simp only [e, if_true]
    rw [← e, h2 j hj, ConnGlue.encodeBits_push]
  · simp only [e, if_false]; exact h2 j hj

theorem eCorner_encI (m : Nat) (t : CT) (edgeSeams : Array (Array Bool)) (vis : Array Bool) (c : Nat) (s : ESt)
    (r : ForInStep ESt) (hI : EncI m s) (h : eCorner t edgeSeams vis c s = .ok r) : EncI m (stepVal r) := by
  unfold eCorner at h
  obtain ⟨o, _, h⟩ := (bind_ok_iff _ _ _).mp h
  rcases ite_ok h with ⟨_, h⟩ | ⟨_, h⟩
  · rw [pure_ok h]; exact hI
  obtain ⟨b, _, h⟩ := (bind_ok_iff _ _ _).mp h
  rcases ite_ok h with ⟨_, h⟩ | ⟨_, h⟩
  · rw [pure_ok h]; exact hI
  obtain ⟨s1, hl, h⟩ := (bind_ok_iff _ _ _).mp h
  rw [pure_ok h]
  exact range_forIn_inv _ _ (EncI m) (fun a s r hI hr => eAtt_encI m edgeSeams c a s r hI hr) s s1 hI hl

theorem eFace_encI (m : Nat) (t : CT) (edgeSeams : Array (Array Bool)) (ci : Nat)
    (s : Array RAnsBitEnc × Array (Array Bool) × Array Bool)
    (r : ForInStep (Array RAnsBitEnc × Array (Array Bool) × Array Bool)) (hI : EncI m (s.1, s.2.1))
    (h : eFace t edgeSeams ci s = .ok r) : EncI m ((stepVal r).1, (stepVal r).2.1) := by
  unfold eFace at h
  obtain ⟨vis, _, h⟩ := (bind_ok_iff _ _ _).mp h
  obtain ⟨s1, hl, h⟩ := (bind_ok_iff _ _ _).mp h
  rw [pure_ok h]
  exact forIn_inv' _ _ (EncI m) (fun a s r hI hr => eCorner_encI m t edgeSeams vis a s r hI hr) _ s1 hI hl

theorem encI_init (m : Nat) : EncI m (Array.replicate m RAnsBitEnc.start, Array.replicate m #[]) :=
  ⟨by simp, by simp, fun i hi => by simp [hi]; rfl⟩

/-- **the seam encoders of `encodeSeamBits` hold the recorded seam bits** -/
theorem encodeSeamBits_encs (t : CT) (p : Array Nat) (edgeSeams : Array (Array Bool)) (encs : Array RAnsBitEnc)
    (seamBits : Array (Array Bool)) (he : encodeSeamBits t p edgeSeams = .ok (encs, seamBits)) :
    encs.size = edgeSeams.size ∧ seamBits.size = edgeSeams.size ∧
      ∀ i, i < edgeSeams.size → encs[i]! = encodeBits seamBits[i]!.toList := by
  rw [encodeSeamBits_eq] at he
  by_cases hem : (!edgeSeams.isEmpty) = true
  · rw [if_pos hem, bind_ok_iff] at he
    obtain ⟨s, hl, he⟩ := he
    simp only [pure, Except.pure] at he
    cases he
    rw [array_forIn_range] at hl
    exact forIn_inv' _ _ (fun s => EncI edgeSeams.size (s.1, s.2.1))
      (fun a s r hI hr => eFace_encI _ t edgeSeams _ s r hI hr) _ s (encI_init _) hl
  · rw [if_neg hem] at he
    simp only [pure, Except.pure] at he
    cases he
    exact encI_init _


theorem list_mapM_idx {α β : Type} (f : α → R β) : ∀ (l : List α) (r : List β), l.mapM f = .ok r →
    r.length = l.length ∧ ∀ i (h1 : i < l.length) (h2 : i < r.length), f l[i] = .ok r[i] := by
  intro l
  induction l with
  | nil =>
    intro r h
    simp [List.mapM_nil, pure, Except.pure] at h
    subst h
    exact ⟨rfl, fun i h1 => absurd h1 (Nat.not_lt_zero _)⟩
  | cons a as ih =>
    intro r h
    rw [List.mapM_cons] at h
    simp only [bind, Except.bind, pure, Except.pure] at h
    split at h
    · cases h
    · rename_i b hb
      split at h
      · cases h
      · rename_i bs hbs
        cases h
        obtain ⟨e1, e2⟩ := ih bs hbs
        refine ⟨by simp [e1], fun i h1 h2 => ?_⟩
        cases i with
        | zero => exact hb
        | succ i => exact e2 i (by simpa using h1) (by simpa using h2)

theorem array_mapM_idx {α β : Type} (f : α → R β) (a : Array α) (r : Array β) (h : a.mapM f = .ok r) :
    r.size = a.size ∧ ∀ i (h1 : i < a.size) (h2 : i < r.size), f a[i] = .ok r[i] := by
  rw [Array.mapM_eq_mapM_toList] at h
  cases hl : List.mapM f a.toList with
  | error e => rw [hl] at h; cases h
  | ok l =>
    rw [hl] at h
    simp only [Functor.map, Except.map, Except.ok.injEq] at h
    subst h
    obtain ⟨e1, e2⟩ := list_mapM_idx f a.toList l hl
    refine ⟨by simpa using e1, fun i h1 h2 => ?_⟩
    have := e2 i (by simpa using h1) (by simpa using h2)
    rw [Array.getElem_toList] at this
    simpa using this

/-- **(A4) `seamLink_of_link`**: under `CTIso`, with seam decoders that deliver the bits the encoder recorded, the
    decoder's `decodeSeams` SUCCEEDS, and the attribute corner tables `buildAttConn` makes of the decoded seam corners carry
    the encoder's seam-edge flags at the images of the corners (`SeamLink`).  `hsym`, `hbnd`: the encoder's flags are
    symmetric across an edge and set on the boundary edges (what `InitFromAttribute` produces). -/
theorem seamLink_of_link {t : CT} {p : Array Nat} {n : Nat} {dc2v dopp : Array Nat}
    (h : CTIso t p n dc2v dopp) (hC : t.numCorners ≤ inv) (hns : NoSelfOpp dopp n) (hinvol : CTOppInvol t)
    (used : Array AttConn) (encs : Array RAnsBitEnc) (seamBits : Array (Array Bool)) (decs : Array RAnsBitDec)
    (he : encodeSeamBits t p (used.map (·.edgeSeam)) = .ok (encs, seamBits))
    (hds : decs.size = used.size)
    (hy : ∀ i (hi : i < decs.size), Yields RAnsBitDec.nextBit decs[i] (seamBits[i]!).toList)
    (hsym : ∀ i, i < used.size → ∀ c, c < t.numCorners → t.opp[c]! ≠ inv →
      used[i]!.edgeSeam[t.opp[c]!]! = used[i]!.edgeSeam[c]!)
    (hbnd : ∀ i, i < used.size → ∀ d, d < 3 * n → t.opp[phi p d]! = inv → used[i]!.edgeSeam[phi p d]! = true) :
    ∃ seams tags, decodeSeams false dopp n used.size decs = .ok (seams, tags) ∧ seams.size = used.size ∧
      ∀ dvc attsD, seams.mapM (fun sc => buildAttConn dc2v dopp dvc sc) = .ok attsD →
        SeamLink n attsD used (phi p) := by
  have hsz : (used.map (·.edgeSeam)).size = used.size := by simp
  obtain ⟨seams, tags, h1, h2, h3⟩ := seam_flags_correspond h hC hns hinvol (used.map (·.edgeSeam)) encs seamBits decs he
    (by rw [hsz]; exact hds) hy
  rw [hsz] at h1 h2
  refine ⟨seams, tags, h1, h2, fun dvc attsD hm => ?_⟩
  obtain ⟨e1, e2⟩ := array_mapM_idx _ seams attsD hm
  refine ⟨by rw [e1, h2], fun i hi d hd => ?_⟩
  have hiu : i < used.size := by rw [← h2, ← e1]; exact hi
  have his : i < seams.size := by rw [← e1]; exact hi
  have hget : ∀ (x : Array (Array Bool)) , True := fun _ => trivial
  have em : (used.map (·.edgeSeam))[i]! = used[i]!.edgeSeam := by simp [hiu]
  have := h3 i (by rw [hsz]; exact hiu) (by rw [em]; exact hsym i hiu) (by rw [em]; exact hbnd i hiu) dvc attsD[i]
    (by
      have := e2 i his hi
      have es : seams[i]! = seams[i] := by simp [his]
      rw [es]; exact this)
  have ea : attsD[i]! = attsD[i] := by simp [hi]
  rw [ea, this.2 d hd, em]


/-! ### (A2) the decoder on the byte layout with attribute data -/

/-- the connectivity bytes behind the traversal-coder byte, with `numAtt` attribute data and their seam buffers -/
def linkBodyAtt (ch : ConnChoices) (nv nf numAtt : Nat) (symbols : Array Nat) (sfb : List Bool) (bl : List (List Bool)) :
    Bytes :=
  encVarint nv ++ (encVarint nf ++ (numAtt :: (encVarint symbols.size ++ (0 :: 0 ::
    (encVarint (symBuf symbols).length ++ (symBuf symbols ++ (finishBits ch (encodeBits sfb) ++ seamBytes ch bl)))))))

/-- the seam decoders deliver the bit lists `bl` -/
def SeamsDeliver (decs : Array RAnsBitDec) (bl : List (List Bool)) : Prop :=
  decs.size = bl.length ∧ ∀ i (hi : i < decs.size), Yields RAnsBitDec.nextBit decs[i] bl[i]!

/-- **(A2) `runs_decodeConnectivity_of_loop_att`**: (G1) with attribute data.  `hloop` as before (the loop does not use the
    seam decoders); `hseams`: `decodeSeams` on EVERY array of seam decoders delivering `bl` returns `(seams, tg)`;
    `hbuild`, `hassign`: the pure post-processing. -/
theorem runs_decodeConnectivity_of_loop_att (ch : ConnChoices) (nv nf : Nat) (symbols : Array Nat) (sfb : List Bool)
    (bl : List (List Bool)) (co : ConnOut) (hs : ∀ s ∈ symbols.toList, IsTopo s) (hnf : nf ≤ 2 ^ 21) (hnv : nv ≤ 3 * 2 ^ 21)
    (hnv3 : nv ≤ nf * 3) (hedge : 3 * nf / 2 ≤ nv * (nv - 1) / 2) (hsz1 : symbols.size ≤ nf)
    (hsz2 : nf ≤ symbols.size + symbols.size / 3) (hsfb : sfb.length + 3 < 2 ^ 32)
    (hbl : ∀ b ∈ bl, b.length + 3 < 2 ^ 32)
    (hloop : ∀ tr, Delivers tr symbols.toList.reverse sfb →
      connLoop ⟨nf, nv, symbols.size, [], bl.length == 0⟩ tr = .ok co)
    (seams : Array (Array Nat)) (tg : Nat)
    (hseams : ∀ decs, SeamsDeliver decs bl → decodeSeams false co.opp nf bl.length decs = .ok (seams, tg))
    (attsD : Array AttConn) (hbuild : seams.mapM (fun sc => buildAttConn co.c2v co.opp co.vc sc) = .ok attsD)
    (faces : Array Nat) (np t2 : Nat) (hassign : assignPoints co nf attsD = .ok (faces, np, t2)) :
    Runs decodeConnectivity 514 (0 :: linkBodyAtt ch nv nf bl.length symbols sfb bl)
      { numFaces := nf, c2v := co.c2v, opp := co.opp, vc := co.vc, atts := attsD, faces := faces, numPoints := np,
        tags := co.tags ||| tg ||| t2 } 514 := by
  refine RunsX.toRuns fun extra => ?_
  obtain ⟨d, hd, hy⟩ := bit_buffer_roundtrip ch sfb hsfb (seamBytes ch bl ++ extra)
  have hblen := symBuf_length_le symbols hs
  obtain ⟨ds, hst, hdl, hdy⟩ := startTraversal_gen_att ch (symBuf symbols) (finishBits ch (encodeBits sfb)) bl hbl nv nf extra d
    (by omega) hd
  unfold decodeConnectivity linkBodyAtt
  refine RunsX.bind0 (RunsX.ofRuns (Runs.version 514) _) ?_
  simp only [exLeg, exLeg1, ↓reduceIte, decide_false]
  refine RunsX.bind1 (RunsX.ofRuns (Runs.rdU8 _ 514) _) ?_
  simp only [show ((0 : Nat) == 1) = false from rfl, Bool.false_eq_true, ↓reduceIte]
  refine RunsX.bind0 (RunsX.remaining _ _) ?_
  refine RunsX.bind0 (RunsX.ofRuns (Runs.tag _ 514) _) ?_
  refine RunsX.bind0 (RunsX.ofRuns (Runs.require (by decide) 514) _) ?_
  simp only [exCountV]
  refine RunsX.bind (RunsX.ofRuns (Runs.varint32 nv 514 (by omega)) _) ?_
  refine RunsX.bind (RunsX.ofRuns (Runs.varint32 nf 514 (by omega)) _) ?_
  refine RunsX.bind0 (RunsX.ofRuns (Runs.require (by simp; omega) 514) _) ?_
  refine RunsX.bind0 (RunsX.ofRuns (Runs.require (by simp; omega) 514) _) ?_
  refine RunsX.bind0 (RunsX.ofRuns (Runs.require (decide_eq_true (edges_gen nv nf (by omega) hedge)) 514) _) ?_
  refine RunsX.bind1 (RunsX.ofRuns (Runs.rdU8 _ 514) _) ?_
  refine RunsX.bind (RunsX.ofRuns (Runs.varint32 symbols.size 514 (by omega)) _) ?_
  refine RunsX.bind0 (RunsX.ofRuns (Runs.require (by simp; omega) 514) _) ?_
  refine RunsX.bind0 (RunsX.ofRuns (Runs.require (by simp; omega) 514) _) ?_
  refine RunsX.bind1 (RunsX.ofRuns (ConnExample.rdVar 0 514 (by decide)) _) ?_
  refine RunsX.bind0 (RunsX.ofRuns (Runs.require (by simp) 514) _) ?_
  refine RunsX.bind0 (RunsX.ofRuns (Runs.alloc _ _ 514) _) ?_
  have hnvm : (nv + 0) % 2 ^ 32 = nv := by omega
  rw [hnvm]
  refine RunsX.bind0 (RunsX.ofRuns (Runs.require (by simp; omega) 514) _) ?_
  refine RunsX.bind0 (RunsX.ofRuns (Runs.declare _ 514) _) ?_
  refine RunsX.bind0 (RunsX.ofRuns (Runs.alloc _ _ 514) _) ?_
  refine RunsX.bind0 (RunsX.ofRuns (Runs.alloc _ _ 514) _) ?_
  refine RunsX.bind0 (RunsX.ofRuns (Runs.alloc _ _ 514) _) ?_
  refine RunsX.bind0 (RunsX.ofRuns (Runs.alloc _ _ 514) _) ?_
  rw [if_neg (by simp [modelCap]; omega)]
  refine RunsX.bind0 (RunsX.remaining _ _) ?_
  refine RunsX.bind1 (RunsX.ofRuns (exSplitsK nf) _) ?_
  refine RunsX.bind0 (RunsX.remaining _ _) ?_
  refine RunsX.bind0 (RunsX.ofRuns (Runs.tag _ 514) _) ?_
  refine RunsX.bind' (b2 := []) hst (List.append_nil _).symm ?_
  refine RunsX.bind0 (RunsX.remaining _ _) ?_
  refine RunsX.bind0 (RunsX.ofRuns (Runs.tag _ 514) _) ?_
  have hco : connLoop ⟨nf, nv, symbols.size, [], bl.length == 0⟩
      (travA d ds.toArray (symBuf symbols ++ (finishBits ch (encodeBits sfb) ++ seamBytes ch bl) ++ extra)) = .ok co := by
    refine hloop _ ⟨rfl, rfl, ?_, hy⟩
    intro i hi
    have hi' : i < symbols.size := by simpa using hi
    refine readStd_get symbols.size _ _ ?_ i hi'
    show (readStdSymbols symbols.size (BitReader.start (symBuf symbols ++
      (finishBits ch (encodeBits sfb) ++ seamBytes ch bl) ++ extra))).1 = _
    rw [List.append_assoc]; exact symBuf_read symbols hs _
  refine RunsX.bind0 (RunsX.ofRuns (Runs.liftR hco 514) _) ?_
  refine RunsX.bind0 (RunsX.ofRuns (Runs.tag _ 514) _) ?_
  have hsd : decodeSeams false co.opp nf bl.length ds.toArray = .ok (seams, tg) :=
    hseams _ ⟨by simpa using hdl, fun i hi => by
      have hi' : i < ds.length := by simpa using hi
      simpa using hdy i hi'⟩
  refine RunsX.bind0 (RunsX.ofRuns (Runs.liftR hsd 514) _) ?_
  refine RunsX.bind0 (RunsX.ofRuns (Runs.liftR hbuild 514) _) ?_
  refine RunsX.bind0 (RunsX.ofRuns (Runs.alloc _ _ 514) _) ?_
  refine RunsX.bind0 (RunsX.ofRuns (Runs.liftR hassign 514) _) ?_
  exact RunsX.pure _ _ _

/-! ### (A3) the encoder's bytes with attribute data -/

/-- `InitAttributeData`: one attribute corner table per non-position attribute -/
def attsStage (t : CT) (acv : Array (Nat × Array Nat)) : R (Array AttData) :=
  forIn acv (Array.mkEmpty acv.size) fun x (s : Array AttData) => do
    let c ← initFromAttribute t x.2
    pure (ForInStep.yield (s.push { attIndex := x.1, conn := c }))

/-- the encoder's run for the standard traversal WITH attribute data, from the results of its stages -/
theorem encodeConnectivity_stages_att (ch : ConnChoices) (pf : Faces) (acv : Array (Nat × Array Nat)) (tbl : CornerTable)
    (hc : CornerTable.create pf = some tbl)
    (hnd : ((CT.ofTable tbl).numFaces == (CT.ofTable tbl).numDegenerated) = false)
    (holeId : Array Nat) (nh : Nat) (hh : findHoles (CT.ofTable tbl) = .ok (holeId, nh))
    (atts : Array AttData) (hatts : attsStage (CT.ofTable tbl) acv = .ok atts) (s : OSt)
    (hmain : forIn [:(CT.ofTable tbl).numCorners] (initO (CT.ofTable tbl) nh)
      (outerBody (CT.ofTable tbl) holeId false (CT.ofTable tbl).numFaces) = .ok s)
    (se : Array RAnsBitEnc) (sb : Array (Array Bool))
    (hseam : encodeSeamBits (CT.ofTable tbl) (s.2.2.2.2.2.2.2.1.reverse ++ s.2.2.2.2.2.2.2.2.1)
      (atts.map fun a => a.conn.edgeSeam) = .ok (se, sb)) :
    ∃ conn, encodeConnectivity ch false pf acv = .ok conn ∧ conn.ct = CT.ofTable tbl ∧
      conn.processed = s.2.2.2.2.2.2.2.1.reverse ++ s.2.2.2.2.2.2.2.2.1 ∧ conn.atts = atts ∧ conn.seamBits = sb ∧
      conn.bytes = encVarint (((CT.ofTable tbl).numVertices - (CT.ofTable tbl).numIsolated) % 2 ^ 32) ++
          encVarint (((CT.ofTable tbl).numFaces - (CT.ofTable tbl).numDegenerated) % 2 ^ 32) ++ [atts.size % 256] ++
          encVarint (s.2.2.2.2.1.size % 2 ^ 32) ++ encVarint (s.2.2.2.2.2.2.2.2.2.2.2.2 % 2 ^ 32) ++
          encodeSplitData s.2.2.2.2.2.2.2.2.2.1 ++
          (encodeTraversalSymbols s.2.2.2.2.1 ++ finishBits ch s.2.2.2.2.2.1 ++ se.toList.flatMap (finishBits ch)) := by
  rw [encodeConnectivity_eq]
  simp only [hc, hnd, hh, Bool.false_eq_true, if_false, bind, Except.bind, pure, Except.pure]
  simp [attsStage, initO, bind, Except.bind, pure, Except.pure] at hatts hmain ⊢
  simp [hatts, hmain, hseam]

theorem seamBytes_of_encs (ch : ConnChoices) (se : Array RAnsBitEnc) (sb : Array (Array Bool)) (m : Nat)
    (h1 : se.size = m) (h2 : sb.size = m) (h3 : ∀ i, i < m → se[i]! = encodeBits sb[i]!.toList) :
    se.toList.flatMap (finishBits ch) = seamBytes ch (sb.toList.map (·.toList)) := by
  have : se.toList = (sb.toList.map (·.toList)).map encodeBits := by
    apply List.ext_getElem
    · simp [h1, h2]
    · intro i hi1 hi2
      have hi : i < m := by simpa [h1] using hi1
      have := h3 i hi
      have hs : i < se.size := by omega
      have hb : i < sb.size := by omega
      simp only [Array.getElem_toList, List.getElem_map]
      simpa [hs, hb] using this
  rw [this, seamBytes, List.flatMap_map]

/-- **(A3) `encode_bytes_splitfree_att`**: (G2) with attribute data: a split-free run with fewer than 256 attribute data
    wrote `linkBodyAtt` with its symbols, its recorded start-face bits and its recorded seam bits -/
theorem encode_bytes_splitfree_att (ch : ConnChoices) (pf : Faces) (acv : Array (Nat × Array Nat)) (tbl : CornerTable)
    (hc : CornerTable.create pf = some tbl)
    (hnd : ((CT.ofTable tbl).numFaces == (CT.ofTable tbl).numDegenerated) = false)
    (holeId : Array Nat) (nh : Nat) (hh : findHoles (CT.ofTable tbl) = .ok (holeId, nh))
    (atts : Array AttData) (hatts : attsStage (CT.ofTable tbl) acv = .ok atts) (s : OSt)
    (hmain : forIn [:(CT.ofTable tbl).numCorners] (initO (CT.ofTable tbl) nh)
      (outerBody (CT.ofTable tbl) holeId false (CT.ofTable tbl).numFaces) = .ok s)
    (se : Array RAnsBitEnc) (sb : Array (Array Bool))
    (hseam : encodeSeamBits (CT.ofTable tbl) (s.2.2.2.2.2.2.2.1.reverse ++ s.2.2.2.2.2.2.2.2.1)
      (atts.map fun a => a.conn.edgeSeam) = .ok (se, sb))
    (hns : s.2.2.2.2.2.2.2.2.2.2.2.2 = 0) (hsp : s.2.2.2.2.2.2.2.2.2.1 = #[]) (hna : atts.size < 256)
    (hnv32 : (CT.ofTable tbl).numVertices - (CT.ofTable tbl).numIsolated < 2 ^ 32)
    (hnf32 : (CT.ofTable tbl).numFaces - (CT.ofTable tbl).numDegenerated < 2 ^ 32)
    (hsy32 : s.2.2.2.2.1.size < 2 ^ 32) :
    ∃ conn, encodeConnectivity ch false pf acv = .ok conn ∧
      [0] ++ conn.bytes = 0 :: linkBodyAtt ch ((CT.ofTable tbl).numVertices - (CT.ofTable tbl).numIsolated)
        ((CT.ofTable tbl).numFaces - (CT.ofTable tbl).numDegenerated) atts.size s.2.2.2.2.1 s.2.2.2.2.2.2.1.toList
        (sb.toList.map (·.toList)) ∧
      conn.ct = CT.ofTable tbl ∧ conn.processed = s.2.2.2.2.2.2.2.1.reverse ++ s.2.2.2.2.2.2.2.2.1 ∧ conn.atts = atts ∧
      conn.seamBits = sb ∧ sb.size = atts.size := by
  obtain ⟨conn, h1, h2, h3, h4, h5, h6⟩ := encodeConnectivity_stages_att ch pf acv tbl hc hnd holeId nh hh atts hatts s hmain
    se sb hseam
  obtain ⟨k1, k2, k3⟩ := encodeSeamBits_encs _ _ _ se sb hseam
  have hm : (atts.map fun a => a.conn.edgeSeam).size = atts.size := by simp
  refine ⟨conn, h1, ?_, h2, h3, h4, h5, by rw [k2, hm]⟩
  rw [h6, startFace_of_main _ holeId nh s hmain, hns, hsp, seamBytes_of_encs ch se sb _ k1 k2 k3]
  have e3 : encodeSplitData #[] = [0] := by decide
  have e4 : encVarint (0 % 2 ^ 32) = [0] := by decide
  simp only [Nat.mod_eq_of_lt hnv32, Nat.mod_eq_of_lt hnf32, Nat.mod_eq_of_lt hsy32, Nat.mod_eq_of_lt hna, e3, e4, ets_symBuf,
    linkBodyAtt, List.append_assoc, List.cons_append, List.nil_append]

end Draco.EbEnc.ConnGlueAtt
