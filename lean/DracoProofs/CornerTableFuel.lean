import DracoProofs.CornerTableCreate
/-
  I0 — fuel adequacy.  Every `while` / `do-while` loop of the model (`bnmeLeft`, `bnmeRight`,
  `bnmeLoop`, `cvcLeft`, `cvcRight`) runs with fuel `numCorners + 1`.  Here: with any larger fuel
  the result is the same (`createF_fuel`), i.e. the fuel is never exhausted and `create` is the
  value of the unbounded C++ loops.

  * walks: `SwingLeft`/`SwingRight` are mutually inverse partial injections (symmetric opposite
    table), so a walk returns to its start or reaches a boundary within `n` steps
    (`PInj.termIn`, pigeonhole);
  * the outer `do … while (mesh_connectivity_updated)` loop of `BreakNonManifoldEdges`: every
    pass that reports an update marks at least one new corner in `visited_corners`, which is
    never cleared, hence at most `n` such passes.
-/
namespace Draco

/-! ### generic -/

theorem foldl_range_congr {σ : Type} (P : σ → Prop) (f g : σ → Nat → σ) (init : σ) (n : Nat)
    (h0 : P init) (hP : ∀ i, i < n → ∀ s, P s → P (f s i))
    (hfg : ∀ i, i < n → ∀ s, P s → f s i = g s i) :
    (List.range n).foldl f init = (List.range n).foldl g init ∧ P ((List.range n).foldl f init) := by
  induction n with
  | zero => simpa using h0
  | succ n ih =>
    obtain ⟨e, p⟩ := ih (fun i hi => hP i (Nat.lt_succ_of_lt hi)) (fun i hi => hfg i (Nat.lt_succ_of_lt hi))
    rw [List.range_succ, List.foldl_append, List.foldl_append]
    simp only [List.foldl_cons, List.foldl_nil]
    rw [← e]
    exact ⟨hfg n (Nat.lt_succ_self n) _ p, hP n (Nat.lt_succ_self n) _ p⟩

theorem countP_lt (l : List Nat) (p q : Nat → Bool) (hpq : ∀ x, x ∈ l → q x = true → p x = true)
    (hx : ∃ x, x ∈ l ∧ p x = true ∧ q x = false) : l.countP q < l.countP p := by
  induction l with
  | nil => obtain ⟨x, hx, _⟩ := hx; cases hx
  | cons a l ih =>
    have hle : l.countP q ≤ l.countP p :=
      List.countP_mono_left (fun x hx h => hpq x (List.mem_cons_of_mem _ hx) h)
    simp only [List.countP_cons]
    obtain ⟨x, hxm, hp, hq⟩ := hx
    rcases List.mem_cons.mp hxm with hxa | hxl
    · subst hxa
      simp only [hp, hq, if_true]
      simp only [Bool.false_eq_true, if_false]
      omega
    · have := ih (fun x hx h => hpq x (List.mem_cons_of_mem _ hx) h) ⟨x, hxl, hp, hq⟩
      cases hqa : q a with
      | false => simp only [Bool.false_eq_true, if_false]; split <;> omega
      | true =>
        have := hpq a List.mem_cons_self hqa
        simp only [this, if_true]
        omega

/-- marks only grow -/
def BLe (a b : Array Bool) : Prop := ∀ c, a.getD c false = true → b.getD c false = true

theorem BLe.refl (a : Array Bool) : BLe a a := fun _ h => h
theorem BLe.trans {a b c : Array Bool} (h1 : BLe a b) (h2 : BLe b c) : BLe a c := fun x h => h2 x (h1 x h)

/-- number of unmarked corners below `n` -/
def unmarked (n : Nat) (vis : Array Bool) : Nat := (List.range n).countP (fun i => !(vis.getD i false))

theorem unmarked_lt {n : Nat} {a b : Array Bool} (hle : BLe a b)
    (hx : ∃ x, x < n ∧ a.getD x false = false ∧ b.getD x false = true) : unmarked n b < unmarked n a := by
  unfold unmarked
  apply countP_lt
  · intro x _ hq
    cases ha : a.getD x false with
    | false => rfl
    | true => rw [hle x ha] at hq; cases hq
  · obtain ⟨x, hx, h1, h2⟩ := hx
    exact ⟨x, List.mem_range.mpr hx, by simp [h1], by simp [h2]⟩

/-! ### BreakNonManifoldEdges: the walks -/

theorem bnmeLeft_fuel (opp : Array (Option Nat)) (vis : Array Bool) (first : Nat) :
    ∀ (m cur : Nat), TermIn (swingLeftA opp) first m cur → ∀ fuel, m < fuel →
      bnmeLeft opp vis first fuel cur = bnmeLeft opp vis first (m + 1) cur := by
  intro m
  induction m with
  | zero =>
    intro cur ht fuel hf
    cases fuel with
    | zero => omega
    | succ fuel =>
      unfold bnmeLeft
      unfold TermIn at ht
      rcases ht with ht | ht
      · simp only [ht]
      · simp only [ht, true_or, if_true]
  | succ m ih =>
    intro cur ht fuel hf
    cases fuel with
    | zero => omega
    | succ fuel =>
      conv => lhs; unfold bnmeLeft
      conv => rhs; unfold bnmeLeft
      unfold TermIn at ht
      rcases ht with ht | ht | ⟨nx, h1, h2⟩
      · simp only [ht]
      · simp only [ht, true_or, if_true]
      · simp only [h1]
        split
        · rfl
        · exact ih nx h2 fuel (by omega)

theorem bnmeRight_fuel (ctv : Array Nat) (first : Nat) (opp : Array (Option Nat)) :
    ∀ (m cur : Nat), TermIn (swingRightA opp) first m cur →
      ∀ (fuel : Nat) (sinks : List (Nat × Nat)) (visited : Array Bool), m < fuel →
      bnmeRight ctv first fuel cur sinks opp visited = bnmeRight ctv first (m + 1) cur sinks opp visited := by
  intro m
  induction m with
  | zero =>
    intro cur ht fuel sinks visited hf
    cases fuel with
    | zero => omega
    | succ fuel =>
      unfold bnmeRight
      simp only []
      unfold TermIn at ht
      split
      · rfl
      · rcases ht with ht | ht
        · simp only [ht]
        · simp only [ht, if_true]
  | succ m ih =>
    intro cur ht fuel sinks visited hf
    cases fuel with
    | zero => omega
    | succ fuel =>
      conv => lhs; unfold bnmeRight
      conv => rhs; unfold bnmeRight
      simp only []
      unfold TermIn at ht
      split
      · rfl
      · rcases ht with ht | ht | ⟨nx, h1, h2⟩
        · simp only [ht]
        · simp only [ht, if_true]
        · simp only [h1]
          split
          · rfl
          · exact ih nx h2 fuel _ _ (by omega)

section bnme
variable {ctv0 : Array Nat} {k : Nat}

theorem bnmeLeft_props (hn : ctv0.size = 3 * k) {opp : Array (Option Nat)} (hopp : OppOK ctv0 ctv0.size opp)
    (vis : Array Bool) (first : Nat) :
    ∀ (fuel cur : Nat), cur < ctv0.size → vis.getD cur false = false →
      bnmeLeft opp vis first fuel cur < ctv0.size ∧
      vis.getD (bnmeLeft opp vis first fuel cur) false = false := by
  intro fuel
  induction fuel with
  | zero => intro cur h1 h2; simp only [bnmeLeft]; exact ⟨h1, h2⟩
  | succ fuel ih =>
    intro cur h1 h2
    unfold bnmeLeft
    split
    · exact ⟨h1, h2⟩
    · rename_i nx hsw
      split
      · exact ⟨h1, h2⟩
      · rename_i hc
        have hnv : vis.getD nx false = false := by
          cases hv : vis.getD nx false with
          | false => rfl
          | true => exact absurd (Or.inr hv) hc
        exact ih nx (swingLeftA_facts hn hopp hsw).1 hnv

theorem bnmeRight_vis (ctv : Array Nat) (first : Nat) :
    ∀ (fuel cur : Nat) (sinks : List (Nat × Nat)) (opp : Array (Option Nat)) (visited : Array Bool),
      (bnmeRight ctv first fuel cur sinks opp visited).visited.size = visited.size ∧
      BLe visited (bnmeRight ctv first fuel cur sinks opp visited).visited ∧
      (0 < fuel → cur < visited.size →
        (bnmeRight ctv first fuel cur sinks opp visited).visited.getD cur false = true) := by
  intro fuel
  induction fuel with
  | zero =>
    intro cur sinks opp visited
    exact ⟨by simp [bnmeRight], by simp only [bnmeRight]; exact BLe.refl _,
      fun h => absurd h (Nat.lt_irrefl 0)⟩
  | succ fuel ih =>
    intro cur sinks opp visited
    have hm : BLe visited (visited.setIfInBounds cur true) := fun c h => bget_set_true_mono _ _ _ h
    have hc : cur < visited.size → (visited.setIfInBounds cur true).getD cur false = true := by
      intro h; rw [bget_set]; simp [h]
    unfold bnmeRight
    simp only []
    split
    · exact ⟨by simp [Array.size_setIfInBounds], hm, fun _ h => hc h⟩
    · split
      · exact ⟨by simp [Array.size_setIfInBounds], hm, fun _ h => hc h⟩
      · split
        · exact ⟨by simp [Array.size_setIfInBounds], hm, fun _ h => hc h⟩
        · obtain ⟨r1, r2, _⟩ := ih _ (sinks ++ [(vget ctv (prevC cur), nextC cur)]) opp
            (visited.setIfInBounds cur true)
          exact ⟨by rw [r1]; simp [Array.size_setIfInBounds], hm.trans r2, fun _ h => r2 _ (hc h)⟩

/-- one corner of the `for` loop: independent of the fuel once `n ≤ fuel` -/
theorem bnmeCorner_fuel (hn : ctv0.size = 3 * k) (ctv : Array Nat) (st : BNState)
    (hopp : OppOK ctv0 ctv0.size st.opp) (c : Nat) (hc : c < ctv0.size) (fuel : Nat)
    (hf : ctv0.size ≤ fuel) :
    bnmeCorner ctv fuel st c = bnmeCorner ctv ctv0.size st c := by
  unfold bnmeCorner
  split
  · rfl
  · rename_i hvis
    have hvis : st.visited.getD c false = false := by simpa using hvis
    have hP := swing_pinj hn hopp
    have hL : bnmeLeft st.opp st.visited c fuel c = bnmeLeft st.opp st.visited c ctv0.size c := by
      have ht := hP.symm.termIn hc
      rw [bnmeLeft_fuel _ _ _ _ _ ht fuel (by omega), bnmeLeft_fuel _ _ _ _ _ ht ctv0.size (by omega)]
    simp only []
    rw [hL]
    have hfirst := (bnmeLeft_props hn hopp st.visited c ctv0.size c hc hvis).1
    have ht := hP.termIn hfirst
    rw [bnmeRight_fuel ctv _ st.opp _ _ ht fuel _ _ (by omega),
      bnmeRight_fuel ctv _ st.opp _ _ ht ctv0.size _ _ (by omega)]

/-- what one corner of the `for` loop does to the marks -/
theorem bnmeCorner_vis (hn : ctv0.size = 3 * k) (ctv : Array Nat) (st : BNState)
    (hopp : OppOK ctv0 ctv0.size st.opp) (hsz : st.visited.size = ctv0.size)
    (c : Nat) (hc : c < ctv0.size) (fuel : Nat) (hf : 0 < fuel) :
    (bnmeCorner ctv fuel st c).visited.size = ctv0.size ∧
    BLe st.visited (bnmeCorner ctv fuel st c).visited ∧
    ((bnmeCorner ctv fuel st c).updated = true → st.updated = true ∨
      ∃ x, x < ctv0.size ∧ st.visited.getD x false = false ∧
        (bnmeCorner ctv fuel st c).visited.getD x false = true) := by
  unfold bnmeCorner
  split
  · exact ⟨hsz, BLe.refl _, fun h => Or.inl h⟩
  · rename_i hvis
    have hvis : st.visited.getD c false = false := by simpa using hvis
    obtain ⟨hf1, hf2⟩ := bnmeLeft_props hn hopp st.visited c fuel c hc hvis
    obtain ⟨r1, r2, r3⟩ := bnmeRight_vis ctv (bnmeLeft st.opp st.visited c fuel c) fuel
      (bnmeLeft st.opp st.visited c fuel c) [] st.opp st.visited
    simp only []
    refine ⟨by rw [r1]; exact hsz, r2, fun _ => Or.inr ⟨_, hf1, hf2, r3 hf (by rw [hsz]; exact hf1)⟩⟩

/-- invariant of one pass relative to the marks `vis` at its start -/
structure PassInv (ctv0 : Array Nat) (vis : Array Bool) (st : BNState) : Prop where
  opp : OppOK ctv0 ctv0.size st.opp
  size : st.visited.size = ctv0.size
  le : BLe vis st.visited
  upd : st.updated = true → ∃ x, x < ctv0.size ∧ vis.getD x false = false ∧ st.visited.getD x false = true

theorem bnmeCorner_passInv (hn : ctv0.size = 3 * k) (ctv : Array Nat) (vis : Array Bool) (st : BNState)
    (h : PassInv ctv0 vis st) (c : Nat) (hc : c < ctv0.size) (fuel : Nat) (hf : 0 < fuel) :
    PassInv ctv0 vis (bnmeCorner ctv fuel st c) := by
  obtain ⟨v1, v2, v3⟩ := bnmeCorner_vis hn ctv st h.opp h.size c hc fuel hf
  refine ⟨bnmeCorner_inv ctv ctv0 ctv0.size fuel st c h.opp, v1, h.le.trans v2, ?_⟩
  intro hu
  rcases v3 hu with hold | ⟨x, hx, h1, h2⟩
  · obtain ⟨x, hx, h1, h2⟩ := h.upd hold
    exact ⟨x, hx, h1, v2 x h2⟩
  · refine ⟨x, hx, ?_, h2⟩
    cases hv : vis.getD x false with
    | false => rfl
    | true => rw [h.le x hv] at h1; cases h1

theorem bnmePass_fuel (hn : ctv0.size = 3 * k) (opp : Array (Option Nat)) (vis : Array Bool)
    (hopp : OppOK ctv0 ctv0.size opp) (hsz : vis.size = ctv0.size) (fuel : Nat) (hf : ctv0.size ≤ fuel)
    (hf0 : 0 < fuel) :
    bnmePass ctv0 fuel opp vis = bnmePass ctv0 (ctv0.size + 1) opp vis ∧
    PassInv ctv0 vis (bnmePass ctv0 fuel opp vis) := by
  unfold bnmePass
  have h0 : PassInv ctv0 vis { opp := opp, visited := vis, updated := false } :=
    ⟨hopp, hsz, BLe.refl _, fun h => by cases h⟩
  refine foldl_range_congr (PassInv ctv0 vis) _ _ _ _ h0 ?_ ?_
  · intro i hi s hs
    exact bnmeCorner_passInv hn ctv0 vis s hs i hi fuel hf0
  · intro i hi s hs
    rw [bnmeCorner_fuel hn ctv0 s hs.opp i hi fuel hf,
      bnmeCorner_fuel hn ctv0 s hs.opp i hi (ctv0.size + 1) (by omega)]

/-- the inner fuel of the outer loop does not matter once `n + 1 ≤ inner` -/
theorem bnmeLoop_inner (hn : ctv0.size = 3 * k) (inner : Nat) (hi : ctv0.size + 1 ≤ inner) :
    ∀ (fuel : Nat) (opp : Array (Option Nat)) (vis : Array Bool),
      OppOK ctv0 ctv0.size opp → vis.size = ctv0.size →
      bnmeLoop ctv0 inner fuel opp vis = bnmeLoop ctv0 (ctv0.size + 1) fuel opp vis := by
  intro fuel
  induction fuel with
  | zero => intro opp vis _ _; simp [bnmeLoop]
  | succ fuel ih =>
    intro opp vis hopp hsz
    obtain ⟨e, p⟩ := bnmePass_fuel hn opp vis hopp hsz inner (by omega) (by omega)
    unfold bnmeLoop
    simp only []
    rw [← e]
    split
    · exact ih _ _ p.opp p.size
    · rfl

/-- the outer fuel does not matter once it exceeds the number of unmarked corners -/
theorem bnmeLoop_outer (hn : ctv0.size = 3 * k) (inner : Nat) (hi : 0 < inner) :
    ∀ (f1 f2 : Nat) (opp : Array (Option Nat)) (vis : Array Bool),
      OppOK ctv0 ctv0.size opp → vis.size = ctv0.size →
      unmarked ctv0.size vis < f1 → unmarked ctv0.size vis < f2 →
      bnmeLoop ctv0 inner f1 opp vis = bnmeLoop ctv0 inner f2 opp vis := by
  intro f1
  induction f1 with
  | zero => intro f2 opp vis _ _ h; omega
  | succ f1 ih =>
    intro f2 opp vis hopp hsz h1 h2
    cases f2 with
    | zero => omega
    | succ f2 =>
      have p : PassInv ctv0 vis (bnmePass ctv0 inner opp vis) := by
        unfold bnmePass
        have h0 : PassInv ctv0 vis { opp := opp, visited := vis, updated := false } :=
          ⟨hopp, hsz, BLe.refl _, fun h => by cases h⟩
        exact foldl_range_inv' (PassInv ctv0 vis) _ _ _ h0
          (fun i hi' s hs => bnmeCorner_passInv hn ctv0 vis s hs i hi' inner hi)
      conv => lhs; unfold bnmeLoop
      conv => rhs; unfold bnmeLoop
      simp only []
      split
      · rename_i hu
        have hlt := unmarked_lt p.le (p.upd hu)
        exact ih f2 _ _ p.opp p.size (by omega) (by omega)
      · rfl

theorem unmarked_le (n : Nat) (vis : Array Bool) : unmarked n vis ≤ n := by
  unfold unmarked
  have := List.countP_le_length (p := fun i => !(vis.getD i false)) (l := List.range n)
  simpa using this

theorem breakNonManifoldEdgesF_fuel (hn : ctv0.size = 3 * k) (opp : Array (Option Nat))
    (hopp : OppOK ctv0 ctv0.size opp) (fuel : Nat) (hf : ctv0.size + 1 ≤ fuel) :
    breakNonManifoldEdgesF ctv0 fuel opp = breakNonManifoldEdges ctv0 opp := by
  unfold breakNonManifoldEdges breakNonManifoldEdgesF
  have hsz : (Array.replicate ctv0.size false).size = ctv0.size := by simp
  have hm := unmarked_le ctv0.size (Array.replicate ctv0.size false)
  rw [bnmeLoop_inner hn fuel hf fuel _ _ hopp hsz]
  exact bnmeLoop_outer hn _ (Nat.succ_pos _) _ _ _ _ hopp hsz (by omega) (by omega)

end bnme

/-! ### ComputeVertexCorners: the walks -/

theorem cvcLeft_fuel (opp : Array (Option Nat)) (c v : Nat) (nm : Bool) :
    ∀ (m act : Nat), TermIn (swingLeftA opp) c m act → ∀ (fuel : Nat) (st : VCState), m < fuel →
      cvcLeft opp c v nm fuel act st = cvcLeft opp c v nm (m + 1) act st := by
  intro m
  induction m with
  | zero =>
    intro act ht fuel st hf
    cases fuel with
    | zero => omega
    | succ fuel =>
      unfold cvcLeft
      simp only []
      unfold TermIn at ht
      rcases ht with ht | ht
      · simp only [ht]
      · simp only [ht, if_true]
  | succ m ih =>
    intro act ht fuel st hf
    cases fuel with
    | zero => omega
    | succ fuel =>
      conv => lhs; unfold cvcLeft
      conv => rhs; unfold cvcLeft
      simp only []
      unfold TermIn at ht
      rcases ht with ht | ht | ⟨nx, h1, h2⟩
      · simp only [ht]
      · simp only [ht, if_true]
      · simp only [h1]
        split
        · rfl
        · exact ih nx h2 fuel _ (by omega)

theorem cvcRight_fuel (opp : Array (Option Nat)) (v : Nat) (nm : Bool) :
    ∀ (j : Nat) (act : Option Nat), iter (lift (swingRightA opp)) j act = none →
      ∀ (fuel : Nat) (st : VCState), j ≤ fuel →
      cvcRight opp v nm fuel act st = cvcRight opp v nm j act st := by
  intro j
  induction j with
  | zero =>
    intro act h fuel st _
    simp only [iter] at h
    subst h
    cases fuel <;> simp [cvcRight]
  | succ j ih =>
    intro act h fuel st hf
    cases fuel with
    | zero => omega
    | succ fuel =>
      cases act with
      | none => simp [cvcRight]
      | some a =>
        conv => lhs; unfold cvcRight
        conv => rhs; unfold cvcRight
        simp only [iter, lift_some] at h
        exact ih _ h fuel _ (by omega)

/-- the flag of `cvcLeft` is set only when the swing-left chain ends at a boundary -/
theorem cvcLeft_flag (opp : Array (Option Nat)) (c v : Nat) (nm : Bool) :
    ∀ (fuel act : Nat) (st : VCState), (cvcLeft opp c v nm fuel act st).2 = true →
      ∃ i L, iter (lift (swingLeftA opp)) i (some act) = some L ∧ swingLeftA opp L = none := by
  intro fuel
  induction fuel with
  | zero => intro act st h; simp [cvcLeft] at h
  | succ fuel ih =>
    intro act st h
    unfold cvcLeft at h
    simp only [] at h
    split at h
    · rename_i hsw
      exact ⟨0, act, rfl, hsw⟩
    · rename_i nx hsw
      split at h
      · cases h
      · obtain ⟨i, L, h1, h2⟩ := ih nx _ h
        exact ⟨i + 1, L, by simp only [iter, lift_some]; rw [hsw]; exact h1, h2⟩

section cvc
variable {ctv0 : Array Nat} {k : Nat}

/-- after a swing-left chain from `c` hit the boundary, the swing-right chain from `c` dies
    within `n` steps -/
theorem right_dies (hn : ctv0.size = 3 * k) {opp : Array (Option Nat)} (hopp : OppOK ctv0 ctv0.size opp)
    (c : Nat) (hc : c < ctv0.size) (i L : Nat)
    (h1 : iter (lift (swingLeftA opp)) i (some c) = some L) (h2 : swingLeftA opp L = none) :
    ∃ j, j < ctv0.size ∧ iter (lift (swingRightA opp)) j (swingRightA opp c) = none := by
  have hP := swing_pinj hn hopp
  have hL : L < ctv0.size := hP.symm.iter_lt hc i L h1
  have hback : iter (lift (swingRightA opp)) i (some L) = some c := hP.symm.iter_inv i c L h1
  obtain ⟨m, hm, hor⟩ := hP.orbit hL
  have hnone : iter (lift (swingRightA opp)) (m + 1) (some L) = none := by
    rcases hor with hor | hor
    · exact hor
    · rw [iter_succ'] at hor
      cases hy : iter (lift (swingRightA opp)) m (some L) with
      | none => rw [hy] at hor; simp at hor
      | some y =>
        rw [hy, lift_some] at hor
        have := (hP.fg y L hor).1
        rw [h2] at this; cases this
  have him : i ≤ m := by
    apply Classical.byContradiction
    intro hlt
    have : i = (m + 1) + (i - (m + 1)) := by omega
    rw [this, iter_add, hnone, iter_lift_none] at hback
    cases hback
  refine ⟨m - i, by omega, ?_⟩
  have hsplit : m + 1 = i + (1 + (m - i)) := by omega
  rw [hsplit, iter_add, hback, iter_add] at hnone
  simpa [iter] using hnone

theorem cvcCorner_fuel (hn : ctv0.size = 3 * k) {opp : Array (Option Nat)} (hopp : OppOK ctv0 ctv0.size opp)
    (st : VCState) (c : Nat) (hc : c < ctv0.size) (fuel : Nat) (hf : ctv0.size ≤ fuel) :
    cvcCorner opp fuel st c = cvcCorner opp ctv0.size st c := by
  unfold cvcCorner
  split
  · rfl
  · simp only []
    generalize st.visitedV.getD (vget st.ctv c) false = nm
    generalize (if nm = true then st.vc.size else vget st.ctv c) = v
    generalize ({ (if nm = true then
          { st with vc := st.vc.push none, parents := st.parents.push (vget st.ctv c),
                    visitedV := st.visitedV.push false }
        else st) with
        visitedV := (if nm = true then
          { st with vc := st.vc.push none, parents := st.parents.push (vget st.ctv c),
                    visitedV := st.visitedV.push false }
        else st).visitedV.setIfInBounds v true } : VCState) = st1
    have hP := swing_pinj hn hopp
    have ht := hP.symm.termIn hc
    have hL : cvcLeft opp c v nm fuel c st1 = cvcLeft opp c v nm ctv0.size c st1 := by
      rw [cvcLeft_fuel opp c v nm _ _ ht fuel st1 (by omega),
        cvcLeft_fuel opp c v nm _ _ ht ctv0.size st1 (by omega)]
    rw [hL]
    split
    · rename_i hflag
      obtain ⟨i, L, h1, h2⟩ := cvcLeft_flag opp c v nm _ _ _ hflag
      obtain ⟨j, hj, hnone⟩ := right_dies hn hopp c hc i L h1 h2
      rw [cvcRight_fuel opp v nm j _ hnone fuel _ (by omega),
        cvcRight_fuel opp v nm j _ hnone ctv0.size _ (by omega)]
    · rfl

theorem cvcFace_fuel (hn : ctv0.size = 3 * k) {opp : Array (Option Nat)} (hopp : OppOK ctv0 ctv0.size opp)
    (st : VCState) (f : Nat) (hf : f < ctv0.size / 3) (fuel : Nat) (hfu : ctv0.size ≤ fuel) :
    cvcFace opp fuel st f = cvcFace opp ctv0.size st f := by
  unfold cvcFace
  split
  · rfl
  · rw [cvcCorner_fuel hn hopp _ (3 * f) (by omega) fuel hfu,
      cvcCorner_fuel hn hopp _ (3 * f + 1) (by omega) fuel hfu,
      cvcCorner_fuel hn hopp _ (3 * f + 2) (by omega) fuel hfu]

theorem computeVertexCornersF_fuel (hn : ctv0.size = 3 * k) {opp : Array (Option Nat)}
    (hopp : OppOK ctv0 ctv0.size opp) (numV fuel : Nat) (hfu : ctv0.size + 1 ≤ fuel) :
    computeVertexCornersF ctv0 opp numV fuel = computeVertexCorners ctv0 opp numV := by
  unfold computeVertexCorners computeVertexCornersF
  refine (foldl_range_congr (fun _ => True) _ _ _ _ trivial (fun _ _ _ _ => trivial) ?_).1
  intro i hi s _
  rw [cvcFace_fuel hn hopp s i hi fuel (by omega), cvcFace_fuel hn hopp s i hi (ctv0.size + 1) (by omega)]

end cvc

namespace CornerTable

/-- **I0**: with any fuel `≥ numCorners + 1` the construction returns the same table as
    `create`: none of the bounded loops ever runs out of fuel. -/
theorem createF_fuel (faces : Faces) (fuel : Nat) (hf : 3 * faces.size + 1 ≤ fuel) :
    createF fuel faces = create faces := by
  have hsz := size_initCtv faces
  have hcoc : OppOK (initCtv faces) (initCtv faces).size (computeOppositeCorners (initCtv faces)).1 :=
    computeOppositeCorners_inv _
  unfold create createF
  split
  · have e1 := breakNonManifoldEdgesF_fuel hsz _ hcoc fuel (by rw [hsz]; exact hf)
    have e2 := breakNonManifoldEdgesF_fuel hsz _ hcoc (3 * faces.size + 1) (by rw [hsz]; omega)
    simp only []
    rw [e1, e2]
    have hopp := breakNonManifoldEdgesF_inv (initCtv faces) (3 * faces.size + 1) _ hcoc
    rw [e2] at hopp
    rw [computeVertexCornersF_fuel hsz hopp _ fuel (by rw [hsz]; exact hf),
      computeVertexCornersF_fuel hsz hopp _ (3 * faces.size + 1) (by rw [hsz]; omega)]
  · rfl

end CornerTable
end Draco
