import DracoProofs.KdAllocWalk
import DracoModel.EbDecoder
/-
  DracoProofs.EbAlloc — C18 on the Edgebreaker path: the allocation invariant calculus (`TrC`,
  DracoProofs/KdAlloc.lean) walked through `Eb.decodeEdgebreaker`.

  Every stream-dependent allocation site of the decoder is an `alloc` event of the model.  Each site guarded by
  a check of the C++ is bounded by that check:

      edgebreaker.attribute_data            200·num_attribute_data            uint8                          ≤ A
      corner_table.{corner_to_vertex_map,opposite_corners}  12·num_faces      declared (num_faces ≤ 2^32/3)
      corner_table.vertex_corners, edgebreaker.is_vert_hole  num_vertices     declared
      {predictive,valence}_decoder.vertex_valences   4·num_vertices           declared
      valence_decoder.context_symbols       4·n                               `n > num_faces → false`
      mesh.faces                            12·num_faces                      declared
      decoder.attributes_decoders           8·num_decoders                    uint8                          ≤ A
      controller.sequential_decoders        8·num_attributes                  `num_attributes > 5·remaining → false`
      constrained_multi_parallelogram.is_crease_edge   n/8                    `n > num_corners → false`
      tex_coords(_portable).orientations    n/8                               `n > num_corners → false` (008c24a)

  Four sites are sized by tables the connectivity decoder COMPUTES (the number of vertices of the (attribute)
  corner table, the number of points, the length of the traversal sequence) times a declared stride:

      mesh_traversal_sequencer.point_ids, attribute.indices_map, attribute.Reset, integer_decoder.portable_attribute

  That those table sizes stay below the declared counts (vertices ≤ max_num_vertices is checked by the C++;
  attribute vertices ≤ corners, points ≤ corners are consequences of the corner table being consistent) is not
  proved; these four sites form the exceptional class `ebX` of the classified bound.
-/
namespace Draco.Eb
open Draco Draco.DecM Draco.Robust

variable {bs : Bytes} {X : String × Nat → Prop}

/-! ### more rules of the calculus -/

/-- forget the facts -/
theorem trc_any {α} {m : DecM α} {d : Nat} {D : α → Nat} {F : α → Prop} (h : TrC bs X d m D F) :
    TrC bs X d m D (fun _ => True) := trc_weaken h (fun _ _ => Nat.le_refl _) (fun _ _ => trivial)

/-- a first part that keeps `d` and whose facts are not needed -/
theorem trc_bind_any {α β} {m : DecM α} {f : α → DecM β} {d : Nat} {F : α → Prop} {D2 : β → Nat} {F2 : β → Prop}
    (hm : TrC bs X d m (fun _ => d) F) (hf : ∀ a, TrC bs X d (f a) D2 F2) : TrC bs X d (m >>= f) D2 F2 :=
  trc_bind hm (fun a _ => hf a)

theorem trc_tag (t : String) {d : Nat} : TrC bs X d (tag t) (fun _ => d) (fun _ => True) := by
  intro s hs
  refine ⟨fun s' h => ?_, fun a s' h => ?_⟩
  · simp [tag] at h
  simp only [tag, Prod.mk.injEq] at h
  rw [← h.2]
  exact ⟨⟨hs.suf, hs.decl, hs.allocs⟩, trivial⟩

theorem trc_peekRest {d : Nat} : TrC bs X d peekRest (fun _ => d) (fun r => r <:+ bs) := by
  intro s hs
  refine ⟨fun s' h => ?_, fun a s' h => ?_⟩
  · simp [peekRest] at h
  simp only [peekRest, Prod.mk.injEq, Option.some.injEq] at h
  rw [← h.2, ← h.1]
  exact ⟨hs, hs.suf⟩

theorem trc_getState {d : Nat} : TrC bs X d (fun s => (some s, s) : DecM DSt) (fun _ => d) (fun st => st.rest <:+ bs) := by
  intro s hs
  refine ⟨fun s' h => ?_, fun a s' h => ?_⟩
  · simp at h
  simp only [Prod.mk.injEq, Option.some.injEq] at h
  rw [← h.2, ← h.1]
  exact ⟨hs, hs.suf⟩

theorem trc_setRest {rest : Bytes} (hr : rest <:+ bs) {d : Nat} :
    TrC bs X d (fun s => (some (), { s with rest := rest }) : DecM Unit) (fun _ => d) (fun _ => True) := by
  intro s hs
  refine ⟨fun s' h => ?_, fun a s' h => ?_⟩
  · simp at h
  simp only [Prod.mk.injEq] at h
  rw [← h.2]
  exact ⟨⟨hr, hs.decl, hs.allocs⟩, trivial⟩

theorem trc_liftR {α} (r : R α) {d : Nat} : TrC bs X d (liftR r) (fun _ => d) (fun a => r = .ok a) := by
  unfold liftR
  split
  · exact trc_pure rfl
  · exact trc_fail
  · exact trc_failWith
  · exact trc_failWith
  · exact trc_failWith

theorem trc_countV (ver : Nat) {d : Nat} : TrC bs X d (countV ver) (fun _ => d) (fun _ => True) := by
  unfold countV; split
  · exact trc_rdU32
  · exact trc_varint

theorem trc_rdI8 {d : Nat} : TrC bs X d rdI8 (fun _ => d) (fun _ => True) := by
  unfold rdI8
  exact trc_bind trc_rdU8_any (fun _ _ => trc_pure trivial)

theorem trc_bytes {n d : Nat} : TrC bs X d (bytes n) (fun _ => d) (fun _ => True) := trc_lift_any (readBytes_suf n)

theorem trc_repeatM (m : DecM Unit) {d : Nat} (hm : TrC bs X d m (fun _ => d) (fun _ => True)) :
    ∀ n, TrC bs X d (repeatM m n) (fun _ => d) (fun _ => True)
  | 0 => by simp only [repeatM]; exact trc_pure trivial
  | n+1 => by
    simp only [repeatM]
    exact trc_bind (m := m) hm (fun _ _ => trc_repeatM m hm n)

/-- run on another buffer that is itself a suffix of the stream -/
theorem trc_withBuffer {α} (sub : Bytes) (hsub : sub <:+ bs) (m : DecM α) {d : Nat} {D : α → Nat} {F : α → Prop}
    (hm : TrC bs X d m D F) : TrC bs X d (withBuffer sub m) (fun p => D p.1) (fun p => F p.1) := by
  intro s hs
  have h := hm { s with rest := sub } ⟨hsub, hs.decl, hs.allocs⟩
  unfold withBuffer
  cases hr : m { s with rest := sub } with
  | mk r s1 =>
    cases r with
    | none =>
      have h1 := h.1 s1 hr
      refine ⟨fun s' h' => ?_, fun a s' h' => (by cases h')⟩
      cases h'
      exact ⟨hs.suf, h1.decl, h1.allocs⟩
    | some a =>
      have h1 := h.2 a s1 hr
      refine ⟨fun s' h' => (by cases h'), fun b s' h' => ?_⟩
      cases h'
      exact ⟨⟨hs.suf, h1.1.decl, h1.1.allocs⟩, h1.2⟩

theorem trc_forIn_list {α β} (f : α → β → DecM (ForInStep β)) {d : Nat}
    (hf : ∀ a b, TrC bs X d (f a b) (fun _ => d) (fun _ => True)) :
    ∀ (l : List α) (init : β), TrC bs X d (forIn l init f) (fun _ => d) (fun _ => True)
  | [], init => by rw [List.forIn_nil]; exact trc_pure trivial
  | a :: as, init => by
    rw [List.forIn_cons]
    refine trc_bind (hf a init) (fun r _ => ?_)
    cases r with
    | done b => exact trc_pure trivial
    | yield b => exact trc_forIn_list f hf as b

theorem trc_forIn_range {β} (r : Std.Legacy.Range) (f : Nat → β → DecM (ForInStep β)) {d : Nat}
    (hf : ∀ a b, TrC bs X d (f a b) (fun _ => d) (fun _ => True)) (init : β) :
    TrC bs X d (forIn r init f) (fun _ => d) (fun _ => True) := by
  rw [Std.Legacy.Range.forIn_eq_forIn_range']
  exact trc_forIn_list f hf _ init

/-! ### suffix lemmas of the readers used by the Edgebreaker decoder -/

theorem readBitRegionSize_suf (legacy : Bool) : SufRd (readBitRegionSize legacy) := by
  unfold readBitRegionSize
  split
  · exact readLE_suf 8
  · exact decVarint_suf 64

theorem skipBytes_suf (n : Nat) : SufRd (skipBytes n) := by
  intro x a rest h
  unfold skipBytes at h
  split at h
  · cases h
  · cases h; exact List.drop_suffix n x

theorem decBitRegion_suf (legacy withSize : Bool) (widths : List Nat) : SufRd (decBitRegion legacy withSize widths) := by
  intro x a rest h
  unfold decBitRegion at h
  cases withSize with
  | true =>
    simp only [if_true] at h
    cases h1 : readBitRegionSize legacy x with
    | none => rw [h1] at h; cases h
    | some p =>
      obtain ⟨sz, x1⟩ := p
      rw [h1] at h
      simp only at h
      cases h2 : (BitReader.start x1).getMany widths with
      | none => rw [h2] at h; cases h
      | some q =>
        obtain ⟨vs, r⟩ := q
        rw [h2] at h
        cases h
        exact (List.drop_suffix _ _).trans (readBitRegionSize_suf legacy _ _ _ h1)
  | false =>
    simp only [Bool.false_eq_true, if_false] at h
    cases h2 : (BitReader.start x).getMany widths with
    | none => rw [h2] at h; cases h
    | some q =>
      obtain ⟨vs, r⟩ := q
      rw [h2] at h
      cases h
      exact List.drop_suffix _ _

/-! ### automation -/

/-- `n ≤ allocBound …` from the hypotheses in the context (guards of the C++, declared counts) -/
macro "alloc_bound" : tactic => `(tactic| (
  unfold allocBound allocA allocK
  try simp only [decide_eq_true_eq, Bool.and_eq_true, bne_iff_ne, ne_eq, gt_iff_lt, ge_iff_le] at *
  omega))

/-- the allocation sites sized by computed tables -/
def ebX (e : String × Nat) : Prop :=
  e.1 = "mesh_traversal_sequencer.point_ids" ∨ e.1 = "attribute.indices_map" ∨ e.1 = "attribute.Reset" ∨
    e.1 = "integer_decoder.portable_attribute"

attribute [local irreducible] DecM.require DecM.lift DecM.alloc DecM.tag DecM.remaining DecM.version DecM.rdU8
  DecM.rdU16 DecM.rdU32 DecM.rdI8 DecM.rdI32 DecM.varint DecM.bytes countV peekRest liftR DecM.replicateM' DecM.mapM'
  repeatM withBuffer DecM.fail DecM.failWith DecM.declare DecM.andThen DecM.ret

/-- one step of the walk: keeps `d`; the facts of `require`, `rdU8`, `remaining`, `peekRest` stay in the context -/
macro "trc_step" : tactic => `(tactic| first
  | (refine trc_bind trc_require (fun _ _ => ?_))
  | (refine trc_bind (trc_rdU8 ‹IsBytes _›) (fun _ _ => ?_))
  | (refine trc_bind trc_remaining (fun _ _ => ?_))
  | (refine trc_bind trc_peekRest (fun _ _ => ?_))
  | (refine trc_bind trc_getState (fun _ _ => ?_))
  | (refine trc_bind_any (F := fun _ => True) ?_ (fun _ => ?_))
  | (apply trc_ite <;> intro _)
  | exact trc_pure trivial | exact trc_fail | exact trc_failWith
  | exact trc_any trc_require | exact trc_tag _ | exact trc_any trc_peekRest | exact trc_any (trc_liftR _)
  | exact trc_countV _ | exact trc_rdU8_any | exact trc_rdU16 | exact trc_rdU32 | exact trc_rdI8 | exact trc_rdI32
  | exact trc_varint | exact trc_bytes | exact trc_any trc_remaining | exact trc_version
  | exact trc_lift_any (readBitRegionSize_suf _) | exact trc_lift_any (skipBytes_suf _)
  | exact trc_lift_any (ransBitStart_suf _) | exact trc_lift_any (decBitRegion_suf _ _ _)
  | exact trc_lift_any (decodeSymbolsV_suf _ _ _) | exact trc_lift_any wrap_decodeTransformData_suf
  | exact trc_lift_any octa_decodeTransformData_suf | exact trc_lift_any (octa_legacyDecodeTransformData_suf _)
  | exact trc_setRest ((decodeSymbolsV_suf _ _ _ _ _ _ ‹_›).trans ‹_›)
  | exact trc_alloc (by alloc_bound)
  | exact trc_allocX (‹∀ e, ebX e → _› _ (by simp [ebX]))
  | (refine trc_any (trc_replicateM' _ (fun _ => True) _ ?_ _))
  | (refine trc_any (trc_mapM' _ (fun _ => True) (fun _ => True) _ (fun _ _ => ?_) _ (fun _ _ => trivial)))
  | (refine trc_repeatM _ ?_ _)
  | (refine trc_forIn_range _ _ (fun _ _ => ?_) _)
  | (refine trc_forIn_list _ (fun _ _ => ?_) _ _)
  | split)

/-! ### connectivity -/

theorem trc_splits_raw {d : Nat} : ∀ (k : Nat) (acc : List TopoSplit),
    TrC bs X d (decodeTopologySplits.raw k acc) (fun _ => d) (fun _ => True)
  | 0, acc => by simp only [decodeTopologySplits.raw]; exact trc_pure trivial
  | k+1, acc => by
    simp only [decodeTopologySplits.raw]
    refine trc_bind_any trc_rdU32 (fun _ => trc_bind_any trc_rdU32 (fun _ => trc_bind_any trc_rdU8_any (fun _ => ?_)))
    exact trc_splits_raw k _

theorem trc_splits_ids {d : Nat} : ∀ (k last : Nat) (acc : List (Nat × Nat)),
    TrC bs X d (decodeTopologySplits.ids k last acc) (fun _ => d) (fun _ => True)
  | 0, last, acc => by simp only [decodeTopologySplits.ids]; exact trc_pure trivial
  | k+1, last, acc => by
    simp only [decodeTopologySplits.ids]
    refine trc_bind_any trc_varint (fun _ => trc_bind_any trc_varint (fun _ => trc_bind_any (trc_any trc_require) (fun _ => ?_)))
    exact trc_splits_ids k _ _

attribute [local irreducible] decodeTopologySplits.raw decodeTopologySplits.ids in
theorem trc_decodeTopologySplits (ver numFaces : Nat) {d : Nat} :
    TrC bs X d (decodeTopologySplits ver numFaces) (fun _ => d) (fun _ => True) := by
  unfold decodeTopologySplits; dsimp only
  repeat' (first | exact trc_splits_raw _ _ | exact trc_splits_ids _ _ _ | trc_step)

set_option maxHeartbeats 4000000 in
theorem trc_startTraversal (_hb : IsBytes bs) (ver kind numAtt numVerts numFaces : Nat) {d : Nat}
    (hnv : numVerts ≤ d) (hnf : numFaces ≤ d) :
    TrC bs X d (startTraversal ver kind numAtt numVerts numFaces) (fun _ => d) (fun _ => True) := by
  unfold startTraversal; dsimp only
  repeat' trc_step

set_option maxHeartbeats 8000000 in
attribute [local irreducible] decodeTopologySplits startTraversal in
/-- **the connectivity decoder keeps the linear allocation invariant**, all inputs: every table it allocates is
    sized by a count it has declared (faces, vertices) or by a checked count -/
theorem trc_decodeConnectivity (hb : IsBytes bs) {d : Nat} :
    TrC bs X d decodeConnectivity (fun mesh => d + mesh.numFaces) (fun _ => True) := by
  unfold decodeConnectivity; dsimp only
  repeat' (first
    | exact trc_decodeTopologySplits _ _
    | exact trc_startTraversal ‹_› _ _ _ _ _ (by omega) (by omega)
    | (refine trc_bind trc_declare (fun _ _ => ?_))
    | exact trc_any (trc_withBuffer _ ((List.drop_suffix _ _).trans ‹_ <:+ bs›) _ (trc_decodeTopologySplits _ _))
    | exact trc_weaken (trc_pure (F := fun m => m = _) rfl) (fun _ h => by subst h; dsimp only; omega) (fun _ _ => trivial)
    | trc_step)

/-! ### the attribute controller -/

theorem trc_decodeTransformParams (dt nc : Nat) {d : Nat} :
    TrC bs X d (decodeTransformParams dt nc) (fun _ => d) (fun _ => True) := by
  unfold decodeTransformParams
  repeat' trc_step

theorem trc_storeValuesCheck (st : SeqAttState) {d : Nat} :
    TrC bs X d (storeValuesCheck st) (fun _ => d) (fun _ => True) := by
  unfold storeValuesCheck
  repeat' trc_step

theorem trc_finishSeqAttribute (opts : DecOpts) (st : SeqAttState) (n : Nat) (mp : Option (List Nat)) {d : Nat} :
    TrC bs X d (finishSeqAttribute opts st n mp) (fun _ => d) (fun _ => True) := by
  unfold finishSeqAttribute; dsimp only
  repeat' trc_step

theorem trc_readSchemeEb (kind : Nat) {d : Nat} :
    TrC bs X d (readSchemeEb kind) (fun _ => d) (fun _ => True) := by
  unfold readSchemeEb; dsimp only
  repeat' trc_step

theorem trc_parentSourcesEb (scheme : Scheme) (pointIds : Array Nat) (parent : Option Parent) {d : Nat} :
    TrC bs X d (parentSourcesEb scheme pointIds parent) (fun _ => d) (fun _ => True) := by
  unfold parentSourcesEb; dsimp only
  repeat' trc_step

theorem trc_readCodedValuesEb (pre20 : Bool) (nv nc : Nat) {d : Nat} :
    TrC bs X d (readCodedValuesEb pre20 nv nc) (fun _ => d) (fun _ => True) := by
  unfold readCodedValuesEb
  repeat' trc_step

set_option maxHeartbeats 4000000 in
theorem trc_applySchemeEb (ver : Nat) (scheme : Scheme) (md : MeshData) (pos : PosSource) (posF : PosSourceF) (nc : Nat)
    (vals : Array Int) {d : Nat} (hnf : md.t.numFaces ≤ d) :
    TrC bs X d (applySchemeEb ver scheme md pos posF nc vals) (fun _ => d) (fun _ => True) := by
  unfold applySchemeEb; dsimp only
  repeat' trc_step

attribute [local irreducible] readSchemeEb parentSourcesEb readCodedValuesEb applySchemeEb decodeTransformParams in
theorem trc_decodeIntegerValuesEb (hX : ∀ e, ebX e → X e) (kind ne nc ac : Nat) (md : MeshData) (pointIds : Array Nat)
    (parent : Option Parent) {d : Nat} (hnf : md.t.numFaces ≤ d) :
    TrC bs X d (decodeIntegerValuesEb kind ne nc ac md pointIds parent) (fun _ => d) (fun _ => True) := by
  unfold decodeIntegerValuesEb; dsimp only
  repeat' (first | exact trc_readSchemeEb _ | exact trc_parentSourcesEb _ _ _ | exact trc_readCodedValuesEb _ _ _ | (exact trc_applySchemeEb _ _ _ _ _ _ _ hnf) | exact trc_decodeTransformParams _ _ | trc_step)

theorem trc_createAttributeDecoders (ver numAtt numDecoders : Nat) {d : Nat} :
    TrC bs X d (createAttributeDecoders ver numAtt numDecoders) (fun _ => d) (fun _ => True) := by
  unfold createAttributeDecoders; dsimp only
  repeat' trc_step

theorem trc_decodeDecoderDescs (hb : IsBytes bs) (i : Nat) {d : Nat} :
    TrC bs X d (decodeDecoderDescs i) (fun _ => d) (fun _ => True) := by
  unfold decodeDecoderDescs
  refine trc_bind (trc_decodeAttDescs hb d) (fun descs hd => ?_)
  have := hd.1
  repeat' trc_step

attribute [local irreducible] decodeIntegerValuesEb storeValuesCheck in
theorem trc_decodePortable (hX : ∀ e, ebX e → X e) (ver : Nat) (skip : List Nat) (posAtt : Option Nat)
    (all : Array EbAttState) (md : MeshData) (pointIds m : Array Nat) (done : List EbAttState) (s0 : EbAttState)
    {d : Nat} (hnf : md.t.numFaces ≤ d) :
    TrC bs X d (decodePortable ver skip posAtt all md pointIds m done s0) (fun _ => d) (fun _ => True) := by
  unfold decodePortable; dsimp only
  repeat' (first | exact trc_decodeIntegerValuesEb hX _ _ _ _ _ _ _ hnf | exact trc_storeValuesCheck _ | trc_step)

theorem trc_decodePortables (hX : ∀ e, ebX e → X e) (ver : Nat) (skip : List Nat) (posAtt : Option Nat)
    (all : Array EbAttState) (md : MeshData) (pointIds m : Array Nat) (done : List EbAttState)
    {d : Nat} (hnf : md.t.numFaces ≤ d) :
    ∀ (mine acc : List EbAttState),
      TrC bs X d (decodePortables ver skip posAtt all md pointIds m done mine acc) (fun _ => d) (fun _ => True)
  | [], acc => by simp only [decodePortables]; exact trc_pure trivial
  | s :: rest, acc => by
    simp only [decodePortables]
    exact trc_bind_any (trc_decodePortable hX _ _ _ _ _ _ _ _ _ hnf)
      (fun _ => trc_decodePortables hX _ _ _ _ _ _ _ _ hnf rest _)

attribute [local irreducible] decodeTransformParams in
theorem trc_decodeDataNeeded (ver : Nat) (s : EbAttState) {d : Nat} :
    TrC bs X d (decodeDataNeeded ver s) (fun _ => d) (fun _ => True) := by
  unfold decodeDataNeeded
  repeat' (first | exact trc_decodeTransformParams _ _ | trc_step)

attribute [local irreducible] storeValuesCheck in
theorem trc_transformCheck (opts : DecOpts) (ver : Nat) (s : EbAttState) {d : Nat} :
    TrC bs X d (transformCheck opts ver s) (fun _ => d) (fun _ => True) := by
  unfold transformCheck; dsimp only
  repeat' (first | exact trc_storeValuesCheck _ | trc_step)

attribute [local irreducible] decodePortables decodeDataNeeded transformCheck in
theorem trc_decodeOneDecoder (hX : ∀ e, ebX e → X e) (opts : DecOpts) (ver : Nat) (mesh : Mesh) (posAtt : Option Nat)
    (all : Array EbAttState) (i : Nat) (dec : AttDecoder) (mine done : List EbAttState) {d : Nat}
    (hnf : mesh.numFaces ≤ d) :
    TrC bs X d (decodeOneDecoder opts ver mesh posAtt all i dec mine done) (fun _ => d) (fun _ => True) := by
  unfold decodeOneDecoder; dsimp only
  repeat' (first
    | exact trc_decodePortables hX _ _ _ _ _ _ _ _ (by dsimp only [viewOfDecoder]; split <;> exact hnf) _ _
    | exact trc_decodeDataNeeded _ _ | exact trc_transformCheck _ _ _ | trc_step)

theorem trc_decodeDecoders (hX : ∀ e, ebX e → X e) (opts : DecOpts) (ver : Nat) (mesh : Mesh) (posAtt : Option Nat)
    (all : Array EbAttState) {d : Nat} (hnf : mesh.numFaces ≤ d) :
    ∀ (work : List (Nat × AttDecoder × List EbAttState)) (done : List EbAttState),
      TrC bs X d (decodeDecoders opts ver mesh posAtt all work done) (fun _ => d) (fun _ => True)
  | [], done => by simp only [decodeDecoders]; exact trc_pure trivial
  | (i, dec, mine) :: rest, done => by
    simp only [decodeDecoders]
    exact trc_bind_any (trc_decodeOneDecoder hX _ _ _ _ _ _ _ _ _ hnf)
      (fun _ => trc_decodeDecoders hX _ _ _ _ _ hnf rest _)

attribute [local irreducible] createAttributeDecoders decodeDecoderDescs decodeDecoders finishSeqAttribute in
theorem trc_decodeAttributes (hb : IsBytes bs) (hX : ∀ e, ebX e → X e) (opts : DecOpts) (ver : Nat) (mesh : Mesh)
    {d : Nat} (hnf : mesh.numFaces ≤ d) :
    TrC bs X d (decodeAttributes opts ver mesh) (fun _ => d) (fun _ => True) := by
  unfold decodeAttributes; dsimp only
  repeat' (first | exact trc_createAttributeDecoders _ _ _ | (exact trc_decodeDecoderDescs hb _) | exact trc_decodeDecoders hX _ _ _ _ _ hnf _ _ | exact trc_finishSeqAttribute _ _ _ _ | trc_step)

attribute [local irreducible] decodeConnectivity decodeAttributes in
/-- **the Edgebreaker body decoder keeps the classified allocation invariant**: from a state in which every
    allocation event is within the linear bound `A + K·(length + declared)` or in the class `X`, every outcome
    — accepted or rejected — is such a state again, `X` containing the four table-sized sites `ebX` -/
theorem trc_decodeEdgebreaker (hb : IsBytes bs) (hX : ∀ e, ebX e → X e) (opts : DecOpts) :
    TrC bs X 0 (decodeEdgebreaker opts) (fun _ => 0) (fun _ => True) := by
  unfold decodeEdgebreaker
  refine trc_bind trc_version (fun ver _ => ?_)
  refine trc_bind (trc_decodeConnectivity hb) (fun mesh _ => ?_)
  refine trc_bind_any (F := fun _ => True) ?_ (fun _ => ?_)
  · exact trc_forIn_list _ (fun _ _ => trc_bind_any (trc_tag _) (fun _ => trc_pure trivial)) _ _
  refine trc_bind_any (trc_decodeAttributes hb hX opts ver mesh (by omega)) (fun atts => ?_)
  exact trc_weaken (trc_pure (F := fun _ => True) trivial) (fun _ _ => Nat.zero_le _) (fun _ h => h)

end Draco.Eb
