import DracoProofs.RansCreate
import DracoProofs.MergeSort
/-
  The over-allocation loop of `RAnsSymbolEncoder::Create` (`while (error > 0) { for (j = …) }`)
  for an oracle whose `rescale` is contractive (`rescale P A p ≤ p` when `P < A`) and monotone
  in `p`: one run of the `for` loop maps every table entry it visits through one monotone
  function, so the order established by the sort survives, every run lowers `error`, and the
  "most frequent symbol would be empty" exit is never taken.
-/
namespace Draco

/-- sum of the table entries with the indices `l` -/
def sumOn (a : Array Nat) (l : List Nat) : Nat := (l.map fun i => a.getD i 0).sum

theorem sumOn_cons (a : Array Nat) (s : Nat) (l : List Nat) :
    sumOn a (s :: l) = a.getD s 0 + sumOn a l := by simp [sumOn]

theorem sumOn_congr (a b : Array Nat) (l : List Nat) (h : ∀ j ∈ l, a.getD j 0 = b.getD j 0) :
    sumOn a l = sumOn b l := by
  simp only [sumOn]
  congr 1
  exact List.map_congr_left h

theorem sumOn_reverse (a : Array Nat) (l : List Nat) : sumOn a l.reverse = sumOn a l := by
  simp [sumOn, List.sum_reverse]

theorem sumOn_perm (a : Array Nat) (l l' : List Nat) (h : l.Perm l') : sumOn a l = sumOn a l' := by
  simp only [sumOn]
  exact (h.map _).sum_nat

theorem sumOn_le (a : Array Nat) (g : Nat → Nat) : ∀ (l : List Nat),
    (∀ j ∈ l, a.getD j 0 ≤ g j) → sumOn a l ≤ (l.map g).sum := by
  intro l
  induction l with
  | nil => intro _; simp [sumOn]
  | cons s l ih =>
    intro h
    rw [sumOn_cons, List.map_cons, List.sum_cons]
    have h1 := h s (by simp)
    have h2 := ih (fun j hj => h j (by simp [hj]))
    omega

/-- `fix` before the clamp `if (fix > error) fix = error` -/
def rescaleFix2 (p newProb : Nat) : Int :=
  let fix0 : Int := (p : Int) - (newProb : Int)
  let fix1 : Int := if fix0 = 0 then 1 else fix0
  if fix1 ≥ (p : Int) then (p : Int) - 1 else fix1

theorem rescaleFix_eq (p np : Nat) (err : Int) :
    rescaleFix p np err = if rescaleFix2 p np > err then err else rescaleFix2 p np := rfl

theorem rescaleFix2_bounds (p np : Nat) (hp : 1 < p) (hnp : np ≤ p) :
    1 ≤ rescaleFix2 p np ∧ rescaleFix2 p np ≤ (p : Int) - 1 := by
  simp only [rescaleFix2]
  split <;> split <;> omega

/-- what one run of the `for` loop does to an entry (when the run is not cut short by
    `total_rans_prob == rans_precision_`) -/
def passMap (R : Nat → Nat) (p : Nat) : Nat :=
  if p ≤ 1 then p else ((p : Int) - rescaleFix2 p (R p)).toNat

theorem passMap_mono (R : Nat → Nat) (hle : ∀ p, R p ≤ p) (hmono : ∀ p q, p ≤ q → R p ≤ R q)
    (p q : Nat) (h : p ≤ q) : passMap R p ≤ passMap R q := by
  have h1 := hle p
  have h2 := hle q
  have h3 := hmono p q h
  simp only [passMap, rescaleFix2]
  split <;> split <;> (try split) <;> (try split) <;> (try split) <;> (try split) <;> omega

theorem passMap_ge_one (R : Nat → Nat) (hle : ∀ p, R p ≤ p) (p : Nat) (hp : 1 < p) :
    1 ≤ passMap R p := by
  have := rescaleFix2_bounds p (R p) hp (hle p)
  simp only [passMap]
  split
  · omega
  · omega

theorem rescalePass_first (o : ProbOracle) (P A : Nat) (s : Nat) (l : List Nat) (st : RescaleSt)
    (h : 1 < st.probs.getD s 0) :
    rescalePass o P A (s :: l) true st = rescalePass o P A (s :: l) false st := by
  have : ¬ st.probs.getD s 0 ≤ 1 := by omega
  simp only [rescalePass, this, if_false]

/-- one run of the `for` loop, started with `0 < error = total - P` on a list of distinct
    in-range ids along which the table is descending -/
theorem rescalePass_spec (o : ProbOracle) (P A : Nat)
    (hle : ∀ p, o.rescale P A p ≤ p) :
    ∀ (l : List Nat) (st : RescaleSt), l.Nodup → (∀ j ∈ l, j < st.probs.size) →
      l.Pairwise (fun a b => st.probs.getD b 0 ≤ st.probs.getD a 0) →
      0 < st.error → st.error = st.total - (P : Int) →
      ∃ st', rescalePass o P A l false st = some st' ∧ st'.probs.size = st.probs.size ∧
        (∀ i, i ∉ l → st'.probs.getD i 0 = st.probs.getD i 0) ∧
        st'.error = st'.total - (P : Int) ∧ 0 ≤ st'.error ∧ st'.error ≤ st.error ∧
        st.total - st'.total = (sumOn st.probs l : Int) - (sumOn st'.probs l : Int) ∧
        (∀ j ∈ l, st'.probs.getD j 0 ≤ st.probs.getD j 0 ∧
          (st.probs.getD j 0 = 0 → st'.probs.getD j 0 = 0)) ∧
        (0 < st'.error → ∀ j ∈ l,
          st'.probs.getD j 0 = passMap (o.rescale P A) (st.probs.getD j 0)) ∧
        (∀ s tl, l = s :: tl → 1 < st.probs.getD s 0 → st'.error < st.error) := by
  intro l
  induction l with
  | nil =>
    intro st _ _ _ hpos herr
    refine ⟨st, by simp [rescalePass], rfl, fun _ _ => rfl, herr, by omega, by omega, by simp [sumOn],
      by simp, by simp, by simp⟩
  | cons s l ih =>
    intro st hnd hlt hdesc hpos herr
    have hsl : s ∉ l := (List.nodup_cons.mp hnd).1
    have hndl : l.Nodup := (List.nodup_cons.mp hnd).2
    have hs : s < st.probs.size := hlt s (by simp)
    simp only [rescalePass]
    by_cases hp : st.probs.getD s 0 ≤ 1
    · -- `break`
      simp only [hp, if_true, Bool.false_eq_true, if_false]
      refine ⟨st, rfl, rfl, fun _ _ => rfl, herr, by omega, by omega, by omega,
        fun j _ => ⟨Nat.le_refl _, fun h => h⟩, ?_, ?_⟩
      · intro _ j hj
        have hj1 : st.probs.getD j 0 ≤ 1 := by
          rcases List.mem_cons.mp hj with h | h
          · subst h; exact hp
          · exact Nat.le_trans ((List.pairwise_cons.mp hdesc).1 j h) hp
        rw [passMap, if_pos hj1]
      · intro s' tl e h1
        simp only [List.cons.injEq] at e
        obtain ⟨rfl, _⟩ := e
        omega
    · simp only [hp, if_false]
      have hp' : 1 < st.probs.getD s 0 := by omega
      have hb := rescaleFix2_bounds (st.probs.getD s 0) (o.rescale P A (st.probs.getD s 0)) hp'
        (hle _)
      have hfix := rescaleFix_eq (st.probs.getD s 0) (o.rescale P A (st.probs.getD s 0)) st.error
      generalize hfx : rescaleFix (st.probs.getD s 0) (o.rescale P A (st.probs.getD s 0)) st.error
        = fix at hfix
      generalize hf2def : rescaleFix2 (st.probs.getD s 0) (o.rescale P A (st.probs.getD s 0)) = f2
        at hfix hb
      have hf1 : 1 ≤ fix := by
        by_cases hc : f2 > st.error
        · rw [if_pos hc] at hfix; omega
        · rw [if_neg hc] at hfix; omega
      have hf2 : fix ≤ (st.probs.getD s 0 : Int) - 1 := by
        by_cases hc : f2 > st.error
        · rw [if_pos hc] at hfix; omega
        · rw [if_neg hc] at hfix; omega
      have hf3 : fix ≤ st.error := by
        by_cases hc : f2 > st.error
        · rw [if_pos hc] at hfix; omega
        · rw [if_neg hc] at hfix; omega
      generalize hv : ((st.probs.getD s 0 : Int) - fix).toNat = v
      have hvp : (v : Int) = (st.probs.getD s 0 : Int) - fix := by omega
      -- the table after the step
      have hget : ∀ i, (st.probs.setIfInBounds s v).getD i 0
          = if i = s then v else st.probs.getD i 0 := by
        intro i
        rw [getD_setIfInBounds]
        by_cases hi : i = s
        · simp [hi, hs]
        · simp [hi]
      have hsum1 : sumOn (st.probs.setIfInBounds s v) l = sumOn st.probs l := by
        apply sumOn_congr
        intro j hj
        rw [hget]
        have : j ≠ s := fun e => hsl (e ▸ hj)
        simp [this]
      by_cases htot : st.total - fix = (P : Int)
      · -- `total_rans_prob == rans_precision_`: the run (and the loop) ends
        simp only [htot, if_true]
        refine ⟨_, rfl, by simp, ?_, by simp only; omega, by simp only; omega, by simp only; omega, ?_, ?_, ?_, ?_⟩
        · intro i hi
          rw [hget]
          have : i ≠ s := fun e => hi (by simp [e])
          simp [this]
        · simp only
          rw [sumOn_cons, sumOn_cons, hsum1, hget]
          simp only [if_true]
          push_cast
          omega
        · intro j hj
          simp only
          rw [hget]
          by_cases hjs : j = s
          · subst hjs
            simp only [if_true]
            omega
          · simp [hjs]
        · intro h; simp only at h; omega
        · intro s' tl e _
          simp only
          omega
      · simp only [htot, if_false]
        obtain ⟨st', e, hsz, hout, herr', h0, hle', hsum, hbd, hmap, _⟩ :=
          ih ⟨st.probs.setIfInBounds s v, st.total - fix, st.error - fix⟩ hndl
            (fun j hj => by simpa using hlt j (by simp [hj]))
            (by
              refine (List.pairwise_cons.mp hdesc).2.imp_of_mem ?_
              intro a b ha hb h
              simp only
              rw [hget, hget]
              have h1 : a ≠ s := fun e => hsl (e ▸ ha)
              have h2 : b ≠ s := fun e => hsl (e ▸ hb)
              simpa [h1, h2] using h)
            (by simp only; omega) (by simp only; omega)
        simp only at hsz hout herr' h0 hle' hsum hbd hmap
        have hs' : st'.probs.getD s 0 = v := by
          rw [hout s hsl, hget]; simp
        refine ⟨st', e, by rw [hsz]; simp, ?_, herr', h0, by omega, ?_, ?_, ?_, ?_⟩
        · intro i hi
          have h1 : i ∉ l := fun h => hi (by simp [h])
          have h2 : i ≠ s := fun e => hi (by simp [e])
          rw [hout i h1, hget]; simp [h2]
        · rw [sumOn_cons, sumOn_cons, hs']
          rw [hsum1] at hsum
          push_cast
          omega
        · intro j hj
          rcases List.mem_cons.mp hj with h | h
          · subst h
            rw [hs']; omega
          · have := hbd j h
            rw [hget] at this
            have hjs : j ≠ s := fun e => hsl (e ▸ h)
            simpa [hjs] using this
        · intro hpos' j hj
          rcases List.mem_cons.mp hj with h | h
          · subst h
            rw [hs']
            simp only [passMap, hp, if_false]
            have : fix = f2 := by
              by_cases hc : f2 > st.error
              · rw [if_pos hc] at hfix; omega
              · rw [if_neg hc] at hfix; exact hfix
            rw [hf2def, ← this]; exact hv.symm
          · have := hmap hpos' j h
            rw [hget] at this
            have hjs : j ≠ s := fun e => hsl (e ▸ h)
            simpa [hjs] using this
        · intro s' tl _ _
          omega

end Draco
