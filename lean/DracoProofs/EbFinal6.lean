import DracoProofs.EbFinal5
import DracoProofs.EbSeqSuccess2
/-
  Widening the class of `sidesOfDecoder_ok_of_link` / `eb_roundtrip_of_link_base'` (EbFinal5.lean) to EVERY controller on
  the base table (`onAttTable = false`): prediction-degree controllers (`maxPredictionDegree_success_transfer`) and
  non-POSITION first attributes without interior seams.
-/
namespace Draco.EbEnc
open Draco Draco.SeqEnc DecM
open Draco.Eb hiding iabs nextC prevC

namespace Final6
open PosAgreeP Tuples FaceCorr PlanSettingP Final2 Final3 Final4 Final5 EncCounts

/-- a controller output that does not traverse an attribute corner table lives on the base table on both sides -/
theorem ctrl_base_off (ch : EbChoices) (g : Geometry) (md : Option GeometryMetadata) (o : EbOpts) (enc : Encoded)
    (henc : encodeEdgebreaker ch g md o = .ok enc) (c : CtrlOut) (hc : c ∈ enc.couts.toList)
    (hoff : (enc.controllers[c.ctrl]!).onAttTable = false) :
    c.view = enc.conn.ct.view ∧ (decOfController enc.conn (enc.controllers[c.ctrl]!)).cornerDecoder = false := by
  obtain ⟨mdBytes, coder, posFaces, acv, cs, couts, h1, h2, h3, h4, h5, h6, h7, h8, h9, h10, _⟩ :=
    (encodeEdgebreaker_stages ch g md o enc henc).stages
  have hchain := encodeControllers_chain ch o g enc.conn cs _ _ _ _ _ h8
  have hord := rearrangeEncoders_order h7
  have hc' : c ∈ couts := by rw [h10] at hc; simpa using hc
  obtain ⟨e, p', hemem, hrun⟩ := chain_mem hchain c hc'
  obtain ⟨_, _, hview, _, _, _, _, hce⟩ := encodeController_spec ch o g enc.conn cs _ _ e p' c hrun
  have helt : e < cs.size := hord.2.1 e (by simpa using hemem)
  have hmem : cs[c.ctrl]! ∈ cs := by rw [hce]; exact getElem!_mem_of_lt cs e helt
  have hoff' : (cs[c.ctrl]!).onAttTable = false := by rw [← h9]; exact hoff
  rcases (generateControllers_ctrlOk h5 _ hmem).offTable hoff' with hs | hp | ⟨hnn, hni⟩
  · exact ctrl_base ch g md o enc henc c hc (Or.inl hs)
  · exact ctrl_base ch g md o enc henc c hc (Or.inr (by rw [h9]; exact hp))
  · rw [← hce] at hview
    refine ⟨viewOfController_off hoff' hview, ?_⟩
    rw [h9]
    show (!(decide ((cs[c.ctrl]!).attDataId < 0) ||
      (enc.conn.atts[(cs[c.ctrl]!).attDataId.toNat]!).conn.noInteriorSeams)) = false
    simp [hni]

/-- the point map of a base-table decoder succeeds on the output of a traversal that corresponds to the encoder's -/
theorem pointMap_ok_of_sim {enc : Encoded} {mesh : Mesh} {ψ : Nat → Nat} {facesE : Array Nat}
    (hB : TVIso (baseViewD mesh.numFaces mesh.c2v mesh.opp mesh.vc) enc.conn.ct.view (phi enc.conn.processed) ψ)
    (hg : Hedge (baseViewD mesh.numFaces mesh.c2v mesh.opp mesh.vc))
    (href : PointsRefineVertices (baseViewD mesh.numFaces mesh.c2v mesh.opp mesh.vc) mesh.faces) (hS : DecSeqOK mesh)
    {outD outE : SeqOut}
    (hsim : ∃ fvD vvD fvE vvE, TravCore (baseViewD mesh.numFaces mesh.c2v mesh.opp mesh.vc) enc.conn.ct.view
        (phi enc.conn.processed) ψ mesh.faces facesE fvD vvD outD fvE vvE outE ∧
      (∀ j, j < (baseViewD mesh.numFaces mesh.c2v mesh.opp mesh.vc).numFaces → fvD[j]? = some true) ∧
      (Hedge (baseViewD mesh.numFaces mesh.c2v mesh.opp mesh.vc) →
        JInv (baseViewD mesh.numFaces mesh.c2v mesh.opp mesh.vc) fvD vvD)) :
    ∃ m, pointToValueMap (baseViewD mesh.numFaces mesh.c2v mesh.opp mesh.vc) mesh.faces mesh.numPoints
      outD.v2d = .ok m := by
  obtain ⟨fvD, vvD, fvE, vvE, hco, hall, hj⟩ := hsim
  have hent := entries_le_points hB hco href mesh.numPoints hS.hfp
  apply pointToValueMap_success
  · intro k hk
    obtain ⟨v, a1, a2, _, _⟩ := hB.vertex k hk
    have hnF : (baseViewD mesh.numFaces mesh.c2v mesh.opp mesh.vc).numFaces = mesh.numFaces := rfl
    have hseen := hj hg k hk (hall (k / 3) (by omega)) v a1
    obtain ⟨p, hp, hpv'⟩ := hco.vis v hseen
    have s2 := (hco.seen p hp v hpv').2.1
    have hnp := hS.hnp
    have hNV := hS.hNV
    have a2' : v < mesh.vc.size := a2
    have hfa := hS.hfa
    exact ⟨v, p, by omega, a1, by omega, s2, hS.hfp k hk, by omega, by omega⟩
  · exact hS.hcov

/-- **one decoder side succeeds**: any controller on the base table (either traversal method) -/
theorem sideOfDecoder_ok_off (ch : EbChoices) (g : Geometry) (md : Option GeometryMetadata) (o : EbOpts) (enc : Encoded)
    (henc : encodeEdgebreaker ch g md o = .ok enc) (mesh : Mesh)
    (hiso : CTIso enc.conn.ct enc.conn.processed mesh.numFaces mesh.c2v mesh.opp) (hD : DecBaseOK enc mesh)
    (hS : DecSeqOK mesh) (c : CtrlOut) (hc : c ∈ enc.couts.toList)
    (hoff : (enc.controllers[c.ctrl]!).onAttTable = false) :
    ∃ side, sideOfDecoder mesh (decOfController enc.conn (enc.controllers[c.ctrl]!)) = .ok side := by
  obtain ⟨hview, hpv⟩ := ctrl_base_off ch g md o enc henc c hc hoff
  obtain ⟨posFaces, acv, table, _, hcreate, hct, _⟩ := table_of_run ch g md o enc henc
  have hB := baseIso_of_link ch g md o enc henc mesh hiso hD
  have hg : Hedge (baseViewD mesh.numFaces mesh.c2v mesh.opp mesh.vc) := by
    have hB' := hB
    rw [hct] at hB'
    exact Hedge.of_iso_hedge hB' (hedge_ofTable hcreate)
  -- the encoder's run and the method
  obtain ⟨hseqE, hmlt⟩ : sequenceOfController g enc.conn (enc.controllers[c.ctrl]!) enc.conn.ct.view = .ok c.seq ∧
      (enc.controllers[c.ctrl]!).traversalMethod < 2 := by
    obtain ⟨mdBytes, coder, posFaces, acv, cs, couts, h1, h2, h3, h4, h5, h6, h7, h8, h9, h10, _⟩ :=
      (encodeEdgebreaker_stages ch g md o enc henc).stages
    have hchain := encodeControllers_chain ch o g enc.conn cs _ _ _ _ _ h8
    have hord := rearrangeEncoders_order h7
    have hc' : c ∈ couts := by rw [h10] at hc; simpa using hc
    obtain ⟨e, p', hemem, hrun⟩ := chain_mem hchain c hc'
    obtain ⟨_, _, _, hs, _, _, _, hce⟩ := encodeController_spec ch o g enc.conn cs _ _ e p' c hrun
    have helt : e < cs.size := hord.2.1 e (by simpa using hemem)
    have hmem : cs[c.ctrl]! ∈ cs := by rw [hce]; exact getElem!_mem_of_lt cs e helt
    rw [← hce, ← h9, hview] at hs
    exact ⟨hs, by rw [h9]; exact generateControllers_traversalMethod_lt h5 _ hmem⟩
  set dec := decOfController enc.conn (enc.controllers[c.ctrl]!) with hdec
  set v2dSize := (if dec.attDataId < 0 then mesh.vc.size
    else max (mesh.atts[dec.attDataId.toNat]!).lm.size mesh.vc.size) with hv2def
  have hv2 : (baseViewD mesh.numFaces mesh.c2v mesh.opp mesh.vc).numVertices ≤ v2dSize := by
    show mesh.vc.size ≤ v2dSize
    rw [hv2def]
    split <;> omega
  have horder : ∀ i, i < (baseViewD mesh.numFaces mesh.c2v mesh.opp mesh.vc).numFaces →
      enc.conn.processed[i]! = phi enc.conn.processed (3 * i) := fun i _ => (phi_three enc.conn.processed i).symm
  unfold sequenceOfController at hseqE
  simp only [] at hseqE
  have hcases : (enc.controllers[c.ctrl]!).traversalMethod = 0 ∨ (enc.controllers[c.ctrl]!).traversalMethod = 1 := by
    omega
  -- in both cases: the decoder's sequence and the simulation facts
  obtain ⟨outD, hseqD, hsim⟩ : ∃ outD, sequenceOfDecoder mesh dec = .ok outD ∧
      ∃ fvD vvD fvE vvE, TravCore (baseViewD mesh.numFaces mesh.c2v mesh.opp mesh.vc) enc.conn.ct.view
        (phi enc.conn.processed) (psi enc.conn.ct enc.conn.processed mesh.numFaces mesh.c2v) mesh.faces
        (flattenFaces g.faces).toArray fvD vvD outD fvE vvE c.seq ∧
      (∀ j, j < (baseViewD mesh.numFaces mesh.c2v mesh.opp mesh.vc).numFaces → fvD[j]? = some true) ∧
      (Hedge (baseViewD mesh.numFaces mesh.c2v mesh.opp mesh.vc) →
        JInv (baseViewD mesh.numFaces mesh.c2v mesh.opp mesh.vc) fvD vvD) := by
    rcases hcases with hm0 | hm1
    · have hmD : dec.traversalMethod = 0 := hm0
      simp only [hm0] at hseqE
      have hE : depthFirstOrder enc.conn.ct.view (flattenFaces g.faces).toArray enc.conn.processed
          (Array.replicate enc.conn.ct.view.numVertices inv) = .ok c.seq := by
        simpa [predictionDegree_toNat] using hseqE
      obtain ⟨outD, hDrun⟩ := depthFirst_success_transfer (facesD := mesh.faces) hB hS.hNV hS.hfa enc.conn.processed _
        v2dSize hv2 hiso.faces.symm horder c.seq hE
      refine ⟨outD, ?_, depthFirst_sim hB enc.conn.processed _ v2dSize hiso.faces.symm horder outD c.seq hDrun hE⟩
      unfold sequenceOfDecoder
      simp only [hmD, viewOfDecoder_base mesh dec hpv]
      simpa [predictionDegree_toNat] using hDrun
    · have hmD : dec.traversalMethod = 1 := hm1
      simp only [hm1] at hseqE
      have hE : maxPredictionDegreeOrder enc.conn.ct.view (flattenFaces g.faces).toArray enc.conn.processed
          (Array.replicate enc.conn.ct.view.numVertices inv) = .ok c.seq := by
        simpa [predictionDegree_toNat] using hseqE
      obtain ⟨outD, hDrun⟩ := maxPredictionDegree_success_transfer (facesD := mesh.faces) hB hS.hfa enc.conn.processed _
        v2dSize hv2 hiso.faces.symm horder c.seq hE
      refine ⟨outD, ?_, maxPredictionDegree_sim hB enc.conn.processed _ v2dSize hiso.faces.symm horder outD c.seq hDrun hE⟩
      unfold sequenceOfDecoder
      simp only [hmD, hpv, viewOfDecoder_base mesh dec hpv]
      simpa [predictionDegree_toNat] using hDrun
  obtain ⟨m, hm⟩ := pointMap_ok_of_sim hB hg hD.refines hS hsim
  refine ⟨(outD, m), ?_⟩
  unfold sideOfDecoder
  simp only [bind, Except.bind, hseqD, viewOfDecoder_base mesh dec hpv, hm]
  rfl

/-- **`hseq` from the link** when every controller output is on the base table -/
theorem sidesOfDecoder_ok_of_link' (ch : EbChoices) (g : Geometry) (md : Option GeometryMetadata) (o : EbOpts)
    (enc : Encoded) (henc : encodeEdgebreaker ch g md o = .ok enc) (mesh : Mesh)
    (hiso : CTIso enc.conn.ct enc.conn.processed mesh.numFaces mesh.c2v mesh.opp) (hD : DecBaseOK enc mesh)
    (hS : DecSeqOK mesh)
    (hclass : ∀ c ∈ enc.couts.toList, (enc.controllers[c.ctrl]!).onAttTable = false) :
    ∃ sides, sidesOfDecoder mesh enc.conn enc.controllers enc.couts.toList = .ok sides :=
  sidesOfDecoder_ok mesh enc.conn enc.controllers _ (fun c hc =>
    sideOfDecoder_ok_off ch g md o enc henc mesh hiso hD hS c hc (hclass c hc))

/-- **eb_roundtrip_of_link_base''**: `eb_roundtrip_of_link_base'` for the class "every controller output is on the base
    table" (`onAttTable = false`; either traversal method, any first attribute).  `hrest` (the `TupleSetup` of the items
    that are neither under a single connectivity nor the POSITION attribute of a POSITION controller) and `hvals` remain,
    quantified over the sides the decoder's sequencer computes. -/
theorem eb_roundtrip_of_link_base'' (ch : EbChoices) (g : Geometry) (md : Option GeometryMetadata) (o : EbOpts)
    (enc : Encoded) (henc : encodeEdgebreaker ch g md o = .ok enc) (hmd : ∀ m, md = some m → m.WF')
    (hatt : ∀ a, a < g.atts.toArray.size → EbAttOK (g.atts.toArray[a]!) (o.base.att a))
    (huid : (g.atts.map (·.uniqueId)).Nodup) (hn128 : g.atts.length ≤ 128)
    (hbytes : ∀ a ∈ g.atts, IsBytes a.values) (hgv : g.valid = true)
    (mesh : Mesh)
    (hconn : ∀ coder, traversalCoder o g.faces.length = some coder →
      Runs decodeConnectivity 514 ([coder] ++ enc.conn.bytes) mesh 514)
    (hiso : CTIso enc.conn.ct enc.conn.processed mesh.numFaces mesh.c2v mesh.opp)
    (hmatts : mesh.atts.size = enc.conn.atts.size)
    (hD : DecBaseOK enc mesh) (hS : DecSeqOK mesh)
    (hclass : ∀ c ∈ enc.couts.toList, (enc.controllers[c.ctrl]!).onAttTable = false)
    (hvals : ∀ sides, sidesOfDecoder mesh enc.conn enc.controllers enc.couts.toList = .ok sides → ∀ (i k : Nat)
      (hi : i < (planOf o g.atts.toArray enc.conn enc.controllers enc.couts.toList sides).length)
      (hk : k < (planOf o g.atts.toArray enc.conn enc.controllers enc.couts.toList sides)[i].items.length),
      ValuesOK mesh (planOf o g.atts.toArray enc.conn enc.controllers enc.couts.toList sides)[i]
        (parentAt (planOf o g.atts.toArray enc.conn enc.controllers enc.couts.toList sides) i k)
        (planOf o g.atts.toArray enc.conn enc.controllers enc.couts.toList sides)[i].items[k])
    (hrest : ∀ sides, sidesOfDecoder mesh enc.conn enc.controllers enc.couts.toList = .ok sides →
      ∀ c side it, (c, side) ∈ enc.couts.toList.zip sides → it ∈ c.items.toList →
      ¬ (useSingleConnectivity o = true ∨
        (((g.atts.toArray[(enc.controllers[c.ctrl]!).attIds[0]!]!).attType == posType) = true ∧
         ((g.atts.toArray[it.attId]!).attType == posType) = true)) →
      ∃ (dC : TView) (ψC : Nat → Nat) (np npD : Nat), dC.numFaces = mesh.numFaces ∧
        TupleSetup (g.atts.toArray[it.attId]!) np (flattenFaces g.faces).toArray mesh.faces npD dC c.view
          (phi enc.conn.processed) ψC side.1 c.seq side.2)
    (extra : Bytes) :
    ∃ sides, sidesOfDecoder mesh enc.conn enc.controllers enc.couts.toList = .ok sides ∧ ∃ st st',
      decodeGeometry {} { rest := enc.bytes ++ extra } =
        (some ⟨planGeometry {} mesh (planOf o g.atts.toArray enc.conn enc.controllers enc.couts.toList sides), md⟩, st) ∧
      st.rest = extra ∧
      decodeGeometry { skip := allTypes } { rest := enc.bytes ++ extra } =
        (some ⟨planGeometry { skip := allTypes } mesh
          (planOf o g.atts.toArray enc.conn enc.controllers enc.couts.toList sides), md⟩, st') ∧
      st'.rest = extra ∧
      Spec.checkCore .edgebreaker (quantReq g o.base) g
        (planGeometry {} mesh (planOf o g.atts.toArray enc.conn enc.controllers enc.couts.toList sides))
        (planGeometry { skip := allTypes } mesh
          (planOf o g.atts.toArray enc.conn enc.controllers enc.couts.toList sides)) = true := by
  obtain ⟨sides, hseq⟩ := sidesOfDecoder_ok_of_link' ch g md o enc henc mesh hiso hD hS hclass
  exact ⟨sides, hseq, eb_roundtrip_of_link_base ch g md o enc henc hmd hatt huid hn128 hbytes hgv mesh hconn hiso hmatts
    hD sides hseq (hvals sides hseq) (hrest sides hseq) extra⟩

/-! ### the one-triangle example from `eb_roundtrip_of_link_base''` -/

open ConnExample in
example (extra : Bytes) :
    ∃ st st',
      decodeGeometry {} { rest := exBytes ++ extra } = (some ⟨planGeometry {} exMesh exPlan, none⟩, st) ∧ st.rest = extra ∧
      decodeGeometry { skip := allTypes } { rest := exBytes ++ extra } =
        (some ⟨planGeometry { skip := allTypes } exMesh exPlan, none⟩, st') ∧ st'.rest = extra ∧
      Spec.checkCore .edgebreaker (quantReq exG exO.base) exG (planGeometry {} exMesh exPlan)
        (planGeometry { skip := allTypes } exMesh exPlan) = true := by
  have hiso : CTIso exEnc.conn.ct exEnc.conn.processed exMesh.numFaces exMesh.c2v exMesh.opp :=
    ctIso_sound _ _ _ _ _ (by decide +kernel) (by decide +kernel) (by decide +kernel) exIso
  have hseq0 : sidesOfDecoder exMesh exEnc.conn exEnc.controllers exEnc.couts.toList = .ok exSides := by
    have h : (match sidesOfDecoder exMesh exEnc.conn exEnc.controllers exEnc.couts.toList with
        | .ok s => decide (s = exSides) | .error _ => false) = true := by
      decide +kernel
    split at h
    · rename_i s hs; rw [hs, of_decide_eq_true h]
    · exact absurd h (by decide)
  have hsides : ∀ sides, sidesOfDecoder exMesh exEnc.conn exEnc.controllers exEnc.couts.toList = .ok sides →
      sides = exSides := by
    intro sides h
    rw [hseq0] at h
    exact (Except.ok.inj h).symm
  have hD : DecBaseOK exEnc exMesh :=
    { hdv := by decide +kernel
      hbd := by
        intro d hd
        have h3 : d < 3 := by
          have : exMesh.numFaces = 1 := by decide +kernel
          omega
        have : d = 0 ∨ d = 1 ∨ d = 2 := by omega
        rcases this with rfl | rfl | rfl <;> exact ⟨true, by decide +kernel, by decide +kernel⟩
      refines := by
        intro c c' hc hc'
        have hn : (baseViewD exMesh.numFaces exMesh.c2v exMesh.opp exMesh.vc).numFaces = 1 := by decide +kernel
        rw [hn] at hc hc'
        have h1 : c = 0 ∨ c = 1 ∨ c = 2 := by omega
        have h2 : c' = 0 ∨ c' = 1 ∨ c' = 2 := by omega
        rcases h1 with rfl | rfl | rfl <;> rcases h2 with rfl | rfl | rfl <;> decide +kernel }
  have hS : DecSeqOK exMesh :=
    { hNV := by decide +kernel, hnp := by decide +kernel, hfa := by decide +kernel, hfp := by decide +kernel,
      hcov := by decide +kernel }
  have hbytes : ∀ a ∈ exG.atts, IsBytes a.values := by
    have hb : (exG.atts.all fun a => a.values.all fun b => decide (b < 256)) = true := by decide +kernel
    intro a ha b hb'
    have h1 := List.all_eq_true.mp hb a ha
    have h2 := List.all_eq_true.mp h1 b hb'
    simpa using h2
  have hall : (exEnc.couts.toList.all fun c => c.items.toList.all fun it =>
      ((exG.atts.toArray[(exEnc.controllers[c.ctrl]!).attIds[0]!]!).attType == posType) &&
      ((exG.atts.toArray[it.attId]!).attType == posType)) = true := by decide +kernel
  have hcl : (exEnc.couts.toList.all fun c => !(exEnc.controllers[c.ctrl]!).onAttTable) = true := by decide +kernel
  obtain ⟨sides, hs, h⟩ := eb_roundtrip_of_link_base'' exCh exG none exO exEnc exEncode (fun m h => by cases h) exHatt
    exHuid (by decide +kernel) hbytes (by decide +kernel) exMesh exHconn hiso (by decide +kernel) hD hS
    (by
      intro c hc
      have := List.all_eq_true.mp hcl c hc
      simpa using this)
    (by
      intro sides hs
      rw [hsides sides hs]
      exact exHvals)
    (by
      intro sides hs c side it hz hit hn
      exfalso
      apply hn
      right
      have hc := (List.of_mem_zip hz).1
      have h1 := List.all_eq_true.mp hall c hc
      have h2 := List.all_eq_true.mp h1 it hit
      simpa using h2) extra
  rw [hsides sides hs, exEnc_bytes] at h
  exact h

end Final6

end Draco.EbEnc
