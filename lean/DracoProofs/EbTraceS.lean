import DracoProofs.EbTraceI
/-
  THE SYMBOL `S` AND THE TOPOLOGY SPLIT EVENTS (standard traversal): abstract encoder trace, pure decoder step, validated
  instances.  Extends DracoProofs/EbDecSim.lean (`Trace`, `DS`, `stepE/R/L/C`, `Inv`) and DracoProofs/EbTraceI.lean
  (`TraceI`: interior start faces).

  ## What the encoder does at `S` (DracoModel/EbEncConnectivity.lean)

  At a face with gate corner `c` whose right face `Opposite(Next(c))` and left face `Opposite(Previous(c))` are both
  unvisited the encoder emits `S` (symbol id `s`), records `face_to_split_symbol_map_[face] = s`, replaces the top of its
  stack by the LEFT corner and pushes the RIGHT corner: the right region is traversed first, then — from the left corner,
  if its face is still unvisited — the left region.  If the traversal of the right region comes round a handle or a hole
  and visits the left face from ANOTHER edge (at the symbol with id `q`: `R`, `L` or `E`, whose right (`edge = 1`) or left
  (`edge = 0`) neighbour is the `S` face), the encoder records the topology split event `(source = q, split = s, edge)` and
  later drops the stale stack entry.

  ## What the decoder does (DracoModel/EbConnectivity.lean, `connMain`), decoder index `j = n - 1 - id`

  * after `E / R / L` at index `j` (`checkSplit`): for every event with `source = n - 1 - j`:
    `splitActive[n - 1 - split] := Next / Previous (3 j)`  (`edge = 1 / 0`), i.e. the decoder corner `3 j + 1` / `3 j + 2`;
  * at `S` (index `j`): `cornerB` = the stack top `3 (j - 1)` (popped) — the RIGHT neighbour; `cornerA` = `splitActive[j]`
    if there is one, else the next stack entry `3 e` (the active corner of the component below) — the LEFT neighbour;
    `Opposite(3 j + 1) = cornerB`, `Opposite(3 j + 2) = cornerA`; the tip vertex of the new face exists twice
    (`vertexP = Vertex(Previous(cornerA))`, `vertexN = Vertex(Next(cornerB))`): `vertexN` is merged into `vertexP`.
    Without an event the stack shrinks by one (two components are joined), with an event its size is unchanged.

  In terms of the encoder's table `t` and the gate corners `P` (decoder order), for `S` at `j`, `c = P[j]`:
      `t.opp[Next c]  = P[j - 1]`                                   (right neighbour: the previous gate corner)
      `t.opp[Prev c]  = P[e]`, `e` = second entry of the index stack `stk j`           (no event)
      `t.opp[Prev c]  = Next P[q']` / `Prev P[q']`, `q' = n - 1 - source`              (event with `edge = 1 / 0`)

  ## Contents

  * `stk`, `hasEv`, `evOf`, `EvOK`, `SAt`, `TraceAtS`, `TraceS` (decidable) — the abstract trace with `S`, split events and
    arbitrary start faces (`TraceAtS.toTraceAt`: a face with another symbol satisfies `TraceAt`);
  * `DSS`, `applySplits`, `mergeV`, `stepS`, `stepSS`, `StS` — the pure decoder (the vertex merge as a relabelling of ALL
    corners of `vertexN`; `connMain` relabels the swing-left walk from `Next(cornerB)`, the same corners under the
    invariant `VInv.hedge + lm`);
  * validated instances: tables / `processed` / symbols / split events are what `encodeConnectivity exCh.conn false pf #[]`
    produces for a 2×2 grid (two `S`, joins of components), a 3×3 grid, a 3×3 grid with the middle quad removed (one
    GENUINE split event, `edge = 0`) and the 3×3 torus (two split events, `edge = 1`, interior start face); the expected
    decoder tables are the outputs of the real `connMain` on the same symbols and events (kind 0; checked by `#eval` for
    `c2v / opp / vc / hole / stack / invalid` on all four meshes, recorded here for three of them).

  * `OInv.stepS`, `oinv_stepS` (PROVED): the gluing part of the invariant is preserved by `stepS`.

  ## The invariant extension (design; only the `OInv` part is proved here)

  `OInv` (the decoder's `opp` = induced sub-table of the encoder's on the decoded faces) is unchanged: `stepS` glues
  exactly the two edges `SAt` names, `OInv.step` applies with `g (3j+1) = cornerB = 3 (j-1)`, `g (3j+2) = cornerA`
  (`OInv.stepS`; its hypotheses `phi P a = t.opp[Prev P[j]]`, `phi P b = t.opp[Next P[j]]` are `SAt` read through the
  stack invariant below: `b = 3 (j-1)`, `phi P b = P[j-1]`; `a = 3 e`, `phi P a = P[e]`, or `a = 3 q' + 1 / 2`,
  `phi P a = Next / Prev P[q']`).
  `VInv`: `csize`, `vlt`, `hedge`, `fine` survive the relabelling `mergeV` because it is a FUNCTION of the labels and the
  two merged decoder vertices are the same encoder vertex (`t.c2v[c]`: `Previous(cornerA)` and `Next(cornerB)` are corners
  of `Vertex(c)` by the two gluing equations and `TblOK.hedge`); `vsz` as before; `lm` must be restricted to LIVE vertices
  (`vc[v] ≠ inv`), the left-most corner of the merged vertex is the one of `vertexN` (`vc[vP] := vc[vN]`).  The stack
  invariant `stack.back! = 3 (j - 1)` becomes `stack = (stk j).reverse.map (3 * ·)` (several live components), and
  `splitActive[j'] = 3 q' + 1 / 2` for the events already passed.  `Inv.chain / cornerB_spec` (used by `C`) need "the
  fan of a vertex of the partial table is one swing chain", which the merge preserves: the chain of `vertexN` is put to
  the LEFT of the new corner `3 j`, the chain of `vertexP` to the right (`dopp[3j+1] = cornerB`, `dopp[3j+2] = cornerA`).
  The final compaction (`connCompact`) renumbers `invalid`; `CTIso` only needs the vertex PARTITION, which the compaction
  keeps.
-/
namespace Draco.EbEnc.DecSim
open Draco Draco.EbEnc
open Draco.Eb (inv TopoSplit)

/-! ## the abstract trace with `S` and split events -/

/-- an event targets the `S` at decoder index `j` -/
def evHits (n j : Nat) (ev : TopoSplit) : Bool := decide (ev.split < n) && decide (n - 1 - ev.split = j)

/-- there is a topology split event for the `S` at decoder index `j` (`n` symbols) -/
def hasEv (n : Nat) (evs : List TopoSplit) (j : Nat) : Bool := evs.any (evHits n j)

/-- … that event (unique in a trace) -/
def evOf (n : Nat) (evs : List TopoSplit) (j : Nat) : TopoSplit := (evs.find? (evHits n j)).getD ⟨0, 0, 0⟩

/-- the decoder's stack of active corners as face indices (top first) after the first `j` symbols: `E` pushes, `R / L / C`
    replace the top, `S` joins the two top components unless a split event supplies its left corner -/
def stk (syms : List Nat) (evs : List TopoSplit) : Nat → List Nat
  | 0 => []
  | j+1 =>
    let st := stk syms evs j
    if syms[j]! = 7 then j :: st
    else if syms[j]! = 1 then (if hasEv syms.length evs j then j :: st.tail else j :: st.tail.tail)
    else j :: st.tail

/-- the split events (decoder list order = reversed encoder order): ids in range, the source is decoded before the split
    symbol and is an `E / R / L`, the split symbol is an `S`, one event per `S`, sources in decreasing order (the decoder
    consumes the list from its head while the source matches) -/
def EvOK (syms : List Nat) (evs : List TopoSplit) : Prop :=
  (∀ ev, ev ∈ evs → ev.source < syms.length ∧ ev.split < ev.source ∧ ev.edge ≤ 1 ∧
    syms[syms.length - 1 - ev.split]! = 1 ∧
    (syms[syms.length - 1 - ev.source]! = 7 ∨ syms[syms.length - 1 - ev.source]! = 5 ∨
      syms[syms.length - 1 - ev.source]! = 3)) ∧
  (evs.map (·.split)).Nodup ∧ (evs.map (·.source)).Pairwise (· ≥ ·)

instance (syms : List Nat) (evs : List TopoSplit) : Decidable (EvOK syms evs) := by unfold EvOK; infer_instance

/-- the facts about an `S` at decoder index `j`: the right neighbour IS the previously decoded gate corner `P[j-1]`; the
    left neighbour is the gate corner of the component below on the stack (`P[(stk j)[1]]`), or — with a split event
    `(source, split, edge)` for this `S` — the corner `Next / Previous (P[n - 1 - source])` of the earlier decoded source
    face; the fan of the tip vertex is NOT closed by the faces decoded so far and face `j` (`¬ FanEarlier`: that would be
    the `C` situation; the encoder emits `S` only at a vertex it has visited before) -/
def SAt (t : CT) (P : Array Nat) (syms : List Nat) (evs : List TopoSplit) (j : Nat) : Prop :=
  0 < j ∧ t.opp[Eb.nextC P[j]!]! = P[j - 1]! ∧ ¬ FanEarlier t P j P[j]! ∧
  (hasEv syms.length evs j = false →
    1 < (stk syms evs j).length ∧ t.opp[Eb.prevC P[j]!]! = P[(stk syms evs j)[1]!]!) ∧
  (hasEv syms.length evs j = true →
    syms.length - 1 - (evOf syms.length evs j).source < j ∧
    t.opp[Eb.prevC P[j]!]! =
      (if (evOf syms.length evs j).edge = 1 then Eb.nextC P[syms.length - 1 - (evOf syms.length evs j).source]!
       else Eb.prevC P[syms.length - 1 - (evOf syms.length evs j).source]!))

instance (t : CT) (P : Array Nat) (syms : List Nat) (evs : List TopoSplit) (j : Nat) : Decidable (SAt t P syms evs j) := by
  unfold SAt; infer_instance

/-- the facts about decoder face `j`: symbols `E R L C` (7 5 3 0) as in `TraceAt` (`TraceAt` requires one of them), `S` (1):
    `SAt` -/
def TraceAtS (t : CT) (P : Array Nat) (syms : List Nat) (evs : List TopoSplit) (j : Nat) : Prop :=
  (syms[j]! ≠ 1 → TraceAt t P syms j) ∧
  (syms[j]! = 1 → P[j]! < t.numCorners ∧ Later P j t.opp[P[j]!]! ∧
    (t.c2v[P[j]!]! ≠ t.c2v[Eb.nextC P[j]!]! ∧ t.c2v[P[j]!]! ≠ t.c2v[Eb.prevC P[j]!]! ∧
      t.c2v[Eb.nextC P[j]!]! ≠ t.c2v[Eb.prevC P[j]!]!) ∧ SAt t P syms evs j)

instance (t : CT) (P : Array Nat) (syms : List Nat) (evs : List TopoSplit) (j : Nat) :
    Decidable (TraceAtS t P syms evs j) := by
  unfold TraceAtS; infer_instance

/-- **the abstract encoder trace with `S`, topology split events and arbitrary start faces**: `P` = the gate corners in
    DECODER order (symbols first, then the interior start faces), `syms` = the symbols in decoder order (7 E, 5 R, 3 L, 0 C,
    1 S), `evs` = the split events in the decoder's list order, `starts` = per remaining stack entry, in pop order, the
    start-face flag and the decoder index of the active corner -/
structure TraceS (t : CT) (P : Array Nat) (syms : List Nat) (evs : List TopoSplit) (starts : List (Bool × Nat)) : Prop where
  size : syms.length + (starts.filter (·.1)).length = P.size
  distinct : ∀ i, i < P.size → ∀ i', i' < P.size → P[i]! / 3 = P[i']! / 3 → i = i'
  evok : EvOK syms evs
  face : ∀ j, j < syms.length → TraceAtS t P syms evs j
  comps : starts.map (·.2) = stk syms evs syms.length
  init : ∀ k, k < starts.length → starts[k]!.1 = true → InitAt t P syms.length (initIndex syms starts k) starts[k]!.2

instance (t : CT) (P : Array Nat) (syms : List Nat) (evs : List TopoSplit) (starts : List (Bool × Nat)) :
    Decidable (TraceS t P syms evs starts) :=
  decidable_of_iff (syms.length + (starts.filter (·.1)).length = P.size ∧
    (∀ i, i < P.size → ∀ i', i' < P.size → P[i]! / 3 = P[i']! / 3 → i = i') ∧ EvOK syms evs ∧
    (∀ j, j < syms.length → TraceAtS t P syms evs j) ∧ starts.map (·.2) = stk syms evs syms.length ∧
    ∀ k, k < starts.length → starts[k]!.1 = true → InitAt t P syms.length (initIndex syms starts k) starts[k]!.2)
    ⟨fun h => ⟨h.1, h.2.1, h.2.2.1, h.2.2.2.1, h.2.2.2.2.1, h.2.2.2.2.2⟩,
     fun h => ⟨h.size, h.distinct, h.evok, h.face, h.comps, h.init⟩⟩

/-- a face of an `S`-free trace satisfies the facts of `TraceAt` -/
theorem TraceAtS.toTraceAt {t : CT} {P : Array Nat} {syms : List Nat} {evs : List TopoSplit} {j : Nat}
    (h : TraceAtS t P syms evs j) (hs : syms[j]! ≠ 1) : TraceAt t P syms j := h.1 hs

/-! ### validated instances of `TraceS` -/

/-- the 2×2 grid of quads (8 triangles): decoder order `E E S R R E S C`: two `S`, each joins two components -/
example : TraceS ⟨#[0, 1, 4, 0, 4, 3, 1, 2, 5, 1, 5, 4, 3, 4, 7, 3, 7, 6, 4, 5, 8, 4, 8, 7],
      #[10, 5, inv, 14, inv, 1, inv, 11, inv, 20, 0, 7, 22, 17, 3, inv, inv, 13, inv, 23, 9, inv, 12, 19],
      #[3, 1, 7, 15, 4, 8, 17, 23, 20], 0, 0⟩
    #[3, 17, 12, 23, 20, 7, 10, 2] [7, 7, 1, 5, 5, 7, 1, 0] [] [(false, 7)] := by decide

/-- the 3×3 grid with the middle quad removed (16 triangles, an annulus): ONE topology split event
    `(source = 15, split = 0, edge = 0)`: the last decoded symbol `S` (index 15) takes its left corner from the first decoded
    face (index 0, an `E`): `Previous(P[0])` -/
example : TraceS ⟨#[0, 1, 5, 0, 5, 4, 1, 2, 6, 1, 6, 5, 2, 3, 7, 2, 7, 6, 4, 5, 9, 4, 9, 8, 6, 7, 11, 6, 11, 10, 8, 9, 13, 8,
        13, 12, 9, 10, 14, 9, 14, 13, 10, 11, 15, 10, 15, 14],
      #[10, 5, inv, 20, inv, 1, 16, 11, inv, inv, 0, 7, inv, 17, inv, 26, 6, 13, inv, 23, 3, 32, inv, 19, inv, 29, 15, 44, inv,
        25, 40, 35, 21, inv, inv, 31, 46, 41, inv, inv, 30, 37, inv, 47, 27, inv, 36, 43],
      #[3, 1, 7, 13, 21, 11, 27, 14, 33, 20, 37, 26, 35, 41, 47, 44], 0, 0⟩
    #[3, 19, 21, 35, 30, 41, 36, 47, 44, 29, 26, 13, 16, 7, 10, 2] [7, 3, 5, 7, 1, 5, 3, 5, 5, 3, 5, 7, 1, 5, 3, 1]
    [⟨15, 0, 0⟩] [(false, 15)] := by decide

/-- the 3×3 torus (18 triangles, closed, genus 1): 17 symbols and one interior start face; TWO split events, both on a
    right edge; decoder list order = decreasing source -/
example : TraceS ⟨#[0, 1, 4, 0, 4, 3, 1, 2, 5, 1, 5, 4, 2, 0, 3, 2, 3, 5, 3, 4, 7, 3, 7, 6, 4, 5, 8, 4, 8, 7, 5, 3, 6, 5, 6, 8,
        6, 7, 1, 6, 1, 0, 7, 8, 2, 7, 2, 1, 8, 6, 0, 8, 0, 2],
      #[10, 5, 39, 20, 12, 1, 16, 11, 45, 26, 0, 7, 4, 17, 51, 32, 6, 13, 28, 23, 3, 38, 30, 19, 34, 29, 9, 44, 18, 25, 22,
        35, 15, 50, 24, 31, 46, 41, 21, 2, 48, 37, 52, 47, 27, 8, 36, 43, 40, 53, 33, 14, 42, 49],
      #[41, 9, 15, 14, 4, 10, 32, 22, 28], 0, 0⟩
    #[42, 35, 22, 32, 17, 14, 53, 48, 41, 36, 45, 7, 9, 25, 28, 20, 5, 1]
    [7, 7, 7, 1, 3, 5, 1, 1, 5, 0, 1, 0, 5, 0, 0, 0, 0] [⟨16, 6, 1⟩, ⟨15, 9, 1⟩] [(true, 16)] := by decide

/-! ## the pure decoder with `S` -/

/-- the tables of `connMain` -/
structure DSS where
  c2v : Array Nat
  opp : Array Nat
  vc : Array Nat
  hole : Array Bool
  stack : Array Nat
  /-- `topology_split_active_corners` -/
  splitActive : Array Nat
  /-- `invalid_vertices` -/
  invalid : Array Nat
deriving DecidableEq

def DSS.base (s : DSS) : DS := ⟨s.c2v, s.opp, s.vc, s.hole, s.stack⟩

def DSS.withBase (s : DSS) (b : DS) : DSS :=
  { s with c2v := b.c2v, opp := b.opp, vc := b.vc, hole := b.hole, stack := b.stack }

/-- `n` symbols, `nf` faces (symbols + interior start faces), `maxV` = `is_vert_hole_.size()` -/
def DSS.init (n nf maxV : Nat) : DSS :=
  ⟨Array.replicate (3 * nf) inv, Array.replicate (3 * nf) inv, #[], Array.replicate maxV true, #[],
    Array.replicate n inv, #[]⟩

/-- the split bookkeeping after `E / R / L` at decoder index `j` (`IsTopologySplit` loop): every event whose source is this
    symbol records the corner `Next / Previous` of the new active corner `3 j` for its split symbol -/
def applySplits (n : Nat) (evs : List TopoSplit) (j : Nat) (sa : Array Nat) : Array Nat :=
  evs.foldl (fun sa ev =>
    if ev.source = n - 1 - j ∧ ev.split < n then
      sa.set! (n - 1 - ev.split) (if ev.edge = 1 then 3 * j + 1 else 3 * j + 2)
    else sa) sa

/-- `MergeVertices` / the relabelling loop of `TOPOLOGY_S` as a pure relabelling: every corner of `vN` becomes a corner of `vP` -/
def mergeV (c2v : Array Nat) (vN vP : Nat) : Array Nat := (c2v.toList.map fun v => if v = vN then vP else v).toArray

theorem mergeV_eq (c2v : Array Nat) (vN vP : Nat) : mergeV c2v vN vP = c2v.map fun v => if v = vN then vP else v := by
  cases c2v
  simp [mergeV]

/-- `TOPOLOGY_S` creating face `j`: `b` = the popped active corner (right neighbour), `a` = the split-active corner of
    this symbol if there is one, else the next active corner (left neighbour); corner `3 j + 1` is glued to `b`, corner
    `3 j + 2` to `a`; `Vertex(Next(b))` is merged into `Vertex(Previous(a))` -/
def stepS (j : Nat) (s : DSS) : DSS :=
  let b := s.stack.back!
  let st1 := s.stack.pop
  let it := s.splitActive[j]!
  let st2 := if it ≠ inv then st1.push it else st1
  let a := st2.back!
  let vP := s.c2v[Eb.prevC a]!
  let vN := s.c2v[Eb.nextC b]!
  let vB := s.c2v[Eb.prevC b]!
  let c2v1 := ((s.c2v.set! (3 * j) vP).set! (3 * j + 1) s.c2v[Eb.nextC a]!).set! (3 * j + 2) vB
  let vc1 := s.vc.set! vB (3 * j + 2)
  { c2v := mergeV c2v1 vN vP
    opp := glue (glue s.opp a (3 * j + 2)) b (3 * j + 1)
    vc := (vc1.set! vP vc1[vN]!).set! vN inv
    hole := s.hole
    stack := st2.set! (st2.size - 1) (3 * j)
    splitActive := s.splitActive
    invalid := s.invalid.push vN }

/-- one symbol of a sequence with `n` symbols and the split events `evs` -/
def stepSS (n : Nat) (evs : List TopoSplit) (sym j : Nat) (s : DSS) : DSS :=
  if sym = 1 then stepS j s
  else if sym = 0 then s.withBase (stepC j s.base)
  else
    let s' := s.withBase (step sym j s.base)
    { s' with splitActive := applySplits n evs j s'.splitActive }

/-- the decoder's tables after `j` symbols -/
def StS (syms : List Nat) (evs : List TopoSplit) (nf maxV : Nat) : Nat → DSS
  | 0 => DSS.init syms.length nf maxV
  | j+1 => stepSS syms.length evs syms[j]! j (StS syms evs nf maxV j)

/-- without `S` and without events the base tables are those of `DecSim.St` -/
theorem StS_base (syms : List Nat) (nf maxV : Nat) (hs : ∀ j, j < syms.length → syms[j]! ≠ 1)
    (hc : ∀ j, j < syms.length → syms[j]! = 0 ∨ syms[j]! = 7 ∨ syms[j]! = 5 ∨ syms[j]! = 3) :
    ∀ j, j ≤ syms.length → (StS syms [] nf maxV j).base = St syms nf maxV j
  | 0, _ => rfl
  | j+1, h => by
    have ih := StS_base syms nf maxV hs hc j (by omega)
    have h1 := hs j (by omega)
    show (stepSS syms.length [] syms[j]! j (StS syms [] nf maxV j)).base = step syms[j]! j (St syms nf maxV j)
    unfold stepSS
    rw [if_neg h1]
    by_cases h0 : syms[j]! = 0
    · rw [if_pos h0, ← ih]
      have : step syms[j]! j (StS syms [] nf maxV j).base = stepC j (StS syms [] nf maxV j).base := by
        unfold step; rw [h0]; simp
      rw [this]
      rfl
    · rw [if_neg h0, ← ih]
      rfl

/-! ## the invariant: the gluing part of `S` -/

/-- the gluing map of `S`: corner `3 j + 1` ↦ `b`, corner `3 j + 2` ↦ `a` -/
def gS (j a b x : Nat) : Nat := if x = 3 * j + 1 then b else if x = 3 * j + 2 then a else inv

/-- **`OInv` is preserved by the two gluings of `S`**: `a` (`cornerA`) and `b` (`cornerB`) are decoded corners whose images
    are the encoder's left and right neighbour of the gate corner `P[j]` (what `SAt` says, through `stk` / `splitActive`),
    the gate edge itself is a boundary or decoded later -/
theorem OInv.stepS {t : CT} {P : Array Nat} (hC : Ctx t P) {j : Nat} {dopp : Array Nat} (hO : OInv t P j dopp)
    (hj : j < P.size) (a b : Nat) (ha : a < 3 * j) (hb : b < 3 * j) (hab : a ≠ b)
    (hpa : phi P a = t.opp[Eb.prevC P[j]!]!) (hpb : phi P b = t.opp[Eb.nextC P[j]!]!)
    (hg : Later P j t.opp[P[j]!]!) :
    OInv t P (j + 1) (glue (glue dopp a (3 * j + 2)) b (3 * j + 1)) := by
  have hos := hO.size
  have ho' : ∀ d, (glue (glue dopp a (3 * j + 2)) b (3 * j + 1))[d]! =
      if d = 3 * j + 1 then b else if d = b then 3 * j + 1 else if d = 3 * j + 2 then a else if d = a then 3 * j + 2
      else dopp[d]! := by
    intro d
    rw [glue_get _ _ _ _ (by rw [glue_size]; omega) (by rw [glue_size]; omega), glue_get _ _ _ _ (by omega) (by omega)]
  have hnew : ∀ x, 3 * j ≤ x → x < 3 * j + 3 → x = 3 * j ∨ x = 3 * j + 1 ∨ x = 3 * j + 2 := by intros; omega
  refine hO.step hC hj _ (gS j a b) (by rw [glue_size, glue_size]) ?_ ?_ ?_ ?_ ?_
  · intro x h1 h2
    rcases hnew x h1 h2 with rfl | rfl | rfl
    · rw [ho', if_neg (by omega), if_neg (by omega), if_neg (by omega), if_neg (by omega)]
      simp only [gS]
      rw [if_neg (by omega), if_neg (by omega)]
      exact hO.o3 _ (by omega) (by omega)
    · rw [ho', if_pos rfl]; simp [gS]
    · rw [ho', if_neg (by omega), if_neg (by omega), if_pos rfl]; simp [gS]
  · intro x h1 h2 hne
    rcases hnew x h1 h2 with rfl | rfl | rfl
    · exact absurd (by simp [gS]) hne
    · have e : gS j a b (3 * j + 1) = b := by simp [gS]
      rw [e]
      refine ⟨hb, ?_, ?_⟩
      · rw [phi_1, hpb]
      · rw [ho', if_neg (by omega), if_pos rfl]
    · have e : gS j a b (3 * j + 2) = a := by simp [gS]
      rw [e]
      refine ⟨ha, ?_, ?_⟩
      · rw [phi_2, hpa]
      · rw [ho', if_neg (by omega), if_neg hab, if_neg (by omega), if_pos rfl]
  · intro x h1 h2 hi
    rcases hnew x h1 h2 with rfl | rfl | rfl
    · rw [phi_0]; exact hg
    · have e : gS j a b (3 * j + 1) = b := by simp [gS]
      rw [e] at hi
      have := hC.fits'
      omega
    · have e : gS j a b (3 * j + 2) = a := by simp [gS]
      rw [e] at hi
      have := hC.fits'
      omega
  · intro d hd hex
    have k1 := hex (3 * j + 1) (by omega) (by omega)
    have k2 := hex (3 * j + 2) (by omega) (by omega)
    have e1 : gS j a b (3 * j + 1) = b := by simp [gS]
    have e2 : gS j a b (3 * j + 2) = a := by simp [gS]
    rw [e1] at k1
    rw [e2] at k2
    rw [ho', if_neg (by omega), if_neg (fun e => k1 e.symm), if_neg (by omega), if_neg (fun e => k2 e.symm)]
  · intro d h1 h2
    rw [ho', if_neg (by omega), if_neg (by omega), if_neg (by omega), if_neg (by omega)]
    exact hO.o3 _ (by omega) h2

/-- … for the tables of `stepS` -/
theorem oinv_stepS {t : CT} {P : Array Nat} (hC : Ctx t P) {j : Nat} {s : DSS} (hO : OInv t P j s.opp) (hj : j < P.size)
    (a b : Nat) (hB : s.stack.back! = b)
    (hA : (if s.splitActive[j]! ≠ inv then s.stack.pop.push s.splitActive[j]! else s.stack.pop).back! = a)
    (ha : a < 3 * j) (hb : b < 3 * j) (hab : a ≠ b)
    (hpa : phi P a = t.opp[Eb.prevC P[j]!]!) (hpb : phi P b = t.opp[Eb.nextC P[j]!]!)
    (hg : Later P j t.opp[P[j]!]!) : OInv t P (j + 1) (stepS j s).opp := by
  show OInv t P (j + 1) (glue (glue s.opp _ (3 * j + 2)) s.stack.back! (3 * j + 1))
  rw [hA, hB]
  exact hO.stepS hC hj a b ha hb hab hpa hpb hg

/-! ### validated instances of the pure decoder: the right-hand sides are the outputs of the real `connMain` (kind 0, the
    same symbols and events, `removeInvalid = true`) -/

/-- 2×2 grid: `E E S R R E S C` -/
example :
    let s := StS [7, 7, 1, 5, 5, 7, 1, 0] [] 8 11 8
    s.c2v = #[0, 1, 2, 3, 2, 5, 2, 1, 5, 5, 1, 6, 6, 1, 7, 8, 7, 10, 7, 1, 10, 1, 0, 10] ∧
    s.opp = #[8, inv, 23, 7, inv, inv, 11, 3, 0, 14, inv, 6, 20, inv, 9, 19, inv, inv, 22, 15, 12, inv, 18, 2] ∧
    s.vc = #[0, 1, 4, 3, inv, 9, 12, 16, 15, inv, 23] ∧ s.stack = #[21] ∧ s.invalid = #[4, 9] := by decide +kernel

/-- 3×3 grid with a hole: the event `(15, 0, 0)` makes the last `S` take `cornerA = 3·0 + 2` from `splitActive[15]` -/
example :
    let s := StS [7, 3, 5, 7, 1, 5, 3, 5, 5, 3, 5, 7, 1, 5, 3, 1] [⟨15, 0, 0⟩] 16 19 16
    s.c2v = #[0, 1, 2, 1, 3, 2, 2, 3, 4, 5, 4, 7, 4, 3, 7, 7, 3, 8, 3, 9, 8, 8, 9, 10, 10, 9, 11, 9, 12, 11, 11, 12, 13, 14,
        13, 16, 13, 12, 16, 16, 12, 17, 12, 1, 17, 1, 0, 17] ∧
    s.opp = #[4, inv, 47, 8, 0, inv, 14, inv, 3, 13, inv, inv, 17, 9, 6, 19, inv, 12, 23, 15, inv, 26, inv, 18, 28, inv, 21, 32,
        24, inv, 38, inv, 27, 37, inv, inv, 41, 33, 30, 43, inv, 36, 46, 39, inv, inv, 42, 2] ∧
    s.vc = #[0, 43, 6, 4, 10, 9, inv, 15, 21, 19, 24, 30, 28, 34, 33, inv, 39, 47, inv] ∧ s.stack = #[45] ∧
    s.invalid = #[6, 15, 18] := by decide +kernel

/-- 3×3 torus (17 symbols, 18 faces: the interior start face is created after the symbol loop): two events -/
example :
    let s := StS [7, 7, 7, 1, 3, 5, 1, 1, 5, 0, 1, 0, 5, 0, 0, 0, 0] [⟨16, 6, 1⟩, ⟨15, 9, 1⟩] 18 13 17
    s.c2v = #[0, 3, 2, 3, 4, 5, 0, 5, 8, 5, 4, 8, 4, 2, 8, 8, 2, 10, 2, 3, 10, 3, 5, 10, 10, 5, 11, 5, 0, 11, 0, 2, 11, 2, 4, 11,
        11, 4, 12, 4, 3, 12, 3, 0, 12, 0, 8, 12, 8, 10, 12, inv, inv, inv] ∧
    s.opp = #[20, 32, 44, 11, 23, 41, 10, 47, 29, 13, 6, 3, 17, 9, 35, 19, 50, 12, 22, 15, 0, 26, 18, 4, 28, inv, 21, 31, 24, 8,
        34, 27, 1, 38, 30, 14, 40, inv, 33, 43, 36, 5, 46, 39, 2, 49, 42, 7, inv, 45, 16, inv, inv, inv] ∧
    s.vc = #[6, inv, 13, 1, 4, 7, inv, inv, 15, inv, 24, 36, 50] ∧ s.stack = #[48] ∧ s.invalid = #[7, 9, 1, 6] := by
  decide +kernel

/-- the index stack `stk` is the decoder's stack: `stack = (stk …).reverse.map (3 * ·)` on the instances -/
example : ((stk [7, 7, 1, 5, 5, 7, 1, 0] [] 6).reverse.map (3 * ·)).toArray = (StS [7, 7, 1, 5, 5, 7, 1, 0] [] 8 11 6).stack := by
  decide +kernel

end Draco.EbEnc.DecSim
