import DracoModel.EbDecoder
import DracoProofs.RobustStatus
/-
  DracoProofs.EbStatus — C02 status discipline of the Edgebreaker body decoder: started with status `ok`,
  `Eb.decodeEdgebreaker opts` returns a geometry and leaves the status `ok`, or returns nothing and leaves a
  status different from `ok` (error / unsupported) — for every input.  A structural walk over the whole
  decoder (connectivity, traversal start, attribute controller, prediction data).
-/
namespace Draco.Eb
open Draco Draco.DecM Draco.Robust

theorem disc_tag (t : String) : Disc (tag t) := by
  refine ⟨fun s hs => ⟨fun s' h => ?_, fun a s' h => ?_⟩⟩
  · simp [tag] at h
  · simp only [tag, Prod.mk.injEq] at h; rw [← h.2]; exact hs

theorem disc_peekRest : Disc peekRest := by
  refine ⟨fun s hs => ⟨fun s' h => ?_, fun a s' h => ?_⟩⟩
  · simp [peekRest] at h
  · simp only [peekRest, Prod.mk.injEq] at h; rw [← h.2]; exact hs

theorem disc_getState : Disc (fun s => (some s, s) : DecM DSt) := by
  refine ⟨fun s hs => ⟨fun s' h => ?_, fun a s' h => ?_⟩⟩
  · simp at h
  · simp only [Prod.mk.injEq] at h; rw [← h.2]; exact hs

theorem disc_setRest (rest : Bytes) : Disc (fun s => (some (), { s with rest := rest }) : DecM Unit) := by
  refine ⟨fun s hs => ⟨fun s' h => ?_, fun a s' h => ?_⟩⟩
  · simp at h
  · simp only [Prod.mk.injEq] at h; rw [← h.2]; exact hs

theorem disc_liftR {α} (r : R α) : Disc (liftR r) := by
  unfold liftR
  split
  · exact disc_pure _
  · exact disc_fail
  · exact disc_failWith _ (by simp)
  · exact disc_failWith _ (by simp)
  · exact disc_failWith _ (by simp)

theorem disc_countV (ver : Nat) : Disc (countV ver) := by
  unfold countV; split
  · exact disc_rdU32
  · exact disc_varint _

theorem disc_repeatM (m : DecM Unit) (hm : Disc m) : ∀ n, Disc (repeatM m n)
  | 0 => by simp only [repeatM]; exact disc_pure ()
  | n+1 => by
    simp only [repeatM]
    exact disc_bind (m := m) hm (fun _ => disc_repeatM m hm n)

theorem disc_withBuffer {α} (bs : Bytes) (m : DecM α) (hm : Disc m) : Disc (withBuffer bs m) := by
  refine ⟨fun s hs => ?_⟩
  have h := hm.prop { s with rest := bs } hs
  unfold withBuffer
  cases hr : m { s with rest := bs } with
  | mk r s1 =>
    cases r with
    | none =>
      refine ⟨fun s' h' => ?_, fun a s' h' => (by cases h')⟩
      cases h'; exact h.1 s1 hr
    | some a =>
      refine ⟨fun s' h' => (by cases h'), fun b s' h' => ?_⟩
      cases h'; exact h.2 a s1 hr

theorem disc_forIn_list {α β} (f : α → β → DecM (ForInStep β)) (hf : ∀ a b, Disc (f a b)) :
    ∀ (l : List α) (init : β), Disc (forIn l init f)
  | [], init => by rw [List.forIn_nil]; exact disc_pure _
  | a :: as, init => by
    rw [List.forIn_cons]
    refine disc_bind (hf a init) (fun r => ?_)
    cases r with
    | done b => exact disc_pure _
    | yield b => exact disc_forIn_list f hf as b

theorem disc_forIn_range {β} (r : Std.Legacy.Range) (f : Nat → β → DecM (ForInStep β)) (hf : ∀ a b, Disc (f a b))
    (init : β) : Disc (forIn r init f) := by
  rw [Std.Legacy.Range.forIn_eq_forIn_range']
  exact disc_forIn_list f hf _ init

attribute [local irreducible] DecM.require DecM.lift DecM.alloc DecM.tag DecM.remaining DecM.version DecM.rdU8
  DecM.rdU16 DecM.rdU32 DecM.rdI8 DecM.rdI32 DecM.varint DecM.bytes countV peekRest liftR DecM.replicateM' DecM.mapM'
  repeatM withBuffer DecM.fail DecM.failWith DecM.declare DecM.andThen DecM.ret

/-- one step of the structural walk, with the primitives of the Edgebreaker decoder -/
macro "ebdisc_step" : tactic => `(tactic| first
  | apply disc_bind
  | apply disc_ite
  | intro _
  | exact disc_tag _ | exact disc_peekRest | exact disc_liftR _ | exact disc_countV _
  | exact disc_getState | exact disc_setRest _
  | exact disc_pure _ | exact disc_fail | exact disc_failWith _ (by simp) | exact disc_require _
  | exact disc_rdU8 | exact disc_rdU16 | exact disc_rdU32 | exact disc_rdI8 | exact disc_rdI32
  | exact disc_varint _ | exact disc_bytes _ | exact disc_lift _ | exact disc_remaining | exact disc_version
  | exact disc_alloc _ _ | exact disc_declare _ | exact disc_ofOption _
  | exact disc_decodeAttDescs | exact disc_decodeTransformParams _ _ | exact disc_storeValuesCheck _
  | exact disc_finishSeqAttribute _ _ _ _
  | apply disc_repeatM
  | apply disc_withBuffer
  | apply disc_forIn_range
  | apply disc_forIn_list
  | apply disc_replicateM'
  | apply disc_mapM'
  | split)

theorem disc_splits_raw : ∀ (k : Nat) (acc : List TopoSplit), Disc (decodeTopologySplits.raw k acc)
  | 0, acc => by simp only [decodeTopologySplits.raw]; exact disc_pure _
  | k+1, acc => by
    simp only [decodeTopologySplits.raw]
    refine disc_bind disc_rdU32 (fun _ => disc_bind disc_rdU32 (fun _ => disc_bind disc_rdU8 (fun _ => ?_)))
    exact disc_splits_raw k _

theorem disc_splits_ids : ∀ (k last : Nat) (acc : List (Nat × Nat)), Disc (decodeTopologySplits.ids k last acc)
  | 0, last, acc => by simp only [decodeTopologySplits.ids]; exact disc_pure _
  | k+1, last, acc => by
    simp only [decodeTopologySplits.ids]
    refine disc_bind (disc_varint _) (fun _ => disc_bind (disc_varint _) (fun _ => disc_bind (disc_require _) (fun _ => ?_)))
    exact disc_splits_ids k _ _

attribute [local irreducible] decodeTopologySplits.raw decodeTopologySplits.ids in
theorem disc_decodeTopologySplits (ver numFaces : Nat) : Disc (decodeTopologySplits ver numFaces) := by
  unfold decodeTopologySplits; dsimp only
  repeat' (first | exact disc_splits_raw _ _ | exact disc_splits_ids _ _ _ | ebdisc_step)

set_option maxHeartbeats 4000000 in
theorem disc_startTraversal (ver kind numAtt numVerts numFaces : Nat) :
    Disc (startTraversal ver kind numAtt numVerts numFaces) := by
  unfold startTraversal; dsimp only
  repeat' ebdisc_step

set_option maxHeartbeats 4000000 in
attribute [local irreducible] decodeTopologySplits startTraversal in
theorem disc_decodeConnectivity : Disc decodeConnectivity := by
  unfold decodeConnectivity; dsimp only
  repeat' (first | exact disc_decodeTopologySplits _ _ | exact disc_startTraversal _ _ _ _ _ | ebdisc_step)

theorem disc_readSchemeEb (kind : Nat) : Disc (readSchemeEb kind) := by
  unfold readSchemeEb; dsimp only
  repeat' ebdisc_step

theorem disc_parentSourcesEb (scheme : Scheme) (pointIds : Array Nat) (parent : Option Parent) :
    Disc (parentSourcesEb scheme pointIds parent) := by
  unfold parentSourcesEb; dsimp only
  repeat' ebdisc_step

theorem disc_readCodedValuesEb (pre20 : Bool) (nv nc : Nat) : Disc (readCodedValuesEb pre20 nv nc) := by
  unfold readCodedValuesEb
  repeat' ebdisc_step

theorem disc_applySchemeEb (ver : Nat) (scheme : Scheme) (md : MeshData) (pos : PosSource) (posF : PosSourceF) (nc : Nat)
    (vals : Array Int) : Disc (applySchemeEb ver scheme md pos posF nc vals) := by
  unfold applySchemeEb; dsimp only
  repeat' ebdisc_step

attribute [local irreducible] readSchemeEb parentSourcesEb readCodedValuesEb applySchemeEb in
theorem disc_decodeIntegerValuesEb (kind ne nc ac : Nat) (md : MeshData) (pointIds : Array Nat) (parent : Option Parent) :
    Disc (decodeIntegerValuesEb kind ne nc ac md pointIds parent) := by
  unfold decodeIntegerValuesEb; dsimp only
  repeat' (first | exact disc_readSchemeEb _ | exact disc_parentSourcesEb _ _ _ | exact disc_readCodedValuesEb _ _ _ | exact disc_applySchemeEb _ _ _ _ _ _ _ | ebdisc_step)

theorem disc_createAttributeDecoders (ver numAtt numDecoders : Nat) :
    Disc (createAttributeDecoders ver numAtt numDecoders) := by
  unfold createAttributeDecoders; dsimp only
  repeat' ebdisc_step

theorem disc_decodeDecoderDescs (i : Nat) : Disc (decodeDecoderDescs i) := by
  unfold decodeDecoderDescs; dsimp only
  repeat' ebdisc_step

attribute [local irreducible] decodeIntegerValuesEb in
theorem disc_decodePortable (ver : Nat) (skip : List Nat) (posAtt : Option Nat) (all : Array EbAttState)
    (md : MeshData) (pointIds m : Array Nat) (done : List EbAttState) (s0 : EbAttState) :
    Disc (decodePortable ver skip posAtt all md pointIds m done s0) := by
  unfold decodePortable; dsimp only
  repeat' (first | exact disc_decodeIntegerValuesEb _ _ _ _ _ _ _ | ebdisc_step)

theorem disc_decodePortables (ver : Nat) (skip : List Nat) (posAtt : Option Nat) (all : Array EbAttState)
    (md : MeshData) (pointIds m : Array Nat) (done : List EbAttState) :
    ∀ (mine acc : List EbAttState), Disc (decodePortables ver skip posAtt all md pointIds m done mine acc)
  | [], acc => by simp only [decodePortables]; exact disc_pure _
  | s :: rest, acc => by
    simp only [decodePortables]
    exact disc_bind (disc_decodePortable _ _ _ _ _ _ _ _ _) (fun _ => disc_decodePortables _ _ _ _ _ _ _ _ rest _)

theorem disc_decodeDataNeeded (ver : Nat) (s : EbAttState) : Disc (decodeDataNeeded ver s) := by
  unfold decodeDataNeeded
  repeat' ebdisc_step

theorem disc_transformCheck (opts : DecOpts) (ver : Nat) (s : EbAttState) : Disc (transformCheck opts ver s) := by
  unfold transformCheck; dsimp only
  repeat' ebdisc_step

attribute [local irreducible] decodePortables decodeDataNeeded transformCheck in
theorem disc_decodeOneDecoder (opts : DecOpts) (ver : Nat) (mesh : Mesh) (posAtt : Option Nat) (all : Array EbAttState)
    (i : Nat) (dec : AttDecoder) (mine done : List EbAttState) :
    Disc (decodeOneDecoder opts ver mesh posAtt all i dec mine done) := by
  unfold decodeOneDecoder; dsimp only
  repeat' (first | exact disc_decodePortables _ _ _ _ _ _ _ _ _ _ | exact disc_decodeDataNeeded _ _ | exact disc_transformCheck _ _ _ | ebdisc_step)

theorem disc_decodeDecoders (opts : DecOpts) (ver : Nat) (mesh : Mesh) (posAtt : Option Nat) (all : Array EbAttState) :
    ∀ (work : List (Nat × AttDecoder × List EbAttState)) (done : List EbAttState),
      Disc (decodeDecoders opts ver mesh posAtt all work done)
  | [], done => by simp only [decodeDecoders]; exact disc_pure _
  | (i, dec, mine) :: rest, done => by
    simp only [decodeDecoders]
    exact disc_bind (disc_decodeOneDecoder _ _ _ _ _ _ _ _ _) (fun _ => disc_decodeDecoders _ _ _ _ _ rest _)

attribute [local irreducible] createAttributeDecoders decodeDecoderDescs decodeDecoders in
theorem disc_decodeAttributes (opts : DecOpts) (ver : Nat) (mesh : Mesh) : Disc (decodeAttributes opts ver mesh) := by
  unfold decodeAttributes; dsimp only
  repeat' (first | exact disc_createAttributeDecoders _ _ _ | exact disc_decodeDecoderDescs _ | exact disc_decodeDecoders _ _ _ _ _ _ _ | ebdisc_step)

attribute [local irreducible] decodeConnectivity decodeAttributes in
/-- **status discipline of the Edgebreaker body decoder** -/
theorem disc_decodeEdgebreaker (opts : DecOpts) : Disc (decodeEdgebreaker opts) := by
  unfold decodeEdgebreaker
  repeat' (first | exact disc_decodeConnectivity | exact disc_decodeAttributes _ _ _ | ebdisc_step)

end Draco.Eb
