import DracoProofs.EbStream
/-
  The stages of a successful run of the Edgebreaker encoder model (`encodeEdgebreaker` is a composition of named
  functions): what each stage returned, and how the stream and the recorded pieces are made of it.
-/
open Draco Draco.EbEnc Draco.SeqEnc
open Draco.Eb hiding iabs nextC prevC
namespace Draco.EbEnc

/-- the stages of a successful `encodeEdgebreaker` -/
structure EncStages (ch : EbChoices) (g : Geometry) (md : Option GeometryMetadata) (o : EbOpts) (enc : Encoded) : Prop where
  stages : ∃ mdBytes coder posFaces acv cs couts,
    encodeMetadataPart md = some mdBytes ∧
    traversalCoder o g.faces.length = some coder ∧
    connInputs g (useSingleConnectivity o) = .ok (posFaces, acv) ∧
    encodeConnectivity ch.conn (coder == 2) posFaces acv = .ok enc.conn ∧
    generateControllers o g.atts.toArray g.numPoints enc.conn = .ok cs ∧
    cs.size ≤ 255 ∧
    rearrangeEncoders g.atts.toArray cs = .ok enc.order ∧
    encodeControllers ch o g enc.conn cs (cs.any fun c => c.encs.any fun s => s.scheme.needsParent)
      (namedAttributeId g.atts.toArray posType) enc.order.toList none = .ok couts ∧
    enc.controllers = cs ∧ enc.couts = couts.toArray ∧
    enc.bytes = ebHeader md.isSome ++ (mdBytes ++ (([coder] ++ enc.conn.bytes) ++
      (attHeaderBytes g.atts.toArray enc.conn cs enc.order ++ couts.flatMap (·.bytes)))) ∧
    enc.numEncodedFaces = enc.conn.ct.numFaces - enc.conn.ct.numDegenerated ∧
    computeNumberOfEncodedPoints g.atts.toArray enc.conn ((cs.toList.filterMap fun c =>
      if c.onAttTable && c.attDataId ≥ 0 then some (enc.conn.atts[c.attDataId.toNat]!).conn else none).toArray) =
        .ok enc.numEncodedPoints ∧
    enc.blocks = ((couts.flatMap (·.items.toList)).filterMap (·.block)).toArray

theorem encodeEdgebreaker_stages (ch : EbChoices) (g : Geometry) (md : Option GeometryMetadata) (o : EbOpts) (enc : Encoded)
    (h : encodeEdgebreaker ch g md o = .ok enc) : EncStages ch g md o enc := by
  unfold encodeEdgebreaker at h
  simp only [] at h
  split at h
  · rename_i mdBytes hmd
    split at h
    · rename_i coder hcoder
      rw [bind_ok_iff] at h
      obtain ⟨⟨posFaces, acv⟩, hci, h⟩ := h
      simp only [] at h
      rw [bind_ok_iff] at h
      obtain ⟨conn, hconn, h⟩ := h
      rw [bind_ok_iff] at h
      obtain ⟨cs, hcs, h⟩ := h
      split at h
      · simp [throw, throwThe, MonadExceptOf.throw, bind, Except.bind] at h
      · rename_i h255
        rw [bind_ok_iff] at h
        obtain ⟨order, horder, h⟩ := h
        rw [bind_ok_iff] at h
        obtain ⟨couts, hcouts, h⟩ := h
        rw [bind_ok_iff] at h
        obtain ⟨np, hnp, h⟩ := h
        simp only [pure, Except.pure, Except.ok.injEq] at h
        subst h
        refine ⟨mdBytes, coder, posFaces, acv, cs, couts, hmd, hcoder, hci, hconn, hcs, by omega, horder, hcouts, rfl, rfl,
          ?_, rfl, hnp, rfl⟩
        simp [ebHeader, List.append_assoc]
    · simp [throw, throwThe, MonadExceptOf.throw] at h
  · simp [throw, throwThe, MonadExceptOf.throw] at h

/-- the chain of attribute encoders: each one gets the parent attribute the previous one left -/
inductive CtrlChain (ch : EbChoices) (o : EbOpts) (g : Geometry) (conn : ConnEnc) (cs : Array Controller)
    (anp : Bool) (posId : Option Nat) : List Nat → Option ParentAtt → List CtrlOut → Prop
  | nil (p) : CtrlChain ch o g conn cs anp posId [] p []
  | cons (e es p c cs') : encodeController ch o g conn cs anp posId e p = .ok c →
      CtrlChain ch o g conn cs anp posId es c.parent cs' → CtrlChain ch o g conn cs anp posId (e :: es) p (c :: cs')

theorem encodeControllers_chain (ch : EbChoices) (o : EbOpts) (g : Geometry) (conn : ConnEnc) (cs : Array Controller)
    (anp : Bool) (posId : Option Nat) : ∀ (es : List Nat) (p : Option ParentAtt) (couts : List CtrlOut),
    encodeControllers ch o g conn cs anp posId es p = .ok couts → CtrlChain ch o g conn cs anp posId es p couts := by
  intro es
  induction es with
  | nil =>
    intro p couts h
    simp only [encodeControllers, pure, Except.pure, Except.ok.injEq] at h
    subst h
    exact .nil p
  | cons e es ih =>
    intro p couts h
    unfold encodeControllers at h
    rw [bind_ok_iff] at h
    obtain ⟨c, hc, h⟩ := h
    rw [bind_ok_iff] at h
    obtain ⟨rest, hrest, h⟩ := h
    simp only [pure, Except.pure, Except.ok.injEq] at h
    subst h
    exact .cons e es p c rest hc (ih _ _ hrest)

/-- what one attribute encoder did -/
theorem encodeController_spec (ch : EbChoices) (o : EbOpts) (g : Geometry) (conn : ConnEnc) (cs : Array Controller)
    (anp : Bool) (posId : Option Nat) (e : Nat) (p : Option ParentAtt) (c : CtrlOut)
    (h : encodeController ch o g conn cs anp posId e p = .ok c) :
    ∃ pts items,
      viewOfController conn (cs[e]!) = .ok c.view ∧
      sequenceOfController g conn (cs[e]!) c.view = .ok c.seq ∧
      portablePass o g anp posId c.seq.pointIds (cs[e]!).encs.toList p = .ok (pts, c.parent) ∧
      encodePass ch o g e ⟨c.view, c.seq.d2c, c.seq.v2d⟩ c.seq.pointIds c.parent (cs[e]!).encs.toList pts = .ok items ∧
      c.items = items.toArray ∧ c.ctrl = e := by
  unfold encodeController at h
  simp only [] at h
  rw [bind_ok_iff] at h
  obtain ⟨view, hview, h⟩ := h
  rw [bind_ok_iff] at h
  obtain ⟨seq, hseq, h⟩ := h
  rw [bind_ok_iff] at h
  obtain ⟨⟨pts, par⟩, hpts, h⟩ := h
  simp only [] at h
  rw [bind_ok_iff] at h
  obtain ⟨items, hitems, h⟩ := h
  simp only [pure, Except.pure, Except.ok.injEq] at h
  subst h
  exact ⟨pts, items, hview, hseq, hpts, hitems, rfl, rfl⟩

theorem portablePass_length (o : EbOpts) (g : Geometry) (anp : Bool) (posId : Option Nat) (pids : Array Nat) :
    ∀ (ss : List SeqEncSt) (p : Option ParentAtt) (pts : List (Array Int × Bytes)) (p' : Option ParentAtt),
    portablePass o g anp posId pids ss p = .ok (pts, p') → pts.length = ss.length := by
  intro ss
  induction ss with
  | nil =>
    intro p pts p' h
    simp only [portablePass, pure, Except.pure, Except.ok.injEq, Prod.mk.injEq] at h
    rw [← h.1]; rfl
  | cons s ss ih =>
    intro p pts p' h
    unfold portablePass at h
    simp only [] at h
    rw [bind_ok_iff] at h
    obtain ⟨rows, _, h⟩ := h
    rw [bind_ok_iff] at h
    obtain ⟨pt, _, h⟩ := h
    rw [bind_ok_iff] at h
    obtain ⟨par, _, h⟩ := h
    rw [bind_ok_iff] at h
    obtain ⟨⟨rest, pfin⟩, hrest, h⟩ := h
    simp only [pure, Except.pure, Except.ok.injEq, Prod.mk.injEq] at h
    rw [← h.1, List.length_cons, List.length_cons, ih _ _ _ hrest]

/-- the items of an attribute encoder, one by one -/
theorem encodePass_spec (ch : EbChoices) (o : EbOpts) (g : Geometry) (e : Nat) (mdata : MeshData) (pids : Array Nat)
    (parent : Option ParentAtt) : ∀ (ss : List SeqEncSt) (pts : List (Array Int × Bytes)) (items : List EncItem),
    pts.length = ss.length → encodePass ch o g e mdata pids parent ss pts = .ok items →
    items.length = ss.length ∧ ∀ k (h1 : k < ss.length) (h2 : k < pts.length) (h3 : k < items.length),
      encodeItem ch o g e mdata pids parent ss[k] pts[k] = .ok items[k] := by
  intro ss
  induction ss with
  | nil =>
    intro pts items _ h
    simp only [encodePass, pure, Except.pure, Except.ok.injEq] at h
    subst h
    exact ⟨rfl, fun k h1 => absurd h1 (Nat.not_lt_zero _)⟩
  | cons s ss ih =>
    intro pts items hl h
    cases pts with
    | nil => simp at hl
    | cons pt pts =>
      unfold encodePass at h
      rw [bind_ok_iff] at h
      obtain ⟨it, hit, h⟩ := h
      rw [bind_ok_iff] at h
      obtain ⟨rest, hrest, h⟩ := h
      simp only [pure, Except.pure, Except.ok.injEq] at h
      subst h
      obtain ⟨i1, i2⟩ := ih pts rest (by simpa using hl) hrest
      refine ⟨by simp [i1], ?_⟩
      intro k h1 h2 h3
      cases k with
      | zero => exact hit
      | succ k =>
        simp only [List.getElem_cons_succ]
        exact i2 k (by simpa using h1) (by simpa using h2) (by simpa using h3)

end Draco.EbEnc
